#!/usr/bin/env python3
"""Regenerates MANIFEST.json from checks/*.json (one per claimed property) and properties.jsonl."""
import json, os, glob, subprocess
V = os.path.dirname(os.path.abspath(__file__))
props = [json.loads(l) for l in open(os.path.join(V, "properties.jsonl"))]
cfgs = {}
for f in sorted(glob.glob(os.path.join(V, "checks", "C*.json"))):
    c = json.load(open(f))
    if not isinstance(c, dict) or "property" not in c:
        continue  # e.g. checks/C30_sites.json (site classification, not a check configuration)
    cfgs[c["property"]] = c
na_reasons = {}
nap = os.path.join(V, "checks", "not_applicable.json")
if os.path.exists(nap):
    na_reasons = json.load(open(nap))
hooks_commits = []
hp = os.path.join(V, "checks", "hook_commits.txt")
if os.path.exists(hp):
    hooks_commits = [l.split()[0] for l in open(hp) if l.strip() and not l.startswith("#")]
checks = []
na = []
for p in props:
    pid = p["id"]
    c = cfgs.get(pid)
    if not c or c.get("disabled"):
        na.append({"property_id": pid, "reason": na_reasons.get(pid, "no check registered yet: the model and theorems for this property are still being built (see DESIGN.md section 3)")})
        continue
    checks.append({
        "property_id": pid,
        "quick_cmd": "./check %s --tier quick" % pid,
        "thorough_cmd": "./check %s --tier thorough" % pid,
        "evidence_file": "/verif/evidence/%s.json" % pid,
        "replay_cmd_template": "./check %s --replay {path}" % pid,
        "engine": ",".join(c.get("engines", [])),
        "level_claimed": {"category": "proof", "text": c.get("level_text", ""), "design_ref": "DESIGN.md section 3, " + pid},
        "level_note": "; ".join(c.get("trusted_base", []) + c.get("assumptions", [])),
        "technique": c.get("technique", "Coq 8.16 theorems over an executable model; model tied to /repo by regenerated facts (gofacts) and a model-vs-implementation correspondence run"),
    })
engines = []
for e in sorted(glob.glob(os.path.join(V, "coq", "extract", "Extract_*.v"))):
    name = os.path.basename(e)[8:-2]
    engines.append({"name": name, "path": "coq/extract/Extract_%s.v + ocaml/drv_%s.ml" % (name, name),
                    "serves_properties": [pid for pid, c in cfgs.items() if name in c.get("engines", [])],
                    "kind_free_text": "Coq model extracted to OCaml (ExtrOcamlBasic), line protocol driver"})
m = {
    "version": 1,
    "setup_cmd": "./setup.sh",
    "hooks": {
        "guard": "verif",
        "enable": "go build -tags verif (harness module /verif/harness with replace => /repo)",
        "baseline_off_cmd": "cd /repo && go test -mod=mod -json -vet=off -count=1 -timeout 25m ./... && cd /repo/test && go test -mod=mod -json -vet=off -count=1 -timeout 25m ./...",
        "source_commits": hooks_commits,
        "add_only": True,
    },
    "engines": engines,
    "checks": checks,
    "notes": "Every check: gofacts regenerates coq/gen from /repo -> make props/<id>.vo -> extracted model vs implementation correspondence -> implementation-level sweep. KNOWN_FINDINGS.txt lists recorded findings and repaired defects.",
    "not_applicable": na,
}
json.dump(m, open(os.path.join(V, "MANIFEST.json"), "w"), indent=1)
print("checks:", len(checks), "not claimed:", len(na))
