(* Order independence of the ways the compiler consumes a Go map (C30).
   A Go map ranged over is a list of bindings with pairwise distinct keys in
   an unspecified order: any permutation of it.  Each lemma says that a way
   of folding over such a list gives the same result for every permutation. *)
From Coq Require Import List NArith ZArith Lia Bool Permutation Sorted.
Import ListNotations.

Section Generic.
  Context {A B : Type}.

  (* a fold whose steps commute gives the same result over any permutation *)
  Lemma fold_left_comm_perm (f : A -> B -> A) :
    (forall a x y, f (f a x) y = f (f a y) x) ->
    forall l l', Permutation l l' -> forall a, fold_left f l a = fold_left f l' a.
  Proof.
    intros Hc l l' HP. induction HP as [|x l l' _ IH|x y l|l l' l'' _ IH1 _ IH2]; intros a; cbn [fold_left].
    - reflexivity.
    - apply IH.
    - rewrite Hc. reflexivity.
    - rewrite IH1. apply IH2.
  Qed.

  (* the same, when the steps commute only for distinct elements of the list *)
  Lemma fold_left_comm_perm_in (f : A -> B -> A) (P : B -> B -> Prop) :
    (forall a x y, P x y -> f (f a x) y = f (f a y) x) ->
    forall l l', Permutation l l' -> ForallOrdPairs (fun x y => P x y /\ P y x) l ->
    forall a, fold_left f l a = fold_left f l' a.
  Proof.
    intros Hc l l' HP. induction HP as [|x l l' HP' IH|x y l|l l' l'' HP1 IH1 HP2 IH2]; intros HF a; cbn [fold_left].
    - reflexivity.
    - apply IH. inversion HF; assumption.
    - inversion HF as [|? ? Hx HF']; subst. inversion Hx as [|? ? Hxy _]; subst.
      rewrite Hc by apply Hxy. reflexivity.
    - rewrite IH1 by exact HF. apply IH2.
      (* ForallOrdPairs of a symmetric relation is preserved by permutation *)
      clear - HP1 HF. induction HP1 as [|x l l' HP IH|x y l|l l' l'' _ IH1 _ IH2].
      + constructor.
      + inversion HF as [|? ? Hx HF']; subst. constructor; [|apply IH, HF'].
        eapply Permutation_Forall; eassumption.
      + inversion HF as [|? ? Hy HF']; subst. inversion HF' as [|? ? Hx HF'']; subst.
        inversion Hy as [|? ? Hyx Hyl]; subst.
        constructor; [constructor; [tauto|assumption]|]. constructor; assumption.
      + apply IH2, IH1, HF.
  Qed.
End Generic.

(* ---- 1. point updates at distinct keys (m[k] = v, arr[idx] = v, insert if absent) ---- *)

Section PointUpdate.
  Context {K V : Type} (eqb : K -> K -> bool).
  Hypothesis eqb_spec : forall a b, reflect (a = b) (eqb a b).

  Definition upd (m : K -> option V) (kv : K * V) : K -> option V :=
    fun k => if eqb (fst kv) k then Some (snd kv) else m k.

  Fixpoint lookup (l : list (K * V)) (k : K) : option V :=
    match l with
    | [] => None
    | (k', v) :: r => if eqb k' k then Some v else lookup r k
    end.

  Lemma lookup_in l k v : NoDup (map fst l) -> In (k, v) l -> lookup l k = Some v.
  Proof.
    induction l as [|[k' v'] r IH]; intros Hnd Hin; cbn [lookup]; [destruct Hin|].
    cbn [map fst] in Hnd. inversion Hnd as [|? ? Hni Hnd']; subst.
    destruct Hin as [He|Hin].
    - injection He as -> ->. destruct (eqb_spec k k); [reflexivity|contradiction].
    - destruct (eqb_spec k' k) as [->|_]; [|apply IH; assumption].
      exfalso. apply Hni. apply in_map_iff. exists (k, v). auto.
  Qed.

  Lemma lookup_none l k : ~ In k (map fst l) -> lookup l k = None.
  Proof.
    induction l as [|[k' v'] r IH]; intros Hni; cbn [lookup]; [reflexivity|].
    cbn [map fst In] in Hni. destruct (eqb_spec k' k) as [->|_]; [exfalso; apply Hni; left; reflexivity|].
    apply IH. intros H. apply Hni. right. exact H.
  Qed.

  (* lookup in a NoDup-key binding list does not depend on the order *)
  Lemma lookup_perm l l' k : NoDup (map fst l) -> Permutation l l' -> lookup l k = lookup l' k.
  Proof.
    intros Hnd HP.
    assert (Hnd' : NoDup (map fst l')) by (eapply Permutation_NoDup; [apply Permutation_map, HP|exact Hnd]).
    destruct (lookup l k) as [v|] eqn:Hl.
    - assert (Hin : In (k, v) l).
      { clear - Hl eqb_spec. induction l as [|[k' v'] r IH]; cbn [lookup] in Hl; [discriminate|].
        destruct (eqb_spec k' k) as [->|_]; [injection Hl as ->; left; reflexivity|right; apply IH, Hl]. }
      symmetry. apply lookup_in; [exact Hnd'|]. eapply Permutation_in; eassumption.
    - symmetry. apply lookup_none. intros Hin.
      assert (Hin' : In k (map fst l)) by (eapply Permutation_in; [apply Permutation_sym, Permutation_map, HP|exact Hin]).
      apply in_map_iff in Hin'. destruct Hin' as ([k0 v0] & Hk & Hin0). cbn in Hk. subst k0.
      rewrite (lookup_in _ _ _ Hnd Hin0) in Hl. discriminate.
  Qed.

  (* the map obtained by folding the updates is the last-write-wins view *)
  Lemma fold_upd_lookup l : forall m k, NoDup (map fst l) ->
    fold_left upd l m k = match lookup l k with Some v => Some v | None => m k end.
  Proof.
    induction l as [|[k' v'] r IH]; intros m k Hnd; cbn [fold_left lookup]; [reflexivity|].
    cbn [map fst] in Hnd. inversion Hnd as [|? ? Hni Hnd']; subst.
    rewrite IH by exact Hnd'. unfold upd at 1. cbn [fst snd].
    destruct (eqb_spec k' k) as [->|Hne].
    - rewrite lookup_none by exact Hni. reflexivity.
    - reflexivity.
  Qed.

  Theorem point_updates_order_independent l l' m : NoDup (map fst l) -> Permutation l l' ->
    forall k, fold_left upd l m k = fold_left upd l' m k.
  Proof.
    intros Hnd HP k.
    assert (Hnd' : NoDup (map fst l')) by (eapply Permutation_NoDup; [apply Permutation_map, HP|exact Hnd]).
    rewrite !fold_upd_lookup by assumption. rewrite (lookup_perm l l' k Hnd HP). reflexivity.
  Qed.

  (* insert-if-absent (scopes.Declare): the first declaration of a name wins; at
     distinct keys the order is irrelevant as well *)
  Definition upd_absent (m : K -> option V) (kv : K * V) : K -> option V :=
    fun k => if eqb (fst kv) k then match m k with Some v => Some v | None => Some (snd kv) end else m k.

  Lemma fold_upd_absent_lookup l : forall m k, NoDup (map fst l) ->
    fold_left upd_absent l m k = match m k with Some v => Some v | None => lookup l k end.
  Proof.
    induction l as [|[k' v'] r IH]; intros m k Hnd; cbn [fold_left lookup]; [destruct (m k); reflexivity|].
    cbn [map fst] in Hnd. inversion Hnd as [|? ? Hni Hnd']; subst.
    rewrite IH by exact Hnd'. unfold upd_absent at 1. cbn [fst snd].
    destruct (eqb_spec k' k) as [->|Hne].
    - destruct (m k); reflexivity.
    - reflexivity.
  Qed.

  Theorem insert_if_absent_order_independent l l' m : NoDup (map fst l) -> Permutation l l' ->
    forall k, fold_left upd_absent l m k = fold_left upd_absent l' m k.
  Proof.
    intros Hnd HP k.
    assert (Hnd' : NoDup (map fst l')) by (eapply Permutation_NoDup; [apply Permutation_map, HP|exact Hnd]).
    rewrite !fold_upd_absent_lookup by assumption. rewrite (lookup_perm l l' k Hnd HP). reflexivity.
  Qed.
End PointUpdate.

(* ---- 2. max / min accumulation, counting, boolean accumulation ---- *)

Section Accumulate.
  Context {B : Type}.

  Theorem max_order_independent (f : B -> Z) l l' a : Permutation l l' ->
    fold_left (fun m x => Z.max m (f x)) l a = fold_left (fun m x => Z.max m (f x)) l' a.
  Proof. intros HP. apply fold_left_comm_perm; [intros; lia|exact HP]. Qed.

  Theorem min_order_independent (f : B -> Z) l l' a : Permutation l l' ->
    fold_left (fun m x => Z.min m (f x)) l a = fold_left (fun m x => Z.min m (f x)) l' a.
  Proof. intros HP. apply fold_left_comm_perm; [intros; lia|exact HP]. Qed.

  (* counting the bindings that satisfy a condition *)
  Theorem count_order_independent (p : B -> bool) l l' a : Permutation l l' ->
    fold_left (fun n x => if p x then S n else n) l a = fold_left (fun n x => if p x then S n else n) l' a.
  Proof. intros HP. apply fold_left_comm_perm; [intros ? x y; destruct (p x), (p y); reflexivity|exact HP]. Qed.

  (* "is there a binding such that": found := found || p x *)
  Theorem exists_order_independent (p : B -> bool) l l' a : Permutation l l' ->
    fold_left (fun b x => b || p x) l a = fold_left (fun b x => b || p x) l' a.
  Proof. intros HP. apply fold_left_comm_perm; [intros ? x y; destruct (p x), (p y); rewrite ?orb_true_r, ?orb_false_r; reflexivity|exact HP]. Qed.

  Theorem forall_order_independent (p : B -> bool) l l' a : Permutation l l' ->
    fold_left (fun b x => b && p x) l a = fold_left (fun b x => b && p x) l' a.
  Proof. intros HP. apply fold_left_comm_perm; [intros ? x y; destruct (p x), (p y); rewrite ?andb_true_r, ?andb_false_r; reflexivity|exact HP]. Qed.

  (* arg-min with a strict choice (keep the candidate with the smaller position):
     when the positions are pairwise distinct the chosen element is the same *)
  Definition pick_min (pos : B -> Z) (cur : option B) (x : B) : option B :=
    match cur with
    | None => Some x
    | Some c => if (pos x <? pos c)%Z then Some x else Some c
    end.

  Theorem argmin_order_independent (pos : B -> Z) l l' a :
    Permutation l l' -> NoDup (map pos l) -> (forall c, a = Some c -> ~ In (pos c) (map pos l)) ->
    fold_left (pick_min pos) l a = fold_left (pick_min pos) l' a.
  Proof.
    intros HP. revert a. induction HP as [|x l l' HP' IH|x y l|l l' l'' HP1 IH1 HP2 IH2]; intros a Hnd Ha; cbn [fold_left].
    - reflexivity.
    - cbn [map] in Hnd. inversion Hnd as [|? ? Hni Hnd']; subst. apply IH; [exact Hnd'|].
      intros c Hc. unfold pick_min in Hc. destruct a as [c0|].
      + destruct (pos x <? pos c0)%Z; injection Hc as <-; [exact Hni|].
        intros H. apply (Ha c0 eq_refl). right. exact H.
      + injection Hc as <-. exact Hni.
    - f_equal. cbn [map] in Hnd. inversion Hnd as [|? ? Hni Hnd']; subst.
      assert (Hxy : pos y <> pos x) by (intros He; apply Hni; left; symmetry; exact He).
      unfold pick_min. destruct a as [c|].
      + assert (Hcy : pos c <> pos y) by (intros He; apply (Ha c eq_refl); left; symmetry; exact He).
        assert (Hcx : pos c <> pos x) by (intros He; apply (Ha c eq_refl); right; left; symmetry; exact He).
        destruct (Z.ltb_spec (pos y) (pos c)); destruct (Z.ltb_spec (pos x) (pos c));
          repeat match goal with |- context [(?a <? ?b)%Z] => destruct (Z.ltb_spec a b) end; try reflexivity; try lia.
      + destruct (Z.ltb_spec (pos x) (pos y)); destruct (Z.ltb_spec (pos y) (pos x)); try reflexivity; lia.
    - rewrite IH1 by assumption. apply IH2.
      + eapply Permutation_NoDup; [apply Permutation_map, HP1|exact Hnd].
      + intros c Hc Hin. apply (Ha c Hc). eapply Permutation_in; [apply Permutation_sym, Permutation_map, HP1|exact Hin].
  Qed.
End Accumulate.

(* ---- 3. set insertion ---- *)

Section SetInsert.
  Context {B : Type}.

  (* collecting into a list: the result is a permutation (same members, same multiplicities) *)
  Theorem collect_perm (l l' : list B) acc : Permutation l l' ->
    Permutation (fold_left (fun s x => x :: s) l acc) (fold_left (fun s x => x :: s) l' acc).
  Proof.
    intros HP.
    assert (H : forall (l : list B) acc, fold_left (fun s x => x :: s) l acc = rev l ++ acc).
    { induction l0 as [|x r IH]; intros a; cbn [fold_left rev]; [reflexivity|]. rewrite IH, <- app_assoc. reflexivity. }
    rewrite !H. apply Permutation_app_tail. rewrite <- !Permutation_rev. exact HP.
  Qed.

  (* a set as membership predicate: insertion order is irrelevant *)
  Theorem set_insert_order_independent (eqb : B -> B -> bool) (l l' : list B) (s : B -> bool) :
    Permutation l l' -> forall k,
    fold_left (fun s x => fun y => eqb x y || s y) l s k = fold_left (fun s x => fun y => eqb x y || s y) l' s k.
  Proof.
    intros HP k.
    assert (H : forall (l : list B) s, fold_left (fun s x => fun y => eqb x y || s y) l s k = existsb (fun x => eqb x k) l || s k).
    { induction l0 as [|x r IH]; intros s0; cbn [fold_left existsb]; [reflexivity|]. rewrite IH.
      destruct (eqb x k), (existsb (fun x0 => eqb x0 k) r); reflexivity. }
    rewrite !H. f_equal.
    destruct (existsb (fun x => eqb x k) l) eqn:E1.
    - symmetry. apply existsb_exists in E1. destruct E1 as (x & Hx & He). apply existsb_exists. exists x. split; [eapply Permutation_in; eassumption|exact He].
    - symmetry. apply not_true_is_false. intros E2. apply existsb_exists in E2. destruct E2 as (x & Hx & He).
      assert (existsb (fun x => eqb x k) l = true) by (apply existsb_exists; exists x; split; [eapply Permutation_in; [apply Permutation_sym|]; eassumption|exact He]).
      congruence.
  Qed.
End SetInsert.

(* ---- 4. collect then sort ---- *)

Section CollectSort.
  Context {B : Type} (leb : B -> B -> bool).
  Hypothesis leb_total : forall a b, leb a b = true \/ leb b a = true.
  Hypothesis leb_trans : forall a b c, leb a b = true -> leb b c = true -> leb a c = true.
  Hypothesis leb_antisym : forall a b, leb a b = true -> leb b a = true -> a = b.

  Fixpoint insert (x : B) (l : list B) : list B :=
    match l with
    | [] => [x]
    | y :: r => if leb x y then x :: l else y :: insert x r
    end.

  Definition isort (l : list B) : list B := fold_right insert [] l.

  Let le a b := leb a b = true.

  Lemma insert_perm x l : Permutation (x :: l) (insert x l).
  Proof.
    induction l as [|y r IH]; cbn [insert]; [apply Permutation_refl|].
    destruct (leb x y); [apply Permutation_refl|].
    eapply Permutation_trans; [apply perm_swap|]. apply perm_skip, IH.
  Qed.

  Lemma isort_perm l : Permutation l (isort l).
  Proof.
    induction l as [|x r IH]; cbn [isort fold_right]; [constructor|].
    eapply Permutation_trans; [apply perm_skip, IH|apply insert_perm].
  Qed.

  Lemma insert_sorted x l : StronglySorted le l -> StronglySorted le (insert x l).
  Proof.
    induction 1 as [|y r Hs IH Hall]; cbn [insert]; [repeat constructor|].
    destruct (leb x y) eqn:Hxy.
    - constructor; [constructor; assumption|]. constructor; [exact Hxy|].
      eapply Forall_impl; [|exact Hall]. intros z Hz. eapply leb_trans; eassumption.
    - constructor; [exact IH|].
      assert (Hyx : le y x) by (destruct (leb_total x y) as [H|H]; [congruence|exact H]).
      eapply Permutation_Forall; [apply insert_perm|]. constructor; assumption.
  Qed.

  Lemma isort_sorted l : StronglySorted le (isort l).
  Proof. induction l as [|x r IH]; cbn [isort fold_right]; [constructor|apply insert_sorted, IH]. Qed.

  (* two sorted lists with the same elements are equal *)
  Lemma sorted_perm_eq l : forall l', StronglySorted le l -> StronglySorted le l' -> Permutation l l' -> l = l'.
  Proof.
    induction l as [|x r IH]; intros l' Hs Hs' HP.
    - apply Permutation_nil in HP. congruence.
    - destruct l' as [|y r']; [apply Permutation_sym, Permutation_nil in HP; discriminate|].
      inversion Hs as [|? ? Hsr Hallx]; subst. inversion Hs' as [|? ? Hsr' Hally]; subst.
      assert (Hxy : x = y).
      { assert (Hinx : In x (y :: r')) by (eapply Permutation_in; [exact HP|left; reflexivity]).
        assert (Hiny : In y (x :: r)) by (eapply Permutation_in; [apply Permutation_sym, HP|left; reflexivity]).
        destruct Hinx as [->|Hinx]; [reflexivity|]. destruct Hiny as [->|Hiny]; [reflexivity|].
        rewrite Forall_forall in Hallx, Hally. apply leb_antisym; [apply Hallx, Hiny|apply Hally, Hinx]. }
      subst y. f_equal. apply IH; [assumption|assumption|]. eapply Permutation_cons_inv, HP.
  Qed.

  Theorem collect_sort_order_independent (l l' : list B) : Permutation l l' -> isort l = isort l'.
  Proof.
    intros HP. apply sorted_perm_eq; [apply isort_sorted|apply isort_sorted|].
    eapply Permutation_trans; [apply Permutation_sym, isort_perm|].
    eapply Permutation_trans; [exact HP|apply isort_perm].
  Qed.

  (* sorting by a key extracted from the bindings *)
  Theorem collect_map_sort_order_independent {A} (f : A -> B) (l l' : list A) :
    Permutation l l' -> isort (map f l) = isort (map f l').
  Proof. intros HP. apply collect_sort_order_independent, Permutation_map, HP. Qed.
End CollectSort.

(* instance: sorting numbers (line numbers, addresses) and byte strings (names) *)
Lemma Nleb_total a b : N.leb a b = true \/ N.leb b a = true.
Proof. destruct (N.leb_spec a b); [left; reflexivity|right; apply N.leb_le; lia]. Qed.
Lemma Nleb_trans a b c : N.leb a b = true -> N.leb b c = true -> N.leb a c = true.
Proof. rewrite !N.leb_le. lia. Qed.
Lemma Nleb_antisym a b : N.leb a b = true -> N.leb b a = true -> a = b.
Proof. rewrite !N.leb_le. lia. Qed.

Theorem sort_numbers_order_independent (l l' : list N) : Permutation l l' -> isort N.leb l = isort N.leb l'.
Proof. apply collect_sort_order_independent; [exact Nleb_total|exact Nleb_trans|exact Nleb_antisym]. Qed.

Fixpoint lex_leb (a b : list N) : bool :=
  match a, b with
  | [], _ => true
  | _ :: _, [] => false
  | x :: a', y :: b' => if N.ltb x y then true else if N.ltb y x then false else lex_leb a' b'
  end.

Lemma lex_total a : forall b, lex_leb a b = true \/ lex_leb b a = true.
Proof.
  induction a as [|x a IH]; intros b; [left; reflexivity|]. destruct b as [|y b]; [right; reflexivity|].
  cbn [lex_leb]. destruct (N.ltb_spec x y); [left; reflexivity|]. destruct (N.ltb_spec y x); [right; reflexivity|]. apply IH.
Qed.
Lemma lex_trans a : forall b c, lex_leb a b = true -> lex_leb b c = true -> lex_leb a c = true.
Proof.
  induction a as [|x a IH]; intros b c Hab Hbc; [reflexivity|].
  destruct b as [|y b]; [discriminate|]. destruct c as [|z c]; [cbn in Hbc; discriminate|].
  cbn [lex_leb] in *.
  destruct (N.ltb_spec x y); destruct (N.ltb_spec y z); destruct (N.ltb_spec x z); try reflexivity; try lia;
    destruct (N.ltb_spec y x); destruct (N.ltb_spec z y); destruct (N.ltb_spec z x); try discriminate; try lia.
  eapply IH; eassumption.
Qed.
Lemma lex_antisym a : forall b, lex_leb a b = true -> lex_leb b a = true -> a = b.
Proof.
  induction a as [|x a IH]; intros b Hab Hba; destruct b as [|y b]; try reflexivity; try discriminate.
  cbn [lex_leb] in *. destruct (N.ltb_spec x y); destruct (N.ltb_spec y x); try discriminate; try lia.
  assert (x = y) by lia. subst. f_equal. apply IH; assumption.
Qed.

Theorem sort_strings_order_independent (l l' : list (list N)) : Permutation l l' -> isort lex_leb l = isort lex_leb l'.
Proof. apply collect_sort_order_independent; [exact lex_total|exact lex_trans|exact lex_antisym]. Qed.
