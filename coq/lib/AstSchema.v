(* Vocabulary of the generated facts about the syntax tree package (ast):
   the schema of the record types and the per-kind selectors that
   astutil/clone.go and astutil/walk.go apply.  Data only, no proofs. *)
From Coq Require Import List NArith Bool.
Import ListNotations.
Open Scope N_scope.

(* A field of a record type.  class: 0 scalar, 1 optional child (pointer or
   interface), 2 list of children (slice).  f_static: the kinds that the Go
   type of the field allows. *)
Record field := mkField { f_id : N; f_name : list N; f_class : N; f_static : list N }.

Record kind_decl := mkKind {
  k_id : N; k_name : list N;
  k_node : bool;     (* pointer type implements ast.Node *)
  k_expr : bool;     (* pointer type implements ast.Expression *)
  k_fields : list field }.

(* How clone produces the children of one field of the record it builds. *)
Inductive cval :=
| CNil                                  (* left nil *)
| CVia (f ctx : N) (nilsafe : bool)     (* the children of source field f, each cloned in context ctx;
                                           nilsafe: the code tolerates an absent child *)
| CShare (f : N)                        (* the source children themselves (aliasing) *)
| CNew (ctx k : N)                      (* one fresh record of kind k built from constants, context ctx *)
| CBad.                                 (* not expressible: never correct *)

Inductive sval :=
| SCopy (f : N)        (* value of source scalar f (copied when it is a byte slice) *)
| SAlias (f : N)       (* the same byte slice as the source (aliasing) *)
| SConst (v : list N)
| SBad.

Record ccase := mkCcase { c_kind : N; c_kids : list (N * cval); c_scal : list (N * sval) }.

(* Walk: the children of source field f are walked in context ctx
   (context 0 is Walk itself: the child is visited). *)
Inductive witem := WVia (f ctx : N) (nilsafe : bool).
Record wcase := mkWcase { w_visit : bool; w_items : list witem }.
