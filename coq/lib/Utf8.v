(* UTF-8 encoding of code points (as Go's utf8.AppendRune does for valid runes). *)
From Verif Require Import Bytes.
Open Scope N_scope.

Definition utf8_encode (cp : N) : bytes :=
  if cp <? 128 then [cp]
  else if cp <? 2048 then [192 + cp / 64; 128 + cp mod 64]
  else if cp <? 65536 then [224 + cp / 4096; 128 + (cp / 64) mod 64; 128 + cp mod 64]
  else [240 + cp / 262144; 128 + (cp / 4096) mod 64; 128 + (cp / 64) mod 64; 128 + cp mod 64].

Definition is_surrogate (cp : N) : bool := (55296 <=? cp) && (cp <=? 57343).
Definition valid_rune (cp : N) : bool := (cp <=? 1114111) && negb (is_surrogate cp).
Definition rune_error : N := 65533.

Definition is_cont (b : N) : bool := (128 <=? b) && (b <? 192).

(* Go's utf8.DecodeRune on the head of s: (rune, size); (RuneError, 1) on
   invalid encodings; (RuneError, 0) on empty input. *)
Definition decode_rune (s : bytes) : N * nat :=
  match s with
  | [] => (rune_error, 0%nat)
  | b0 :: r =>
    if b0 <? 128 then (b0, 1%nat)
    else if b0 <? 194 then (rune_error, 1%nat)
    else if b0 <? 224 then
      match r with
      | b1 :: _ => if is_cont b1 then ((b0 - 192) * 64 + (b1 - 128), 2%nat) else (rune_error, 1%nat)
      | _ => (rune_error, 1%nat)
      end
    else if b0 <? 240 then
      match r with
      | b1 :: b2 :: _ =>
        let lo := if b0 =? 224 then 160 else 128 in
        let hi := if b0 =? 237 then 159 else 191 in
        if (lo <=? b1) && (b1 <=? hi) && is_cont b2
        then ((b0 - 224) * 4096 + (b1 - 128) * 64 + (b2 - 128), 3%nat) else (rune_error, 1%nat)
      | _ => (rune_error, 1%nat)
      end
    else if b0 <? 245 then
      match r with
      | b1 :: b2 :: b3 :: _ =>
        let lo := if b0 =? 240 then 144 else 128 in
        let hi := if b0 =? 244 then 143 else 191 in
        if (lo <=? b1) && (b1 <=? hi) && is_cont b2 && is_cont b3
        then ((b0 - 240) * 262144 + (b1 - 128) * 4096 + (b2 - 128) * 64 + (b3 - 128), 4%nat)
        else (rune_error, 1%nat)
      | _ => (rune_error, 1%nat)
      end
    else (rune_error, 1%nat)
  end.
