(* Decision trees produced by gofacts (facts_show.go) from checkShow, checkShowJS,
   checkShowJSON, renderer.Show, toString and the showIn functions.

   gofacts executes the Go code with a concrete reflect.Kind (and context) and
   splits on every condition it cannot decide (an "atom": interface
   satisfaction, identity with a well known type, the result of a recursive
   check, ...).  The result is one tree per (function, context, kind); the
   leaves say how the function returns.  The hand written model gives the atoms
   their meaning over type descriptors (model/ShowTypesM.v). *)
From Coq Require Import List NArith Bool.
Import ListNotations.
Open Scope N_scope.

(* Which type an atom talks about, relative to the type t under examination:
   t, t.Key(), t.Elem(), field.Type. For the run time functions PSelf is the
   dynamic type of the value being shown. *)
Inductive tpath := PSelf | PKey | PElem | PField.

Inductive showfn := FJS | FJSON.

(* Interfaces and well known types share one numbering: it is also the bit
   index of the corresponding flag of a type descriptor. *)
Definition i_Stringer : N := 0.
Definition i_EnvStringer : N := 1.
Definition i_Error : N := 2.
Definition i_HTMLStringer : N := 3.
Definition i_HTMLEnvStringer : N := 4.
Definition i_CSSStringer : N := 5.
Definition i_CSSEnvStringer : N := 6.
Definition i_JSStringer : N := 7.
Definition i_JSEnvStringer : N := 8.
Definition i_JSONStringer : N := 9.
Definition i_JSONEnvStringer : N := 10.
Definition i_MarkdownStringer : N := 11.
Definition i_MarkdownEnvStringer : N := 12.
Definition n_ifaces : N := 13.
Definition w_ByteSlice : N := 16.       (* the type is exactly []byte *)
Definition w_Time : N := 17.            (* time.Time *)
Definition w_EmptyInterface : N := 18.  (* interface{} *)
Definition w_HTML : N := 19.            (* native.HTML *)
Definition w_CSS : N := 20.
Definition w_JS : N := 21.
Definition w_JSON : N := 22.
Definition w_Markdown : N := 23.

Inductive atom :=
| AImpl (p : tpath) (i : N)      (* p.Implements(iType); a type switch case on the interface i *)
| AIs (p : tpath) (w : N)        (* p == wType; a type switch case on the concrete type w *)
| AVisited                       (* slices.Contains(types, t) *)
| ACheck (f : showfn) (p : tpath)(* the recursive checkShowJS / checkShowJSON of p returned nil *)
| AExported                      (* field.PkgPath == "" *)
| ANilValue                      (* case nil of a type switch: the shown value is the nil interface *)
| AConv                          (* env.conv != nil *)
| ALoop                          (* the loop over the struct fields ran to its end without returning *)
| AOther (n : N).                (* any other undecided condition (numbered in source order) *)

Inductive outcome :=
| OOk                            (* checker: returns nil. renderer: the value is written, the function returns the writer error *)
| OErr                           (* checker: returns an error. renderer: returns a cannot show error *)
| OPanic                         (* panics *)
| OContinue                      (* loop body: goes on with the next iteration *)
| OLoopExit                      (* the loop returned: the result is that of the first iteration that does not continue *)
| OCall (f : showfn)             (* returns what showInJS / showInJSON return for the same value *)
| OClass (c : N) (str : bool)    (* showInJS/JSON: the kind switch selects the clause whose smallest listed kind is c
                                    (999: default); str: the value was first replaced by a string (v.Error()) *)
| OHandled (c : N)               (* showInJS/JSON: the clause of the leading type switch for the interface or
                                    well known type c (255: nil) wrote the value *)
| OStuck.                        (* not modelled *)

Inductive dtree :=
| Leaf (o : outcome)
| Node (a : atom) (yes no : dtree).

Inductive aval := VT | VF | VStuck | VPanic.

Fixpoint eval_tree (val : atom -> aval) (t : dtree) : outcome :=
  match t with
  | Leaf o => o
  | Node a y n =>
    match val a with
    | VT => eval_tree val y
    | VF => eval_tree val n
    | VStuck => OStuck
    | VPanic => OPanic
    end
  end.

Fixpoint tree_assoc (l : list (N * dtree)) (k : N) : dtree :=
  match l with
  | [] => Leaf OStuck
  | (k', t) :: r => if N.eqb k k' then t else tree_assoc r k
  end.

Definition of_bool (b : bool) : aval := if b then VT else VF.

Definition tpath_eqb (a b : tpath) : bool :=
  match a, b with
  | PSelf, PSelf | PKey, PKey | PElem, PElem | PField, PField => true
  | _, _ => false
  end.

Definition showfn_eqb (a b : showfn) : bool :=
  match a, b with FJS, FJS | FJSON, FJSON => true | _, _ => false end.

Definition outcome_eqb (a b : outcome) : bool :=
  match a, b with
  | OOk, OOk | OErr, OErr | OPanic, OPanic | OContinue, OContinue | OLoopExit, OLoopExit | OStuck, OStuck => true
  | OCall f, OCall g => showfn_eqb f g
  | OClass c s, OClass d u => N.eqb c d && Bool.eqb s u
  | OHandled c, OHandled d => N.eqb c d
  | _, _ => false
  end.
