(* Go fixed-width integer types and their operators, on mathematical integers.
   A value of Go type t is an integer in the range of t; wrap t x is the value
   of type t congruent to x modulo 2^(bits t) (two's complement wrap-around),
   which is what Go's conversions between integer types and its arithmetic
   operators compute.  int, uint and uintptr are 64 bits wide (linux/amd64,
   the platform of the checks).  Written from the Go specification; validated
   against gc by the C01 harness. *)
From Coq Require Export ZArith Lia Bool List.
From Coq Require Import Znumtheory.
Export ListNotations.
Open Scope Z_scope.

Inductive ity := I8 | I16 | I32 | I64 | U8 | U16 | U32 | U64.

Definition bits (t : ity) : Z :=
  match t with I8 | U8 => 8 | I16 | U16 => 16 | I32 | U32 => 32 | I64 | U64 => 64 end.
Definition signed (t : ity) : bool :=
  match t with I8 | I16 | I32 | I64 => true | _ => false end.

Definition umod (n x : Z) : Z := x mod 2 ^ n.
Definition smod (n x : Z) : Z := (x + 2 ^ (n - 1)) mod 2 ^ n - 2 ^ (n - 1).
Definition wrap (t : ity) (x : Z) : Z := if signed t then smod (bits t) x else umod (bits t) x.

Definition tmin (t : ity) : Z := if signed t then - 2 ^ (bits t - 1) else 0.
Definition tmax (t : ity) : Z := if signed t then 2 ^ (bits t - 1) - 1 else 2 ^ bits t - 1.
Definition in_range (t : ity) (x : Z) : Prop := tmin t <= x <= tmax t.
Definition in_rangeb (t : ity) (x : Z) : bool := (tmin t <=? x) && (x <=? tmax t).

Inductive binop := Add | Sub | Mul | Quo | Rem | And | Or | Xor | AndNot | Shl | Shr.
Inductive unop := Neg | Not.

(* x op y at Go type t, for operands that are values of type t (for shifts the
   count y is a value of an unsigned type, so 0 <= y).  None = run-time panic
   (integer divide by zero). *)
Definition bin (op : binop) (t : ity) (x y : Z) : option Z :=
  match op with
  | Add => Some (wrap t (x + y))
  | Sub => Some (wrap t (x - y))
  | Mul => Some (wrap t (x * y))
  | Quo => if y =? 0 then None else Some (wrap t (Z.quot x y))
  | Rem => if y =? 0 then None else Some (wrap t (Z.rem x y))
  | And => Some (wrap t (Z.land x y))
  | Or => Some (wrap t (Z.lor x y))
  | Xor => Some (wrap t (Z.lxor x y))
  | AndNot => Some (wrap t (Z.ldiff x y))
  | Shl => Some (if bits t <=? y then 0 else wrap t (x * 2 ^ y))
  | Shr => Some (if bits t <=? y then (if x <? 0 then -1 else 0) else x / 2 ^ y)
  end.

Definition un (op : unop) (t : ity) (x : Z) : Z :=
  match op with
  | Neg => wrap t (- x)
  | Not => wrap t (Z.lnot x)
  end.

(* lifted to possibly-faulted operands, as used by the generated VM terms *)
Definition oconv (t : ity) (a : option Z) : option Z :=
  match a with Some x => Some (wrap t x) | None => None end.
Definition obin (op : binop) (t : ity) (a b : option Z) : option Z :=
  match a, b with Some x, Some y => bin op t x y | _, _ => None end.
Definition oun (op : unop) (t : ity) (a : option Z) : option Z :=
  match a with Some x => Some (un op t x) | None => None end.

Fixpoint zassoc {A} (l : list (Z * A)) (k : Z) : option A :=
  match l with
  | [] => None
  | (k', v) :: r => if k' =? k then Some v else zassoc r k
  end.

(* ---- arithmetic of wrap ---- *)

Lemma bits_pos t : 0 < bits t. Proof. destruct t; cbn; lia. Qed.
Lemma bits_le64 t : bits t <= 64. Proof. destruct t; cbn; lia. Qed.

Lemma pow2_pos n : 0 <= n -> 0 < 2 ^ n. Proof. intros. apply Z.pow_pos_nonneg; lia. Qed.

Lemma pow2_half n : 0 < n -> 2 ^ n = 2 * 2 ^ (n - 1).
Proof. intros H. replace n with (Z.succ (n - 1)) at 1 by lia. rewrite Z.pow_succ_r by lia. reflexivity. Qed.

(* wrap t x is congruent to x modulo 2^(bits t) *)
Lemma wrap_mod t x : wrap t x mod 2 ^ bits t = x mod 2 ^ bits t.
Proof.
  pose proof (pow2_pos (bits t) ltac:(pose proof (bits_pos t); lia)) as Hp.
  unfold wrap, smod, umod. destruct (signed t).
  - rewrite Zminus_mod, Zmod_mod, <- Zminus_mod. f_equal. lia.
  - apply Zmod_mod.
Qed.

Lemma wrap_range t x : in_range t (wrap t x).
Proof.
  pose proof (bits_pos t) as Hb.
  pose proof (pow2_pos (bits t) ltac:(lia)) as Hp.
  pose proof (pow2_half (bits t) Hb) as Hh.
  unfold in_range, tmin, tmax, wrap, smod, umod. destruct (signed t).
  - pose proof (Z.mod_pos_bound (x + 2 ^ (bits t - 1)) (2 ^ bits t) Hp). lia.
  - pose proof (Z.mod_pos_bound x (2 ^ bits t) Hp). lia.
Qed.

Lemma wrap_id t x : in_range t x -> wrap t x = x.
Proof.
  pose proof (bits_pos t) as Hb.
  pose proof (pow2_pos (bits t) ltac:(lia)) as Hp.
  pose proof (pow2_half (bits t) Hb) as Hh.
  unfold in_range, tmin, tmax, wrap, smod, umod. destruct (signed t); intros H.
  - rewrite Z.mod_small by lia. lia.
  - apply Z.mod_small. lia.
Qed.

(* wrap t only depends on its argument modulo 2^(bits t) *)
Lemma wrap_congr t x y : x mod 2 ^ bits t = y mod 2 ^ bits t -> wrap t x = wrap t y.
Proof.
  pose proof (bits_pos t) as Hb.
  pose proof (pow2_pos (bits t) ltac:(lia)) as Hp.
  intros H. unfold wrap, smod, umod. destruct (signed t).
  - f_equal. rewrite (Zplus_mod x), (Zplus_mod y), H. reflexivity.
  - exact H.
Qed.

Lemma mod_pow_le n m x : 0 <= n <= m -> (x mod 2 ^ m) mod 2 ^ n = x mod 2 ^ n.
Proof.
  intros H. symmetry. apply Zmod_div_mod.
  - apply pow2_pos; lia.
  - apply pow2_pos; lia.
  - exists (2 ^ (m - n)). rewrite <- Z.pow_add_r by lia. f_equal. lia.
Qed.

(* a narrower (or equal) conversion absorbs a wider one *)
Lemma wrap_wrap t t' x : bits t <= bits t' -> wrap t (wrap t' x) = wrap t x.
Proof.
  intros H. apply wrap_congr.
  pose proof (bits_pos t) as Hb.
  rewrite <- (mod_pow_le (bits t) (bits t') (wrap t' x)) by lia.
  rewrite wrap_mod. apply mod_pow_le. lia.
Qed.

Lemma wrap_add_l t x y : wrap t (wrap t x + y) = wrap t (x + y).
Proof. apply wrap_congr. rewrite Zplus_mod, wrap_mod, <- Zplus_mod. reflexivity. Qed.
Lemma wrap_add_r t x y : wrap t (x + wrap t y) = wrap t (x + y).
Proof. rewrite Z.add_comm, wrap_add_l. f_equal. lia. Qed.
Lemma wrap_sub_l t x y : wrap t (wrap t x - y) = wrap t (x - y).
Proof. apply wrap_congr. rewrite Zminus_mod, wrap_mod, <- Zminus_mod. reflexivity. Qed.
Lemma wrap_sub_r t x y : wrap t (x - wrap t y) = wrap t (x - y).
Proof. apply wrap_congr. rewrite Zminus_mod, wrap_mod, <- Zminus_mod. reflexivity. Qed.
Lemma wrap_mul_l t x y : wrap t (wrap t x * y) = wrap t (x * y).
Proof. apply wrap_congr. rewrite Zmult_mod, wrap_mod, <- Zmult_mod. reflexivity. Qed.
Lemma wrap_mul_r t x y : wrap t (x * wrap t y) = wrap t (x * y).
Proof. rewrite Z.mul_comm, wrap_mul_l. f_equal. lia. Qed.
Lemma wrap_neg t x : wrap t (- wrap t x) = wrap t (- x).
Proof. replace (- wrap t x) with (0 - wrap t x) by lia. rewrite wrap_sub_r. f_equal. Qed.

(* operations at a narrow type computed through a wider one *)
Lemma wrap_narrow_add t t' x y : bits t <= bits t' -> wrap t (wrap t' (x + y)) = wrap t (x + y).
Proof. apply wrap_wrap. Qed.

Lemma in_range_sub t t' x : in_range t x -> bits t <= bits t' -> signed t = signed t' \/ (signed t = false /\ bits t < bits t') -> in_range t' x.
Proof.
  pose proof (bits_pos t) as Hb. pose proof (bits_pos t') as Hb'.
  unfold in_range, tmin, tmax. intros H Hle Hs.
  assert (Hp : 2 ^ bits t <= 2 ^ bits t') by (apply Z.pow_le_mono_r; lia).
  assert (Hp1 : 2 ^ (bits t - 1) <= 2 ^ (bits t' - 1)) by (apply Z.pow_le_mono_r; lia).
  pose proof (pow2_pos (bits t - 1) ltac:(lia)).
  destruct Hs as [Hs|[Hs Hlt]].
  - rewrite <- Hs. destruct (signed t); lia.
  - rewrite Hs in H. destruct (signed t').
    + assert (2 ^ bits t <= 2 ^ (bits t' - 1)) by (apply Z.pow_le_mono_r; lia). lia.
    + lia.
Qed.

(* the same absorption laws through a wider intermediate type *)
Lemma wrap_add_l2 t t' x y : bits t <= bits t' -> wrap t (wrap t' x + y) = wrap t (x + y).
Proof. intros H. rewrite <- wrap_add_l, (wrap_wrap t t' x H), wrap_add_l. reflexivity. Qed.
Lemma wrap_add_r2 t t' x y : bits t <= bits t' -> wrap t (x + wrap t' y) = wrap t (x + y).
Proof. intros H. rewrite <- wrap_add_r, (wrap_wrap t t' y H), wrap_add_r. reflexivity. Qed.
Lemma wrap_sub_l2 t t' x y : bits t <= bits t' -> wrap t (wrap t' x - y) = wrap t (x - y).
Proof. intros H. rewrite <- wrap_sub_l, (wrap_wrap t t' x H), wrap_sub_l. reflexivity. Qed.
Lemma wrap_sub_r2 t t' x y : bits t <= bits t' -> wrap t (x - wrap t' y) = wrap t (x - y).
Proof. intros H. rewrite <- wrap_sub_r, (wrap_wrap t t' y H), wrap_sub_r. reflexivity. Qed.
Lemma wrap_mul_l2 t t' x y : bits t <= bits t' -> wrap t (wrap t' x * y) = wrap t (x * y).
Proof. intros H. rewrite <- wrap_mul_l, (wrap_wrap t t' x H), wrap_mul_l. reflexivity. Qed.
Lemma wrap_mul_r2 t t' x y : bits t <= bits t' -> wrap t (x * wrap t' y) = wrap t (x * y).
Proof. intros H. rewrite <- wrap_mul_r, (wrap_wrap t t' y H), wrap_mul_r. reflexivity. Qed.
Lemma wrap_neg2 t t' x : bits t <= bits t' -> wrap t (- wrap t' x) = wrap t (- x).
Proof. intros H. rewrite <- wrap_neg, (wrap_wrap t t' x H), wrap_neg. reflexivity. Qed.

(* exhaustive check of a boolean predicate on [lo, lo + p) by halving; used
   for finite-domain lemmas closed by vm_compute *)
Fixpoint allb (p : positive) (lo : Z) (f : Z -> bool) : bool :=
  match p with
  | xH => f lo
  | xO q => allb q lo f && allb q (lo + Zpos q) f
  | xI q => f lo && (allb q (lo + 1) f && allb q (lo + 1 + Zpos q) f)
  end.

Lemma allb_spec p : forall lo f, allb p lo f = true -> forall x, lo <= x < lo + Zpos p -> f x = true.
Proof.
  induction p as [q IH|q IH|]; intros lo f H x Hx; cbn [allb] in H.
  - apply andb_prop in H. destruct H as [H0 H]. apply andb_prop in H. destruct H as [H1 H2].
    destruct (Z.eq_dec x lo) as [->|Hne]; [exact H0|].
    destruct (Z_lt_ge_dec x (lo + 1 + Zpos q)).
    + apply (IH _ _ H1). lia.
    + apply (IH _ _ H2). lia.
  - apply andb_prop in H. destruct H as [H1 H2].
    destruct (Z_lt_ge_dec x (lo + Zpos q)).
    + apply (IH _ _ H1). lia.
    + apply (IH _ _ H2). lia.
  - assert (x = lo) by lia. subst. exact H.
Qed.

(* comparisons of integer values *)
Inductive cmpop := Ceq | Cne | Clt | Cle | Cgt | Cge.
Definition cmp (c : cmpop) (x y : Z) : bool :=
  match c with
  | Ceq => x =? y | Cne => negb (x =? y) | Clt => x <? y | Cle => x <=? y | Cgt => y <? x | Cge => y <=? x
  end.
Definition ocmp (c : cmpop) (a b : option Z) : option bool :=
  match a, b with Some x, Some y => Some (cmp c x y) | _, _ => None end.
