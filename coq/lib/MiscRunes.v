(* Rune level view of a Go string on top of Utf8.decode_rune: what
   `for i, r := range s`, []rune(s) and utf8.RuneCountInString(s) see.
   Structural recursion with a skip counter (no fuel). *)
From Verif Require Import Bytes Utf8.
Open Scope N_scope.

Definition rune_size (s : bytes) : nat := snd (decode_rune s).

(* (byte index, rune) for every iteration of `for i, r := range s`,
   i0 = index of the head of s, skip = bytes of the current rune still to pass *)
Fixpoint range_aux (s : bytes) (skip : nat) (i0 : N) : list (N * N) :=
  match s with
  | [] => []
  | c :: r =>
    match skip with
    | S k => range_aux r k (i0 + 1)
    | O => (i0, fst (decode_rune s)) :: range_aux r (rune_size s - 1) (i0 + 1)
    end
  end.

Definition range_str (s : bytes) : list (N * N) := range_aux s 0 0.
Definition rune_starts (s : bytes) : list N := map fst (range_str s).
Definition decode_all (s : bytes) : list N := map snd (range_str s).     (* []rune(s) *)
Definition rune_count (s : bytes) : nat := length (range_str s).        (* utf8.RuneCountInString *)

(* utf8.AppendRune / strings.Builder.WriteRune: invalid runes are written as U+FFFD *)
Definition write_rune (r : N) : bytes :=
  if valid_rune r then utf8_encode r else utf8_encode rune_error.

Definition encode_all (rs : list N) : bytes := flat_map write_rune rs.   (* string([]rune) *)
