(* Bytes and byte strings.  A Go byte is modelled as an N; strings are lists.
   Tables generated from the sources are association lists keyed by byte. *)
From Coq Require Export List NArith ZArith Lia Bool.
Export ListNotations.
Open Scope N_scope.

Definition byte := N.
Definition bytes := list N.

Fixpoint assoc_get {A : Type} (l : list (N * A)) (c : N) : option A :=
  match l with
  | [] => None
  | (k, v) :: r => if N.eqb k c then Some v else assoc_get r c
  end.

Definition mem (l : list N) (c : N) : bool := existsb (N.eqb c) l.

Definition all_bytes : list N := map N.of_nat (seq 0 256).

Definition is_byte (c : N) : bool := c <? 256.
Definition is_bytes (s : bytes) : bool := forallb is_byte s.

Fixpoint bytes_eqb (a b : bytes) : bool :=
  match a, b with
  | [], [] => true
  | x :: a', y :: b' => N.eqb x y && bytes_eqb a' b'
  | _, _ => false
  end.

Definition nlen {A} (l : list A) : N := N.of_nat (length l).

Lemma all_bytes_complete c : c < 256 -> In c all_bytes.
Proof.
  intros H. unfold all_bytes. apply in_map_iff. exists (N.to_nat c). split.
  - apply N2Nat.id.
  - apply in_seq. lia.
Qed.

Lemma forall_bytes (P : N -> bool) :
  forallb P all_bytes = true -> forall c, c < 256 -> P c = true.
Proof.
  intros H c Hc. rewrite forallb_forall in H. apply H, all_bytes_complete, Hc.
Qed.

(* A table whose keys are all bytes has no entry for a larger number. *)
Lemma assoc_get_oob {A} (l : list (N * A)) c :
  forallb (fun kv => fst kv <? 256) l = true -> 256 <= c -> assoc_get l c = None.
Proof.
  induction l as [|[k v] r IH]; simpl; intros H Hc; [reflexivity|].
  apply andb_prop in H. destruct H as [Hk Hr].
  apply N.ltb_lt in Hk. destruct (N.eqb_spec k c) as [->|_]; [lia|].
  apply IH; assumption.
Qed.

Lemma mem_oob (l : list N) c :
  forallb (fun k => k <? 256) l = true -> 256 <= c -> mem l c = false.
Proof.
  unfold mem. induction l as [|k r IH]; simpl; intros H Hc; [reflexivity|].
  apply andb_prop in H. destruct H as [Hk Hr]. apply N.ltb_lt in Hk.
  destruct (N.eqb_spec c k) as [->|_]; [lia|]. simpl. apply IH; assumption.
Qed.

(* Two functions over N that agree on every byte and are both "default" above
   255 agree everywhere; used to lift 256-case computations. *)
Lemma by_bytes {B} (f g : N -> B) :
  (forall c, c < 256 -> f c = g c) -> (forall c, 256 <= c -> f c = g c) -> forall c, f c = g c.
Proof. intros H1 H2 c. destruct (N.lt_ge_cases c 256); auto. Qed.

Lemma bytes_eqb_eq a b : bytes_eqb a b = true <-> a = b.
Proof.
  revert b; induction a as [|x a IH]; destruct b as [|y b]; simpl; split; try congruence; try reflexivity.
  - intros H. apply andb_prop in H. destruct H as [H1 H2]. apply N.eqb_eq in H1. apply IH in H2. congruence.
  - intros H. injection H as -> ->. rewrite N.eqb_refl. simpl. apply IH. reflexivity.
Qed.

Lemma nlen_app {A} (a b : list A) : nlen (a ++ b) = nlen a + nlen b.
Proof. unfold nlen. rewrite app_length. lia. Qed.
Lemma nlen_cons {A} (c : A) r : nlen (c :: r) = 1 + nlen r.
Proof. unfold nlen. simpl length. lia. Qed.
Lemma nlen_nil {A} : nlen (@nil A) = 0.
Proof. reflexivity. Qed.
Lemma nlen_eq {A} (l : list A) : nlen l = N.of_nat (length l).
Proof. reflexivity. Qed.
Global Opaque nlen.
Arguments assoc_get : simpl never.
Arguments mem : simpl never.

Lemma skipn_repeat {A} (x : A) n k : skipn n (repeat x k) = repeat x (k - n).
Proof.
  revert k; induction n as [|n IH]; intros k; simpl; [rewrite Nat.sub_0_r; reflexivity|].
  destruct k; simpl; [reflexivity|]. apply IH.
Qed.
