(* Bitwise operators and shifts against the ranges of the Go integer types. *)
From Verif Require Import GoInt.
Open Scope Z_scope.

(* ---- bitwise operators only look at the low n bits to produce the low n bits ---- *)

Lemma mod_pow2_testbit x n i : 0 <= n -> 0 <= i ->
  Z.testbit (x mod 2 ^ n) i = if i <? n then Z.testbit x i else false.
Proof.
  intros Hn Hi. destruct (Z.ltb_spec i n).
  - apply Z.mod_pow2_bits_low. lia.
  - apply Z.mod_pow2_bits_high. lia.
Qed.

Section Bitop.
  Variable f : Z -> Z -> Z.
  Variable g : bool -> bool -> bool.
  Hypothesis f_spec : forall a b i, 0 <= i -> Z.testbit (f a b) i = g (Z.testbit a i) (Z.testbit b i).

  Lemma bitop_mod n a b : 0 <= n -> (f a b) mod 2 ^ n = (f (a mod 2 ^ n) (b mod 2 ^ n)) mod 2 ^ n.
  Proof.
    intros Hn. apply Z.bits_inj'. intros i Hi.
    rewrite !mod_pow2_testbit by lia. destruct (i <? n) eqn:E; [|reflexivity].
    rewrite !f_spec by lia. rewrite !mod_pow2_testbit by lia. rewrite E. reflexivity.
  Qed.

  (* computing through a wider type does not change the wrapped result *)
  Lemma wrap_bitop t t' a b : bits t <= bits t' -> wrap t (f (wrap t' a) (wrap t' b)) = wrap t (f a b).
  Proof.
    intros H. pose proof (bits_pos t) as Hb. apply wrap_congr.
    rewrite bitop_mod by lia. symmetry. rewrite bitop_mod by lia. symmetry.
    assert (E : forall z, wrap t' z mod 2 ^ bits t = z mod 2 ^ bits t).
    { intros z. rewrite <- (mod_pow_le (bits t) (bits t') (wrap t' z)) by lia.
      rewrite wrap_mod. apply mod_pow_le. lia. }
    rewrite !E. reflexivity.
  Qed.
End Bitop.

Lemma land_bits a b i : 0 <= i -> Z.testbit (Z.land a b) i = andb (Z.testbit a i) (Z.testbit b i).
Proof. intros _. apply Z.land_spec. Qed.
Lemma lor_bits a b i : 0 <= i -> Z.testbit (Z.lor a b) i = orb (Z.testbit a i) (Z.testbit b i).
Proof. intros _. apply Z.lor_spec. Qed.
Lemma lxor_bits a b i : 0 <= i -> Z.testbit (Z.lxor a b) i = xorb (Z.testbit a i) (Z.testbit b i).
Proof. intros _. apply Z.lxor_spec. Qed.
Lemma ldiff_bits a b i : 0 <= i -> Z.testbit (Z.ldiff a b) i = andb (Z.testbit a i) (negb (Z.testbit b i)).
Proof. intros _. apply Z.ldiff_spec. Qed.

(* ---- ranges: a value is in the range of an n-bit type iff its bits from a
   certain position on are all equal (signed) or all zero (unsigned) ---- *)

Lemma in_range_shiftr t x :
  in_range t x <->
  (if signed t then Z.shiftr x (bits t - 1) = 0 \/ Z.shiftr x (bits t - 1) = -1
   else Z.shiftr x (bits t) = 0).
Proof.
  pose proof (bits_pos t) as Hb.
  unfold in_range, tmin, tmax. destruct (signed t).
  - rewrite Z.shiftr_div_pow2 by lia.
    pose proof (pow2_pos (bits t - 1) ltac:(lia)) as Hp.
    split.
    + intros H. destruct (Z.neg_nonneg_cases x) as [Hneg|Hpos].
      * right. symmetry. apply Z.div_unique with (r := x + 2 ^ (bits t - 1)); lia.
      * left. apply Z.div_small. lia.
    + intros [H|H].
      * pose proof (Z.div_mod x (2 ^ (bits t - 1)) ltac:(lia)) as Hd.
        pose proof (Z.mod_pos_bound x (2 ^ (bits t - 1)) Hp). rewrite H in Hd. lia.
      * pose proof (Z.div_mod x (2 ^ (bits t - 1)) ltac:(lia)) as Hd.
        pose proof (Z.mod_pos_bound x (2 ^ (bits t - 1)) Hp). rewrite H in Hd. lia.
  - rewrite Z.shiftr_div_pow2 by lia.
    pose proof (pow2_pos (bits t) ltac:(lia)) as Hp.
    split.
    + intros H. apply Z.div_small. lia.
    + intros H. pose proof (Z.div_mod x (2 ^ bits t) ltac:(lia)) as Hd.
      pose proof (Z.mod_pos_bound x (2 ^ bits t) Hp). rewrite H in Hd. lia.
Qed.

Lemma in_range_land t x y : in_range t x -> in_range t y -> in_range t (Z.land x y).
Proof.
  rewrite !in_range_shiftr. destruct (signed t); rewrite Z.shiftr_land.
  - intros [->| ->] [->| ->]; cbn; auto.
  - intros -> ->. reflexivity.
Qed.
Lemma in_range_lor t x y : in_range t x -> in_range t y -> in_range t (Z.lor x y).
Proof.
  rewrite !in_range_shiftr. destruct (signed t); rewrite Z.shiftr_lor.
  - intros [->| ->] [->| ->]; cbn; auto.
  - intros -> ->. reflexivity.
Qed.
Lemma in_range_lxor t x y : in_range t x -> in_range t y -> in_range t (Z.lxor x y).
Proof.
  rewrite !in_range_shiftr. destruct (signed t); rewrite Z.shiftr_lxor.
  - intros [->| ->] [->| ->]; cbn; auto.
  - intros -> ->. reflexivity.
Qed.
Lemma in_range_ldiff t x y : in_range t x -> in_range t y -> in_range t (Z.ldiff x y).
Proof.
  rewrite !in_range_shiftr. destruct (signed t); rewrite Z.shiftr_ldiff.
  - intros [->| ->] [->| ->]; cbn; auto.
  - intros -> ->. reflexivity.
Qed.

(* ---- shifts ---- *)

Lemma wrap_shl_big t x s : bits t <= s -> wrap t (x * 2 ^ s) = 0.
Proof.
  intros H. pose proof (bits_pos t) as Hb.
  replace 0 with (wrap t 0) by (destruct t; reflexivity).
  apply wrap_congr. rewrite Z.mod_0_l by (pose proof (pow2_pos (bits t)); lia).
  replace s with ((s - bits t) + bits t) by lia. rewrite Z.pow_add_r by lia.
  rewrite Z.mul_assoc. apply Z.mod_mul. pose proof (pow2_pos (bits t)); lia.
Qed.

(* an arithmetic right shift by at least the width leaves only the sign *)
Lemma shr_big t x s : in_range t x -> bits t <= s -> x / 2 ^ s = if x <? 0 then -1 else 0.
Proof.
  intros Hx Hs. pose proof (bits_pos t) as Hb.
  assert (Hp : 2 ^ bits t <= 2 ^ s) by (apply Z.pow_le_mono_r; lia).
  pose proof (pow2_pos (bits t - 1) ltac:(lia)) as Hp1.
  pose proof (pow2_half (bits t) Hb) as Hh.
  unfold in_range, tmin, tmax in Hx.
  destruct (Z.ltb_spec x 0).
  - symmetry. apply Z.div_unique with (r := x + 2 ^ s); destruct (signed t); lia.
  - apply Z.div_small. destruct (signed t); lia.
Qed.

Lemma shr_range t x s : in_range t x -> 0 <= s -> in_range t (x / 2 ^ s).
Proof.
  intros Hx Hs. pose proof (pow2_pos s Hs) as Hp.
  unfold in_range in *. destruct Hx as [Hlo Hhi].
  assert (Hmin : tmin t <= 0) by (unfold tmin; destruct (signed t); [pose proof (pow2_pos (bits t - 1) ltac:(pose proof (bits_pos t); lia))|]; lia).
  assert (Hmax : 0 <= tmax t) by (unfold tmax; destruct (signed t); [pose proof (pow2_pos (bits t - 1) ltac:(pose proof (bits_pos t); lia))|pose proof (pow2_pos (bits t) ltac:(pose proof (bits_pos t); lia))]; lia).
  destruct (Z.neg_nonneg_cases x) as [Hneg|Hpos].
  - split.
    + apply Z.div_le_lower_bound; [lia|]. 
      assert (2 ^ s * tmin t <= tmin t) by nia. lia.
    + assert (x / 2 ^ s < 0) by (apply Z.div_lt_upper_bound; lia). lia.
  - split.
    + pose proof (Z.div_pos x (2 ^ s) Hpos Hp). lia.
    + assert (x / 2 ^ s <= x) by (apply Z.div_le_upper_bound; [lia|nia]). lia.
Qed.

(* ---- or of disjoint bit ranges is addition ---- *)

Lemma land_shifted_low hi lo n : 0 <= n -> 0 <= lo < 2 ^ n -> Z.land (hi * 2 ^ n) lo = 0.
Proof.
  intros Hn Hlo. apply Z.bits_inj'. intros i Hi. rewrite Z.land_spec, Z.bits_0.
  destruct (Z_lt_ge_dec i n).
  - rewrite Z.mul_pow2_bits_low by lia. reflexivity.
  - replace lo with (lo mod 2 ^ n) by (apply Z.mod_small; lia).
    rewrite Z.mod_pow2_bits_high by lia. apply andb_false_r.
Qed.

Lemma lor_shifted_low hi lo n : 0 <= n -> 0 <= lo < 2 ^ n -> Z.lor (hi * 2 ^ n) lo = hi * 2 ^ n + lo.
Proof.
  intros Hn Hlo. pose proof (land_shifted_low hi lo n Hn Hlo) as H.
  rewrite Z.add_nocarry_lxor by exact H. symmetry. apply Z.lxor_lor. exact H.
Qed.
