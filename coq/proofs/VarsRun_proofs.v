(* Proofs about a run (C17): the emitted code behaves as if every declared
   global were one variable bound by initGlobalVariables. *)
From Verif Require Import Bytes Facts_vars VarsM VarsSpec Vars_proofs.
Open Scope N_scope.

Section Run.
  Variable decls : list (var * decl).
  Variable vars : list (var * initv).

  (* binding of the global of v = specification of the cell of v *)
  Lemma bind_global_spec v :
    bind_global vars (global_of decls v) = spec_cell (decl_of decls v) (assocb vars v).
  Proof.
    unfold bind_global, global_of, spec_cell. cbn [g_pkg g_name g_value g_type g_zero].
    assert (bytes_eqb main_pkg gen_init_pkg = true) as -> by (apply bytes_eqb_eq; apply fact_pkgs).
    destruct (assocb vars v) as [iv|]; destruct (d_addr (decl_of decls v)); try reflexivity;
      try (destruct iv; reflexivity).
  Qed.

  Lemma assocb_spec_env vs : forall env v,
    spec_env decls vars vs = inl env -> In v vs ->
    exists c, assocb env v = Some c /\ spec_cell (decl_of decls v) (assocb vars v) = inl c.
  Proof.
    induction vs as [|x vs IH]; intros env v E Hin; [destruct Hin|].
    cbn [spec_env] in E.
    destruct (spec_cell (decl_of decls x) (assocb vars x)) as [c|p] eqn:Ec; [|discriminate].
    destruct (spec_env decls vars vs) as [env'|e] eqn:Ee; [|discriminate]. injection E as <-.
    cbn [assocb]. destruct (bytes_eqb x v) eqn:Exv.
    - apply bytes_eqb_eq in Exv. subst. exists c. auto.
    - destruct Hin as [->|Hin]; [rewrite bytes_eqb_refl in Exv; discriminate|]. eapply IH; eauto.
  Qed.

  Lemma spec_env_panic vs n p :
    spec_env decls vars vs = inr (n, p) ->
    In n vs /\ spec_cell (decl_of decls n) (assocb vars n) = inr p.
  Proof.
    induction vs as [|x vs IH]; cbn [spec_env]; [discriminate|].
    destruct (spec_cell (decl_of decls x) (assocb vars x)) as [c|q] eqn:Ec.
    - destruct (spec_env decls vars vs) as [env'|e]; [discriminate|]. intros H. injection H as ->.
      destruct (IH eq_refl) as [H1 H2]. split; [right; assumption|assumption].
    - intros H. injection H as <- <-. split; [left; reflexivity|assumption].
  Qed.

  (* initGlobalVariables on globals that are the globals of their names *)
  Lemma init_globals_ok gl env :
    (forall g, In g gl -> g = global_of decls (g_name g)) ->
    (forall g, In g gl -> exists c, assocb env (g_name g) = Some c /\
                                    spec_cell (decl_of decls (g_name g)) (assocb vars (g_name g)) = inl c) ->
    exists cells, init_globals vars gl = inl cells /\
                  forall k g, nth_error gl k = Some g -> nth_error cells k = assocb env (g_name g).
  Proof.
    induction gl as [|g gl IH]; intros Hg Henv.
    - exists []. split; [reflexivity|]. intros k g H. destruct k; discriminate.
    - destruct IH as (cells & Hc & Hn); [intros; apply Hg; right; assumption|intros; apply Henv; right; assumption|].
      destruct (Henv g (or_introl eq_refl)) as (c & H1 & H2).
      exists (c :: cells). cbn [init_globals].
      rewrite (Hg g (or_introl eq_refl)), bind_global_spec. cbn [global_of g_name]. rewrite H2, Hc.
      split; [reflexivity|]. intros k g' Hk. destruct k as [|k]; cbn [nth_error] in *.
      + injection Hk as <-. symmetry. assumption.
      + apply Hn. assumption.
  Qed.

  Lemma init_globals_panic gl n p :
    (forall g, In g gl -> g = global_of decls (g_name g)) ->
    init_globals vars gl = inr (n, p) ->
    In n (map g_name gl) /\ spec_cell (decl_of decls n) (assocb vars n) = inr p.
  Proof.
    induction gl as [|g gl IH]; intros Hg E; [discriminate|].
    cbn [init_globals] in E.
    destruct (bind_global vars g) as [c|q] eqn:Eb.
    - destruct (init_globals vars gl) as [cs|e] eqn:Ei; [discriminate|]. injection E as ->.
      destruct IH as [H1 H2]; [intros; apply Hg; right; assumption|reflexivity|].
      split; [right; assumption|assumption].
    - injection E as <- <-. split; [left; reflexivity|].
      rewrite (Hg g (or_introl eq_refl)), bind_global_spec in Eb. exact Eb.
  Qed.
End Run.

(* ---------- events ---------- *)

Lemma nth_error_set_nth_same {A} (l : list A) k x y :
  nth_error l k = Some y -> nth_error (set_nth l k x) k = Some x.
Proof.
  revert k. induction l as [|a l IH]; intros k H; destruct k; try discriminate; cbn [set_nth nth_error] in *.
  - reflexivity.
  - apply IH. assumption.
Qed.

Lemma nth_error_set_nth_other {A} (l : list A) k k' x :
  k <> k' -> nth_error (set_nth l k x) k' = nth_error l k'.
Proof.
  revert k k'. induction l as [|a l IH]; intros k k' H; destruct k, k'; cbn [set_nth nth_error]; try reflexivity.
  - congruence.
  - apply IH. congruence.
Qed.

Lemma assocb_env_set_same env v c x : assocb env v = Some x -> assocb (env_set env v c) v = Some c.
Proof.
  induction env as [|[k y] env IH]; cbn [assocb env_set]; [discriminate|].
  destruct (bytes_eqb k v) eqn:E; cbn [assocb]; rewrite E; [reflexivity|assumption].
Qed.

Lemma assocb_env_set_other env v c u : u <> v -> assocb (env_set env v c) u = assocb env u.
Proof.
  intros H. induction env as [|[k y] env IH]; cbn [assocb env_set]; [reflexivity|].
  destruct (bytes_eqb k v) eqn:E; cbn [assocb].
  - apply bytes_eqb_eq in E. subst k. rewrite (bytes_eqb_neq v u) by congruence. reflexivity.
  - destruct (bytes_eqb k u); [reflexivity|assumption].
Qed.

Section Events.
  Variable decls : list (var * decl).
  Variable tops : list (list item).
  Hypothesis Hwf : wf_prog decls tops.
  Hypothesis Hnd : NoDup (map fst (prog_sites tops)).

  Let st := emit_prog true decls tops.

  (* slots and names agree *)
  Definition agree (cells : list cell) (env : list (var * cell)) : Prop :=
    forall k g, nth_error (globals st) k = Some g ->
                nth_error cells k = assocb env (g_name g) /\ assocb env (g_name g) <> None.

  Lemma event_sim cells env mem out ev :
    agree cells env ->
    In (match ev with TShow s => s | TSet s _ => s end) (map fst (prog_sites tops)) ->
    match run_event st (mkrs cells mem out) ev, spec_event (prog_sites tops) (mkss env mem out) ev with
    | Some rs, Some ss => agree (rs_cells rs) (ss_env ss) /\ rs_mem rs = ss_mem ss /\ rs_out rs = ss_out ss
    | None, None => True
    | _, _ => False
    end.
  Proof.
    intros Hag Hs. destruct (emit_correct decls tops Hwf Hnd) as (Hsites & Hnames & Hglob & _).
    fold st in Hsites, Hnames, Hglob.
    set (s := match ev with TShow s => s | TSet s _ => s end) in *.
    apply in_map_iff in Hs. destruct Hs as ([s' v] & Hs1 & Hs2). cbn [fst] in Hs1. subst s'.
    destruct (Hsites s v Hs2) as (k & Hres & Hk).
    unfold run_event, spec_event. fold s. rewrite Hres.
    rewrite (assoc_get_NoDup (prog_sites tops) s v Hnd Hs2).
    destruct (Hag k _ Hk) as [Hc Hne]. cbn [global_of g_name] in Hc, Hne. cbn [rs_cells rs_mem rs_out ss_env ss_mem ss_out].
    rewrite Hc. destruct (assocb env v) as [c|] eqn:Ec; [|congruence].
    destruct ev as [s0|s0 t]; destruct c as [a|t0]; cbn [rs_cells rs_mem rs_out ss_env ss_mem ss_out].
    - destruct (assoc_get mem a); [|exact I]. auto.
    - auto.
    - auto.
    - split; [|auto]. intros k' g' Hk'. destruct (Nat.eq_dec k k') as [<-|Hne'].
      + rewrite Hk in Hk'. injection Hk' as <-. cbn [global_of g_name].
        erewrite nth_error_set_nth_same by (rewrite Hc; reflexivity).
        erewrite assocb_env_set_same by eassumption. split; [reflexivity|discriminate].
      + rewrite nth_error_set_nth_other by assumption.
        assert (g_name g' <> v) as Hnv.
        { intros Heq. apply Hne'. eapply (proj1 (NoDup_nth_error (map g_name (globals st))) Hnames).
          - apply nth_error_Some. rewrite nth_error_map_local, Hk. discriminate.
          - rewrite !nth_error_map_local, Hk, Hk'. cbn [option_map global_of g_name]. congruence. }
        rewrite assocb_env_set_other by assumption. apply Hag. assumption.
  Qed.

  Lemma events_sim evs : forall cells env mem out,
    agree cells env ->
    (forall ev, In ev evs -> In (match ev with TShow s => s | TSet s _ => s end) (map fst (prog_sites tops))) ->
    match run_events st (mkrs cells mem out) evs, spec_events (prog_sites tops) (mkss env mem out) evs with
    | Some rs, Some ss => rs_mem rs = ss_mem ss /\ rs_out rs = ss_out ss
    | None, None => True
    | _, _ => False
    end.
  Proof.
    induction evs as [|ev evs IH]; intros cells env mem out Hag Hev.
    - cbn. auto.
    - cbn [run_events spec_events].
      pose proof (event_sim cells env mem out ev Hag (Hev ev (or_introl eq_refl))) as H.
      destruct (run_event st (mkrs cells mem out) ev) as [[c1 m1 o1]|];
        destruct (spec_event (prog_sites tops) (mkss env mem out) ev) as [[e2 m2 o2]|]; try contradiction; [|exact I].
      cbn [rs_cells rs_mem rs_out ss_env ss_mem ss_out] in H. destruct H as (H1 & -> & ->).
      apply IH; [assumption|]. intros ev' Hin. apply Hev. right. assumption.
  Qed.

  (* Build, bind and run: the model of the implementation agrees with the
     run in which every global is one variable. *)
  Theorem run_equiv vars mem evs :
    (forall ev, In ev evs -> In (match ev with TShow s => s | TSet s _ => s end) (map fst (prog_sites tops))) ->
    match spec_env decls vars (prog_vars tops) with
    | inl _ => run_model true decls tops vars mem evs = spec_run decls tops vars mem evs
    | inr _ => exists n p, run_model true decls tops vars mem evs = RPanic n p /\
                           In n (prog_vars tops) /\ spec_cell (decl_of decls n) (assocb vars n) = inr p
    end.
  Proof.
    intros Hev. destruct (emit_correct decls tops Hwf Hnd) as (Hsites & Hnames & Hglob & Hused).
    fold st in Hsites, Hnames, Hglob, Hused.
    unfold run_model, spec_run. fold st.
    destruct (spec_env decls vars (prog_vars tops)) as [env|[n p]] eqn:Ee.
    - destruct (init_globals_ok decls vars (globals st) env Hglob) as (cells & Hc & Hn).
      { intros g Hg. eapply assocb_spec_env; [exact Ee|]. apply Hused. apply in_map. assumption. }
      rewrite Hc.
      assert (agree cells env) as Hag.
      { intros k g Hk. split; [apply Hn; assumption|].
        destruct (assocb_spec_env decls vars _ env (g_name g) Ee) as (c & H1 & _); [|congruence].
        apply Hused. apply in_map. eapply nth_error_In. eassumption. }
      pose proof (events_sim evs cells env mem [] Hag Hev) as H.
      destruct (run_events st (mkrs cells mem []) evs) as [rs|];
        destruct (spec_events (prog_sites tops) (mkss env mem []) evs) as [ss|]; try contradiction; [|reflexivity].
      destruct H as [-> ->]. reflexivity.
    - apply spec_env_panic in Ee. destruct Ee as [Hin Hp].
      destruct (init_globals vars (globals st)) as [cells|[n' p']] eqn:Ei.
      + exfalso. apply Hused in Hin. apply in_map_iff in Hin. destruct Hin as (g & Hgn & Hg).
        apply In_nth_error in Hg. destruct Hg as [k Hk].
        (* the global of n is bound without panic, but its specification panics *)
        clear - Ei Hk Hgn Hp Hglob. revert k cells Ei Hk.
        induction (globals st) as [|g0 gl IH]; intros k cells Ei Hk; [destruct k; discriminate|].
        cbn [init_globals] in Ei. destruct (bind_global vars g0) as [c|q] eqn:Eb; [|discriminate].
        destruct (init_globals vars gl) as [cs|e] eqn:Ei2; [|discriminate].
        destruct k as [|k]; cbn [nth_error] in Hk.
        * injection Hk as ->. rewrite (Hglob g (or_introl eq_refl)), bind_global_spec, Hgn, Hp in Eb. discriminate.
        * eapply IH; [intros; apply Hglob; right; assumption|reflexivity|eassumption].
      + exists n', p'. split; [reflexivity|].
        destruct (init_globals_panic decls vars _ _ _ Hglob Ei) as [H1 H2]. split; [apply Hused; assumption|assumption].
  Qed.
End Events.

(* ---------- UsedVars ---------- *)

Lemma insert_sorted_In x y l : In y (insert_sorted x l) <-> y = x \/ In y l.
Proof.
  induction l as [|z l IH]; cbn [insert_sorted In]; [intuition congruence|].
  destruct (bytes_leb x z); cbn [In]; [intuition congruence|]. rewrite IH. intuition congruence.
Qed.

Lemma sort_bytes_In y l : In y (sort_bytes l) <-> In y l.
Proof.
  induction l as [|x l IH]; cbn [sort_bytes fold_right In]; [tauto|].
  fold (sort_bytes l). rewrite insert_sorted_In, IH. intuition congruence.
Qed.

Lemma insert_sorted_NoDup x l : NoDup l -> ~ In x l -> NoDup (insert_sorted x l).
Proof.
  induction l as [|z l IH]; intros Hnd Hin; cbn [insert_sorted].
  - constructor; [intros []|constructor].
  - destruct (bytes_leb x z); [constructor; assumption|].
    inversion Hnd; subst. constructor.
    + rewrite insert_sorted_In. intros [->|H]; [apply Hin; left; reflexivity|contradiction].
    + apply IH; [assumption|]. intros H. apply Hin. right. assumption.
Qed.

Lemma sort_bytes_NoDup l : NoDup l -> NoDup (sort_bytes l).
Proof.
  induction l as [|x l IH]; intros H; [constructor|].
  inversion H; subst. cbn [sort_bytes fold_right]. fold (sort_bytes l).
  apply insert_sorted_NoDup; [auto|]. rewrite sort_bytes_In. assumption.
Qed.

(* ---------- the statement of C17 over the models ---------- *)

Definition C17_full : Prop :=
  forall decls tops,
    wf_prog decls tops -> NoDup (map fst (prog_sites tops)) ->
    let st := emit_prog true decls tops in
    (* every reference site designates the global of its variable, which is
       in the package bound by Run *)
    (forall s v, In (s, v) (prog_sites tops) ->
                 exists k, resolve_site st s = Some k /\ nth_error (globals st) k = Some (global_of decls v)) /\
    (forall v, g_pkg (global_of decls v) = gen_init_pkg /\ g_name (global_of decls v) = v) /\
    (* one global per used variable; UsedVars is the set of the used variables *)
    NoDup (map g_name (globals st)) /\
    NoDup (used_vars st) /\
    (forall v, In v (used_vars st) <-> In v (prog_vars tops)) /\
    (* binding and run: as if every global were one variable, holding a copy
       of the value given to Run, or being the caller's variable for a pointer *)
    (forall vars mem evs,
        (forall ev, In ev evs -> In (match ev with TShow s => s | TSet s _ => s end) (map fst (prog_sites tops))) ->
        match spec_env decls vars (prog_vars tops) with
        | inl _ => run_model true decls tops vars mem evs = spec_run decls tops vars mem evs
        | inr _ => exists n p, run_model true decls tops vars mem evs = RPanic n p /\
                               In n (prog_vars tops) /\ spec_cell (decl_of decls n) (assocb vars n) = inr p
        end).

Theorem var_binding : C17_full.
Proof.
  intros decls tops Hwf Hnd st.
  destruct (emit_correct decls tops Hwf Hnd) as (Hsites & Hnames & Hglob & Hused). fold st in Hsites, Hnames, Hglob, Hused.
  split; [exact Hsites|]. split.
  { intros v. split; [|reflexivity]. cbn [global_of g_pkg]. apply fact_pkgs. }
  split; [exact Hnames|]. split; [apply sort_bytes_NoDup; exact Hnames|]. split.
  { intros v. unfold used_vars. rewrite sort_bytes_In. apply Hused. }
  intros vars mem evs Hev. apply run_equiv; assumption.
Qed.
