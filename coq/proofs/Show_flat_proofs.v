(* C09, contexts other than JS and JSON: what checkShow accepts, renderer.Show
   shows. The generated trees are related for every context and kind by the
   checker of ShowTree_proofs (computation), then lifted to every descriptor. *)
From Coq Require Import List NArith Bool Lia.
From Verif Require Import Bytes ShowTree Facts_show ShowTypesM ShowTree_proofs.
Import ListNotations.
Open Scope N_scope.

Definition flat_ctx (ctx : N) : bool := negb (ctx =? ctx_JS) && negb (ctx =? ctx_JSON).

(* the compiler emits the URL flag only for attribute values *)
Definition url_ok (ctx : N) (url : bool) : bool := negb url || (ctx =? ctx_QuotedAttr) || (ctx =? ctx_UnquotedAttr).

(* an accepting path that assumes `t == emptyInterfaceType` is not the path of a type that is not an interface *)
Definition flat_q (ss : asg) (pd : asg * outcome) : bool :=
  asg_true ss (AIs PSelf w_EmptyInterface) || outcome_eqb (snd pd) OOk.

Definition flat_table_ok : bool :=
  forallb (fun ctx => forallb (fun k => forallb (fun url : bool =>
      negb (flat_ctx ctx && url_ok ctx url) || (k =? k_Interface) ||
      pair_check flat_q (tree_assoc gen_checkShow_tbl (ctx * 32 + k))
                        (tree_assoc gen_Show_tbl ((ctx * 2 + url_bit url) * 32 + k)))
    [false; true]) (below n_kinds)) (below n_contexts).

(* proof obligation over the generated facts *)
Lemma flat_table_ok_true : flat_table_ok = true.
Proof. vm_compute. reflexivity. Qed.

Lemma dyn_val_total conv d a : dyn_atom a = true -> exists b, dyn_val conv d a = of_bool b.
Proof.
  destruct a as [p i | p w | | g p | | | | | n]; simpl; try discriminate; intro H.
  - destruct p; try discriminate. destruct d; [eexists; reflexivity | exists false; reflexivity].
  - destruct p; try discriminate. destruct d; [eexists; reflexivity | exists false; reflexivity].
  - destruct d; [exists false | exists true]; reflexivity.
  - eexists; reflexivity.
Qed.

Lemma top_val_shared conv t a : shared a = true -> top_val t a = dyn_val conv (Some t) a.
Proof.
  destruct a as [p i | p w | | g p | | | | | n]; simpl; intro Ha; try discriminate Ha; destruct p; try discriminate Ha; reflexivity.
Qed.

Theorem static_implies_dynamic_flat :
  forall (conv : bool) (ctx : N) (url : bool) (t : ty),
    ctx < n_contexts -> flat_ctx ctx = true -> url_ok ctx url = true ->
    kind_of t < n_kinds -> is_iface t = false -> flag t w_EmptyInterface = false ->
    static_ok ctx t = OOk ->
    dynamic_show conv ctx url (Some t) = OOk.
Proof.
  intros conv ctx url t Hctx Hflat Hurl Hk Hif Hemp Hs.
  pose proof flat_table_ok_true as HT. unfold flat_table_ok in HT.
  pose proof (forall_below _ _ HT ctx Hctx) as H1. cbv beta in H1.
  pose proof (forall_below _ _ H1 (kind_of t) Hk) as H2. cbv beta in H2.
  rewrite forallb_forall in H2.
  assert (Hin : In url [false; true]) by (destruct url; simpl; auto).
  specialize (H2 url Hin). rewrite Hflat, Hurl in H2. unfold is_iface in Hif. rewrite Hif in H2. cbn [negb andb orb] in H2.
  unfold static_ok in Hs. unfold dynamic_show. simpl dyn_kind.
  destruct (pair_check_sound _ _ _ H2 (top_val t) (dyn_val conv (Some t))) as [ss [sd [Hss [Hsd HQ]]]].
  - apply top_val_shared.
  - apply dyn_val_total.
  - reflexivity.
  - exact Hs.
  - unfold flat_q in HQ. apply orb_true_iff in HQ. destruct HQ as [HQ | HQ].
    + pose proof (asg_true_sound _ _ _ Hss HQ) as Hv. cbn [top_val] in Hv. rewrite Hemp in Hv. discriminate Hv.
    + cbn [snd] in HQ. apply outcome_eqb_eq in HQ. exact HQ.
Qed.

(* the nil interface value is shown in every one of these contexts *)
Definition nil_table_ok : bool :=
  forallb (fun ctx => forallb (fun url : bool => forallb (fun conv : bool =>
      negb (flat_ctx ctx) ||
      outcome_eqb (dynamic_show conv ctx url None) OOk) [false; true]) [false; true]) (below n_contexts).

Lemma nil_table_ok_true : nil_table_ok = true.
Proof. vm_compute. reflexivity. Qed.

Theorem nil_is_shown_flat :
  forall conv ctx url, ctx < n_contexts -> flat_ctx ctx = true -> dynamic_show conv ctx url None = OOk.
Proof.
  intros conv ctx url Hctx Hflat.
  pose proof nil_table_ok_true as HT. unfold nil_table_ok in HT.
  pose proof (forall_below _ _ HT ctx Hctx) as H1. cbv beta in H1.
  rewrite forallb_forall in H1. assert (Hu : In url [false; true]) by (destruct url; simpl; auto).
  specialize (H1 url Hu). rewrite forallb_forall in H1.
  assert (Hc : In conv [false; true]) by (destruct conv; simpl; auto).
  specialize (H1 conv Hc). rewrite Hflat in H1. simpl in H1. apply outcome_eqb_eq in H1. exact H1.
Qed.
