(* C06 layer (B), sub-fragment "text and tags with quoted attributes, shows of
   an identifier": the context the lexer model gives to every show is the
   abstraction of the state of the reference tokenizer (RefTok2, opt_html).
   A simulation between the main loop of the lexer and the reference. *)
From Verif Require Import Bytes Utf8 Facts_lexer Facts_unicode LexBase LexCodeM LexerM LexTables LexPos RefTok RefTok2
  LexBase_proofs LexTile_proofs LexCode_proofs Lexer_proofs LexTop_proofs LexPosBase_proofs.
Open Scope N_scope.

Local Notation psafeT := (psafeE (fun _ : lexer => True)).
Local Notation U := go_unicode.

(* the shows sent so far: (offset, context) of every token of type tokenLeftBraces, in the order of emission *)
Definition shows (l : lexer) : list (N * N) := lexer_contexts (rev (l_out l)).

Lemma lexer_contexts_app a b : lexer_contexts (a ++ b) = lexer_contexts a ++ lexer_contexts b.
Proof. unfold lexer_contexts. rewrite filter_app, map_app. reflexivity. Qed.

Lemma shows_cons t l l' :
  l_out l' = t :: l_out l ->
  shows l' = shows l ++ (if t_typ t =? gen_tokenLeftBraces then [(t_start t, t_ctx t)] else []).
Proof.
  intros H. unfold shows. rewrite H. cbn [rev]. rewrite lexer_contexts_app. f_equal.
  unfold lexer_contexts. cbn [filter]. destruct (t_typ t =? gen_tokenLeftBraces); reflexivity.
Qed.

(* the fields the simulation looks at *)
Definition same_fields (l l' : lexer) : Prop :=
  l_ctx l' = l_ctx l /\ l_tctx l' = l_tctx l /\ l_tag l' = l_tag l /\ l_att l' = l_att l /\ l_tsyn l' = l_tsyn l.
Lemma same_fields_refl l : same_fields l l.
Proof. repeat split. Qed.
Lemma same_fields_trans a b c : same_fields a b -> same_fields b c -> same_fields a c.
Proof. intros (A1 & A2 & A3 & A4 & A5) (B1 & B2 & B3 & B4 & B5). repeat split; congruence. Qed.

(* what emit_at does *)
Lemma emit_at_sim line col cd ld typ n l l' :
  emit_at line col cd ld typ n l = Ok l' ->
  n <= len l /\ l_src l' = drop n (l_src l) /\ l_base l' = l_base l + n /\ same_fields l l' /\
  shows l' = shows l ++ (if typ =? gen_tokenLeftBraces then [(l_base l, l_ctx l)] else []).
Proof.
  unfold emit_at. destruct (N.ltb_spec (len l) n) as [Hlt0|Hge0]; [discriminate|].
  set (ctx := if typ =? gen_tokenText then gen_ContextText else l_ctx l).
  assert (Hctx : typ = gen_tokenLeftBraces -> ctx = l_ctx l) by (intros ->; reflexivity).
  destruct (N.eqb_spec n 0) as [->|Hn0].
  - change (0 <? 0) with false. cbv iota.
    assert (Hsemi : (typ =? gen_tokenSemicolon) = true -> (typ =? gen_tokenLeftBraces) = false).
    { intros E. apply N.eqb_eq in E. subst typ. reflexivity. }
    destruct (typ =? gen_tokenSemicolon) eqn:Ets0; cbn [l_tsyn set_out set_tot];
    (destruct (l_tsyn l) eqn:Ets; [destruct (typ =? gen_tokenRaw); [destruct (_ =? gen_tokenStartStatement)|
      destruct (typ =? gen_tokenIdentifier); [cbn [l_raw set_out set_tot]; destruct (l_raw l); [destruct (_ =? gen_tokenRaw)|]|
      destruct (typ =? gen_tokenEnd)]]|]);
    intros H; injection H as <-; (split; [lia|]); (split; [reflexivity|]); (split; [cbn; lia|]);
    (split; [repeat split; cbn; auto|]);
    (erewrite shows_cons by (cbn; reflexivity)); cbn [t_typ t_start t_ctx]; try (rewrite (Hsemi eq_refl); reflexivity);
    destruct (N.eqb_spec typ gen_tokenLeftBraces) as [E|E]; try reflexivity; rewrite (Hctx E); reflexivity.
  - assert (Hlt : (0 <? n) = true) by (apply N.ltb_lt; lia). rewrite Hlt. cbn [andb l_tsyn set_out set_tot].
    destruct (l_tsyn l) eqn:Ets; [destruct (typ =? gen_tokenRaw); [destruct (_ =? gen_tokenStartStatement)|
      destruct (typ =? gen_tokenIdentifier); [cbn [l_raw set_out set_tot]; destruct (l_raw l); [destruct (_ =? gen_tokenRaw)|]|
      destruct (typ =? gen_tokenEnd)]]|];
    intros H; injection H as <-; (split; [lia|]); (split; [reflexivity|]); (split; [reflexivity|]);
    (split; [repeat split; cbn; auto|]);
    (erewrite shows_cons by (cbn; reflexivity)); cbn [t_typ t_start t_ctx];
    destruct (N.eqb_spec typ gen_tokenLeftBraces) as [E|E]; try reflexivity; rewrite (Hctx E); reflexivity.
Qed.

Lemma emitc_sim typ n l :
  psafeT (emitc typ n l) (fun l' => n <= len l /\ l_src l' = drop n (l_src l) /\ l_base l' = l_base l + n /\ same_fields l l' /\
    shows l' = shows l ++ (if typ =? gen_tokenLeftBraces then [(l_base l, l_ctx l)] else [])).
Proof.
  unfold emitc, emit. destruct (emit_at _ _ _ _ typ n l) as [l1| | |] eqn:E; cbn; try exact I.
  destruct (emit_at_sim _ _ _ _ _ _ _ _ E) as (A & B & C & D & F). repeat split; try assumption; apply D.
Qed.

Lemma advance_sim n l : psafeT (advance n l) (fun l' => l' = set_src (drop n (l_src l)) (l_base l + n) l).
Proof. unfold advance. destruct (len l <? n); cbn; auto. Qed.

(* ---- facts about the generated tables of Go on ASCII ---- *)
Lemma ident_char_go c : c < 256 -> is_ident_char c = true -> c < 128 /\ negb (c =? 95) && negb (u_letter U c) && negb (u_digit U c) = false.
Proof.
  intros Hc H.
  assert (G : forallb (fun c => implb (is_ident_char c) ((c <? 128) && negb (negb (c =? 95) && negb (u_letter U c) && negb (u_digit U c)))) all_bytes = true)
    by (vm_compute; reflexivity).
  pose proof (forall_bytes _ G c Hc) as G1. cbv beta in G1. rewrite H in G1. cbn [implb] in G1.
  apply andb_prop in G1. destruct G1 as [G1 G2]. apply N.ltb_lt in G1. apply negb_true_iff in G2. auto.
Qed.
Lemma not_ident_char_go c : c < 128 -> is_ident_char c = false -> negb (c =? 95) && negb (u_letter U c) && negb (u_digit U c) = true.
Proof.
  intros Hc H.
  assert (G : forallb (fun c => implb ((c <? 128) && negb (is_ident_char c)) (negb (c =? 95) && negb (u_letter U c) && negb (u_digit U c))) all_bytes = true)
    by (vm_compute; reflexivity).
  pose proof (forall_bytes _ G c ltac:(lia)) as G1. cbv beta in G1. rewrite H in G1. apply N.ltb_lt in Hc. rewrite Hc in G1. exact G1.
Qed.
Lemma ident_start_go c : c < 256 -> is_ident_start c = true ->
  c < 128 /\ (c =? 95) || ((c <? 128) && u_letter U c) = true /\ (65 <= c <= 90 \/ 97 <= c <= 122 \/ c = 95).
Proof.
  intros Hc H.
  assert (G : forallb (fun c => implb (is_ident_start c) ((c <? 128) && ((c =? 95) || ((c <? 128) && u_letter U c)) &&
                 (((65 <=? c) && (c <=? 90)) || ((97 <=? c) && (c <=? 122)) || (c =? 95)))) all_bytes = true)
    by (vm_compute; reflexivity).
  pose proof (forall_bytes _ G c Hc) as G1. cbv beta in G1. rewrite H in G1. cbn [implb] in G1.
  apply andb_prop in G1. destruct G1 as [G1 G3]. apply andb_prop in G1. destruct G1 as [G1 G2]. apply N.ltb_lt in G1.
  split; [exact G1|]. split; [exact G2|].
  apply orb_prop in G3. destruct G3 as [G3|G3]; [apply orb_prop in G3; destruct G3 as [G3|G3]|].
  - b2p. left. lia.
  - b2p. right. left. lia.
  - apply N.eqb_eq in G3. auto.
Qed.
Lemma kw_not_show ts id : kw_lookup ts id <> gen_tokenLeftBraces.
Proof.
  unfold kw_lookup. destruct (bassoc (if ts then gen_keywords_template else gen_keywords_program) id) as [t|] eqn:E; [|discriminate].
  assert (H : forallb (fun kv => negb (snd kv =? gen_tokenLeftBraces)) (if ts then gen_keywords_template else gen_keywords_program) = true)
    by (destruct ts; reflexivity).
  apply (bassoc_forall (fun t => negb (t =? gen_tokenLeftBraces)) _ _ _ H) in E. apply negb_true_iff, N.eqb_neq in E. exact E.
Qed.

(* ---- the body of a show of an identifier ---- *)
Definition PA (r' : bytes) (s : bytes) : Prop := skip_show2 opt_html s = Some r'.
Definition PB (r' : bytes) (s : bytes) : Prop := skip_spaces s = 125 :: 125 :: r'.

Lemma skip_spaces_not32 c s : c <> 32 -> skip_spaces (c :: s) = c :: s.
Proof. intros H. cbn [skip_spaces]. apply N.eqb_neq in H. rewrite H. reflexivity. Qed.

Lemma PA_inv r' s : PA r' s ->
  (exists s', s = 32 :: s' /\ PA r' s') \/ (exists c r0, s = c :: r0 /\ c <> 32 /\ is_ident_start c = true /\ PB r' (skip_ident r0)).
Proof.
  unfold PA, skip_show2. cbn [o_ident opt_html]. destruct s as [|c s0]; [discriminate|].
  destruct (N.eqb_spec c 32) as [->|N32].
  - intros H. left. exists s0. split; [reflexivity|]. exact H.
  - intros H. right. exists c, s0. split; [reflexivity|]. split; [exact N32|].
    rewrite (skip_spaces_not32 _ _ N32) in H. destruct (is_ident_start c); [|discriminate]. split; [reflexivity|].
    unfold PB. destruct (skip_spaces (skip_ident s0)) as [|a [|b t]]; try discriminate.
    destruct (N.eqb_spec a 125) as [->|Na]; [|discriminate]. destruct (N.eqb_spec b 125) as [->|Nb]; [|discriminate].
    injection H as <-. reflexivity.
Qed.
Lemma PB_inv r' s : PB r' s -> (exists s', s = 32 :: s' /\ PB r' s') \/ s = 125 :: 125 :: r'.
Proof.
  unfold PB. destruct s as [|c s0]; [discriminate|]. destruct (N.eqb_spec c 32) as [->|N32].
  - intros H. left. exists s0. auto.
  - intros H. right. rewrite (skip_spaces_not32 _ _ N32) in H. exact H.
Qed.

(* code_body in front of a space, of an identifier, of the closing braces *)
Definition cpostS (s : cst) (P : lexer -> Prop) (x : step cst) : Prop :=
  match x with
  | Again s' => P (c_l s') /\ c_ret s' = c_ret s /\ c_ulb s' = c_ulb s
  | Stop _ => False
  end.

Ltac eval_chain := cbn [N.eqb Pos.eqb orb andb negb is_digit09 N.leb N.compare Pos.compare Pos.compare_cont oeq].

Lemma code_body_space endt first s r :
  l_src (c_l s) = 32 :: r ->
  psafeT (code_body U endt first s) (cpostS s (fun l' => l' = addcol 1 (set_src r (l_base (c_l s) + 1) (c_l s)))).
Proof.
  intros Hs. unfold code_body.
  assert (Hl : len (c_l s) = 1 + nlen r) by (unfold len; rewrite Hs, nlen_cons; reflexivity).
  destruct (N.eqb_spec (len (c_l s)) 0) as [E|_]; [lia|].
  unfold idx. rewrite Hs. cbn [get nth_error N.to_nat bind]. eval_chain.
  eapply psafe_bind; [apply advance_sim|]. intros l1 ->. cbn. rewrite Hs. auto.
Qed.

Lemma code_body_close first s r' :
  l_src (c_l s) = 125 :: 125 :: r' -> c_ulb s = 0 ->
  psafeT (code_body U gen_tokenRightBraces first s)
    (fun x => match x with Stop s' => c_l s' = c_l s /\ c_ret s' = true | Again _ => False end).
Proof.
  intros Hs Hu. unfold code_body.
  assert (Hl : len (c_l s) = 2 + nlen r') by (unfold len; rewrite Hs, !nlen_cons; lia).
  destruct (N.eqb_spec (len (c_l s)) 0) as [E|_]; [lia|].
  unfold idx. rewrite Hs. cbn [get nth_error N.to_nat bind]. eval_chain.
  change (gen_tokenRightBraces =? gen_tokenRightBraces) with true. cbv iota.
  unfold nxt. destruct (N.ltb_spec 1 (len (c_l s))) as [_|H]; [|lia].
  unfold idx. rewrite Hs. change (get (125 :: 125 :: r') 1) with (Some 125). cbn [bind]. eval_chain.
  rewrite Hu. eval_chain. cbn [bind]. cbn [psafeE c_l c_ret creturn]. auto.
Qed.

(* the identifier loop stops where skip_ident does *)
Lemma ident_loop_sim l r0 c r' :
  l_src l = c :: r0 -> PB r' (skip_ident r0) -> is_bytes (l_src l) = true ->
  psafeT (loop (S (length (l_src l))) (ident_body U l) (1, 1)) (fun st => drop (fst st) (l_src l) = skip_ident r0 /\ 1 <= fst st /\ fst st <= len l).
Proof.
  intros Hs HB Hby.
  apply (psafe_loop (ident_body U l) (fun st => skip_ident (drop (fst st) (l_src l)) = skip_ident r0 /\ 1 <= fst st /\ fst st <= len l)).
  - intros [p cols] (H1 & H2 & H3). cbn [fst snd] in *. unfold ident_body.
    destruct (N.ltb_spec p (len l)) as [Hlt|Hge].
    + destruct (drop_cons_get _ _ Hlt) as (b & t & Hdr & Hg). rewrite Hdr in *.
      pose proof (is_bytes_get _ _ _ Hby Hg) as Hb256.
      destruct (is_ident_char b) eqn:Eic.
      * destruct (ident_char_go b Hb256 Eic) as [Hb128 Hid]. rewrite (decode_ascii b t Hb128), Hid. cbn [psafeE fst snd].
        cbn [skip_ident] in H1. rewrite Eic in H1.
        replace (p + N.of_nat 1) with (p + 1) by lia. rewrite <- drop_drop, Hdr. change (drop 1 (b :: t)) with t.
        split; [exact H1|]. split; [lia|]. unfold len in *. lia.
      * (* the byte after the identifier is a space or a closing brace *)
        cbn [skip_ident] in H1. rewrite Eic in H1.
        assert (Hb : b = 32 \/ b = 125).
        { unfold PB in HB. rewrite <- H1 in HB. cbn [skip_spaces] in HB. destruct (N.eqb_spec b 32); [auto|]. injection HB as -> _. auto. }
        assert (Hb128 : b < 128) by (destruct Hb; lia).
        rewrite (decode_ascii b t Hb128), (not_ident_char_go b Hb128 Eic). cbn [psafeE fst snd]. rewrite Hdr. auto.
    + cbn [psafeE fst snd]. assert (p = len l) by lia. subst p.
      assert (Hd : drop (len l) (l_src l) = []) by (unfold drop, len; rewrite nlen_eq, Nat2N.id; apply skipn_all).
      rewrite Hd in *. cbn [skip_ident] in H1. split; [exact H1|lia].
  - cbn [fst snd]. rewrite Hs. change (drop 1 (c :: r0)) with r0. split; [reflexivity|]. unfold len. rewrite Hs, nlen_cons. lia.
Qed.

Lemma skip_ident_len s : nlen (skip_ident s) <= nlen s.
Proof.
  induction s as [|b t IH]; [cbn; lia|]. cbn [skip_ident]. destruct (is_ident_char b); [rewrite nlen_cons; lia|lia].
Qed.
Lemma skip_ident_bytes s : is_bytes s = true -> is_bytes (skip_ident s) = true.
Proof.
  induction s as [|b t IH]; intros H; [reflexivity|]. cbn [skip_ident].
  destruct (is_ident_char b); [|exact H]. change (is_bytes (b :: t)) with (is_byte b && is_bytes t) in H.
  apply andb_prop in H. apply IH, H.
Qed.
Lemma nlen_drop_le p s : p <= nlen s -> nlen s - nlen (drop p s) = p.
Proof. intros H. rewrite nlen_drop. lia. Qed.

Lemma code_body_ident first s c r0 r' :
  l_src (c_l s) = c :: r0 -> is_ident_start c = true -> PB r' (skip_ident r0) -> is_bytes (l_src (c_l s)) = true ->
  psafeT (code_body U gen_tokenRightBraces first s)
    (cpostS s (fun l' => l_src l' = skip_ident r0 /\ same_fields (c_l s) l' /\ shows l' = shows (c_l s)
                         /\ l_base l' = l_base (c_l s) + (nlen (l_src (c_l s)) - nlen (skip_ident r0)))).
Proof.
  intros Hs Hc HB Hby. set (l := c_l s) in *.
  assert (Hc256 : c < 256) by (eapply (is_bytes_get _ 0); [exact Hby|rewrite Hs; reflexivity]).
  destruct (ident_start_go c Hc256 Hc) as (Hc128 & Hfirst & Hrange).
  unfold code_body. fold l.
  assert (Hl : len l = 1 + nlen r0) by (unfold len; rewrite Hs, nlen_cons; reflexivity).
  destruct (N.eqb_spec (len l) 0) as [E|_]; [lia|].
  unfold idx. rewrite Hs. cbn [get nth_error N.to_nat bind].
  assert (Hne : forall k, (k < 65 \/ (90 < k /\ k < 95) \/ k = 96 \/ 122 < k) -> (c =? k) = false) by (intros k Hk; apply N.eqb_neq; lia).
  rewrite !Hne by lia.
  assert (Hd : is_digit09 c = false) by (unfold is_digit09; apply andb_false_intro2; apply N.leb_gt; lia).
  rewrite Hd. cbn [orb]. cbv iota.
  (* code_ident *)
  unfold code_ident. fold l. rewrite Hfirst.
  unfold lex_ident. rewrite !bind_assoc.
  eapply psafe_bind; [apply (ident_loop_sim l r0 c r' Hs HB Hby)|].
  intros [p cols] (Hdr & Hp1 & Hp2). cbn [fst snd] in *.
  destruct (N.ltb_spec (len l) p) as [Hlt|_]; [lia|].
  destruct (emit (kw_lookup (l_tsyn l) (take p (l_src l))) p l) as [l1| | |] eqn:Eem; cbn [bind]; try exact I.
  destruct (emit_at_sim _ _ _ _ _ _ _ _ Eem) as (_ & Hs1 & Hb1 & Hf1 & Hsh1).
  assert (Hnb : (kw_lookup (l_tsyn l) (take p (l_src l)) =? gen_tokenLeftBraces) = false) by (apply N.eqb_neq, kw_not_show).
  rewrite Hnb, app_nil_r in Hsh1.
  change (gen_tokenRightBraces =? gen_tokenEndStatement) with false. cbv iota.
  cbn [psafeE cpostS c_l c_ret c_ulb cset_l]. split; [|split; reflexivity].
  split; [cbn; rewrite Hs1, Hdr; reflexivity|]. split; [destruct Hf1 as (A & B & C & D & F); repeat split; cbn; assumption|].
  split; [exact Hsh1|]. cbn. rewrite Hb1, <- Hdr, Hs, nlen_drop_le; [reflexivity|]. unfold len in Hp2. rewrite Hs in Hp2. exact Hp2.
Qed.

(* lexCode(tokenRightBraces) over the body of a show of an identifier *)
Lemma lex_code_ident_show l body r' :
  l_src l = body -> PA r' body -> is_bytes body = true ->
  psafeT (lex_code U gen_tokenRightBraces l)
    (fun l' => l_src l' = 125 :: 125 :: r' /\ same_fields l l' /\ shows l' = shows l
               /\ l_base l' = l_base l + (nlen body - nlen (125 :: 125 :: r'))).
Proof.
  intros Hsrc HPA Hby. unfold lex_code.
  destruct (len l =? 0); [exact I|].
  eapply psafe_bind.
  - apply (psafe_loop (code_body U gen_tokenRightBraces (l_tot l + 1))
       (fun s => c_ret s = false /\ c_ulb s = 0 /\ (PA r' (l_src (c_l s)) \/ PB r' (l_src (c_l s))) /\ is_bytes (l_src (c_l s)) = true
                 /\ same_fields l (c_l s) /\ shows (c_l s) = shows l
                 /\ l_base (c_l s) + nlen (l_src (c_l s)) = l_base l + nlen body /\ l_base l <= l_base (c_l s))
       (fun s => c_ret s = true /\ l_src (c_l s) = 125 :: 125 :: r' /\ same_fields l (c_l s) /\ shows (c_l s) = shows l
                 /\ l_base (c_l s) + nlen (l_src (c_l s)) = l_base l + nlen body /\ l_base l <= l_base (c_l s))).
    + intros s (Hret & Hulb & Hph & Hb & Hf & Hsh & Hlen & Hmono).
      assert (Hspace : forall t, l_src (c_l s) = 32 :: t -> (PA r' t \/ PB r' t) ->
                psafeT (code_body U gen_tokenRightBraces (l_tot l + 1) s)
                  (fun r => match r with
                            | Again s' => c_ret s' = false /\ c_ulb s' = 0 /\ (PA r' (l_src (c_l s')) \/ PB r' (l_src (c_l s'))) /\ is_bytes (l_src (c_l s')) = true
                                          /\ same_fields l (c_l s') /\ shows (c_l s') = shows l
                                          /\ l_base (c_l s') + nlen (l_src (c_l s')) = l_base l + nlen body /\ l_base l <= l_base (c_l s')
                            | Stop s' => c_ret s' = true /\ l_src (c_l s') = 125 :: 125 :: r' /\ same_fields l (c_l s') /\ shows (c_l s') = shows l
                                          /\ l_base (c_l s') + nlen (l_src (c_l s')) = l_base l + nlen body /\ l_base l <= l_base (c_l s') end)).
      { intros t Ht Hpt. eapply psafe_mono; [apply (code_body_space _ _ s t Ht)|].
        intros [s'|s']; [|intros []]. intros (-> & R1 & R2). lcbn.
        rewrite Ht in Hb, Hlen. rewrite nlen_cons in Hlen. change (is_bytes (32 :: t)) with (is_byte 32 && is_bytes t) in Hb. cbn [is_byte andb] in Hb.
        split; [congruence|]. split; [congruence|]. split; [exact Hpt|]. split; [exact Hb|].
        split; [exact Hf|]. split; [exact Hsh|]. split; lia. }
      destruct Hph as [HA|HB].
      * destruct (PA_inv _ _ HA) as [(t & Ht & HAt)|(c & r0 & Ht & Hn32 & Hcs & HBt)].
        -- apply (Hspace t Ht). left. exact HAt.
        -- eapply psafe_mono; [apply (code_body_ident _ s c r0 r' Ht Hcs HBt Hb)|].
           intros [s'|s']; [|intros []]. intros ((A1 & A2 & A3 & A4) & R1 & R2).
           split; [congruence|]. split; [congruence|]. split; [right; rewrite A1; exact HBt|].
           split.
           { rewrite A1. apply skip_ident_bytes. rewrite Ht in Hb. change (is_bytes (c :: r0)) with (is_byte c && is_bytes r0) in Hb.
             apply andb_prop in Hb. apply Hb. }
           split; [eapply same_fields_trans; eassumption|]. split; [congruence|].
           rewrite A4, A1. pose proof (skip_ident_len r0) as Hsl. rewrite Ht, nlen_cons in *. split; lia.
      * destruct (PB_inv _ _ HB) as [(t & Ht & HBt)|Ht].
        -- apply (Hspace t Ht). right. exact HBt.
        -- eapply psafe_mono; [apply (code_body_close _ s r' Ht Hulb)|].
           intros [s'|s']; [intros []|]. intros [A1 A2]. rewrite A1. auto 12.
    + cbn [c_l c_ret c_ulb]. split; [reflexivity|]. split; [reflexivity|]. split; [left; rewrite Hsrc; exact HPA|].
      split; [rewrite Hsrc; exact Hby|]. split; [apply same_fields_refl|]. split; [reflexivity|]. rewrite Hsrc. split; [reflexivity|lia].
  - intros s (Hret & Hs' & Hf & Hsh & Hlen & Hmono). rewrite Hret. cbn [psafeE].
    split; [exact Hs'|]. split; [exact Hf|]. split; [exact Hsh|]. rewrite Hs' in Hlen.
    lia.
Qed.

(* a show of an identifier: one token of type tokenLeftBraces with the context of the lexer, and the source after the closing braces *)
Lemma lex_show_sim l body r' :
  l_src l = 123 :: 123 :: body -> skip_show2 opt_html body = Some r' -> is_bytes (l_src l) = true ->
  psafeT (lex_show U l)
    (fun l' => l_src l' = r' /\ same_fields l l' /\ shows l' = shows l ++ [(l_base l, l_ctx l)]
               /\ l_base l' = l_base l + (nlen (l_src l) - nlen r')).
Proof.
  intros Hs HPA Hby. unfold lex_show.
  eapply psafe_bind; [apply emitc_sim|]. intros l1 (_ & Hs1 & Hb1 & Hf1 & Hsh1).
  rewrite Hs in Hs1. change (drop 2 (123 :: 123 :: body)) with body in Hs1.
  change (gen_tokenLeftBraces =? gen_tokenLeftBraces) with true in Hsh1.
  assert (Hbb : is_bytes body = true).
  { rewrite Hs in Hby. change (is_bytes (123 :: 123 :: body)) with (is_byte 123 && (is_byte 123 && is_bytes body)) in Hby. exact Hby. }
  eapply psafe_bind; [apply (lex_code_ident_show l1 body r' Hs1 HPA Hbb)|]. intros l2 (Hs2 & Hf2 & Hsh2 & Hb2).
  eapply psafe_mono; [apply emitc_sim|]. intros l3 (_ & Hs3 & Hb3 & Hf3 & Hsh3).
  rewrite Hs2 in Hs3. change (drop 2 (125 :: 125 :: r')) with r' in Hs3.
  change (gen_tokenRightBraces =? gen_tokenLeftBraces) with false in Hsh3. rewrite app_nil_r in Hsh3.
  split; [exact Hs3|]. split; [eapply same_fields_trans; [exact Hf1|eapply same_fields_trans; eassumption]|].
  split; [rewrite Hsh3, Hsh2, Hsh1; reflexivity|].
  rewrite Hb3, Hb2, Hb1, Hs, !nlen_cons.
  assert (Hle : nlen (125 :: 125 :: r') <= nlen body).
  { (* the closing braces are part of the body *)
    clear -HPA. unfold skip_show2 in HPA. cbn [o_ident opt_html] in HPA.
    assert (Hsp : forall s, nlen (skip_spaces s) <= nlen s).
    { induction s as [|c t IH]; [cbn; lia|]. cbn [skip_spaces]. destruct (c =? 32); [rewrite nlen_cons; lia|lia]. }
    pose proof (Hsp body) as H1. destruct (skip_spaces body) as [|c r]; [discriminate|]. destruct (is_ident_start c); [|discriminate].
    pose proof (skip_ident_len r) as H2. pose proof (Hsp (skip_ident r)) as H3.
    destruct (skip_spaces (skip_ident r)) as [|a [|b t]]; try discriminate.
    destruct ((a =? 125) && (b =? 125)); [|discriminate]. injection HPA as <-. rewrite !nlen_cons in *. lia. }
  rewrite !nlen_cons in Hle. lia.
Qed.
