(* C06 layer (B), sub-fragment "text and tags with quoted attributes, shows of
   an identifier": the context the lexer model gives to every show is the
   abstraction of the state of the reference tokenizer (RefTok2, opt_html).
   A simulation between the main loop of the lexer and the reference. *)
From Verif Require Import Bytes Utf8 Facts_lexer Facts_unicode LexBase LexCodeM LexerM LexTables LexPos RefTok RefTok2
  LexBase_proofs LexTile_proofs LexCode_proofs Lexer_proofs LexTop_proofs LexPosBase_proofs.
Open Scope N_scope.

Local Notation psafeT := (psafeE (fun _ : lexer => True)).
Local Notation U := go_unicode.

(* the shows sent so far: (offset, context) of every token of type tokenLeftBraces, in the order of emission *)
Definition shows (l : lexer) : list (N * N) := lexer_contexts (rev (l_out l)).

Lemma lexer_contexts_app a b : lexer_contexts (a ++ b) = lexer_contexts a ++ lexer_contexts b.
Proof. unfold lexer_contexts. rewrite filter_app, map_app. reflexivity. Qed.

Lemma shows_cons t l l' :
  l_out l' = t :: l_out l ->
  shows l' = shows l ++ (if t_typ t =? gen_tokenLeftBraces then [(t_start t, t_ctx t)] else []).
Proof.
  intros H. unfold shows. rewrite H. cbn [rev]. rewrite lexer_contexts_app. f_equal.
  unfold lexer_contexts. cbn [filter]. destruct (t_typ t =? gen_tokenLeftBraces); reflexivity.
Qed.

(* the fields the simulation looks at *)
Definition same_fields (l l' : lexer) : Prop :=
  l_ctx l' = l_ctx l /\ l_tctx l' = l_tctx l /\ l_tag l' = l_tag l /\ l_att l' = l_att l /\ l_tsyn l' = l_tsyn l.
Lemma same_fields_refl l : same_fields l l.
Proof. repeat split. Qed.
Lemma same_fields_trans a b c : same_fields a b -> same_fields b c -> same_fields a c.
Proof. intros (A1 & A2 & A3 & A4 & A5) (B1 & B2 & B3 & B4 & B5). repeat split; congruence. Qed.

(* what emit_at does *)
Lemma emit_at_sim line col cd ld typ n l l' :
  emit_at line col cd ld typ n l = Ok l' ->
  n <= len l /\ l_src l' = drop n (l_src l) /\ l_base l' = l_base l + n /\ same_fields l l' /\
  shows l' = shows l ++ (if typ =? gen_tokenLeftBraces then [(l_base l, l_ctx l)] else []).
Proof.
  unfold emit_at. destruct (N.ltb_spec (len l) n) as [Hlt0|Hge0]; [discriminate|].
  set (ctx := if typ =? gen_tokenText then gen_ContextText else l_ctx l).
  assert (Hctx : typ = gen_tokenLeftBraces -> ctx = l_ctx l) by (intros ->; reflexivity).
  destruct (N.eqb_spec n 0) as [->|Hn0].
  - change (0 <? 0) with false. cbv iota.
    assert (Hsemi : (typ =? gen_tokenSemicolon) = true -> (typ =? gen_tokenLeftBraces) = false).
    { intros E. apply N.eqb_eq in E. subst typ. reflexivity. }
    destruct (typ =? gen_tokenSemicolon) eqn:Ets0; cbn [l_tsyn set_out set_tot];
    (destruct (l_tsyn l) eqn:Ets; [destruct (typ =? gen_tokenRaw); [destruct (_ =? gen_tokenStartStatement)|
      destruct (typ =? gen_tokenIdentifier); [cbn [l_raw set_out set_tot]; destruct (l_raw l); [destruct (_ =? gen_tokenRaw)|]|
      destruct (typ =? gen_tokenEnd)]]|]);
    intros H; injection H as <-; (split; [lia|]); (split; [reflexivity|]); (split; [cbn; lia|]);
    (split; [repeat split; cbn; auto|]);
    (erewrite shows_cons by (cbn; reflexivity)); cbn [t_typ t_start t_ctx]; try (rewrite (Hsemi eq_refl); reflexivity);
    destruct (N.eqb_spec typ gen_tokenLeftBraces) as [E|E]; try reflexivity; rewrite (Hctx E); reflexivity.
  - assert (Hlt : (0 <? n) = true) by (apply N.ltb_lt; lia). rewrite Hlt. cbn [andb l_tsyn set_out set_tot].
    destruct (l_tsyn l) eqn:Ets; [destruct (typ =? gen_tokenRaw); [destruct (_ =? gen_tokenStartStatement)|
      destruct (typ =? gen_tokenIdentifier); [cbn [l_raw set_out set_tot]; destruct (l_raw l); [destruct (_ =? gen_tokenRaw)|]|
      destruct (typ =? gen_tokenEnd)]]|];
    intros H; injection H as <-; (split; [lia|]); (split; [reflexivity|]); (split; [reflexivity|]);
    (split; [repeat split; cbn; auto|]);
    (erewrite shows_cons by (cbn; reflexivity)); cbn [t_typ t_start t_ctx];
    destruct (N.eqb_spec typ gen_tokenLeftBraces) as [E|E]; try reflexivity; rewrite (Hctx E); reflexivity.
Qed.

Lemma emitc_sim typ n l :
  psafeT (emitc typ n l) (fun l' => n <= len l /\ l_src l' = drop n (l_src l) /\ l_base l' = l_base l + n /\ same_fields l l' /\
    shows l' = shows l ++ (if typ =? gen_tokenLeftBraces then [(l_base l, l_ctx l)] else [])).
Proof.
  unfold emitc, emit. destruct (emit_at _ _ _ _ typ n l) as [l1| | |] eqn:E; cbn; try exact I.
  destruct (emit_at_sim _ _ _ _ _ _ _ _ E) as (A & B & C & D & F). repeat split; try assumption; apply D.
Qed.

Lemma advance_sim n l : psafeT (advance n l) (fun l' => l' = set_src (drop n (l_src l)) (l_base l + n) l).
Proof. unfold advance. destruct (len l <? n); cbn; auto. Qed.

(* ---- facts about the generated tables of Go on ASCII ---- *)
Lemma ident_char_go c : c < 256 -> is_ident_char c = true -> c < 128 /\ negb (c =? 95) && negb (u_letter U c) && negb (u_digit U c) = false.
Proof.
  intros Hc H.
  assert (G : forallb (fun c => implb (is_ident_char c) ((c <? 128) && negb (negb (c =? 95) && negb (u_letter U c) && negb (u_digit U c)))) all_bytes = true)
    by (vm_compute; reflexivity).
  pose proof (forall_bytes _ G c Hc) as G1. cbv beta in G1. rewrite H in G1. cbn [implb] in G1.
  apply andb_prop in G1. destruct G1 as [G1 G2]. apply N.ltb_lt in G1. apply negb_true_iff in G2. auto.
Qed.
Lemma not_ident_char_go c : c < 128 -> is_ident_char c = false -> negb (c =? 95) && negb (u_letter U c) && negb (u_digit U c) = true.
Proof.
  intros Hc H.
  assert (G : forallb (fun c => implb ((c <? 128) && negb (is_ident_char c)) (negb (c =? 95) && negb (u_letter U c) && negb (u_digit U c))) all_bytes = true)
    by (vm_compute; reflexivity).
  pose proof (forall_bytes _ G c ltac:(lia)) as G1. cbv beta in G1. rewrite H in G1. apply N.ltb_lt in Hc. rewrite Hc in G1. exact G1.
Qed.
Lemma ident_start_go c : c < 256 -> is_ident_start c = true ->
  c < 128 /\ (c =? 95) || ((c <? 128) && u_letter U c) = true /\ (65 <= c <= 90 \/ 97 <= c <= 122 \/ c = 95).
Proof.
  intros Hc H.
  assert (G : forallb (fun c => implb (is_ident_start c) ((c <? 128) && ((c =? 95) || ((c <? 128) && u_letter U c)) &&
                 (((65 <=? c) && (c <=? 90)) || ((97 <=? c) && (c <=? 122)) || (c =? 95)))) all_bytes = true)
    by (vm_compute; reflexivity).
  pose proof (forall_bytes _ G c Hc) as G1. cbv beta in G1. rewrite H in G1. cbn [implb] in G1.
  apply andb_prop in G1. destruct G1 as [G1 G3]. apply andb_prop in G1. destruct G1 as [G1 G2]. apply N.ltb_lt in G1.
  split; [exact G1|]. split; [exact G2|].
  apply orb_prop in G3. destruct G3 as [G3|G3]; [apply orb_prop in G3; destruct G3 as [G3|G3]|].
  - b2p. left. lia.
  - b2p. right. left. lia.
  - apply N.eqb_eq in G3. auto.
Qed.
Lemma kw_not_show ts id : kw_lookup ts id <> gen_tokenLeftBraces.
Proof.
  unfold kw_lookup. destruct (bassoc (if ts then gen_keywords_template else gen_keywords_program) id) as [t|] eqn:E; [|discriminate].
  assert (H : forallb (fun kv => negb (snd kv =? gen_tokenLeftBraces)) (if ts then gen_keywords_template else gen_keywords_program) = true)
    by (destruct ts; reflexivity).
  apply (bassoc_forall (fun t => negb (t =? gen_tokenLeftBraces)) _ _ _ H) in E. apply negb_true_iff, N.eqb_neq in E. exact E.
Qed.

(* ---- the body of a show of an identifier ---- *)
Definition PA (r' : bytes) (s : bytes) : Prop := skip_show2 opt_html s = Some r'.
Definition PB (r' : bytes) (s : bytes) : Prop := skip_spaces s = 125 :: 125 :: r'.

Lemma skip_spaces_not32 c s : c <> 32 -> skip_spaces (c :: s) = c :: s.
Proof. intros H. cbn [skip_spaces]. apply N.eqb_neq in H. rewrite H. reflexivity. Qed.

Lemma PA_inv r' s : PA r' s ->
  (exists s', s = 32 :: s' /\ PA r' s') \/ (exists c r0, s = c :: r0 /\ c <> 32 /\ is_ident_start c = true /\ PB r' (skip_ident r0)).
Proof.
  unfold PA, skip_show2. cbn [o_ident opt_html]. destruct s as [|c s0]; [discriminate|].
  destruct (N.eqb_spec c 32) as [->|N32].
  - intros H. left. exists s0. split; [reflexivity|]. exact H.
  - intros H. right. exists c, s0. split; [reflexivity|]. split; [exact N32|].
    rewrite (skip_spaces_not32 _ _ N32) in H. destruct (is_ident_start c); [|discriminate]. split; [reflexivity|].
    unfold PB. destruct (skip_spaces (skip_ident s0)) as [|a [|b t]]; try discriminate.
    destruct (N.eqb_spec a 125) as [->|Na]; [|discriminate]. destruct (N.eqb_spec b 125) as [->|Nb]; [|discriminate].
    injection H as <-. reflexivity.
Qed.
Lemma PB_inv r' s : PB r' s -> (exists s', s = 32 :: s' /\ PB r' s') \/ s = 125 :: 125 :: r'.
Proof.
  unfold PB. destruct s as [|c s0]; [discriminate|]. destruct (N.eqb_spec c 32) as [->|N32].
  - intros H. left. exists s0. auto.
  - intros H. right. rewrite (skip_spaces_not32 _ _ N32) in H. exact H.
Qed.

(* code_body in front of a space, of an identifier, of the closing braces *)
Definition cpostS (s : cst) (P : lexer -> Prop) (x : step cst) : Prop :=
  match x with
  | Again s' => P (c_l s') /\ c_ret s' = c_ret s /\ c_ulb s' = c_ulb s
  | Stop _ => False
  end.

Ltac eval_chain := cbn [N.eqb Pos.eqb orb andb negb is_digit09 N.leb N.compare Pos.compare Pos.compare_cont oeq].

Lemma code_body_space endt first s r :
  l_src (c_l s) = 32 :: r ->
  psafeT (code_body U endt first s) (cpostS s (fun l' => l' = addcol 1 (set_src r (l_base (c_l s) + 1) (c_l s)))).
Proof.
  intros Hs. unfold code_body.
  assert (Hl : len (c_l s) = 1 + nlen r) by (unfold len; rewrite Hs, nlen_cons; reflexivity).
  destruct (N.eqb_spec (len (c_l s)) 0) as [E|_]; [lia|].
  unfold idx. rewrite Hs. cbn [get nth_error N.to_nat bind]. eval_chain.
  eapply psafe_bind; [apply advance_sim|]. intros l1 ->. cbn. rewrite Hs. auto.
Qed.

Lemma code_body_close first s r' :
  l_src (c_l s) = 125 :: 125 :: r' -> c_ulb s = 0 ->
  psafeT (code_body U gen_tokenRightBraces first s)
    (fun x => match x with Stop s' => c_l s' = c_l s /\ c_ret s' = true | Again _ => False end).
Proof.
  intros Hs Hu. unfold code_body.
  assert (Hl : len (c_l s) = 2 + nlen r') by (unfold len; rewrite Hs, !nlen_cons; lia).
  destruct (N.eqb_spec (len (c_l s)) 0) as [E|_]; [lia|].
  unfold idx. rewrite Hs. cbn [get nth_error N.to_nat bind]. eval_chain.
  change (gen_tokenRightBraces =? gen_tokenRightBraces) with true. cbv iota.
  unfold nxt. destruct (N.ltb_spec 1 (len (c_l s))) as [_|H]; [|lia].
  unfold idx. rewrite Hs. change (get (125 :: 125 :: r') 1) with (Some 125). cbn [bind]. eval_chain.
  rewrite Hu. eval_chain. cbn [bind]. cbn [psafeE c_l c_ret creturn]. auto.
Qed.

(* the identifier loop stops where skip_ident does *)
Lemma ident_loop_sim l r0 c r' :
  l_src l = c :: r0 -> PB r' (skip_ident r0) -> is_bytes (l_src l) = true ->
  psafeT (loop (S (length (l_src l))) (ident_body U l) (1, 1)) (fun st => drop (fst st) (l_src l) = skip_ident r0 /\ 1 <= fst st /\ fst st <= len l).
Proof.
  intros Hs HB Hby.
  apply (psafe_loop (ident_body U l) (fun st => skip_ident (drop (fst st) (l_src l)) = skip_ident r0 /\ 1 <= fst st /\ fst st <= len l)).
  - intros [p cols] (H1 & H2 & H3). cbn [fst snd] in *. unfold ident_body.
    destruct (N.ltb_spec p (len l)) as [Hlt|Hge].
    + destruct (drop_cons_get _ _ Hlt) as (b & t & Hdr & Hg). rewrite Hdr in *.
      pose proof (is_bytes_get _ _ _ Hby Hg) as Hb256.
      destruct (is_ident_char b) eqn:Eic.
      * destruct (ident_char_go b Hb256 Eic) as [Hb128 Hid]. rewrite (decode_ascii b t Hb128), Hid. cbn [psafeE fst snd].
        cbn [skip_ident] in H1. rewrite Eic in H1.
        replace (p + N.of_nat 1) with (p + 1) by lia. rewrite <- drop_drop, Hdr. change (drop 1 (b :: t)) with t.
        split; [exact H1|]. split; [lia|]. unfold len in *. lia.
      * (* the byte after the identifier is a space or a closing brace *)
        cbn [skip_ident] in H1. rewrite Eic in H1.
        assert (Hb : b = 32 \/ b = 125).
        { unfold PB in HB. rewrite <- H1 in HB. cbn [skip_spaces] in HB. destruct (N.eqb_spec b 32); [auto|]. injection HB as -> _. auto. }
        assert (Hb128 : b < 128) by (destruct Hb; lia).
        rewrite (decode_ascii b t Hb128), (not_ident_char_go b Hb128 Eic). cbn [psafeE fst snd]. rewrite Hdr. auto.
    + cbn [psafeE fst snd]. assert (p = len l) by lia. subst p.
      assert (Hd : drop (len l) (l_src l) = []) by (unfold drop, len; rewrite nlen_eq, Nat2N.id; apply skipn_all).
      rewrite Hd in *. cbn [skip_ident] in H1. split; [exact H1|lia].
  - cbn [fst snd]. rewrite Hs. change (drop 1 (c :: r0)) with r0. split; [reflexivity|]. unfold len. rewrite Hs, nlen_cons. lia.
Qed.

Lemma skip_ident_len s : nlen (skip_ident s) <= nlen s.
Proof.
  induction s as [|b t IH]; [cbn; lia|]. cbn [skip_ident]. destruct (is_ident_char b); [rewrite nlen_cons; lia|lia].
Qed.
Lemma skip_ident_bytes s : is_bytes s = true -> is_bytes (skip_ident s) = true.
Proof.
  induction s as [|b t IH]; intros H; [reflexivity|]. cbn [skip_ident].
  destruct (is_ident_char b); [|exact H]. change (is_bytes (b :: t)) with (is_byte b && is_bytes t) in H.
  apply andb_prop in H. apply IH, H.
Qed.
Lemma nlen_drop_le p s : p <= nlen s -> nlen s - nlen (drop p s) = p.
Proof. intros H. rewrite nlen_drop. lia. Qed.

Lemma code_body_ident first s c r0 r' :
  l_src (c_l s) = c :: r0 -> is_ident_start c = true -> PB r' (skip_ident r0) -> is_bytes (l_src (c_l s)) = true ->
  psafeT (code_body U gen_tokenRightBraces first s)
    (cpostS s (fun l' => l_src l' = skip_ident r0 /\ same_fields (c_l s) l' /\ shows l' = shows (c_l s)
                         /\ l_base l' = l_base (c_l s) + (nlen (l_src (c_l s)) - nlen (skip_ident r0)))).
Proof.
  intros Hs Hc HB Hby. set (l := c_l s) in *.
  assert (Hc256 : c < 256) by (eapply (is_bytes_get _ 0); [exact Hby|rewrite Hs; reflexivity]).
  destruct (ident_start_go c Hc256 Hc) as (Hc128 & Hfirst & Hrange).
  unfold code_body. fold l.
  assert (Hl : len l = 1 + nlen r0) by (unfold len; rewrite Hs, nlen_cons; reflexivity).
  destruct (N.eqb_spec (len l) 0) as [E|_]; [lia|].
  unfold idx. rewrite Hs. cbn [get nth_error N.to_nat bind].
  assert (Hne : forall k, (k < 65 \/ (90 < k /\ k < 95) \/ k = 96 \/ 122 < k) -> (c =? k) = false) by (intros k Hk; apply N.eqb_neq; lia).
  rewrite !Hne by lia.
  assert (Hd : is_digit09 c = false) by (unfold is_digit09; apply andb_false_intro2; apply N.leb_gt; lia).
  rewrite Hd. cbn [orb]. cbv iota.
  (* code_ident *)
  unfold code_ident. fold l. rewrite Hfirst.
  unfold lex_ident. rewrite !bind_assoc.
  eapply psafe_bind; [apply (ident_loop_sim l r0 c r' Hs HB Hby)|].
  intros [p cols] (Hdr & Hp1 & Hp2). cbn [fst snd] in *.
  destruct (N.ltb_spec (len l) p) as [Hlt|_]; [lia|].
  destruct (emit (kw_lookup (l_tsyn l) (take p (l_src l))) p l) as [l1| | |] eqn:Eem; cbn [bind]; try exact I.
  destruct (emit_at_sim _ _ _ _ _ _ _ _ Eem) as (_ & Hs1 & Hb1 & Hf1 & Hsh1).
  assert (Hnb : (kw_lookup (l_tsyn l) (take p (l_src l)) =? gen_tokenLeftBraces) = false) by (apply N.eqb_neq, kw_not_show).
  rewrite Hnb, app_nil_r in Hsh1.
  change (gen_tokenRightBraces =? gen_tokenEndStatement) with false. cbv iota.
  cbn [psafeE cpostS c_l c_ret c_ulb cset_l]. split; [|split; reflexivity].
  split; [cbn; rewrite Hs1, Hdr; reflexivity|]. split; [destruct Hf1 as (A & B & C & D & F); repeat split; cbn; assumption|].
  split; [exact Hsh1|]. cbn. rewrite Hb1, <- Hdr, Hs, nlen_drop_le; [reflexivity|]. unfold len in Hp2. rewrite Hs in Hp2. exact Hp2.
Qed.

(* lexCode(tokenRightBraces) over the body of a show of an identifier *)
Lemma lex_code_ident_show l body r' :
  l_src l = body -> PA r' body -> is_bytes body = true ->
  psafeT (lex_code U gen_tokenRightBraces l)
    (fun l' => l_src l' = 125 :: 125 :: r' /\ same_fields l l' /\ shows l' = shows l
               /\ l_base l' = l_base l + (nlen body - nlen (125 :: 125 :: r'))).
Proof.
  intros Hsrc HPA Hby. unfold lex_code.
  destruct (len l =? 0); [exact I|].
  eapply psafe_bind.
  - apply (psafe_loop (code_body U gen_tokenRightBraces (l_tot l + 1))
       (fun s => c_ret s = false /\ c_ulb s = 0 /\ (PA r' (l_src (c_l s)) \/ PB r' (l_src (c_l s))) /\ is_bytes (l_src (c_l s)) = true
                 /\ same_fields l (c_l s) /\ shows (c_l s) = shows l
                 /\ l_base (c_l s) + nlen (l_src (c_l s)) = l_base l + nlen body /\ l_base l <= l_base (c_l s))
       (fun s => c_ret s = true /\ l_src (c_l s) = 125 :: 125 :: r' /\ same_fields l (c_l s) /\ shows (c_l s) = shows l
                 /\ l_base (c_l s) + nlen (l_src (c_l s)) = l_base l + nlen body /\ l_base l <= l_base (c_l s))).
    + intros s (Hret & Hulb & Hph & Hb & Hf & Hsh & Hlen & Hmono).
      assert (Hspace : forall t, l_src (c_l s) = 32 :: t -> (PA r' t \/ PB r' t) ->
                psafeT (code_body U gen_tokenRightBraces (l_tot l + 1) s)
                  (fun r => match r with
                            | Again s' => c_ret s' = false /\ c_ulb s' = 0 /\ (PA r' (l_src (c_l s')) \/ PB r' (l_src (c_l s'))) /\ is_bytes (l_src (c_l s')) = true
                                          /\ same_fields l (c_l s') /\ shows (c_l s') = shows l
                                          /\ l_base (c_l s') + nlen (l_src (c_l s')) = l_base l + nlen body /\ l_base l <= l_base (c_l s')
                            | Stop s' => c_ret s' = true /\ l_src (c_l s') = 125 :: 125 :: r' /\ same_fields l (c_l s') /\ shows (c_l s') = shows l
                                          /\ l_base (c_l s') + nlen (l_src (c_l s')) = l_base l + nlen body /\ l_base l <= l_base (c_l s') end)).
      { intros t Ht Hpt. eapply psafe_mono; [apply (code_body_space _ _ s t Ht)|].
        intros [s'|s']; [|intros []]. intros (-> & R1 & R2). lcbn.
        rewrite Ht in Hb, Hlen. rewrite nlen_cons in Hlen. change (is_bytes (32 :: t)) with (is_byte 32 && is_bytes t) in Hb. cbn [is_byte andb] in Hb.
        split; [congruence|]. split; [congruence|]. split; [exact Hpt|]. split; [exact Hb|].
        split; [exact Hf|]. split; [exact Hsh|]. split; lia. }
      destruct Hph as [HA|HB].
      * destruct (PA_inv _ _ HA) as [(t & Ht & HAt)|(c & r0 & Ht & Hn32 & Hcs & HBt)].
        -- apply (Hspace t Ht). left. exact HAt.
        -- eapply psafe_mono; [apply (code_body_ident _ s c r0 r' Ht Hcs HBt Hb)|].
           intros [s'|s']; [|intros []]. intros ((A1 & A2 & A3 & A4) & R1 & R2).
           split; [congruence|]. split; [congruence|]. split; [right; rewrite A1; exact HBt|].
           split.
           { rewrite A1. apply skip_ident_bytes. rewrite Ht in Hb. change (is_bytes (c :: r0)) with (is_byte c && is_bytes r0) in Hb.
             apply andb_prop in Hb. apply Hb. }
           split; [eapply same_fields_trans; eassumption|]. split; [congruence|].
           rewrite A4, A1. pose proof (skip_ident_len r0) as Hsl. rewrite Ht, nlen_cons in *. split; lia.
      * destruct (PB_inv _ _ HB) as [(t & Ht & HBt)|Ht].
        -- apply (Hspace t Ht). right. exact HBt.
        -- eapply psafe_mono; [apply (code_body_close _ s r' Ht Hulb)|].
           intros [s'|s']; [intros []|]. intros [A1 A2]. rewrite A1. auto 12.
    + cbn [c_l c_ret c_ulb]. split; [reflexivity|]. split; [reflexivity|]. split; [left; rewrite Hsrc; exact HPA|].
      split; [rewrite Hsrc; exact Hby|]. split; [apply same_fields_refl|]. split; [reflexivity|]. rewrite Hsrc. split; [reflexivity|lia].
  - intros s (Hret & Hs' & Hf & Hsh & Hlen & Hmono). rewrite Hret. cbn [psafeE].
    split; [exact Hs'|]. split; [exact Hf|]. split; [exact Hsh|]. rewrite Hs' in Hlen.
    lia.
Qed.

(* a show of an identifier: one token of type tokenLeftBraces with the context of the lexer, and the source after the closing braces *)
Lemma lex_show_sim l body r' :
  l_src l = 123 :: 123 :: body -> skip_show2 opt_html body = Some r' -> is_bytes (l_src l) = true ->
  psafeT (lex_show U l)
    (fun l' => l_src l' = r' /\ same_fields l l' /\ shows l' = shows l ++ [(l_base l, l_ctx l)]
               /\ l_base l' = l_base l + (nlen (l_src l) - nlen r')).
Proof.
  intros Hs HPA Hby. unfold lex_show.
  eapply psafe_bind; [apply emitc_sim|]. intros l1 (_ & Hs1 & Hb1 & Hf1 & Hsh1).
  rewrite Hs in Hs1. change (drop 2 (123 :: 123 :: body)) with body in Hs1.
  change (gen_tokenLeftBraces =? gen_tokenLeftBraces) with true in Hsh1.
  assert (Hbb : is_bytes body = true).
  { rewrite Hs in Hby. change (is_bytes (123 :: 123 :: body)) with (is_byte 123 && (is_byte 123 && is_bytes body)) in Hby. exact Hby. }
  eapply psafe_bind; [apply (lex_code_ident_show l1 body r' Hs1 HPA Hbb)|]. intros l2 (Hs2 & Hf2 & Hsh2 & Hb2).
  eapply psafe_mono; [apply emitc_sim|]. intros l3 (_ & Hs3 & Hb3 & Hf3 & Hsh3).
  rewrite Hs2 in Hs3. change (drop 2 (125 :: 125 :: r')) with r' in Hs3.
  change (gen_tokenRightBraces =? gen_tokenLeftBraces) with false in Hsh3. rewrite app_nil_r in Hsh3.
  split; [exact Hs3|]. split; [eapply same_fields_trans; [exact Hf1|eapply same_fields_trans; eassumption]|].
  split; [rewrite Hsh3, Hsh2, Hsh1; reflexivity|].
  rewrite Hb3, Hb2, Hb1, Hs, !nlen_cons.
  assert (Hle : nlen (125 :: 125 :: r') <= nlen body).
  { (* the closing braces are part of the body *)
    clear -HPA. unfold skip_show2 in HPA. cbn [o_ident opt_html] in HPA.
    assert (Hsp : forall s, nlen (skip_spaces s) <= nlen s).
    { induction s as [|c t IH]; [cbn; lia|]. cbn [skip_spaces]. destruct (c =? 32); [rewrite nlen_cons; lia|lia]. }
    pose proof (Hsp body) as H1. destruct (skip_spaces body) as [|c r]; [discriminate|]. destruct (is_ident_start c); [|discriminate].
    pose proof (skip_ident_len r) as H2. pose proof (Hsp (skip_ident r)) as H3.
    destruct (skip_spaces (skip_ident r)) as [|a [|b t]]; try discriminate.
    destruct ((a =? 125) && (b =? 125)); [|discriminate]. injection HPA as <-. rewrite !nlen_cons in *. lia. }
  rewrite !nlen_cons in Hle. lia.
Qed.

(* ---- the main loop against the reference tokenizer ---- *)
Local Notation o := opt_html.
Local Notation HTML := gen_ContextHTML.

(* states of the lexer that differ only in their position bookkeeping *)
Definition same_lex (l l' : lexer) : Prop :=
  l_src l' = l_src l /\ l_base l' = l_base l /\ l_out l' = l_out l /\ same_fields l l'.
Lemma same_lex_refl l : same_lex l l.
Proof. repeat split. Qed.
Lemma same_lex_trans a b c : same_lex a b -> same_lex b c -> same_lex a c.
Proof. intros (A1 & A2 & A3 & A4) (B1 & B2 & B3 & B4). split; [congruence|]. split; [congruence|]. split; [congruence|eapply same_fields_trans; eauto]. Qed.
Lemma same_core_lex l l' : same_core l l' -> same_fields l l' -> same_lex l l'.
Proof. intros (A & [B _] & C) F. repeat split; try assumption; apply F. Qed.
Lemma same_lex_shows l l' : same_lex l l' -> shows l' = shows l.
Proof. intros (_ & _ & H & _). unfold shows. rewrite H. reflexivity. Qed.

Definition absoff (st : mst) : N := l_base (m_l st) + m_p st.
Definition rest (st : mst) : bytes := drop (m_p st) (l_src (m_l st)).

(* the relation between the state of the lexer and the state of the reference *)
Definition Rel (st : mst) (rs : rstate) : Prop :=
  let l := m_l st in
  match rs with
  | RData => l_ctx l = HTML /\ l_tctx l = HTML
  | RInTag tag => l_ctx l = gen_ContextTag /\ l_tag l = tag /\ (raw_elem tag = false -> l_tctx l = HTML)
  | RValue tag attr q =>
    l_ctx l = gen_ContextQuotedAttr /\ m_quote st = q /\ (q = 34 \/ q = 39) /\ l_tag l = tag /\ l_att l = attr
    /\ (raw_elem tag = false -> l_tctx l = HTML) /\ raw_elem tag && bytes_eqb attr s_type = false
  | _ => False
  end.

(* the lexer and the reference stand at the same offset with the same shows behind them, and the reference ends with w *)
Definition Coupled (w : list (N * N)) (st : mst) : Prop :=
  m_p st <= len (m_l st) /\ is_bytes (l_src (m_l st)) = true /\
  exists rs rf acc, shows (m_l st) = rev acc /\ (rest st = [] \/ Rel st rs) /\
                    ref_run2 o rf rs (absoff st) (rest st) acc = Some w.

(* ---- the reference, one byte at a time ---- *)
Lemma ref_nil rf rs off acc w : ref_run2 o rf rs off [] acc = Some w -> w = rev acc.
Proof. destruct rf; [discriminate|]. cbn [ref_run2]. destruct rs; intros H; try discriminate; injection H as <-; reflexivity. Qed.

Definition not_raw (rs : rstate) : Prop := match rs with RRaw _ _ => False | ROutside => False | _ => True end.

(* one step of the reference outside script and style elements *)
Lemma ref_run2_eq f rs off c r acc :
  not_raw rs ->
  ref_run2 o (S f) rs off (c :: r) acc =
  if (c =? 123) && hd_is r 123 then
    match ctx_of rs, skip_show2 o (skipn 1 r) with
    | Some cx, Some r' => ref_run2 o f rs (off + (nlen (c :: r) - nlen r')) r' ((off, cx) :: acc)
    | _, _ => None
    end
  else if (c =? 123) && (hd_is r 37 || hd_is r 35) then None
  else match fst (rstep2 o rs c r) with
       | ROutside => None
       | rs' => ref_run2 o f rs' (off + 1 + N.of_nat (snd (rstep2 o rs c r))) (skipn (snd (rstep2 o rs c r)) r) acc
       end.
Proof.
  intros Hn. destruct rs; try contradiction; cbn [ref_run2];
    (destruct ((c =? 123) && hd_is r 123); [reflexivity|]);
    (destruct ((c =? 123) && (hd_is r 37 || hd_is r 35)); [reflexivity|]);
    match goal with |- context [rstep2 o ?st c r] => destruct (rstep2 o st c r) as [rs' k] end; cbn [fst snd]; destruct rs'; reflexivity.
Qed.

(* a byte that starts no show and leaves the reference inside the fragment *)
Lemma ref_byte rf rs off c r acc w :
  not_raw rs ->
  ref_run2 o rf rs off (c :: r) acc = Some w ->
  ((c =? 123) && hd_is r 123 = false) ->
  exists rf', rf = S rf' /\ (c =? 123) && (hd_is r 37 || hd_is r 35) = false /\
    fst (rstep2 o rs c r) <> ROutside /\
    ref_run2 o rf' (fst (rstep2 o rs c r)) (off + 1 + N.of_nat (snd (rstep2 o rs c r))) (skipn (snd (rstep2 o rs c r)) r) acc = Some w.
Proof.
  intros Hn H Hns. destruct rf as [|rf']; [discriminate|]. rewrite (ref_run2_eq _ _ _ _ _ _ Hn), Hns in H.
  exists rf'. split; [reflexivity|].
  destruct ((c =? 123) && (hd_is r 37 || hd_is r 35)); [discriminate|]. split; [reflexivity|].
  destruct (fst (rstep2 o rs c r)); try discriminate; (split; [discriminate|exact H]).
Qed.

(* a show *)
Lemma ref_show rf rs off c r acc w :
  not_raw rs ->
  ref_run2 o rf rs off (c :: r) acc = Some w ->
  ((c =? 123) && hd_is r 123 = true) ->
  exists rf' cx r', rf = S rf' /\ ctx_of rs = Some cx /\ skip_show2 o (skipn 1 r) = Some r' /\
    ref_run2 o rf' rs (off + (nlen (c :: r) - nlen r')) r' ((off, cx) :: acc) = Some w.
Proof.
  intros Hn H Hs. destruct rf as [|rf']; [discriminate|]. rewrite (ref_run2_eq _ _ _ _ _ _ Hn), Hs in H.
  destruct (ctx_of rs) as [cx|]; [|discriminate]. destruct (skip_show2 o (skipn 1 r)) as [r'|]; [|discriminate].
  exists rf', cx, r'. auto.
Qed.

(* ---- pieces of the lexer ---- *)
Lemma flush_text_sim st :
  psafeT (flush_text st) (fun l1 => l_src l1 = rest st /\ l_base l1 = absoff st /\ same_fields (m_l st) l1 /\ shows l1 = shows (m_l st)).
Proof.
  unfold flush_text, rest, absoff. destruct (N.ltb_spec 0 (m_p st)) as [Hlt|Hge].
  - unfold emit_text. destruct (emit_at _ _ _ _ gen_tokenText (m_p st) (m_l st)) as [l1| | |] eqn:E; cbn; try exact I.
    destruct (emit_at_sim _ _ _ _ _ _ _ _ E) as (_ & A & B & C & D).
    change (gen_tokenText =? gen_tokenLeftBraces) with false in D. rewrite app_nil_r in D. auto.
  - cbn. assert (m_p st = 0) by lia. rewrite H, N.add_0_r. split; [reflexivity|]. split; [reflexivity|]. split; [apply same_fields_refl|reflexivity].
Qed.

Lemma emit0_sim typ l :
  typ <> gen_tokenLeftBraces ->
  psafeT (emit typ 0 l) (fun l1 => l_src l1 = l_src l /\ l_base l1 = l_base l /\ same_fields l l1 /\ shows l1 = shows l).
Proof.
  intros Ht. unfold emit. destruct (emit_at _ _ _ _ typ 0 l) as [l1| | |] eqn:E; cbn; try exact I.
  destruct (emit_at_sim _ _ _ _ _ _ _ _ E) as (_ & A & B & C & D).
  apply N.eqb_neq in Ht. rewrite Ht, app_nil_r in D. rewrite N.add_0_r in B. auto.
Qed.

(* the end of an iteration outside Markdown *)
Lemma bottom_sim st c :
  l_ctx (m_l st) <> gen_ContextTabCodeBlock -> l_ctx (m_l st) <> gen_ContextSpacesCodeBlock -> l_ctx (m_l st) <> gen_ContextMarkdown ->
  psafeT (bottom st c)
    (fun r => match r with
              | Again s' => same_lex (m_l st) (m_l s') /\ m_quote s' = m_quote st /\
                            (m_p s' = m_p st + 1 \/ (c = 10 /\ get (l_src (m_l st)) (m_p st + 1) = Some 13 /\ m_p s' = m_p st + 2))
              | Stop _ => False end).
Proof.
  intros H1 H2 H3. unfold bottom. cbv zeta.
  destruct (N.eqb_spec c 10) as [->|N10].
  - eapply psafe_bind with (Q' := fun cr : bool => cr = true -> get (l_src (m_l st)) (m_p st + 1) = Some 13).
    { change (len (newline (m_l st))) with (len (m_l st)). destruct (m_p st + 1 <? len (m_l st)); cbn [andm]; [|cbn; discriminate].
      unfold idx_is, idx. change (l_src (newline (m_l st))) with (l_src (m_l st)).
      destruct (get (l_src (m_l st)) (m_p st + 1)) as [x|]; cbn; [|exact I]. intros E. apply N.eqb_eq in E. subst x. reflexivity. }
    intros cr Hcr.
    assert (Hctx : forall v, l_ctx (if cr then mark_cdev (newline (m_l st)) else newline (m_l st)) =? v = (l_ctx (m_l st) =? v)) by (intros v; destruct cr; reflexivity).
    rewrite !Hctx. apply N.eqb_neq in H1, H2, H3. rewrite H1, H2, H3. cbn [orb psafeE].
    split; [destruct cr; repeat split|]. split; [reflexivity|]. cbn [m_p mset_lp]. destruct cr; [right; split; [reflexivity|split; [apply Hcr; reflexivity|lia]]|left; reflexivity].
  - cbn [psafeE]. split; [destruct (isStartChar c); repeat split|]. split; [reflexivity|]. left. reflexivity.
Qed.

(* the contexts of the fragment are not those of Markdown *)
Lemma ctx_not_md cx : cx = HTML \/ cx = gen_ContextTag \/ cx = gen_ContextQuotedAttr ->
  cx <> gen_ContextTabCodeBlock /\ cx <> gen_ContextSpacesCodeBlock /\ cx <> gen_ContextMarkdown.
Proof. intros [-> | [-> | ->]]; repeat split; discriminate. Qed.

(* ---- suffixes ---- *)
Lemma is_bytes_drop k s : is_bytes s = true -> is_bytes (drop k s) = true.
Proof.
  unfold drop. generalize (N.to_nat k). intros n. revert s. induction n as [|n IH]; intros s H; [exact H|].
  destruct s as [|c t]; [reflexivity|]. cbn [skipn]. apply IH. change (is_bytes (c :: t)) with (is_byte c && is_bytes t) in H.
  apply andb_prop in H. apply H.
Qed.
Lemma skip_spaces_suffix s : exists k, skip_spaces s = drop k s.
Proof.
  induction s as [|c t [k IH]]; [exists 0; reflexivity|]. cbn [skip_spaces]. destruct (c =? 32); [|exists 0; reflexivity].
  exists (1 + k). rewrite <- drop_drop. exact IH.
Qed.
Lemma skip_ident_suffix s : exists k, skip_ident s = drop k s.
Proof.
  induction s as [|c t [k IH]]; [exists 0; reflexivity|]. cbn [skip_ident]. destruct (is_ident_char c); [|exists 0; reflexivity].
  exists (1 + k). rewrite <- drop_drop. exact IH.
Qed.
Lemma skip_show2_bytes s r' : skip_show2 o s = Some r' -> is_bytes s = true -> is_bytes r' = true.
Proof.
  unfold skip_show2. cbn [o_ident opt_html]. intros H Hb.
  destruct (skip_spaces_suffix s) as [k1 E1]. rewrite E1 in H. pose proof (is_bytes_drop k1 _ Hb) as Hb1.
  destruct (drop k1 s) as [|c r]; [discriminate|]. destruct (is_ident_start c); [|discriminate].
  change (is_bytes (c :: r)) with (is_byte c && is_bytes r) in Hb1. apply andb_prop in Hb1. destruct Hb1 as [_ Hb1].
  destruct (skip_ident_suffix r) as [k2 E2]. rewrite E2 in H. pose proof (is_bytes_drop k2 _ Hb1) as Hb2.
  destruct (skip_spaces_suffix (drop k2 r)) as [k3 E3]. rewrite E3 in H. pose proof (is_bytes_drop k3 _ Hb2) as Hb3.
  destruct (drop k3 (drop k2 r)) as [|a [|b t]]; try discriminate. destruct ((a =? 125) && (b =? 125)); [|discriminate].
  injection H as <-. change (is_bytes (a :: b :: t)) with (is_byte a && (is_byte b && is_bytes t)) in Hb3.
  apply andb_prop in Hb3. destruct Hb3 as [_ Hb3]. apply andb_prop in Hb3. apply Hb3.
Qed.

Lemma rest_cons st : m_p st < len (m_l st) -> exists c r, rest st = c :: r /\ get (l_src (m_l st)) (m_p st) = Some c /\ r = drop (m_p st + 1) (l_src (m_l st)).
Proof.
  intros H. destruct (drop_cons_get _ _ H) as (c & r & Hd & Hg). exists c, r. split; [exact Hd|]. split; [exact Hg|].
  rewrite <- drop_drop. unfold rest in *. rewrite Hd. reflexivity.
Qed.
Lemma hd_is_get s p x : hd_is (drop p s) x = match get s p with Some d => d =? x | None => false end.
Proof. rewrite <- get_drop0. destruct (drop p s); reflexivity. Qed.

(* ---- a show ---- *)
Lemma show_step w st rs rf acc body :
  m_p st <= len (m_l st) -> is_bytes (l_src (m_l st)) = true -> shows (m_l st) = rev acc -> Rel st rs ->
  rest st = 123 :: 123 :: body ->
  ref_run2 o rf rs (absoff st) (rest st) acc = Some w ->
  psafeT (let* l1 := flush_text st in let* l2 := lex_show U l1 in Ok (Again (resync l2 st)))
    (fun r => match r with Again s' => Coupled w s' | Stop _ => False end).
Proof.
  intros Hp Hby Hsh HR Hrest Href.
  assert (Hnr : not_raw rs) by (destruct rs; try contradiction; exact I).
  rewrite Hrest in Href. destruct (ref_show _ _ _ _ _ _ _ Hnr Href eq_refl) as (rf' & cx & r' & -> & Hcx & Hsk & Hr').
  change (skipn 1 (123 :: body)) with body in Hsk.
  eapply psafe_bind; [apply flush_text_sim|]. intros l1 (Hs1 & Hb1 & Hf1 & Hsh1).
  assert (Hby1 : is_bytes (l_src l1) = true) by (rewrite Hs1; apply is_bytes_drop; exact Hby).
  rewrite Hrest in Hs1.
  eapply psafe_bind; [apply (lex_show_sim l1 body r' Hs1 Hsk Hby1)|]. intros l2 (Hs2 & Hf2 & Hsh2 & Hb2).
  cbn [psafeE]. unfold Coupled. cbn [m_l m_p resync]. split; [lia|].
  split; [rewrite Hs2; apply (skip_show2_bytes body); [exact Hsk|]; rewrite Hs1 in Hby1; change (is_bytes (123 :: 123 :: body)) with (is_byte 123 && (is_byte 123 && is_bytes body)) in Hby1; exact Hby1|].
  exists rs, rf', ((absoff st, cx) :: acc).
  assert (Hctx1 : l_ctx l1 = cx).
  { destruct Hf1 as (A & _). rewrite A. destruct rs; cbn in HR, Hcx; try contradiction; try discriminate.
    - destruct HR as [H _]. rewrite H. injection Hcx as <-. reflexivity.
    - destruct HR as [H _]. rewrite H. injection Hcx as <-. reflexivity. }
  split; [rewrite Hsh2, Hsh1, Hsh, Hb1, Hctx1; reflexivity|].
  split.
  - right. destruct Hf1 as (A1 & A2 & A3 & A4 & _), Hf2 as (B1 & B2 & B3 & B4 & _).
    destruct rs; cbn in HR |- *; try contradiction; cbn [m_l m_quote resync]; rewrite ?B1, ?B2, ?B3, ?B4, ?A1, ?A2, ?A3, ?A4; exact HR.
  - unfold absoff, rest. cbn [m_l m_p resync]. rewrite N.add_0_r. change (drop 0 (l_src l2)) with (l_src l2). rewrite Hs2, Hb2, Hb1, Hs1. exact Hr'.
Qed.

(* ---- bytes ---- *)
Lemma isAlpha_is_letter c : c < 256 -> isAlpha c = is_letter c.
Proof.
  intros H. apply eqb_prop. apply (forall_bytes (fun c => Bool.eqb (isAlpha c) (is_letter c))); [vm_compute; reflexivity|exact H].
Qed.
Lemma isASCIISpace_is_ws c : c < 256 -> isASCIISpace c = is_ws c.
Proof.
  intros H. apply eqb_prop. apply (forall_bytes (fun c => Bool.eqb (isASCIISpace c) (is_ws c))); [vm_compute; reflexivity|exact H].
Qed.

Lemma Rel_lex st s' rs : same_lex (m_l st) (m_l s') -> m_quote s' = m_quote st -> Rel st rs -> Rel s' rs.
Proof.
  intros (_ & _ & _ & (A1 & A2 & A3 & A4 & _)) Hq. destruct rs; cbn; try contradiction; rewrite ?A1, ?A2, ?A3, ?A4, ?Hq; auto.
Qed.

(* a carriage return changes nothing for the reference in the states of the relation *)
Lemma cr_step st rs rf off r acc w :
  Rel st rs -> ref_run2 o rf rs off (13 :: r) acc = Some w -> exists rf', ref_run2 o rf' rs (off + 1) r acc = Some w.
Proof.
  intros HR H. assert (Hnr : not_raw rs) by (destruct rs; try contradiction; exact I).
  destruct (ref_byte _ _ _ _ _ _ _ Hnr H eq_refl) as (rf' & _ & _ & _ & H').
  exists rf'. destruct rs; try contradiction.
  - cbn in H'. rewrite ?N.add_0_r in H'. exact H'.
  - cbn in H'. rewrite ?N.add_0_r in H'. exact H'.
  - destruct HR as (_ & _ & Hq & _). destruct Hq as [-> | ->]; cbn in H'; rewrite ?N.add_0_r in H'; exact H'.
Qed.

(* after the context specific part of an iteration that went on to `bottom` *)
Lemma bottom_couple w st st2 c r rs' rf' acc :
  rest st = c :: r -> m_p st < len (m_l st) -> is_bytes (l_src (m_l st)) = true ->
  (l_src (m_l st2) = l_src (m_l st) /\ l_base (m_l st2) = l_base (m_l st) /\ l_out (m_l st2) = l_out (m_l st)) -> m_p st2 = m_p st ->
  l_ctx (m_l st2) = HTML \/ l_ctx (m_l st2) = gen_ContextTag \/ l_ctx (m_l st2) = gen_ContextQuotedAttr ->
  shows (m_l st) = rev acc -> Rel st2 rs' ->
  ref_run2 o rf' rs' (absoff st + 1) r acc = Some w ->
  psafeT (bottom st2 c) (fun x => match x with Again s' => Coupled w s' | Stop _ => False end).
Proof.
  intros Hrest Hp Hby Hl2 Hp2 Hctx Hsh HR Href.
  destruct (ctx_not_md _ Hctx) as (N1 & N2 & N3).
  eapply psafe_mono; [apply (bottom_sim st2 c N1 N2 N3)|].
  intros [s'|s']; [|intros []]. intros (Hl' & Hq' & Hp').
  assert (Es : l_src (m_l s') = l_src (m_l st)) by (destruct Hl2 as (A & _), Hl' as (B & _); congruence).
  assert (Eb : l_base (m_l s') = l_base (m_l st)) by (destruct Hl2 as (_ & A & _), Hl' as (_ & B & _); congruence).
  assert (Eo : l_out (m_l s') = l_out (m_l st)) by (destruct Hl2 as (_ & _ & A), Hl' as (_ & _ & B & _); congruence).
  assert (HR' : Rel s' rs') by (eapply Rel_lex; eassumption).
  assert (Hr : r = drop (m_p st + 1) (l_src (m_l st))).
  { unfold rest in Hrest. rewrite <- drop_drop, Hrest. reflexivity. }
  unfold Coupled. rewrite Es. split; [|split; [exact Hby|]].
  { destruct Hp' as [-> | (_ & Hg & ->)]; rewrite Hp2; [unfold len in *; rewrite Es; lia|].
    apply get_some in Hg. unfold len. rewrite Es. rewrite (proj1 Hl2), Hp2 in Hg. lia. }
  unfold absoff, rest. rewrite Es, Eb. unfold shows. rewrite Eo. fold (shows (m_l st)).
  destruct Hp' as [-> | (-> & Hg & ->)]; rewrite Hp2.
  - exists rs', rf', acc. split; [exact Hsh|]. split; [right; exact HR'|]. rewrite N.add_assoc, <- Hr. exact Href.
  - rewrite (proj1 Hl2), Hp2 in Hg.
    assert (Hr13 : r = 13 :: drop (m_p st + 2) (l_src (m_l st))).
    { rewrite Hr. assert (Hlt : m_p st + 1 < nlen (l_src (m_l st))) by (apply get_some in Hg; exact Hg).
      destruct (drop_cons_get _ _ Hlt) as (b & t & Hd & Hg'). rewrite Hg in Hg'. injection Hg' as <-. rewrite Hd. f_equal.
      replace (m_p st + 2) with (m_p st + 1 + 1) by lia. rewrite <- drop_drop, Hd. reflexivity. }
    rewrite Hr13 in Href. destruct (cr_step _ _ _ _ _ _ _ HR' Href) as [rf'' H''].
    exists rs', rf'', acc. split; [exact Hsh|]. split; [right; exact HR'|].
    replace (l_base (m_l st) + (m_p st + 2)) with (absoff st + 1 + 1) by (unfold absoff; lia). exact H''.
Qed.

(* ---- names ---- *)
Lemma to_lower_from_ascii s : forall f, (length s <= f)%nat -> forallb (fun c => c <? 128) s = true -> to_lower_from U f s = map lower s.
Proof.
  induction s as [|c t IH]; intros f Hf H; [destruct f; reflexivity|].
  destruct f as [|f]; [cbn in Hf; lia|]. cbn [forallb] in H. apply andb_prop in H. destruct H as [Hc Ht].
  cbn [to_lower_from map]. rewrite Hc. unfold lower at 1. f_equal. apply IH; [cbn in Hf; lia|exact Ht].
Qed.
Lemma to_lower_ascii s : forallb (fun c => c <? 128) s = true -> to_lower U s = map lower s.
Proof. intros H. unfold to_lower. apply to_lower_from_ascii; [lia|exact H]. Qed.

Definition stop_byte (c : N) : bool := (c =? 62) || (c =? 47) || isASCIISpace c || (c =? 123).

(* in front of a byte that ends a tag name, the reference in the tag name behaves as in the tag *)
Lemma tagname_to_intag rf nm off s acc w :
  (s = [] \/ exists c t, s = c :: t /\ c < 256 /\ stop_byte c = true) ->
  ref_run2 o rf (RTagName nm) off s acc = Some w -> ref_run2 o rf (RInTag nm) off s acc = Some w.
Proof.
  intros [->|(c & t & -> & Hc & Hst)] H.
  - destruct rf; [discriminate|]. exact H.
  - destruct rf as [|rf']; [discriminate|]. rewrite ref_run2_eq in H |- * by exact I. cbn [ctx_of] in *.
    destruct ((c =? 123) && hd_is t 123); [discriminate|].
    destruct ((c =? 123) && (hd_is t 37 || hd_is t 35)); [discriminate|].
    unfold stop_byte in Hst. rewrite (isASCIISpace_is_ws c Hc) in Hst. cbn [rstep2] in *.
    destruct (is_ws c) eqn:Ew; [exact H|]. destruct (N.eqb_spec c 62) as [->|N62]; [exact H|].
    cbn [orb] in Hst. rewrite orb_false_r in Hst.
    assert (Hc2 : c = 47 \/ c = 123) by (apply orb_prop in Hst; destruct Hst as [E|E]; apply N.eqb_eq in E; auto).
    destruct Hc2 as [-> | ->]; cbn in H; discriminate.
Qed.

Definition ascii (s : bytes) : bool := forallb (fun c => c <? 128) s.

Lemma take_snoc_range s p0 q c : p0 <= q -> get s q = Some c -> take (q + 1 - p0) (drop p0 s) = take (q - p0) (drop p0 s) ++ [c].
Proof.
  intros H Hg. replace (q + 1 - p0) with (q - p0 + 1) by lia. apply take_snoc. rewrite get_drop. replace (p0 + (q - p0)) with q by lia. exact Hg.
Qed.

(* the loop of scanTag against the reference in a tag name *)
Definition tagJ (L : lexer) (p0 : N) (acc w : list (N * N)) (st : lexer * N) : Prop :=
  same_lex L (fst st) /\ p0 < snd st /\ snd st <= len L /\
  exists rf nm, ref_run2 o rf (RTagName nm) (l_base L + snd st) (drop (snd st) (l_src L)) acc = Some w /\
                nm = map lower (take (snd st - p0) (drop p0 (l_src L))) /\ ascii (take (snd st - p0) (drop p0 (l_src L))) = true.

Lemma tag_loop_sim L p0 acc w fuel st0 :
  is_bytes (l_src L) = true -> tagJ L p0 acc w st0 ->
  psafeT (loop fuel tag_body st0)
    (fun st => tagJ L p0 acc w st /\ (snd st = len L \/ exists c, get (l_src L) (snd st) = Some c /\ stop_byte c = true)).
Proof.
  intros Hby H0. apply (psafe_loop tag_body (tagJ L p0 acc w)); [|exact H0].
  intros [l1 q] HJ. pose proof HJ as (Hl & Hq0 & Hq1 & rf & nm & Href & Hnm & Hasc). cbn [fst snd] in *.
  unfold tag_body. assert (Hsrc : l_src l1 = l_src L) by apply Hl.
  assert (Hlen : len l1 = len L) by (unfold len; rewrite Hsrc; reflexivity). rewrite Hlen.
  destruct (N.ltb_spec q (len L)) as [Hlt|Hge]; cbn [negb]; [|cbn; split; [exact HJ|left; lia]].
  pget c Hc. rewrite Hsrc in Hc. pose proof (is_bytes_get _ _ _ Hby Hc) as Hc256.
  fold (stop_byte c). destruct (stop_byte c) eqn:Est; [cbn; split; [exact HJ|right; eauto]|].
  (* the reference accepts the byte: a letter, a digit or a hyphen *)
  destruct (drop_cons_get _ _ Hlt) as (c' & r & Hdr & Hg). rewrite Hc in Hg. injection Hg as <-. rewrite Hdr in Href.
  unfold stop_byte in Est. apply orb_false_elim in Est. destruct Est as [Est E123]. apply orb_false_elim in Est. destruct Est as [Est Esp].
  apply orb_false_elim in Est. destruct Est as [E62 E47].
  assert (Hns : (c =? 123) && hd_is r 123 = false) by (rewrite E123; reflexivity).
  destruct (ref_byte rf (RTagName nm) _ _ _ _ _ I Href Hns) as (rf' & -> & _ & Hno & Hcont).
  cbn [rstep2] in Hno, Hcont. rewrite <- (isASCIISpace_is_ws c Hc256), Esp, E62 in Hno, Hcont.
  destruct (is_letter c || (48 <=? c) && (c <=? 57) || (c =? 45)) eqn:Eok; [|cbn in Hno; contradiction].
  assert (Hc128 : c < 128).
  { apply orb_prop in Eok. destruct Eok as [Eok|Eok]; [apply orb_prop in Eok; destruct Eok as [Eok|Eok]|].
    - unfold is_letter, lower in Eok. destruct ((65 <=? c) && (c <=? 90)) eqn:E; b2p; lia.
    - b2p. lia.
    - apply N.eqb_eq in Eok. lia. }
  apply N.ltb_lt in Hc128. rewrite Hc128. cbn [psafeE]. cbn [fst snd] in Hcont. rewrite N.add_0_r in Hcont.
  unfold tagJ. cbn [fst snd]. split; [eapply same_lex_trans; [exact Hl|repeat split]|]. split; [lia|]. split; [apply N.ltb_lt in Hc128; lia|].
  exists rf', (nm ++ [lower c]). split.
  - rewrite N.add_assoc, <- drop_drop, Hdr. exact Hcont.
  - assert (Hpq : p0 <= q) by lia. rewrite (take_snoc_range _ _ _ _ Hpq Hc). split; [rewrite map_app, Hnm; reflexivity|].
    unfold ascii in *. rewrite forallb_app, Hasc. cbn. rewrite Hc128. reflexivity.
Qed.

Definition same_lex_src (l l' : lexer) : Prop := l_src l' = l_src l /\ l_base l' = l_base l.

(* the end of an iteration that does not go through `bottom` *)
Lemma couple_again w st l' q rs' rf' acc :
  is_bytes (l_src (m_l st)) = true -> same_lex_src (m_l st) l' -> q <= len (m_l st) ->
  shows l' = rev acc -> (drop q (l_src (m_l st)) = [] \/ Rel (mset_lp l' q st) rs') ->
  ref_run2 o rf' rs' (l_base (m_l st) + q) (drop q (l_src (m_l st))) acc = Some w ->
  Coupled w (mset_lp l' q st).
Proof.
  intros Hby (Es & Eb) Hq Hsh HR Href. unfold Coupled, absoff, rest. cbn [m_l m_p mset_lp]. unfold len. rewrite Es, Eb.
  split; [exact Hq|]. split; [exact Hby|]. exists rs', rf', acc. auto.
Qed.

(* text: the less-than sign and every other byte *)
Lemma data_step w st c r rf acc :
  Rel st RData -> rest st = c :: r -> m_p st < len (m_l st) -> is_bytes (l_src (m_l st)) = true -> shows (m_l st) = rev acc ->
  (c =? 123) && hd_is r 123 = false ->
  ref_run2 o rf RData (absoff st) (c :: r) acc = Some w ->
  psafeT (let* (st1, cont) := html_lt U st c in if cont then Ok (Again st1) else bottom st1 c)
    (fun x => match x with Again s' => Coupled w s' | Stop _ => False end).
Proof.
  intros HR Hrest Hp Hby Hsh Hns Href. destruct HR as [Hctx Htctx].
  destruct (ref_byte rf RData _ _ _ _ _ I Href Hns) as (rf' & -> & _ & Hno & Hcont).
  destruct (rest_cons st Hp) as (c' & r' & Hrest' & Hgc & Hr). rewrite Hrest in Hrest'. injection Hrest' as <- <-.
  unfold html_lt. destruct (N.eqb_spec c 60) as [->|N60]; cbn [negb].
  2:{ (* not a tag *)
      rewrite bind_ok. cbv iota beta. apply N.eqb_neq in N60. cbn [rstep2 rstep] in Hno, Hcont. rewrite N60 in Hno, Hcont.
      cbn [fst snd] in Hcont. rewrite N.add_0_r in Hcont.
      eapply (bottom_couple w st st c r RData rf' acc); auto; try (split; [reflexivity|split; reflexivity]); split; assumption. }
  cbv zeta. rewrite !bind_assoc.
  (* CDATA sections are outside the fragment *)
  eapply psafe_bind with (Q' := fun iscd : bool => iscd = true -> get (l_src (m_l st)) (m_p st + 1) = Some 33).
  { destruct ((l_ctx (m_l st) =? HTML) && (m_p st + 8 <? len (m_l st))); cbn [andm]; [|cbn; discriminate].
    unfold idx_is, idx. destruct (get (l_src (m_l st)) (m_p st + 1)) as [x|]; cbn; [|exact I]. intros E. apply N.eqb_eq in E. subst x. reflexivity. }
  intros iscd Hcd.
  assert (Hd : forall d, get (l_src (m_l st)) (m_p st + 1) = Some d -> exists t, r = d :: t).
  { intros d Hg. rewrite Hr. assert (Hlt : m_p st + 1 < nlen (l_src (m_l st))) by (apply get_some in Hg; exact Hg).
    destruct (drop_cons_get _ _ Hlt) as (b & t & Hdb & Hgb). rewrite Hg in Hgb. injection Hgb as <-. eauto. }
  destruct iscd.
  { exfalso. destruct (Hd 33 (Hcd eq_refl)) as [t ->]. cbn in Hno. contradiction. }
  cbn [andb]. unfold scan_tag. change (len (addcol 1 (m_l st))) with (len (m_l st)).
  change (l_src (addcol 1 (m_l st))) with (l_src (m_l st)).
  rewrite !bind_assoc.
  destruct (N.eqb_spec (m_p st + 1) (len (m_l st))) as [Eend|Nend].
  - (* the source ends with the less-than sign *)
    rewrite !bind_ok. cbn [negb]. rewrite !bind_ok. cbn [nonempty psafeE].
    assert (Hre : r = []) by (rewrite Hr; unfold drop, len in *; rewrite Eend, nlen_eq, Nat2N.id; apply skipn_all).
    apply (couple_again w st _ _ RData rf' acc Hby); [split; reflexivity|lia|exact Hsh|left; rewrite <- Hr; exact Hre|].
    rewrite Hre in Hcont. cbn in Hcont. rewrite N.add_0_r in Hcont. unfold absoff in Hcont. rewrite N.add_assoc, <- Hr, Hre. exact Hcont.
  - unfold idx at 1. change (l_src (addcol 1 (m_l st))) with (l_src (m_l st)).
    assert (Hlt1 : m_p st + 1 < len (m_l st)) by lia.
    destruct (get_lt _ _ Hlt1) as [d Hgd]. rewrite Hgd. cbn [bind].
    destruct (Hd d Hgd) as [t Hrt]. pose proof (is_bytes_get _ _ _ Hby Hgd) as Hd256.
    rewrite (isAlpha_is_letter d Hd256). rewrite Hrt in Hno, Hcont. cbn [rstep2 rstep] in Hno, Hcont.
    destruct (is_letter d) eqn:El; cbn [negb].
    + (* a tag name *)
      cbn [fst snd] in Hcont. rewrite N.add_0_r in Hcont.
      (* the reference reads the first letter of the name *)
      assert (Hd128 : d < 128) by (unfold is_letter, lower in El; destruct ((65 <=? d) && (d <=? 90)) eqn:E; b2p; lia).
      assert (Hns2 : (d =? 123) && hd_is t 123 = false).
      { destruct (N.eqb_spec d 123) as [->|_]; [discriminate El|reflexivity]. }
      destruct (ref_byte rf' (RTagName []) _ _ _ _ _ I Hcont Hns2) as (rf2 & -> & _ & Hno2 & Hcont2).
      cbn [rstep2] in Hno2, Hcont2.
      assert (Hws : is_ws d = false).
      { unfold is_ws. unfold is_letter, lower in El. destruct ((65 <=? d) && (d <=? 90)) eqn:E; b2p;
          repeat (apply orb_false_intro); apply N.eqb_neq; lia. }
      assert (H62 : (d =? 62) = false) by (apply N.eqb_neq; intros ->; discriminate El).
      rewrite Hws, H62, El in Hno2, Hcont2. cbn [orb fst snd app] in Hcont2. rewrite N.add_0_r in Hcont2.
      set (L := addcol 1 (m_l st)).
      assert (HJ0 : tagJ L (m_p st + 1) acc w (addcol 1 L, m_p st + 1 + 1)).
      { unfold tagJ. cbn [fst snd]. split; [repeat split|]. split; [lia|]. split; [change (len L) with (len (m_l st)); lia|].
        exists rf2, [lower d]. change (l_src L) with (l_src (m_l st)). change (l_base L) with (l_base (m_l st)).
        assert (Htk : take (m_p st + 1 + 1 - (m_p st + 1)) (drop (m_p st + 1) (l_src (m_l st))) = [d]).
        { replace (m_p st + 1 + 1 - (m_p st + 1)) with 1 by lia. apply take_1. rewrite get_drop0. exact Hgd. }
        rewrite Htk. split; [|split; [reflexivity|cbn; apply N.ltb_lt in Hd128; rewrite Hd128; reflexivity]].
        assert (Hdt : drop (m_p st + 1 + 1) (l_src (m_l st)) = t).
        { rewrite <- drop_drop, <- Hr, Hrt. reflexivity. }
        rewrite Hdt. unfold absoff in Hcont2. replace (l_base (m_l st) + (m_p st + 1 + 1)) with (l_base (m_l st) + m_p st + 1 + 1) by lia. exact Hcont2. }
      rewrite !bind_assoc. eapply psafe_bind; [apply (tag_loop_sim L (m_p st + 1) acc w _ _ Hby HJ0)|].
      intros [l1 q] [(Hl1 & Hq0 & Hq1 & rfq & nm & Hrefq & Hnm & Hasc) Hstop]. cbn [fst snd] in *.
      change (len L) with (len (m_l st)) in *. change (l_src L) with (l_src (m_l st)) in *. change (l_base L) with (l_base (m_l st)) in *.
      destruct (N.ltb_spec (len (m_l st)) q) as [Hbad|_]; [lia|]. rewrite !bind_ok. cbv iota beta.
      rewrite (to_lower_ascii _ Hasc), <- Hnm.
      assert (Hne : nonempty nm = true).
      { rewrite Hnm. replace (q - (m_p st + 1)) with (1 + (q - (m_p st + 1 + 1))) by lia. rewrite take_add, (take_1 _ d) by (rewrite get_drop0; exact Hgd). reflexivity. }
      rewrite Hne. cbn [psafeE].
      destruct Hl1 as (Es1 & Eb1 & Eo1 & (F1 & F2 & F3 & F4 & F5)).
      match goal with |- Coupled w (mset_lp ?l3 q st) => set (L3 := l3) end.
      assert (HL3 : l_src L3 = l_src (m_l st) /\ l_base L3 = l_base (m_l st) /\ l_out L3 = l_out (m_l st) /\ l_ctx L3 = gen_ContextTag /\ l_tag L3 = nm
                    /\ (raw_elem nm = false -> l_tctx L3 = HTML)).
      { unfold L3, raw_elem. destruct (bytes_eqb nm s_script); [|destruct (bytes_eqb nm s_style)]; cbn;
          repeat split; try assumption; try discriminate. intros _. rewrite F2. exact Htctx. }
      destruct HL3 as (G1 & G2 & G3 & G4 & G5 & G6).
      apply (couple_again w st L3 q (RInTag nm) rfq acc Hby); [split; assumption|exact Hq1|unfold shows; rewrite G3; exact Hsh| |].
      * right. cbn. auto.
      * apply tagname_to_intag; [|exact Hrefq].
        destruct Hstop as [Hend|(cq & Hgq & Hsq)].
        -- left. unfold drop, len in *. rewrite Hend, nlen_eq, Nat2N.id. apply skipn_all.
        -- right. assert (Hltq : q < nlen (l_src (m_l st))) by (apply get_some in Hgq; exact Hgq).
           destruct (drop_cons_get _ _ Hltq) as (b & tq & Hdq & Hgb). rewrite Hgq in Hgb. injection Hgb as <-.
           exists cq, tq. split; [exact Hdq|]. split; [eapply is_bytes_get; eassumption|exact Hsq].
    + (* no tag *)
      rewrite !bind_ok. cbn [nonempty psafeE].
      assert (Hrs : fst (if (d =? 47) || (d =? 33) || (d =? 63) then (ROutside, 0%nat) else (RData, 0%nat)) = RData).
      { destruct ((d =? 47) || (d =? 33) || (d =? 63)); [cbn in Hno; contradiction|reflexivity]. }
      destruct ((d =? 47) || (d =? 33) || (d =? 63)); [cbn in Hno; contradiction|]. cbn [fst snd] in Hcont. rewrite N.add_0_r in Hcont.
      apply (couple_again w st _ _ RData rf' acc Hby); [split; reflexivity|lia|exact Hsh|right; cbn; auto|].
      unfold absoff in Hcont. rewrite N.add_assoc, <- Hr, Hrt. exact Hcont.
Qed.

(* inside a quoted attribute value *)
Lemma value_step w st c r rf acc tag attr q :
  Rel st (RValue tag attr q) -> rest st = c :: r -> m_p st < len (m_l st) -> is_bytes (l_src (m_l st)) = true -> shows (m_l st) = rev acc ->
  (c =? 123) && hd_is r 123 = false ->
  ref_run2 o rf (RValue tag attr q) (absoff st) (c :: r) acc = Some w ->
  psafeT (let* (st1, cont) := attr_ctx U HTML st c in if cont then Ok (Again st1) else bottom st1 c)
    (fun x => match x with Again s' => Coupled w s' | Stop _ => False end).
Proof.
  intros HR Hrest Hp Hby Hsh Hns Href. pose proof HR as (Hctx & Hq & Hq2 & Htag & Hatt & Htctx & Hnt).
  destruct (ref_byte rf (RValue tag attr q) _ _ _ _ _ I Href Hns) as (rf' & -> & _ & Hno & Hcont).
  cbn [rstep2 rstep] in Hno, Hcont.
  unfold attr_ctx. cbv zeta. rewrite Hctx, Hq.
  change (gen_ContextQuotedAttr =? gen_ContextQuotedAttr) with true. change (gen_ContextQuotedAttr =? gen_ContextUnquotedAttr) with false.
  cbn [andb orb]. rewrite orb_false_r.
  destruct (N.eqb_spec c q) as [->|Ncq]; cbn [negb].
  2:{ rewrite bind_ok. cbv iota beta. cbn [fst snd] in Hcont. rewrite N.add_0_r in Hcont.
      eapply (bottom_couple w st st c r (RValue tag attr q) rf' acc); auto; try (split; [reflexivity|split; reflexivity]); try (right; right; exact Hctx). }
  cbn [fst snd] in Hcont. rewrite N.add_0_r in Hcont.
  assert (Hc62 : (q =? 62) = false) by (destruct Hq2 as [-> | ->]; reflexivity).
  (* the state after the value: the text is flushed when the attribute holds a URL *)
  rewrite !bind_assoc.
  eapply psafe_bind with (Q' := fun st1 => rest st1 = q :: r /\ absoff st1 = absoff st /\ m_p st1 < len (m_l st1) /\ is_bytes (l_src (m_l st1)) = true
                                       /\ shows (m_l st1) = rev acc /\ same_fields (m_l st) (m_l st1) /\ m_quote st1 = 0).
  { destruct (m_url (mset_quote 0 st)).
    - eapply psafe_bind; [apply (flush_text_sim (mset_quote 0 st))|]. intros l1 (Hs1 & Hb1 & Hf1 & Hsh1).
      eapply psafe_bind; [apply (emit0_sim gen_tokenEndURL l1); discriminate|]. intros l2 (Hs2 & Hb2 & Hf2 & Hsh2).
      cbn [psafeE]. unfold rest, absoff in *. cbn [m_l m_p m_quote mset_url mset_quote resync] in *.
      change (drop 0 (l_src l2)) with (l_src l2). rewrite N.add_0_r, Hs2, Hb2, Hs1, Hb1, Hsh2, Hsh1.
      split; [exact Hrest|]. split; [reflexivity|]. split; [unfold len; rewrite Hs2, Hs1, Hrest, nlen_cons; lia|].
      split; [apply is_bytes_drop; exact Hby|]. split; [exact Hsh|]. split; [eapply same_fields_trans; eassumption|reflexivity].
    - assert (Hsame : rest (mset_quote 0 st) = q :: r /\ absoff (mset_quote 0 st) = absoff st /\ m_p (mset_quote 0 st) < len (m_l (mset_quote 0 st))
                      /\ is_bytes (l_src (m_l (mset_quote 0 st))) = true /\ shows (m_l (mset_quote 0 st)) = rev acc
                      /\ same_fields (m_l st) (m_l (mset_quote 0 st)) /\ m_quote (mset_quote 0 st) = 0).
      { repeat split; assumption. }
      cbn [m_l mset_quote]. rewrite Hatt, Htag.
      destruct (bytes_eqb attr s_type) eqn:Ety; [|cbn; exact Hsame].
      rewrite andb_true_r in Hnt. unfold raw_elem in Hnt. apply orb_false_elim in Hnt. destruct Hnt as [N1 N2].
      rewrite N1, N2. cbn. exact Hsame. }
  intros st1 (Hr1 & Ho1 & Hp1 & Hby1 & Hsh1 & Hf1 & Hq1). cbv beta iota. rewrite Hc62.
  set (st2 := mset_lp (set_tidx 0 (set_att [] (set_ctx gen_ContextTag (m_l st1)))) (m_p st1) st1).
  destruct Hf1 as (F1 & F2 & F3 & F4 & F5).
  apply (bottom_couple w st2 st2 q r (RInTag tag) rf' acc); try (split; [reflexivity|split; reflexivity]); try reflexivity; auto.
  - cbn. split; [reflexivity|]. split; [rewrite F3; exact Htag|]. rewrite F2. exact Htctx.
  - unfold st2, absoff in *. cbn [m_l m_p mset_lp l_base set_tidx set_att set_ctx]. rewrite Ho1.
    exact Hcont.
Qed.

(* ---- attributes ---- *)
(* a show can start only where the reference has a context for it *)
Lemma ref_no_show rf rs off c r acc w :
  not_raw rs -> ctx_of rs = None -> ref_run2 o rf rs off (c :: r) acc = Some w -> (c =? 123) && hd_is r 123 = false.
Proof.
  intros Hn Hc H. destruct ((c =? 123) && hd_is r 123) eqn:E; [|reflexivity].
  destruct (ref_show _ _ _ _ _ _ _ Hn H E) as (_ & cx & _ & _ & Hcx & _). congruence.
Qed.

Definition attr_name (L : lexer) (p q : N) : bytes := map lower (take (q - p) (drop p (l_src L))).

(* the first loop of scanAttribute, after the first letter of the name *)
Definition attr1J (L : lexer) (tag : bytes) (p : N) (acc w : list (N * N)) (st : lexer * N * bool) : Prop :=
  let q := snd (fst st) in
  same_lex L (fst (fst st)) /\ p < q /\ q <= len L /\ ascii (take (q - p) (drop p (l_src L))) = true /\
  exists rf, ref_run2 o rf (RAttrName tag (attr_name L p q)) (l_base L + q) (drop q (l_src L)) acc = Some w.

Lemma attr_loop1_sim L tag p acc w fuel st0 :
  is_bytes (l_src L) = true -> attr1J L tag p acc w st0 ->
  psafeT (loop fuel (attr_name_body U) st0)
    (fun st => attr1J L tag p acc w st /\
               let q := snd (fst st) in
               if snd st then get (l_src L) q = Some 62
               else q = len L \/ exists c, get (l_src L) q = Some c /\ ((c =? 61) || is_ws c = true)).
Proof.
  intros Hby H0. apply (psafe_loop (attr_name_body U) (attr1J L tag p acc w)); [|exact H0].
  intros [[l1 q] b] HJ. pose proof HJ as (Hl & Hq0 & Hq1 & Hasc & rf & Href). cbn [fst snd] in *.
  unfold attr_name_body. assert (Hsrc : l_src l1 = l_src L) by apply Hl.
  assert (Hlen : len l1 = len L) by (unfold len; rewrite Hsrc; reflexivity). rewrite Hlen.
  destruct (N.ltb_spec q (len L)) as [Hlt|Hge]; cbn [negb]; [|cbn; split; [exact HJ|left; lia]].
  pget c Hc. rewrite Hsrc in Hc. pose proof (is_bytes_get _ _ _ Hby Hc) as Hc256.
  destruct (drop_cons_get _ _ Hlt) as (c' & r & Hdr & Hg). rewrite Hc in Hg. injection Hg as <-. rewrite Hdr in Href.
  pose proof (ref_no_show rf (RAttrName tag (attr_name L p q)) _ _ _ _ _ I eq_refl Href) as Hns.
  destruct (ref_byte rf (RAttrName tag (attr_name L p q)) _ _ _ _ _ I Href Hns) as (rf' & -> & _ & Hno & Hcont).
  cbn [rstep2] in Hno, Hcont. rewrite (isASCIISpace_is_ws c Hc256).
  destruct (raw_elem tag && bytes_eqb (attr_name L p q) s_type); [cbn in Hno; contradiction|].
  destruct (N.eqb_spec c 61) as [->|N61]; [cbn; split; [exact HJ|right; exists 61; auto]|].
  destruct (is_ws c) eqn:Ews; [cbn; split; [exact HJ|right; exists c; rewrite Ews, orb_true_r; auto]|]. cbn [orb].
  destruct (N.eqb_spec c 62) as [->|N62]; [cbn; split; [exact HJ|exact Hc]|].
  destruct (is_letter c || (c =? 45)) eqn:Eok; [|cbn in Hno; contradiction].
  assert (Hcr : (65 <= c <= 90 \/ 97 <= c <= 122) \/ c = 45).
  { apply orb_prop in Eok. destruct Eok as [Eok|Eok]; [left|right; apply N.eqb_eq in Eok; exact Eok].
    unfold is_letter, lower in Eok. destruct ((65 <=? c) && (c <=? 90)) eqn:E; b2p; lia. }
  assert (E31 : (c <=? 31) = false) by (apply N.leb_gt; lia).
  assert (Ene : forall k, (k = 34 \/ k = 39 \/ k = 62 \/ k = 47 \/ k = 127 \/ k = 123) -> (c =? k) = false) by (intros k Hk; apply N.eqb_neq; lia).
  rewrite E31, ?(Ene 34), ?(Ene 39), ?(Ene 62), ?(Ene 47), ?(Ene 127), ?(Ene 123) by tauto. cbn [orb].
  assert (E128 : (128 <=? c) = false) by (apply N.leb_gt; lia). rewrite E128. cbv iota. rewrite bind_ok. cbn [andb andm]. rewrite bind_ok. cbv iota.
  cbn [psafeE fst snd]. cbn [fst snd] in Hcont. rewrite N.add_0_r in Hcont.
  unfold attr1J. cbn [fst snd]. split; [eapply same_lex_trans; [exact Hl|repeat split]|]. split; [lia|]. split; [lia|].
  assert (Hpq : p <= q) by lia.
  split.
  - rewrite (take_snoc_range _ _ _ _ Hpq Hc). unfold ascii in *. rewrite forallb_app, Hasc. cbn. assert (c <? 128 = true) by (apply N.ltb_lt; lia). rewrite H. reflexivity.
  - exists rf'. unfold attr_name in *. rewrite (take_snoc_range _ _ _ _ Hpq Hc), map_app. cbn [map].
    rewrite N.add_assoc, <- drop_drop, Hdr. exact Hcont.
Qed.

(* the second loop: spaces, then the equals sign *)
Definition attr2J (L : lexer) (tag nm : bytes) (p1 : N) (acc w : list (N * N)) (st : lexer * N * N) : Prop :=
  let q := snd (fst st) in
  same_lex L (fst (fst st)) /\ p1 <= q /\ q <= len L /\
  exists rf rs2, ref_run2 o rf rs2 (l_base L + q) (drop q (l_src L)) acc = Some w /\
    ((rs2 = RAttrName tag nm /\ exists c, get (l_src L) q = Some c /\ (c =? 61) || is_ws c = true) \/
     (rs2 = RAfterName tag nm /\ raw_elem tag && bytes_eqb nm s_type = false)).

Lemma attr_loop2_sim L tag nm p1 acc w fuel st0 :
  is_bytes (l_src L) = true -> attr2J L tag nm p1 acc w st0 ->
  psafeT (loop fuel (attr_sp_body 0) st0)
    (fun st => let q := snd (fst st) in
               same_lex L (fst (fst st)) /\ p1 <= q /\ q <= len L /\
               ((snd st = 0 /\ q = len L /\ exists rf rs, ref_run2 o rf rs (l_base L + q) (drop q (l_src L)) acc = Some w) \/
                (snd st = 1 /\ raw_elem tag && bytes_eqb nm s_type = false /\
                 exists rf, ref_run2 o rf (RBeforeValue tag nm) (l_base L + q) (drop q (l_src L)) acc = Some w))).
Proof.
  intros Hby H0. apply (psafe_loop (attr_sp_body 0) (attr2J L tag nm p1 acc w)); [|exact H0].
  intros [[l2 q] k] (Hl & Hq0 & Hq1 & rf & rs2 & Href & Hrs). cbn [fst snd] in *.
  unfold attr_sp_body. assert (Hsrc : l_src l2 = l_src L) by apply Hl.
  assert (Hlen : len l2 = len L) by (unfold len; rewrite Hsrc; reflexivity). rewrite Hlen.
  destruct (N.ltb_spec q (len L)) as [Hlt|Hge]; cbn [negb]; [|cbn; split; [exact Hl|]; split; [exact Hq0|]; split; [exact Hq1|left; split; [reflexivity|split; [lia|eauto]]]].
  pget c Hc. rewrite Hsrc in Hc. pose proof (is_bytes_get _ _ _ Hby Hc) as Hc256.
  destruct (drop_cons_get _ _ Hlt) as (c' & r & Hdr & Hg). rewrite Hc in Hg. injection Hg as <-. rewrite Hdr in Href.
  change (0 =? 0) with true. change (0 =? 1) with false. cbn [andb]. rewrite (isASCIISpace_is_ws c Hc256).
  assert (Hstep : (raw_elem tag && bytes_eqb nm s_type = false) /\ exists rf',
            ref_run2 o rf' (if c =? 61 then RBeforeValue tag nm else RAfterName tag nm) (l_base L + q + 1) r acc = Some w /\
            (if c =? 61 then True else is_ws c = true)).
  { destruct Hrs as [(-> & c2 & Hc2 & Hcl)|(-> & Hnt)].
    - rewrite Hc in Hc2. injection Hc2 as <-.
      pose proof (ref_no_show rf (RAttrName tag nm) _ _ _ _ _ I eq_refl Href) as Hns.
      destruct (ref_byte rf (RAttrName tag nm) _ _ _ _ _ I Href Hns) as (rf' & -> & _ & Hno & Hcont).
      cbn [rstep2] in Hno, Hcont. destruct (raw_elem tag && bytes_eqb nm s_type); [cbn in Hno; contradiction|]. split; [reflexivity|].
      exists rf'. destruct (c =? 61); [cbn in Hcont; rewrite N.add_0_r in Hcont; auto|]. cbn [orb] in Hcl. rewrite Hcl in *.
      cbn in Hcont. rewrite N.add_0_r in Hcont. auto.
    - pose proof (ref_no_show rf (RAfterName tag nm) _ _ _ _ _ I eq_refl Href) as Hns.
      destruct (ref_byte rf (RAfterName tag nm) _ _ _ _ _ I Href Hns) as (rf' & -> & _ & Hno & Hcont).
      cbn [rstep2 rstep] in Hno, Hcont. split; [exact Hnt|]. exists rf'.
      destruct (is_ws c) eqn:Ews.
      + assert (E61 : (c =? 61) = false) by (apply N.eqb_neq; intros ->; discriminate Ews). rewrite E61.
        cbn in Hcont. rewrite N.add_0_r in Hcont. auto.
      + destruct (c =? 61); [cbn in Hcont; rewrite N.add_0_r in Hcont; auto|cbn in Hno; contradiction]. }
  destruct Hstep as (Hnt & rf' & Hcont & Hcl).
  assert (Hr : drop (q + 1) (l_src L) = r) by (rewrite <- drop_drop, Hdr; reflexivity).
  destruct (N.eqb_spec c 61) as [->|N61].
  - cbn [psafeE fst snd]. split; [eapply same_lex_trans; [exact Hl|repeat split]|]. split; [lia|]. split; [lia|].
    right. split; [reflexivity|]. split; [exact Hnt|]. exists rf'. rewrite N.add_assoc, Hr. exact Hcont.
  - rewrite Hcl. cbn [psafeE fst snd]. unfold attr2J. cbn [fst snd].
    split; [eapply same_lex_trans; [exact Hl|destruct (c =? 10); repeat split]|]. split; [lia|]. split; [lia|].
    exists rf', (RAfterName tag nm). rewrite N.add_assoc, Hr. split; [exact Hcont|]. right. auto.
Qed.

(* the third loop: spaces in front of the value *)
Definition attr3J (L : lexer) (tag nm : bytes) (p2 : N) (acc w : list (N * N)) (st : lexer * N * N) : Prop :=
  let q := snd (fst st) in
  same_lex L (fst (fst st)) /\ p2 <= q /\ q <= len L /\
  exists rf, ref_run2 o rf (RBeforeValue tag nm) (l_base L + q) (drop q (l_src L)) acc = Some w.

Lemma attr_loop3_sim L tag nm p2 acc w fuel st0 :
  is_bytes (l_src L) = true -> attr3J L tag nm p2 acc w st0 ->
  psafeT (loop fuel (attr_sp_body 1) st0)
    (fun st => let q := snd (fst st) in
               attr3J L tag nm p2 acc w (fst st, 0) /\
               ((snd st = 0 /\ q = len L) \/
                (snd st = 1 /\ exists c, get (l_src L) q = Some c /\ is_ws c = false /\ c <> 62))).
Proof.
  intros Hby H0. apply (psafe_loop (attr_sp_body 1) (attr3J L tag nm p2 acc w)); [|exact H0].
  intros [[l3 q] k] HJ. pose proof HJ as (Hl & Hq0 & Hq1 & rf & Href). cbn [fst snd] in *.
  unfold attr_sp_body. assert (Hsrc : l_src l3 = l_src L) by apply Hl.
  assert (Hlen : len l3 = len L) by (unfold len; rewrite Hsrc; reflexivity). rewrite Hlen.
  destruct (N.ltb_spec q (len L)) as [Hlt|Hge]; cbn [negb]; [|cbn; split; [exact HJ|left; split; [reflexivity|lia]]].
  pget c Hc. rewrite Hsrc in Hc. pose proof (is_bytes_get _ _ _ Hby Hc) as Hc256.
  destruct (drop_cons_get _ _ Hlt) as (c' & r & Hdr & Hg). rewrite Hc in Hg. injection Hg as <-. rewrite Hdr in Href.
  change (1 =? 0) with false. change (1 =? 1) with true. cbn [andb]. rewrite (isASCIISpace_is_ws c Hc256).
  pose proof (ref_no_show rf (RBeforeValue tag nm) _ _ _ _ _ I eq_refl Href) as Hns.
  destruct (ref_byte rf (RBeforeValue tag nm) _ _ _ _ _ I Href Hns) as (rf' & -> & _ & Hno & Hcont).
  cbn [rstep2 rstep] in Hno, Hcont.
  destruct (N.eqb_spec c 62) as [->|N62]; [cbn in Hno; contradiction|].
  destruct (is_ws c) eqn:Ews.
  - cbn [psafeE fst snd]. unfold attr3J. cbn [fst snd]. cbn in Hcont. rewrite N.add_0_r in Hcont.
    split; [eapply same_lex_trans; [exact Hl|destruct (c =? 10); repeat split]|]. split; [lia|]. split; [lia|].
    exists rf'. rewrite N.add_assoc, <- drop_drop, Hdr. exact Hcont.
  - cbn [psafeE fst snd]. split; [unfold attr3J; cbn [fst snd]; rewrite Hdr; eauto 10|]. right. split; [reflexivity|]. eauto.
Qed.

(* a greater-than sign after an attribute name: as in the tag *)
Lemma attrname_gt rf tag nm off t acc w :
  ref_run2 o rf (RAttrName tag nm) off (62 :: t) acc = Some w -> ref_run2 o rf (RInTag tag) off (62 :: t) acc = Some w.
Proof.
  intros H. destruct rf as [|rf']; [discriminate|]. rewrite ref_run2_eq in H |- * by exact I. cbn [ctx_of] in *.
  change ((62 =? 123) && hd_is t 123) with false in *. change ((62 =? 123) && (hd_is t 37 || hd_is t 35)) with false in *. cbv iota in *.
  cbn [rstep2] in *. destruct (raw_elem tag && bytes_eqb nm s_type); [discriminate|]. exact H.
Qed.

Lemma attr_first L p c :
  get (l_src L) p = Some c -> is_letter c = true -> attr_name_body U (L, p, false) = Ok (Again (addcol 1 L, p + 1, false)).
Proof.
  intros Hc Hl. pose proof (get_some _ _ _ Hc) as Hlt. fold (len L) in Hlt.
  assert (Hcr : 65 <= c <= 90 \/ 97 <= c <= 122).
  { unfold is_letter, lower in Hl. destruct ((65 <=? c) && (c <=? 90)) eqn:E; b2p; lia. }
  unfold attr_name_body. apply N.ltb_lt in Hlt. rewrite Hlt. cbn [negb]. unfold idx. rewrite Hc. cbn [bind].
  assert (Ene : forall k, (k = 61 \/ k = 34 \/ k = 39 \/ k = 62 \/ k = 47 \/ k = 127 \/ k = 123) -> (c =? k) = false) by (intros k Hk; apply N.eqb_neq; lia).
  assert (Esp : isASCIISpace c = false).
  { unfold isASCIISpace, mem. cbn [gen_lex_isASCIISpace existsb]. repeat (apply orb_false_intro); try reflexivity; apply N.eqb_neq; lia. }
  assert (E31 : (c <=? 31) = false) by (apply N.leb_gt; lia).
  assert (E128 : (128 <=? c) = false) by (apply N.leb_gt; lia).
  rewrite Esp, E31, E128, ?(Ene 61), ?(Ene 34), ?(Ene 39), ?(Ene 62), ?(Ene 47), ?(Ene 127), ?(Ene 123) by tauto. reflexivity.
Qed.

Lemma loop_at_end m fuel l2 q : q = len l2 -> psafeT (loop fuel (attr_sp_body m) (l2, q, 0)) (fun st => st = (l2, q, 0)).
Proof.
  intros ->. destruct fuel; [exact I|]. cbn [loop]. unfold attr_sp_body. rewrite N.ltb_irrefl. cbn. reflexivity.
Qed.

(* scanAttribute in front of a letter, against the reference in the tag *)
Lemma attr_sim L tag p c acc w rf :
  is_bytes (l_src L) = true -> get (l_src L) p = Some c -> is_letter c = true ->
  ref_run2 o rf (RInTag tag) (l_base L + p) (drop p (l_src L)) acc = Some w ->
  psafeT (scan_attribute U L p)
    (fun x => let l1 := fst (fst x) in let attr := snd (fst x) in let next := snd x in
      same_lex L l1 /\ p < next /\ next <= len L /\
      ((attr = [] /\ exists rf1 rs1, ref_run2 o rf1 rs1 (l_base L + next) (drop next (l_src L)) acc = Some w /\
                                      (drop next (l_src L) = [] \/ rs1 = RInTag tag))
       \/ (nonempty attr = true /\ raw_elem tag && bytes_eqb attr s_type = false /\
           exists rf1 c1, ref_run2 o rf1 (RBeforeValue tag attr) (l_base L + next) (drop next (l_src L)) acc = Some w /\
                          get (l_src L) next = Some c1 /\ is_ws c1 = false /\ c1 <> 62))).
Proof.
  intros Hby Hc Hl Href. pose proof (get_some _ _ _ Hc) as Hlt. fold (len L) in Hlt.
  pose proof (is_bytes_get _ _ _ Hby Hc) as Hc256.
  destruct (drop_cons_get _ _ Hlt) as (c' & r & Hdr & Hg). rewrite Hc in Hg. injection Hg as <-. rewrite Hdr in Href.
  (* the reference reads the first letter *)
  pose proof (ref_no_show rf (RInTag tag) _ _ _ _ _ I eq_refl Href) as Hns.
  destruct (ref_byte rf (RInTag tag) _ _ _ _ _ I Href Hns) as (rf' & -> & _ & Hno & Hcont).
  cbn [rstep2] in Hno, Hcont.
  assert (Hws : is_ws c = false).
  { unfold is_ws. unfold is_letter, lower in Hl. destruct ((65 <=? c) && (c <=? 90)) eqn:E; b2p; repeat (apply orb_false_intro); apply N.eqb_neq; lia. }
  assert (H62 : (c =? 62) = false) by (apply N.eqb_neq; intros ->; discriminate Hl).
  assert (Hc128 : c < 128) by (unfold is_letter, lower in Hl; destruct ((65 <=? c) && (c <=? 90)) eqn:E; b2p; lia).
  rewrite Hws, H62, Hl in Hno, Hcont. cbn [fst snd] in Hcont. rewrite N.add_0_r in Hcont.
  unfold scan_attribute. cbv zeta.
  assert (E1 : loop (S (length (l_src L))) (attr_name_body U) (L, p, false) = loop (length (l_src L)) (attr_name_body U) (addcol 1 L, p + 1, false))
    by (cbn [loop]; rewrite (attr_first L p c Hc Hl); reflexivity).
  rewrite E1.
  assert (HJ1 : attr1J L tag p acc w (addcol 1 L, p + 1, false)).
  { unfold attr1J. cbn [fst snd]. split; [repeat split|]. split; [lia|]. split; [lia|].
    assert (Htk : take (p + 1 - p) (drop p (l_src L)) = [c]) by (replace (p + 1 - p) with 1 by lia; apply take_1; rewrite get_drop0; exact Hc).
    unfold attr_name. rewrite Htk. split; [cbn; apply N.ltb_lt in Hc128; rewrite Hc128; reflexivity|].
    exists rf'. cbn [map]. rewrite <- drop_drop, Hdr. change (drop 1 (c :: r)) with r. rewrite N.add_assoc. exact Hcont. }
  eapply psafe_bind; [apply (attr_loop1_sim L tag p acc w _ _ Hby HJ1)|].
  intros [[l1 p1] ret] [(Hl1 & Hp0 & Hp1 & Hasc & rf1 & Href1) Htail]. cbn [fst snd] in *.
  set (nm := attr_name L p p1) in *.
  destruct ret.
  { (* the name ends at a greater-than sign *)
    cbn [psafeE fst snd]. split; [exact Hl1|]. split; [exact Hp0|]. split; [exact Hp1|]. left. split; [reflexivity|].
    assert (Hlt1 : p1 < nlen (l_src L)) by (apply get_some in Htail; exact Htail).
    destruct (drop_cons_get _ _ Hlt1) as (b & t & Hd1 & Hg1). rewrite Htail in Hg1. injection Hg1 as <-.
    exists rf1, (RInTag tag). split; [|right; reflexivity]. rewrite Hd1 in *. apply (attrname_gt rf1 tag nm). exact Href1. }
  destruct Htail as [Hend|(c1 & Hg1 & Hc1)].
  { (* the source ends inside the name *)
    assert (E : (p1 =? p) || (p1 =? len L) = true) by (rewrite Hend, N.eqb_refl, orb_true_r; reflexivity). rewrite E.
    cbn [psafeE fst snd]. split; [exact Hl1|]. split; [exact Hp0|]. split; [exact Hp1|]. left. split; [reflexivity|].
    exists rf1, (RAttrName tag nm). split; [exact Href1|]. left. unfold drop, len in *. rewrite Hend, nlen_eq, Nat2N.id. apply skipn_all. }
  assert (Hlt1 : p1 < len L) by (apply get_some in Hg1; exact Hg1).
  assert (E : (p1 =? p) || (p1 =? len L) = false) by (apply orb_false_intro; apply N.eqb_neq; lia). rewrite E.
  destruct (N.ltb_spec (len L) p1) as [Hbad|_]; [lia|].
  rewrite (to_lower_ascii _ Hasc). fold (attr_name L p p1). fold nm.
  (* spaces and the equals sign *)
  assert (HJ2 : attr2J L tag nm p1 acc w (l1, p1, 0)).
  { unfold attr2J. cbn [fst snd]. split; [exact Hl1|]. split; [lia|]. split; [lia|]. exists rf1, (RAttrName tag nm). split; [exact Href1|]. left. eauto. }
  eapply psafe_bind; [apply (attr_loop2_sim L tag nm p1 acc w _ _ Hby HJ2)|].
  intros [[l2 p2] k2] (Hl2 & Hq0 & Hq1 & Hk2). cbn [fst snd] in *.
  destruct Hk2 as [(-> & Hend2 & rf2 & rs2 & Href2)|(-> & Hnt & rf2 & Href2)].
  - (* the source ends after the name *)
    change (0 =? 2) with false. cbv iota.
    assert (Hl2len : p2 = len l2) by (rewrite Hend2; unfold len; rewrite (proj1 Hl2); reflexivity).
    eapply psafe_bind; [apply (loop_at_end 1 _ l2 p2 Hl2len)|]. intros st3 ->. cbv beta iota.
    change (0 =? 2) with false. rewrite Hend2, N.eqb_refl. cbn [psafeE fst snd].
    split; [exact Hl2|]. split; [lia|]. split; [lia|]. left. split; [reflexivity|]. exists rf2, rs2. rewrite <- Hend2. split; [exact Href2|].
    left. unfold drop, len in *. rewrite Hend2, nlen_eq, Nat2N.id. apply skipn_all.
  - change (1 =? 2) with false. cbv iota.
    assert (HJ3 : attr3J L tag nm p2 acc w (l2, p2, 0)).
    { unfold attr3J. cbn [fst snd]. split; [exact Hl2|]. split; [lia|]. split; [exact Hq1|]. eauto. }
    eapply psafe_bind; [apply (attr_loop3_sim L tag nm p2 acc w _ _ Hby HJ3)|].
    intros [[l3 p3] k3] [(Hl3 & Hr0 & Hr1 & rf3 & Href3) Hk3]. cbn [fst snd] in *.
    destruct Hk3 as [(-> & Hend3)|(-> & c3 & Hg3 & Hws3 & N623)].
    + change (0 =? 2) with false. rewrite Hend3, N.eqb_refl. cbn [psafeE fst snd].
      split; [exact Hl3|]. split; [lia|]. split; [lia|]. left. split; [reflexivity|]. exists rf3, (RBeforeValue tag nm). rewrite <- Hend3. split; [exact Href3|].
      left. unfold drop, len in *. rewrite Hend3, nlen_eq, Nat2N.id. apply skipn_all.
    + change (1 =? 2) with false. assert (Hlt3 : p3 < len L) by (apply get_some in Hg3; exact Hg3).
      destruct (N.eqb_spec p3 (len L)) as [Ebad|_]; [lia|]. cbn [psafeE fst snd].
      split; [exact Hl3|]. split; [lia|]. split; [lia|]. right.
      split; [unfold nm, attr_name; replace (p1 - p) with (1 + (p1 - p - 1)) by lia; rewrite take_add, (take_1 _ c) by (rewrite get_drop0; exact Hc); reflexivity|].
      split; [exact Hnt|]. exists rf3, c3. auto.
Qed.

Lemma orb_eqb2' a x y : (a =? x) || (a =? y) = true -> a = x \/ a = y.
Proof. intros H. apply orb_prop in H. destruct H as [H|H]; apply N.eqb_eq in H; auto. Qed.

(* inside a tag *)
Lemma tag_step w st c r rf acc tag :
  Rel st (RInTag tag) -> rest st = c :: r -> m_p st < len (m_l st) -> is_bytes (l_src (m_l st)) = true -> shows (m_l st) = rev acc ->
  ref_run2 o rf (RInTag tag) (absoff st) (c :: r) acc = Some w ->
  psafeT (let* (st1, cont) := tag_ctx U HTML st c in if cont then Ok (Again st1) else bottom st1 c)
    (fun x => match x with Again s' => Coupled w s' | Stop _ => False end).
Proof.
  intros HR Hrest Hp Hby Hsh Href. pose proof HR as (Hctx & Htag & Htctx).
  destruct (rest_cons st Hp) as (c' & r' & Hrest' & Hgc & Hr). rewrite Hrest in Hrest'. injection Hrest' as <- <-.
  pose proof (is_bytes_get _ _ _ Hby Hgc) as Hc256.
  pose proof (ref_no_show rf (RInTag tag) _ _ _ _ _ I eq_refl Href) as Hns.
  destruct (ref_byte rf (RInTag tag) _ _ _ _ _ I Href Hns) as (rf' & Erf & _ & Hno & Hcont).
  cbn [rstep2] in Hno, Hcont.
  unfold tag_ctx. cbv zeta. rewrite !bind_assoc.
  eapply psafe_bind with (Q' := fun e : bool => e = (c =? 62)).
  { unfold orm, andm. destruct (N.eqb_spec c 62); [cbn; reflexivity|].
    destruct (N.eqb_spec c 47) as [->|N47]; [|cbn; reflexivity]. destruct (m_p st <? len (m_l st)); [|cbn; reflexivity].
    unfold idx_is, idx. rewrite Hgc. cbn. reflexivity. }
  intros endtag ->.
  destruct (N.eqb_spec c 62) as [->|N62].
  { (* the end of the tag *)
    change (62 =? 47) with false. cbv iota. rewrite bind_ok. cbv iota beta.
    change (is_ws 62) with false in Hno, Hcont. cbv iota in Hno, Hcont. change (62 =? 62) with true in Hno, Hcont. cbv iota in Hno, Hcont.
    unfold after_tag in Hno, Hcont. cbn [o_raw opt_html] in Hno, Hcont.
    destruct (raw_elem tag) eqn:Eraw; [cbn in Hno; contradiction|]. cbn [fst snd] in Hcont. rewrite N.add_0_r in Hcont.
    set (st2 := mset_lp (set_tctx HTML (set_tag [] (set_ctx (l_tctx (m_l st)) (m_l st)))) (m_p st) st).
    apply (bottom_couple w st st2 62 r RData rf' acc);
      [exact Hrest|exact Hp|exact Hby|repeat split|reflexivity|left; cbn; apply Htctx; reflexivity|exact Hsh
      |cbn; split; [apply Htctx; reflexivity|reflexivity]|exact Hcont]. }
  rewrite <- (isASCIISpace_is_ws c Hc256) in Hno, Hcont.
  destruct (isASCIISpace c) eqn:Esp; cbn [negb].
  { rewrite bind_ok. cbv iota beta. cbn [fst snd] in Hcont. rewrite N.add_0_r in Hcont.
    apply (bottom_couple w st st c r (RInTag tag) rf' acc); auto; try (split; [reflexivity|split; reflexivity]); try (right; left; exact Hctx). }
  destruct (is_letter c) eqn:El; [|cbn in Hno; contradiction].
  (* an attribute *)
  assert (Href0 : ref_run2 o rf (RInTag tag) (l_base (m_l st) + m_p st) (drop (m_p st) (l_src (m_l st))) acc = Some w).
  { unfold rest in Hrest. rewrite Hrest. exact Href. }
  rewrite !bind_assoc. eapply psafe_bind; [apply (attr_sim (m_l st) tag (m_p st) c acc w rf Hby Hgc El Href0)|].
  intros [[l1 attr] next] (Hl1 & Hn0 & Hn1 & Hout). cbn [fst snd] in *.
  destruct Hl1 as (Es1 & Eb1 & Eo1 & (F1 & F2 & F3 & F4 & F5)).
  apply N.ltb_lt in Hn0. rewrite Hn0. apply N.ltb_lt in Hn0.
  change (len (set_att attr l1)) with (len l1). assert (Hlen1 : len l1 = len (m_l st)) by (unfold len; rewrite Es1; reflexivity). rewrite Hlen1.
  destruct Hout as [(-> & rf1 & rs1 & Href1 & Hrs1)|(Hne & Hnt & rf1 & c1 & Href1 & Hg1 & Hws1 & N621)].
  - (* no value *)
    cbn [nonempty andb]. rewrite bind_ok. cbv iota beta. cbn [psafeE].
    apply (couple_again w st (set_att [] l1) next rs1 rf1 acc Hby); [split; assumption|exact Hn1|unfold shows; cbn; rewrite Eo1; exact Hsh| |exact Href1].
    destruct Hrs1 as [Hnil| ->]; [left; exact Hnil|right]. cbn. rewrite F1, F2, F3. auto.
  - (* a value: it must be quoted *)
    assert (Hlt1 : next < len (m_l st)) by (apply get_some in Hg1; exact Hg1).
    rewrite Hne. apply N.ltb_lt in Hlt1. rewrite Hlt1. apply N.ltb_lt in Hlt1. cbn [andb].
    unfold idx. change (l_src (set_att attr l1)) with (l_src l1). rewrite Es1, Hg1. cbn [bind].
    destruct (drop_cons_get _ _ Hlt1) as (b & t & Hd1 & Hgb). rewrite Hg1 in Hgb. injection Hgb as <-. rewrite Hd1 in Href1.
    pose proof (ref_no_show rf1 (RBeforeValue tag attr) _ _ _ _ _ I eq_refl Href1) as Hns1.
    destruct (ref_byte rf1 (RBeforeValue tag attr) _ _ _ _ _ I Href1 Hns1) as (rf2 & Erf2 & _ & Hno2 & Hcont2).
    cbn [rstep2 rstep] in Hno2, Hcont2. rewrite Hws1 in Hno2, Hcont2.
    destruct ((c1 =? 34) || (c1 =? 39)) eqn:Eq; [|cbn in Hno2; contradiction].
    cbn [fst snd] in Hcont2. rewrite N.add_0_r in Hcont2.
    assert (Hq : c1 = 34 \/ c1 = 39) by (apply orb_eqb2'; exact Eq).
    assert (Hq0 : (c1 =? 0) = false) by (destruct Hq as [-> | ->]; reflexivity).
    assert (Hactx : attr_ctx_of c1 = gen_ContextQuotedAttr) by (unfold attr_ctx_of; rewrite Hq0; reflexivity).
    rewrite Hactx.
    assert (Hdt : drop (next + 1) (l_src (m_l st)) = t) by (rewrite <- drop_drop, Hd1; reflexivity).
    assert (HRv : forall s', l_ctx (m_l s') = gen_ContextQuotedAttr -> m_quote s' = c1 -> l_tag (m_l s') = l_tag (m_l st) -> l_att (m_l s') = attr ->
                   l_tctx (m_l s') = l_tctx (m_l st) -> Rel s' (RValue tag attr c1)).
    { intros s' A1 A2 A3 A4 A5. cbn. rewrite A3, A5. auto 10. }
    destruct (containsURL (l_tag (addcol 1 (set_att attr l1))) attr).
    + (* a URL: the text is flushed *)
      unfold emit_text. cbn [m_lin m_col m_lcd m_lld m_p mset_lp].
      destruct (emit_at (m_lin st) (m_col st) (m_lcd st) (m_lld st) gen_tokenText (next + 1) (addcol 1 (set_att attr l1))) as [l3| | |] eqn:E3; cbn [bind]; try exact I.
      destruct (emit_at_sim _ _ _ _ _ _ _ _ E3) as (_ & Hs3 & Hb3 & Hf3 & Hsh3).
      change (gen_tokenText =? gen_tokenLeftBraces) with false in Hsh3. rewrite app_nil_r in Hsh3.
      rewrite ?bind_assoc. eapply psafe_bind; [apply (emit0_sim gen_tokenStartURL (set_ctx gen_ContextQuotedAttr l3)); discriminate|].
      intros l5 (Hs5 & Hb5 & Hf5 & Hsh5). rewrite ?bind_ok. cbv iota beta. cbn [psafeE].
      unfold Coupled. cbn [m_l m_p mset_url mset_quote resync]. split; [lia|].
      lcbn_in Hs3. lcbn_in Hb3. lcbn_in Hs5. lcbn_in Hb5.
      split; [rewrite Hs5, Hs3, Es1; apply is_bytes_drop; exact Hby|].
      exists (RValue tag attr c1), rf2, acc.
      split; [rewrite Hsh5; change (shows (set_ctx gen_ContextQuotedAttr l3)) with (shows l3); rewrite Hsh3;
              change (shows (addcol 1 (set_att attr l1))) with (shows l1); unfold shows; rewrite Eo1; exact Hsh|].
      unfold absoff, rest. cbn [m_l m_p mset_url mset_quote resync]. change (drop 0 (l_src l5)) with (l_src l5).
      rewrite N.add_0_r, Hs5, Hb5, Hs3, Hb3, Es1, Eb1, Hdt.
      split; [|rewrite N.add_assoc; exact Hcont2].
      right. destruct Hf5 as (G1 & G2 & G3 & G4 & _), Hf3 as (K1 & K2 & K3 & K4 & _). lcbn_in G1. lcbn_in G2. lcbn_in G3. lcbn_in G4. lcbn_in K2. lcbn_in K3. lcbn_in K4.
      apply HRv; cbn [m_l m_quote mset_url mset_quote resync]; try congruence.
    + rewrite ?bind_ok. cbv iota beta. cbn [psafeE].
      unfold Coupled, len. cbn [m_l m_p mset_quote mset_lp]. lcbn. rewrite Es1. unfold len in Hlt1. split; [lia|]. split; [exact Hby|].
      exists (RValue tag attr c1), rf2, acc. unfold shows. lcbn. rewrite Eo1. fold (shows (m_l st)). split; [exact Hsh|].
      unfold absoff, rest. cbn [m_l m_p mset_quote mset_lp]. lcbn. rewrite Es1, Eb1, Hdt.
      split; [|rewrite N.add_assoc; exact Hcont2].
      right. apply HRv; cbn [m_l m_quote mset_quote mset_lp]; lcbn; auto.
Qed.

(* ---- one iteration of the main loop ---- *)
Lemma Rel_ctx st rs : Rel st rs ->
  l_ctx (m_l st) = HTML \/ l_ctx (m_l st) = gen_ContextTag \/ l_ctx (m_l st) = gen_ContextQuotedAttr.
Proof. destruct rs; cbn; try contradiction; intros H; [left|right; left|right; right]; apply H. Qed.

Lemma scan_body_sim w st :
  Coupled w st ->
  psafeT (scan_body U false HTML true st) (fun x => match x with Again s' => Coupled w s' | Stop s' => shows (m_l s') = w end).
Proof.
  intros (Hp & Hby & rs & rf & acc & Hsh & HR & Href). unfold scan_body. cbv zeta.
  destruct (N.ltb_spec (m_p st) (len (m_l st))) as [Hlt|Hge]; cbn [negb].
  2:{ cbn [psafeE]. assert (Hnil : rest st = []).
      { unfold rest, drop, len in *. assert (m_p st = nlen (l_src (m_l st))) by lia. rewrite H, nlen_eq, Nat2N.id. apply skipn_all. }
      rewrite Hnil in Href. rewrite (ref_nil _ _ _ _ _ Href). exact Hsh. }
  destruct (rest_cons st Hlt) as (c & r & Hrest & Hgc & Hr).
  destruct HR as [Hnil|HR]; [rewrite Hrest in Hnil; discriminate|].
  assert (Hnr : not_raw rs) by (destruct rs; try contradiction; exact I).
  pget c' Hc'. rewrite Hgc in Hc'. injection Hc' as <-.
  destruct (ctx_not_md _ (Rel_ctx _ _ HR)) as (_ & _ & Nmd). apply N.eqb_neq in Nmd. rewrite Nmd. cbn [andb].
  (* the byte after an opening brace *)
  eapply psafe_bind with (Q' := fun d : option N => (forall x, d = Some x -> c = 123 /\ get (l_src (m_l st)) (m_p st + 1) = Some x) /\
                                                    (d = None -> c <> 123 \/ len (m_l st) <= m_p st + 1)).
  { destruct (N.eqb_spec c 123) as [->|N123]; cbn [andb]; [|cbn; split; [discriminate|auto]].
    destruct (N.ltb_spec (m_p st + 1) (len (m_l st))); [|cbn; split; [discriminate|auto]].
    pget x Hx. cbn. split; [intros y E; injection E as <-; auto|discriminate]. }
  intros d [Hd1 Hd2].
  assert (Hhd : forall x, hd_is r x = match get (l_src (m_l st)) (m_p st + 1) with Some y => y =? x | None => false end)
    by (intros x; rewrite Hr; apply hd_is_get).
  rewrite Hrest in Href. change (negb false) with true. rewrite andb_true_r.
  destruct (oeq d 123) eqn:E123.
  { (* a show *)
    destruct d as [x|]; [|discriminate]. cbn [oeq] in E123. apply N.eqb_eq in E123. subst x. destruct (Hd1 123 eq_refl) as [-> Hg1].
    assert (Hlt1 : m_p st + 1 < nlen (l_src (m_l st))) by (apply get_some in Hg1; exact Hg1).
    destruct (drop_cons_get _ _ Hlt1) as (b & body & Hdb & Hgb). rewrite Hg1 in Hgb. injection Hgb as <-.
    assert (Hrest2 : rest st = 123 :: 123 :: body) by (rewrite Hrest, Hr, Hdb; reflexivity).
    rewrite <- Hrest in Href. eapply psafe_mono; [apply (show_step w st rs rf acc body Hp Hby Hsh HR Hrest2 Href)|intros [s'|s']; [auto|intros []]]. }
  assert (Hns : (c =? 123) && hd_is r 123 = false).
  { destruct (N.eqb_spec c 123) as [->|_]; [|reflexivity]. cbn [andb]. rewrite Hhd.
    destruct d as [x|]; [destruct (Hd1 x eq_refl) as [_ Hg]; rewrite Hg; exact E123|].
    destruct (Hd2 eq_refl) as [C|Hl]; [congruence|]. destruct (get (l_src (m_l st)) (m_p st + 1)) eqn:Eg; [|reflexivity].
    apply get_some in Eg. unfold len in Hl. lia. }
  (* statements and comments are outside the fragment *)
  assert (Hstmt : forall k, (k = 37 \/ k = 35) -> oeq d k = true -> False).
  { intros k Hk Ek. destruct d as [x|]; [|discriminate]. cbn [oeq] in Ek. apply N.eqb_eq in Ek. subst x. destruct (Hd1 k eq_refl) as [-> Hg].
    destruct rf as [|rf']; [discriminate|]. rewrite (ref_run2_eq _ _ _ _ _ _ Hnr), Hns in Href.
    assert (E : (123 =? 123) && (hd_is r 37 || hd_is r 35) = true).
    { cbn [andb N.eqb Pos.eqb]. rewrite !Hhd, Hg. destruct Hk as [-> | ->]; [reflexivity|apply orb_true_r]. }
    rewrite E in Href. discriminate. }
  destruct (oeq d 37) eqn:E37; [exfalso; apply (Hstmt 37); auto|].
  destruct (oeq d 35) eqn:E35; [exfalso; apply (Hstmt 35); auto|].
  eapply psafe_bind with (Q' := fun _ => True).
  { destruct (c =? 35); cbn [andm]; [|exact I]. destruct (m_p st + 1 <? len (m_l st)); cbn [andm]; [|exact I].
    unfold idx_is, idx. destruct (get (l_src (m_l st)) (m_p st + 1)); exact I. }
  intros bad _. destruct bad; [exact I|].
  (* the step of the context *)
  unfold ctx_switch. cbv zeta. rewrite Nmd.
  destruct rs; cbn in HR; try contradiction.
  - destruct HR as [Hctx Htctx]. rewrite Hctx. change (HTML =? HTML) with true. cbv iota.
    eapply psafe_mono; [apply (data_step w st c r rf acc); auto; split; assumption|intros [s'|s']; [auto|intros []]].
  - pose proof HR as (Hctx & _). rewrite Hctx. change (gen_ContextTag =? HTML) with false. change (gen_ContextTag =? gen_ContextTag) with true. cbv iota.
    eapply psafe_mono; [apply (tag_step w st c r rf acc tag); auto|intros [s'|s']; [auto|intros []]].
  - pose proof HR as (Hctx & _). rewrite Hctx. change (gen_ContextQuotedAttr =? HTML) with false. change (gen_ContextQuotedAttr =? gen_ContextTag) with false.
    change ((gen_ContextQuotedAttr =? gen_ContextQuotedAttr) || (gen_ContextQuotedAttr =? gen_ContextUnquotedAttr)) with true. cbv iota.
    eapply psafe_mono; [apply (value_step w st c r rf acc tag attr quote); auto|intros [s'|s']; [auto|intros []]].
Qed.

(* ---- the whole scan ---- *)
Lemma same_pairs_refl a : same_pairs a a = true.
Proof. induction a as [|[x y] t IH]; [reflexivity|]. cbn [same_pairs]. rewrite !N.eqb_refl, IH. reflexivity. Qed.

Lemma shebang_none l : has_prefix (l_src l) [35; 33] = false -> shebang l = Ok l.
Proof.
  intros H. unfold shebang. destruct (N.ltb_spec 1 (len l)) as [Hlt|_]; [|reflexivity].
  assert (H0 : 0 < len l) by lia. destruct (idx_ok l 0 H0) as (a & Ha & Hga). destruct (idx_ok l 1 Hlt) as (b & Hb & Hgb).
  rewrite Ha. cbn [bind]. unfold andm. destruct (N.eqb_spec a 35) as [->|_]; [|reflexivity].
  unfold idx_is. rewrite Hb. cbn [bind]. destruct (N.eqb_spec b 33) as [->|_]; [|reflexivity].
  exfalso. destruct (l_src l) as [|x [|y t]]; try discriminate. unfold get in Hga, Hgb.
  change (N.to_nat 1) with 1%nat in Hgb. change (N.to_nat 0) with 0%nat in Hga. cbn [nth_error] in Hga, Hgb.
  injection Hga as ->. injection Hgb as ->. destruct t; vm_compute in H; discriminate H.
Qed.

Theorem scan_run_sim src want :
  is_bytes src = true -> ref_contexts2 o src = Some want ->
  psafeT (scan_run U false HTML src) (fun l => shows l = want).
Proof.
  intros Hby Href. unfold ref_contexts2 in Href. cbn [o_strict opt_html andb] in Href.
  destruct (has_prefix src [35; 33]) eqn:Esh; [discriminate|].
  unfold scan_run. rewrite (shebang_none (scan_start HTML src) Esh). rewrite bind_ok. cbv zeta.
  change (l_ctx (scan_start HTML src)) with HTML. change (HTML =? gen_ContextMarkdown) with false. cbv iota. rewrite bind_ok. cbv iota beta.
  set (st0 := mkM (scan_start HTML src) 0 _ _ _ _ 0 false 0 true).
  assert (HC0 : Coupled want st0).
  { unfold Coupled, st0. cbn [m_l m_p]. split; [lia|]. split; [exact Hby|]. exists RData, (S (length src)), [].
    split; [reflexivity|]. split; [right; cbn; auto|]. exact Href. }
  eapply psafe_bind.
  - apply (psafe_loop (scan_body U false HTML true) (Coupled want) (fun st => shows (m_l st) = want)); [|exact HC0].
    intros st HC. apply scan_body_sim. exact HC.
  - intros st Hsh.
    eapply psafe_bind with (Q' := fun l3 => shows l3 = want).
    { destruct (0 <? len (m_l st)); [|cbn; exact Hsh]. unfold emit_text.
      destruct (emit_at _ _ _ _ gen_tokenText (m_p st) (m_l st)) as [l3| | |] eqn:E; cbn; try exact I.
      destruct (emit_at_sim _ _ _ _ _ _ _ _ E) as (_ & _ & _ & _ & D).
      change (gen_tokenText =? gen_tokenLeftBraces) with false in D. rewrite app_nil_r in D. congruence. }
    intros l3 H3. eapply psafe_bind with (Q' := fun l4 => shows l4 = want).
    { destruct ((l_ctx l3 =? gen_ContextMarkdown) && m_url st); [|cbn; exact H3].
      eapply psafe_mono; [apply (emit0_sim gen_tokenEndURL l3); discriminate|]. intros l4 (_ & _ & _ & D). congruence. }
    intros l4 H4. eapply psafe_mono; [apply (emit0_sim gen_tokenEOF l4); discriminate|]. intros l5 (_ & _ & _ & D). congruence.
Qed.

(* C06 layer (B) on the sub-fragment: text, tags with quoted attributes, shows of an identifier *)
Theorem lexer_ctx_sim_html src : is_bytes src = true -> ctx_sim_ok2 opt_html src = true.
Proof.
  intros Hby. unfold ctx_sim_ok2. destruct (ref_contexts2 o src) as [want|] eqn:Eref; [|reflexivity].
  pose proof (scan_run_sim src want Hby Eref) as Hs.
  pose proof (lexer_no_fault U false HTML src) as Hnf. pose proof (lexer_terminates U false HTML src) as Hnt.
  unfold scan_template in *. destruct (scan_run U false HTML src) as [l|l| |].
  - cbn in Hs. unfold shows in Hs. rewrite Hs. apply same_pairs_refl.
  - reflexivity.
  - congruence.
  - congruence.
Qed.
