(* Lemmas about the frame machine FramesM (C12): trace shape around Stop and
   Fatal, order of the panic chain, the recovered flag, positions. The
   refinement of Go's semantics on panic-free trees is in Frames_lifo.v. *)
From Coq Require Import List NArith Bool Arith Lia.
Import ListNotations.
From Verif Require Import Facts_vm FramesM.

(* the numbering of callStatus used by the model is the one of vm.go *)
Lemma status_numbering :
  map status_num [Started; Tailed; Returned; Deferred; Panicked; Recovered] = callStatus_values.
Proof. reflexivity. Qed.

Lemma status_eqb_eq a b : status_eqb a b = true <-> a = b.
Proof. destruct a, b; cbv; split; intro H; try reflexivity; try discriminate. Qed.

(* ------------------------------------------------------------------ *)
(* Shape of the trace                                                  *)

Definition benign (e : event) : Prop :=
  match e with EBody _ | ERecover _ => True | _ => False end.

Inductive tr_step (s : state) : sres -> Prop :=
| TS_same s' : str s' = str s -> tr_step s (Next s')
| TS_emit s' e : str s' = e :: str s -> benign e -> tr_step s (Next s')
| TS_fin o : (forall e, o <> OStop e) -> tr_step s (Fin o (str s))
| TS_stop e : tr_step s (Fin (OStop e) (EStop e :: str s))
| TS_fatal v : tr_step s (Fin (ORunPanics v) (EFatal v :: str s)).

Ltac ts_same := apply TS_same; reflexivity.
Ltac ts_fin := apply TS_fin; intros ? ?; discriminate.

Lemma end_panic_out_tr s0 outer : forall c r, tr_step s0 (end_panic_out outer c (str s0) r).
Proof.
  induction outer as [|sv rest IH]; intros c r; simpl; [ts_fin|].
  destruct (vcalls sv); [apply IH|ts_same].
Qed.

Lemma end_panic_tr s0 s c : str s = str s0 -> tr_step s0 (end_panic s c).
Proof. intros Hs. unfold end_panic. rewrite Hs. apply end_panic_out_tr. Qed.

Lemma finish_tr' s0 s : str s = str s0 -> tr_step s0 (finish s).
Proof.
  intros Hs. unfold finish. destruct (schain s); [|apply end_panic_tr; exact Hs].
  destruct (souter s); [rewrite Hs; ts_fin|apply TS_same; simpl; exact Hs].
Qed.

Lemma finish_tr s : tr_step s (finish s).
Proof. apply finish_tr'. reflexivity. Qed.

Lemma raise_with_tr s0 s owner line v : str s = str s0 -> tr_step s0 (raise_with s owner line v).
Proof.
  intros Hs. unfold raise_with. destruct (scalls s).
  - rewrite Hs. apply end_panic_out_tr.
  - apply TS_same. simpl. exact Hs.
Qed.

Lemma native_in_next_tr s0 nk s k :
  str s = str s0 ->
  (forall s', (str s' = str s0 \/ exists e, str s' = e :: str s0 /\ benign e) -> tr_step s0 (k s')) ->
  tr_step s0 (native_in_next nk s k).
Proof.
  intros Hs Hk. destruct nk; simpl.
  - apply Hk. right. exists (EBody n). simpl. rewrite Hs. split; [reflexivity|exact I].
  - rewrite Hs. apply TS_stop.
  - rewrite Hs. apply TS_fatal.
  - apply raise_with_tr. exact Hs.
Qed.

Lemma after_switch_tr s0 s call i :
  str s = str s0 -> tr_step s0 (after_switch s call i).
Proof.
  intros Hs. unfold after_switch. destruct (fcl call).
  - apply TS_same. simpl. exact Hs.
  - apply native_in_next_tr; [exact Hs|].
    intros s' [H|[e [H Hb]]].
    + apply TS_same. simpl. exact H.
    + eapply TS_emit; [|exact Hb]. simpl. exact H.
  - rewrite Hs. ts_fin.
Qed.

Lemma step_next_tr s i : tr_step s (step_next s i).
Proof.
  unfold step_next.
  destruct (nth_error (scalls s) i) as [call|]; [|ts_fin].
  destruct (fstat call).
  - apply after_switch_tr. reflexivity.
  - ts_same.
  - cbv zeta. change (status_eqb Returned Recovered) with false. cbv iota.
    destruct (prev_deferred (scalls s) i) as [[j prev]|].
    + apply after_switch_tr. reflexivity.
    + simpl. ts_same.
  - destruct (sfn s); [|ts_fin]. apply after_switch_tr. reflexivity.
  - destruct (scan_panicked (scalls s) i _ _) as [[[[j d]|] chain']|]; [| |ts_fin].
    + destruct (nth_error (scalls s) (S j)); [|ts_fin]. apply after_switch_tr. reflexivity.
    + ts_same.
  - cbv zeta. change (status_eqb Recovered Recovered) with true. cbv iota.
    unfold trim. destruct (schain s) as [|p0 r0]; [ts_fin|].
    match goal with |- context [prev_deferred ?c i] => destruct (prev_deferred c i) as [[j prev]|] end.
    + apply after_switch_tr. reflexivity.
    + simpl. ts_same.
Qed.

Lemma raise_tr s0 s f pc v : str s = str s0 -> tr_step s0 (raise s f pc v).
Proof. intros Hs. unfold raise. apply raise_with_tr. exact Hs. Qed.

Lemma do_recover_tr s0 s down : str s = str s0 -> tr_step s0 (do_recover s down).
Proof.
  intros Hs. unfold do_recover.
  destruct (recover_start (scalls s) down) as [i1|]; [|rewrite Hs; ts_fin].
  destruct (recover_search (scalls s) i1) as [i|].
  - destruct (schain s) as [|p ps]; [rewrite Hs; ts_fin|].
    unfold emit_rec. destruct down.
    + apply TS_same. simpl. exact Hs.
    + eapply TS_emit with (e := ERecover (Some (pmsg p))); [|exact I]. simpl. rewrite Hs. reflexivity.
  - unfold emit_rec. destruct down.
    + apply TS_same. exact Hs.
    + eapply TS_emit with (e := ERecover None); [|exact I]. simpl. rewrite Hs. reflexivity.
Qed.

Lemma step_exec_tr s : tr_step s (step_exec s).
Proof.
  unfold step_exec.
  destruct (sfn s) as [f|]; [|ts_fin].
  destruct (fetch f (spc s)) as [ins|]; [|ts_fin].
  destruct ins as [k|b inf|b inf|k|v|down| |b inf].
  - destruct k; cbn [str set_pc].
    + eapply TS_emit with (e := EBody n); [reflexivity|exact I].
    + apply TS_stop.
    + apply TS_fatal.
    + apply raise_tr. reflexivity.
  - ts_same.
  - ts_same.
  - ts_same.
  - apply raise_tr. reflexivity.
  - apply do_recover_tr. reflexivity.
  - simpl. destruct (length (scalls s)) as [|i] eqn:Hl.
    + apply finish_tr'. reflexivity.
    + destruct (nth_error (scalls s) i) as [call|]; [|ts_fin].
      destruct (status_eqb (fstat call) Started); [|ts_same].
      destruct (fcl call); ts_same.
  - ts_same.
Qed.

Lemma step_tr s : tr_step s (step s).
Proof.
  unfold step. destruct (smode s) as [|[|i]].
  - apply step_exec_tr.
  - apply finish_tr.
  - apply step_next_tr.
Qed.

Definition quiet (l : list event) : Prop := Forall benign l.

(* Stop and Fatal end the run: nothing is executed after them, and Run
   returns the error given to Stop / panics with the value given to Fatal *)
Lemma run_tail n : forall s o tr,
  quiet (str s) -> run n s = Some (o, tr) ->
  (quiet tr /\ (forall e, o <> OStop e)) \/
  (exists e pre, tr = pre ++ [EStop e] /\ quiet pre /\ o = OStop e) \/
  (exists v pre, tr = pre ++ [EFatal v] /\ quiet pre /\ o = ORunPanics v).
Proof.
  induction n; intros s o tr Hq Hr; simpl in Hr; [discriminate|].
  assert (Ht := step_tr s).
  destruct (step s) as [s'|o' tr'] eqn:Hs.
  - apply (IHn s' o tr); [|exact Hr].
    inversion Ht; subst.
    + unfold quiet. rewrite H0. exact Hq.
    + unfold quiet. rewrite H0. constructor; assumption.
  - inversion Hr; subst. clear Hr.
    assert (Hrev : quiet (rev (str s))) by (apply Forall_rev; exact Hq).
    inversion Ht; subst.
    + left. split; assumption.
    + right. left. exists e, (rev (str s)). simpl. auto.
    + right. right. exists v, (rev (str s)). simpl. auto.
Qed.

Lemma quiet_no_stop pre e post l : quiet l -> l = pre ++ EStop e :: post -> False.
Proof.
  intros Hq ->. apply Forall_app in Hq. destruct Hq as [_ Hq]. inversion Hq; subst. assumption.
Qed.

Lemma quiet_no_fatal pre v post l : quiet l -> l = pre ++ EFatal v :: post -> False.
Proof.
  intros Hq ->. apply Forall_app in Hq. destruct Hq as [_ Hq]. inversion Hq; subst. assumption.
Qed.

Lemma split_last_unique {A} (pre pre' : list A) x y post :
  pre ++ [x] = pre' ++ y :: post -> (forall z, In z pre -> z <> y) -> post = [] /\ x = y.
Proof.
  revert pre'. induction pre as [|a pre IH]; intros pre' H Hn.
  - destruct pre' as [|b pre']; simpl in H.
    + inversion H. auto.
    + inversion H. destruct pre'; discriminate.
  - destruct pre' as [|b pre']; simpl in H.
    + inversion H. subst. exfalso. apply (Hn y); [left; reflexivity|reflexivity].
    + inversion H. subst. apply (IH pre'); [assumption|]. intros z Hz. apply Hn. right. exact Hz.
Qed.

Theorem stop_runs_nothing n f o tr e pre post :
  vm_run n f = Some (o, tr) -> tr = pre ++ EStop e :: post -> post = [] /\ o = OStop e.
Proof.
  intros Hr Ht. unfold vm_run in Hr.
  destruct (run_tail n (init f) o tr (Forall_nil _) Hr) as [[Hq _]|[[e' [pre' [Htr [Hq Ho]]]]|[v [pre' [Htr [Hq Ho]]]]]].
  - exfalso. eapply quiet_no_stop; eassumption.
  - rewrite Htr in Ht.
    destruct (split_last_unique pre' pre (EStop e') (EStop e) post Ht) as [Hp He].
    + intros z Hz Heq. subst z. unfold quiet in Hq. rewrite Forall_forall in Hq. exact (Hq _ Hz).
    + inversion He. subst. auto.
  - rewrite Htr in Ht. exfalso.
    assert (Hin : In (EStop e) (pre' ++ [EFatal v])) by (rewrite Ht; apply in_or_app; right; left; reflexivity).
    apply in_app_or in Hin. destruct Hin as [Hin|[Hin|[]]]; [|discriminate].
    unfold quiet in Hq. rewrite Forall_forall in Hq. exact (Hq _ Hin).
Qed.

Theorem stop_returns_its_error n f e tr :
  vm_run n f = Some (OStop e, tr) -> exists pre, tr = pre ++ [EStop e] /\ quiet pre.
Proof.
  intros Hr. unfold vm_run in Hr.
  destruct (run_tail n (init f) _ tr (Forall_nil _) Hr) as [[_ Hn]|[[e' [pre' [Htr [Hq Ho]]]]|[v [pre' [Htr [Hq Ho]]]]]].
  - exfalso. apply (Hn e). reflexivity.
  - inversion Ho. subst. eauto.
  - discriminate.
Qed.

Theorem fatal_propagates n f o tr v pre post :
  vm_run n f = Some (o, tr) -> tr = pre ++ EFatal v :: post -> post = [] /\ o = ORunPanics v.
Proof.
  intros Hr Ht. unfold vm_run in Hr.
  destruct (run_tail n (init f) o tr (Forall_nil _) Hr) as [[Hq _]|[[e' [pre' [Htr [Hq Ho]]]]|[v' [pre' [Htr [Hq Ho]]]]]].
  - exfalso. eapply quiet_no_fatal; eassumption.
  - rewrite Htr in Ht. exfalso.
    assert (Hin : In (EFatal v) (pre' ++ [EStop e'])) by (rewrite Ht; apply in_or_app; right; left; reflexivity).
    apply in_app_or in Hin. destruct Hin as [Hin|[Hin|[]]]; [|discriminate].
    unfold quiet in Hq. rewrite Forall_forall in Hq. exact (Hq _ Hin).
  - rewrite Htr in Ht.
    destruct (split_last_unique pre' pre (EFatal v') (EFatal v) post Ht) as [Hp He].
    + intros z Hz Heq. subst z. unfold quiet in Hq. rewrite Forall_forall in Hq. exact (Hq _ Hz).
    + inversion He. subst. auto.
Qed.

(* ------------------------------------------------------------------ *)
(* Callbacks: what reaches Run from the VM of a callback                *)

(* env.Stop / env.Fatal called by a native function end the machine at once
   with the error / the value, whatever the stack of suspended VMs *)
Lemma callback_stop_fatal_pass_through s f k :
  smode s = MExec -> sfn s = Some f -> fetch f (spc s) = Some (INat k) ->
  (forall e, k = NStop e -> exists tr, step s = Fin (OStop e) (EStop e :: tr) /\ tr = str s) /\
  (forall v, k = NFatal v -> exists tr, step s = Fin (ORunPanics v) (EFatal v :: tr) /\ tr = str s).
Proof.
  intros Hm Hf Hfe. unfold step. rewrite Hm. unfold step_exec. rewrite Hf, Hfe.
  split; intros x ->; eexists; split; reflexivity.
Qed.

(* the end of the VM of a callback with a pending panic: the calling VM, when
   it has call frames, panics at its call instruction with the panics of the
   callback before its own; without call frames it ends in the same way *)
Lemma callback_panic_propagates s p c sv rest fr frs :
  souter s = sv :: rest -> schain s = p :: c -> vcalls sv = fr :: frs ->
  finish s = Next (mkstate (MNext (length (vcalls sv ++ [mkframe (CFn (vfn sv)) 0 Panicked]))) None (vpc sv)
                           (vcalls sv ++ [mkframe (CFn (vfn sv)) 0 Panicked])
                           ((p :: c) ++ vchain sv) (str s) (sraised s) rest).
Proof.
  intros Ho Hc Hv. unfold finish, end_panic. rewrite Hc, Ho. simpl. rewrite Hv. reflexivity.
Qed.

Lemma callback_panic_propagates_through s p c sv rest :
  souter s = sv :: rest -> schain s = p :: c -> vcalls sv = [] ->
  finish s = end_panic_out rest ((p :: c) ++ vchain sv) (str s) (sraised s).
Proof.
  intros Ho Hc Hv. unfold finish, end_panic. rewrite Hc, Ho. simpl. rewrite Hv. reflexivity.
Qed.

(* the end of the VM of a callback without a panic: the caller goes on after its native call *)
Lemma callback_returns_to_caller s sv rest :
  souter s = sv :: rest -> schain s = [] ->
  finish s = Next (mkstate MExec (Some (vfn sv)) (vpc sv) (vcalls sv) (vchain sv) (str s) (sraised s) rest).
Proof. intros Ho Hc. unfold finish. rewrite Hc, Ho. reflexivity. Qed.

(* ------------------------------------------------------------------ *)
(* The panic chain: order of the next links, the recovered flag        *)

Open Scope N_scope.

(* strictly decreasing, head below the bound *)
Fixpoint desc (l : list N) (bound : N) : Prop :=
  match l with
  | [] => True
  | x :: r => x < bound /\ desc r x
  end.

Lemma desc_weaken l : forall b b', desc l b -> b <= b' -> desc l b'.
Proof. destruct l; simpl; intros b b' H Hb; [exact I|]. destruct H. split; [lia|assumption]. Qed.

Lemma desc_skipn n : forall l b, desc l b -> desc (skipn n l) b.
Proof.
  induction n; intros l b H; [exact H|]. destruct l as [|x r]; [exact I|]. simpl in *.
  destruct H as [Hx Hr]. apply IHn. eapply desc_weaken; [exact Hr|lia].
Qed.

Lemma map_skipn' {A B} (g : A -> B) n : forall l, map g (skipn n l) = skipn n (map g l).
Proof. induction n; intros l; [reflexivity|]. destruct l; [reflexivity|]. simpl. apply IHn. Qed.

Lemma Forall_desc_weaken (l : list saved) b b' :
  Forall (fun sv => desc (map pser (vchain sv)) b) l -> b <= b' ->
  Forall (fun sv => desc (map pser (vchain sv)) b') l.
Proof.
  intros H Hb. induction H; constructor; [|assumption]. eapply desc_weaken; eassumption.
Qed.

(* every PanicError the machine holds: the chain of the running VM and the
   chains of the VMs suspended in a callback (the panics of a callback are
   newer than those of its callers) *)
Definition all_chains (s : state) : list prec := schain s ++ flat_map vchain (souter s).

(* serial numbers decrease along the whole list and are below the counter *)
Definition chain_ok (s : state) : Prop := desc (map pser (all_chains s)) (sraised s).

(* a record without its aborted flag *)
Definition pkey (p : prec) : N * bool * option N * N := (pmsg p, precovered p, ppos p, pser p).

Lemma pkey_ser l l' : map pkey l = map pkey l' -> map pser l = map pser l'.
Proof.
  intros H. assert (E : forall x, map pser x = map (fun k => snd k) (map pkey x)).
  { intros x. rewrite map_map. reflexivity. }
  rewrite (E l), (E l'), H. reflexivity.
Qed.

Lemma drop_ab_skipn c : exists n, drop_ab c = skipn n c.
Proof.
  induction c as [|p r [n IH]]; [exists 0%nat; reflexivity|]. simpl.
  destruct (paborted p); [exists (S n); exact IH|exists 0%nat; reflexivity].
Qed.

Lemma mark_next_key post : forall done rest, mark_next post = Some (done, rest) ->
  map pkey (done ++ rest) = map pkey post.
Proof.
  induction post as [|q r IH]; intros done rest H; simpl in H; [discriminate|].
  destruct (paborted q).
  - destruct (mark_next r) as [[d' r']|]; [|discriminate]. inversion H; subst.
    simpl. f_equal. apply IH. reflexivity.
  - inversion H; subst. reflexivity.
Qed.

Lemma scan_panicked_key c : forall i pre post r ch,
  scan_panicked c i pre post = Some (r, ch) -> map pkey ch = map pkey (pre ++ post).
Proof.
  induction i as [|j IH]; intros pre post r ch H; simpl in H.
  - inversion H; subst. reflexivity.
  - destruct (nth_error c j) as [fr|]; [|discriminate].
    assert (Hm : match mark_next post with
                 | Some (done, rest) => scan_panicked c j (pre ++ done) rest
                 | None => None
                 end = Some (r, ch) -> map pkey ch = map pkey (pre ++ post)).
    { destruct (mark_next post) as [[done rest]|] eqn:Hmk; [|discriminate]. intros H1.
      rewrite (IH _ _ _ _ H1), <- app_assoc, !map_app. f_equal.
      rewrite <- map_app. apply mark_next_key. exact Hmk. }
    destruct (fstat fr); try (apply (IH _ _ _ _ H)); try (apply Hm; exact H).
    inversion H; subst. reflexivity.
Qed.

Lemma chain_split_app c : fst (chain_split c) ++ snd (chain_split c) = c.
Proof. destruct c; reflexivity. Qed.

(* c1 is c without some of its first records, up to the aborted flags *)
Definition derived (c c1 : list prec) : Prop := exists n, map pkey c1 = map pkey (skipn n c).

Lemma derived_refl c : derived c c.
Proof. exists 0%nat. reflexivity. Qed.

Lemma derived_key c c1 : map pkey c1 = map pkey c -> derived c c1.
Proof. intros H. exists 0%nat. exact H. Qed.

Lemma derived_trim p0 r0 : derived (p0 :: r0) (drop_ab r0).
Proof. destruct (drop_ab_skipn r0) as [n Hn]. exists (S n). simpl. rewrite Hn. reflexivity. Qed.

(* at most one new record, with the next serial number *)
Definition pushed (s : state) (newp : list prec) (r' : N) : Prop :=
  (newp = [] /\ r' = sraised s) \/
  (exists p, newp = [p] /\ pser p = sraised s /\ precovered p = false /\ r' = N.succ (sraised s)).

(* how one step changes the chains *)
Inductive ch_step (s : state) : sres -> Prop :=
| CS_gen s' newp c1 popped :
    (* records leave the head of the chain or change their aborted flag, at
       most one is added; the chains of the suspended VMs that end are appended *)
    souter s = popped ++ souter s' ->
    schain s' = newp ++ c1 ++ flat_map vchain popped ->
    derived (schain s) c1 -> pushed s newp (sraised s') -> ch_step s (Next s')
| CS_flag s' p ps f down i1 i :
    schain s = p :: ps -> schain s' = mkprec (pmsg p) true (paborted p) (ppos p) (pser p) :: ps ->
    sraised s' = sraised s -> souter s' = souter s ->
    smode s = MExec -> sfn s = Some f -> fetch f (spc s) = Some (IRecover down) ->
    recover_start (scalls s) down = Some i1 -> recover_search (scalls s) i1 = Some i ->
    scalls s' = mark_recovered (scalls s) i ->
    ch_step s (Next s')
| CS_enter s' sv :
    (* a native function calls back: a new VM with an empty chain, the chain of the caller is kept *)
    schain s' = [] -> sraised s' = sraised s -> vchain sv = schain s -> souter s' = sv :: souter s ->
    ch_step s (Next s')
| CS_fin o tr :
    (forall c, o = OPanic c ->
       exists newp c1 r', c = chain_view (newp ++ c1 ++ flat_map vchain (souter s)) /\
                          derived (schain s) c1 /\ pushed s newp r') ->
    ch_step s (Fin o tr).

Lemma cs_same_gen s s' :
  schain s' = schain s -> sraised s' = sraised s -> souter s' = souter s -> ch_step s (Next s').
Proof.
  intros Hc Hr Ho. apply CS_gen with (newp := []) (c1 := schain s) (popped := []).
  - rewrite Ho. reflexivity.
  - rewrite Hc. simpl. rewrite app_nil_r. reflexivity.
  - apply derived_refl.
  - left. auto.
Qed.

Ltac cs_same := apply cs_same_gen; reflexivity.
Ltac cs_fin := apply CS_fin; intros ? ?; discriminate.

(* the end of runFunc with a pending chain: in the main VM Run returns it, in
   the VM of a callback the calling VMs take it over *)
Lemma end_panic_out_ch s0 newp c1 r' tr :
  derived (schain s0) c1 -> pushed s0 newp r' ->
  forall outer popped, souter s0 = popped ++ outer ->
  ch_step s0 (end_panic_out outer (newp ++ c1 ++ flat_map vchain popped) tr r').
Proof.
  intros Hd Hp. induction outer as [|sv rest IH]; intros popped Ho; simpl.
  - apply CS_fin. intros c' Hc. inversion Hc. exists newp, c1, r'.
    rewrite Ho, app_nil_r. auto.
  - assert (Hch : (newp ++ c1 ++ flat_map vchain popped) ++ vchain sv
                  = newp ++ c1 ++ flat_map vchain (popped ++ [sv])).
    { rewrite flat_map_app. simpl. rewrite app_nil_r. repeat rewrite <- app_assoc. reflexivity. }
    destruct (vcalls sv).
    + rewrite Hch. apply IH. rewrite Ho, <- app_assoc. reflexivity.
    + eapply CS_gen with (popped := popped ++ [sv]); [| |exact Hd|exact Hp].
      * simpl. rewrite Ho, <- app_assoc. reflexivity.
      * simpl. exact Hch.
Qed.

Lemma end_panic_ch s0 s newp c1 :
  souter s = souter s0 -> sraised s = sraised s0 -> derived (schain s0) c1 -> pushed s0 newp (sraised s0) ->
  ch_step s0 (end_panic s (newp ++ c1)).
Proof.
  intros Ho Hr Hd Hp. unfold end_panic. rewrite Ho, Hr.
  replace (newp ++ c1) with (newp ++ c1 ++ flat_map vchain []) by (simpl; rewrite app_nil_r; reflexivity).
  apply end_panic_out_ch; [exact Hd|exact Hp|reflexivity].
Qed.

Lemma finish_ch' s0 s :
  schain s = schain s0 -> sraised s = sraised s0 -> souter s = souter s0 -> ch_step s0 (finish s).
Proof.
  intros Hc Hr Ho. unfold finish. destruct (schain s) as [|p c] eqn:Hcs.
  - destruct (souter s) as [|sv rest] eqn:Hos; [cs_fin|].
    apply CS_gen with (newp := []) (c1 := []) (popped := [sv]).
    + rewrite <- Ho. reflexivity.
    + simpl. rewrite app_nil_r. reflexivity.
    + exists 0%nat. rewrite <- Hc. reflexivity.
    + left. auto.
  - change (p :: c) with ([] ++ (p :: c)). apply end_panic_ch.
    + exact Ho.
    + exact Hr.
    + rewrite <- Hc. apply derived_refl.
    + left. auto.
Qed.

Lemma finish_ch s : ch_step s (finish s).
Proof. apply finish_ch'; reflexivity. Qed.

Lemma raise_with_ch s0 s owner line v :
  derived (schain s0) (schain s) -> sraised s = sraised s0 -> souter s = souter s0 ->
  ch_step s0 (raise_with s owner line v).
Proof.
  intros Hd Hr Ho. unfold raise_with.
  assert (Hp : pushed s0 [mkprec v false false line (sraised s)] (N.succ (sraised s0))).
  { right. eexists. split; [reflexivity|]. simpl. rewrite Hr. auto. }
  destruct (scalls s).
  - rewrite Ho, Hr.
    replace (mkprec v false false line (sraised s0) :: schain s)
      with ([mkprec v false false line (sraised s0)] ++ schain s ++ flat_map vchain [])
      by (simpl; rewrite app_nil_r; reflexivity).
    apply end_panic_out_ch; [exact Hd| |reflexivity].
    right. eexists. split; [reflexivity|]. simpl. auto.
  - eapply CS_gen with (popped := []) (newp := [mkprec v false false line (sraised s)]) (c1 := schain s);
      [rewrite <- Ho; reflexivity| |exact Hd|].
    + simpl. rewrite app_nil_r. reflexivity.
    + cbn [sraised]. replace (N.succ (sraised s)) with (N.succ (sraised s0)) by (rewrite Hr; reflexivity). exact Hp.
Qed.

(* the part of nextCall after its switch, when the chain has been trimmed or marked before *)
Lemma after_switch_ch s0 s call i :
  derived (schain s0) (schain s) -> sraised s = sraised s0 -> souter s = souter s0 ->
  ch_step s0 (after_switch s call i).
Proof.
  intros Hd Hr Ho.
  assert (Hn : forall s', schain s' = schain s -> sraised s' = sraised s -> souter s' = souter s ->
                          ch_step s0 (Next s')).
  { intros s' Hc' Hr' Ho'. apply CS_gen with (newp := []) (c1 := schain s) (popped := []).
    - rewrite Ho', Ho. reflexivity.
    - rewrite Hc'. simpl. rewrite app_nil_r. reflexivity.
    - exact Hd.
    - left. split; [reflexivity|congruence]. }
  unfold after_switch. destruct (fcl call) as [f|nk|]; [apply Hn; reflexivity| |cs_fin].
  destruct nk; simpl; try cs_fin.
  - apply Hn; reflexivity.
  - apply raise_with_ch; assumption.
Qed.

Lemma step_next_ch s i : ch_step s (step_next s i).
Proof.
  unfold step_next.
  destruct (nth_error (scalls s) i) as [call|]; [|cs_fin].
  destruct (fstat call) eqn:Hst.
  - apply after_switch_ch; [apply derived_refl|reflexivity|reflexivity].
  - cs_same.
  - cbv zeta. change (status_eqb Returned Recovered) with false. cbv iota.
    destruct (prev_deferred (scalls s) i) as [[j prev]|].
    + apply after_switch_ch; [apply derived_refl|reflexivity|reflexivity].
    + simpl. cs_same.
  - destruct (sfn s); [|cs_fin]. apply after_switch_ch; [apply derived_refl|reflexivity|reflexivity].
  - destruct (scan_panicked (scalls s) i _ _) as [[[[j d]|] chain']|] eqn:Hsc; [| |cs_fin].
    + apply scan_panicked_key in Hsc. rewrite chain_split_app in Hsc.
      destruct (nth_error (scalls s) (S j)); [|cs_fin].
      apply after_switch_ch; [apply derived_key; exact Hsc|reflexivity|reflexivity].
    + apply scan_panicked_key in Hsc. rewrite chain_split_app in Hsc.
      apply CS_gen with (newp := []) (c1 := chain') (popped := []); [reflexivity| |apply derived_key; exact Hsc|left; auto].
      simpl. rewrite app_nil_r. reflexivity.
  - cbv zeta. change (status_eqb Recovered Recovered) with true. cbv iota.
    unfold trim. destruct (schain s) as [|p0 r0] eqn:Hch; [cs_fin|].
    match goal with |- context [prev_deferred ?c i] => destruct (prev_deferred c i) as [[j prev]|] end.
    + apply after_switch_ch; [simpl; rewrite Hch; apply derived_trim|reflexivity|reflexivity].
    + apply CS_gen with (newp := []) (c1 := drop_ab r0) (popped := []); [reflexivity| |rewrite Hch; apply derived_trim|left; auto].
      simpl. rewrite app_nil_r. reflexivity.
Qed.

Lemma raise_ch s0 s f pc v :
  schain s = schain s0 -> sraised s = sraised s0 -> souter s = souter s0 -> ch_step s0 (raise s f pc v).
Proof.
  intros Hc Hr Ho. unfold raise. apply raise_with_ch; [rewrite Hc; apply derived_refl|exact Hr|exact Ho].
Qed.

Lemma step_exec_ch s : smode s = MExec -> ch_step s (step_exec s).
Proof.
  intros Hmode. unfold step_exec.
  destruct (sfn s) as [f|] eqn:Hf; [|cs_fin].
  destruct (fetch f (spc s)) as [ins|] eqn:Hfe; [|cs_fin].
  destruct ins as [k|b inf|b inf|k|v|down| |b inf].
  - destruct k; try cs_fin; try cs_same. apply raise_ch; reflexivity.
  - cs_same.
  - cs_same.
  - cs_same.
  - apply raise_ch; reflexivity.
  - unfold do_recover. cbn [scalls set_pc].
    destruct (recover_start (scalls s) down) as [i1|] eqn:Hs1; [|cs_fin].
    destruct (recover_search (scalls s) i1) as [i|] eqn:Hs2.
    + cbn [schain set_pc]. destruct (schain s) as [|p ps] eqn:Hc; [cs_fin|].
      eapply CS_flag; try eassumption; try reflexivity.
      * unfold emit_rec. destruct down; reflexivity.
      * unfold emit_rec. destruct down; reflexivity.
      * unfold emit_rec. destruct down; reflexivity.
      * unfold emit_rec. destruct down; reflexivity.
    + unfold emit_rec. destruct down; cs_same.
  - simpl. destruct (length (scalls s)) as [|i].
    + apply finish_ch'; reflexivity.
    + destruct (nth_error (scalls s) i) as [call|]; [|cs_fin].
      destruct (status_eqb (fstat call) Started); [|cs_same].
      destruct (fcl call); cs_same.
  - eapply CS_enter with (sv := mksaved f (S (spc s)) (scalls s) (schain s)); reflexivity.
Qed.

Lemma step_ch s : ch_step s (step s).
Proof.
  unfold step. destruct (smode s) as [|[|i]] eqn:Hmode.
  - apply step_exec_ch. exact Hmode.
  - apply finish_ch.
  - apply step_next_ch.
Qed.

Lemma desc_app_skipn n : forall l rest b, desc (l ++ rest) b -> desc (skipn n l ++ rest) b.
Proof.
  induction n; intros l rest b H; [exact H|]. destruct l as [|x r]; [exact H|]. simpl in *.
  destruct H as [Hx Hr]. apply IHn. eapply desc_weaken; [exact Hr|lia].
Qed.

(* the chains after a step of the general kind are ordered *)
Lemma gen_desc s newp c1 r' :
  chain_ok s -> derived (schain s) c1 -> pushed s newp r' ->
  desc (map pser (newp ++ c1 ++ flat_map vchain (souter s))) r'.
Proof.
  unfold chain_ok, all_chains. intros Hok [n Hd] Hp.
  assert (H1 : desc (map pser (c1 ++ flat_map vchain (souter s))) (sraised s)).
  { rewrite map_app, (pkey_ser _ _ Hd), <- map_app. rewrite map_app, map_skipn'.
    apply desc_app_skipn. rewrite <- map_app. exact Hok. }
  destruct Hp as [[-> ->]|[p [-> [Hs [_ ->]]]]]; [exact H1|].
  simpl. rewrite Hs. split; [lia|exact H1].
Qed.

Lemma step_chain_ok s s' : step s = Next s' -> chain_ok s -> chain_ok s'.
Proof.
  intros Hs Hok. assert (H := step_ch s). rewrite Hs in H.
  inversion H as [s1 newp c1 popped Ho Hc Hd Hp | s1 p ps f down i1 i Hc0 Hc Hr Ho Hm Hf Hfe Hs1 Hs2 Hcalls
                 | s1 sv Hc Hr Hv Ho | o tr Hfin]; subst.
  - assert (G := gen_desc s newp c1 (sraised s') Hok Hd Hp).
    unfold chain_ok, all_chains. rewrite Hc. rewrite Ho, flat_map_app in G.
    repeat rewrite <- app_assoc. exact G.
  - unfold chain_ok, all_chains in *. rewrite Hc, Hr, Ho. rewrite Hc0 in Hok. exact Hok.
  - unfold chain_ok, all_chains in *. rewrite Hc, Hr, Ho. simpl. rewrite Hv. exact Hok.
Qed.

Inductive reach : state -> state -> Prop :=
| reach_refl s : reach s s
| reach_step s s1 s2 : step s = Next s1 -> reach s1 s2 -> reach s s2.

Lemma reach_chain_ok s s' : reach s s' -> chain_ok s -> chain_ok s'.
Proof. induction 1; intros Hok; [exact Hok|]. apply IHreach. eapply step_chain_ok; eassumption. Qed.

Lemma init_chain_ok f : chain_ok (init f).
Proof. exact I. Qed.

(* the chain Run returns is the view of a chain whose serial numbers of
   raising strictly decrease along the next links *)
Theorem chain_order n f c tr :
  vm_run n f = Some (OPanic c, tr) ->
  exists chain bound, c = chain_view chain /\ desc (map pser chain) bound.
Proof.
  unfold vm_run. assert (Hok := init_chain_ok f). revert Hok. generalize (init f).
  induction n; intros s Hok Hr; simpl in Hr; [discriminate|].
  destruct (step s) as [s'|o tr'] eqn:Hs.
  - eapply IHn; [|exact Hr]. eapply step_chain_ok; eassumption.
  - inversion Hr; subst. assert (H := step_ch s). rewrite Hs in H. inversion H; subst.
    destruct (H1 c eq_refl) as [newp [c1 [r' [-> [Hd Hp]]]]].
    eexists _, r'. split; [reflexivity|]. eapply gen_desc; eassumption.
Qed.

Close Scope N_scope.

(* OpRecover stops at the nearest frame that is not a deferred one, and
   recovers only if that frame is panicked *)
Lemma recover_search_nearest c : forall i1 i,
  recover_search c i1 = Some i ->
  i < i1 /\
  (exists fr, nth_error c i = Some fr /\ fstat fr = Panicked) /\
  (forall j, i < j < i1 -> exists fr, nth_error c j = Some fr /\ fstat fr = Deferred).
Proof.
  induction i1 as [|k IH]; intros i H; simpl in H; [discriminate|].
  destruct (nth_error c k) as [fr|] eqn:Hk; [|discriminate].
  destruct (fstat fr) eqn:Hst; try discriminate.
  - destruct (IH i H) as [Hlt [Hp Hd]]. split; [lia|]. split; [exact Hp|].
    intros j Hj. destruct (Nat.eq_dec j k) as [->|Hne].
    + exists fr. auto.
    + apply Hd. lia.
  - inversion H; subst. split; [lia|]. split; [exists fr; auto|]. intros j Hj. lia.
Qed.

Lemma in_skipn {A} (x : A) n : forall l, In x (skipn n l) -> In x l.
Proof. induction n; intros l H; [exact H|]. destruct l; [exact H|]. right. apply IHn. exact H. Qed.

(* a recovered flag that appears in a step was set by OpRecover on the head
   of the chain, and the nearest non-deferred frame was a panicked one *)
Theorem recovered_only_by_recover s s' p' :
  step s = Next s' -> In p' (all_chains s') -> precovered p' = true ->
  (exists p, In p (all_chains s) /\ pser p = pser p' /\ precovered p = true) \/
  (exists f down i1 i ps,
     smode s = MExec /\ sfn s = Some f /\ fetch f (spc s) = Some (IRecover down) /\
     schain s' = p' :: ps /\
     recover_start (scalls s) down = Some i1 /\ recover_search (scalls s) i1 = Some i /\
     scalls s' = mark_recovered (scalls s) i).
Proof.
  intros Hs Hin Hrec. assert (H := step_ch s). rewrite Hs in H. unfold all_chains in *.
  assert (Hold : In p' (schain s ++ flat_map vchain (souter s)) ->
                 exists p, In p (schain s ++ flat_map vchain (souter s)) /\ pser p = pser p' /\ precovered p = true)
    by (intros Hi; exists p'; auto).
  inversion H as [s1 newp c1 popped Ho Hc [n Hd] Hp | s1 p ps f down i1 i Hc0 Hc Hr Ho Hm Hf Hfe Hs1 Hs2 Hcalls
                 | s1 sv Hc Hr Hv Ho | o tr Hfin]; subst.
  - left. rewrite Hc in Hin. rewrite Ho, flat_map_app.
    repeat rewrite <- app_assoc in Hin.
    apply in_app_or in Hin. destruct Hin as [Hin|Hin].
    + exfalso. destruct Hp as [[-> _]|[p [-> [_ [Hf _]]]]]; [contradiction|].
      destruct Hin as [<-|[]]. rewrite Hf in Hrec. discriminate.
    + apply in_app_or in Hin. destruct Hin as [Hin|Hin].
      * assert (Hk : In (pkey p') (map pkey (skipn n (schain s)))) by (rewrite <- Hd; apply in_map; exact Hin).
        apply in_map_iff in Hk. destruct Hk as [p [Hpk Hpin]]. exists p.
        split; [apply in_or_app; left; eapply in_skipn; exact Hpin|].
        unfold pkey in Hpk. inversion Hpk. split; [reflexivity|]. congruence.
      * exists p'. split; [apply in_or_app; right; exact Hin|auto].
  - rewrite Hc, Ho in Hin. destruct Hin as [<-|Hin].
    + right. exists f, down, i1, i, ps. repeat split; assumption.
    + left. apply Hold. rewrite Hc0. right. exact Hin.
  - left. apply Hold. rewrite Hc, Ho in Hin. simpl in Hin. rewrite Hv in Hin. exact Hin.
Qed.

(* ------------------------------------------------------------------ *)
(* Message and position of a new PanicError                             *)

Definition debug_line (f : func) (pc : nat) : option N :=
  match info_get (finfo f) pc with
  | Some l => Some l
  | None => info_get (finfo f) (S pc)
  end.

Definition panics_with (i : instr) (v : N) : Prop := i = IPanic v \/ i = INat (NPanic v).

(* the PanicError made for a panicking instruction carries the value, is not
   recovered, and has the debug line of that instruction (when the
   instruction has no debug information, the one of the following
   instruction: the case of a failed type assertion) *)
(* the new record is the head of the chain, before the records the VM had
   and, when the panic leaves the VM of a callback that has no call frame,
   those of the calling VMs (rest) *)
Lemma end_panic_out_head outer : forall c tr r,
  (exists s' rest, end_panic_out outer c tr r = Next s' /\ schain s' = c ++ rest) \/
  (exists rest, end_panic_out outer c tr r = Fin (OPanic (chain_view (c ++ rest))) tr).
Proof.
  induction outer as [|sv rest IH]; intros c tr r; simpl.
  - right. exists []. rewrite app_nil_r. reflexivity.
  - destruct (vcalls sv).
    + destruct (IH (c ++ vchain sv) tr r) as [[s' [x [H1 H2]]]|[x H1]].
      * left. exists s', (vchain sv ++ x). split; [exact H1|]. rewrite H2, <- app_assoc. reflexivity.
      * right. exists (vchain sv ++ x). rewrite H1, <- app_assoc. reflexivity.
    + left. eexists _, (vchain sv). split; reflexivity.
Qed.

Theorem panic_position s f ins v :
  smode s = MExec -> sfn s = Some f -> fetch f (spc s) = Some ins -> panics_with ins v ->
  (exists s' rest, step s = Next s' /\
     schain s' = mkprec v false false (debug_line f (spc s)) (sraised s) :: schain s ++ rest) \/
  (exists tr rest, step s = Fin (OPanic ((v, false, debug_line f (spc s)) :: chain_view (schain s ++ rest))) tr).
Proof.
  intros Hm Hf Hfe Hp. unfold step. rewrite Hm. unfold step_exec. rewrite Hf, Hfe.
  assert (Hr : forall s1, scalls s1 = scalls s -> schain s1 = schain s -> sraised s1 = sraised s -> souter s1 = souter s ->
     (exists s' rest, raise s1 f (spc s) v = Next s' /\
        schain s' = mkprec v false false (debug_line f (spc s)) (sraised s) :: schain s ++ rest) \/
     (exists tr rest, raise s1 f (spc s) v = Fin (OPanic ((v, false, debug_line f (spc s)) :: chain_view (schain s ++ rest))) tr)).
  { intros s1 Hc Hch Hra Hou. unfold raise, raise_with. rewrite Hc, Hch, Hra, Hou. destruct (scalls s).
    - destruct (end_panic_out_head (souter s) (mkprec v false false (debug_line f (spc s)) (sraised s) :: schain s)
                  (str s1) (N.succ (sraised s))) as [[s' [x [H1 H2]]]|[x H1]].
      + left. exists s', x. split; [exact H1|exact H2].
      + right. exists (str s1), x. exact H1.
    - left. eexists _, []. split; [reflexivity|]. simpl. rewrite app_nil_r. reflexivity. }
  destruct Hp as [->| ->]; apply Hr; reflexivity.
Qed.

Corollary panic_position_info s f ins v l :
  smode s = MExec -> sfn s = Some f -> fetch f (spc s) = Some ins -> panics_with ins v ->
  info_get (finfo f) (spc s) = Some l -> debug_line f (spc s) = Some l.
Proof. intros _ _ _ _ H. unfold debug_line. rewrite H. reflexivity. Qed.
