(* C28 for the generated tables: the generated-fact obligations (closed by
   computation on the tables that gofacts extracted from clone.go, walk.go
   and ast.go) and the theorems instantiated with them. *)
From Coq Require Import List NArith Bool String Lia.
From Verif Require Import Bytes AstSchema Facts_Ast AstTreeM AstTreeSpec AstTreeInst
                          AstTree_base AstTree_clone AstTree_walk.
Import ListNotations.
Open Scope N_scope.

(* ---- generated-fact obligations ---- *)

(* every name used in the hand-written lists exists in the generated schema *)
Lemma names_resolved_true : names_resolved = true.
Proof. vm_compute. reflexivity. Qed.

(* per kind: the case of CloneNode / CloneExpression builds the same kind,
   fills every child field of the schema with the clone of the same field
   (nil tolerated unless the field is required), copies every scalar; and
   every record built inline does the same *)
Lemma ast_clone_good_true : ast_clone_good = true.
Proof. vm_compute. reflexivity. Qed.

(* per kind: the case of Walk walks every child field of the schema that can
   hold nodes, in order, except the listed ones *)
Lemma ast_walk_good_true : ast_walk_good = true.
Proof. vm_compute. reflexivity. Qed.

(* the exception lists are not stale: dropping any entry breaks the check *)
Fixpoint drop_nth {A : Type} (n : nat) (l : list A) : list A :=
  match l, n with
  | [], _ => []
  | _ :: r, O => r
  | a :: r, S m => a :: drop_nth m r
  end.

Definition walk_good_with (skip transparent : list (N * N)) : bool :=
  walk_table_good ast_schema ast_required ast_walk_table skip transparent ast_wneeded.
Definition clone_good_with (exc : list N) : bool :=
  clone_table_good ast_schema ast_required ast_consts ast_edge_scal ast_clone_table exc
    (cneeded ast_schema ast_clone_table exc).

Lemma walk_skip_entries_needed :
  forallb (fun n => negb (walk_good_with (drop_nth n ast_walk_skip) ast_walk_transparent))
          (seq 0 (length ast_walk_skip)) = true.
Proof. vm_compute. reflexivity. Qed.

Lemma walk_transparent_entries_needed :
  forallb (fun n => negb (walk_good_with ast_walk_skip (drop_nth n ast_walk_transparent)))
          (seq 0 (length ast_walk_transparent)) = true.
Proof. vm_compute. reflexivity. Qed.

Lemma clone_exceptions_needed :
  forallb (fun n => negb (clone_good_with (drop_nth n ast_clone_exceptions)))
          (seq 0 (length ast_clone_exceptions)) = true.
Proof. vm_compute. reflexivity. Qed.

(* ---- the theorems over the generated tables ---- *)

Theorem ast_clone_equal_disjoint : forall t,
  ast_hyp t = true -> ast_no_clone_exception t = true -> is_node ast_schema (t_kind t) = true ->
  exists nx' t', ast_clone 0 t = Ok (nx', t') /\
    erase t' = erase t /\ NoDup (ids t') /\ (forall x, In x (ids t') -> ~ In x (ids t)).
Proof.
  intros t h1 h2 h3.
  exact (clone_equal_disjoint ast_schema ast_required ast_consts ast_edge_scal ast_clone_table
           ast_clone_exceptions ast_cneeded ast_clone_good_true t h1 h2 h3).
Qed.

Theorem ast_walk_exact : forall prune t,
  ast_hyp t = true -> is_node ast_schema (t_kind t) = true ->
  ast_walk prune t = Ok (ast_events prune t).
Proof.
  intros prune t h1 h2.
  exact (walk_exact ast_schema ast_required ast_consts ast_edge_scal ast_walk_table (fun k => mem prune k)
           ast_walk_skip ast_walk_transparent ast_wneeded ast_walk_good_true t h1 h2).
Qed.

Definition ast_no_dev (t : tree) : bool := no_dev ast_walk_skip ast_walk_transparent t.

(* walk_once: where no listed deviation is populated the visit list is the
   pre-order enumeration of all the nodes, without duplicates *)
Theorem ast_walk_once : forall t,
  ast_hyp t = true -> is_node ast_schema (t_kind t) = true -> ast_no_dev t = true ->
  exists evs, ast_walk [] t = Ok evs /\
    enters evs = node_ids ast_schema t /\
    (NoDup (ids t) -> NoDup (enters evs)).
Proof.
  intros t h1 h2 h3. exists (ast_events [] t). split; [apply ast_walk_exact; assumption|].
  assert (e : enters (ast_events [] t) = node_ids ast_schema t).
  { unfold ast_events, events.
    replace (fun k : N => mem [] k) with (fun _ : N => false).
    - apply enters_events. exact h3.
    - reflexivity. }
  split; [exact e|]. intros hn. rewrite e. unfold node_ids. apply nodup_map_filter. exact hn.
Qed.

(* ---- concrete trees: witnesses and examples ---- *)
Definition mk_pos (i : N) : tree :=
  T i (kid "Position") [(fid "Position" "Line", bs "1"); (fid "Position" "Column", bs "1");
                        (fid "Position" "Start", bs "0"); (fid "Position" "End", bs "0")] [].
Definition mk_exprrec (i : N) : tree :=
  T i (kid "expression") [(fid "expression" "parenthesis", bs "0")] [].
Definition mk_ident (i : N) (name : string) : tree :=
  T i (kid "Identifier")
    [(fid "Identifier" "expression.parenthesis", bs "0"); (fid "Identifier" "Name", bs name)]
    [(fid "Identifier" "Position", [mk_pos (i + 1)])].

(* f(x) *)
Definition tree_call_fx : tree :=
  T 1 (kid "Call") [(fid "Call" "IsVariadic", bs "false")]
    [(fid "Call" "expression", [mk_exprrec 2]); (fid "Call" "Position", [mk_pos 3]);
     (fid "Call" "Func", [mk_ident 4 "f"]); (fid "Call" "Args", [mk_ident 6 "x"])].

(* a = b *)
Definition tree_assign_ab : tree :=
  T 1 (kid "Assignment") [(fid "Assignment" "Type", bs "0")]
    [(fid "Assignment" "Position", [mk_pos 2]);
     (fid "Assignment" "Lhs", [mk_ident 3 "a"]); (fid "Assignment" "Rhs", [mk_ident 5 "b"])].

(* Walk never visits Call.Func: the callee f of f(x) is a node of the tree and is not visited *)
Lemma walk_call_func_refuted_w :
  ast_hyp tree_call_fx = true /\ is_node ast_schema (t_kind tree_call_fx) = true /\
  exists evs, ast_walk [] tree_call_fx = Ok evs /\
    In 4 (node_ids ast_schema tree_call_fx) /\ ~ In 4 (enters evs).
Proof.
  split; [vm_compute; reflexivity|]. split; [vm_compute; reflexivity|].
  eexists. split; [vm_compute; reflexivity|]. split.
  - vm_compute. tauto.
  - vm_compute. intuition discriminate.
Qed.

(* ---- the statements of C28 ---- *)
Definition clone_ok (t : tree) : Prop :=
  exists nx' t', ast_clone 0 t = Ok (nx', t') /\
    erase t' = erase t /\ NoDup (ids t') /\ (forall x, In x (ids t') -> ~ In x (ids t)).

Definition walk_ok (t : tree) : Prop :=
  exists evs, ast_walk [] t = Ok evs /\
    enters evs = node_ids ast_schema t /\ (NoDup (ids t) -> NoDup (enters evs)).

Lemma C28_partial_lemma : forall t,
  ast_hyp t = true -> is_node ast_schema (t_kind t) = true ->
  (ast_no_clone_exception t = true -> clone_ok t) /\
  (ast_no_dev t = true -> walk_ok t) /\
  (forall prune, ast_walk prune t = Ok (ast_events prune t)).
Proof.
  intros t h1 h2. split; [|split].
  - intros h3. apply ast_clone_equal_disjoint; assumption.
  - intros h3. apply ast_walk_once; assumption.
  - intros prune. apply ast_walk_exact; assumption.
Qed.

Lemma C28_refuted_lemma :
  exists t, ast_hyp t = true /\ is_node ast_schema (t_kind t) = true /\ ~ walk_ok t.
Proof.
  exists tree_call_fx. destruct walk_call_func_refuted_w as [h1 [h2 [evs [h3 [h4 h5]]]]].
  split; [exact h1|]. split; [exact h2|]. intros [evs' [e1 [e2 _]]].
  rewrite h3 in e1. inversion e1. subst evs'. rewrite e2 in h5. contradiction.
Qed.

Lemma example_assign_ab :
  ast_hyp tree_assign_ab = true /\ is_node ast_schema (t_kind tree_assign_ab) = true /\
  ast_no_clone_exception tree_assign_ab = true /\ ast_no_dev tree_assign_ab = true /\
  ast_clone 0 tree_assign_ab =
    Ok (13, T 7 (kid "Assignment") [(fid "Assignment" "Type", bs "0")]
              [(fid "Assignment" "Position", [mk_pos 8]);
               (fid "Assignment" "Lhs", [mk_ident 9 "a"]); (fid "Assignment" "Rhs", [mk_ident 11 "b"])]) /\
  ast_walk [] tree_assign_ab = Ok [Enter 1; Enter 3; Leave; Enter 5; Leave; Leave].
Proof. repeat split; vm_compute; reflexivity. Qed.
