(* The parsing functions of the scanner model: they never fault, never run out
   of fuel, return positions inside the line, and the destination they return
   has the shape the scanner's grammar gives it. *)
From Verif Require Import Bytes IndexM Facts_linkscan LinkDestM LinkScanM LinkScan_base.
From Coq Require Import Lia ZArith List.
Local Open Scope Z_scope.

(* ---------------- byte class facts (generated sets) ---------------- *)

Lemma punct_not_space c : is_punct c = true -> is_space c = false.
Proof.
  intros H. unfold is_space. change gen_ls_space with [9; 10; 13; 32]%N. unfold mem. cbn [existsb].
  destruct (N.eqb_spec c 9) as [->|_]; [discriminate H|].
  destruct (N.eqb_spec c 10) as [->|_]; [discriminate H|].
  destruct (N.eqb_spec c 13) as [->|_]; [discriminate H|].
  destruct (N.eqb_spec c 32) as [->|_]; [discriminate H|]. reflexivity.
Qed.

Lemma space_bs : is_space b_bs = false. Proof. reflexivity. Qed.
Lemma space_lp : is_space b_lp = false. Proof. reflexivity. Qed.
Lemma space_rp : is_space b_rp = false. Proof. reflexivity. Qed.
Lemma space_lt : is_space b_lt = false. Proof. reflexivity. Qed.

Lemma esc_b_spaces line i : esc_b line i = true -> is_space (bt line i) = false /\ is_space (bt line (i + 1)) = false.
Proof.
  unfold esc_b. intros H. apply andb_prop in H. destruct H as [H Hp]. apply andb_prop in H. destruct H as [Hb _].
  apply N.eqb_eq in Hb. split; [rewrite Hb; reflexivity|apply punct_not_space; exact Hp].
Qed.

(* ---------------- the shape of a destination ---------------- *)

(* scanning from q: blanks, then either a destination without blanks that ends
   at the end of the line, before a blank or before an unbalanced closing
   parenthesis, or `<` destination `>` *)
Definition dest_shape (line : bytes) (q s e : Z) : Prop :=
  exists p, q <= p /\ (forall k, q <= k < p -> is_space (bt line k) = true) /\ p < zlen line
    /\ is_space (bt line p) = false
    /\ ((bt line p <> b_lt /\ s = p /\ p < e <= zlen line
         /\ (forall k, s <= k < e -> is_space (bt line k) = false)
         /\ (e < zlen line -> is_space (bt line e) = true \/ bt line e = b_rp))
        \/ (bt line p = b_lt /\ s = p + 1 /\ s <= e < zlen line /\ bt line e = b_gt)).

Lemma dest_shape_weaken line q q' s e :
  q' <= q -> (forall k, q' <= k < q -> is_space (bt line k) = true) -> dest_shape line q s e -> dest_shape line q' s e.
Proof.
  intros Hq Hs (p & H1 & H2 & R). exists p. split; [lia|]. split; [|exact R].
  intros k Hk. destruct (Z.lt_ge_cases k q); [apply Hs; lia|apply H2; lia].
Qed.

(* ---------------- parseDestination ---------------- *)

Lemma angle_loop_ok line pos : forall fuel i, 0 <= i <= zlen line -> (Z.to_nat (zlen line - i) < fuel)%nat ->
  angle_loop fuel line i pos = LOk None
  \/ exists e, angle_loop fuel line i pos = LOk (Some (pos + 1, e, e + 1)) /\ i <= e < zlen line /\ bt line e = b_gt.
Proof.
  induction fuel as [|fuel IH]; intros i Hi Hf; [lia|]. cbn [angle_loop].
  destruct (Z.ltb_spec i (zlen line)) as [Hlt|Hge]; [|left; reflexivity].
  zg. rewrite esc_at_ok by lia. cbn [lbind].
  destruct (esc_b line i) eqn:Ee.
  - apply esc_b_next in Ee. destruct (IH (i + 2)) as [E|(e & E & He & Hb)]; [lia|lia|left; exact E|].
    right. exists e. split; [exact E|]. split; [lia|exact Hb].
  - destruct (N.eqb_spec (bt line i) b_gt) as [Hg|_].
    + right. exists i. split; [reflexivity|]. split; [lia|exact Hg].
    + destruct (IH (i + 1)) as [E|(e & E & He & Hb)]; [lia|lia|left; exact E|].
      right. exists e. split; [exact E|]. split; [lia|exact Hb].
Qed.

Lemma plain_loop_ok line : forall fuel i opened, 0 <= i <= zlen line -> (Z.to_nat (zlen line - i) < fuel)%nat ->
  exists j, plain_loop fuel line i opened = LOk j /\ i <= j <= zlen line
            /\ (forall k, i <= k < j -> is_space (bt line k) = false)
            /\ (j < zlen line -> is_space (bt line j) = true \/ bt line j = b_rp).
Proof.
  induction fuel as [|fuel IH]; intros i opened Hi Hf; [lia|]. cbn [plain_loop].
  destruct (Z.ltb_spec i (zlen line)) as [Hlt|Hge];
    [|exists i; split; [reflexivity|]; split; [lia|]; split; intros; lia].
  zg. rewrite esc_at_ok by lia. cbn [lbind].
  assert (Hstep : forall o, is_space (bt line i) = false ->
            exists j, plain_loop fuel line (i + 1) o = LOk j /\ i <= j <= zlen line
              /\ (forall k, i <= k < j -> is_space (bt line k) = false)
              /\ (j < zlen line -> is_space (bt line j) = true \/ bt line j = b_rp)).
  { intros o Hs. destruct (IH (i + 1) o) as (j & E & Hj & Hall & Hend); [lia|lia|].
    exists j. split; [exact E|]. split; [lia|]. split; [|exact Hend].
    intros k Hk. destruct (Z.eq_dec k i) as [->|]; [exact Hs|apply Hall; lia]. }
  destruct (esc_b line i) eqn:Ee.
  - pose proof (esc_b_next _ _ Ee) as Hn. destruct (esc_b_spaces _ _ Ee) as [S1 S2].
    destruct (IH (i + 2) opened) as (j & E & Hj & Hall & Hend); [lia|lia|].
    exists j. split; [exact E|]. split; [lia|]. split; [|exact Hend].
    intros k Hk. destruct (Z.eq_dec k i) as [->|]; [exact S1|].
    destruct (Z.eq_dec k (i + 1)) as [->|]; [exact S2|apply Hall; lia].
  - destruct (N.eqb_spec (bt line i) b_lp) as [Hl|_].
    + apply Hstep. rewrite Hl. reflexivity.
    + destruct (N.eqb_spec (bt line i) b_rp) as [Hr|_].
      * destruct (Z.ltb_spec (opened - 1) 0).
        -- exists i. split; [reflexivity|]. split; [lia|]. split; [intros; lia|]. intros _. right. exact Hr.
        -- apply Hstep. rewrite Hr. reflexivity.
      * destruct (is_space (bt line i)) eqn:Es.
        -- exists i. split; [reflexivity|]. split; [lia|]. split; [intros; lia|]. intros _. left. exact Es.
        -- apply Hstep. reflexivity.
Qed.

Lemma parseDestination_ok line pos0 : 0 <= pos0 <= zlen line ->
  parseDestination line pos0 = LOk None
  \/ exists s e a, parseDestination line pos0 = LOk (Some (s, e, a))
       /\ pos0 <= s /\ s <= e /\ e <= a <= zlen line /\ dest_shape line pos0 s e
       /\ (a = e \/ a = e + 1) /\ (a = e -> s < e).
Proof.
  intros H. unfold parseDestination.
  destruct (skipSpaces_ok line pos0 H) as (pos & E & Hp & Hsp & Hns). rewrite E. cbn [lbind].
  destruct (Z.leb_spec (zlen line) pos) as [|Hlt]; [left; reflexivity|]. zg.
  specialize (Hns Hlt).
  destruct (N.eqb_spec (bt line pos) b_lt) as [Hb|Hb].
  - destruct (angle_loop_ok line pos (S (length line)) (pos + 1) ltac:(lia) (fuel_ok line (pos + 1) ltac:(lia)))
      as [E2|(e & E2 & He & Hg)]; [left; exact E2|].
    right. exists (pos + 1), e, (e + 1). split; [exact E2|]. split; [lia|]. split; [lia|]. split; [lia|].
    split; [|split; [right; reflexivity|intros; lia]].
    exists pos. split; [lia|]. split; [exact Hsp|]. split; [lia|]. split; [exact Hns|].
    right. split; [exact Hb|]. split; [reflexivity|]. split; [lia|exact Hg].
  - destruct (plain_loop_ok line (S (length line)) pos 0 ltac:(lia) (fuel_ok line pos ltac:(lia)))
      as (j & E2 & Hj & Hall & Hend). rewrite E2. cbn [lbind].
    destruct (Z.eqb_spec j pos) as [|Hne]; [left; reflexivity|].
    right. exists pos, j, j. split; [reflexivity|]. split; [lia|]. split; [lia|]. split; [lia|].
    split; [|split; [left; reflexivity|intros; lia]].
    exists pos. split; [lia|]. split; [exact Hsp|]. split; [lia|]. split; [exact Hns|].
    left. split; [exact Hb|]. split; [reflexivity|]. split; [lia|]. split; [exact Hall|exact Hend].
Qed.

(* ---------------- parseTitleAndClose ---------------- *)

Lemma parseTitleAndClose_ok line pos0 : 0 <= pos0 <= zlen line ->
  parseTitleAndClose line pos0 = LOk None
  \/ exists en, parseTitleAndClose line pos0 = LOk (Some en) /\ pos0 < en <= zlen line /\ bt line (en - 1) = b_rp.
Proof.
  intros H. unfold parseTitleAndClose.
  destruct (skipSpaces_ok line pos0 H) as (pos & E & Hp & _ & _). rewrite E. cbn [lbind].
  destruct (Z.leb_spec (zlen line) pos) as [|Hlt]; [left; reflexivity|]. zg.
  destruct (N.eqb_spec (bt line pos) b_rp) as [Hr|_].
  - right. exists (pos + 1). split; [reflexivity|]. split; [lia|]. replace (pos + 1 - 1) with pos by lia. exact Hr.
  - destruct (negb (N.eqb (bt line pos) b_dq) && negb (N.eqb (bt line pos) b_sq) && negb (N.eqb (bt line pos) b_lp));
      [left; reflexivity|].
    destruct (parseTitle_ok line pos ltac:(lia)) as [E2|(e0 & E2 & He0)]; rewrite E2; cbn [lbind]; [left; reflexivity|].
    destruct (skipSpaces_ok line e0 ltac:(lia)) as (e & E3 & He & _ & _). rewrite E3. cbn [lbind].
    destruct (Z.ltb_spec e (zlen line)) as [Hl|]; [|left; reflexivity]. zg.
    destruct (N.eqb_spec (bt line e) b_rp) as [Hr|_]; [|left; reflexivity].
    right. exists (e + 1). split; [reflexivity|]. split; [lia|]. replace (e + 1 - 1) with e by lia. exact Hr.
Qed.

(* ---------------- parseInlineDestination ---------------- *)

Lemma parseInlineDestination_ok line pos0 : 0 <= pos0 <= zlen line ->
  parseInlineDestination line pos0 = LOk None
  \/ exists s e en, parseInlineDestination line pos0 = LOk (Some (s, e, en))
       /\ pos0 <= s /\ s <= e /\ e < en <= zlen line /\ bt line (en - 1) = b_rp
       /\ (s < e -> dest_shape line pos0 s e).
Proof.
  intros H. unfold parseInlineDestination.
  destruct (skipSpaces_ok line pos0 H) as (pos & E & Hp & Hsp & _). rewrite E. cbn [lbind].
  destruct (Z.leb_spec (zlen line) pos) as [|Hlt]; [left; reflexivity|]. zg.
  destruct (N.eqb_spec (bt line pos) b_rp) as [Hr|_].
  - right. exists pos, pos, (pos + 1). split; [reflexivity|]. split; [lia|]. split; [lia|]. split; [lia|].
    split; [replace (pos + 1 - 1) with pos by lia; exact Hr|intros; lia].
  - destruct (parseDestination_ok line pos ltac:(lia)) as [E2|(s & e & a & E2 & H1 & H2 & H3 & Hsh & _)];
      rewrite E2; cbn [lbind]; [left; reflexivity|].
    destruct (Z.leb_spec e s); [left; reflexivity|].
    destruct (parseTitleAndClose_ok line a ltac:(lia)) as [E3|(en & E3 & He & Hb)]; rewrite E3; cbn [lbind];
      [left; reflexivity|].
    right. exists s, e, en. split; [reflexivity|]. split; [lia|]. split; [lia|]. split; [lia|]. split; [exact Hb|].
    intros _. apply (dest_shape_weaken line pos pos0); [lia|exact Hsp|exact Hsh].
Qed.

(* ---------------- parseReferenceDefinition ---------------- *)

(* the line is `[` label `]:` blanks destination ... *)
Definition refdef_shape (line : bytes) (s e : Z) : Prop :=
  exists p0 lb, 0 <= p0 /\ p0 < lb /\ lb + 1 < zlen line
    /\ bt line p0 = b_lb /\ bt line lb = b_rb /\ bt line (lb + 1) = b_colon
    /\ dest_shape line (lb + 2) s e.

Lemma parseReferenceDefinition_ok line :
  parseReferenceDefinition line = LOk None
  \/ exists s e, parseReferenceDefinition line = LOk (Some (s, e)) /\ 0 <= s /\ s <= e <= zlen line
       /\ refdef_shape line s e.
Proof.
  unfold parseReferenceDefinition.
  destruct (indentWidth_ok line) as (w & pos & E & Hw & Hp). rewrite E. cbn [lbind].
  destruct ((gen_ls_max_indent <? w) || (zlen line <=? pos)) eqn:Eg; [left; reflexivity|].
  apply Bool.orb_false_iff in Eg. destruct Eg as [_ Eg]. apply Z.leb_gt in Eg. zg.
  destruct (N.eqb_spec (bt line pos) b_lb) as [Hlb|_]; cbn [negb]; [|left; reflexivity].
  destruct (findLabelEnd_ok line (pos + 1) ltac:(lia)) as (le & E2 & Hle). rewrite E2. cbn [lbind].
  destruct (Z.ltb_spec le 0) as [|Hle0]; [left; reflexivity|].
  destruct Hle as [->|[Hle Hrb]]; [lia|].
  rewrite zsl_ok by lia. cbn [lbind].
  destruct (isBlank (sub line (pos + 1) le)); [left; reflexivity|].
  destruct (Z.leb_spec (zlen line) (le + 1)) as [|Hc]; [left; reflexivity|]. zg.
  destruct (N.eqb_spec (bt line (le + 1)) b_colon) as [Hcol|_]; cbn [negb]; [|left; reflexivity].
  destruct (skipSpaces_ok line (le + 2) ltac:(lia)) as (i & E3 & Hi & Hsp & _). rewrite E3. cbn [lbind].
  destruct (parseDestination_ok line i ltac:(lia)) as [E4|(s & e & a & E4 & H1 & H2 & H3 & Hsh & _)];
    rewrite E4; cbn [lbind]; [left; reflexivity|].
  assert (Hshape : refdef_shape line s e).
  { exists pos, le. split; [lia|]. split; [lia|]. split; [lia|]. split; [exact Hlb|]. split; [exact Hrb|].
    split; [exact Hcol|]. apply (dest_shape_weaken line i (le + 2)); [lia|exact Hsp|exact Hsh]. }
  assert (Hyes : exists s0 e0, LOk (A := option (Z * Z)) (Some (s, e)) = LOk (Some (s0, e0)) /\ 0 <= s0 /\ s0 <= e0 <= zlen line
                               /\ refdef_shape line s0 e0).
  { exists s, e. split; [reflexivity|]. split; [lia|]. split; [lia|exact Hshape]. }
  destruct (skipSpacesCount_ok line a ltac:(lia)) as (af & E5 & Haf & _ & _). rewrite E5. cbn [lbind].
  destruct (Z.leb_spec (zlen line) af) as [|Hl]; [right; exact Hyes|]. zg.
  destruct (negb (N.eqb (bt line af) b_dq) && negb (N.eqb (bt line af) b_sq) && negb (N.eqb (bt line af) b_lp)).
  - rewrite zsl_ok by lia. cbn [lbind]. destruct (isBlank _); [right; exact Hyes|left; reflexivity].
  - destruct (af - a =? 0); [left; reflexivity|].
    destruct (parseTitle_ok line af ltac:(lia)) as [E6|(en & E6 & Hen)]; rewrite E6; cbn [lbind]; [left; reflexivity|].
    rewrite zsl_ok by lia. cbn [lbind]. destruct (isBlank _); [right; exact Hyes|left; reflexivity].
Qed.

(* ---------------- parseHTMLTag ---------------- *)

Lemma name_loop_ok line : forall fuel i, 0 <= i <= zlen line -> (Z.to_nat (zlen line - i) < fuel)%nat ->
  exists j, name_loop fuel line i = LOk j /\ i <= j <= zlen line.
Proof.
  induction fuel as [|fuel IH]; intros i Hi Hf; [lia|]. cbn [name_loop].
  destruct (Z.ltb_spec i (zlen line)) as [Hlt|Hge]; [|exists i; split; [reflexivity|lia]].
  zg. destruct (is_tagname (bt line i)); [|exists i; split; [reflexivity|lia]].
  destruct (IH (i + 1)) as (j & E & Hj); [lia|lia|]. exists j. split; [exact E|lia].
Qed.

Lemma quote_loop_ok line q : forall fuel i, 0 <= i <= zlen line -> (Z.to_nat (zlen line - i) < fuel)%nat ->
  exists j, quote_loop fuel line i q = LOk j /\ i <= j <= zlen line.
Proof.
  induction fuel as [|fuel IH]; intros i Hi Hf; [lia|]. cbn [quote_loop].
  destruct (Z.ltb_spec i (zlen line)) as [Hlt|Hge]; [|exists i; split; [reflexivity|lia]].
  zg. destruct (N.eqb (bt line i) q); [exists i; split; [reflexivity|lia]|].
  destruct (IH (i + 1)) as (j & E & Hj); [lia|lia|]. exists j. split; [exact E|lia].
Qed.

Lemma attr_loop_ok line : forall fuel i, 0 <= i <= zlen line -> (Z.to_nat (zlen line - i) < fuel)%nat ->
  attr_loop fuel line i = LOk None \/ exists k, attr_loop fuel line i = LOk (Some k) /\ i <= k <= zlen line.
Proof.
  induction fuel as [|fuel IH]; intros i Hi Hf; [lia|]. cbn [attr_loop].
  destruct (Z.ltb_spec i (zlen line)) as [Hlt|Hge]; [|right; exists i; split; [reflexivity|lia]].
  zg. destruct (N.eqb (bt line i) b_dq || N.eqb (bt line i) b_sq).
  - destruct (quote_loop_ok line (bt line i) (S (length line)) (i + 1) ltac:(lia) (fuel_ok line (i + 1) ltac:(lia)))
      as (j & E & Hj). rewrite E. cbn [lbind].
    destruct (Z.leb_spec (zlen line) j); [left; reflexivity|].
    destruct (IH (j + 1)) as [E2|(k & E2 & Hk)]; [lia|lia|left; exact E2|]. right. exists k. split; [exact E2|lia].
  - destruct (N.eqb (bt line i) b_gt); [right; exists i; split; [reflexivity|lia]|].
    destruct (IH (i + 1)) as [E2|(k & E2 & Hk)]; [lia|lia|left; exact E2|]. right. exists k. split; [exact E2|lia].
Qed.

Lemma back_loop_ok line pos : 0 <= pos -> forall fuel j, pos <= j < zlen line -> (Z.to_nat (j - pos) < fuel)%nat ->
  exists r, back_loop fuel line j pos = LOk r /\ pos <= r <= j.
Proof.
  intros Hp. induction fuel as [|fuel IH]; intros j Hj Hf; [lia|]. cbn [back_loop].
  destruct (Z.ltb_spec pos j) as [Hlt|Hge]; [|exists j; split; [reflexivity|lia]].
  zg. destruct (is_space (bt line j)); [|exists j; split; [reflexivity|lia]].
  destruct (IH (j - 1)) as (r & E & Hr); [lia|lia|]. exists r. split; [exact E|lia].
Qed.

Lemma parseHTMLTag_ok line pos : 0 <= pos ->
  parseHTMLTag line pos = LOk None
  \/ exists tg, parseHTMLTag line pos = LOk (Some tg) /\ pos + 1 < t_end tg <= zlen line /\ bt line pos = b_lt.
Proof.
  intros Hp. unfold parseHTMLTag.
  destruct (Z.leb_spec (zlen line) pos) as [|Hlt]; [left; reflexivity|]. zg.
  destruct (N.eqb_spec (bt line pos) b_lt) as [Hb|_]; cbn [negb orb]; [|left; reflexivity].
  destruct (Z.leb_spec (zlen line) (pos + 1)) as [|Hlt1]; [left; reflexivity|]. zg.
  set (isClosing := N.eqb (bt line (pos + 1)) b_slash).
  set (i := if isClosing then pos + 2 else pos + 1).
  assert (Hi : pos + 1 <= i <= pos + 2) by (unfold i; destruct isClosing; lia).
  destruct (isClosing && (zlen line <=? i)) eqn:Ec; [left; reflexivity|].
  assert (Hil : i < zlen line).
  { unfold i in *. destruct isClosing; cbn [andb] in Ec; [apply Z.leb_gt in Ec; lia|lia]. }
  zg. destruct (is_alpha (bt line i)); cbn [negb]; [|left; reflexivity].
  destruct (name_loop_ok line (S (length line)) i ltac:(lia) (fuel_ok line i ltac:(lia))) as (j & E & Hj).
  rewrite E. cbn [lbind]. rewrite zsl_ok by lia. cbn [lbind].
  destruct (attr_loop_ok line (S (length line)) j ltac:(lia) (fuel_ok line j ltac:(lia))) as [E2|(k & E2 & Hk)];
    rewrite E2; cbn [lbind]; [left; reflexivity|].
  destruct (Z.leb_spec (zlen line) k) as [|Hkl]; [left; reflexivity|]. zg.
  destruct (N.eqb (bt line k) b_gt); cbn [negb]; [|left; reflexivity].
  assert (Hend : pos + 1 < k + 1 <= zlen line) by lia.
  destruct isClosing.
  - right. eexists. split; [reflexivity|]. cbn [t_end]. split; [exact Hend|exact Hb].
  - destruct (isVoidElement _).
    + right. eexists. split; [reflexivity|]. cbn [t_end]. split; [exact Hend|exact Hb].
    + destruct (back_loop_ok line pos Hp (S (length line)) (k - 1) ltac:(lia) ltac:(unfold zlen in *; lia)) as (r & E3 & Hr).
      rewrite E3. cbn [lbind]. destruct (Z.ltb_spec pos r).
      * zg. right. eexists. split; [reflexivity|]. cbn [t_end]. split; [exact Hend|exact Hb].
      * right. eexists. split; [reflexivity|]. cbn [t_end]. split; [exact Hend|exact Hb].
Qed.
