(* C14: the register window of a started goroutine. *)
From Coq Require Import List NArith ZArith Bool Arith Lia.
Import ListNotations.
From Verif Require Import Facts_vm RegsM.
Close Scope N_scope.

(* the generated shape of the four copies: kind i uses vm.fp[i] and the i-th
   field of the shift instruction, has no high bound, fills the new file from index 0 *)
Definition window_ok (w : N * N * N * bool) : bool :=
  match w with (i, f, h, base) => N.eqb i f && N.eqb h 0 && base end.

Lemma spawn_windows_ok :
  forallb window_ok spawn_windows = true /\ map (fun w => fst (fst (fst w))) spawn_windows = [0; 1; 2; 3]%N.
Proof. split; vm_compute; reflexivity. Qed.

Lemma stack_size_val : stack_size = 512.
Proof. reflexivity. Qed.

Lemma int_window_open : int_window_h = 0%N.
Proof. vm_compute. reflexivity. Qed.

Lemma nth_error_repeat {A} (x : A) n r : r < n -> nth_error (repeat x n) r = Some x.
Proof. revert r. induction n; intros r H; [lia|]. destruct r; simpl; [reflexivity|]. apply IHn. lia. Qed.

Lemma nth_error_skipn {A} (l : list A) n r : nth_error (skipn n l) r = nth_error l (n + r).
Proof. revert l. induction n; intros l; [reflexivity|]. destruct l; simpl; [destruct r; reflexivity|]. apply IHn. Qed.

Lemma nth_error_firstn_lt {A} (l : list A) n r : r < n -> nth_error (firstn n l) r = nth_error l r.
Proof.
  revert l r. induction n; intros l r H; [lia|]. destruct l; [destruct r; reflexivity|].
  destruct r; simpl; [reflexivity|]. apply IHn. lia.
Qed.

(* in bounds: with the open window startGoroutine never panics when the
   callee frame starts inside the register file *)
Theorem spawn_in_bounds regs fp off :
  fp + off <= length regs -> spawn_file 0 regs fp off <> None.
Proof.
  intros H. unfold spawn_file, window_hi, go_slice. simpl N.eqb. cbv iota.
  replace (Nat.leb (fp + off) (length regs)) with true by (symmetry; apply Nat.leb_le; exact H).
  rewrite Nat.leb_refl. simpl. discriminate.
Qed.

(* spawn_view = call_view: every register r of the callee (r below the size
   of a fresh register file) reads in the new VM what it would read after a
   normal call; a register that lies beyond the stack top of the parent (which
   a call would have got by growing the stack) reads zero *)
Theorem spawn_view_call_view regs fp off r :
  fp + off <= length regs -> r < stack_size ->
  spawn_view 0 regs fp off r =
  Some (Some (match call_view regs fp off r with Some v => v | None => 0%Z end)).
Proof.
  intros Hlo Hr. unfold spawn_view, spawn_file, window_hi, go_slice. simpl N.eqb. cbv iota.
  replace (Nat.leb (fp + off) (length regs)) with true by (symmetry; apply Nat.leb_le; exact Hlo).
  rewrite Nat.leb_refl. simpl andb. cbv iota.
  set (w := firstn (length regs - (fp + off)) (skipn (fp + off) regs)).
  assert (Hw : w = skipn (fp + off) regs).
  { unfold w. apply firstn_all2. rewrite skipn_length. lia. }
  assert (Hlen : length w = length regs - (fp + off)) by (rewrite Hw; apply skipn_length).
  unfold go_copy. rewrite repeat_length. f_equal. unfold call_view.
  set (n := Nat.min stack_size (length w)).
  destruct (Nat.lt_ge_cases r n) as [Hlt|Hge].
  - rewrite nth_error_app1 by (rewrite firstn_length; lia).
    rewrite nth_error_firstn_lt by exact Hlt. rewrite Hw, nth_error_skipn.
    destruct (nth_error regs (fp + off + r)) eqn:E; [reflexivity|].
    apply nth_error_None in E. unfold n in Hlt. lia.
  - rewrite nth_error_app2 by (rewrite firstn_length; lia).
    rewrite firstn_length. replace (Nat.min n (length w)) with n by (unfold n; lia).
    rewrite nth_error_skipn. replace (n + (r - n)) with r by lia.
    rewrite nth_error_repeat by exact Hr.
    assert (Hn : n = length w) by (unfold n; lia).
    destruct (nth_error regs (fp + off + r)) eqn:E; [|reflexivity].
    exfalso. assert (fp + off + r < length regs) by (apply nth_error_Some; rewrite E; discriminate). lia.
Qed.

(* the former window regs[fp+off : fp+127] (before fix 9dd5cbe): it panics
   near the stack top and it does not copy register 127 *)
Lemma bounded_window_faults :
  exists regs fp off, fp + off <= length regs /\ spawn_file 127 regs fp off = None.
Proof. exists (repeat 0%Z 512), 400, 3. split; [rewrite repeat_length; lia|vm_compute; reflexivity]. Qed.

Lemma bounded_window_drops_register_127 :
  exists regs fp off r, fp + off + r < length regs /\ r < stack_size /\
    call_view regs fp off r = Some 42%Z /\ spawn_view 127 regs fp off r = Some (Some 0%Z).
Proof.
  exists (repeat 0%Z 127 ++ [42%Z] ++ repeat 0%Z 384), 0, 126, 1.
  split; [apply Nat.ltb_lt; vm_compute; reflexivity|].
  split; [apply Nat.ltb_lt; vm_compute; reflexivity|]. split; vm_compute; reflexivity.
Qed.

(* ---- the stack test of the call instructions ---- *)

Lemma growth_tests_are_ge : growth_checks_all_ge = true /\ swap_growth_checks_all_ge = true.
Proof. split; reflexivity. Qed.

(* registers 1..numreg of the callee are in bounds after the test *)
Definition call_statement : Prop :=
  forall fp numreg st r,
    numreg <= 127 -> 512 <= st -> fp <= st -> 1 <= r <= numreg -> fp + r < after_call_check fp numreg st.

Lemma call_statement_holds : call_statement.
Proof.
  intros fp numreg st r Hn Hst Hfp Hr. unfold after_call_check.
  destruct (Nat.leb st (fp + numreg)) eqn:E.
  - apply Nat.leb_le in E. lia.
  - apply Nat.leb_gt in E. lia.
Qed.

(* the stack is grown only when the frame does not fit: a frame that fits leaves the top unchanged *)
Lemma call_check_minimal fp numreg st :
  fp + numreg < st -> after_call_check fp numreg st = st.
Proof. intros H. unfold after_call_check. destruct (Nat.leb st (fp + numreg)) eqn:E; [apply Nat.leb_le in E; lia|reflexivity]. Qed.

(* the former test used > (before fix 1709e08): with fp + numreg = st the stack was not grown and
   the last register was one past the end *)
Lemma call_check_gt_off_by_one :
  exists fp numreg st, numreg <= 127 /\ fp + numreg = st /\ after_call_check_gt fp numreg st = st /\
    nth_error (repeat 0%Z st) (fp + numreg) = None.
Proof. exists 511, 1, 512. split; [lia|]. split; [reflexivity|]. split; vm_compute; reflexivity. Qed.

Lemma call_statement_gt_refuted :
  ~ (forall fp numreg st r,
      numreg <= 127 -> 512 <= st -> fp <= st -> 1 <= r <= numreg -> fp + r < after_call_check_gt fp numreg st).
Proof.
  intros H. specialize (H 511 1 512 1 ltac:(lia) ltac:(lia) ltac:(lia) ltac:(lia)).
  vm_compute in H. lia.
Qed.

Definition spawn_statement : Prop :=
  forall regs fp off,
    fp + off <= length regs ->
    spawn_file int_window_h regs fp off <> None /\
    forall r, r < stack_size ->
      spawn_view int_window_h regs fp off r =
      Some (Some (match call_view regs fp off r with Some v => v | None => 0%Z end)).

Lemma spawn_statement_holds : spawn_statement.
Proof.
  intros regs fp off H. rewrite int_window_open. split.
  - exact (spawn_in_bounds regs fp off H).
  - intros r Hr. exact (spawn_view_call_view regs fp off r H Hr).
Qed.
