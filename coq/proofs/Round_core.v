(* The rounding helper round_mag of the model (ConstsM.v) over Z: it rounds
   the magnitude (a/d) * 2^e, given as the integer part m = a / d and the
   sticky flag (a mod d <> 0), to the nearest multiple of 2^(e+sh), ties to
   even, where sh is the number of dropped bits. *)
From Coq Require Import ZArith Bool Lia.
From Verif Require Import ConstsM Consts_proofs.
Open Scope Z_scope.

(* the rounded quotient of round_mag when sh > 0 *)
Definition rne_shift (m sh : Z) (sticky : bool) : Z :=
  let q := Z.shiftr m sh in
  let r := Z.land m (Z.ones sh) in
  let half := Z.shiftl 1 (sh - 1) in
  if (half <? r) || ((r =? half) && (sticky || Z.odd q)) then q + 1 else q.

(* the number of dropped bits *)
Definition round_shift (prec : Z) (emin : option Z) (m : positive) (e : Z) : Z :=
  match emin with
  | Some em => Z.max (bitlen (Zpos m) - prec) (em - e)
  | None => bitlen (Zpos m) - prec
  end.

Lemma round_mag_unfold prec emin m e sticky :
  round_mag prec emin m e sticky =
    let sh := round_shift prec emin m e in
    if sh <=? 0 then (Zpos m, e) else (rne_shift (Zpos m) sh sticky, e + sh).
Proof. reflexivity. Qed.

Lemma pow2_pos k : 0 <= k -> 0 < 2 ^ k.
Proof. intros. apply Z.pow_pos_nonneg; lia. Qed.

Lemma pow2_split sh : 0 < sh -> 2 ^ sh = 2 * 2 ^ (sh - 1).
Proof. intros H. replace sh with (1 + (sh - 1)) at 1 by lia. rewrite Z.pow_add_r by lia. reflexivity. Qed.

Lemma odd_even_neg q : Z.odd q = negb (Z.even q).
Proof. rewrite <- Z.negb_odd. destruct (Z.odd q); reflexivity. Qed.

(* the core: a = (a/d)*d + a mod d is rounded at 2^sh units *)
Lemma rne_core a d sh : 0 < d -> 0 < sh -> 0 <= a ->
  let q' := rne_shift (a / d) sh (negb (a mod d =? 0)) in
  - (2 ^ sh * d) <= 2 * (a - q' * 2 ^ sh * d) <= 2 ^ sh * d /\
  (2 * Z.abs (a - q' * 2 ^ sh * d) = 2 ^ sh * d -> Z.even q' = true) /\
  a / d / 2 ^ sh <= q' <= a / d / 2 ^ sh + 1.
Proof.
  intros Hd Hsh Ha. set (m := a / d). set (rho := a mod d).
  assert (Hm : 0 <= m) by (apply Z.div_pos; lia).
  assert (Hrho : 0 <= rho < d) by (apply Z.mod_pos_bound; lia).
  assert (Ea : a = m * d + rho) by (unfold m, rho; rewrite Z.mul_comm; apply Z.div_mod; lia).
  unfold rne_shift.
  rewrite Z.shiftr_div_pow2, Z.land_ones, Z.shiftl_1_l by lia.
  set (P := 2 ^ sh). set (h := 2 ^ (sh - 1)).
  assert (HP : P = 2 * h) by (apply pow2_split; assumption).
  assert (Hh : 0 < h) by (apply pow2_pos; lia).
  set (q := m / P). set (r := m mod P).
  assert (Hr : 0 <= r < P) by (apply Z.mod_pos_bound; lia).
  assert (Em : m = q * P + r) by (unfold q, r; rewrite Z.mul_comm; apply Z.div_mod; lia).
  assert (E1 : a - q * P * d = r * d + rho) by (rewrite Ea, Em at 1; ring).
  assert (E2 : a - (q + 1) * P * d = r * d + rho - P * d) by (rewrite Ea, Em at 1; ring).
  destruct (Z.ltb_spec h r) as [Hlt|Hge]; cbn [orb].
  - (* above the half: up *)
    rewrite E2. assert (h * d + d <= r * d) by nia.
    assert (r * d + d <= P * d) by nia.
    split; [split; nia|]. split; [intros Hc; exfalso; revert Hc; rewrite Z.abs_neq by nia; nia|lia].
  - destruct (Z.eqb_spec r h) as [Heq|Hne]; cbn [andb].
    + destruct (Z.eqb_spec rho 0) as [H0|H0]; cbn [negb orb].
      * (* an exact tie: to even *)
        destruct (Z.odd q) eqn:Ho.
        -- rewrite E2, Heq, H0. split; [split; nia|]. split; [|lia].
           intros _. rewrite Z.even_add, <- Z.negb_odd, Ho. reflexivity.
        -- rewrite E1, Heq, H0. split; [split; nia|]. split; [|lia].
           intros _. rewrite <- Z.negb_odd, Ho. reflexivity.
      * (* the half and something more: up *)
        rewrite E2, Heq. split; [split; nia|]. split; [|lia].
        intros Hc; exfalso; revert Hc; rewrite Z.abs_neq by nia; nia.
    + (* below the half: down *)
      rewrite E1. assert (r <= h - 1) by lia. assert (r * d + d <= h * d) by nia.
      split; [split; nia|]. split; [|lia].
      intros Hc; exfalso; revert Hc; rewrite Z.abs_eq by nia; nia.
Qed.

(* without a fraction *)
Lemma rne_core_int m sh : 0 < sh -> 0 <= m ->
  let q' := rne_shift m sh false in
  - 2 ^ sh <= 2 * (m - q' * 2 ^ sh) <= 2 ^ sh /\
  (2 * Z.abs (m - q' * 2 ^ sh) = 2 ^ sh -> Z.even q' = true) /\
  m / 2 ^ sh <= q' <= m / 2 ^ sh + 1.
Proof.
  intros Hsh Hm. pose proof (rne_core m 1 sh ltac:(lia) Hsh Hm) as H.
  rewrite Z.div_1_r, Z.mod_1_r in H. cbn [Z.eqb negb] in H.
  rewrite !Z.mul_1_r in H. exact H.
Qed.

(* a multiple of 2^sh is not changed *)
Lemma rne_shift_exact k sh : 0 < sh -> 0 <= k -> rne_shift (k * 2 ^ sh) sh false = k.
Proof.
  intros Hsh Hk. destruct (rne_core_int (k * 2 ^ sh) sh Hsh ltac:(pose proof (pow2_pos sh); nia)) as [[H1 H2] _].
  set (q' := rne_shift (k * 2 ^ sh) sh false) in *.
  assert (0 < 2 ^ sh) by (apply pow2_pos; lia). nia.
Qed.

(* shape of the result: exponent and size *)
Lemma bitlen_bounds p : 2 ^ (bitlen (Zpos p) - 1) <= Zpos p < 2 ^ bitlen (Zpos p).
Proof.
  change (bitlen (Z.pos p)) with (Z.log2 (Z.pos p) + 1). replace (Z.log2 (Z.pos p) + 1 - 1) with (Z.log2 (Z.pos p)) by lia.
  replace (Z.log2 (Z.pos p) + 1) with (Z.succ (Z.log2 (Z.pos p))) by lia.
  apply Z.log2_spec. lia.
Qed.

Lemma bitlen_pos_ge1 p : 1 <= bitlen (Zpos p).
Proof. change (bitlen (Z.pos p)) with (Z.log2 (Z.pos p) + 1). pose proof (Z.log2_nonneg (Zpos p)). lia. Qed.

Lemma round_mag_shape prec emin m e sticky : 0 < prec ->
  let sh := round_shift prec emin m e in
  let '(q', e') := round_mag prec emin m e sticky in
  e' = e + Z.max 0 sh /\ 0 <= q' <= 2 ^ prec /\
  (sh <= 0 -> q' = Zpos m) /\
  (0 < sh -> q' = rne_shift (Zpos m) sh sticky).
Proof.
  intros Hprec sh. rewrite round_mag_unfold. fold sh. cbn zeta.
  pose proof (bitlen_bounds m) as [Hlo Hhi]. pose proof (bitlen_pos_ge1 m) as Hn.
  assert (Hsh : bitlen (Zpos m) - prec <= sh).
  { unfold sh, round_shift. destruct emin; lia. }
  destruct (Z.leb_spec sh 0) as [H0|H0].
  - split; [lia|]. split; [|split; [reflexivity|lia]].
    split; [lia|]. apply Z.lt_le_incl. apply Z.lt_le_trans with (1 := Hhi). apply Z.pow_le_mono_r; lia.
  - split; [lia|]. split; [|split; [lia|reflexivity]].
    unfold rne_shift. rewrite Z.shiftr_div_pow2 by lia.
    assert (Hq : 0 <= Z.pos m / 2 ^ sh < 2 ^ prec).
    { split; [apply Z.div_pos; [lia|apply pow2_pos; lia]|].
      apply Z.div_lt_upper_bound; [apply pow2_pos; lia|].
      rewrite <- Z.pow_add_r by lia. apply Z.lt_le_trans with (1 := Hhi). apply Z.pow_le_mono_r; lia. }
    destruct (_ || _); lia.
Qed.
