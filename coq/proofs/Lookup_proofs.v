(* Proofs about the model of native/packages.go (property C22). *)
From Verif Require Import Bytes LookupM.
From Coq Require Import Permutation.
Open Scope N_scope.

(* ------------------------------------------------------------------ names *)

Lemma bytes_eqb_refl a : bytes_eqb a a = true.
Proof. apply bytes_eqb_eq. reflexivity. Qed.

Lemma bytes_eqb_neq a b : bytes_eqb a b = false <-> a <> b.
Proof.
  split.
  - intros H E. apply bytes_eqb_eq in E. congruence.
  - intros H. destruct (bytes_eqb a b) eqn:E; [|reflexivity]. apply bytes_eqb_eq in E. contradiction.
Qed.

Lemma name_mem_In n l : name_mem n l = true <-> In n l.
Proof.
  induction l as [|k r IH]; simpl; [split; [discriminate|tauto]|].
  destruct (bytes_eqb k n) eqn:E.
  - apply bytes_eqb_eq in E. subst. tauto.
  - apply bytes_eqb_neq in E. rewrite IH. split; [tauto|]. intros [H|H]; [contradiction|assumption].
Qed.

Lemma name_mem_nIn n l : name_mem n l = false <-> ~ In n l.
Proof.
  rewrite <- name_mem_In. destruct (name_mem n l); split; congruence.
Qed.

Lemma name_mem_ext n l1 l2 : (forall x, In x l1 <-> In x l2) -> name_mem n l1 = name_mem n l2.
Proof.
  intros H. destruct (name_mem n l2) eqn:E.
  - apply name_mem_In. apply H. apply name_mem_In. assumption.
  - apply name_mem_nIn. intros Hin. apply H in Hin. apply name_mem_In in Hin. congruence.
Qed.

(* ------------------------------------------------------------------ Package.LookupFunc *)

Lemma package_range_app {S} (l1 l2 : list (name * decl)) (f : scallback S) s :
  package_range (l1 ++ l2) f s CNil =
  let '(s1, r1) := package_range l1 f s CNil in
  if is_cnil r1 then package_range l2 f s1 CNil else (s1, r1).
Proof.
  revert s. induction l1 as [|[n d] l1 IH]; intros s; simpl; [reflexivity|].
  destruct (f n d s) as [s1 r] eqn:Ef. destruct r; simpl; try reflexivity.
  apply IH.
Qed.

(* the error variable is irrelevant when it starts as nil or the list is not empty;
   with the start value nil the final value is nil or the first non-nil result *)

(* what the documentation promises about the calls made and the value returned,
   for a callback given by call index, starting at call number i0 *)
Definition all_nil_on (l : log) (f : callback) (i0 : nat) : Prop :=
  forall pre n d post, l = pre ++ (n, d) :: post -> f (i0 + length pre)%nat n d = CNil.

Definition lf_contract (order : log) (f : callback) (i0 : nat) (calls : log) (r : cbres) : Prop :=
  (calls = order /\ r = CNil /\ all_nil_on order f i0)
  \/ (exists pre n d post,
        order = pre ++ (n, d) :: post /\ calls = pre ++ [(n, d)] /\
        all_nil_on pre f i0 /\
        f (i0 + length pre)%nat n d <> CNil /\
        r = stop_to_nil (f (i0 + length pre)%nat n d)).

Lemma all_nil_on_nil f i0 : all_nil_on [] f i0.
Proof. intros pre n d post H. destruct pre; discriminate. Qed.

Lemma all_nil_on_cons n d l f i0 :
  f i0 n d = CNil -> all_nil_on l f (S i0) -> all_nil_on ((n, d) :: l) f i0.
Proof.
  intros H0 H pre n' d' post E. destruct pre as [|x pre]; simpl in E.
  - injection E as -> -> _. rewrite Nat.add_0_r. assumption.
  - injection E as _ E. specialize (H pre n' d' post E). simpl.
    replace (i0 + S (length pre))%nat with (S i0 + length pre)%nat by lia. assumption.
Qed.

Lemma package_range_log (order : log) (f : callback) (l0 : log) :
  exists calls r,
    package_range order (cb_of f) l0 CNil = (l0 ++ calls, r) /\
    lf_contract order f (length l0) calls (stop_to_nil r).
Proof.
  revert l0. induction order as [|[n d] rest IH]; intros l0.
  - exists [], CNil. simpl. rewrite app_nil_r. split; [reflexivity|]. left.
    repeat split. apply all_nil_on_nil.
  - cbn [package_range]. change (cb_of f n d l0) with (l0 ++ [(n, d)], f (length l0) n d).
    cbv beta iota zeta. destruct (f (length l0) n d) eqn:Ef; cbn [is_cnil].
    + destruct (IH (l0 ++ [(n, d)])) as (calls & r & E & C).
      exists ((n, d) :: calls), r. rewrite E. rewrite <- app_assoc. simpl. split; [reflexivity|].
      rewrite app_length in C. simpl in C. replace (length l0 + 1)%nat with (S (length l0)) in C by lia.
      destruct C as [(-> & Hr & Hall)|(pre & n1 & d1 & post & -> & -> & Hall & Hne & Hr)].
      * left. repeat split; try assumption. apply all_nil_on_cons; assumption.
      * right. exists ((n, d) :: pre), n1, d1, post. simpl.
        replace (length l0 + S (length pre))%nat with (S (length l0) + length pre)%nat by lia.
        repeat split; try assumption. apply all_nil_on_cons; assumption.
    + exists [(n, d)], CStop. split; [reflexivity|]. right.
      exists [], n, d, rest. simpl. rewrite Nat.add_0_r. rewrite Ef.
      repeat split; try congruence. apply all_nil_on_nil.
    + exists [(n, d)], (CErr e). split; [reflexivity|]. right.
      exists [], n, d, rest. simpl. rewrite Nat.add_0_r. rewrite Ef.
      repeat split; try congruence. apply all_nil_on_nil.
Qed.

Theorem package_lookupfunc_contract (order : log) (f : callback) (l0 : log) :
  exists calls r,
    package_lookupfunc order (cb_of f) l0 = (l0 ++ calls, r) /\
    lf_contract order f (length l0) calls r.
Proof.
  destruct (package_range_log order f l0) as (calls & r & E & C).
  exists calls, (stop_to_nil r). unfold package_lookupfunc. rewrite E. split; [reflexivity|assumption].
Qed.

Lemma lf_contract_not_stop order f i0 calls r : lf_contract order f i0 calls r -> r <> CStop.
Proof.
  intros [(_ & -> & _)|(pre & n & d & post & _ & _ & _ & _ & ->)]; [discriminate|].
  destruct (f _ n d); simpl; discriminate.
Qed.

Lemma lf_contract_calls_prefix order f i0 calls r :
  lf_contract order f i0 calls r -> exists rest, order = calls ++ rest.
Proof.
  intros [(-> & _)|(pre & n & d & post & -> & -> & _)].
  - exists []. rewrite app_nil_r. reflexivity.
  - exists post. rewrite <- app_assoc. reflexivity.
Qed.

(* ------------------------------------------------------------------ first occurrences *)

(* the effective order of a CombinedPackage: walk the members orders, skipping names already seen *)
Fixpoint dedupe (seen : list name) (l : log) : log :=
  match l with
  | [] => []
  | (n, d) :: r => if name_mem n seen then dedupe seen r else (n, d) :: dedupe (n :: seen) r
  end.

Lemma dedupe_ext seen1 seen2 l :
  (forall x, In x seen1 <-> In x seen2) -> dedupe seen1 l = dedupe seen2 l.
Proof.
  revert seen1 seen2. induction l as [|[n d] r IH]; intros s1 s2 H; simpl; [reflexivity|].
  rewrite (name_mem_ext n s1 s2 H). destruct (name_mem n s2).
  - apply IH, H.
  - f_equal. apply IH. intros x. simpl. rewrite H. tauto.
Qed.

Lemma dedupe_app seen l1 l2 :
  dedupe seen (l1 ++ l2) = dedupe seen l1 ++ dedupe (rev (map fst (dedupe seen l1)) ++ seen) l2.
Proof.
  revert seen. induction l1 as [|[n d] r IH]; intros seen; simpl; [reflexivity|].
  destruct (name_mem n seen) eqn:E.
  - apply IH.
  - simpl. f_equal. rewrite IH. f_equal. rewrite <- app_assoc. reflexivity.
Qed.

Lemma dedupe_In seen l n d :
  In (n, d) (dedupe seen l) <->
  ~ In n seen /\ exists pre post, l = pre ++ (n, d) :: post /\ ~ In n (map fst pre).
Proof.
  revert seen. induction l as [|[k v] r IH]; intros seen; simpl.
  - split; [tauto|]. intros (_ & pre & post & E & _). destruct pre; discriminate.
  - destruct (name_mem k seen) eqn:E.
    + apply name_mem_In in E. rewrite IH. split.
      * intros (Hs & pre & post & -> & Hn). split; [assumption|].
        exists ((k, v) :: pre), post. split; [reflexivity|]. simpl. intros [<-|H]; tauto.
      * intros (Hs & pre & post & El & Hn). split; [assumption|].
        destruct pre as [|x pre]; simpl in El.
        -- injection El as -> -> _. contradiction.
        -- injection El as Ex El; subst x. exists pre, post. split; [assumption|]. simpl in Hn. tauto.
    + apply name_mem_nIn in E. simpl. rewrite IH. split.
      * intros [H|(Hs & pre & post & -> & Hn)].
        -- injection H as -> ->. split; [assumption|]. exists [], r. split; [reflexivity|]. simpl. tauto.
        -- simpl in Hs. split; [tauto|]. exists ((k, v) :: pre), post. split; [reflexivity|].
           simpl. intros [<-|H]; tauto.
      * intros (Hs & pre & post & El & Hn). destruct pre as [|x pre]; simpl in El.
        -- injection El as -> -> _. left. reflexivity.
        -- injection El as Ex El; subst x. right. simpl in Hn. split.
           ++ simpl. intros [<-|H]; tauto.
           ++ exists pre, post. split; [assumption|]. tauto.
Qed.

Lemma dedupe_keys_fresh seen l n : In n (map fst (dedupe seen l)) -> ~ In n seen.
Proof.
  intros H. apply in_map_iff in H. destruct H as ([k v] & <- & H). simpl.
  apply dedupe_In in H. tauto.
Qed.

Lemma dedupe_NoDup seen l : NoDup (map fst (dedupe seen l)).
Proof.
  revert seen. induction l as [|[n d] r IH]; intros seen; simpl; [constructor|].
  destruct (name_mem n seen) eqn:E; [apply IH|].
  simpl. constructor; [|apply IH].
  intros H. apply dedupe_keys_fresh in H. simpl in H. tauto.
Qed.

Lemma dedupe_NoDup_id l : NoDup (map fst l) -> forall seen, (forall n, In n (map fst l) -> ~ In n seen) -> dedupe seen l = l.
Proof.
  induction l as [|[n d] r IH]; intros ND seen Hs; simpl; [reflexivity|].
  simpl in ND. inversion ND as [|? ? Hn ND']; subst.
  assert (E : name_mem n seen = false) by (apply name_mem_nIn, Hs; simpl; tauto).
  rewrite E. f_equal. apply IH; [assumption|].
  intros x Hx. simpl. intros [<-|H]; [contradiction|]. apply (Hs x); simpl; tauto.
Qed.

(* ------------------------------------------------------------------ CombinedPackage.LookupFunc *)

Section CombinedProofs.
  Variable member : Type.
  Variable m_lookupfunc : member -> forall S : Type, scallback S -> S -> S * cbres.
  (* the order in which the member enumerates its declarations in this call *)
  Variable m_order : member -> log.

  (* the ImportablePackage.LookupFunc contract: f is called on the declarations, one after
     the other, stopping at the first error, which is returned unless it is StopLookup *)
  Definition m_obeys (m : member) : Prop :=
    forall (S : Type) (f : scallback S) (s : S),
      m_lookupfunc m S f s = package_lookupfunc (m_order m) f s.

  (* one member run through the wrapper closure w *)
  Lemma wrap_range {S} (f : scallback S) (o : log) names s :
    let '(s1, r) := package_range (dedupe names o) f s CNil in
    exists names1,
      package_range o (wrap f) (names, CNil, s) CNil = ((names1, r, s1), r) /\
      (r = CNil -> names1 = rev (map fst (dedupe names o)) ++ names).
  Proof.
    revert names s. induction o as [|[n d] rest IH]; intros names s; simpl.
    - exists names. split; [reflexivity|]. reflexivity.
    - destruct (name_mem n names) eqn:E.
      + simpl. specialize (IH names s).
        destruct (package_range (dedupe names rest) f s CNil) as [s1 r]. exact IH.
      + simpl. destruct (f n d s) as [s2 r2] eqn:Ef. destruct r2; simpl.
        * specialize (IH (n :: names) s2).
          destruct (package_range (dedupe (n :: names) rest) f s2 CNil) as [s1 r].
          destruct IH as (names1 & E1 & E2). exists names1. split; [assumption|].
          intros Hr. rewrite (E2 Hr). rewrite <- app_assoc. reflexivity.
        * exists (n :: names). split; [reflexivity|discriminate].
        * exists (n :: names). split; [reflexivity|discriminate].
  Qed.

  Lemma combined_range_spec {S} (f : scallback S) (ms : list member) :
    Forall m_obeys ms ->
    forall names s,
      let '(s1, r) := package_range (dedupe names (concat (map m_order ms))) f s CNil in
      exists names1, combined_range member m_lookupfunc ms f (names, CNil, s) = (names1, r, s1).
  Proof.
    induction 1 as [|m rest Hm Hrest IH]; intros names s; simpl.
    - exists names. reflexivity.
    - rewrite dedupe_app, package_range_app.
      rewrite (Hm (wstate S) (wrap f) (names, CNil, s)). unfold package_lookupfunc.
      pose proof (wrap_range f (m_order m) names s) as W.
      destruct (package_range (dedupe names (m_order m)) f s CNil) as [s1 r].
      destruct W as (names1 & E1 & E2). rewrite E1.
      destruct r; simpl.
      + rewrite (E2 eq_refl). apply IH.
      + exists names1. reflexivity.
      + exists names1. reflexivity.
  Qed.

  (* CombinedPackage.LookupFunc behaves exactly like a single package enumerating the
     first occurrences in member order: it obeys the contract itself *)
  Theorem combined_lookupfunc_obeys (ms : list member) :
    Forall m_obeys ms ->
    forall (S : Type) (f : scallback S) (s : S),
      combined_lookupfunc member m_lookupfunc ms f s =
      package_lookupfunc (dedupe [] (concat (map m_order ms))) f s.
  Proof.
    intros H S f s. unfold combined_lookupfunc, package_lookupfunc.
    pose proof (combined_range_spec f ms H [] s) as C.
    destruct (package_range (dedupe [] (concat (map m_order ms))) f s CNil) as [s1 r].
    destruct C as (names1 & ->). reflexivity.
  Qed.
End CombinedProofs.

(* ------------------------------------------------------------------ trees *)

Section IpkgInd.
  Variable P : ipkg -> Prop.
  Hypothesis Hleaf : forall pn ds, P (IPkg pn ds).
  Hypothesis Hcomb : forall ms, Forall P ms -> P (IComb ms).
  Fixpoint ipkg_ind' (p : ipkg) : P p :=
    match p with
    | IPkg pn ds => Hleaf pn ds
    | IComb ms => Hcomb ms ((fix go (l : list ipkg) : Forall P l :=
                               match l with
                               | [] => Forall_nil P
                               | m :: r => Forall_cons m (ipkg_ind' m) (go r)
                               end) ms)
    end.
End IpkgInd.

(* the order in which a tree enumerates its declarations (leaf lists are the map orders) *)
Fixpoint order_of (p : ipkg) : log :=
  match p with
  | IPkg _ ds => ds
  | IComb ms => dedupe [] (concat (map order_of ms))
  end.

Theorem lookupfunc_obeys (p : ipkg) :
  forall (S : Type) (f : scallback S) (s : S),
    lookupfunc p S f s = package_lookupfunc (order_of p) f s.
Proof.
  induction p as [pn ds|ms IH] using ipkg_ind'; intros S f s; [reflexivity|].
  cbn [lookupfunc order_of].
  apply (combined_lookupfunc_obeys ipkg lookupfunc order_of). exact IH.
Qed.

(* well-formed: the declarations of a Package are a map (distinct names) *)
Fixpoint wf (p : ipkg) : Prop :=
  match p with
  | IPkg _ ds => NoDup (map fst ds)
  | IComb ms => (fix all (l : list ipkg) : Prop := match l with [] => True | m :: r => wf m /\ all r end) ms
  end.

Lemma wf_comb ms : wf (IComb ms) <-> Forall wf ms.
Proof.
  cbn [wf]. induction ms as [|m r IH]; [split; constructor|].
  split.
  - intros [H1 H2]. constructor; [assumption|]. apply IH. assumption.
  - intros H. inversion H; subst. split; [assumption|]. apply IH. assumption.
Qed.

(* p has a declaration named n *)
Fixpoint has (p : ipkg) (n : name) : Prop :=
  match p with
  | IPkg _ ds => In n (map fst ds)
  | IComb ms => (fix any (l : list ipkg) : Prop := match l with [] => False | m :: r => has m n \/ any r end) ms
  end.

(* the declaration of n in p: for a combined package the one of the first member that has n *)
Fixpoint declares (p : ipkg) (n : name) (d : decl) : Prop :=
  match p with
  | IPkg _ ds => In (n, d) ds
  | IComb ms => (fix first (l : list ipkg) : Prop :=
                   match l with [] => False | m :: r => declares m n d \/ (~ has m n /\ first r) end) ms
  end.

Lemma has_comb ms n : has (IComb ms) n <-> exists m, In m ms /\ has m n.
Proof.
  cbn [has]. induction ms as [|m r IH].
  - split; [tauto|]. intros (m & [] & _).
  - rewrite IH. split.
    + intros [H|(m' & H1 & H2)]; [exists m; simpl; tauto|exists m'; simpl; tauto].
    + intros (m' & [<-|H1] & H2); [tauto|]. right. exists m'. tauto.
Qed.

Lemma declares_comb_cons m r n d :
  declares (IComb (m :: r)) n d <-> declares m n d \/ (~ has m n /\ declares (IComb r) n d).
Proof. reflexivity. Qed.

Lemma declares_comb ms n d :
  declares (IComb ms) n d <->
  exists pre m post, ms = pre ++ m :: post /\ declares m n d /\ forall m', In m' pre -> ~ has m' n.
Proof.
  induction ms as [|m r IH].
  - cbn. split; [tauto|]. intros (pre & m & post & E & _). destruct pre; discriminate.
  - rewrite declares_comb_cons, IH. split.
    + intros [H|(Hn & pre & m' & post & -> & Hd & Hp)].
      * exists [], m, r. split; [reflexivity|]. split; [assumption|]. intros ? [].
      * exists (m :: pre), m', post. split; [reflexivity|]. split; [assumption|].
        intros x [<-|Hx]; [assumption|apply Hp, Hx].
    + intros (pre & m' & post & E & Hd & Hp). destruct pre as [|x pre]; simpl in E.
      * injection E as -> ->. left. assumption.
      * injection E as -> ->. right. split; [apply Hp; simpl; tauto|].
        exists pre, m', post. split; [reflexivity|]. split; [assumption|].
        intros y Hy. apply Hp. simpl. tauto.
Qed.

Lemma app_split_at {A} (l1 l2 pre post : list A) (x : A) :
  l1 ++ l2 = pre ++ x :: post ->
  (exists mid, l1 = pre ++ x :: mid /\ post = mid ++ l2) \/
  (exists mid, pre = l1 ++ mid /\ l2 = mid ++ x :: post).
Proof.
  revert pre. induction l1 as [|a l1 IH]; intros pre E; simpl in E.
  - right. exists pre. split; [reflexivity|assumption].
  - destruct pre as [|b pre]; simpl in E.
    + injection E as Ea E. subst a. left. exists l1. split; [reflexivity|symmetry; assumption].
    + injection E as Ea E. subst b. destruct (IH pre E) as [(mid & E1 & E2)|(mid & E1 & E2)].
      * left. exists mid. split; [simpl; f_equal; assumption|assumption].
      * right. exists mid. split; [simpl; f_equal; assumption|assumption].
Qed.

(* order_of enumerates exactly the declarations, each name once *)
Lemma order_of_spec (p : ipkg) :
  wf p ->
  NoDup (map fst (order_of p)) /\
  (forall n, In n (map fst (order_of p)) <-> has p n) /\
  (forall n d, In (n, d) (order_of p) <-> declares p n d).
Proof.
  induction p as [pn ds|ms IH] using ipkg_ind'; intros W.
  - cbn. split; [assumption|]. split; intros; reflexivity.
  - apply wf_comb in W. cbn [order_of].
    assert (IH' : Forall (fun m => NoDup (map fst (order_of m)) /\
                                   (forall n, In n (map fst (order_of m)) <-> has m n) /\
                                   (forall n d, In (n, d) (order_of m) <-> declares m n d)) ms).
    { rewrite Forall_forall in *. intros m Hm. apply IH; [assumption|]. apply W. assumption. }
    clear IH W. split; [apply dedupe_NoDup|].
    assert (D : forall n d, In (n, d) (dedupe [] (concat (map order_of ms))) <-> declares (IComb ms) n d).
    { intros n d. rewrite dedupe_In.
      induction IH' as [|m r (ND & Hh & Hd) Hr IHr].
      - cbn. split; [|tauto]. intros (_ & pre & post & E & _). destruct pre; discriminate.
      - rewrite declares_comb_cons. cbn [map concat]. split.
        + intros (_ & pre & post & E & Hn).
          apply app_split_at in E. destruct E as [(mid & E1 & E2)|(mid & E1 & E2)].
          * left. apply Hd. rewrite E1. apply in_app_iff. simpl. tauto.
          * right. subst pre. rewrite map_app in Hn. split.
            -- rewrite <- Hh. intros Hx. apply Hn. apply in_app_iff. tauto.
            -- apply IHr. split; [tauto|]. exists mid, post. split; [assumption|].
               intros Hx. apply Hn. apply in_app_iff. tauto.
        + intros [H|(Hnh & H)].
          * apply Hd in H. split; [tauto|].
            apply in_split in H. destruct H as (l1 & l2 & El).
            (* take the first occurrence of the name n inside order_of m: it is this one since names are distinct *)
            exists l1, (l2 ++ concat (map order_of r)). split.
            -- rewrite El. rewrite <- app_assoc. reflexivity.
            -- rewrite El in ND. rewrite map_app in ND. simpl in ND.
               apply NoDup_remove_2 in ND. intros Hx. apply ND. apply in_app_iff. left. assumption.
          * apply IHr in H. destruct H as (_ & pre & post & E & Hn). split; [tauto|].
            exists (order_of m ++ pre), post. split.
            -- rewrite E. rewrite <- app_assoc. reflexivity.
            -- rewrite map_app. intros Hx. apply in_app_iff in Hx. destruct Hx as [Hx|Hx]; [|tauto].
               apply Hnh. apply Hh. assumption. }
    split; [|exact D].
    intros n. rewrite has_comb. split.
    + intros H. apply in_map_iff in H. destruct H as ([k v] & Ek & H). simpl in Ek. subst k.
      apply D in H. apply declares_comb in H. destruct H as (pre & m & post & -> & Hd & _).
      exists m. split; [apply in_app_iff; simpl; tauto|].
      rewrite Forall_forall in IH'. destruct (IH' m) as (_ & Hh & Hdd); [apply in_app_iff; simpl; tauto|].
      apply Hh. apply in_map_iff. exists (n, v). split; [reflexivity|]. apply Hdd. assumption.
    + intros (m & Hm & Hhas).
      (* some member has n, so a first one exists *)
      assert (exists d, declares (IComb ms) n d).
      { clear D. induction IH' as [|m0 r (ND & Hh & Hd) Hr IHr]; [destruct Hm|].
        destruct (in_dec (list_eq_dec N.eq_dec) n (map fst (order_of m0))) as [Hin|Hnin].
        - apply in_map_iff in Hin. destruct Hin as ([k v] & Ek & Hkv). simpl in Ek. subst k.
          exists v. rewrite declares_comb_cons. left. apply Hd. assumption.
        - destruct Hm as [<-|Hm]; [exfalso; apply Hnin, Hh; assumption|].
          destruct (IHr Hm) as (d & Hdd). exists d. rewrite declares_comb_cons. right.
          split; [rewrite <- Hh; assumption|assumption]. }
      destruct H as (d & Hd). apply D in Hd. apply in_map_iff. exists (n, d). split; [reflexivity|assumption].
Qed.

(* every tree of packages obeys the documented LookupFunc contract, for every
   order of every map (the leaf lists) and every callback *)
Theorem lookupfunc_contract (p : ipkg) (f : callback) (l0 : log) :
  wf p ->
  exists order calls r,
    lookupfunc p log (cb_of f) l0 = (l0 ++ calls, r) /\
    lf_contract order f (length l0) calls r /\
    NoDup (map fst order) /\
    (forall n d, In (n, d) order <-> declares p n d).
Proof.
  intros W. rewrite lookupfunc_obeys.
  destruct (package_lookupfunc_contract (order_of p) f l0) as (calls & r & E & C).
  destruct (order_of_spec p W) as (ND & _ & D).
  exists (order_of p), calls, r. tauto.
Qed.

Lemma NoDup_app_l {A} (a b : list A) : NoDup (a ++ b) -> NoDup a.
Proof.
  induction a as [|x a IH]; simpl; intros H; [constructor|].
  inversion H as [|? ? Hn H']; subst. constructor; [|apply IH; assumption].
  intros Hx. apply Hn. apply in_app_iff. tauto.
Qed.

Theorem lookupfunc_once_per_name (p : ipkg) (f : callback) :
  wf p ->
  exists calls r,
    lookupfunc p log (cb_of f) [] = (calls, r) /\
    NoDup (map fst calls) /\
    (forall n d, In (n, d) calls -> declares p n d) /\
    ((forall i n d, f i n d = CNil) -> r = CNil /\ forall n d, declares p n d -> In (n, d) calls).
Proof.
  intros W. destruct (lookupfunc_contract p f [] W) as (order & calls & r & E & C & ND & D).
  exists calls, r. simpl in E. split; [assumption|].
  destruct (lf_contract_calls_prefix _ _ _ _ _ C) as (rest & Eo).
  split; [|split].
  - rewrite Eo, map_app in ND. eapply NoDup_app_l. exact ND.
  - intros n d H. apply D. rewrite Eo. apply in_app_iff. tauto.
  - intros Hf. destruct C as [(-> & -> & _)|(pre & n & d & post & _ & _ & _ & Hne & _)].
    + split; [reflexivity|]. intros n d H. apply D. assumption.
    + exfalso. apply Hne. apply Hf.
Qed.

Lemma app_pivot_eq {A} (pre pre' : list A) x x' post post' :
  length pre = length pre' -> pre ++ x :: post = pre' ++ x' :: post' -> pre = pre' /\ x = x' /\ post = post'.
Proof.
  revert pre'. induction pre as [|a pre IH]; intros [|b pre'] L E; simpl in *; try discriminate.
  - injection E as -> ->. tauto.
  - injection E as -> E. injection L as L. destruct (IH pre' L E) as (-> & -> & ->). tauto.
Qed.

Theorem package_error_returned (pn : name) (pre post : log) (n : name) (d : decl) (e : N) :
  let f : callback := fun i _ _ => if Nat.eqb i (length pre) then CErr e else CNil in
  lookupfunc (IPkg pn (pre ++ (n, d) :: post)) log (cb_of f) [] = (pre ++ [(n, d)], CErr e).
Proof.
  intros f. cbn [lookupfunc].
  destruct (package_lookupfunc_contract (pre ++ (n, d) :: post) f []) as (calls & r & E & C).
  rewrite E. simpl.
  destruct C as [(_ & _ & Hall)|(pre' & n' & d' & post' & Eo & -> & Hall & Hne & ->)].
  - exfalso. specialize (Hall pre n d post eq_refl). unfold f in Hall. simpl in Hall.
    rewrite Nat.eqb_refl in Hall. discriminate.
  - simpl in Hne. unfold f in Hne at 1. destruct (Nat.eqb_spec (length pre') (length pre)) as [L|L]; [|congruence].
    symmetry in L. destruct (app_pivot_eq _ _ _ _ _ _ L Eo) as (<- & Ex & <-). injection Ex as <- <-.
    simpl. unfold f. rewrite Nat.eqb_refl. reflexivity.
Qed.

(* ------------------------------------------------------------------ Lookup *)

Lemma decl_get_In ds n d : NoDup (map fst ds) -> In (n, d) ds -> decl_get ds n = d.
Proof.
  induction ds as [|[k v] r IH]; simpl; intros ND H; [destruct H|].
  inversion ND as [|? ? Hn ND']; subst.
  destruct H as [H|H].
  - injection H as -> ->. rewrite bytes_eqb_refl. reflexivity.
  - destruct (bytes_eqb k n) eqn:E.
    + apply bytes_eqb_eq in E. subst k. exfalso. apply Hn. apply in_map_iff. exists (n, d). tauto.
    + apply IH; assumption.
Qed.

Lemma decl_get_absent ds n : ~ In n (map fst ds) -> decl_get ds n = dnil.
Proof.
  induction ds as [|[k v] r IH]; simpl; intros H; [reflexivity|].
  destruct (bytes_eqb k n) eqn:E.
  - apply bytes_eqb_eq in E. subst. tauto.
  - apply IH. tauto.
Qed.

Lemma decl_get_perm ds1 ds2 n : NoDup (map fst ds1) -> Permutation ds1 ds2 -> decl_get ds1 n = decl_get ds2 n.
Proof.
  intros ND P.
  assert (ND2 : NoDup (map fst ds2)) by (eapply Permutation_NoDup; [apply Permutation_map, P|assumption]).
  destruct (in_dec (list_eq_dec N.eq_dec) n (map fst ds1)) as [H|H].
  - apply in_map_iff in H. destruct H as ([k v] & Ek & H). simpl in Ek. subst k.
    rewrite (decl_get_In ds1 n v ND H). symmetry. apply decl_get_In; [assumption|].
    eapply Permutation_in; eassumption.
  - rewrite (decl_get_absent ds1 n H). symmetry. apply decl_get_absent.
    intros H2. apply H. eapply Permutation_in; [apply Permutation_sym, Permutation_map, P|assumption].
Qed.

(* CombinedPackage.Lookup: the first member whose Lookup is not nil *)
Lemma lookup_comb_cons m r n :
  lookup (IComb (m :: r)) n = if is_dnil (lookup m n) then lookup (IComb r) n else lookup m n.
Proof. reflexivity. Qed.

Theorem combined_lookup_first ms n :
  (forall pre m post, ms = pre ++ m :: post ->
     (forall m', In m' pre -> lookup m' n = dnil) -> lookup m n <> dnil ->
     lookup (IComb ms) n = lookup m n) /\
  ((forall m, In m ms -> lookup m n = dnil) -> lookup (IComb ms) n = dnil).
Proof.
  induction ms as [|m0 r IH].
  - split; [|reflexivity]. intros pre m post E. destruct pre; discriminate.
  - rewrite lookup_comb_cons. destruct IH as [IH1 IH2]. split.
    + intros pre m post E Hpre Hm. destruct pre as [|x pre]; simpl in E.
      * injection E as -> ->. unfold is_dnil. destruct (N.eqb_spec (lookup m n) 0) as [E0|_]; [contradiction|reflexivity].
      * injection E as -> ->. rewrite (Hpre x) by (simpl; tauto). simpl.
        apply (IH1 pre m post eq_refl); [|assumption]. intros y Hy. apply Hpre. simpl. tauto.
    + intros H. rewrite (H m0) by (simpl; tauto). simpl. apply IH2. intros y Hy. apply H. simpl. tauto.
Qed.

(* all declarations are non-nil values *)
Fixpoint nonnil (p : ipkg) : Prop :=
  match p with
  | IPkg _ ds => forall n d, In (n, d) ds -> d <> dnil
  | IComb ms => (fix all (l : list ipkg) : Prop := match l with [] => True | m :: r => nonnil m /\ all r end) ms
  end.

Lemma nonnil_comb ms : nonnil (IComb ms) <-> Forall nonnil ms.
Proof.
  cbn [nonnil]. induction ms as [|m r IH]; [split; constructor|].
  split.
  - intros [H1 H2]. constructor; [assumption|]. apply IH. assumption.
  - intros H. inversion H; subst. split; [assumption|]. apply IH. assumption.
Qed.

Lemma declares_has p n d : wf p -> declares p n d -> has p n.
Proof.
  intros W H. destruct (order_of_spec p W) as (_ & Hh & Hd).
  apply Hh. apply in_map_iff. exists (n, d). split; [reflexivity|]. apply Hd. assumption.
Qed.

Lemma has_declares p n : wf p -> has p n -> exists d, declares p n d.
Proof.
  intros W H. destruct (order_of_spec p W) as (_ & Hh & Hd).
  apply Hh in H. apply in_map_iff in H. destruct H as ([k v] & Ek & H). simpl in Ek. subst k.
  exists v. apply Hd. assumption.
Qed.

(* Lookup agrees with the declarations enumerated by LookupFunc *)
Theorem lookup_declares (p : ipkg) :
  wf p -> nonnil p ->
  forall n, (forall d, declares p n d -> lookup p n = d /\ d <> dnil) /\ (~ has p n -> lookup p n = dnil).
Proof.
  induction p as [pn ds|ms IH] using ipkg_ind'; intros W NN n.
  - cbn in *. split.
    + intros d H. split; [apply decl_get_In; assumption|]. eapply NN. eassumption.
    + apply decl_get_absent.
  - apply wf_comb in W. apply nonnil_comb in NN.
    induction ms as [|m r IHr].
    + cbn. split; [intros d []|reflexivity].
    + inversion IH as [|? ? IHm IHr']; subst. inversion W as [|? ? Wm Wr]; subst. inversion NN as [|? ? NNm NNr]; subst.
      specialize (IHr IHr' Wr NNr). destruct IHr as [I1 I2]. destruct (IHm Wm NNm n) as [M1 M2].
      rewrite lookup_comb_cons. split.
      * intros d. rewrite declares_comb_cons. intros [H|(Hn & H)].
        -- destruct (M1 d H) as [E Hd]. rewrite E. unfold is_dnil.
           destruct (N.eqb_spec d 0); [contradiction|]. tauto.
        -- rewrite (M2 Hn). simpl. apply I1. assumption.
      * intros H. assert (Hn : ~ has m n) by (intros Hm; apply H; apply has_comb; exists m; simpl; tauto).
        rewrite (M2 Hn). simpl. apply I2. intros Hr. apply H. apply has_comb in Hr.
        destruct Hr as (x & Hx & Hhx). apply has_comb. exists x. simpl. tauto.
Qed.

(* PackageName: the name of the first package, the empty string for an empty combination *)
Lemma pkg_name_comb_cons m r : pkg_name (IComb (m :: r)) = pkg_name m.
Proof. reflexivity. Qed.
Lemma pkg_name_comb_nil : pkg_name (IComb []) = [].
Proof. reflexivity. Qed.

(* ------------------------------------------------------------------ the order really is arbitrary *)

(* q is p with the declarations of every Package listed in another order *)
Fixpoint tree_perm (p q : ipkg) : Prop :=
  match p, q with
  | IPkg pn ds, IPkg qn es => pn = qn /\ Permutation ds es
  | IComb ms, IComb ns =>
    (fix all2 (l : list ipkg) (k : list ipkg) : Prop :=
       match l, k with
       | [], [] => True
       | m :: l1, x :: k1 => tree_perm m x /\ all2 l1 k1
       | _, _ => False
       end) ms ns
  | _, _ => False
  end.

Lemma tree_perm_comb ms ns : tree_perm (IComb ms) (IComb ns) <-> Forall2 tree_perm ms ns.
Proof.
  cbn [tree_perm]. revert ns. induction ms as [|m r IH]; intros [|x k].
  - split; constructor.
  - split; intros H; [destruct H|inversion H].
  - split; intros H; [destruct H|inversion H].
  - split.
    + intros [H1 H2]. constructor; [assumption|]. apply IH. assumption.
    + intros H. inversion H; subst. split; [assumption|]. apply IH. assumption.
Qed.

Lemma tree_perm_spec (p : ipkg) :
  forall q, tree_perm p q ->
    (wf p -> wf q) /\ (forall n, has p n <-> has q n) /\ (forall n d, declares p n d <-> declares q n d).
Proof.
  induction p as [pn ds|ms IH] using ipkg_ind'; intros q T.
  - destruct q as [qn es|]; [|destruct T]. destruct T as [-> P]. cbn. split; [|split].
    + intros ND. eapply Permutation_NoDup; [apply Permutation_map, P|assumption].
    + intros n. split; apply Permutation_in; [apply Permutation_map, P|apply Permutation_sym, Permutation_map, P].
    + intros n d. split; apply Permutation_in; [assumption|apply Permutation_sym; assumption].
  - destruct q as [|ns]; [destruct T|]. apply tree_perm_comb in T.
    revert IH. induction T as [|m x r k Tm Tr IHr]; intros IH.
    + split; [tauto|]. split; intros; reflexivity.
    + inversion IH as [|? ? IHm IHr']; subst. specialize (IHr IHr').
      destruct IHr as (W & H & D). destruct (IHm x Tm) as (Wm & Hm & Dm).
      split; [|split].
      * rewrite !wf_comb. intros F. inversion F; subst. constructor; [tauto|].
        apply wf_comb. apply W. apply wf_comb. assumption.
      * intros n. rewrite !has_comb. split.
        -- intros (y & [<-|Hy] & Hh); [exists x; simpl; rewrite <- Hm; tauto|].
           assert (has (IComb r) n) by (apply has_comb; exists y; tauto).
           apply H in H0. apply has_comb in H0. destruct H0 as (z & Hz & Hhz). exists z. simpl. tauto.
        -- intros (y & [<-|Hy] & Hh); [exists m; simpl; rewrite Hm; tauto|].
           assert (has (IComb k) n) by (apply has_comb; exists y; tauto).
           apply H in H0. apply has_comb in H0. destruct H0 as (z & Hz & Hhz). exists z. simpl. tauto.
      * intros n d. rewrite !declares_comb_cons. rewrite Dm, Hm, D. reflexivity.
Qed.

(* ------------------------------------------------------------------ importers *)

Section ImpInd.
  Variable P : imp -> Prop.
  Hypothesis Hpk : forall pp, P (ImpPackages pp).
  Hypothesis Hfx : forall id only p e, P (ImpFixed id only p e).
  Hypothesis Hcomb : forall ims, Forall P ims -> P (ImpComb ims).
  Fixpoint imp_ind' (i : imp) : P i :=
    match i with
    | ImpPackages pp => Hpk pp
    | ImpFixed id only p e => Hfx id only p e
    | ImpComb ims => Hcomb ims ((fix go (l : list imp) : Forall P l :=
                                   match l with
                                   | [] => Forall_nil P
                                   | m :: r => Forall_cons m (imp_ind' m) (go r)
                                   end) ims)
    end.
End ImpInd.

Definition is_none_none (r : impres) : Prop := r = (None, None).

Section CombinedImporterProofs.
  Variable importer : Type.
  Variable i_import : importer -> bytes -> impres * list N.

  (* CombinedImporter.Import returns the first result that is not (nil, nil), calling the
     importers in order up to that one and no further; (nil, nil) when there is none *)
  Theorem combined_import_first (ims : list importer) (path : bytes) :
    (forall pre i post, ims = pre ++ i :: post ->
       (forall j, In j pre -> fst (i_import j path) = (None, None)) ->
       fst (i_import i path) <> (None, None) ->
       combined_import importer i_import ims path =
       (fst (i_import i path), concat (map (fun j => snd (i_import j path)) (pre ++ [i])))) /\
    ((forall j, In j ims -> fst (i_import j path) = (None, None)) ->
       combined_import importer i_import ims path =
       ((None, None), concat (map (fun j => snd (i_import j path)) ims))).
  Proof.
    induction ims as [|i0 r [IH1 IH2]].
    - split; [|reflexivity]. intros pre i post E. destruct pre; discriminate.
    - split.
      + intros pre i post E Hpre Hi. destruct pre as [|x pre]; simpl in E.
        * injection E as -> ->. simpl. destruct (i_import i path) as [[p e] tr]. simpl in *.
          rewrite app_nil_r. destruct p, e; try reflexivity. contradiction.
        * injection E as -> ->. simpl.
          pose proof (Hpre x (or_introl eq_refl)) as Hx.
          destruct (i_import x path) as [[p e] tr]. simpl in Hx. injection Hx as -> ->. simpl.
          rewrite (IH1 pre i post eq_refl); [reflexivity| |assumption].
          intros j Hj. apply Hpre. simpl. tauto.
      + intros H. simpl. pose proof (H i0 (or_introl eq_refl)) as Hx.
        destruct (i_import i0 path) as [[p e] tr]. simpl in Hx. injection Hx as -> ->. simpl.
        rewrite IH2; [reflexivity|]. intros j Hj. apply H. simpl. tauto.
  Qed.
End CombinedImporterProofs.

Lemma packages_import_spec pp path :
  NoDup (map fst pp) ->
  (forall v, In (path, v) pp -> packages_import pp path = (v, None)) /\
  (~ In path (map fst pp) -> packages_import pp path = (None, None)).
Proof.
  induction pp as [|[k v] r IH]; simpl; intros ND.
  - split; [intros v []|reflexivity].
  - inversion ND as [|? ? Hn ND']; subst. destruct (IH ND') as [I1 I2]. split.
    + intros w [H|H].
      * injection H as -> ->. rewrite bytes_eqb_refl. reflexivity.
      * destruct (bytes_eqb k path) eqn:E; [|apply I1; assumption].
        apply bytes_eqb_eq in E. subst k. exfalso. apply Hn. apply in_map_iff. exists (path, w). tauto.
    + intros H. destruct (bytes_eqb k path) eqn:E.
      * apply bytes_eqb_eq in E. subst. tauto.
      * apply I2. tauto.
Qed.

Lemma packages_import_no_error pp path : snd (packages_import pp path) = None.
Proof.
  induction pp as [|[k v] r IH]; simpl; [reflexivity|]. destruct (bytes_eqb k path); [reflexivity|assumption].
Qed.
