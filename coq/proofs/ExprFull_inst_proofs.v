(* C27 over the primary-expression grammar: the theorems for the model
   instantiated with the generated facts; the facts about the generated
   tables that the proofs use are closed by computation. *)
From Coq Require Import List NArith Bool Lia Arith.
From Verif Require Import Bytes Facts_AstOps Facts_AstPrim PathsM ExprFullM ExprFullOk ExprFullInst ExprFull_base ExprFull_top.
Import ListNotations.
Open Scope N_scope.

(* generated-fact obligations *)
Definition x_facts_ok : bool :=
  negb (gen_NoDirection =? gen_ReceiveDirection) && negb (gen_NoDirection =? gen_SendDirection) &&
  negb (gen_ReceiveDirection =? gen_SendDirection) &&
  negb (starts_result x_kw_text gen_tokenIdentifier gen_tokenLeftBracket gen_result_start KLP) &&
  negb (bytes_eqb gen_tokenArrow gen_tokenMultiplication) &&
  negb (is_nil gen_tokenMultiplication) && no_byte 32 gen_tokenMultiplication.

Lemma x_facts : x_facts_ok = true.
Proof. vm_compute. reflexivity. Qed.

(* strconv.Quote, as modelled, only adds the quotes to a plain path *)
Lemma quote_byte_plain c : (32 <=? c) && (c <? 127) && negb (c =? 34) && negb (c =? 92) = true -> quote_byte c = [c].
Proof.
  intros h. apply andb_prop in h. destruct h as [h h4]. apply andb_prop in h. destruct h as [h h3].
  apply andb_prop in h. destruct h as [h1 h2].
  apply N.leb_le in h1. apply N.ltb_lt in h2. apply negb_true_iff in h3. apply negb_true_iff in h4.
  unfold quote_byte. rewrite h3, h4.
  repeat match goal with |- context [?c =? ?k] => replace (c =? k) with false by (symmetry; apply N.eqb_neq; lia) end.
  replace (c <? 32) with false by (symmetry; apply N.ltb_ge; lia). reflexivity.
Qed.

Lemma x_quote_plain s : plain_path s = true -> x_quote s = 34 :: s ++ [34].
Proof.
  intros h. unfold x_quote. f_equal. f_equal. unfold plain_path in h.
  induction s as [|c r IH]; [reflexivity|]. cbn [forallb map concat] in *. apply andb_prop in h. destruct h as [h1 h2].
  rewrite (quote_byte_plain c h1), (IH h2). reflexivity.
Qed.

Section Inst.
Variable expanded tmpl : bool.

Definition x_norm : ex -> ex := norm gen_bin_prec gen_un_prec gen_OperatorReceive gen_OperatorPointer.

Theorem x_roundtrip_printable : forall guard suffix e,
  x_printable expanded tmpl guard (hd_error suffix) e = true ->
  exists ps, x_pp expanded e = Some ps /\
    x_roundtrip expanded tmpl guard suffix e = RtRes (ROk (Some (x_norm e), suffix)) /\
    xerase (x_norm e) = xerase e.
Proof.
  pose proof x_facts as hf. unfold x_facts_ok in hf.
  repeat (apply andb_prop in hf; destruct hf as [hf ?]).
  apply roundtrip_printable.
  - apply N.eqb_neq. apply negb_true_iff. assumption.
  - apply N.eqb_neq. apply negb_true_iff. assumption.
  - apply N.eqb_neq. apply negb_true_iff. assumption.
  - apply negb_true_iff. assumption.
  - apply x_quote_plain.
  - intros heq. match goal with h : negb (bytes_eqb gen_tokenArrow gen_tokenMultiplication) = true |- _ =>
      apply negb_true_iff in h; rewrite heq in h end.
    assert (bytes_eqb gen_tokenMultiplication gen_tokenMultiplication = true) by (apply bytes_eqb_eq; reflexivity). congruence.
  - split; [apply negb_true_iff; assumption|assumption].
Qed.

Theorem x_roundtrip_type : forall suffix e g0 b0,
  x_printable_type expanded tmpl (hd_error suffix) e = true ->
  exists ps, x_pp expanded e = Some ps /\ x_relex tmpl ps = LexOk (toks ps) /\
    x_pexpr tmpl (fuel_of (toks ps ++ suffix)) (mkfl g0 false true b0) (toks ps ++ suffix) = ROk (Some (x_norm e), suffix) /\
    xerase (x_norm e) = xerase e.
Proof.
  pose proof x_facts as hf. unfold x_facts_ok in hf.
  repeat (apply andb_prop in hf; destruct hf as [hf ?]).
  apply roundtrip_type.
  - apply N.eqb_neq. apply negb_true_iff. assumption.
  - apply N.eqb_neq. apply negb_true_iff. assumption.
  - apply N.eqb_neq. apply negb_true_iff. assumption.
  - apply negb_true_iff. assumption.
  - apply x_quote_plain.
  - intros heq. match goal with h : negb (bytes_eqb gen_tokenArrow gen_tokenMultiplication) = true |- _ =>
      apply negb_true_iff in h; rewrite heq in h end.
    assert (bytes_eqb gen_tokenMultiplication gen_tokenMultiplication = true) by (apply bytes_eqb_eq; reflexivity). congruence.
  - split; [apply negb_true_iff; assumption|assumption].
Qed.

End Inst.
