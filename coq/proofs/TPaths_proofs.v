(* Proofs about the path models (C18): rooted computes the lexical resolution. *)
From Verif Require Import Bytes PathsM PathSpec.
Open Scope N_scope.

(* ---------- split / join ---------- *)

Definition noslash (e : bytes) : bool := forallb (fun c => negb (c =? 47)) e.

Lemma split_slash_nonempty s : split_slash s <> [].
Proof.
  destruct s as [|c r]; cbn [split_slash]; [discriminate|].
  destruct (c =? 47); [discriminate|]. destruct (split_slash r); discriminate.
Qed.

Lemma split_app s t : split_slash (s ++ 47 :: t) = split_slash s ++ split_slash t.
Proof.
  induction s as [|c r IH]; cbn [app split_slash].
  - reflexivity.
  - destruct (c =? 47) eqn:E.
    + rewrite IH. reflexivity.
    + rewrite IH. destruct (split_slash r) as [|e es] eqn:Er.
      * exfalso. eapply split_slash_nonempty; eassumption.
      * reflexivity.
Qed.

Lemma split_noslash e : noslash e = true -> split_slash e = [e].
Proof.
  induction e as [|c r IH]; cbn [noslash forallb split_slash]; intros H; [reflexivity|].
  apply andb_prop in H. destruct H as [Hc Hr]. apply negb_true_iff in Hc. rewrite Hc.
  fold (noslash r) in Hr. rewrite (IH Hr). reflexivity.
Qed.

Lemma split_elems_noslash s : Forall (fun e => noslash e = true) (split_slash s).
Proof.
  induction s as [|c r IH]; cbn [split_slash].
  - constructor; [reflexivity|constructor].
  - destruct (c =? 47) eqn:E.
    + constructor; [reflexivity|assumption].
    + destruct (split_slash r) as [|e es]; [constructor; [|constructor]|].
      * cbn. rewrite E. reflexivity.
      * inversion IH; subst. constructor; [|assumption].
        cbn [noslash forallb]. rewrite E. cbn. assumption.
Qed.

Lemma join_split s : join_slash (split_slash s) = s.
Proof.
  induction s as [|c r IH]; cbn [split_slash]; [reflexivity|].
  destruct (c =? 47) eqn:E.
  - apply N.eqb_eq in E. subst c. cbn [join_slash].
    destruct (split_slash r) as [|e es] eqn:Er; [exfalso; eapply split_slash_nonempty; eassumption|].
    rewrite IH. reflexivity.
  - destruct (split_slash r) as [|e es] eqn:Er; [exfalso; eapply split_slash_nonempty; eassumption|].
    cbn [join_slash] in *. destruct es; cbn [app]; rewrite <- IH; reflexivity.
Qed.

Lemma join_cons e es : es <> [] -> join_slash (e :: es) = e ++ 47 :: join_slash es.
Proof. destruct es; [congruence|reflexivity]. Qed.

Lemma split_join es : es <> [] -> Forall (fun e => noslash e = true) es ->
  split_slash (join_slash es) = es.
Proof.
  induction es as [|e es IH]; intros Hne Hall; [congruence|].
  inversion Hall as [|? ? He Hes]; subst.
  destruct es as [|e2 es'].
  - cbn [join_slash]. apply split_noslash. assumption.
  - rewrite join_cons by discriminate. rewrite split_app, split_noslash by assumption.
    rewrite IH by (discriminate || assumption). reflexivity.
Qed.

(* ---------- utf8 ---------- *)

Ltac splitb H :=
  repeat match type of H with
         | (_ && _ = true) =>
           let H' := fresh H in apply andb_prop in H; destruct H as [H H']
         end.

Lemma valid_utf8_app a : forall b,
  valid_utf8 a = true -> valid_utf8 b = true -> valid_utf8 (a ++ b) = true.
Proof.
  remember (length a) as n eqn:Hn. revert a Hn.
  induction n as [n IH] using lt_wf_ind. intros a Hn b Ha Hb. subst n.
  destruct a as [|b0 r]; [exact Hb|].
  cbn [app valid_utf8] in *.
  destruct (b0 <? 128).
  { eapply IH; try reflexivity; [cbn; lia|assumption|assumption]. }
  destruct (b0 <? 194); [discriminate|].
  destruct (b0 <? 224).
  { destruct r as [|b1 r1]; [discriminate|]. cbn [app]. splitb Ha. rewrite Ha. cbn [andb].
    eapply IH; try reflexivity; [cbn; lia|assumption|assumption]. }
  destruct (b0 <? 240).
  { destruct r as [|b1 [|b2 r2]]; try discriminate. cbn [app]. splitb Ha.
    rewrite Ha, Ha2, Ha1. cbn [andb].
    eapply IH; try reflexivity; [cbn; lia|assumption|assumption]. }
  destruct (b0 <? 245); [|discriminate].
  destruct r as [|b1 [|b2 [|b3 r3]]]; try discriminate. cbn [app]. splitb Ha.
  rewrite Ha, Ha3, Ha2, Ha1. cbn [andb].
  eapply IH; try reflexivity; [cbn; lia|assumption|assumption].
Qed.

Lemma cont47 : cont 47 = false. Proof. reflexivity. Qed.

Lemma valid_utf8_split a : forall b,
  valid_utf8 (a ++ 47 :: b) = true -> valid_utf8 a = true /\ valid_utf8 b = true.
Proof.
  remember (length a) as n eqn:Hn. revert a Hn.
  induction n as [n IH] using lt_wf_ind. intros a Hn b H. subst n.
  destruct a as [|b0 r].
  { cbn [app valid_utf8] in H. change (47 <? 128) with true in H. cbn iota in H. split; [reflexivity|assumption]. }
  cbn [app valid_utf8] in *.
  destruct (b0 <? 128).
  { eapply IH; try reflexivity; [cbn; lia|assumption]. }
  destruct (b0 <? 194); [discriminate|].
  destruct (b0 <? 224).
  { destruct r as [|b1 r1]; cbn [app] in H.
    - rewrite cont47 in H. discriminate.
    - splitb H. rewrite H. cbn [andb]. eapply IH; try reflexivity; [cbn; lia|assumption]. }
  destruct (b0 <? 240).
  { destruct r as [|b1 [|b2 r2]]; cbn [app] in H.
    - destruct b as [|x b']; [discriminate|]. splitb H.
      destruct (b0 =? 224); vm_compute in H; discriminate.
    - splitb H. rewrite cont47 in H1. discriminate.
    - splitb H. rewrite H, H2, H1. cbn [andb]. eapply IH; try reflexivity; [cbn; lia|assumption]. }
  destruct (b0 <? 245); [|discriminate].
  destruct r as [|b1 [|b2 [|b3 r3]]]; cbn [app] in H.
  - destruct b as [|x [|y b']]; try discriminate. splitb H.
    destruct (b0 =? 240); vm_compute in H; discriminate.
  - destruct b as [|x b']; [discriminate|]. splitb H. rewrite cont47 in H2. discriminate.
  - splitb H. rewrite cont47 in H1. discriminate.
  - splitb H. rewrite H, H3, H2, H1. cbn [andb]. eapply IH; try reflexivity; [cbn; lia|assumption].
Qed.

Lemma valid_utf8_join es :
  valid_utf8 (join_slash es) = true <-> Forall (fun e => valid_utf8 e = true) es.
Proof.
  induction es as [|e es IH].
  - split; intros; [constructor|reflexivity].
  - destruct es as [|e2 es'].
    + cbn [join_slash]. split; intros H; [constructor; [assumption|constructor]|inversion H; assumption].
    + rewrite join_cons by discriminate. split; intros H.
      * apply valid_utf8_split in H. destruct H as [H1 H2]. constructor; [assumption|]. apply IH. assumption.
      * inversion H as [|? ? H1 H2]; subst. apply valid_utf8_app; [assumption|].
        change (47 :: join_slash (e2 :: es')) with ([47] ++ join_slash (e2 :: es')).
        apply valid_utf8_app; [reflexivity|]. apply IH. assumption.
Qed.

Lemma valid_utf8_elems s : valid_utf8 s = true -> Forall (fun e => valid_utf8 e = true) (split_slash s).
Proof. intros H. apply valid_utf8_join. rewrite join_split. assumption. Qed.

(* ---------- elements accepted by ValidPath ---------- *)

Lemma is_dot_eq p : is_dot p = true <-> p = [46].
Proof. unfold is_dot. apply bytes_eqb_eq. Qed.
Lemma is_dotdot_eq p : is_dotdot p = true <-> p = [46; 46].
Proof. unfold is_dotdot. apply bytes_eqb_eq. Qed.

Lemma elem_ok_inv e : elem_ok e = true ->
  is_nil e = false /\ is_dot e = false /\ is_dotdot e = false.
Proof.
  unfold elem_ok. intros H. splitb H.
  apply negb_true_iff in H, H0, H1. auto.
Qed.

Lemma clean_step_ok r stk e : elem_ok e = true -> clean_step r stk e = e :: stk.
Proof.
  intros H. apply elem_ok_inv in H. destruct H as (H1 & H2 & H3).
  unfold clean_step. rewrite H1, H2, H3. reflexivity.
Qed.

Lemma fold_ok r es : forall stk, Forall (fun e => elem_ok e = true) es ->
  fold_left (clean_step r) es stk = rev es ++ stk.
Proof.
  induction es as [|e es IH]; intros stk H; [reflexivity|].
  inversion H; subst. cbn [fold_left rev]. rewrite clean_step_ok by assumption.
  rewrite IH by assumption. rewrite <- app_assoc. reflexivity.
Qed.

(* fs_valid unfolded *)
Lemma fs_valid_inv p : fs_valid p = true ->
  valid_utf8 p = true /\ (p = [46] \/ Forall (fun e => elem_ok e = true) (split_slash p)).
Proof.
  unfold fs_valid. destruct (valid_utf8 p); cbn [negb]; [|discriminate].
  destruct (is_dot p) eqn:E; intros H; split; auto.
  - left. apply is_dot_eq. assumption.
  - right. apply Forall_forall. rewrite forallb_forall in H. assumption.
Qed.

Lemma fs_valid_intro es : es <> [] ->
  Forall (fun e => elem_ok e = true) es ->
  Forall (fun e => noslash e = true) es ->
  Forall (fun e => valid_utf8 e = true) es ->
  fs_valid (join_slash es) = true.
Proof.
  intros Hne Hok Hns Hv. unfold fs_valid.
  assert (valid_utf8 (join_slash es) = true) as -> by (apply valid_utf8_join; assumption).
  cbn [negb]. destruct (is_dot (join_slash es)); [reflexivity|].
  rewrite split_join by assumption. apply forallb_forall. apply Forall_forall. assumption.
Qed.

Lemma Forall_removelast {A} (P : A -> Prop) l : Forall P l -> Forall P (removelast l).
Proof.
  induction l as [|x l IH]; intros H; [constructor|].
  inversion H; subst. cbn [removelast]. destruct l; [constructor|]. constructor; auto.
Qed.

(* the directory elements of a valid path are valid elements *)
Lemma dir_elems_ok parent : fs_valid parent = true ->
  Forall (fun e => elem_ok e = true) (dir_elems parent).
Proof.
  intros H. apply fs_valid_inv in H. destruct H as [_ [->|H]].
  - cbn. constructor.
  - apply Forall_removelast. assumption.
Qed.

(* ---------- path.Dir ---------- *)

Lemma removelast_cons {A} (x : A) l : l <> [] -> removelast (x :: l) = x :: removelast l.
Proof. destruct l; [congruence|reflexivity]. Qed.

Lemma dir_part_split p :
  dir_part p = concat (map (fun e => e ++ [47]) (removelast (split_slash p))).
Proof.
  induction p as [|c r IH]; [reflexivity|].
  cbn [dir_part split_slash]. pose proof (split_slash_nonempty r) as Hne.
  destruct (c =? 47) eqn:E.
  - apply N.eqb_eq in E. subst c.
    rewrite removelast_cons by assumption. cbn [map concat app]. rewrite <- IH.
    destruct (dir_part r); reflexivity.
  - rewrite IH. destruct (split_slash r) as [|e es]; [congruence|].
    destruct es as [|e2 es'].
    + reflexivity.
    + rewrite !removelast_cons by discriminate. cbn [map concat].
      destruct e; reflexivity.
Qed.

Lemma split_concat_slash d : Forall (fun e => noslash e = true) d ->
  split_slash (concat (map (fun e => e ++ [47]) d)) = d ++ [[]].
Proof.
  induction d as [|e d IH]; intros H; [reflexivity|].
  inversion H; subst. cbn [map concat]. rewrite <- app_assoc. cbn [app].
  rewrite split_app, split_noslash by assumption. rewrite IH by assumption. reflexivity.
Qed.

Lemma elem_ok_not_abs e rest : elem_ok e = true -> noslash e = true -> is_abs (e ++ rest) = false.
Proof.
  intros H1 H2. destruct e as [|c e']; [discriminate|].
  cbn [app is_abs]. cbn [noslash forallb] in H2. apply andb_prop in H2. destruct H2 as [H2 _].
  apply negb_true_iff in H2. assumption.
Qed.

Lemma path_dir_spec parent : fs_valid parent = true ->
  path_dir parent = match dir_elems parent with [] => [46] | _ :: _ => join_slash (dir_elems parent) end.
Proof.
  intros Hv. pose proof (dir_elems_ok parent Hv) as Hok.
  assert (Forall (fun e => noslash e = true) (dir_elems parent)) as Hns
    by (apply Forall_removelast, split_elems_noslash).
  unfold path_dir. rewrite dir_part_split. fold (dir_elems parent).
  destruct (dir_elems parent) as [|e d] eqn:Ed; [reflexivity|].
  unfold clean. cbn [map concat].
  destruct ((e ++ [47]) ++ concat (map (fun e0 => e0 ++ [47]) d)) as [|x y] eqn:Ebuf.
  { destruct e; discriminate. }
  rewrite <- Ebuf. clear x y Ebuf.
  inversion Hok; subst. inversion Hns; subst.
  rewrite <- app_assoc. rewrite elem_ok_not_abs by assumption.
  rewrite (app_assoc e [47]).
  change ((e ++ [47]) ++ concat (map (fun e0 => e0 ++ [47]) d))
    with (concat (map (fun e0 => e0 ++ [47]) (e :: d))).
  rewrite split_concat_slash by assumption.
  rewrite fold_left_app. rewrite (fold_ok false (e :: d)) by assumption. cbn [fold_left clean_step is_nil orb].
  rewrite app_nil_r, rev_involutive. reflexivity.
Qed.

(* ---------- ValidTemplatePath ---------- *)

Definition dds : bytes := [46; 46; 47].

Lemma strip_dotdot_spec p : exists k, p = concat (repeat dds k) ++ strip_dotdot p.
Proof.
  remember (length p) as n eqn:Hn. revert p Hn.
  induction n as [n IH] using lt_wf_ind. intros p Hn. subst n.
  destruct p as [|c1 [|c2 [|c3 r]]]; try (exists 0%nat; reflexivity).
  cbn [strip_dotdot].
  destruct ((c1 =? 46) && (c2 =? 46) && (c3 =? 47)) eqn:E.
  - splitb E. apply N.eqb_eq in E, E1, E0. subst.
    destruct (IH (length r)) with (p := r) as [k Hk]; [cbn; lia|reflexivity|].
    exists (S k). cbn [repeat concat dds app]. rewrite <- Hk. reflexivity.
  - exists 0%nat. reflexivity.
Qed.

Lemma split_dds k v : split_slash (concat (repeat dds k) ++ v) = repeat dotdot k ++ split_slash v.
Proof.
  induction k as [|k IH]; [reflexivity|].
  cbn [repeat concat]. rewrite <- app_assoc.
  change (dds ++ concat (repeat dds k) ++ v) with ([46; 46] ++ 47 :: (concat (repeat dds k) ++ v)).
  rewrite split_app, IH. reflexivity.
Qed.

(* a valid relative template path is k times "../" followed by a valid path other than "." *)
Lemma vtp_rel name : is_abs name = false -> valid_template_path name = true ->
  exists k v, name = concat (repeat dds k) ++ v /\
              valid_utf8 v = true /\ v <> [] /\
              Forall (fun e => elem_ok e = true) (split_slash v).
Proof.
  intros Ha H. unfold valid_template_path in H. rewrite Ha in H.
  destruct (strip_dotdot_spec name) as [k Hk].
  destruct (is_dot (strip_dotdot name)) eqn:Ed; [discriminate|].
  exists k, (strip_dotdot name). split; [assumption|].
  apply fs_valid_inv in H. destruct H as [Hu [Hd|Hf]].
  - apply is_dot_eq in Hd. congruence.
  - repeat split; try assumption. intros E. rewrite E in Hf. inversion Hf. discriminate.
Qed.

Lemma vtp_abs name : is_abs name = true -> valid_template_path name = true ->
  fs_valid (tl name) = true.
Proof.
  intros Ha H. unfold valid_template_path in H. rewrite Ha in H.
  destruct (is_dot (tl name)); [discriminate|assumption].
Qed.

(* ---------- ".." elements against a stack of valid elements ---------- *)

Lemma is_dotdot_dotdot : is_dotdot dotdot = true. Proof. reflexivity. Qed.

Lemma clean_step_dd_on_dd stk : clean_step false (dotdot :: stk) dotdot = dotdot :: dotdot :: stk.
Proof. reflexivity. Qed.

Lemma fold_dd_dd k : forall j,
  fold_left (clean_step false) (repeat dotdot k) (repeat dotdot (S j)) = repeat dotdot (k + S j).
Proof.
  induction k as [|k IH]; intros j; [reflexivity|].
  cbn [repeat fold_left]. rewrite clean_step_dd_on_dd.
  change (dotdot :: dotdot :: repeat dotdot j) with (repeat dotdot (S (S j))).
  rewrite IH. f_equal. lia.
Qed.

Lemma fold_dd k : forall stk, Forall (fun e => elem_ok e = true) stk ->
  fold_left (clean_step false) (repeat dotdot k) stk =
  if (k <=? length stk)%nat then skipn k stk else repeat dotdot (k - length stk).
Proof.
  induction k as [|k IH]; intros stk H; [reflexivity|].
  cbn [repeat fold_left]. destruct stk as [|top rest].
  - change (clean_step false [] dotdot) with (repeat dotdot 1).
    rewrite fold_dd_dd. cbn [length Nat.leb]. f_equal. lia.
  - inversion H as [|? ? Ht Hr]; subst. apply elem_ok_inv in Ht. destruct Ht as (_ & _ & Ht).
    assert (clean_step false (top :: rest) dotdot = rest) as ->.
    { unfold clean_step. rewrite Ht. reflexivity. }
    rewrite IH by assumption. cbn [length Nat.leb skipn Nat.sub]. reflexivity.
Qed.

Lemma walk_dd k : forall dir, 
  walk dir (repeat dotdot k) = if (k <=? length dir)%nat then Some (rev (skipn k dir)) else None.
Proof.
  induction k as [|k IH]; intros dir; [reflexivity|].
  cbn [repeat walk]. rewrite is_dotdot_dotdot. destruct dir as [|x up]; [reflexivity|].
  rewrite IH. reflexivity.
Qed.

Lemma walk_app a : forall dir b,
  walk dir (a ++ b) = match walk dir a with
                      | Some _ => walk (fold_left (fun d e => if is_dotdot e then tl d else e :: d) a dir) b
                      | None => None
                      end.
Proof.
  induction a as [|e a IH]; intros dir b; [reflexivity|].
  cbn [app walk fold_left]. destruct (is_dotdot e).
  - destruct dir as [|x up]; [reflexivity|]. apply IH.
  - apply IH.
Qed.

Lemma walk_ok vs : forall dir, Forall (fun e => elem_ok e = true) vs ->
  walk dir vs = Some (rev dir ++ vs).
Proof.
  induction vs as [|e vs IH]; intros dir H.
  - cbn. rewrite app_nil_r. reflexivity.
  - inversion H as [|? ? He Hr]; subst. apply elem_ok_inv in He. destruct He as (_ & _ & He).
    cbn [walk]. rewrite He. rewrite IH by assumption. cbn [rev]. rewrite <- app_assoc. reflexivity.
Qed.

Lemma walk_dd_ok k vs dir : Forall (fun e => elem_ok e = true) vs ->
  walk dir (repeat dotdot k ++ vs) =
  if (k <=? length dir)%nat then Some (rev (skipn k dir) ++ vs) else None.
Proof.
  revert dir. induction k as [|k IH]; intros dir H.
  - cbn [repeat app Nat.leb skipn]. apply walk_ok. assumption.
  - cbn [repeat app walk]. rewrite is_dotdot_dotdot. destruct dir as [|x up]; [reflexivity|].
    rewrite IH by assumption. reflexivity.
Qed.

Lemma begins_dotdot_join_dd j vs : begins_dotdot (join_slash (repeat dotdot (S j) ++ vs)) = true.
Proof.
  cbn [repeat app]. destruct (repeat dotdot j ++ vs) as [|x y] eqn:E.
  - reflexivity.
  - rewrite join_cons by discriminate. reflexivity.
Qed.

(* ---------- rooted ---------- *)

Lemma join_buf_two a b : a <> [] -> join_buf [] [a; b] = a ++ 47 :: b.
Proof. destruct a; [congruence|reflexivity]. Qed.

Lemma clean_nonempty p : p <> [] ->
  clean p =
  let out := rev (fold_left (clean_step (is_abs p)) (split_slash p) []) in
  if is_abs p then 47 :: join_slash out
  else match out with [] => [46] | _ => join_slash out end.
Proof. destruct p; [congruence|reflexivity]. Qed.

(* Clean of  dir/name  for a relative valid template path *)
Lemma clean_dir_name d k v :
  Forall (fun e => elem_ok e = true) d -> Forall (fun e => noslash e = true) d ->
  Forall (fun e => elem_ok e = true) (split_slash v) -> 
  clean (match d return bytes with [] => [46] | _ :: _ => join_slash d end ++ 47 :: concat (repeat dds k) ++ v) =
  join_slash (if (k <=? length d)%nat then firstn (length d - k) d ++ split_slash v
              else repeat dotdot (k - length d) ++ split_slash v).
Proof.
  intros Hok Hns Hv. set (dirp := match d return bytes with [] => [46] | _ :: _ => join_slash d end).
  assert (dirp <> []) as Hne.
  { subst dirp. destruct d as [|e d']; [discriminate|]. inversion Hok; subst.
    destruct e; [discriminate|]. destruct d'; [discriminate|]. rewrite join_cons by discriminate. discriminate. }
  assert (is_abs (dirp ++ 47 :: concat (repeat dds k) ++ v) = false) as Habs.
  { subst dirp. destruct d as [|e d']; [reflexivity|]. inversion Hok; inversion Hns; subst.
    destruct d' as [|e2 d2]; [cbn [join_slash]|rewrite join_cons by discriminate; rewrite <- app_assoc];
    apply elem_ok_not_abs; assumption. }
  assert (fold_left (clean_step false) (split_slash dirp) [] = rev d) as Hfd.
  { subst dirp. destruct d as [|e d']; [reflexivity|].
    rewrite split_join by (discriminate || assumption). rewrite fold_ok by assumption.
    apply app_nil_r. }
  rewrite clean_nonempty by (destruct dirp; [congruence|discriminate]).
  cbv zeta. rewrite Habs.
  rewrite split_app, split_dds, !fold_left_app, Hfd.
  assert (Forall (fun e => elem_ok e = true) (rev d)) as Hrd by (apply Forall_rev; assumption).
  rewrite fold_dd by assumption. rewrite rev_length.
  destruct (k <=? length d)%nat eqn:Ek.
  - rewrite fold_ok by assumption. rewrite rev_app_distr, rev_involutive.
    rewrite skipn_rev, rev_involutive.
    destruct (split_slash v) as [|e es] eqn:Ev; [exfalso; eapply split_slash_nonempty; eassumption|].
    destruct (firstn (length d - k) d ++ e :: es) eqn:E2; [destruct (firstn (length d - k) d); discriminate|].
    reflexivity.
  - rewrite fold_ok by assumption. rewrite rev_app_distr, rev_involutive.
    assert (rev (repeat dotdot (k - length d)) = repeat dotdot (k - length d)) as ->.
    { clear. induction (k - length d)%nat as [|m IH]; [reflexivity|].
      cbn [repeat rev]. rewrite IH. clear. induction m; [reflexivity|]. cbn [repeat app]. f_equal. assumption. }
    destruct (split_slash v) as [|e es] eqn:Ev; [exfalso; eapply split_slash_nonempty; eassumption|].
    destruct (repeat dotdot (k - length d) ++ e :: es) eqn:E2; [destruct (repeat dotdot (k - length d)); discriminate|].
    reflexivity.
Qed.

(* rooted is the lexical resolution, with one restriction: a relative reference
   whose resolution begins with two dots (its first element is ".." followed by
   anything, for instance a root directory named "..x") is reported as not existing *)
Theorem rooted_spec parent name :
  fs_valid parent = true -> valid_template_path name = true ->
  rooted parent name =
  match resolve parent name with
  | None => None
  | Some r => if negb (is_abs name) && begins_dotdot r then None else Some r
  end.
Proof.
  intros Hp Hn. unfold rooted, resolve.
  destruct (is_abs name) eqn:Ha; [reflexivity|]. cbn [negb andb].
  destruct (vtp_rel name Ha Hn) as (k & v & -> & Hu & Hne & Hv).
  pose proof (dir_elems_ok parent Hp) as Hok.
  assert (Forall (fun e => noslash e = true) (dir_elems parent)) as Hns
    by (apply Forall_removelast, split_elems_noslash).
  unfold path_join. cbn [forallb].
  assert (is_nil (path_dir parent) = false) as ->.
  { rewrite path_dir_spec by assumption. destruct (dir_elems parent) as [|e d'] eqn:Ed; [reflexivity|].
    inversion Hok; subst. destruct e; [discriminate|]. destruct d'; [reflexivity|].
    rewrite join_cons by discriminate. reflexivity. }
  cbn [andb]. rewrite join_buf_two.
  2:{ rewrite path_dir_spec by assumption. destruct (dir_elems parent) as [|e d'] eqn:Ed; [discriminate|].
      inversion Hok; subst. destruct e; [discriminate|]. destruct d'; [discriminate|].
      rewrite join_cons by discriminate. discriminate. }
  rewrite path_dir_spec by assumption.
  rewrite (clean_dir_name (dir_elems parent) k v Hok Hns Hv).
  rewrite split_dds. rewrite walk_dd_ok by assumption. rewrite rev_length.
  destruct (k <=? length (dir_elems parent))%nat eqn:Ek.
  - rewrite skipn_rev, !rev_involutive. reflexivity.
  - apply Nat.leb_gt in Ek.
    destruct (k - length (dir_elems parent))%nat as [|j] eqn:Ej; [lia|].
    rewrite begins_dotdot_join_dd. reflexivity.
Qed.

Lemma firstn_In {A} (x : A) n : forall l, In x (firstn n l) -> In x l.
Proof.
  induction n as [|n IH]; intros l H; [destruct H|].
  destruct l as [|y l]; [destruct H|]. destruct H as [->|H]; [left; reflexivity|right; auto].
Qed.

(* the result of rooted is a valid name for fs.FS.Open *)
Theorem rooted_fs_valid parent name r :
  fs_valid parent = true -> valid_template_path name = true ->
  rooted parent name = Some r -> fs_valid r = true.
Proof.
  intros Hp Hn. rewrite rooted_spec by assumption. unfold resolve.
  destruct (is_abs name) eqn:Ha.
  - cbn [negb andb]. intros E. injection E as <-. apply vtp_abs; assumption.
  - cbn [negb andb].
    destruct (vtp_rel name Ha Hn) as (k & v & -> & Hu & Hne & Hv).
    pose proof (dir_elems_ok parent Hp) as Hok.
    rewrite split_dds, walk_dd_ok by assumption. rewrite rev_length.
    destruct (k <=? length (dir_elems parent))%nat; [|discriminate].
    rewrite skipn_rev, !rev_involutive.
    destruct (begins_dotdot _); [discriminate|]. intros E. injection E as <-.
    apply fs_valid_inv in Hp. destruct Hp as [Hpu _].
    apply fs_valid_intro.
    + destruct (split_slash v) eqn:Ev; [exfalso; eapply split_slash_nonempty; eassumption|].
      destruct (firstn _ _); discriminate.
    + apply Forall_app. split; [|assumption]. apply Forall_forall. intros x Hx.
      apply firstn_In in Hx. rewrite Forall_forall in Hok. auto.
    + apply Forall_app. split; [|apply split_elems_noslash]. apply Forall_forall. intros x Hx.
      apply firstn_In in Hx. revert x Hx. apply Forall_forall. apply Forall_removelast, split_elems_noslash.
    + apply Forall_app. split; [|apply valid_utf8_elems; assumption]. apply Forall_forall. intros x Hx.
      apply firstn_In in Hx. revert x Hx. apply Forall_forall. apply Forall_removelast, valid_utf8_elems. assumption.
Qed.

(* None exactly when the resolution climbs above the root or begins with two dots *)
Corollary rooted_none parent name :
  fs_valid parent = true -> valid_template_path name = true ->
  (rooted parent name = None <->
   is_abs name = false /\
   (resolve parent name = None \/ exists r, resolve parent name = Some r /\ begins_dotdot r = true)).
Proof.
  intros Hp Hn. rewrite rooted_spec by assumption.
  destruct (resolve parent name) as [r|] eqn:Er.
  - destruct (is_abs name); cbn [negb andb].
    + split; [discriminate|]. intros [H _]. discriminate.
    + destruct (begins_dotdot r) eqn:Eb.
      * split; [|reflexivity]. intros _. split; [reflexivity|]. right. exists r. auto.
      * split; [discriminate|]. intros [_ [H|(r' & H & H')]]; [discriminate|]. injection H as <-. congruence.
  - split; [|reflexivity]. intros _. unfold resolve in Er. destruct (is_abs name); [discriminate|]. auto.
Qed.
