(* C09, JS and JSON contexts: the obligations over the generated trees
   (checkShowJS / checkShowJSON against showInJS / showInJSON), discharged by
   computation for every kind and key kind. Show_js_proofs.v lifts them to
   every descriptor and value. *)
From Coq Require Import List NArith Bool Lia.
From Verif Require Import Bytes ShowTree Facts_show ShowTypesM ShowJsonM ShowLeavesM Json ShowSpecM ShowTree_proofs.
Import ListNotations.
Open Scope N_scope.

Definition asg_false (s : asg) (a : atom) : bool :=
  match asg_get s a with Some false => true | _ => false end.

Lemma asg_false_sound val s a : agrees val s -> asg_false s a = true -> val a = VF.
Proof.
  unfold asg_false. intros Hag H. destruct (asg_get s a) as [[|]|] eqn:E; try discriminate.
  apply (agrees_get val s a false Hag E).
Qed.

Section Checks.
  Variable f : showfn.

  Definition elem_ok (ss : asg) : bool := asg_true ss (ACheck f PElem).

  (* what the accepting path of the checker knows about the key type, restated about the dynamic type of a key *)
  Definition key_asg (ss : asg) : asg :=
    flat_map (fun ab : atom * bool =>
      match fst ab with AImpl PKey i => [(AImpl PSelf i, snd ab)] | _ => [] end) ss.

  (* for a key type that is an interface: the interfaces it is known to implement are implemented by every dynamic key type *)
  Definition key_asg_pos (ss : asg) : asg :=
    flat_map (fun ab : atom * bool =>
      match fst ab with
      | AImpl PKey i => if (i <? n_ifaces) && snd ab then [(AImpl PSelf i, true)] else []
      | _ => []
      end) ss.

  Definition key_paths_ok (pre : asg) (kd : N) : bool :=
    let D := tree_assoc (mapkey_tbl f) kd in
    atoms_ok dyn_atom D &&
    forallb (fun pd : asg * outcome =>
      negb (compatible shared pre (fst pd)) || negb (no_nil (fst pd)) || outcome_eqb (snd pd) OOk) (paths D).

  Definition nil_key_ok : bool :=
    outcome_eqb (eval_tree (dyn_val false None) (tree_assoc (mapkey_tbl f) k_Invalid)) OOk.

  Definition key_ok (ss : asg) (kk : N) : bool :=
    if kk =? k_Interface then
      forallb (fun kd => key_paths_ok (key_asg_pos ss) kd) (below n_kinds) && nil_key_ok
    else key_paths_ok (key_asg ss) kk.

  (* the head of the spec (trusted text, time, error, plain value) as decided along a run time path:
     None when the path did not decide one of the flags it needs *)
  Definition head_atoms : list (atom * hcase) :=
    match f with
    | FJS => [(AIs PSelf w_JS, HTrusted w_JS); (AImpl PSelf i_JSStringer, HTrusted i_JSStringer);
              (AImpl PSelf i_JSEnvStringer, HTrusted i_JSEnvStringer); (AIs PSelf w_Time, HTime); (AImpl PSelf i_Error, HError)]
    | FJSON => [(AIs PSelf w_JSON, HTrusted w_JSON); (AImpl PSelf i_JSONStringer, HTrusted i_JSONStringer);
                (AImpl PSelf i_JSONEnvStringer, HTrusted i_JSONEnvStringer); (AIs PSelf w_Time, HTime); (AImpl PSelf i_Error, HError)]
    end.

  Fixpoint head_walk (sd : asg) (l : list (atom * hcase)) : option hcase :=
    match l with
    | [] => Some HPlain
    | (a, h) :: r =>
      match asg_get sd a with
      | Some true => Some h
      | Some false => head_walk sd r
      | None => None
      end
    end.

  Definition hcase_eqb (a b : hcase) : bool :=
    match a, b with
    | HTrusted c, HTrusted d => c =? d
    | HTime, HTime | HError, HError | HPlain, HPlain => true
    | _, _ => false
    end.

  Definition head_is (sd : asg) (h : hcase) : bool :=
    match head_walk sd head_atoms with Some h' => hcase_eqb h' h | None => false end.

  (* the clause c of the kind switch is the right one for the kind, and the checker looked at the components *)
  Definition class_req (kind kk : N) (ss sd : asg) (c : N) : bool :=
    if c =? k_Bool then kind =? k_Bool
    else if c =? k_Int then (k_Int <=? kind) && (kind <=? k_Int64)
    else if c =? k_Uint then (k_Uint <=? kind) && (kind <=? k_Uintptr)
    else if (c =? k_Float32) || (c =? k_Float64) then kind =? c
    else if c =? k_String then kind =? k_String
    else if c =? k_Slice then (kind =? k_Slice) && elem_ok ss
    else if c =? k_Array then (kind =? k_Array) && elem_ok ss
    else if c =? k_Pointer then (kind =? k_Pointer) && elem_ok ss
    else if c =? k_Struct then (kind =? k_Struct) && asg_true ss ALoop && asg_false sd (AIs PSelf w_Time)
    else if c =? k_Map then (kind =? k_Map) && elem_ok ss && key_ok ss kk
    else false.

  Definition q_node (kind kk : N) (ss : asg) (pd : asg * outcome) : bool :=
    asg_true ss AVisited ||
    match snd pd with
    | OHandled c => negb (c =? 255) && (negb (c =? w_Time) || asg_true (fst pd) (AIs PSelf w_Time)) &&
                    head_is (fst pd) (if c =? w_Time then HTime else HTrusted c)
    | OClass c true => (c =? k_String) && head_is (fst pd) HError
    | OClass c false => class_req kind kk ss (fst pd) c && head_is (fst pd) HPlain
    | _ => false
    end.

  Definition node_table_ok : bool :=
    forallb (fun k => forallb (fun kk =>
        (k =? k_Interface) ||
        pair_check (q_node k kk) (tree_assoc (rec_tbl f) (k * 32 + kk)) (tree_assoc (show_tbl f) k))
      (below n_kinds)) (below n_kinds).

  (* the body of the loop over the fields never returns nil, and goes on only
     past an unexported field or a field that passes the check *)
  Definition field_ok : bool :=
    forallb (fun p : asg * outcome =>
      negb (outcome_eqb (snd p) OOk) &&
      (negb (outcome_eqb (snd p) OContinue) || asg_false (fst p) AExported || asg_true (fst p) (ACheck f PField)))
      (paths (field_tree f)).

  (* a key converted without its String methods is of a kind whose values the model prints *)
  Definition scalar_kind (k : N) : bool :=
    (k =? k_Invalid) || ((k_Bool <=? k) && (k <=? k_Complex128)) || (k =? k_String).

  Definition key_kind_ok : bool :=
    forallb (fun kd =>
      scalar_kind kd ||
      forallb (fun p : asg * outcome =>
        negb (outcome_eqb (snd p) OOk) || asg_true (fst p) (AImpl PSelf i_Stringer) || asg_true (fst p) (AImpl PSelf i_EnvStringer))
        (paths (tree_assoc (mapkey_tbl f) kd))) (below n_kinds).

  (* the nil interface value is written as null *)
  Definition nil_shown_ok : bool :=
    outcome_eqb (eval_tree (dyn_val false None) (tree_assoc (show_tbl f) k_Invalid)) (OHandled 255).
End Checks.

(* isEmptyValue: the clause selected for a kind handles the values of that kind *)
Definition empty_ok : bool :=
  forallb (fun k =>
    match eval_tree (fun _ => VStuck) (tree_assoc gen_isEmptyValue_tbl k) with
    | OClass c _ =>
      if c =? k_Bool then k =? k_Bool
      else if c =? k_Int then (k_Int <=? k) && (k <=? k_Int64)
      else if c =? k_Uint then (k_Uint <=? k) && (k <=? k_Uintptr)
      else if c =? k_Float32 then (k =? k_Float32) || (k =? k_Float64)
      else if c =? k_Array then (k =? k_String) || (k =? k_Map) || (k =? k_Slice) || (k =? k_Array)
      else if c =? k_Interface then (k =? k_Interface) || (k =? k_Pointer) || (k =? k_UnsafePointer)
      else c =? 999
    | _ => false
    end) (below n_kinds).

(* ---- the proof obligations over the generated facts ---- *)

Lemma node_table_ok_true f : node_table_ok f = true.
Proof. destruct f; vm_compute; reflexivity. Qed.

Lemma field_ok_true f : field_ok f = true.
Proof. destruct f; vm_compute; reflexivity. Qed.

Lemma key_kind_ok_true f : key_kind_ok f = true.
Proof. destruct f; vm_compute; reflexivity. Qed.

Lemma nil_shown_ok_true f : nil_shown_ok f = true.
Proof. destruct f; vm_compute; reflexivity. Qed.

Lemma empty_ok_true : empty_ok = true.
Proof. vm_compute. reflexivity. Qed.
