(* Proofs about the model of markdownEscape / markdownCodeBlockEscape (C26). *)
From Verif Require Import Bytes IndexM Index_proofs Facts_md MarkdownM MarkdownSpec MarkdownInert_proofs.
Open Scope N_scope.

(* ------------------------------------------------------------------ *)
(* obligations on the generated tables (finite, by computation)         *)

Definition fact_keys : bool :=
  forallb (fun kv => fst kv <? 256) gen_md_kind_noHTML
  && forallb (fun kv => fst kv <? 256) gen_md_kind_HTML
  && forallb (fun k => k <? 256) gen_md_last_inc
  && forallb (fun k => k <? 256) gen_mdcb_newline.
Lemma fact_keys_ok : fact_keys = true. Proof. vm_compute. reflexivity. Qed.

(* plain mode: the kinds are continue / slash / blank, exactly on the
   characters the specification lists, and last++ goes with the blank case *)
Definition fact_plain_byte (c : N) : bool :=
  let k := md_kind false c in
  ((k =? 0) || (k =? 1) || (k =? 2))
  && Bool.eqb (md_special c) (k =? 1)
  && Bool.eqb (is_blank c) (k =? 2)
  && Bool.eqb (mem gen_md_last_inc c) (k =? 2).
Lemma fact_plain_bytes_ok : forallb fact_plain_byte all_bytes = true.
Proof. vm_compute. reflexivity. Qed.

(* HTML mode: no byte reaches the write section without assigning esc (kind 4),
   last++ goes with the blank case, blanks are the same bytes *)
Definition fact_html_byte (c : N) : bool :=
  let k := md_kind true c in
  ((k =? 0) || (k =? 1) || (k =? 2) || (k =? 3))
  && Bool.eqb (is_blank c) (k =? 2)
  && Bool.eqb (mem gen_md_last_inc c) (k =? 2).
Lemma fact_html_bytes_ok : forallb fact_html_byte all_bytes = true.
Proof. vm_compute. reflexivity. Qed.

Definition fact_consts : bool :=
  bytes_eqb gen_md_slash [92] && bytes_eqb gen_md_nbsp nbsp
  && gen_md_blank_edges_nbsp && gen_md_blank_neighbours_independent
  && (gen_md_comment_count <=? gen_md_comment_minlen) && (gen_md_comment_open_adv <=? gen_md_comment_minlen)
  && (gen_md_cdata_count <=? gen_md_cdata_minlen) && (gen_md_cdata_open_adv <=? gen_md_cdata_minlen)
  && gen_md_comment_keeps_last && gen_md_cdata_recursive_call_allowHTML_false
  && (gen_md_cdata_close_adv + gen_md_cdata_last_off <=? nlen gen_md_cdata_close)
  && (gen_md_cdata_last_off <=? 1)
  && (0 <? nlen gen_md_cdata_close) && (0 <? nlen gen_md_comment_close)
  (* the skips cover exactly the opener and the terminator: the loop resumes at the byte after it *)
  && (gen_md_comment_open_adv =? nlen gen_md_comment_open) && (gen_md_comment_close_adv + 1 =? nlen gen_md_comment_close)
  && (gen_md_cdata_open_adv =? nlen gen_md_cdata_open) && (gen_md_cdata_close_adv + 1 =? nlen gen_md_cdata_close)
  && (gen_md_cdata_last_off =? 1)
  && (gen_md_comment_count =? nlen gen_md_comment_open) && (gen_md_cdata_count =? nlen gen_md_cdata_open)
  && bytes_eqb gen_mdcb_newline [10] && bytes_eqb gen_mdcb_pair_next []
  && bytes_eqb gen_mdcb_indent_tab (cb_indent false) && bytes_eqb gen_mdcb_indent_spaces (cb_indent true).
Lemma fact_consts_ok : fact_consts = true. Proof. vm_compute. reflexivity. Qed.

(* neighbour sets of the blank case: the next byte forces NBSP iff it is a
   blank; the previous byte forces NBSP iff it is a newline before a tab *)
Definition fact_neigh (c d : N) : bool :=
  Bool.eqb (mem (assoc_list gen_md_blank_next_nbsp c) d) (is_blank d)
  && Bool.eqb (mem (assoc_list gen_md_blank_prev_nbsp c) d) ((c =? 9) && (d =? 10)).
Definition fact_neigh_keys : bool :=
  forallb (fun c => forallb (fun k => k <? 256) (assoc_list gen_md_blank_next_nbsp c)
                    && forallb (fun k => k <? 256) (assoc_list gen_md_blank_prev_nbsp c)) [32; 9].
Lemma fact_neigh_ok : forallb (fun c => forallb (fact_neigh c) all_bytes) [32; 9] = true.
Proof. vm_compute. reflexivity. Qed.
Lemma fact_neigh_keys_ok : fact_neigh_keys = true. Proof. vm_compute. reflexivity. Qed.

Lemma is_blank_oob c : 256 <= c -> is_blank c = false.
Proof.
  intros H. unfold is_blank.
  destruct (N.eqb_spec c 32); [lia|]. destruct (N.eqb_spec c 9); [lia|]. reflexivity.
Qed.

Lemma md_kind_oob a c : 256 <= c -> md_kind a c = 0.
Proof.
  intros H. pose proof fact_keys_ok as K. unfold fact_keys in K.
  repeat (apply andb_prop in K; destruct K as [K ?]).
  unfold md_kind. destruct a; rewrite assoc_get_oob; auto.
Qed.

Lemma last_inc_oob c : 256 <= c -> mem gen_md_last_inc c = false.
Proof.
  intros H. pose proof fact_keys_ok as K. unfold fact_keys in K.
  repeat (apply andb_prop in K; destruct K as [K ?]).
  apply mem_oob; auto.
Qed.

Lemma plain_byte c :
  let k := md_kind false c in
  (k = 0 \/ k = 1 \/ k = 2) /\ md_special c = (k =? 1) /\ is_blank c = (k =? 2)
  /\ mem gen_md_last_inc c = (k =? 2).
Proof.
  assert (H : fact_plain_byte c = true).
  { revert c. apply all_N; [exact fact_plain_bytes_ok|]. intros c Hc.
    unfold fact_plain_byte. rewrite md_kind_oob, md_special_oob, is_blank_oob, last_inc_oob by assumption.
    reflexivity. }
  unfold fact_plain_byte in H. cbv zeta in *.
  repeat (apply andb_prop in H; destruct H as [H ?]).
  repeat match goal with X : Bool.eqb _ _ = true |- _ => apply eqb_prop in X end.
  repeat split; try assumption.
  apply orb_prop in H. destruct H as [H|H].
  - apply orb_prop in H. destruct H as [H|H]; apply N.eqb_eq in H; auto.
  - apply N.eqb_eq in H; auto.
Qed.

Lemma html_byte c :
  let k := md_kind true c in
  (k = 0 \/ k = 1 \/ k = 2 \/ k = 3) /\ is_blank c = (k =? 2) /\ mem gen_md_last_inc c = (k =? 2).
Proof.
  assert (H : fact_html_byte c = true).
  { revert c. apply all_N; [exact fact_html_bytes_ok|]. intros c Hc.
    unfold fact_html_byte. rewrite md_kind_oob, is_blank_oob, last_inc_oob by assumption.
    reflexivity. }
  unfold fact_html_byte in H. cbv zeta in *.
  repeat (apply andb_prop in H; destruct H as [H ?]).
  repeat match goal with X : Bool.eqb _ _ = true |- _ => apply eqb_prop in X end.
  repeat split; try assumption.
  apply orb_prop in H. destruct H as [H|H]; [|apply N.eqb_eq in H; auto].
  apply orb_prop in H. destruct H as [H|H]; [|apply N.eqb_eq in H; auto].
  apply orb_prop in H. destruct H as [H|H]; apply N.eqb_eq in H; auto.
Qed.

Lemma is_blank_cases c : is_blank c = true -> c = 32 \/ c = 9.
Proof.
  unfold is_blank. intros H. apply orb_prop in H. destruct H as [H|H]; apply N.eqb_eq in H; auto.
Qed.

Lemma neigh c d : is_blank c = true ->
  mem (assoc_list gen_md_blank_next_nbsp c) d = is_blank d /\
  mem (assoc_list gen_md_blank_prev_nbsp c) d = ((c =? 9) && (d =? 10)).
Proof.
  intros Hc.
  assert (H : fact_neigh c d = true).
  { pose proof fact_neigh_ok as F. pose proof fact_neigh_keys_ok as K.
    unfold fact_neigh_keys in K. cbn [forallb] in F, K.
    apply andb_prop in F. destruct F as [F32 F]. apply andb_prop in F. destruct F as [F9 _].
    apply andb_prop in K. destruct K as [K32 K]. apply andb_prop in K. destruct K as [K9 _].
    apply andb_prop in K32. destruct K32 as [K32a K32b]. apply andb_prop in K9. destruct K9 as [K9a K9b].
    destruct (is_blank_cases c Hc) as [->| ->]; revert d; apply all_N; try assumption; intros d Hd;
      unfold fact_neigh; rewrite !mem_oob, is_blank_oob by assumption;
      (destruct (N.eqb_spec d 10); [lia|]); rewrite andb_false_r; reflexivity. }
  unfold fact_neigh in H. apply andb_prop in H. destruct H as [H1 H2].
  apply eqb_prop in H1. apply eqb_prop in H2. auto.
Qed.

Lemma consts :
  gen_md_slash = [92] /\ gen_md_nbsp = nbsp
  /\ gen_md_comment_count <= gen_md_comment_minlen /\ gen_md_comment_open_adv <= gen_md_comment_minlen
  /\ gen_md_cdata_count <= gen_md_cdata_minlen /\ gen_md_cdata_open_adv <= gen_md_cdata_minlen
  /\ gen_md_cdata_close_adv + gen_md_cdata_last_off <= nlen gen_md_cdata_close
  /\ gen_md_cdata_last_off <= 1
  /\ 0 < nlen gen_md_cdata_close /\ 0 < nlen gen_md_comment_close
  /\ gen_mdcb_newline = [10] /\ gen_mdcb_pair_next = []
  /\ gen_mdcb_indent_tab = cb_indent false /\ gen_mdcb_indent_spaces = cb_indent true.
Proof.
  pose proof fact_consts_ok as H. unfold fact_consts in H.
  repeat (apply andb_prop in H; destruct H as [H ?]).
  repeat match goal with
         | X : bytes_eqb _ _ = true |- _ => apply bytes_eqb_eq in X
         | X : (_ <=? _) = true |- _ => apply N.leb_le in X
         | X : (_ <? _) = true |- _ => apply N.ltb_lt in X
         end.
  repeat split; assumption.
Qed.

(* ------------------------------------------------------------------ *)
(* plain mode (allowHTML = false): the loop computes esc_doc             *)



Lemma blank_decision (pre : bytes) c r :
  is_blank c = true ->
  md_blank_nbsp (pre ++ c :: r) (nlen pre) c = Some (blank_becomes_nbsp (last_opt pre) c r).
Proof.
  intros Hc. unfold md_blank_nbsp.
  destruct pre as [|p0 pre0] using rev_ind.
  - assert (E : nlen (@nil N) = 0) by apply nlen_nil. rewrite E. reflexivity.
  - clear IHpre0. rewrite last_opt_snoc.
    assert (H0 : 0 <? nlen (pre0 ++ [p0]) = true) by (apply N.ltb_lt; rewrite nlen_snoc; lia).
    rewrite H0. cbn [andb].
    destruct r as [|nx r'].
    + assert (H1 : nlen (pre0 ++ [p0]) + 1 <? nlen ((pre0 ++ [p0]) ++ [c]) = false)
        by (apply N.ltb_ge; rewrite !nlen_app, !nlen_cons, !nlen_nil; lia).
      rewrite H1. reflexivity.
    + assert (H1 : nlen (pre0 ++ [p0]) + 1 <? nlen ((pre0 ++ [p0]) ++ c :: nx :: r') = true)
        by (apply N.ltb_lt; rewrite !nlen_app, !nlen_cons; lia).
      rewrite H1, get_prev, get_next.
      destruct (neigh c nx Hc) as [-> _]. destruct (neigh c p0 Hc) as [_ ->].
      cbn [blank_becomes_nbsp]. rewrite orb_comm. reflexivity.
Qed.

Lemma md_loop_plain inner : forall post pre fuel last esc out,
  last <= nlen pre -> (length post < fuel)%nat ->
  md_loop inner false fuel (pre ++ post) (nlen pre) last esc out
  = MOk (out ++ seg (pre ++ post) last (nlen pre) ++ esc_doc_from (last_opt pre) post).
Proof.
  destruct consts as (Hslash & Hnbsp & _).
  induction post as [|c r IH]; intros pre fuel last esc out Hl Hf.
  - destruct fuel; [simpl in Hf; lia|]. cbn [md_loop esc_doc_from].
    rewrite app_nil_r in *. rewrite N.ltb_irrefl.
    destruct (N.eqb_spec last (nlen pre)) as [->|Hne].
    + rewrite seg_same, !app_nil_r. reflexivity.
    + rewrite slice_ok by lia. rewrite app_nil_r. reflexivity.
  - destruct fuel; [simpl in Hf; lia|]. cbn [md_loop].
    assert (Hi : nlen pre <? nlen (pre ++ c :: r) = true)
      by (apply N.ltb_lt; rewrite nlen_app, nlen_cons; lia).
    rewrite Hi, get_app_mid.
    assert (Hs : pre ++ c :: r = (pre ++ [c]) ++ r) by (rewrite <- app_assoc; reflexivity).
    assert (Hrec : forall last' esc' out', last' <= nlen pre + 1 ->
              md_loop inner false fuel (pre ++ c :: r) (nlen pre + 1) last' esc' out'
              = MOk (out' ++ seg (pre ++ c :: r) last' (nlen pre + 1) ++ esc_doc_from (Some c) r)).
    { intros last' esc' out' Hl'. rewrite Hs, <- nlen_snoc with (c := c).
      rewrite IH; [|rewrite nlen_snoc; assumption|simpl in Hf; lia].
      rewrite last_opt_snoc. reflexivity. }
    destruct (plain_byte c) as (Hk & Hsp & Hbl & Hli). cbv zeta in *.
    cbn [esc_doc_from]. unfold esc_block, norm_block.
    destruct Hk as [Hk|[Hk|Hk]]; rewrite Hk in *; cbn [N.eqb Pos.eqb] in *; rewrite Hsp, ?Hbl.
    + (* continue *)
      cbn [andb]. rewrite Hrec by lia. rewrite seg_snoc by assumption.
      rewrite <- !app_assoc. reflexivity.
    + (* esc = slash *)
      unfold md_write. rewrite Hli.
      assert (Hfl : (if last =? nlen pre then Some (last, out)
                     else match slice (pre ++ c :: r) last (nlen pre) with
                          | Some t => Some (nlen pre, out ++ t) | None => None end)
                    = Some (nlen pre, out ++ seg (pre ++ c :: r) last (nlen pre))).
      { destruct (N.eqb_spec last (nlen pre)) as [->|Hne].
        - rewrite seg_same, app_nil_r. reflexivity.
        - rewrite slice_ok; [reflexivity|lia|rewrite nlen_app; lia]. }
      rewrite Hfl, Hrec by lia.
      rewrite <- (N.add_0_r (nlen pre)) at 2. rewrite Hslash.
      replace (seg (pre ++ c :: r) (nlen pre + 0) (nlen pre + 1)) with [c].
      2:{ rewrite N.add_0_r, seg_snoc by lia. rewrite seg_same. reflexivity. }
      rewrite <- !app_assoc. reflexivity.
    + (* blank *)
      assert (Hb : is_blank c = true) by exact Hbl.
      rewrite blank_decision by exact Hb. cbn [andb].
      destruct (blank_becomes_nbsp (last_opt pre) c r).
      * unfold md_write. rewrite Hli.
        assert (Hfl : (if last =? nlen pre then Some (last, out)
                       else match slice (pre ++ c :: r) last (nlen pre) with
                            | Some t => Some (nlen pre, out ++ t) | None => None end)
                      = Some (nlen pre, out ++ seg (pre ++ c :: r) last (nlen pre))).
        { destruct (N.eqb_spec last (nlen pre)) as [->|Hne].
          - rewrite seg_same, app_nil_r. reflexivity.
          - rewrite slice_ok; [reflexivity|lia|rewrite nlen_app; lia]. }
        rewrite Hfl, Hrec by lia. rewrite seg_same, Hnbsp.
        rewrite <- !app_assoc. reflexivity.
      * rewrite Hrec by lia. rewrite seg_snoc by assumption.
        rewrite <- !app_assoc. reflexivity.
Qed.

Theorem markdownEscape_plain_spec s : markdownEscape s false = MOk (esc_doc s).
Proof.
  unfold markdownEscape, markdownEscape_plain.
  pose proof (md_loop_plain (fun _ => MFault) s [] (S (length s)) 0 [] []) as H.
  assert (E : nlen (@nil N) = 0) by apply nlen_nil. rewrite E in H. cbn [app] in H. rewrite H; [|lia|lia].
  rewrite seg_same. reflexivity.
Qed.

(* ------------------------------------------------------------------ *)
(* markdownCodeBlockEscape computes cb_spec                              *)

Lemma mem_single x c : mem [x] c = (c =? x).
Proof. unfold mem. cbn [existsb]. apply orb_false_r. Qed.

Lemma mdcb_loop_spec sp : forall post pre fuel last out,
  last <= nlen pre -> (length post < fuel)%nat ->
  mdcb_loop fuel sp (pre ++ post) (nlen pre) last out
  = MOk (out ++ seg (pre ++ post) last (nlen pre) ++ cb_spec sp post).
Proof.
  destruct consts as (_ & _ & _ & _ & _ & _ & _ & _ & _ & _ & Hnl & Hpair & Htab & Hsp).
  assert (Hind : mdcb_indent sp = cb_indent sp) by (unfold mdcb_indent; destruct sp; assumption).
  induction post as [|c r IH]; intros pre fuel last out Hl Hf.
  - destruct fuel; [simpl in Hf; lia|]. cbn [mdcb_loop cb_spec flat_map].
    rewrite app_nil_r in *. rewrite N.ltb_irrefl.
    destruct (N.eqb_spec last (nlen pre)) as [->|Hne].
    + rewrite seg_same, !app_nil_r. reflexivity.
    + rewrite slice_ok by lia. rewrite app_nil_r. reflexivity.
  - destruct fuel; [simpl in Hf; lia|]. cbn [mdcb_loop].
    assert (Hi : nlen pre <? nlen (pre ++ c :: r) = true)
      by (apply N.ltb_lt; rewrite nlen_app, nlen_cons; lia).
    rewrite Hi, get_app_mid.
    assert (Hs : pre ++ c :: r = (pre ++ [c]) ++ r) by (rewrite <- app_assoc; reflexivity).
    assert (Hrec : forall last' out', last' <= nlen pre + 1 ->
              mdcb_loop fuel sp (pre ++ c :: r) (nlen pre + 1) last' out'
              = MOk (out' ++ seg (pre ++ c :: r) last' (nlen pre + 1) ++ cb_spec sp r)).
    { intros last' out' Hl'. rewrite Hs, <- nlen_snoc with (c := c).
      apply IH; [rewrite nlen_snoc; assumption|simpl in Hf; lia]. }
    rewrite Hnl, mem_single. cbn [cb_spec flat_map]. fold (cb_spec sp r).
    destruct (N.eqb_spec c 10) as [->|Hc].
    + assert (Hp : (if nlen pre + 1 <? nlen (pre ++ 10 :: r)
                    then match get (pre ++ 10 :: r) (nlen pre + 1) with
                         | Some d => Some (mem gen_mdcb_pair_next d) | None => None end
                    else Some false) = Some false).
      { destruct r as [|nx r'].
        - assert (H1 : nlen pre + 1 <? nlen (pre ++ [10]) = false)
            by (apply N.ltb_ge; rewrite nlen_snoc; lia).
          rewrite H1. reflexivity.
        - assert (H1 : nlen pre + 1 <? nlen (pre ++ 10 :: nx :: r') = true)
            by (apply N.ltb_lt; rewrite nlen_app, !nlen_cons; lia).
          rewrite H1, get_next, Hpair. reflexivity. }
      rewrite Hp. rewrite slice_ok; [|lia|rewrite nlen_app, nlen_cons; lia].
      rewrite Hrec by lia. rewrite seg_same, seg_snoc by assumption. rewrite Hind.
      rewrite <- !app_assoc. reflexivity.
    + rewrite Hrec by lia. rewrite seg_snoc by assumption.
      rewrite <- !app_assoc. reflexivity.
Qed.

Theorem markdownCodeBlockEscape_spec s sp : markdownCodeBlockEscape s sp = MOk (cb_spec sp s).
Proof.
  unfold markdownCodeBlockEscape.
  pose proof (mdcb_loop_spec sp s [] (S (length s)) 0 []) as H.
  assert (E : nlen (@nil N) = 0) by apply nlen_nil. rewrite E in H. cbn [app] in H.
  rewrite H; [|lia|lia]. rewrite seg_same. reflexivity.
Qed.

(* ------------------------------------------------------------------ *)
(* HTML mode (allowHTML = true): no index or slice goes out of range     *)

Lemma match_at_some lit : forall s p, p + nlen lit <= nlen s -> match_at lit s p <> None.
Proof.
  induction lit as [|l lit IH]; intros s p H; cbn [match_at]; [discriminate|].
  rewrite nlen_cons in H. destruct (get_lt s p) as [c Hc]; [lia|]. rewrite Hc.
  destruct (c =? l); [|discriminate]. apply IH. lia.
Qed.


Lemma is_open_some lit minlen count s p :
  count <= minlen -> is_open lit minlen count s p <> None.
Proof.
  intros H. unfold is_open. destruct (N.ltb_spec (nlen s) (p + minlen)); [discriminate|].
  apply match_at_some. pose proof (nlen_firstn_le (N.to_nat count) lit). lia.
Qed.

Lemma is_open_true lit minlen count s p :
  is_open lit minlen count s p = Some true -> p + minlen <= nlen s.
Proof.
  unfold is_open. destruct (N.ltb_spec (nlen s) (p + minlen)); [discriminate|]. intros _. assumption.
Qed.

Lemma prefix_of_len p : forall t, prefix_of p t = true -> nlen p <= nlen t.
Proof.
  induction p as [|x p IH]; intros t H; [rewrite nlen_nil; lia|].
  destruct t as [|y t]; [discriminate|]. cbn [prefix_of] in H.
  apply andb_prop in H. destruct H as [_ H]. apply IH in H. rewrite !nlen_cons. lia.
Qed.

Lemma index_from_bound p : forall t k r,
  index_from p t k = Some r -> k <= r /\ r - k + nlen p <= nlen t.
Proof.
  induction t as [|x t IH]; intros k r H; cbn [index_from] in H.
  - destruct (prefix_of p []) eqn:E; [|discriminate]. injection H as <-.
    apply prefix_of_len in E. lia.
  - destruct (prefix_of p (x :: t)) eqn:E.
    + injection H as <-. apply prefix_of_len in E. lia.
    + apply IH in H. rewrite nlen_cons. lia.
Qed.


Lemma tag_loop_safe : forall fuel s i q,
  1 + (nlen s - i) <= N.of_nat fuel -> exists i1, tag_loop fuel s i q = TAt i1 /\ i <= i1.
Proof.
  induction fuel as [|fuel IH]; intros s i q H; [lia|].
  cbn [tag_loop]. destruct (N.ltb_spec i (nlen s)) as [Hi|Hi].
  - destruct (get_lt s i Hi) as [c ->].
    destruct (tag_step q c =? 256).
    + exists i. split; [reflexivity|lia].
    + destruct (IH s (i + 1) (tag_step q c)) as (i1 & E & Hle); [lia|].
      exists i1. split; [exact E|lia].
  - exists i. split; [reflexivity|lia].
Qed.

Lemma plain_ok s : ok_res (markdownEscape_plain s).
Proof.
  pose proof (markdownEscape_plain_spec s) as H. unfold markdownEscape in H. rewrite H. exact I.
Qed.

Lemma md_loop_html_safe : forall fuel s i last esc out,
  last <= i -> last <= nlen s -> 1 + (nlen s - i) <= N.of_nat fuel ->
  ok_res (md_loop markdownEscape_plain true fuel s i last esc out).
Proof.
  destruct consts as (_ & _ & Hcc & Hco & Hdc & Hdo & Hdl & Hdl1 & Hdp & Hcp & _).
  induction fuel as [|fuel IH]; intros s i last esc out Hl Hln Hf; [lia|].
  cbn [md_loop]. destruct (N.ltb_spec i (nlen s)) as [Hi|Hi].
  2:{ destruct (last =? nlen s); [exact I|]. rewrite slice_ok by lia. exact I. }
  destruct (get_lt s i Hi) as [c Hc]. rewrite Hc.
  destruct (html_byte c) as (Hk & Hbl & Hli). cbv zeta in *.
  assert (Hflush : forall o, (if last =? i then Some (last, o)
                     else match slice s last i with Some t => Some (i, o ++ t) | None => None end)
                    = Some (i, o ++ seg s last i)).
  { intros o. destruct (N.eqb_spec last i) as [->|Hne].
    - rewrite seg_same, app_nil_r. reflexivity.
    - rewrite slice_ok by lia. reflexivity. }
  destruct Hk as [Hk|[Hk|[Hk|Hk]]]; rewrite Hk in *; cbn [N.eqb Pos.eqb] in *.
  - (* continue *) apply IH; lia.
  - (* slash *)
    unfold md_write. rewrite Hflush, Hli. apply IH; lia.
  - (* blank *)
    assert (Hb : exists b, md_blank_nbsp s i c = Some b).
    { unfold md_blank_nbsp. destruct ((0 <? i) && (i + 1 <? nlen s)) eqn:E; [|eauto].
      apply andb_prop in E. destruct E as [E1 E2]. apply N.ltb_lt in E1. apply N.ltb_lt in E2.
      destruct (get_lt s (i - 1)) as [x ->]; [lia|]. destruct (get_lt s (i + 1)) as [y ->]; [lia|]. eauto. }
    destruct Hb as [b ->]. destruct b.
    + unfold md_write. rewrite Hflush, Hli. apply IH; lia.
    + apply IH; lia.
  - (* HTML dispatch *)
    destruct (isHTMLComment s i) as [[|]|] eqn:Ecom.
    + (* comment *)
      apply is_open_true in Ecom.
      rewrite slice_ok by lia.
      destruct (index_of gen_md_comment_close (seg s (i + gen_md_comment_open_adv) (nlen s))) as [p|]; [|exact I].
      apply IH; lia.
    + destruct (isCDATA s i) as [[|]|] eqn:Ecd.
      * (* CDATA *)
        apply is_open_true in Ecd.
        assert (Hfl2 : (if last =? i then Some out
                        else match slice s last i with Some t => Some (out ++ t) | None => None end)
                       = Some (out ++ seg s last i)).
        { destruct (N.eqb_spec last i) as [->|Hne].
          - rewrite seg_same, app_nil_r. reflexivity.
          - rewrite slice_ok by lia. reflexivity. }
        rewrite Hfl2. rewrite slice_ok by lia.
        destruct (index_of gen_md_cdata_close (seg s (i + gen_md_cdata_open_adv) (nlen s))) as [p|] eqn:Eidx; [|exact I].
        unfold index_of in Eidx. apply index_from_bound in Eidx. destruct Eidx as [_ Hb].
        rewrite nlen_seg in Hb by lia. rewrite N.sub_0_r in Hb.
        rewrite slice_ok by lia.
        pose proof (plain_ok (seg s (i + gen_md_cdata_open_adv) (i + gen_md_cdata_open_adv + p))) as Hin.
        destruct (markdownEscape_plain (seg s (i + gen_md_cdata_open_adv) (i + gen_md_cdata_open_adv + p)));
          try exact I; try contradiction.
        apply IH; lia.
      * (* tag *)
        destruct (tag_loop_safe (S (length s)) s i 0) as (i1 & -> & Hle).
        { rewrite nlen_eq. lia. }
        apply IH; lia.
      * exfalso. revert Ecd. apply is_open_some. exact Hdc.
    + exfalso. revert Ecom. apply is_open_some. exact Hcc.
Qed.

Theorem markdownEscape_no_fault s a : ok_res (markdownEscape s a).
Proof.
  destruct a.
  - unfold markdownEscape. apply md_loop_html_safe; [lia|lia|]. rewrite nlen_eq. lia.
  - rewrite markdownEscape_plain_spec. exact I.
Qed.

Theorem markdownCodeBlockEscape_no_fault s sp : ok_res (markdownCodeBlockEscape s sp).
Proof. rewrite markdownCodeBlockEscape_spec. exact I. Qed.
