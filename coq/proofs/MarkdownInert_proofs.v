(* C26, specification side: the documented escaping esc_doc is inert and is
   undone by CommonMark backslash unescaping.  No generated table is used here. *)
From Verif Require Import Bytes MarkdownSpec.
Open Scope N_scope.

(* every N is a byte or not: lifting 256-case computations *)
Lemma all_N (P : N -> bool) :
  forallb P all_bytes = true -> (forall c, 256 <= c -> P c = true) -> forall c, P c = true.
Proof.
  intros H1 H2 c. destruct (N.lt_ge_cases c 256); [apply forall_bytes|apply H2]; assumption.
Qed.

Lemma md_special_oob c : 256 <= c -> md_special c = false.
Proof. intros H. unfold md_special. apply mem_oob; [reflexivity|exact H]. Qed.

Lemma special_facts c : md_special c = true -> ascii_punct c = true /\ is_blank c = false.
Proof.
  assert (H : forall c, implb (md_special c) (ascii_punct c && negb (is_blank c)) = true).
  { apply all_N; [vm_compute; reflexivity|]. intros d Hd. rewrite md_special_oob by assumption. reflexivity. }
  intros Hs. specialize (H c). rewrite Hs in H. cbn [implb] in H.
  apply andb_prop in H. destruct H as [H1 H2]. apply negb_true_iff in H2. auto.
Qed.

Lemma special_92 : md_special 92 = true. Proof. reflexivity. Qed.

Lemma not_special_not_92 c : md_special c = false -> (c =? 92) = false.
Proof. intros H. destruct (N.eqb_spec c 92) as [->|]; [rewrite special_92 in H; discriminate|reflexivity]. Qed.

(* ---- unescaping ---- *)
Lemma unesc_block prev c r t :
  unesc false (esc_block prev c r ++ t) = norm_block prev c r ++ unesc false t.
Proof.
  unfold esc_block, norm_block. destruct (md_special c) eqn:Hs.
  - destruct (special_facts c Hs) as [Hp Hb]. rewrite Hb. cbn [andb app unesc N.eqb Pos.eqb].
    rewrite Hp. reflexivity.
  - destruct (is_blank c && blank_becomes_nbsp prev c r).
    + reflexivity.
    + cbn [app unesc]. rewrite (not_special_not_92 c Hs). reflexivity.
Qed.

Lemma unesc_doc_from s : forall prev, unesc false (esc_doc_from prev s) = nbsp_norm_from prev s.
Proof.
  induction s as [|c r IH]; intros prev; [reflexivity|].
  cbn [esc_doc_from nbsp_norm_from]. rewrite unesc_block, IH. reflexivity.
Qed.

Theorem md_unescape_esc_doc s : md_unescape (esc_doc s) = nbsp_norm s.
Proof. apply unesc_doc_from. Qed.

(* ---- backslash escaping ---- *)
Lemma escaped_block prev c r t :
  escaped_ok false (esc_block prev c r ++ t) = escaped_ok false t.
Proof.
  unfold esc_block, norm_block. destruct (md_special c) eqn:Hs.
  - cbn [app escaped_ok N.eqb Pos.eqb]. rewrite Hs. reflexivity.
  - destruct (is_blank c && blank_becomes_nbsp prev c r).
    + reflexivity.
    + cbn [app escaped_ok]. rewrite (not_special_not_92 c Hs), Hs. reflexivity.
Qed.

Lemma escaped_doc_from s : forall prev, escaped_ok false (esc_doc_from prev s) = true.
Proof.
  induction s as [|c r IH]; intros prev; [reflexivity|].
  cbn [esc_doc_from]. rewrite escaped_block. apply IH.
Qed.

(* the scan state after a prefix: true iff an odd run of backslashes ends it *)
Definition scan_st (p0 : bool) (pre : bytes) : bool :=
  fold_left (fun (pend : bool) (c : N) => if pend then false else c =? 92) pre p0.

Lemma escaped_ok_app (pre : bytes) : forall (p0 : bool) (rest : bytes),
  escaped_ok p0 (pre ++ rest) = true -> escaped_ok (scan_st p0 pre) rest = true.
Proof.
  induction pre as [|c pre IH]; intros p0 rest H; [exact H|].
  cbn [app escaped_ok] in H. cbn [scan_st fold_left]. fold (scan_st (if p0 then false else c =? 92) pre).
  apply IH. destruct p0.
  - apply andb_prop in H. apply H.
  - destruct (c =? 92); [exact H|]. apply andb_prop in H. apply H.
Qed.

Lemma scan_st_odd pre : scan_st false pre = Nat.odd (bs_run (rev pre)).
Proof.
  induction pre as [|c pre IH] using rev_ind; [reflexivity|].
  unfold scan_st. rewrite fold_left_app. cbn [fold_left]. fold (scan_st false pre).
  rewrite rev_app_distr. cbn [rev app bs_run]. rewrite IH.
  destruct (c =? 92).
  - rewrite Nat.odd_succ, <- Nat.negb_odd. destruct (Nat.odd (bs_run (rev pre))); reflexivity.
  - destruct (Nat.odd (bs_run (rev pre))); reflexivity.
Qed.

Lemma escaped_ok_odd out pre c post :
  escaped_ok false out = true -> out = pre ++ c :: post -> md_special c = true -> c <> 92 ->
  Nat.odd (bs_run (rev pre)) = true.
Proof.
  intros H -> Hs Hc. apply escaped_ok_app in H. rewrite scan_st_odd in H.
  destruct (Nat.odd (bs_run (rev pre))); [reflexivity|].
  cbn [escaped_ok] in H. apply N.eqb_neq in Hc. rewrite Hc, Hs in H. discriminate.
Qed.

(* ---- blanks ---- *)
Fixpoint blanks_ok (prev : option N) (s : bytes) : bool :=
  match s with
  | [] => match prev with Some p => negb (is_blank p) | None => true end
  | c :: r =>
    (if is_blank c then
       match prev with
       | None => false
       | Some p => negb (is_blank p) && negb ((c =? 9) && (p =? 10))
       end
     else true) && blanks_ok (Some c) r
  end.

(* relation between the previous output byte po and the previous input byte pi *)
Definition prev_rel (po pi : option N) (s : bytes) : Prop :=
  match pi, po with
  | None, None => True
  | Some pv, Some p =>
    (p = pv /\ (is_blank pv = true -> exists nx r, s = nx :: r /\ is_blank nx = false)) \/ p = 160
  | _, _ => False
  end.

Lemma blanks_doc_from s : forall pi po, prev_rel po pi s -> blanks_ok po (esc_doc_from pi s) = true.
Proof.
  induction s as [|c r IH]; intros pi po HR.
  - cbn [esc_doc_from blanks_ok]. destruct pi as [pv|], po as [p|]; cbn [prev_rel] in HR; try contradiction; [|reflexivity].
    destruct HR as [[-> Hb]| ->]; [|reflexivity].
    destruct (is_blank pv); [|reflexivity]. destruct (Hb eq_refl) as (? & ? & ? & _). discriminate.
  - cbn [esc_doc_from]. unfold esc_block, norm_block. destruct (md_special c) eqn:Hs.
    + destruct (special_facts c Hs) as [_ Hb]. cbn [app blanks_ok]. rewrite Hb. cbn [is_blank N.eqb Pos.eqb orb andb].
      apply IH. cbn [prev_rel]. left. split; [reflexivity|]. rewrite Hb. discriminate.
    + destruct (is_blank c) eqn:Hb; cbn [andb].
      * destruct (blank_becomes_nbsp pi c r) eqn:Hn.
        -- cbn [nbsp app blanks_ok is_blank N.eqb Pos.eqb orb andb]. apply IH. cbn [prev_rel]. right. reflexivity.
        -- unfold blank_becomes_nbsp in Hn. destruct pi as [pv|]; [|discriminate]. destruct r as [|nx r']; [discriminate|].
           apply orb_false_iff in Hn. destruct Hn as [Hnx Hpv].
           cbn [app blanks_ok]. rewrite Hb.
           destruct po as [p|]; cbn [prev_rel] in HR; [|contradiction].
           assert (Hp : negb (is_blank p) && negb ((c =? 9) && (p =? 10)) = true).
           { destruct HR as [[-> Hbv]| ->].
             - rewrite Hpv. destruct (is_blank pv); [|reflexivity].
               destruct (Hbv eq_refl) as (x & y & E & Hx). injection E as <- <-. rewrite Hb in Hx. discriminate.
             - cbn. rewrite andb_false_r. reflexivity. }
           rewrite Hp. cbn [andb]. apply IH. cbn [prev_rel]. left. split; [reflexivity|].
           intros _. exists nx, r'. split; [reflexivity|exact Hnx].
      * cbn [app blanks_ok]. rewrite Hb. cbn [andb]. apply IH. cbn [prev_rel]. left. split; [reflexivity|].
        rewrite Hb. discriminate.
Qed.

Definition last_or (p0 : option N) (pre : bytes) : option N :=
  match rev pre with x :: _ => Some x | [] => p0 end.

Lemma blanks_ok_app (pre : bytes) : forall (p0 : option N) (rest : bytes),
  blanks_ok p0 (pre ++ rest) = true -> blanks_ok (last_or p0 pre) rest = true.
Proof.
  induction pre as [|c pre IH]; intros p0 rest H; [exact H|].
  cbn [app blanks_ok] in H. apply andb_prop in H. destruct H as [_ H]. apply IH in H.
  unfold last_or in *. cbn [rev]. destruct (rev pre) as [|x l] eqn:E; cbn [app]; exact H.
Qed.

Lemma last_or_snoc p0 pre x : last_or p0 (pre ++ [x]) = Some x.
Proof. unfold last_or. rewrite rev_app_distr. reflexivity. Qed.

Section BlankConsequences.
  Variable out : bytes.
  Hypothesis Hok : blanks_ok None out = true.

  Lemma blanks_head x post : out = x :: post -> is_blank x = false.
  Proof.
    intros ->. cbn [blanks_ok] in Hok. destruct (is_blank x); [discriminate|reflexivity].
  Qed.

  Lemma blanks_last pre x : out = pre ++ [x] -> is_blank x = false.
  Proof.
    intros ->. replace (pre ++ [x]) with ((pre ++ [x]) ++ []) in Hok by apply app_nil_r.
    apply blanks_ok_app in Hok. rewrite last_or_snoc in Hok. cbn [blanks_ok] in Hok.
    apply negb_true_iff in Hok. exact Hok.
  Qed.

  Lemma blanks_adjacent pre x y post : out = pre ++ x :: y :: post -> is_blank x = true -> is_blank y = false.
  Proof.
    intros -> Hx. replace (pre ++ x :: y :: post) with ((pre ++ [x]) ++ y :: post) in Hok
      by (rewrite <- app_assoc; reflexivity).
    apply blanks_ok_app in Hok. rewrite last_or_snoc in Hok. cbn [blanks_ok] in Hok.
    destruct (is_blank y); [|reflexivity]. rewrite Hx in Hok. discriminate.
  Qed.

  Lemma blanks_no_nl_tab pre post : out <> pre ++ 10 :: 9 :: post.
  Proof.
    intros E. rewrite E in Hok. replace (pre ++ 10 :: 9 :: post) with ((pre ++ [10]) ++ 9 :: post) in Hok
      by (rewrite <- app_assoc; reflexivity).
    apply blanks_ok_app in Hok. rewrite last_or_snoc in Hok. cbn in Hok. discriminate.
  Qed.

  Lemma blanks_indent pre post : out = pre ++ post -> line_start pre -> (indent_cols 0 post < 4)%nat.
  Proof.
    intros E Hl. destruct post as [|c r]; [cbn; lia|]. cbn [indent_cols].
    destruct (N.eqb_spec c 32) as [->|H32].
    - destruct r as [|d r']; [cbn; lia|].
      assert (Hd : is_blank d = false) by (eapply blanks_adjacent; [exact E|reflexivity]).
      unfold is_blank in Hd. apply orb_false_iff in Hd. destruct Hd as [H1 H2].
      cbn [indent_cols]. rewrite H1, H2. lia.
    - destruct (N.eqb_spec c 9) as [->|H9]; [|lia]. exfalso.
      destruct Hl as [->|[p ->]].
      + cbn [app] in E. apply blanks_head in E. discriminate.
      + rewrite <- app_assoc in E. cbn [app] in E. exact (blanks_no_nl_tab _ _ E).
  Qed.
End BlankConsequences.

Theorem esc_doc_inert s : md_inert (esc_doc s).
Proof.
  assert (He : escaped_ok false (esc_doc s) = true) by apply escaped_doc_from.
  assert (Hb : blanks_ok None (esc_doc s) = true) by (apply blanks_doc_from; exact I).
  unfold md_inert. repeat split.
  - intros pre c post E. eapply escaped_ok_odd; eassumption.
  - exact He.
  - apply blanks_head; exact Hb.
  - apply blanks_last; exact Hb.
  - apply blanks_adjacent; exact Hb.
  - apply blanks_no_nl_tab; exact Hb.
  - apply blanks_indent; exact Hb.
Qed.

(* ---- indented code block ---- *)
Lemma cb_stays sp s pre post :
  cb_spec sp s = pre ++ 10 :: post -> exists t, post = cb_indent sp ++ t.
Proof.
  revert pre. induction s as [|c r IH]; intros pre E.
  - destruct pre; discriminate.
  - cbn [cb_spec flat_map] in E. fold (cb_spec sp r) in E.
    destruct (N.eqb_spec c 10) as [->|Hc].
    + destruct pre as [|x pre'].
      * cbn [app] in E. injection E as E. exists (cb_spec sp r). symmetry. exact E.
      * cbn [app] in E. injection E as _ E.
        (* the newline lies inside the indent or later *)
        assert (Hind : forall ind, (forall z, In z ind -> z <> 10) ->
                  forall pre0, ind ++ cb_spec sp r = pre0 ++ 10 :: post -> exists t, post = cb_indent sp ++ t).
        { induction ind as [|z ind IHi]; intros Hz pre0 E0.
          - cbn [app] in E0. eapply IH. exact E0.
          - destruct pre0 as [|y pre1].
            + cbn [app] in E0. injection E0 as E1 _. exfalso. apply (Hz z); [left; reflexivity|exact E1].
            + cbn [app] in E0. injection E0 as _ E0. eapply IHi; [|exact E0].
              intros w Hw. apply Hz. right. exact Hw. }
        eapply Hind; [|exact E]. intros z Hz. destruct sp; cbn in Hz; intuition lia.
    + destruct pre as [|x pre'].
      * cbn [app] in E. injection E as E _. contradiction.
      * cbn [app] in E. injection E as _ E. eapply IH. exact E.
Qed.

Lemma cb_strip_pending ind p t : cb_strip ind p (p ++ t) = cb_strip ind [] t.
Proof.
  induction p as [|x p IH]; [reflexivity|].
  cbn [app cb_strip]. rewrite N.eqb_refl. exact IH.
Qed.

Theorem cb_strip_spec sp s : cb_strip (cb_indent sp) [] (cb_spec sp s) = s.
Proof.
  induction s as [|c r IH]; [reflexivity|].
  cbn [cb_spec flat_map]. fold (cb_spec sp r).
  destruct (N.eqb_spec c 10) as [->|Hc].
  - cbn [app cb_strip N.eqb Pos.eqb]. rewrite cb_strip_pending, IH. reflexivity.
  - cbn [app cb_strip]. apply N.eqb_neq in Hc. rewrite Hc. rewrite IH. reflexivity.
Qed.
