(* builtin.QueryEscape: the two-pass model equals the per-byte specification,
   and percent-decoding gives the input back. *)
From Verif Require Import Bytes Facts_builtin HTMLEscapeM HTMLEscape_proofs BuiltinM.
Open Scope N_scope.

(* ---- the specification, written independently of the generated tables ---- *)

Definition qe_unreserved (c : N) : bool :=
  ((48 <=? c) && (c <=? 57)) || ((97 <=? c) && (c <=? 122)) || ((65 <=? c) && (c <=? 90))
  || (c =? 45) || (c =? 46) || (c =? 95).

Definition hex_lower (d : N) : N := if d <? 10 then 48 + d else 87 + d.

Definition qe_esc (c : N) : bytes :=
  if qe_unreserved c then [c] else [37; hex_lower (c / 16); hex_lower (c mod 16)].

(* strict percent-decoder: unreserved bytes stand for themselves, %HH for the
   byte HH, anything else is rejected *)
Definition hex_val (c : N) : option N :=
  if (48 <=? c) && (c <=? 57) then Some (c - 48)
  else if (97 <=? c) && (c <=? 102) then Some (c - 87)
  else if (65 <=? c) && (c <=? 70) then Some (c - 55)
  else None.

Fixpoint pct_decode (s : bytes) : option bytes :=
  match s with
  | [] => Some []
  | c :: r =>
    if c =? 37 then
      match r with
      | h :: l :: r' =>
        match hex_val h, hex_val l, pct_decode r' with
        | Some a, Some b, Some t => Some (16 * a + b :: t)
        | _, _, _ => None
        end
      | _ => None
      end
    else if qe_unreserved c then
      match pct_decode r with Some t => Some (c :: t) | None => None end
    else None
  end.

(* ---- obligations on the generated facts (finite, by computation) ---- *)

Fixpoint indexed (i : N) (l : list N) : list (N * N) :=
  match l with [] => [] | x :: r => (i, x) :: indexed (i + 1) r end.

Definition pair_eqb (a b : N * N) : bool := (fst a =? fst b) && (snd a =? snd b).
Fixpoint pairs_eqb (a b : list (N * N)) : bool :=
  match a, b with
  | [], [] => true
  | x :: a', y :: b' => pair_eqb x y && pairs_eqb a' b'
  | _, _ => false
  end.

Definition qe_fact_byte (c : N) : bool :=
  match assoc_get gen_QueryEscape_pass2 c with
  | Some (ws, adv) => pairs_eqb ws (indexed 0 (qe_esc c)) && (adv =? nlen (qe_esc c))
  | None => false
  end &&
  match assoc_get gen_QueryEscape_pass1 c with
  | None => qe_unreserved c
  | Some (k, d) => negb (qe_unreserved c) && (k =? 1) && (d =? 1)
  end &&
  match qe_esc c with
  | [x] => (x =? c) && qe_unreserved c
  | [p; h; l] => (p =? 37) && negb (qe_unreserved c) &&
                 match hex_val h, hex_val l with
                 | Some a, Some b => 16 * a + b =? c
                 | _, _ => false
                 end
  | _ => false
  end.

Definition qe_fact_bytes : bool := forallb qe_fact_byte all_bytes.
Definition qe_fact_buf : bool :=
  (gen_QueryEscape_buf_base =? 0) && (gen_QueryEscape_buf_per_len =? 1) && (gen_QueryEscape_buf_per_hex =? 2).

Lemma qe_fact_bytes_ok : qe_fact_bytes = true. Proof. vm_compute. reflexivity. Qed.
Lemma qe_fact_buf_ok : qe_fact_buf = true. Proof. vm_compute. reflexivity. Qed.

Lemma pairs_eqb_eq a b : pairs_eqb a b = true -> a = b.
Proof.
  revert b; induction a as [|[x1 x2] a IH]; destruct b as [|[y1 y2] b]; simpl; try congruence.
  intros H. apply andb_prop in H. destruct H as [H1 H2]. unfold pair_eqb in H1. simpl in H1.
  apply andb_prop in H1. destruct H1 as [Ha Hb]. apply N.eqb_eq in Ha, Hb. subst.
  f_equal. apply IH, H2.
Qed.

Definition qe_cost (c : N) : N := if qe_unreserved c then 0 else 1.

Lemma qe_byte c : c < 256 ->
  assoc_get gen_QueryEscape_pass2 c = Some (indexed 0 (qe_esc c), nlen (qe_esc c)) /\
  assoc_get gen_QueryEscape_pass1 c = (if qe_unreserved c then None else Some (1, 1)) /\
  ((qe_unreserved c = true /\ qe_esc c = [c]) \/
   (qe_unreserved c = false /\ exists h l a b, qe_esc c = [37; h; l] /\ hex_val h = Some a /\ hex_val l = Some b /\ 16 * a + b = c)).
Proof.
  intros Hc. pose proof (forall_bytes _ qe_fact_bytes_ok c Hc) as H. unfold qe_fact_byte in H.
  apply andb_prop in H. destruct H as [H H3]. apply andb_prop in H. destruct H as [H1 H2].
  split; [|split].
  - destruct (assoc_get gen_QueryEscape_pass2 c) as [[ws adv]|]; [|discriminate].
    apply andb_prop in H1. destruct H1 as [Ha Hb]. apply pairs_eqb_eq in Ha. apply N.eqb_eq in Hb. congruence.
  - destruct (assoc_get gen_QueryEscape_pass1 c) as [[k d]|].
    + apply andb_prop in H2. destruct H2 as [H2 Hd]. apply andb_prop in H2. destruct H2 as [Hu Hk].
      apply negb_true_iff in Hu. rewrite Hu. apply N.eqb_eq in Hk, Hd. congruence.
    + rewrite H2. reflexivity.
  - destruct (qe_esc c) as [|x [|h [|l [|? ?]]]]; try discriminate.
    + apply andb_prop in H3. destruct H3 as [Hx Hu]. apply N.eqb_eq in Hx. left. split; congruence.
    + apply andb_prop in H3. destruct H3 as [H3 Hv]. apply andb_prop in H3. destruct H3 as [Hp Hu].
      apply N.eqb_eq in Hp. apply negb_true_iff in Hu. right. split; [exact Hu|].
      destruct (hex_val h) as [a|] eqn:Ea; [|discriminate]. destruct (hex_val l) as [b|] eqn:Eb; [|discriminate].
      apply N.eqb_eq in Hv. exists h, l, a, b. subst x. auto.
Qed.

Lemma qe_buf : gen_QueryEscape_buf_base = 0 /\ gen_QueryEscape_buf_per_len = 1 /\ gen_QueryEscape_buf_per_hex = 2.
Proof.
  pose proof qe_fact_buf_ok as H. unfold qe_fact_buf in H.
  apply andb_prop in H. destruct H as [H H3]. apply andb_prop in H. destruct H as [H1 H2].
  apply N.eqb_eq in H1, H2, H3. auto.
Qed.

(* ---- counting ---- *)

Fixpoint qe_count (s : bytes) : N :=
  match s with [] => 0 | c :: r => qe_cost c + qe_count r end.

Lemma qe_esc_len c : nlen (qe_esc c) = 1 + 2 * qe_cost c.
Proof. unfold qe_esc, qe_cost. destruct (qe_unreserved c); rewrite ?nlen_cons, ?nlen_nil; lia. Qed.

Lemma qe_flat_len s : nlen (flat_map qe_esc s) = nlen s + 2 * qe_count s.
Proof.
  induction s as [|c r IH]; cbn [flat_map qe_count]; [rewrite nlen_nil; lia|].
  rewrite nlen_app, nlen_cons, IH, qe_esc_len. lia.
Qed.

Lemma qe_count_0_id s : is_bytes s = true -> qe_count s = 0 -> flat_map qe_esc s = s.
Proof.
  induction s as [|c r IH]; cbn [flat_map qe_count is_bytes forallb]; [reflexivity|].
  intros Hb H0. apply andb_prop in Hb. destruct Hb as [Hc Hr].
  unfold qe_cost in H0. unfold qe_esc. destruct (qe_unreserved c); [|lia].
  cbn [app]. f_equal. apply IH; [exact Hr|lia].
Qed.

Lemma qe_count_app a b : qe_count (a ++ b) = qe_count a + qe_count b.
Proof. induction a as [|c a IH]; cbn [app qe_count]; [reflexivity|]. rewrite IH. lia. Qed.

(* ---- pass 1 ---- *)

Lemma qe_pass1_num s : is_bytes s = true -> forall i last nh,
  snd (qe_pass1 s i last nh) = nh + qe_count s.
Proof.
  induction s as [|c r IH]; intros Hb i last nh; cbn [qe_pass1 qe_count]; [simpl; lia|].
  cbn [is_bytes forallb] in Hb. apply andb_prop in Hb. destruct Hb as [Hc Hr]. apply N.ltb_lt in Hc.
  destruct (qe_byte c Hc) as (_ & H1 & _). rewrite H1. unfold qe_cost.
  destruct (qe_unreserved c); rewrite IH by exact Hr; lia.
Qed.

(* either nothing is escaped and last is unchanged, or last points just after
   the last escaped byte: the tail from there on needs no escaping *)
Lemma qe_pass1_last s : is_bytes s = true -> forall i last nh,
  let l' := fst (qe_pass1 s i last nh) in
  (qe_count s = 0 /\ l' = last) \/
  (i < l' /\ l' <= i + nlen s /\ qe_count (skipn (N.to_nat (l' - i)) s) = 0).
Proof.
  induction s as [|c r IH]; intros Hb i last nh; cbn [qe_pass1 qe_count].
  - left. split; reflexivity.
  - cbn [is_bytes forallb] in Hb. apply andb_prop in Hb. destruct Hb as [Hc Hr]. apply N.ltb_lt in Hc.
    destruct (qe_byte c Hc) as (_ & H1 & _). rewrite H1. unfold qe_cost. rewrite nlen_cons.
    destruct (qe_unreserved c) eqn:Hu.
    + destruct (IH Hr (i + 1) last nh) as [[H0 Hl]|(Ha & Hb' & Hc')].
      * left. split; [lia|exact Hl].
      * right. cbv zeta. split; [lia|]. split; [lia|].
        replace (N.to_nat (fst (qe_pass1 r (i + 1) last nh) - i)) with (S (N.to_nat (fst (qe_pass1 r (i + 1) last nh) - (i + 1)))) by lia.
        cbn [skipn]. exact Hc'.
    + destruct (IH Hr (i + 1) (i + 1) (nh + 1)) as [[H0 Hl]|(Ha & Hb' & Hc')].
      * right. cbv zeta. rewrite Hl. split; [lia|]. split; [lia|].
        replace (N.to_nat (i + 1 - i)) with 1%nat by lia. cbn [skipn]. exact H0.
      * right. cbv zeta. split; [lia|]. split; [lia|].
        replace (N.to_nat (fst (qe_pass1 r (i + 1) (i + 1) (nh + 1)) - i)) with (S (N.to_nat (fst (qe_pass1 r (i + 1) (i + 1) (nh + 1)) - (i + 1)))) by lia.
        cbn [skipn]. exact Hc'.
Qed.

(* ---- pass 2 ---- *)

Lemma qe_writes_app pre done l : forall k,
  (length l <= k)%nat ->
  qe_writes ((pre ++ done) ++ repeat 0 k) (nlen pre) (indexed (nlen done) l)
  = Some ((pre ++ done ++ l) ++ repeat 0 (k - length l)).
Proof.
  revert done; induction l as [|x l IH]; intros done k Hk; cbn [indexed qe_writes length].
  - rewrite app_nil_r, Nat.sub_0_r. reflexivity.
  - cbn [length] in Hk.
    replace (nlen pre + nlen done) with (nlen (pre ++ done)) by apply nlen_app.
    rewrite set_at_app by lia.
    replace ((pre ++ done) ++ [x] ++ repeat 0 (k - 1)) with ((pre ++ (done ++ [x])) ++ repeat 0 (k - 1))
      by (rewrite <- !app_assoc; reflexivity).
    replace (nlen done + 1) with (nlen (done ++ [x])) by (rewrite nlen_app, nlen_cons, nlen_nil; lia).
    rewrite IH by lia. f_equal. rewrite <- !app_assoc. cbn [app].
    replace (k - 1 - length l)%nat with (k - S (length l))%nat by lia. reflexivity.
Qed.

Lemma qe_pass2_spec rest : is_bytes rest = true -> forall i last pre k,
  i <= last -> last - i <= nlen rest ->
  let body := firstn (N.to_nat (last - i)) rest in
  (length (flat_map qe_esc body) <= k)%nat ->
  qe_pass2 rest i last (nlen pre) (pre ++ repeat 0 k)
  = Some ((pre ++ flat_map qe_esc body) ++ repeat 0 (k - length (flat_map qe_esc body)),
          nlen pre + nlen (flat_map qe_esc body)).
Proof.
  induction rest as [|c r IH]; intros Hb i last pre k Hil Hlen body Hk.
  - rewrite nlen_nil in Hlen. assert (last = i) by lia. subst last.
    cbn [qe_pass2]. rewrite N.leb_refl. subst body. rewrite firstn_nil. cbn [flat_map length].
    rewrite ?app_nil_r, ?nlen_nil, ?Nat.sub_0_r, ?N.add_0_r. reflexivity.
  - cbn [qe_pass2]. destruct (N.leb_spec last i) as [Hle|Hlt].
    + assert (last = i) by lia. subst last. subst body. rewrite N.sub_diag. cbn [N.to_nat firstn flat_map length].
      rewrite ?app_nil_r, ?nlen_nil, ?Nat.sub_0_r, ?N.add_0_r. reflexivity.
    + cbn [is_bytes forallb] in Hb. apply andb_prop in Hb. destruct Hb as [Hc Hr]. apply N.ltb_lt in Hc.
      destruct (qe_byte c Hc) as (H2 & _ & _). rewrite H2.
      subst body. replace (N.to_nat (last - i)) with (S (N.to_nat (last - (i + 1)))) in * by lia.
      cbn [firstn flat_map] in *. rewrite app_length in Hk.
      assert (Hw : qe_writes (pre ++ repeat 0 k) (nlen pre) (indexed 0 (qe_esc c))
                   = Some ((pre ++ qe_esc c) ++ repeat 0 (k - length (qe_esc c)))).
      { pose proof (qe_writes_app pre [] (qe_esc c) k) as Hw. rewrite app_nil_r in Hw. apply Hw. lia. }
      rewrite Hw. clear Hw.
      rewrite nlen_cons in Hlen.
      replace (nlen pre + nlen (qe_esc c)) with (nlen (pre ++ qe_esc c)) by apply nlen_app.
      rewrite IH; [|exact Hr|lia|lia|lia].
      f_equal. f_equal.
      * rewrite app_length, <- !app_assoc, Nat.sub_add_distr. reflexivity.
      * rewrite !nlen_app. lia.
Qed.

(* ---- the theorem ---- *)

Theorem QueryEscape_spec s : is_bytes s = true -> QueryEscape s = Some (flat_map qe_esc s).
Proof.
  intros Hb. unfold QueryEscape.
  destruct (qe_pass1 s 0 0 0) as [last nh] eqn:Hp.
  pose proof (qe_pass1_num s Hb 0 0 0) as Hn. rewrite Hp in Hn. cbn [snd] in Hn. rewrite N.add_0_l in Hn.
  pose proof (qe_pass1_last s Hb 0 0 0) as Hl. cbv zeta in Hl. rewrite Hp in Hl. cbn [fst] in Hl.
  destruct qe_buf as (B0 & B1 & B2). rewrite B0, B1, B2.
  destruct (N.eqb_spec nh 0) as [Hz|Hnz].
  - rewrite qe_count_0_id; [reflexivity|exact Hb|lia].
  - destruct Hl as [[H0 _]|(Hl0 & Hl1 & Htail)]; [lia|].
    rewrite N.sub_0_r, N.add_0_l in *.
    set (ln := N.to_nat last) in *.
    assert (Hln : (ln <= length s)%nat) by (rewrite nlen_eq in Hl1; lia).
    assert (Hsplit : qe_count s = qe_count (firstn ln s)).
    { rewrite <- (firstn_skipn ln s) at 1. rewrite qe_count_app, Htail. lia. }
    pose proof (qe_flat_len (firstn ln s)) as Hfl. rewrite !nlen_eq in Hfl. rewrite firstn_length_le in Hfl by lia.
    assert (H2 : qe_pass2 s 0 last 0 (repeat 0 (N.to_nat (1 * nlen s + 2 * nh)))
                 = Some (flat_map qe_esc (firstn ln s) ++ repeat 0 (N.to_nat (1 * nlen s + 2 * nh) - length (flat_map qe_esc (firstn ln s))),
                         nlen (flat_map qe_esc (firstn ln s)))).
    { pose proof (qe_pass2_spec s Hb 0 last [] (N.to_nat (1 * nlen s + 2 * nh))) as H2.
      cbv zeta in H2. replace (N.to_nat (last - 0)) with ln in H2 by lia.
      rewrite (@nlen_nil N) in H2. cbn [app] in H2. rewrite N.add_0_l in H2.
      apply H2; [lia|lia|rewrite nlen_eq; lia]. }
    rewrite H2. clear H2.
    set (fm := flat_map qe_esc (firstn ln s)) in *.
    assert (Hbs : is_bytes (skipn ln s) = true).
    { unfold is_bytes in *. rewrite <- (firstn_skipn ln s), forallb_app in Hb. apply andb_prop in Hb. apply Hb. }
    assert (Hwhole : flat_map qe_esc s = fm ++ skipn ln s).
    { rewrite <- (firstn_skipn ln s) at 1. rewrite flat_map_app. fold fm. f_equal.
      apply qe_count_0_id; assumption. }
    rewrite Hwhole.
    set (k := (N.to_nat (1 * nlen s + 2 * nh) - length fm)%nat).
    assert (Hk : k = length (skipn ln s)).
    { subst k. rewrite skipn_length, nlen_eq. lia. }
    destruct (N.eqb_spec (nlen fm) (nlen (fm ++ repeat 0 k))) as [He|Hne].
    + rewrite nlen_app, !nlen_eq, repeat_length in He. assert (k = 0%nat) by lia.
      assert (Hnil : skipn ln s = []) by (apply length_zero_iff_nil; lia).
      rewrite Hnil, H. reflexivity.
    + destruct (N.ltb_spec (nlen s) last); [lia|].
      rewrite copy_at_app by lia. rewrite Hk, Nat.sub_diag. cbn [repeat]. rewrite app_nil_r. reflexivity.
Qed.

(* ---- decoding and output alphabet ---- *)

Lemma pct_decode_esc c t : c < 256 ->
  pct_decode (qe_esc c ++ t) = match pct_decode t with Some u => Some (c :: u) | None => None end.
Proof.
  intros Hc. destruct (qe_byte c Hc) as (_ & _ & [[Hu He]|(Hu & h & l & a & b & He & Ha & Hb & Hv)]); rewrite He.
  - cbn [app pct_decode]. rewrite Hu.
    destruct (N.eqb_spec c 37) as [->|_]; [discriminate Hu|]. reflexivity.
  - cbn [app pct_decode]. rewrite N.eqb_refl, Ha, Hb. destruct (pct_decode t); [rewrite Hv|]; reflexivity.
Qed.

Theorem qe_decodes s : is_bytes s = true -> pct_decode (flat_map qe_esc s) = Some s.
Proof.
  induction s as [|c r IH]; intros Hb; cbn [flat_map]; [reflexivity|].
  cbn [is_bytes forallb] in Hb. apply andb_prop in Hb. destruct Hb as [Hc Hr]. apply N.ltb_lt in Hc.
  rewrite pct_decode_esc by exact Hc. rewrite IH by exact Hr. reflexivity.
Qed.

(* every output byte is an unreserved character, or belongs to a %HH escape
   (a percent sign or a lower-case hexadecimal digit, itself unreserved) *)
Theorem qe_alphabet s : is_bytes s = true ->
  forallb (fun x => qe_unreserved x || (x =? 37)) (flat_map qe_esc s) = true.
Proof.
  induction s as [|c r IH]; intros Hb; cbn [flat_map]; [reflexivity|].
  cbn [is_bytes forallb] in Hb. apply andb_prop in Hb. destruct Hb as [Hc Hr].
  rewrite forallb_app, IH by exact Hr. rewrite andb_true_r. apply N.ltb_lt in Hc.
  revert Hc. generalize c. apply (forall_bytes (fun c => forallb (fun x => qe_unreserved x || (x =? 37)) (qe_esc c))).
  vm_compute. reflexivity.
Qed.

Theorem QueryEscape_decodes s : is_bytes s = true ->
  exists out, QueryEscape s = Some out /\ pct_decode out = Some s /\
              forallb (fun x => qe_unreserved x || (x =? 37)) out = true.
Proof.
  intros Hb. exists (flat_map qe_esc s). split; [apply QueryEscape_spec, Hb|].
  split; [apply qe_decodes, Hb|apply qe_alphabet, Hb].
Qed.
