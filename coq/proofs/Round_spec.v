(* The rounding functions of the model on floats, integers and rationals
   (round_pos, round_fl, round_Z, round_rat with quo_bits) satisfy the
   specification "nearest element of the format, ties to even"; rounding is
   monotone. *)
From Coq Require Import ZArith Bool Lia QArith Qpower Qabs Lqa.
From Verif Require Import Facts_consts ConstsM Consts_proofs Consts_proofs2 Consts_proofs3 Round_core Round_proofs.
Open Scope Z_scope.

(* r is x rounded to the format (prec, emin): r belongs to the format, no
   element of the format is nearer to x, and r = q' * 2^e' lies within half
   a unit 2^e' of x with q' even in the case of a tie *)
Definition rounds_to (prec : Z) (emin : option Z) (x r : Q) : Prop :=
  in_format prec emin r /\
  (forall y, in_format prec emin y -> (Qabs (x - r) <= Qabs (x - y))%Q) /\
  exists q' e', (r == inject_Z q' * T e')%Q /\
    (Qabs (x - r) <= (1 # 2) * T e')%Q /\
    ((Qabs (x - r) == (1 # 2) * T e')%Q -> Z.even q' = true).

Lemma in_format_ext prec emin y y' : (y == y')%Q -> in_format prec emin y -> in_format prec emin y'.
Proof. intros E [k [c [H1 H2]]]. exists k, c. split; [rewrite <- E; exact H1|exact H2]. Qed.

Lemma in_format_opp prec emin y : in_format prec emin y -> in_format prec emin (- y)%Q.
Proof.
  intros [k [c [H1 [H2 H3]]]]. exists (- k), c. split; [|split; [rewrite Z.abs_opp; exact H2|exact H3]].
  rewrite H1, inject_Z_opp. ring.
Qed.

Lemma in_format_0 prec emin : 0 < prec -> in_format prec emin 0%Q.
Proof.
  intros Hp. exists 0, (match emin with Some em => em | None => 0 end). split; [|split].
  - change (inject_Z 0) with 0%Q. ring.
  - cbn. apply Z.pow_pos_nonneg; lia.
  - destruct emin; [lia|exact I].
Qed.

Lemma rounds_to_ext prec emin x x' r r' : (x == x')%Q -> (r == r')%Q ->
  rounds_to prec emin x r -> rounds_to prec emin x' r'.
Proof.
  intros Ex Er [H1 [H2 [q' [e' [H3 [H4 H5]]]]]]. split; [|split].
  - exact (in_format_ext _ _ _ _ Er H1).
  - intros y Hy. rewrite <- Ex, <- Er. exact (H2 y Hy).
  - exists q', e'. rewrite <- Ex, <- Er. split; [exact H3|split; [exact H4|exact H5]].
Qed.

Lemma Qabs_opp_sub x r : (Qabs (- x - - r) == Qabs (x - r))%Q.
Proof. setoid_replace (- x - - r)%Q with (- (x - r))%Q by ring. apply Qabs_opp. Qed.

Lemma rounds_to_opp prec emin x r : rounds_to prec emin x r -> rounds_to prec emin (- x)%Q (- r)%Q.
Proof.
  intros [H1 [H2 [q' [e' [H3 [H4 H5]]]]]]. split; [|split].
  - exact (in_format_opp _ _ _ H1).
  - intros y Hy. rewrite Qabs_opp_sub.
    setoid_replace (- x - y)%Q with (- (x - - y))%Q by ring. rewrite Qabs_opp.
    apply H2. exact (in_format_opp _ _ _ Hy).
  - exists (- q'), e'. rewrite Qabs_opp_sub. split; [rewrite H3, inject_Z_opp; ring|].
    split; [exact H4|]. rewrite Z.even_opp. exact H5.
Qed.

Lemma rounds_to_0 prec emin : 0 < prec -> rounds_to prec emin 0%Q 0%Q.
Proof.
  intros Hp. split; [exact (in_format_0 prec emin Hp)|]. split.
  - intros y _. setoid_replace (0 - 0)%Q with 0%Q by ring. change (Qabs 0) with 0%Q. apply Qabs_nonneg.
  - exists 0, 0. split; [change (inject_Z 0) with 0%Q; ring|].
    setoid_replace (0 - 0)%Q with 0%Q by ring. change (Qabs 0) with 0%Q.
    split; [rewrite T_0; lra|]. intros _. reflexivity.
Qed.

(* the value of a (rounded magnitude, exponent) pair *)
Definition pairQ (p : Z * Z) : Q := (inject_Z (fst p) * T (snd p))%Q.

(* ---- magnitudes: the exact value (a # d) * 2^e with integer part m = a / d *)
Theorem round_mag_rounds prec emin a d e : 0 < prec -> 0 < a / Zpos d ->
  negb (a mod Zpos d =? 0) = false \/ prec < bitlen (a / Zpos d) ->
  rounds_to prec emin ((a # d) * T e)
    (pairQ (round_mag prec emin (Z.to_pos (a / Zpos d)) e (negb (a mod Zpos d =? 0)))).
Proof.
  intros Hp Hm Hs. split; [|split].
  - exact (round_mag_in_format prec emin Hp a d e Hm).
  - exact (round_mag_nearest prec emin Hp a d e Hm Hs).
  - eexists _, _. split; [reflexivity|]. exact (round_mag_half_ulp prec emin Hp a d e Hm Hs).
Qed.

(* a float magnitude m * 2^e *)
Theorem round_mag_fl_rounds prec emin m e : 0 < prec ->
  rounds_to prec emin (inject_Z (Zpos m) * T e) (pairQ (round_mag prec emin m e false)).
Proof.
  intros Hp. pose proof (round_mag_rounds prec emin (Zpos m) 1 e Hp) as H.
  rewrite Z.div_1_r, Z.mod_1_r in H. cbn [Z.eqb negb Z.to_pos] in H.
  apply H; [lia|left; reflexivity].
Qed.

(* ---- quo_bits: the quotient has more than prec + 1 bits and the sticky flag tells whether it is exact *)
Lemma quo_bits_spec prec n d : 0 < prec ->
  let k := Z.max 0 (prec + 2 + bitlen (Zpos d) - bitlen (Zpos n)) in
  let a := Zpos n * 2 ^ k in
  quo_bits prec n d = (Z.to_pos (a / Zpos d), - k, negb (a mod Zpos d =? 0)) /\
  2 ^ (prec + 1) <= a / Zpos d /\ 0 <= k.
Proof.
  intros Hp k a. split; [reflexivity|]. split; [|lia].
  pose proof (bitlen_bounds n) as [N1 N2]. pose proof (bitlen_bounds d) as [D1 D2].
  pose proof (bitlen_pos_ge1 n). pose proof (bitlen_pos_ge1 d).
  apply Z.div_le_lower_bound; [lia|].
  assert (Hk : prec + 1 + bitlen (Zpos d) <= bitlen (Zpos n) - 1 + k) by lia.
  assert (2 ^ (prec + 1 + bitlen (Zpos d)) <= a).
  { unfold a. apply Z.le_trans with (2 ^ (bitlen (Zpos n) - 1 + k)); [apply Z.pow_le_mono_r; lia|].
    rewrite Z.pow_add_r by lia. apply Z.mul_le_mono_nonneg_r; [apply Z.pow_nonneg; lia|exact N1]. }
  rewrite Z.pow_add_r in H1 by lia.
  assert (0 < 2 ^ (prec + 1)) by (apply Z.pow_pos_nonneg; lia). nia.
Qed.

Lemma bitlen_gt z n : 0 <= n -> 2 ^ n <= z -> n < bitlen z.
Proof.
  intros Hn Hz. destruct (Z.lt_ge_cases n (bitlen z)) as [H|H]; [exact H|].
  exfalso. apply (bitlen_le z n Hn) in H. assert (0 < 2 ^ n) by (apply Z.pow_pos_nonneg; lia). lia.
Qed.

(* a positive rational n / d through quo_bits, scaled by 2^j (j = 0 for
   round_rat, the difference of the exponents for the quotient of two floats) *)
Lemma quo_bits_value prec n d j : 0 < prec ->
  let k := Z.max 0 (prec + 2 + bitlen (Zpos d) - bitlen (Zpos n)) in
  ((Zpos n * 2 ^ k # d) * T (- k + j) == (Zpos n # d) * T j)%Q.
Proof.
  intros Hp k. assert (Hk : 0 <= k) by (unfold k; lia).
  assert (Hd : (0 < inject_Z (Zpos d))%Q) by (apply (inject_Z_lt 0); lia).
  apply (Qmult_inj_r _ _ (inject_Z (Zpos d) * T k)); [pose proof (T_pos k); intros Hc; nra|].
  rewrite (T_add (- k) j).
  setoid_replace ((Z.pos n * 2 ^ k # d) * (T (- k) * T j) * (inject_Z (Z.pos d) * T k))%Q
    with (((Z.pos n * 2 ^ k # d) * inject_Z (Z.pos d)) * (T (- k) * T k) * T j)%Q by ring.
  rewrite <- T_add, Qmake_mult. replace (- k + k) with 0 by lia. rewrite T_0.
  setoid_replace ((Z.pos n # d) * T j * (inject_Z (Z.pos d) * T k))%Q
    with (((Z.pos n # d) * inject_Z (Z.pos d)) * T k * T j)%Q by ring.
  rewrite Qmake_mult. rewrite inject_Z_mult, (T_Z k) by lia. ring.
Qed.

Theorem round_mag_quo_rounds prec emin n d j : 0 < prec ->
  rounds_to prec emin ((Zpos n # d) * T j)
    (pairQ (let '(q, e, s) := quo_bits prec n d in round_mag prec emin q (e + j) s)).
Proof.
  intros Hp. destruct (quo_bits_spec prec n d Hp) as [E [Hq Hk]]. cbn zeta in E, Hq, Hk.
  pose proof (quo_bits_value prec n d j Hp) as EV. cbn zeta in EV.
  set (k := Z.max 0 (prec + 2 + bitlen (Zpos d) - bitlen (Zpos n))) in *.
  set (a := Zpos n * 2 ^ k) in *. rewrite E.
  assert (Hm : 0 < a / Zpos d).
  { assert (0 < 2 ^ (prec + 1)) by (apply Z.pow_pos_nonneg; lia). lia. }
  assert (Hb : prec < bitlen (a / Zpos d)).
  { apply bitlen_gt; [lia|]. apply Z.le_trans with (2 := Hq). apply Z.pow_le_mono_r; lia. }
  pose proof (round_mag_rounds prec emin a d (- k + j) Hp Hm (or_intror Hb)) as H.
  exact (rounds_to_ext _ _ _ _ _ _ EV (Qeq_refl _) H).
Qed.

Theorem round_mag_rat_rounds prec emin n d : 0 < prec ->
  rounds_to prec emin (Zpos n # d)
    (pairQ (let '(q, e, s) := quo_bits prec n d in round_mag prec emin q e s)).
Proof.
  intros Hp. pose proof (round_mag_quo_rounds prec emin n d 0 Hp) as H.
  destruct (quo_bits prec n d) as [[q e] s]. rewrite Z.add_0_r in H.
  refine (rounds_to_ext _ _ _ _ _ _ _ (Qeq_refl _) H). rewrite T_0. ring.
Qed.

(* ---- monotonicity: nearest rounding to a fixed set is monotone *)
Theorem rounds_to_monotone prec emin x1 x2 r1 r2 :
  rounds_to prec emin x1 r1 -> rounds_to prec emin x2 r2 -> (x1 < x2)%Q -> (r1 <= r2)%Q.
Proof.
  intros [F1 [N1 _]] [F2 [N2 _]] Hlt.
  destruct (Qlt_le_dec r2 r1) as [Hc|Hc]; [|exact Hc]. exfalso.
  pose proof (N1 r2 F2) as A. pose proof (N2 r1 F1) as B.
  revert A B. apply Qabs_case; intros; revert A B; apply Qabs_case; intros; revert A B;
    apply Qabs_case; intros; revert A B; apply Qabs_case; intros; lra.
Qed.

(* an element of the format rounds to itself *)
Theorem rounds_to_exact prec emin x r : rounds_to prec emin x r -> in_format prec emin x -> (r == x)%Q.
Proof.
  intros [_ [N _]] Fx. pose proof (N x Fx) as A.
  setoid_replace (x - x)%Q with 0%Q in A by ring. change (Qabs 0) with 0%Q in A.
  revert A. apply Qabs_case; intros; lra.
Qed.

(* rounding is idempotent: the result is an element of the format, and an
   element of the format rounds to itself *)
Theorem rounds_to_idempotent prec emin x r r' :
  rounds_to prec emin x r -> rounds_to prec emin r r' -> (r' == r)%Q.
Proof. intros [F _] H. exact (rounds_to_exact _ _ _ _ H F). Qed.

(* ------------------------------------------------------------------ the functions on fl *)

Lemma flQ_T n m e : (flQ (FFin n m e) == inject_Z (sgn n m) * T e)%Q.
Proof. reflexivity. Qed.

Definition signed (neg : bool) (v : Q) : Q := if neg then (- v)%Q else v.

Lemma flQ_mkfl_Z neg q e : 0 <= q -> (flQ (mkfl neg q e) == signed neg (inject_Z q * T e))%Q.
Proof.
  intros Hq. destruct q as [|p|p]; [| |lia].
  - unfold mkfl, flQ, signed. cbn [fl_m fl_e]. change (inject_Z 0) with 0%Q. destruct neg; ring.
  - rewrite flQ_mkfl. unfold signed, sgn, T. destruct neg; [|reflexivity].
    change (Z.neg p) with (- Z.pos p). rewrite inject_Z_opp. ring.
Qed.

Lemma flQ_FFin_signed n m e : (flQ (FFin n m e) == signed n (inject_Z (Zpos m) * T e))%Q.
Proof.
  rewrite flQ_T. unfold signed, sgn. destruct n; [|reflexivity].
  change (Z.neg m) with (- Z.pos m). rewrite inject_Z_opp. ring.
Qed.

Lemma rounds_to_signed prec emin neg x r :
  rounds_to prec emin x r -> rounds_to prec emin (signed neg x) (signed neg r).
Proof. destruct neg; [apply rounds_to_opp|auto]. Qed.

Lemma Qabs_signed neg v : (0 <= v)%Q -> (Qabs (signed neg v) == v)%Q.
Proof. intros H. destruct neg; cbn [signed]; [rewrite Qabs_opp|]; apply Qabs_pos; exact H. Qed.

Lemma round_pos_eq f neg m e st :
  round_pos f neg m e st =
    let p := round_mag (f_prec f) (f_emin f) m e st in
    match f_maxexp f with
    | Some mx => if mx <? bitlen (fst p) + snd p then None else Some (mkfl neg (fst p) (snd p))
    | None => Some (mkfl neg (fst p) (snd p))
    end.
Proof. unfold round_pos. destruct (round_mag (f_prec f) (f_emin f) m e st). reflexivity. Qed.

Lemma round_mag_fst_nonneg prec emin m e st : 0 < prec -> 0 <= fst (round_mag prec emin m e st).
Proof.
  intros Hp. pose proof (round_mag_shape prec emin m e st Hp) as H. cbn zeta in H.
  destruct (round_mag prec emin m e st). cbn [fst]. lia.
Qed.

Lemma round_pos_value f neg m e st r : 0 < f_prec f -> round_pos f neg m e st = Some r ->
  (flQ r == signed neg (pairQ (round_mag (f_prec f) (f_emin f) m e st)))%Q.
Proof.
  intros Hp H. rewrite round_pos_eq in H. cbn zeta in H.
  pose proof (round_mag_fst_nonneg (f_prec f) (f_emin f) m e st Hp) as Hq.
  unfold pairQ. destruct (f_maxexp f) as [mx|].
  - destruct (mx <? _); [discriminate|]. inversion H. apply flQ_mkfl_Z. exact Hq.
  - inversion H. apply flQ_mkfl_Z. exact Hq.
Qed.

(* ---- round_fl: a float rounded to a format *)
Theorem round_fl_rounds f x r : 0 < f_prec f -> round_fl f x = Some r ->
  rounds_to (f_prec f) (f_emin f) (flQ x) (flQ r).
Proof.
  intros Hp H. destruct x as [n|n m e]; cbn [round_fl] in H.
  - inversion H. apply (rounds_to_ext _ _ 0%Q _ 0%Q); [unfold flQ; cbn; ring|unfold flQ; cbn; ring|].
    apply rounds_to_0. exact Hp.
  - pose proof (round_pos_value f n m e false r Hp H) as V.
    apply (rounds_to_ext _ _ (signed n (inject_Z (Zpos m) * T e)) _
             (signed n (pairQ (round_mag (f_prec f) (f_emin f) m e false)))).
    + symmetry. apply flQ_FFin_signed.
    + symmetry. exact V.
    + apply rounds_to_signed. apply round_mag_fl_rounds. exact Hp.
Qed.

(* ---- round_Z: an integer rounded to a format *)
Theorem round_Z_rounds f z r : 0 < f_prec f -> round_Z f z = Some r ->
  rounds_to (f_prec f) (f_emin f) (inject_Z z) (flQ r).
Proof.
  intros Hp H. destruct z as [|p|p]; cbn [round_Z] in H.
  - inversion H. apply (rounds_to_ext _ _ 0%Q _ 0%Q); [reflexivity|unfold flQ; cbn; ring|].
    apply rounds_to_0. exact Hp.
  - pose proof (round_pos_value f false p 0 false r Hp H) as V.
    apply (rounds_to_ext _ _ (inject_Z (Zpos p) * T 0)%Q _ (pairQ (round_mag (f_prec f) (f_emin f) p 0 false))).
    + rewrite T_0. ring.
    + symmetry. exact V.
    + apply round_mag_fl_rounds. exact Hp.
  - pose proof (round_pos_value f true p 0 false r Hp H) as V.
    apply (rounds_to_ext _ _ (- (inject_Z (Zpos p) * T 0))%Q _ (- pairQ (round_mag (f_prec f) (f_emin f) p 0 false))%Q).
    + rewrite T_0. change (Z.neg p) with (- Z.pos p). rewrite inject_Z_opp. ring.
    + symmetry. exact V.
    + apply rounds_to_opp. apply round_mag_fl_rounds. exact Hp.
Qed.

(* ---- round_rat: a rational n / d rounded to a format, once *)
Lemma Qmake_neg p d : (Z.neg p # d == - (Z.pos p # d))%Q.
Proof. unfold Qeq, Qopp. cbn. reflexivity. Qed.

Theorem round_rat_rounds f n d r : 0 < f_prec f -> round_rat f n d = Some r ->
  rounds_to (f_prec f) (f_emin f) (n # d) (flQ r).
Proof.
  intros Hp H. destruct n as [|p|p]; cbn [round_rat] in H.
  - inversion H. apply (rounds_to_ext _ _ 0%Q _ 0%Q); [reflexivity|unfold flQ; cbn; ring|].
    apply rounds_to_0. exact Hp.
  - pose proof (round_mag_rat_rounds (f_prec f) (f_emin f) p d Hp) as M.
    destruct (quo_bits (f_prec f) p d) as [[q e] s].
    pose proof (round_pos_value f false q e s r Hp H) as V.
    refine (rounds_to_ext _ _ _ _ _ _ (Qeq_refl _) _ M). symmetry. exact V.
  - pose proof (round_mag_rat_rounds (f_prec f) (f_emin f) p d Hp) as M.
    destruct (quo_bits (f_prec f) p d) as [[q e] s].
    pose proof (round_pos_value f true q e s r Hp H) as V.
    apply rounds_to_opp in M.
    refine (rounds_to_ext _ _ _ _ _ _ _ _ M); [symmetry; apply Qmake_neg|symmetry; exact V].
Qed.

(* ---- overflow to an error: exactly from 2^mx minus half a unit of the last place on *)
Definition overflow_threshold (f : fmt) (mx : Z) : Q := (T mx - T (mx - f_prec f - 1))%Q.

Lemma threshold_pos f mx : 0 < f_prec f -> (0 < overflow_threshold f mx)%Q.
Proof. intros Hp. unfold overflow_threshold. pose proof (T_lt (mx - f_prec f - 1) mx ltac:(lia)). lra. Qed.

Definition fmt_ok (f : fmt) (mx : Z) : Prop :=
  0 < f_prec f /\ f_maxexp f = Some mx /\
  match f_emin f with Some em => em + f_prec f <= mx | None => True end.

Lemma round_pos_overflow f mx neg a d e : fmt_ok f mx -> 0 < a / Zpos d ->
  negb (a mod Zpos d =? 0) = false \/ f_prec f < bitlen (a / Zpos d) ->
  (round_pos f neg (Z.to_pos (a / Zpos d)) e (negb (a mod Zpos d =? 0)) = None <->
   (overflow_threshold f mx <= (a # d) * T e)%Q).
Proof.
  intros [Hp [Hmx Hem]] Hm Hs. rewrite round_pos_eq. cbn zeta. rewrite Hmx.
  rewrite <- (round_mag_overflow (f_prec f) (f_emin f) Hp a d e Hm Hs mx Hem).
  destruct (Z.ltb_spec mx (bitlen (fst (round_mag (f_prec f) (f_emin f) (Z.to_pos (a / Z.pos d)) e
                                     (negb (a mod Z.pos d =? 0)))) +
                           snd (round_mag (f_prec f) (f_emin f) (Z.to_pos (a / Z.pos d)) e
                                     (negb (a mod Z.pos d =? 0))))) as [H|H].
  - split; [intros _; exact H|reflexivity].
  - split; [discriminate|lia].
Qed.

Theorem round_fl_overflow f mx x : fmt_ok f mx ->
  (round_fl f x = None <-> (overflow_threshold f mx <= Qabs (flQ x))%Q).
Proof.
  intros Hok. pose proof Hok as [Hp _]. pose proof (threshold_pos f mx Hp) as Ht.
  destruct x as [n|n m e]; cbn [round_fl].
  - split; [discriminate|]. intros H. exfalso.
    assert (E : (flQ (FZero n) == 0)%Q) by (unfold flQ; cbn; ring).
    rewrite E in H. change (Qabs 0) with 0%Q in H. lra.
  - pose proof (round_pos_overflow f mx n (Zpos m) 1 e Hok) as H.
    rewrite Z.div_1_r, Z.mod_1_r in H. cbn [Z.eqb negb Z.to_pos] in H.
    rewrite (H ltac:(lia) (or_introl eq_refl)).
    rewrite flQ_FFin_signed, Qabs_signed.
    + reflexivity.
    + pose proof (T_pos e). assert (0 < inject_Z (Zpos m))%Q by (apply (inject_Z_lt 0); lia). nra.
Qed.

Theorem round_rat_overflow f mx n d : fmt_ok f mx ->
  (round_rat f n d = None <-> (overflow_threshold f mx <= Qabs (n # d))%Q).
Proof.
  intros Hok. pose proof Hok as [Hp _]. pose proof (threshold_pos f mx Hp) as Ht.
  assert (Hmag : forall neg p,
    (let '(q, e, s) := quo_bits (f_prec f) p d in round_pos f neg q e s) = None <->
    (overflow_threshold f mx <= Zpos p # d)%Q).
  { intros neg p. destruct (quo_bits_spec (f_prec f) p d Hp) as [E [Hq Hk]]. cbn zeta in E, Hq, Hk.
    set (k := Z.max 0 (f_prec f + 2 + bitlen (Zpos d) - bitlen (Zpos p))) in *.
    set (a := Zpos p * 2 ^ k) in *. rewrite E.
    assert (Hm : 0 < a / Zpos d).
    { assert (0 < 2 ^ (f_prec f + 1)) by (apply Z.pow_pos_nonneg; lia). lia. }
    assert (Hb : f_prec f < bitlen (a / Zpos d)).
    { apply bitlen_gt; [lia|]. apply Z.le_trans with (2 := Hq). apply Z.pow_le_mono_r; lia. }
    rewrite (round_pos_overflow f mx neg a d (- k) Hok Hm (or_intror Hb)).
    assert (EV : ((a # d) * T (- k) == Zpos p # d)%Q).
    { pose proof (quo_bits_value (f_prec f) p d 0 Hp) as V. cbn zeta in V. fold k a in V.
      rewrite Z.add_0_r, T_0 in V. rewrite V. ring. }
    rewrite EV. reflexivity. }
  destruct n as [|p|p]; cbn [round_rat].
  - split; [discriminate|]. intros H. exfalso. change (Qabs (0 # d)) with (0 # d)%Q in H.
    assert (E : (0 # d == 0)%Q) by reflexivity. rewrite E in H. lra.
  - rewrite (Hmag false p). rewrite Qabs_pos; [reflexivity|]. unfold Qle. cbn. lia.
  - rewrite (Hmag true p). rewrite Qmake_neg, Qabs_opp, Qabs_pos; [reflexivity|]. unfold Qle. cbn. lia.
Qed.

(* the formats of the model *)
Lemma fmt64_ok : fmt_ok fmt64 1024.
Proof. split; [reflexivity|]. split; [reflexivity|]. cbn. lia. Qed.
Lemma fmt32_ok : fmt_ok fmt32 128.
Proof. split; [reflexivity|]. split; [reflexivity|]. cbn. lia. Qed.

(* without a maximal exponent rounding never fails *)
Lemma round_pos_total f neg m e st : f_maxexp f = None -> round_pos f neg m e st <> None.
Proof. intros H. rewrite round_pos_eq. cbn zeta. rewrite H. discriminate. Qed.

(* ---- the exponent of the last place of the result, explicitly: that of the
   operand, or the one that leaves prec bits, or emin, whichever is largest;
   the rounded mantissa has at most prec bits or is 2^prec *)
Theorem round_mag_exponent prec emin m e st : 0 < prec ->
  snd (round_mag prec emin m e st) =
    Z.max e (match emin with
             | Some em => Z.max (bitlen (Zpos m) + e - prec) em
             | None => bitlen (Zpos m) + e - prec
             end) /\
  0 <= fst (round_mag prec emin m e st) <= 2 ^ prec.
Proof.
  intros Hp. pose proof (round_mag_shape prec emin m e st Hp) as H. cbn zeta in H.
  destruct (round_mag prec emin m e st) as [q e']. cbn [fst snd].
  destruct H as [He' [Hq _]]. split; [|exact Hq].
  unfold round_shift in He'. destruct emin; lia.
Qed.

(* ---- monotonicity of the functions *)
Theorem round_fl_monotone f x1 x2 r1 r2 : 0 < f_prec f ->
  round_fl f x1 = Some r1 -> round_fl f x2 = Some r2 -> (flQ x1 < flQ x2)%Q -> (flQ r1 <= flQ r2)%Q.
Proof.
  intros Hp H1 H2. apply (rounds_to_monotone (f_prec f) (f_emin f)).
  - exact (round_fl_rounds f x1 r1 Hp H1).
  - exact (round_fl_rounds f x2 r2 Hp H2).
Qed.

Theorem round_rat_monotone f n1 d1 n2 d2 r1 r2 : 0 < f_prec f ->
  round_rat f n1 d1 = Some r1 -> round_rat f n2 d2 = Some r2 -> (n1 # d1 < n2 # d2)%Q -> (flQ r1 <= flQ r2)%Q.
Proof.
  intros Hp H1 H2. apply (rounds_to_monotone (f_prec f) (f_emin f)).
  - exact (round_rat_rounds f n1 d1 r1 Hp H1).
  - exact (round_rat_rounds f n2 d2 r2 Hp H2).
Qed.

(* rounding an element of the format returns it *)
Theorem round_fl_exact f x r : 0 < f_prec f -> round_fl f x = Some r ->
  in_format (f_prec f) (f_emin f) (flQ x) -> (flQ r == flQ x)%Q.
Proof. intros Hp H. apply rounds_to_exact. exact (round_fl_rounds f x r Hp H). Qed.

Theorem round_fl_idempotent f x r r' : 0 < f_prec f -> round_fl f x = Some r -> round_fl f r = Some r' ->
  (flQ r' == flQ r)%Q.
Proof.
  intros Hp H H'. apply (rounds_to_idempotent (f_prec f) (f_emin f) (flQ x)).
  - exact (round_fl_rounds f x r Hp H).
  - exact (round_fl_rounds f r r' Hp H').
Qed.
