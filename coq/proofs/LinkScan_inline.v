(* One iteration of the loop of scanInlineLinks, the loop itself, and
   scanInlineLinks: no fault, progress, what is appended and in which state. *)
From Verif Require Import Bytes IndexM Facts_linkscan LinkDestM LinkScanM LinkScan_base LinkScan_parse.
From Coq Require Import Lia ZArith List.
Local Open Scope Z_scope.

(* ---------------- lists of replacements ---------------- *)

(* increasing, non empty, non overlapping ranges between prev and hi *)
Fixpoint chain_in (prev : Z) (rs : list repl) (hi : Z) : Prop :=
  match rs with
  | [] => prev <= hi
  | r :: rs' => prev <= r_start r /\ r_start r < r_stop r /\ chain_in (r_stop r) rs' hi
  end.

Lemma chain_in_mono rs : forall p hi hi', chain_in p rs hi -> hi <= hi' -> chain_in p rs hi'.
Proof.
  induction rs as [|r rs IH]; intros p hi hi' H Hh; cbn [chain_in] in *; [lia|].
  destruct H as (H1 & H2 & H3). split; [exact H1|]. split; [exact H2|]. eapply IH; eassumption.
Qed.

Lemma chain_in_snoc rs : forall p hi s e t hi', chain_in p rs hi -> hi <= s -> s < e -> e <= hi' ->
  chain_in p (rs ++ [mkRepl s e t]) hi'.
Proof.
  induction rs as [|r rs IH]; intros p hi s e t hi' H H1 H2 H3; cbn [chain_in app] in *.
  - cbn [r_start r_stop]. lia.
  - destruct H as (Ha & Hb & Hc). split; [exact Ha|]. split; [exact Hb|]. eapply IH; eassumption.
Qed.

Lemma chain_in_le rs : forall p hi, chain_in p rs hi -> p <= hi.
Proof.
  induction rs as [|r rs IH]; intros p hi H; cbn [chain_in] in H; [exact H|].
  destruct H as (H1 & H2 & H3). apply IH in H3. lia.
Qed.

(* ---------------- appendReplacement ---------------- *)

Section WithDecide.
  Variable decide : bytes -> option bytes.

  Lemma appendReplacement_ok acc src s e :
    exists acc', appendReplacement decide acc src s e = LOk acc'
      /\ (acc' = acc
          \/ exists t, 0 <= s /\ s < e /\ e <= zlen src /\ decide (sub src s e) = Some t /\ acc' = acc ++ [mkRepl s e t]).
  Proof.
    unfold appendReplacement.
    destruct (Z.ltb_spec s 0); cbn [orb]; [exists acc; split; [reflexivity|left; reflexivity]|].
    destruct (Z.leb_spec e s); cbn [orb]; [exists acc; split; [reflexivity|left; reflexivity]|].
    destruct (Z.ltb_spec (zlen src) e); [exists acc; split; [reflexivity|left; reflexivity]|].
    rewrite zsl_ok by lia. cbn [lbind].
    destruct (decide (sub src s e)) as [t|] eqn:Ed; [|exists acc; split; [reflexivity|left; reflexivity]].
    exists (acc ++ [mkRepl s e t]). split; [reflexivity|]. right. exists t.
    split; [lia|]. split; [lia|]. split; [lia|]. split; [first [exact Ed|reflexivity]|reflexivity].
  Qed.

  (* ---------------- closeTag ---------------- *)

  Lemma close_loop_ok stack tag : forall fuel i, -1 <= i < Z.of_nat (length stack) -> (Z.to_nat (i + 1) < fuel)%nat ->
    exists st, close_loop fuel stack i tag = LOk st.
  Proof.
    induction fuel as [|fuel IH]; intros i Hi Hf; [lia|]. cbn [close_loop].
    destruct (Z.leb_spec 0 i); [|eexists; reflexivity].
    destruct (Z.ltb_spec i (Z.of_nat (length stack))); [|lia].
    destruct (nth_error stack (Z.to_nat i)) eqn:E.
    - destruct (bytes_eqb b tag); [eexists; reflexivity|]. apply IH; lia.
    - apply nth_error_None in E. lia.
  Qed.

  Lemma closeTag_ok h tag : exists h', closeTag h tag = LOk h' /\ h_rawCloser h' = h_rawCloser h.
  Proof.
    unfold closeTag.
    destruct (close_loop_ok (h_stack h) tag (S (length (h_stack h))) (Z.of_nat (length (h_stack h)) - 1)) as (st & E); [lia|lia|].
    rewrite E. cbn [lbind]. eexists. split; reflexivity.
  Qed.

  (* ---------------- bytes.Index ---------------- *)

  Lemma is_prefix_len p : forall s, is_prefix p s = true -> zlen p <= zlen s.
  Proof.
    induction p as [|x p IH]; intros s H; [rewrite zlen_nil; apply zlen_nonneg|].
    destruct s as [|y s]; cbn [is_prefix] in H; [discriminate|].
    apply andb_prop in H. destruct H as [_ H]. apply IH in H. rewrite !zlen_cons. lia.
  Qed.

  Lemma index_sub_bound pat : forall s, index_sub pat s = -1 \/ (0 <= index_sub pat s /\ index_sub pat s + zlen pat <= zlen s).
  Proof.
    induction s as [|y s IH]; cbn [index_sub].
    - destruct (is_prefix pat []) eqn:E; [right; apply is_prefix_len in E; lia|left; reflexivity].
    - destruct (is_prefix pat (y :: s)) eqn:E; [right; apply is_prefix_len in E; lia|].
      destruct IH as [IH|[IH1 IH2]].
      + rewrite IH. left. reflexivity.
      + destruct (Z.ltb_spec (index_sub pat s) 0); [lia|]. right. rewrite zlen_cons. lia.
  Qed.

  Lemma special_cases_spec rest : forall cases pre closer,
    special_cases cases rest = Some (pre, closer) -> In (pre, closer) cases /\ is_prefix pre rest = true.
  Proof.
    induction cases as [|[p c] cs IH]; intros pre closer H; cbn [special_cases] in H; [discriminate|].
    destruct (is_prefix p rest) eqn:E.
    - injection H as -> ->. split; [left; reflexivity|exact E].
    - apply IH in H. destruct H as [H1 H2]. split; [right; exact H1|exact H2].
  Qed.

  Lemma special_nonempty pre closer : In (pre, closer) gen_ls_special -> 1 <= zlen pre /\ 1 <= zlen closer.
  Proof.
    intros H. assert (F : forallb (fun pc => (1 <=? zlen (fst pc)) && (1 <=? zlen (snd pc))) gen_ls_special = true) by reflexivity.
    rewrite forallb_forall in F. specialize (F _ H). cbn [fst snd] in F.
    apply andb_prop in F. destruct F as [F1 F2]. apply Z.leb_le in F1. apply Z.leb_le in F2. lia.
  Qed.

  Lemma nonempty_len b : nonempty b = true -> 1 <= zlen b.
  Proof. destruct b; [discriminate|]. intros _. rewrite zlen_cons. pose proof (zlen_nonneg b). lia. Qed.

  (* ---------------- one iteration ---------------- *)

  Definition in_code (st : istate) : bool := 0 <? i_code st.
  Definition has_closer (st : istate) : bool := nonempty (h_rawCloser (i_html st)).
  Definition has_rawtag (st : istate) : bool := nonempty (h_rawTag (i_html st)).

  (* the state decides the class: inside a code span, after an unclosed
     comment-like construct, inside a raw text element, the iteration is of the
     corresponding class; a link is only recognised in the plain state *)
  Definition state_class (st : istate) (cls : iclass) : Prop :=
    (in_code st = true -> cls = ICodeSpan)
    /\ (in_code st = false -> has_closer st = true -> cls = IRawCloser \/ cls = IRawCloserRest)
    /\ (in_code st = false -> has_closer st = false -> has_rawtag st = true -> cls = IRawTag \/ cls = IRawTagClose)
    /\ (cls = ILink -> in_code st = false /\ inHTML (i_html st) = false).

  (* what an iteration of class ILink found: `](`, the destination [s, e) by
     the grammar of parseInlineDestination, the closing parenthesis before the
     new position, and what was appended *)
  Definition link_at (line src : bytes) (lineStart : Z) (st st' : istate) : Prop :=
    let i := i_pos st in
    bt line i = b_rb /\ i + 1 < zlen line /\ bt line (i + 1) = b_lp /\ i_stack st <> []
    /\ exists s e, i + 2 <= s /\ s <= e /\ e < i_pos st' /\ bt line (i_pos st' - 1) = b_rp
        /\ (s < e -> dest_shape line (i + 2) s e)
        /\ (i_acc st' = i_acc st
            \/ exists t, s < e /\ decide (sub src (lineStart + s) (lineStart + e)) = Some t
                         /\ lineStart + e <= zlen src
                         /\ i_acc st' = i_acc st ++ [mkRepl (lineStart + s) (lineStart + e) t]).

  Definition step_post (line src : bytes) (lineStart : Z) (st : istate) (r : istep) (cls : iclass) : Prop :=
    state_class st cls
    /\ match r with
       | IGo st' => i_pos st < i_pos st' <= zlen line /\ 0 <= i_code st'
                    /\ (cls = ILink -> link_at line src lineStart st st')
                    /\ (cls <> ILink -> i_acc st' = i_acc st)
       | IRet st' => i_pos st' = i_pos st /\ i_acc st' = i_acc st /\ cls <> ILink
       end.

  Ltac sc :=
    unfold state_class, in_code, has_closer, has_rawtag in *;
    repeat match goal with H : (_ <? _) = _ |- _ => rewrite H in * end;
    repeat match goal with H : nonempty _ = _ |- _ => rewrite H in * end;
    repeat split; intros; try discriminate; try congruence; auto.

  (* a non-link step that goes on *)
  Lemma post_go line src lineStart st st' cls :
    state_class st cls -> cls <> ILink -> i_pos st < i_pos st' <= zlen line -> 0 <= i_code st' -> i_acc st' = i_acc st ->
    step_post line src lineStart st (IGo st') cls.
  Proof. intros H1 H2 H3 H4 H5. split; [exact H1|]. split; [exact H3|]. split; [exact H4|]. split; [intros; congruence|intros; exact H5]. Qed.

  Lemma inline_step_ok line src lineStart st :
    0 <= i_pos st < zlen line -> 0 <= lineStart -> 0 <= i_code st ->
    exists r cls, inline_step decide line src lineStart st = LOk (r, cls) /\ step_post line src lineStart st r cls.
  Proof.
    intros Hi Hls Hcode. unfold inline_step. zg.
    destruct (0 <? i_code st) eqn:Ecode.
    { (* inside a code span *)
      destruct (N.eqb_spec (bt line (i_pos st)) b_bt) as [Hb|_].
      - destruct (countRun_pos line (i_pos st) b_bt Hi Hb) as (run & E & Hr1 & Hr2). rewrite E. cbn [lbind].
        assert (Hcl : exists closes, (if run =? i_code st
                        then if zlen line <=? i_pos st + run then LOk true
                             else d <- zget line (i_pos st + run);; LOk (negb (N.eqb d b_bt))
                        else LOk false) = LOk closes).
        { destruct (run =? i_code st); [|eexists; reflexivity].
          destruct (Z.leb_spec (zlen line) (i_pos st + run)); [eexists; reflexivity|]. zg. eexists; reflexivity. }
        destruct Hcl as (closes & Ecl). rewrite Ecl. cbn [lbind].
        eexists _, _. split; [reflexivity|]. apply post_go; cbn [i_pos i_code i_acc]; [sc|discriminate|lia| |reflexivity].
        destruct closes; lia.
      - eexists _, _. split; [reflexivity|]. apply post_go; cbn [set_pos i_pos i_code i_acc]; [sc|discriminate|lia|lia|reflexivity]. }
    destruct (nonempty (h_rawCloser (i_html st))) eqn:Ecloser.
    { (* after an unclosed comment-like construct *)
      rewrite zsl_ok by lia. cbn [lbind].
      destruct (index_sub_bound (h_rawCloser (i_html st)) (sub line (i_pos st) (zlen line))) as [E|[E1 E2]].
      - rewrite E. cbn [Z.eqb]. eexists _, _. split; [reflexivity|]. split; [sc|]. split; [reflexivity|]. split; [reflexivity|discriminate].
      - destruct (Z.eqb_spec (index_sub (h_rawCloser (i_html st)) (sub line (i_pos st) (zlen line))) (-1)); [lia|].
        rewrite zlen_sub in E2 by lia. pose proof (nonempty_len _ Ecloser).
        eexists _, _. split; [reflexivity|]. apply post_go; cbn [i_pos i_code i_acc]; [sc|discriminate|lia|lia|reflexivity]. }
    destruct (nonempty (h_rawTag (i_html st))) eqn:Etag.
    { (* inside a raw text element *)
      assert (Hplain : exists r cls, LOk (A := istep * iclass) (IGo (set_pos st (i_pos st + 1)), IRawTag) = LOk (r, cls)
                                     /\ step_post line src lineStart st r cls).
      { eexists _, _. split; [reflexivity|]. apply post_go; cbn [set_pos i_pos i_code i_acc]; [sc|discriminate|lia|lia|reflexivity]. }
      destruct (N.eqb (bt line (i_pos st)) b_lt); [|exact Hplain].
      destruct (parseHTMLTag_ok line (i_pos st) ltac:(lia)) as [E|(tg & E & Ht & _)]; rewrite E; cbn [lbind]; [exact Hplain|].
      destruct (t_closing tg && bytes_eqb (t_name tg) (h_rawTag (i_html st))); [|exact Hplain].
      destruct (closeTag_ok (i_html st) (t_name tg)) as (h' & E2 & _). rewrite E2. cbn [lbind].
      eexists _, _. split; [reflexivity|]. apply post_go; cbn [i_pos i_code i_acc]; [sc|discriminate|lia|lia|reflexivity]. }
    (* the plain state *)
    assert (Hrest : forall sp,
      sp = None ->
      exists r cls,
        match sp with
        | Some r => LOk r
        | None =>
          if inHTML (i_html st) then LOk (IGo (set_pos st (i_pos st + 1)), IInHTML)
          else
            e <- esc_at line (i_pos st) (bt line (i_pos st)) ;;
            if e then LOk (IGo (set_pos st (i_pos st + 2)), IEscape)
            else if N.eqb (bt line (i_pos st)) b_bt then
              run <- countRun line (i_pos st) b_bt ;;
              LOk (IGo (mkI (i_pos st + run) (i_stack st) run (i_html st) (i_acc st)), ICodeOpen)
            else if N.eqb (bt line (i_pos st)) b_lb then
              LOk (IGo (mkI (i_pos st + 1) (i_pos st :: i_stack st) (i_code st) (i_html st) (i_acc st)), IOpenBracket)
            else if N.eqb (bt line (i_pos st)) b_rb then
              match i_stack st with
              | _ :: stack' =>
                lk <- (if i_pos st + 1 <? zlen line then
                         d <- zget line (i_pos st + 1) ;;
                         if N.eqb d b_lp then parseInlineDestination line (i_pos st + 2) else LOk None
                       else LOk None) ;;
                match lk with
                | Some (start, stop, en) =>
                  acc' <- appendReplacement decide (i_acc st) src (lineStart + start) (lineStart + stop) ;;
                  LOk (IGo (mkI en [] (i_code st) (i_html st) acc'), ILink)
                | None => LOk (IGo (mkI (i_pos st + 1) stack' (i_code st) (i_html st) (i_acc st)), ICloseBracket)
                end
              | [] => LOk (IGo (set_pos st (i_pos st + 1)), ICloseBracket)
              end
            else LOk (IGo (set_pos st (i_pos st + 1)), IOther)
        end = LOk (r, cls) /\ step_post line src lineStart st r cls).
    { intros sp ->.
      destruct (inHTML (i_html st)) eqn:Ein.
      { eexists _, _. split; [reflexivity|]. apply post_go; cbn [set_pos i_pos i_code i_acc]; [sc|discriminate|lia|lia|reflexivity]. }
      rewrite esc_at_ok by lia. cbn [lbind].
      destruct (esc_b line (i_pos st)) eqn:Ee.
      { apply esc_b_next in Ee. eexists _, _. split; [reflexivity|].
        apply post_go; cbn [set_pos i_pos i_code i_acc]; [sc|discriminate|lia|lia|reflexivity]. }
      destruct (N.eqb_spec (bt line (i_pos st)) b_bt) as [Hb|_].
      { destruct (countRun_pos line (i_pos st) b_bt Hi Hb) as (run & E & Hr1 & Hr2). rewrite E. cbn [lbind].
        eexists _, _. split; [reflexivity|]. apply post_go; cbn [i_pos i_code i_acc]; [sc|discriminate|lia|lia|reflexivity]. }
      destruct (N.eqb (bt line (i_pos st)) b_lb).
      { eexists _, _. split; [reflexivity|]. apply post_go; cbn [i_pos i_code i_acc]; [sc|discriminate|lia|lia|reflexivity]. }
      destruct (N.eqb_spec (bt line (i_pos st)) b_rb) as [Hrb|_].
      2:{ eexists _, _. split; [reflexivity|]. apply post_go; cbn [set_pos i_pos i_code i_acc]; [sc|discriminate|lia|lia|reflexivity]. }
      destruct (i_stack st) as [|top stack'] eqn:Est.
      { eexists _, _. split; [reflexivity|]. apply post_go; cbn [set_pos i_pos i_code i_acc]; [sc|discriminate|lia|lia|reflexivity]. }
      assert (Hno : exists r cls,
                LOk (A := istep * iclass) (IGo (mkI (i_pos st + 1) stack' (i_code st) (i_html st) (i_acc st)), ICloseBracket) = LOk (r, cls)
                /\ step_post line src lineStart st r cls).
      { eexists _, _. split; [reflexivity|]. apply post_go; cbn [i_pos i_code i_acc]; [sc|discriminate|lia|lia|reflexivity]. }
      destruct (Z.ltb_spec (i_pos st + 1) (zlen line)) as [Hl1|]; cbn [lbind]; [|exact Hno].
      zg. destruct (N.eqb_spec (bt line (i_pos st + 1)) b_lp) as [Hlp|_]; cbn [lbind]; [|exact Hno].
      destruct (parseInlineDestination_ok line (i_pos st + 2) ltac:(lia)) as [E|(s & e & en & E & H1 & H2 & H3 & H4 & H5)];
        rewrite E; cbn [lbind]; [exact Hno|].
      destruct (appendReplacement_ok (i_acc st) src (lineStart + s) (lineStart + e)) as (acc' & Ea & Hacc).
      rewrite Ea. cbn [lbind]. eexists _, _. split; [reflexivity|].
      split; [sc|]. cbn [i_pos i_code i_acc]. split; [lia|]. split; [lia|]. split; [|intros Hc; congruence].
      intros _. unfold link_at. cbn [i_pos i_acc]. split; [exact Hrb|]. split; [lia|]. split; [exact Hlp|].
      split; [rewrite Est; discriminate|]. exists s, e. split; [lia|]. split; [lia|]. split; [lia|]. split; [exact H4|].
      split; [exact H5|]. destruct Hacc as [->|(t & Ha & Hb & Hc & Hd & ->)]; [left; reflexivity|].
      right. exists t. split; [lia|]. split; [exact Hd|]. split; [lia|reflexivity]. }
    (* the constructs that start with `<` *)
    destruct ((Z.of_nat (length (i_stack st)) =? 0) && N.eqb (bt line (i_pos st)) b_lt) eqn:Elt; cbn [lbind];
      [|exact (Hrest None eq_refl)].
    rewrite zsl_ok by lia. cbn [lbind].
    destruct (special_cases gen_ls_special (sub line (i_pos st) (zlen line))) as [[pre closer]|] eqn:Esp.
    - apply special_cases_spec in Esp. destruct Esp as [Hin Hpre].
      apply is_prefix_len in Hpre. rewrite zlen_sub in Hpre by lia.
      destruct (special_nonempty _ _ Hin) as [Hp1 Hc1].
      rewrite zsl_ok by lia. cbn [lbind].
      destruct (index_sub_bound closer (sub line (i_pos st + zlen pre) (zlen line))) as [E|[E1 E2]].
      + rewrite E. cbn [Z.eqb lbind]. eexists _, _. split; [reflexivity|]. split; [sc|].
        cbn [set_html i_pos i_acc]. split; [reflexivity|]. split; [reflexivity|discriminate].
      + destruct (Z.eqb_spec (index_sub closer (sub line (i_pos st + zlen pre) (zlen line))) (-1)); [lia|]. cbn [lbind].
        rewrite zlen_sub in E2 by lia.
        eexists _, _. split; [reflexivity|]. apply post_go; cbn [set_pos i_pos i_code i_acc]; [sc|discriminate|lia|lia|reflexivity].
    - destruct (parseHTMLTag_ok line (i_pos st) ltac:(lia)) as [E|(tg & E & Ht & _)]; rewrite E; cbn [lbind];
        [exact (Hrest None eq_refl)|].
      assert (Hh : exists h', (if t_closing tg then closeTag (i_html st) (t_name tg)
                               else if negb (t_self tg) then LOk (openTag (i_html st) (t_name tg)) else LOk (i_html st)) = LOk h').
      { destruct (t_closing tg); [destruct (closeTag_ok (i_html st) (t_name tg)) as (h' & E2 & _); eauto|].
        destruct (negb (t_self tg)); eauto. }
      destruct Hh as (h' & Eh). rewrite Eh. cbn [lbind].
      eexists _, _. split; [reflexivity|]. apply post_go; cbn [i_pos i_code i_acc]; [sc|discriminate|lia|lia|reflexivity].
  Qed.
End WithDecide.
