(* C12: on trees without panics, Stop and Fatal the frame machine refines Go:
   same trace (program order, deferred calls in LIFO order when their
   function returns, each exactly once) and Run returns nil (defer_lifo);
   GoSpec gives the same trace (go_run_pf).  Also the refutation witnesses of
   the full refinement statement. *)
From Coq Require Import List NArith Bool Arith Lia.
Import ListNotations.
From Verif Require Import FramesM.

(* ------------------------------------------------------------------ *)
(* Panic-free trees and their trace                                     *)

Fixpoint pf_instr (i : instr) : Prop :=
  match i with
  | INat (NBody _) => True
  | INat _ => False
  | ICall b _ | IDeferFn b _ | ICallback b _ =>
      (fix all (l : list instr) : Prop := match l with [] => True | x :: r => pf_instr x /\ all r end) b
  | IDeferNat (NBody _) => True
  | IDeferNat _ => False
  | IPanic _ => False
  | IRecover down => down = false
  | IReturn => True
  end.

Fixpoint pf_body (l : list instr) : Prop :=
  match l with [] => True | x :: r => pf_instr x /\ pf_body r end.

Definition pf_func (f : func) : Prop := pf_body (fbody f).

(* trace of the callee of a call or defer instruction: the hook bodies in
   program order; ds accumulates the traces of the deferred calls, the last
   registered first; it is emitted when the function returns *)
Fixpoint tr_instr (i : instr) : list event :=
  match i with
  | ICall b _ | IDeferFn b _ | ICallback b _ =>
      (fix go (l : list instr) (ds : list event) : list event :=
         match l with
         | [] => ds
         | x :: r =>
             match x with
             | INat (NBody n) => EBody n :: go r ds
             | ICall _ _ | ICallback _ _ => tr_instr x ++ go r ds
             | IDeferFn _ _ => go r (tr_instr x ++ ds)
             | IDeferNat (NBody n) => go r (EBody n :: ds)
             | IRecover false => ERecover None :: go r ds
             | IReturn => ds
             | _ => go r ds
             end
         end) b []
  | _ => []
  end.

Fixpoint tr_body (l : list instr) (ds : list event) : list event :=
  match l with
  | [] => ds
  | x :: r =>
      match x with
      | INat (NBody n) => EBody n :: tr_body r ds
      | ICall _ _ | ICallback _ _ => tr_instr x ++ tr_body r ds
      | IDeferFn _ _ => tr_body r (tr_instr x ++ ds)
      | IDeferNat (NBody n) => tr_body r (EBody n :: ds)
      | IRecover false => ERecover None :: tr_body r ds
      | IReturn => ds
      | _ => tr_body r ds
      end
  end.

Definition pf_trace (f : func) : list event := tr_body (fbody f) [].

Lemma tr_instr_call b inf : tr_instr (ICall b inf) = tr_body b [].
Proof. reflexivity. Qed.
Lemma tr_instr_defer b inf : tr_instr (IDeferFn b inf) = tr_body b [].
Proof. reflexivity. Qed.
Lemma pf_instr_call b inf : pf_instr (ICall b inf) = pf_body b.
Proof. reflexivity. Qed.
Lemma tr_instr_callback b inf : tr_instr (ICallback b inf) = tr_body b [].
Proof. reflexivity. Qed.
Lemma pf_instr_callback b inf : pf_instr (ICallback b inf) = pf_body b.
Proof. reflexivity. Qed.
Lemma pf_instr_defer b inf : pf_instr (IDeferFn b inf) = pf_body b.
Proof. reflexivity. Qed.

Lemma lifo_shape a b c d :
  pf_trace (mkfunc [INat (NBody a); IDeferNat (NBody b); IDeferFn [INat (NBody c)] []; INat (NBody d)] [])
  = [EBody a; EBody d; EBody c; EBody b].
Proof. reflexivity. Qed.

Lemma bsize_call b inf : isize (ICall b inf) = S (bsize b).
Proof. reflexivity. Qed.
Lemma bsize_defer b inf : isize (IDeferFn b inf) = S (bsize b).
Proof. reflexivity. Qed.
Lemma bsize_callback b inf : isize (ICallback b inf) = S (bsize b).
Proof. reflexivity. Qed.

(* ------------------------------------------------------------------ *)
(* Refutation witnesses of the full refinement statement               *)

Definition frames_refine_spec : Prop :=
  forall (f : func) (n m : nat) r1 r2,
    vm_run n f = Some r1 -> go_run m f = Some r2 -> r1 = r2.

(* the former witness native-defer-panic-host-panic: repaired, the panic of a
   deferred native function is an ordinary panic (at return, and while another
   panic unwinds: the second tree, where it is also recovered) *)
Lemma native_defer_panic_repaired :
  vm_run 10 (mkfunc [IDeferNat (NPanic 1)] []) = Some (OPanic [(1%N, false, None)], []) /\
  go_run 10 (mkfunc [IDeferNat (NPanic 1)] []) = Some (OPanic [(1%N, false, None)], []).
Proof. split; vm_compute; reflexivity. Qed.

Lemma native_defer_panic_unwinding_repaired :
  let w := mkfunc [IDeferFn [IRecover false] []; IDeferNat (NPanic 1); IPanic 2] [(2, 5%N)] in
  vm_run 40 w = Some (ONil, [ERecover (Some 1%N)]) /\
  go_run 40 w = Some (ONil, [ERecover (Some 1%N)]).
Proof. split; vm_compute; reflexivity. Qed.

(* the former witness recovered-panic-stays-in-chain: repaired, the machine now agrees with Go *)
Lemma stale_recovered_repaired :
  let w := mkfunc [IDeferFn [IPanic 5] [(0, 4%N)]; IDeferFn [IRecover false] []; IPanic 2] [(2, 9%N)] in
  vm_run 40 w = Some (OPanic [(5, false, Some 4)]%N, [ERecover (Some 2%N)]) /\
  go_run 40 w = Some (OPanic [(5, false, Some 4)]%N, [ERecover (Some 2%N)]).
Proof. split; vm_compute; reflexivity. Qed.

(* the former witness nested-recover-drops-active-panic: repaired, the machine now agrees with Go *)
Lemma dropped_panic_repaired :
  let w := mkfunc [IDeferFn [ICall [IDeferFn [IRecover false] []; IPanic 4] [(1, 7%N)]] [];
                   IDeferFn [IPanic 1] [(0, 11%N)]; IPanic 3] [(2, 13%N)] in
  vm_run 60 w = Some (OPanic [(1, false, Some 11); (3, false, Some 13)]%N, [ERecover (Some 4%N)]) /\
  go_run 60 w = Some (OPanic [(1, false, Some 11); (3, false, Some 13)]%N, [ERecover (Some 4%N)]).
Proof. split; vm_compute; reflexivity. Qed.

(* the former witness callback-panic-is-fatal: repaired, a panic that leaves a
   function called back by native code unwinds through the native frame and the
   caller recovers it; second tree: two VMs deep, the chain of the callback
   (a recovered and an aborted record included) reaches Run before the panic of
   the caller *)
Lemma callback_panic_repaired :
  let w := mkfunc [IDeferFn [IRecover false] []; ICallback [IPanic 7] [(0, 3%N)]] [] in
  vm_run 40 w = Some (ONil, [ERecover (Some 7%N)]) /\
  go_run 40 w = Some (ONil, [ERecover (Some 7%N)]).
Proof. split; vm_compute; reflexivity. Qed.

Lemma callback_chain_repaired :
  let w := mkfunc [IDeferFn [ICallback [ICallback [IDeferFn [IRecover false; IPanic 4] [(1, 8%N)]; IPanic 3] [(1, 9%N)]] []] [];
                   IPanic 1] [(1, 12%N)] in
  vm_run 80 w = Some (OPanic [(4, false, Some 8); (3, true, Some 9); (1, false, Some 12)]%N, [ERecover (Some 3%N)]) /\
  go_run 80 w = Some (OPanic [(4, false, Some 8); (3, true, Some 9); (1, false, Some 12)]%N, [ERecover (Some 3%N)]).
Proof. split; vm_compute; reflexivity. Qed.

(* ------------------------------------------------------------------ *)
(* Runs                                                                 *)

Lemma run_mono n : forall s res m, run n s = Some res -> n <= m -> run m s = Some res.
Proof.
  induction n; intros s res m H Hle; simpl in H; [discriminate|].
  destruct m; [lia|]. simpl. destruct (step s) as [s'|o tr]; [|exact H].
  apply IHn; [exact H|lia].
Qed.

(* s leads to t: whatever t ends with, s ends with *)
Definition leads (s t : state) : Prop :=
  forall n res, run n t = Some res -> exists m, run m s = Some res.

Lemma leads_refl s : leads s s.
Proof. intros n res H. eauto. Qed.

Lemma leads_trans s t u : leads s t -> leads t u -> leads s u.
Proof. intros H1 H2 n res H. destruct (H2 n res H) as [m Hm]. exact (H1 m res Hm). Qed.

Lemma leads_step s s' : step s = Next s' -> leads s s'.
Proof. intros Hs n res H. exists (S n). simpl. rewrite Hs. exact H. Qed.

Lemma leads_same_step s t : step s = step t -> leads s t.
Proof.
  intros Hs n res H. destruct n; simpl in H; [discriminate|]. exists (S n). simpl. rewrite Hs. exact H.
Qed.

(* ------------------------------------------------------------------ *)
(* List facts                                                           *)

Lemma nth_error_mid {A} (l : list A) x r : nth_error (l ++ x :: r) (length l) = Some x.
Proof. rewrite nth_error_app2; [|lia]. rewrite Nat.sub_diag. reflexivity. Qed.

Lemma firstn_exact {A} (l r : list A) : firstn (length l) (l ++ r) = l.
Proof. rewrite firstn_app, Nat.sub_diag, firstn_all. simpl. apply app_nil_r. Qed.

Lemma skipn_exact {A} (l r : list A) : skipn (length l) (l ++ r) = r.
Proof. rewrite skipn_app, Nat.sub_diag, skipn_all. reflexivity. Qed.

Lemma set_nth_mid {A} (l : list A) x y r : set_nth (l ++ x :: r) (length l) y = l ++ y :: r.
Proof.
  unfold set_nth. rewrite firstn_exact. f_equal. f_equal.
  replace (S (length l)) with (length (l ++ [x])) by (rewrite app_length; simpl; lia).
  replace (l ++ x :: r) with ((l ++ [x]) ++ r) by (rewrite <- app_assoc; reflexivity).
  apply skipn_exact.
Qed.

Lemma firstn_snoc {A} (l : list A) x r : firstn (S (length l)) (l ++ x :: r) = l ++ [x].
Proof.
  replace (l ++ x :: r) with ((l ++ [x]) ++ r) by (rewrite <- app_assoc; reflexivity).
  replace (S (length l)) with (length (l ++ [x])) by (rewrite app_length; simpl; lia).
  apply firstn_exact.
Qed.

Lemma nth_error_prefix {A} (l r : list A) i : i < length l -> nth_error (l ++ r) i = nth_error l i.
Proof. intros H. apply nth_error_app1. exact H. Qed.

Lemma bsize_app a b : bsize (a ++ b) = bsize a + bsize b.
Proof. induction a; simpl; [reflexivity|]. rewrite IHa. lia. Qed.

Lemma bsize_cons x r : bsize (x :: r) = isize x + bsize r.
Proof. reflexivity. Qed.

Lemma isize_pos i : 1 <= isize i.
Proof. destruct i; simpl; lia. Qed.

(* ------------------------------------------------------------------ *)
(* Steps of the loop of nextCall on stacks of a known shape             *)

Lemma step_started t A fr junk g :
  smode t = MNext (S (length A)) -> scalls t = A ++ fr :: junk ->
  fstat fr = Started -> fcl fr = CFn g ->
  step t = Next (mkstate MExec (Some g) (fpc fr) A (schain t) (str t) (sraised t) (souter t)).
Proof.
  intros Hm Hc Hs Hg. unfold step. rewrite Hm. unfold step_next. rewrite Hc, nth_error_mid, Hs.
  unfold after_switch. rewrite Hg, Hc, firstn_exact. reflexivity.
Qed.

Definition top_not_deferred (A : list frame) : Prop :=
  forall x, nth_error A (pred (length A)) = Some x -> fstat x <> Deferred.

Lemma prev_deferred_none A fr junk :
  top_not_deferred A -> prev_deferred (A ++ fr :: junk) (length A) = None.
Proof.
  intros Ht. unfold prev_deferred. destruct (length A) as [|j] eqn:Hl; [reflexivity|].
  rewrite nth_error_prefix by lia.
  destruct (nth_error A j) as [x|] eqn:Hx; [|reflexivity].
  specialize (Ht x). rewrite Hl in Ht. simpl in Ht. specialize (Ht Hx).
  destruct (fstat x); try reflexivity. exfalso. apply Ht. reflexivity.
Qed.

Lemma step_returned_last t A fr junk :
  smode t = MNext (S (length A)) -> scalls t = A ++ fr :: junk ->
  fstat fr = Returned -> top_not_deferred A ->
  step t = Next (set_mode t (MNext (length A))).
Proof.
  intros Hm Hc Hs Ht. unfold step. rewrite Hm. unfold step_next. rewrite Hc, nth_error_mid, Hs.
  cbv zeta. change (status_eqb Returned Recovered) with false. cbv iota. cbv beta. rewrite Hc.
  rewrite prev_deferred_none by exact Ht. reflexivity.
Qed.

Lemma step_returned_deferred t A d fr junk :
  smode t = MNext (S (S (length A))) -> scalls t = A ++ d :: fr :: junk ->
  fstat fr = Returned -> fstat d = Deferred ->
  step t = after_switch (set_calls t (A ++ fr :: fr :: junk)) d (S (length A)).
Proof.
  intros Hm Hc Hs Hd. unfold step. rewrite Hm. unfold step_next. rewrite Hc.
  replace (A ++ d :: fr :: junk) with ((A ++ [d]) ++ fr :: junk) by (rewrite <- app_assoc; reflexivity).
  replace (S (length A)) with (length (A ++ [d])) by (rewrite app_length; simpl; lia).
  rewrite nth_error_mid, Hs.
  cbv zeta. change (status_eqb Returned Recovered) with false. cbv iota. cbv beta. rewrite Hc.
  replace (A ++ d :: fr :: junk) with ((A ++ [d]) ++ fr :: junk) by (rewrite <- app_assoc; reflexivity).
  unfold prev_deferred. rewrite app_length. simpl. replace (length A + 1) with (S (length A)) by lia.
  rewrite <- app_assoc. simpl. rewrite nth_error_mid, Hd. simpl.
  rewrite set_nth_mid. reflexivity.
Qed.

Lemma step_deferred_top t A d junk f :
  smode t = MNext (S (length A)) -> scalls t = A ++ d :: junk ->
  fstat d = Deferred -> sfn t = Some f ->
  step t = after_switch (set_calls t (A ++ mkframe (CFn f) 0 Returned :: junk)) d (S (length A)).
Proof.
  intros Hm Hc Hd Hf. unfold step. rewrite Hm. unfold step_next. rewrite Hc, nth_error_mid, Hd, Hf.
  rewrite set_nth_mid. reflexivity.
Qed.

Lemma after_switch_fn s h i st :
  after_switch s (mkframe (CFn h) 0 st) i
  = Next (mkstate MExec (Some h) 0 (firstn i (scalls s)) (schain s) (str s) (sraised s) (souter s)).
Proof. reflexivity. Qed.

Lemma after_switch_body s n i st :
  after_switch s (mkframe (CNat (NBody n)) 0 st) i
  = Next (set_mode (emit (set_calls s (firstn i (scalls s))) (EBody n)) (MNext i)).
Proof. reflexivity. Qed.

Ltac proj_in H := unfold set_calls, set_mode, emit, set_pc in H; cbn [smode sfn spc scalls schain str sraised souter] in H.
Ltac proj := unfold set_calls, set_mode, emit, set_pc; cbn [smode sfn spc scalls schain str sraised souter].

(* ------------------------------------------------------------------ *)
(* The simulation                                                       *)

Definition dfr (ds : list callee) : list frame := map (fun c => mkframe c 0 Deferred) (rev ds).

Lemma dfr_cons c ds : dfr (c :: ds) = dfr ds ++ [mkframe c 0 Deferred].
Proof. unfold dfr. simpl. rewrite map_app. reflexivity. Qed.

Definition tr_callee (c : callee) : list event :=
  match c with CFn f => pf_trace f | CNat (NBody n) => [EBody n] | _ => [] end.
Definition tr_defers (ds : list callee) : list event := flat_map tr_callee ds.
Definition pf_callee (c : callee) : Prop :=
  match c with CFn f => pf_func f | CNat (NBody _) => True | _ => False end.

(* t is in the loop of nextCall, about to examine the top of base *)
Definition ret_like (base : list frame) (tr : list event) (r : N) (o : list saved) (t : state) : Prop :=
  smode t = MNext (length base) /\ (exists junk, scalls t = base ++ junk) /\
  schain t = [] /\ str t = tr /\ sraised t = r /\ souter t = o.

(* the top of base is the frame of a caller or of a function that is running its deferred calls *)
Definition top_sr (base : list frame) : Prop :=
  forall x, nth_error base (pred (length base)) = Some x ->
    (fstat x = Started /\ exists g, fcl x = CFn g) \/ fstat x = Returned.

Lemma top_sr_nd base : top_sr base -> top_not_deferred base.
Proof. intros H x Hx Hd. destruct (H x Hx) as [[Hs _]|Hs]; rewrite Hs in Hd; discriminate. Qed.

Lemma top_sr_snoc base fr :
  (fstat fr = Started /\ exists g, fcl fr = CFn g) \/ fstat fr = Returned -> top_sr (base ++ [fr]).
Proof.
  intros H x Hx. rewrite app_length in Hx. simpl in Hx.
  replace (pred (length base + 1)) with (length base) in Hx by lia.
  rewrite nth_error_mid in Hx. inversion Hx; subst. exact H.
Qed.

Definition fn_ok (f : func) : Prop :=
  forall base tr r o, top_sr base ->
    exists t, leads (mkstate MExec (Some f) 0 base [] tr r o) t /\
              ret_like base (rev (pf_trace f) ++ tr) r o t.

Definition callee_ok (c : callee) : Prop :=
  match c with CFn g => fn_ok g | _ => True end.

Lemma dfr_length ds : length (dfr ds) = length ds.
Proof. unfold dfr. rewrite map_length, rev_length. reflexivity. Qed.

(* the deferred calls that remain below the frame of a returned function are run, the last registered first *)
Lemma after_deferred : forall ds base x tr r o t0,
  Forall pf_callee ds -> Forall callee_ok ds -> top_sr base ->
  ret_like (base ++ dfr ds ++ [mkframe x 0 Returned]) tr r o t0 ->
  exists t, leads t0 t /\ ret_like base (rev (tr_defers ds) ++ tr) r o t.
Proof.
  induction ds as [|c ds IH]; intros base x tr r o t0 Hpf Hok Htop [Hm [[junk Hc] [Hch [Htr [Hr Ho]]]]].
  - simpl in *. rewrite app_length in Hm. simpl in Hm. replace (length base + 1) with (S (length base)) in Hm by lia.
    rewrite <- app_assoc in Hc. simpl in Hc.
    exists (set_mode t0 (MNext (length base))). split.
    + apply leads_step. eapply step_returned_last; try eassumption; [reflexivity|apply top_sr_nd; exact Htop].
    + repeat split; try assumption. exists (mkframe x 0 Returned :: junk). exact Hc.
  - inversion Hpf as [|? ? Hpc Hpds]; subst. inversion Hok as [|? ? Hoc Hods]; subst.
    rewrite dfr_cons in Hm, Hc.
    set (A := base ++ dfr ds) in *.
    assert (HcA : scalls t0 = A ++ mkframe c 0 Deferred :: mkframe x 0 Returned :: junk).
    { rewrite Hc. unfold A. repeat rewrite <- app_assoc. reflexivity. }
    assert (HmA : smode t0 = MNext (S (S (length A)))).
    { rewrite Hm. f_equal. unfold A. repeat rewrite app_length. simpl. lia. }
    assert (Hstep := step_returned_deferred t0 A _ _ junk HmA HcA eq_refl eq_refl).
    destruct c as [h|nk|]; [| |contradiction].
    + (* an interpreted deferred function *)
      rewrite after_switch_fn in Hstep. proj_in Hstep.
      replace (A ++ mkframe x 0 Returned :: mkframe x 0 Returned :: junk)
        with ((A ++ [mkframe x 0 Returned]) ++ mkframe x 0 Returned :: junk) in Hstep
        by (rewrite <- app_assoc; reflexivity).
      replace (S (length A)) with (length (A ++ [mkframe x 0 Returned])) in Hstep
        by (rewrite app_length; simpl; lia).
      rewrite firstn_exact in Hstep.
      destruct (Hoc (A ++ [mkframe x 0 Returned]) (str t0) (sraised t0) (souter t0)) as [t1 [Hl1 Hr1]].
      { apply top_sr_snoc. right. reflexivity. }
      rewrite Hch in Hstep.
      destruct (IH base x (rev (pf_trace h) ++ str t0) (sraised t0) (souter t0) t1 Hpds Hods Htop) as [t [Hl Hrl]].
      { unfold A in Hr1. rewrite <- app_assoc in Hr1. exact Hr1. }
      exists t. split.
      * eapply leads_trans; [apply leads_step; exact Hstep|]. eapply leads_trans; eassumption.
      * unfold tr_defers in *. simpl. rewrite rev_app_distr, <- app_assoc. exact Hrl.
    + destruct nk as [n| | |]; simpl in Hpc; try contradiction.
      rewrite after_switch_body in Hstep. proj_in Hstep. rewrite firstn_snoc in Hstep.
      match type of Hstep with _ = Next ?u => set (t1 := u) in * end.
      destruct (IH base x (EBody n :: str t0) (sraised t0) (souter t0) t1 Hpds Hods Htop) as [t [Hl Hrl]].
      { unfold t1. repeat split; proj.
        - f_equal. unfold A. repeat rewrite app_length. simpl. lia.
        - exists []. unfold A. repeat rewrite <- app_assoc. reflexivity.
        - exact Hch. }
      exists t. split.
      * eapply leads_trans; [apply leads_step; exact Hstep|exact Hl].
      * simpl. rewrite <- app_assoc. simpl. exact Hrl.
Qed.

Lemma fetch_return_end f : fetch f (length (fbody f)) = Some IReturn.
Proof. unfold fetch. apply nth_error_mid. Qed.

Lemma fetch_at f pre x rest : fbody f = pre ++ x :: rest -> fetch f (length pre) = Some x.
Proof.
  intros H. unfold fetch. rewrite H. rewrite <- app_assoc. simpl. apply nth_error_mid.
Qed.

Lemma step_exec_at s f ins :
  smode s = MExec -> sfn s = Some f -> fetch f (spc s) = Some ins ->
  step s = (let s := set_pc s (S (spc s)) in
            match ins with
            | INat (NBody n) => Next (emit s (EBody n))
            | INat (NStop e) => Fin (OStop e) (EStop e :: str s)
            | INat (NFatal v) => Fin (ORunPanics v) (EFatal v :: str s)
            | INat (NPanic v) => raise s f (Nat.pred (spc s)) v
            | IPanic v => raise s f (Nat.pred (spc s)) v
            | ICall b inf =>
                Next (mkstate MExec (Some (mkfunc b inf)) 0 (scalls s ++ [mkframe (CFn f) (spc s) Started])
                              (schain s) (str s) (sraised s) (souter s))
            | ICallback b inf =>
                Next (mkstate MExec (Some (mkfunc b inf)) 0 [] [] (str s) (sraised s)
                              (mksaved f (spc s) (scalls s) (schain s) :: souter s))
            | IDeferFn b inf => Next (set_calls s (scalls s ++ [mkframe (CFn (mkfunc b inf)) 0 Deferred]))
            | IDeferNat nk => Next (set_calls s (scalls s ++ [mkframe (CNat nk) 0 Deferred]))
            | IRecover down => do_recover s down
            | IReturn =>
                match length (scalls s) with
                | O => finish s
                | S i =>
                    match nth_error (scalls s) i with
                    | None => Fin OCrash (str s)
                    | Some call =>
                        if status_eqb (fstat call) Started then
                          match fcl call with
                          | CFn g => Next (mkstate MExec (Some g) (fpc call) (firstn i (scalls s)) (schain s) (str s) (sraised s) (souter s))
                          | CNat _ | CNone => Next (mkstate MExec None (fpc call) (firstn i (scalls s)) (schain s) (str s) (sraised s) (souter s))
                          end
                        else Next (set_mode s (MNext (S i)))
                    end
                end
            end).
Proof.
  intros Hm Hf Hfe. unfold step. rewrite Hm. unfold step_exec. rewrite Hf, Hfe. reflexivity.
Qed.

(* OpReturn of a function whose pending deferred calls are ds *)
Lemma do_return_defers f pc : forall ds base tr r o,
  fetch f pc = Some IReturn ->
  Forall pf_callee ds -> Forall callee_ok ds -> top_sr base ->
  exists t, leads (mkstate MExec (Some f) pc (base ++ dfr ds) [] tr r o) t /\
            ret_like base (rev (tr_defers ds) ++ tr) r o t.
Proof.
  intros ds base tr r o Hfe Hpf Hok Htop.
  set (s := mkstate MExec (Some f) pc (base ++ dfr ds) [] tr r o).
  assert (Hstep := step_exec_at s f IReturn eq_refl eq_refl Hfe).
  unfold s in Hstep at 2. cbv zeta in Hstep. proj_in Hstep.
  destruct ds as [|c ds].
  - (* no deferred call *)
    simpl. unfold dfr in *. simpl in *. rewrite app_nil_r in *.
    destruct (length base) as [|i] eqn:Hl.
    + destruct base; [|discriminate].
      exists (mkstate (MNext 0) (Some f) (S pc) [] [] tr r o). split.
      * apply leads_same_step. rewrite Hstep. reflexivity.
      * repeat split. exists []. reflexivity.
    + assert (Hb : exists A fr, base = A ++ [fr] /\ length A = i).
      { destruct (exists_last (l := base)) as [A [fr ->]]; [intros ->; discriminate|].
        exists A, fr. split; [reflexivity|]. rewrite app_length in Hl. simpl in Hl. lia. }
      destruct Hb as [A [fr [-> Hi]]]. subst i.
      rewrite nth_error_mid in Hstep.
      assert (Hx := Htop fr). rewrite app_length in Hx. simpl in Hx.
      replace (pred (length A + 1)) with (length A) in Hx by lia.
      rewrite nth_error_mid in Hx. specialize (Hx eq_refl).
      destruct Hx as [[Hst [g Hg]]|Hst].
      * rewrite Hst, Hg in Hstep. simpl in Hstep. rewrite firstn_exact in Hstep.
        exists (mkstate (MNext (length (A ++ [fr]))) (Some f) (S pc) (A ++ [fr]) [] tr r o). split.
        -- apply leads_same_step. rewrite Hstep. symmetry.
           rewrite app_length. simpl. replace (length A + 1) with (S (length A)) by lia.
           erewrite step_started; [reflexivity|reflexivity|reflexivity|exact Hst|exact Hg].
        -- repeat split. exists []. rewrite app_nil_r. reflexivity.
      * rewrite Hst in Hstep. simpl in Hstep.
        eexists. split; [apply leads_step; exact Hstep|].
        repeat split; proj.
        -- rewrite app_length. simpl. f_equal. lia.
        -- exists []. rewrite app_nil_r. reflexivity.
  - (* the last registered deferred call is on top *)
    inversion Hpf as [|? ? Hpc Hpds]; subst. inversion Hok as [|? ? Hoc Hods]; subst.
    rewrite dfr_cons in *. set (A := base ++ dfr ds) in *.
    assert (Hcalls : base ++ dfr ds ++ [mkframe c 0 Deferred] = A ++ [mkframe c 0 Deferred])
      by (unfold A; rewrite app_assoc; reflexivity).
    rewrite Hcalls in Hstep. rewrite app_length in Hstep. simpl in Hstep.
    replace (length A + 1) with (S (length A)) in Hstep by lia.
    rewrite nth_error_mid in Hstep. simpl in Hstep.
    match type of Hstep with _ = Next ?u => set (s1 := u) in * end.
    assert (Hstep1 := step_deferred_top s1 A (mkframe c 0 Deferred) [] f eq_refl eq_refl eq_refl eq_refl).
    destruct c as [h|nk|]; [| |contradiction].
    + rewrite after_switch_fn in Hstep1. proj_in Hstep1.
      replace (A ++ [mkframe (CFn f) 0 Returned]) with ((A ++ [mkframe (CFn f) 0 Returned]) ++ []) in Hstep1 by apply app_nil_r.
      replace (S (length A)) with (length (A ++ [mkframe (CFn f) 0 Returned])) in Hstep1 by (rewrite app_length; simpl; lia).
      rewrite firstn_exact in Hstep1.
      destruct (Hoc (A ++ [mkframe (CFn f) 0 Returned]) tr r o) as [t1 [Hl1 Hr1]].
      { apply top_sr_snoc. right. reflexivity. }
      destruct (after_deferred ds base (CFn f) (rev (pf_trace h) ++ tr) r o t1 Hpds Hods Htop) as [t [Hl Hrl]].
      { unfold A in Hr1. rewrite <- app_assoc in Hr1. exact Hr1. }
      exists t. split.
      * subst s.
        eapply leads_trans; [apply leads_step; exact Hstep|].
        eapply leads_trans; [apply leads_step; exact Hstep1|].
        eapply leads_trans; eassumption.
      * unfold tr_defers in *. simpl. rewrite rev_app_distr, <- app_assoc. exact Hrl.
    + destruct nk as [n| | |]; simpl in Hpc; try contradiction.
      rewrite after_switch_body in Hstep1. proj_in Hstep1. rewrite firstn_snoc in Hstep1.
      match type of Hstep1 with _ = Next ?u => set (t1 := u) in * end.
      destruct (after_deferred ds base (CFn f) (EBody n :: tr) r o t1 Hpds Hods Htop) as [t [Hl Hrl]].
      { unfold t1. repeat split; proj.
        - f_equal. unfold A. repeat rewrite app_length. simpl. lia.
        - exists []. unfold A. repeat rewrite <- app_assoc. rewrite app_nil_r. reflexivity. }
      exists t. split.
      * subst s.
        eapply leads_trans; [apply leads_step; exact Hstep|].
        eapply leads_trans; [apply leads_step; exact Hstep1|exact Hl].
      * simpl. rewrite <- app_assoc. simpl. exact Hrl.
Qed.

(* recover() in a function that is not run by the panic sequence finds no panicked frame *)
Lemma recover_search_dfr base ds :
  top_sr base -> recover_search (base ++ dfr ds) (length (base ++ dfr ds)) = None.
Proof.
  intros Htop. induction ds as [|c ds IH].
  - unfold dfr. simpl. rewrite app_nil_r.
    destruct (length base) as [|i] eqn:Hl; [reflexivity|]. simpl.
    destruct (nth_error base i) as [x|] eqn:Hx; [|reflexivity].
    specialize (Htop x). rewrite Hl in Htop. simpl in Htop.
    destruct (Htop Hx) as [[Hs _]|Hs]; rewrite Hs; reflexivity.
  - rewrite dfr_cons, app_assoc, app_length. simpl.
    replace (length (base ++ dfr ds) + 1) with (S (length (base ++ dfr ds))) by lia.
    simpl. rewrite nth_error_mid. simpl.
    clear - IH. revert IH. generalize (base ++ dfr ds). intros l IH.
    (* the search below the top only reads the prefix *)
    assert (H : forall k, k <= length l -> recover_search (l ++ [mkframe c 0 Deferred]) k = recover_search l k).
    { induction k; intros Hk; [reflexivity|]. simpl. rewrite nth_error_prefix by lia.
      destruct (nth_error l k) as [fr|]; [|reflexivity]. destruct (fstat fr); try reflexivity. apply IHk. lia. }
    rewrite H by lia. exact IH.
Qed.

Definition small_callee (bound : nat) (c : callee) : Prop :=
  match c with CFn g => bsize (fbody g) < bound | _ => True end.

Lemma exec_suffix f :
  (forall g, bsize (fbody g) < bsize (fbody f) -> pf_func g -> fn_ok g) ->
  forall rest pre ds base tr r o,
    fbody f = pre ++ rest -> pf_body rest ->
    Forall pf_callee ds -> Forall (small_callee (bsize (fbody f))) ds -> top_sr base ->
    exists t, leads (mkstate MExec (Some f) (length pre) (base ++ dfr ds) [] tr r o) t /\
              ret_like base (rev (tr_body rest (tr_defers ds)) ++ tr) r o t.
Proof.
  intros IHf.
  assert (Hoks : forall ds, Forall pf_callee ds -> Forall (small_callee (bsize (fbody f))) ds -> Forall callee_ok ds).
  { induction ds as [|c ds IHd]; intros Hp Hs; constructor.
    - inversion Hp; inversion Hs; subst. destruct c as [g| |]; [|exact I|exact I]. apply IHf; assumption.
    - inversion Hp; inversion Hs; subst. apply IHd; assumption. }
  induction rest as [|x rest IH]; intros pre ds base tr r o Hbody Hpf Hpds Hsm Htop.
  - rewrite app_nil_r in Hbody. subst pre. simpl.
    apply do_return_defers; auto. apply fetch_return_end.
  - assert (Hfe := fetch_at f pre x rest Hbody).
    set (s := mkstate MExec (Some f) (length pre) (base ++ dfr ds) [] tr r o).
    assert (Hstep := step_exec_at s f x eq_refl eq_refl Hfe).
    unfold s in Hstep at 2. cbv zeta in Hstep. proj_in Hstep.
    assert (Hbody' : fbody f = (pre ++ [x]) ++ rest) by (rewrite <- app_assoc; exact Hbody).
    assert (Hlen : length (pre ++ [x]) = S (length pre)) by (rewrite app_length; simpl; lia).
    destruct Hpf as [Hpx Hprest].
    destruct x as [k|b inf|b inf|k|v|down| |b inf].
    + (* hook body *)
      destruct k as [n| | |]; simpl in Hpx; try contradiction.
      destruct (IH (pre ++ [INat (NBody n)]) ds base (EBody n :: tr) r o Hbody' Hprest Hpds Hsm Htop) as [t [Hl Hr]].
      rewrite Hlen in Hl. exists t. split.
      * eapply leads_trans; [apply leads_step; exact Hstep|exact Hl].
      * simpl. rewrite <- app_assoc. exact Hr.
    + (* call *)
      rewrite pf_instr_call in Hpx.
      assert (Hsz : bsize b < bsize (fbody f)).
      { rewrite Hbody, bsize_app, bsize_cons, bsize_call. lia. }
      destruct (IHf (mkfunc b inf) Hsz Hpx ((base ++ dfr ds) ++ [mkframe (CFn f) (S (length pre)) Started]) tr r o)
        as [t1 [Hl1 Hr1]].
      { apply top_sr_snoc. left. split; [reflexivity|]. exists f. reflexivity. }
      destruct Hr1 as [Hm1 [[junk Hc1] [Hch1 [Htr1 [Hra1 Ho1]]]]].
      rewrite app_length in Hm1. simpl in Hm1. replace (length (base ++ dfr ds) + 1) with (S (length (base ++ dfr ds))) in Hm1 by lia.
      rewrite <- app_assoc in Hc1. simpl in Hc1.
      assert (Hstep1 := step_started t1 (base ++ dfr ds) _ junk f Hm1 Hc1 eq_refl eq_refl).
      cbn [fpc] in Hstep1. rewrite Hch1, Htr1, Hra1, Ho1 in Hstep1.
      destruct (IH (pre ++ [ICall b inf]) ds base (rev (pf_trace (mkfunc b inf)) ++ tr) r o Hbody' Hprest Hpds Hsm Htop) as [t [Hl Hr]].
      rewrite Hlen in Hl. exists t. split.
      * eapply leads_trans; [apply leads_step; exact Hstep|].
        eapply leads_trans; [exact Hl1|].
        eapply leads_trans; [apply leads_step; exact Hstep1|exact Hl].
      * change (tr_body (ICall b inf :: rest) (tr_defers ds)) with (tr_body b [] ++ tr_body rest (tr_defers ds)).
        rewrite rev_app_distr, <- app_assoc. exact Hr.
    + (* defer of a function *)
      rewrite pf_instr_defer in Hpx.
      assert (Hsz : bsize b < bsize (fbody f)).
      { rewrite Hbody, bsize_app, bsize_cons, bsize_defer. lia. }
      destruct (IH (pre ++ [IDeferFn b inf]) (CFn (mkfunc b inf) :: ds) base tr r o Hbody' Hprest) as [t [Hl Hr]];
        [constructor; [exact Hpx|exact Hpds]|constructor; [exact Hsz|exact Hsm]|exact Htop|].
      rewrite Hlen, dfr_cons, app_assoc in Hl. exists t. split.
      * eapply leads_trans; [apply leads_step; exact Hstep|exact Hl].
      * exact Hr.
    + (* defer of a native hook *)
      destruct k as [n| | |]; simpl in Hpx; try contradiction.
      destruct (IH (pre ++ [IDeferNat (NBody n)]) (CNat (NBody n) :: ds) base tr r o Hbody' Hprest) as [t [Hl Hr]];
        [constructor; [exact I|exact Hpds]|constructor; [exact I|exact Hsm]|exact Htop|].
      rewrite Hlen, dfr_cons, app_assoc in Hl. exists t. split.
      * eapply leads_trans; [apply leads_step; exact Hstep|exact Hl].
      * exact Hr.
    + simpl in Hpx. contradiction.
    + (* recover() returns nil *)
      simpl in Hpx. subst down.
      unfold do_recover, recover_start in Hstep. proj_in Hstep.
      rewrite recover_search_dfr in Hstep by exact Htop. unfold emit_rec in Hstep. proj_in Hstep.
      destruct (IH (pre ++ [IRecover false]) ds base (ERecover None :: tr) r o Hbody' Hprest Hpds Hsm Htop) as [t [Hl Hr]].
      rewrite Hlen in Hl. exists t. split.
      * eapply leads_trans; [apply leads_step; exact Hstep|exact Hl].
      * simpl. rewrite <- app_assoc. exact Hr.
    + (* return *)
      simpl tr_body. apply do_return_defers; auto.
    + (* a native function calls back the function: a new VM runs it to its end, then this one goes on *)
      rewrite pf_instr_callback in Hpx.
      assert (Hsz : bsize b < bsize (fbody f)).
      { rewrite Hbody, bsize_app, bsize_cons, bsize_callback. lia. }
      set (sv := mksaved f (S (length pre)) (base ++ dfr ds) []) in *.
      destruct (IHf (mkfunc b inf) Hsz Hpx [] tr r (sv :: o)) as [t1 [Hl1 Hr1]].
      { intros y Hy. simpl in Hy. discriminate. }
      destruct Hr1 as [Hm1 [_ [Hch1 [Htr1 [Hra1 Ho1]]]]].
      assert (Hstep1 : step t1 = Next (mkstate MExec (Some f) (S (length pre)) (base ++ dfr ds) []
                                         (rev (pf_trace (mkfunc b inf)) ++ tr) r o)).
      { unfold step. rewrite Hm1. simpl. unfold finish. rewrite Hch1, Ho1. unfold resume. simpl.
        rewrite Htr1, Hra1. reflexivity. }
      destruct (IH (pre ++ [ICallback b inf]) ds base (rev (pf_trace (mkfunc b inf)) ++ tr) r o Hbody' Hprest Hpds Hsm Htop) as [t [Hl Hr]].
      rewrite Hlen in Hl. exists t. split.
      * eapply leads_trans; [apply leads_step; exact Hstep|].
        eapply leads_trans; [exact Hl1|].
        eapply leads_trans; [apply leads_step; exact Hstep1|exact Hl].
      * change (tr_body (ICallback b inf :: rest) (tr_defers ds)) with (tr_body b [] ++ tr_body rest (tr_defers ds)).
        rewrite rev_app_distr, <- app_assoc. exact Hr.
Qed.

Lemma fn_ok_all : forall n f, bsize (fbody f) < n -> pf_func f -> fn_ok f.
Proof.
  induction n; intros f Hn Hpf; [lia|].
  intros base tr r o Htop.
  destruct (exec_suffix f (fun g Hg Hp => IHn g ltac:(lia) Hp) (fbody f) [] [] base tr r o eq_refl Hpf
              (Forall_nil _) (Forall_nil _) Htop) as [t [Hl Hr]].
  unfold dfr in Hl. simpl in Hl. rewrite app_nil_r in Hl.
  exists t. split; [exact Hl|exact Hr].
Qed.

(* On a tree without panics, Stop and Fatal, Run returns nil and the trace is
   pf_trace: program order, deferred calls last registered first, each once. *)
Theorem defer_lifo f :
  pf_func f -> exists n, forall m, n <= m -> vm_run m f = Some (ONil, pf_trace f).
Proof.
  intros Hpf.
  destruct (fn_ok_all (S (bsize (fbody f))) f ltac:(lia) Hpf [] [] 0%N []) as [t [Hl [Hm [_ [Hch [Htr [_ Ho]]]]]]].
  { intros x Hx. destruct (pred (length (@nil frame))); discriminate. }
  assert (Hrun : run 1 t = Some (ONil, pf_trace f)).
  { simpl. unfold step. rewrite Hm. simpl. unfold finish. rewrite Hch, Ho, Htr, app_nil_r, rev_involutive. reflexivity. }
  destruct (Hl 1 _ Hrun) as [n Hn]. exists n. intros m Hle. unfold vm_run.
  eapply run_mono; eassumption.
Qed.

(* ------------------------------------------------------------------ *)
(* GoSpec on panic-free trees gives the same trace                      *)

Definition gadd (g : gst) (es : list event) : gst := mkgst (rev es ++ gtr g) [].

Definition rec_ok (n : nat) (rec : func -> bool -> bool -> gst -> gres) : Prop :=
  forall h b1 b2 g, pf_func h -> fsize h <= n -> gpan g = [] -> rec h b1 b2 g = GNormal (gadd g (pf_trace h)).

Definition callee_fits (n : nat) (c : callee) : Prop :=
  match c with CFn h => fsize h <= n | _ => True end.

Lemma gadd_app g a b : gadd (gadd g a) b = gadd g (a ++ b).
Proof. unfold gadd. simpl. rewrite rev_app_distr, <- app_assoc. reflexivity. Qed.

Lemma gadd_pan g es : gpan (gadd g es) = [].
Proof. reflexivity. Qed.

Lemma g_rundefers_pf n rec bp : rec_ok n rec ->
  forall ds g, Forall pf_callee ds -> Forall (callee_fits n) ds -> gpan g = [] ->
  g_rundefers rec bp ds false g = GNormal (gadd g (tr_defers ds)).
Proof.
  intros Hrec. induction ds as [|d ds IH]; intros g Hpf Hfit Hg.
  - simpl. unfold gadd. simpl. destruct g; simpl in *. subst. reflexivity.
  - inversion Hpf as [|? ? Hp1 Hp2]; subst. inversion Hfit as [|? ? Hf1 Hf2]; subst. simpl g_rundefers.
    destruct d as [h|nk|]; [| |contradiction].
    + rewrite (Hrec h false bp g Hp1 Hf1 Hg).
      rewrite (IH (gadd g (pf_trace h)) Hp2 Hf2 eq_refl).
      rewrite gadd_app. reflexivity.
    + destruct nk as [k| | |]; simpl in Hp1; try contradiction.
      rewrite (IH (gemit g (EBody k)) Hp2 Hf2 Hg).
      unfold gadd, gemit, tr_defers. simpl. rewrite <- app_assoc. reflexivity.
Qed.

Lemma g_body_pf n rec f bp pp : rec_ok n rec ->
  forall b pc ds g, pf_body b -> bsize b <= n ->
    Forall pf_callee ds -> Forall (callee_fits n) ds -> gpan g = [] ->
    g_body rec f bp pp b pc ds g = GNormal (gadd g (tr_body b (tr_defers ds))).
Proof.
  intros Hrec. induction b as [|x b IH]; intros pc ds g Hpf Hsz Hpds Hfit Hg.
  - simpl. apply g_rundefers_pf with (n := n); assumption.
  - destruct Hpf as [Hpx Hpb]. rewrite bsize_cons in Hsz. assert (Hp := isize_pos x).
    destruct x as [k|b' inf|b' inf|k|v|down| |b' inf].
    + destruct k as [m| | |]; simpl in Hpx; try contradiction.
      simpl g_body. rewrite (IH (S pc) ds (gemit g (EBody m)) Hpb ltac:(lia) Hpds Hfit Hg).
      unfold gadd, gemit. simpl. rewrite <- app_assoc. reflexivity.
    + rewrite pf_instr_call in Hpx. rewrite bsize_call in Hsz.
      simpl g_body.
      rewrite (Hrec (mkfunc b' inf) false false g Hpx ltac:(unfold fsize; simpl; lia) Hg).
      rewrite (IH (S pc) ds (gadd g (pf_trace (mkfunc b' inf))) Hpb ltac:(lia) Hpds Hfit eq_refl).
      rewrite gadd_app. reflexivity.
    + rewrite pf_instr_defer in Hpx. rewrite bsize_defer in Hsz.
      simpl g_body.
      rewrite (IH (S pc) (CFn (mkfunc b' inf) :: ds) g Hpb ltac:(lia)
                 (@Forall_cons _ pf_callee (CFn (mkfunc b' inf)) ds Hpx Hpds)
                 (@Forall_cons _ (callee_fits n) (CFn (mkfunc b' inf)) ds ltac:(unfold callee_fits, fsize; simpl; lia) Hfit) Hg).
      reflexivity.
    + destruct k as [m| | |]; simpl in Hpx; try contradiction.
      simpl g_body.
      rewrite (IH (S pc) (CNat (NBody m) :: ds) g Hpb ltac:(lia)
                 (@Forall_cons _ pf_callee (CNat (NBody m)) ds I Hpds)
                 (@Forall_cons _ (callee_fits n) (CNat (NBody m)) ds I Hfit) Hg).
      reflexivity.
    + simpl in Hpx. contradiction.
    + simpl in Hpx. subst down. simpl g_body.
      unfold grecover. rewrite Hg. unfold gemit_rec.
      rewrite (IH (S pc) ds (gemit g (ERecover None)) Hpb ltac:(lia) Hpds Hfit Hg).
      unfold gadd, gemit. simpl. rewrite <- app_assoc. reflexivity.
    + simpl g_body. simpl tr_body. apply g_rundefers_pf with (n := n); assumption.
    + rewrite pf_instr_callback in Hpx. rewrite bsize_callback in Hsz.
      simpl g_body.
      rewrite (Hrec (mkfunc b' inf) false false g Hpx ltac:(unfold fsize; simpl; lia) Hg).
      rewrite (IH (S pc) ds (gadd g (pf_trace (mkfunc b' inf))) Hpb ltac:(lia) Hpds Hfit eq_refl).
      rewrite gadd_app. reflexivity.
Qed.

Lemma gfn_pf : forall fuel, rec_ok fuel (gfn fuel).
Proof.
  induction fuel as [|n IH]; intros h b1 b2 g Hpf Hsz Hg.
  - unfold fsize in Hsz. lia.
  - simpl gfn. unfold fsize in Hsz.
    rewrite (g_body_pf n (gfn n) h b1 b2 IH (fbody h) 0 [] g Hpf ltac:(lia) (Forall_nil _) (Forall_nil _) Hg).
    reflexivity.
Qed.

Theorem go_run_pf f : pf_func f -> forall m, fsize f <= m -> go_run m f = Some (ONil, pf_trace f).
Proof.
  intros Hpf m Hm. unfold go_run.
  rewrite (gfn_pf m f false false (mkgst [] []) Hpf Hm eq_refl).
  unfold gadd. simpl. rewrite app_nil_r, rev_involutive. reflexivity.
Qed.
