From Verif Require Import Bytes InitOrderM.
Open Scope N_scope.

Lemma pick_ext {A} (f g : A -> bool) l : (forall x, In x l -> f x = g x) -> pick f l = pick g l.
Proof.
  induction l as [|x r IH]; intros H; cbn [pick]; [reflexivity|].
  rewrite (H x (or_introl eq_refl)). rewrite IH by (intros y Hy; apply H; right; exact Hy). reflexivity.
Qed.

Lemma pick_subset {A} (f : A -> bool) l x r : pick f l = Some (x, r) -> forall y, In y r -> In y l.
Proof.
  revert x r; induction l as [|a l IH]; intros x r H y Hy; cbn [pick] in H; [discriminate|].
  destruct (f a).
  - injection H as <- <-. right. exact Hy.
  - destruct (pick f l) as [[z r']|] eqn:E; [|discriminate]. injection H as <- <-.
    destruct Hy as [->|Hy]; [left; reflexivity|right; apply (IH _ _ eq_refl _ Hy)].
Qed.

(* two readiness tests that agree on the declarations at hand give the same order *)
Lemma order_by_ext r1 r2 fuel : forall todo done,
  (forall d v, In v todo -> r1 d v = r2 d v) ->
  order_by r1 fuel todo done = order_by r2 fuel todo done.
Proof.
  induction fuel as [|k IH]; intros todo done H; cbn [order_by]; [reflexivity|].
  rewrite (pick_ext (r1 done) (r2 done) todo) by (intros x Hx; apply H; exact Hx).
  destruct (pick (r2 done) todo) as [[v rest]|] eqn:E; [|reflexivity].
  f_equal. apply IH. intros d w Hw. apply H. apply (pick_subset _ _ _ _ E _ Hw).
Qed.

(* functions that reach no variable *)
Definition funcs_pure (p : pkg) : Prop :=
  forall f fuel, fdeps p fuel f = [].

Lemma mem_true_in l d : mem l d = true -> In d l.
Proof.
  unfold mem. intros H. apply existsb_exists in H. destruct H as [x [Hx E]]. apply N.eqb_eq in E. subst. exact Hx.
Qed.

(* when the functions referred to by initialisers reach no variable, a variable
   is ready for Go exactly when it is ready for Scriggo *)
Lemma ready_agree p done v :
  (forall f, In f (filter (is_func p) (snd v)) -> fdeps p (length (funcs p)) f = []) ->
  (forall d, In d (snd v) -> is_var p d = true \/ is_func p d = true) ->
  (forall d, is_var p d = true -> is_func p d = false) ->
  (forall d, In d done -> is_var p d = true) ->
  go_ready p done v = sc_ready p done v.
Proof.
  intros Hpure Hdecl Hdisj Hdone. unfold go_ready, sc_ready, go_deps.
  assert (E : flat_map (fdeps p (length (funcs p))) (filter (is_func p) (snd v)) = []).
  { induction (filter (is_func p) (snd v)) as [|f r IH]; [reflexivity|]. cbn [flat_map].
    rewrite Hpure by (left; reflexivity). apply IH. intros g Hg. apply Hpure. right. exact Hg. }
  rewrite E, app_nil_r. clear E Hpure.
  induction (snd v) as [|d r IH]; [reflexivity|]. cbn [filter forallb].
  assert (Hr : forall d0, In d0 r -> is_var p d0 = true \/ is_func p d0 = true) by (intros; apply Hdecl; right; assumption).
  destruct (Hdecl d (or_introl eq_refl)) as [Hv|Hf].
  - rewrite Hv. cbn [forallb]. rewrite (Hdisj d Hv), orb_false_r, (IH Hr). reflexivity.
  - destruct (is_var p d) eqn:Hv.
    + rewrite (Hdisj d Hv) in Hf. discriminate.
    + rewrite Hf, orb_true_r. cbn [andb]. apply IH, Hr.
Qed.

Definition well_named (p : pkg) : Prop :=
  (forall v d, In v (vars p) -> In d (snd v) -> is_var p d = true \/ is_func p d = true) /\
  (forall d, is_var p d = true -> is_func p d = false).

(* The orders agree when no function reached from an initialiser refers
   (even indirectly) to a package-level variable. *)
Theorem init_order_agree p :
  well_named p ->
  (forall v f, In v (vars p) -> In f (filter (is_func p) (snd v)) -> fdeps p (length (funcs p)) f = []) ->
  go_order p = sc_order p.
Proof.
  intros [Hdecl Hdisj] Hpure. unfold go_order, sc_order.
  (* generalise: done only ever holds variable names *)
  assert (G : forall fuel todo done,
             (forall v, In v todo -> In v (vars p)) ->
             (forall d, In d done -> is_var p d = true) ->
             order_by (go_ready p) fuel todo done = order_by (sc_ready p) fuel todo done).
  { induction fuel as [|k IH]; intros todo done Hsub Hdone; cbn [order_by]; [reflexivity|].
    rewrite (pick_ext (go_ready p done) (sc_ready p done) todo).
    2:{ intros x Hx. apply ready_agree; auto.
        - intros f Hf. apply (Hpure x f (Hsub x Hx) Hf).
        - intros d Hd. apply (Hdecl x d (Hsub x Hx) Hd). }
    destruct (pick (sc_ready p done) todo) as [[v rest]|] eqn:E; [|reflexivity].
    f_equal. apply IH.
    - intros w Hw. apply Hsub. apply (pick_subset _ _ _ _ E _ Hw).
    - intros d [<-|Hd]; [|apply Hdone, Hd].
      assert (Hv : In v (vars p)).
      { apply Hsub. clear - E. revert v rest E. induction todo as [|a l IHl]; intros v rest E; cbn [pick] in E; [discriminate|].
        destruct (sc_ready p done a); [injection E as <- <-; left; reflexivity|].
        destruct (pick (sc_ready p done) l) as [[z r']|] eqn:E2; [|discriminate]. injection E as <- <-.
        right. apply (IHl _ _ eq_refl). }
      unfold is_var, mem. apply existsb_exists. exists (fst v). split; [apply in_map, Hv|apply N.eqb_refl]. }
  apply G; [auto|intros d []].
Qed.

(* ... and they do NOT agree in general: var a = f(); var b = g(1); func f() int { return b + 1 }
   (names: a=1 b=2 f=10 g=11).  Scriggo initialises a first, Go initialises b first. *)
Definition witness : pkg :=
  {| vars := [(1, [10]); (2, [11])]; funcs := [(10, [2]); (11, [])] |}.

Lemma init_order_refuted : sc_order witness = [1; 2] /\ go_order witness = [2; 1].
Proof. vm_compute. split; reflexivity. Qed.

Example init_order_agree_nonvacuous :
  let p := {| vars := [(1, [2; 10]); (2, [3]); (3, [])]; funcs := [(10, [11]); (11, [])] |} in
  go_order p = [3; 2; 1] /\ sc_order p = [3; 2; 1].
Proof. vm_compute. split; reflexivity. Qed.
