From Verif Require Import Bytes InitOrderM.
Open Scope N_scope.

Lemma pick_ext {A} (f g : A -> bool) l : (forall x, In x l -> f x = g x) -> pick f l = pick g l.
Proof.
  induction l as [|x r IH]; intros H; cbn [pick]; [reflexivity|].
  rewrite (H x (or_introl eq_refl)). rewrite IH by (intros y Hy; apply H; right; exact Hy). reflexivity.
Qed.

Lemma pick_subset {A} (f : A -> bool) l x r : pick f l = Some (x, r) -> forall y, In y r -> In y l.
Proof.
  revert x r; induction l as [|a l IH]; intros x r H y Hy; cbn [pick] in H; [discriminate|].
  destruct (f a).
  - injection H as <- <-. right. exact Hy.
  - destruct (pick f l) as [[z r']|] eqn:E; [|discriminate]. injection H as <- <-.
    destruct Hy as [->|Hy]; [left; reflexivity|right; apply (IH _ _ eq_refl _ Hy)].
Qed.

(* two readiness tests that agree on the declarations at hand give the same order *)
Lemma order_by_ext r1 r2 fuel : forall todo done,
  (forall d v, In v todo -> r1 d v = r2 d v) ->
  order_by r1 fuel todo done = order_by r2 fuel todo done.
Proof.
  induction fuel as [|k IH]; intros todo done H; cbn [order_by]; [reflexivity|].
  rewrite (pick_ext (r1 done) (r2 done) todo) by (intros x Hx; apply H; exact Hx).
  destruct (pick (r2 done) todo) as [[v rest]|] eqn:E; [|reflexivity].
  f_equal. apply IH. intros d w Hw. apply H. apply (pick_subset _ _ _ _ E _ Hw).
Qed.

Lemma mem_true_in l d : mem l d = true -> In d l.
Proof.
  unfold mem. intros H. apply existsb_exists in H. destruct H as [x [Hx E]]. apply N.eqb_eq in E. subst. exact Hx.
Qed.

(* ---- the levels of funcVarDeps reach what the specification reaches ---- *)

Lemma forallb_same_elements {A} (P : A -> bool) l1 l2 :
  (forall x, In x l1 <-> In x l2) -> forallb P l1 = forallb P l2.
Proof.
  intros H. destruct (forallb P l1) eqn:E1; symmetry.
  - apply forallb_forall. intros x Hx. apply (proj1 (forallb_forall P l1) E1). apply H. exact Hx.
  - destruct (forallb P l2) eqn:E2; [|reflexivity].
    rewrite <- E1. symmetry. apply forallb_forall. intros x Hx.
    apply (proj1 (forallb_forall P l2) E2). apply H. exact Hx.
Qed.

Lemma forallb_flat_map {A B} (P : B -> bool) (f : A -> list B) l :
  forallb P (flat_map f l) = forallb (fun a => forallb P (f a)) l.
Proof.
  induction l as [|a l IH]; [reflexivity|]. cbn [flat_map forallb]. rewrite forallb_app, IH. reflexivity.
Qed.

Lemma fdeps_unfold p k f :
  fdeps p k f = var_refs p f ++ match k with O => [] | S k' => flat_map (fdeps p k') (func_refs p f) end.
Proof. destruct k; reflexivity. Qed.

(* the variables referred to by the functions of the levels 0..k from fs are
   those the specification finds from some function of fs with fuel k *)
Lemma freach_fdeps p : forall k fs d,
  In d (flat_map (var_refs p) (freach p k fs)) <-> exists f, In f fs /\ In d (fdeps p k f).
Proof.
  induction k as [|k IH]; intros fs d.
  - cbn [freach]. rewrite app_nil_r. rewrite in_flat_map. split.
    + intros [f [Hf Hd]]. exists f. split; [exact Hf|]. rewrite fdeps_unfold, app_nil_r. exact Hd.
    + intros [f [Hf Hd]]. exists f. split; [exact Hf|]. rewrite fdeps_unfold, app_nil_r in Hd. exact Hd.
  - cbn [freach]. rewrite flat_map_app, in_app_iff, IH. split.
    + intros [H|[g [Hg Hd]]].
      * apply in_flat_map in H. destruct H as [f [Hf Hd]]. exists f. split; [exact Hf|].
        rewrite fdeps_unfold. apply in_or_app. left. exact Hd.
      * apply in_flat_map in Hg. destruct Hg as [f [Hf Hg]]. exists f. split; [exact Hf|].
        rewrite fdeps_unfold. apply in_or_app. right. apply in_flat_map. exists g. split; assumption.
    + intros [f [Hf Hd]]. rewrite fdeps_unfold in Hd. apply in_app_or in Hd. destruct Hd as [Hd|Hd].
      * left. apply in_flat_map. exists f. split; assumption.
      * right. apply in_flat_map in Hd. destruct Hd as [g [Hg Hd]]. exists g. split; [|exact Hd].
        apply in_flat_map. exists f. split; assumption.
Qed.

Lemma func_var_deps_spec p f d :
  In d (func_var_deps p f) <-> In d (fdeps p (length (funcs p)) f).
Proof.
  unfold func_var_deps. rewrite freach_fdeps. split.
  - intros [g [[<-|[]] Hd]]. exact Hd.
  - intros Hd. exists f. split; [left; reflexivity|exact Hd].
Qed.

(* a variable is ready for Scriggo exactly when it is ready for Go *)
Lemma ready_agree p done v :
  (forall d, In d (snd v) -> is_var p d = true \/ is_func p d = true) ->
  (forall d, is_var p d = true -> is_func p d = false) ->
  go_ready p done v = sc_ready p done v.
Proof.
  intros Hdecl Hdisj. unfold go_ready, sc_ready, go_deps.
  rewrite forallb_app, forallb_flat_map.
  induction (snd v) as [|d r IH]; [reflexivity|].
  assert (Hr : forall d0, In d0 r -> is_var p d0 = true \/ is_func p d0 = true) by (intros; apply Hdecl; right; assumption).
  specialize (IH Hr). cbn [filter forallb].
  destruct (Hdecl d (or_introl eq_refl)) as [Hv|Hf].
  - rewrite Hv, (Hdisj d Hv). cbn [forallb]. rewrite <- IH, andb_assoc. reflexivity.
  - destruct (is_var p d) eqn:Hv; [rewrite (Hdisj d Hv) in Hf; discriminate|].
    rewrite Hf. cbn [forallb]. rewrite <- IH.
    rewrite (forallb_same_elements (mem done) (func_var_deps p d) (fdeps p (length (funcs p)) d))
      by (intros x; apply func_var_deps_spec).
    rewrite andb_assoc, (andb_comm (forallb _ (filter _ r))), <- andb_assoc. reflexivity.
Qed.

Definition well_named (p : pkg) : Prop :=
  (forall v d, In v (vars p) -> In d (snd v) -> is_var p d = true \/ is_func p d = true) /\
  (forall d, is_var p d = true -> is_func p d = false).

(* Scriggo's order of initialisation is the order of the Go specification *)
Theorem init_order_agree p : well_named p -> go_order p = sc_order p.
Proof.
  intros [Hdecl Hdisj]. unfold go_order, sc_order.
  assert (G : forall fuel todo done,
             (forall v, In v todo -> In v (vars p)) ->
             order_by (go_ready p) fuel todo done = order_by (sc_ready p) fuel todo done).
  { induction fuel as [|k IH]; intros todo done Hsub; cbn [order_by]; [reflexivity|].
    rewrite (pick_ext (go_ready p done) (sc_ready p done) todo).
    2:{ intros x Hx. apply ready_agree; [|exact Hdisj]. intros d Hd. apply (Hdecl x d (Hsub x Hx) Hd). }
    destruct (pick (sc_ready p done) todo) as [[v rest]|] eqn:E; [|reflexivity].
    f_equal. apply IH. intros w Hw. apply Hsub. apply (pick_subset _ _ _ _ E _ Hw). }
  apply G. auto.
Qed.

(* the algorithm before the repair (a function always counted as resolved) did
   NOT agree: var a = f(); var b = g(1); func f() int { return b + 1 }
   (names: a=1 b=2 f=10 g=11): it initialised a first, Go initialises b first. *)
Definition witness : pkg :=
  {| vars := [(1, [10]); (2, [11])]; funcs := [(10, [2]); (11, [])] |}.

Lemma init_order_old_refuted : sc_order_old witness = [1; 2] /\ go_order witness = [2; 1] /\ sc_order witness = [2; 1].
Proof. vm_compute. repeat split; reflexivity. Qed.

Example init_order_agree_nonvacuous :
  let p := {| vars := [(1, [2; 10]); (2, [3]); (3, [12]); (4, [])]; funcs := [(10, [11]); (11, [10; 4]); (12, [12])] |} in
  well_named p /\ go_order p = [3; 2; 4; 1] /\ sc_order p = [3; 2; 4; 1] /\ sc_order_old p = [3; 2; 1; 4].
Proof.
  cbv zeta. split; [|vm_compute; repeat split; reflexivity].
  split.
  - intros v d Hv Hd. cbn in Hv.
    repeat (destruct Hv as [<-|Hv]; [cbn in Hd; repeat (destruct Hd as [<-|Hd]; [vm_compute; auto|]); destruct Hd|]); destruct Hv.
  - intros d. unfold is_var, is_func, mem. cbn [vars funcs map fst existsb].
    intros H. repeat (apply orb_true_iff in H; destruct H as [H|H]; [apply N.eqb_eq in H; subst; reflexivity|]). discriminate.
Qed.
