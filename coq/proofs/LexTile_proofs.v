(* How the primitives move the tiling state (inside / outside a block of code). *)
From Verif Require Import Bytes Utf8 Facts_lexer LexBase LexBase_proofs.
Open Scope N_scope.

Lemma emit_at_out line col cd ld typ n l l' :
  emit_at line col cd ld typ n l = Ok l' ->
  exists tok, l_out l' = tok :: l_out l /\ t_typ tok = typ /\ t_len tok = n /\ (n <> 0 -> t_start tok = l_base l).
Proof.
  unfold emit_at. destruct (len l <? n); [discriminate|].
  set (ctx := if typ =? gen_tokenText then gen_ContextText else l_ctx l).
  destruct (n =? 0) eqn:En.
  - apply N.eqb_eq in En. subst n. change (0 <? 0) with false. cbv iota.
    destruct (typ =? gen_tokenSemicolon);
    (destruct (l_tsyn _); [destruct (typ =? gen_tokenRaw); [destruct (_ =? gen_tokenStartStatement)|
      destruct (typ =? gen_tokenIdentifier); [cbn [l_raw set_out set_tot]; destruct (l_raw l); [destruct (_ =? gen_tokenRaw)|]|
      destruct (typ =? gen_tokenEnd)]]|]);
    intros H; injection H as <-; eexists; cbn; (split; [reflexivity|split; [reflexivity|split; [reflexivity|intros C; contradiction]]]).
  - assert (Hlt : (0 <? n) = true) by (apply N.ltb_lt; apply N.eqb_neq in En; lia). rewrite Hlt.
    destruct (l_tsyn _); [destruct (typ =? gen_tokenRaw); [destruct (_ =? gen_tokenStartStatement)|
      destruct (typ =? gen_tokenIdentifier); [cbn [l_raw set_out set_tot]; destruct (l_raw l); [destruct (_ =? gen_tokenRaw)|]|
      destruct (typ =? gen_tokenEnd)]]|];
    intros H; injection H as <-; eexists; cbn; (split; [reflexivity|split; [reflexivity|split; [reflexivity|intros _; reflexivity]]]).
Qed.

Lemma ib_emit line col cd ld typ n l l' :
  in_block l -> emit_at line col cd ld typ n l = Ok l' -> n = 0 \/ is_close typ = false -> in_block l'.
Proof.
  intros [q Hq] He Hc. destruct (emit_at_out _ _ _ _ _ _ _ _ He) as (tok & Ho & Ht & Hn & _).
  unfold in_block, tfoldr in *. rewrite Ho. simpl. rewrite Hq. unfold tstep. rewrite Hn, Ht.
  destruct (N.eqb_spec n 0); [eauto|]. destruct Hc as [Hc|Hc]; [contradiction|]. rewrite Hc. eauto.
Qed.

Lemma ib_close line col cd ld typ n l l' :
  in_block l -> emit_at line col cd ld typ n l = Ok l' -> n <> 0 -> is_close typ = true -> out_block l'.
Proof.
  intros [q Hq] He Hn Hc. destruct (emit_at_out _ _ _ _ _ _ _ _ He) as (tok & Ho & Ht & Hl & _).
  unfold out_block, tfoldr in *. rewrite Ho. simpl. rewrite Hq. unfold tstep. rewrite Hl, Ht, Hc.
  destruct (N.eqb_spec n 0); [contradiction|]. eauto.
Qed.

Lemma ob_emit text line col cd ld typ n l l' :
  INV text l -> out_block l -> emit_at line col cd ld typ n l = Ok l' -> n = 0 \/ is_open typ = false -> out_block l'.
Proof.
  intros (_ & _ & (q0 & inb & Hf & Hqb)) [q Hq] He Hc.
  destruct (emit_at_out _ _ _ _ _ _ _ _ He) as (tok & Ho & Ht & Hl & Hs).
  unfold out_block, tfoldr in *. rewrite Hq in Hf. injection Hf as <- <-. specialize (Hqb eq_refl).
  rewrite Ho. simpl. rewrite Hq. unfold tstep. rewrite Hl, Ht.
  destruct (N.eqb_spec n 0); [eauto|]. destruct Hc as [Hc|Hc]; [contradiction|]. rewrite Hc.
  rewrite (Hs n0), Hqb, N.eqb_refl. eauto.
Qed.

Lemma ob_open text line col cd ld typ n l l' :
  INV text l -> out_block l -> emit_at line col cd ld typ n l = Ok l' -> n <> 0 -> is_open typ = true -> in_block l'.
Proof.
  intros (_ & _ & (q0 & inb & Hf & Hqb)) [q Hq] He Hn Hc.
  destruct (emit_at_out _ _ _ _ _ _ _ _ He) as (tok & Ho & Ht & Hl & Hs).
  unfold in_block, tfoldr in *. rewrite Hq in Hf. injection Hf as <- <-. specialize (Hqb eq_refl).
  rewrite Ho. simpl. rewrite Hq. unfold tstep. rewrite Hl, Ht, Hc.
  destruct (N.eqb_spec n 0); [contradiction|]. rewrite (Hs Hn), Hqb, N.eqb_refl. eauto.
Qed.

Lemma same_core_ib l l' : same_core l l' -> in_block l -> in_block l'.
Proof. intros (_ & _ & Ho). unfold in_block. rewrite Ho. auto. Qed.
Lemma same_core_ob l l' : same_core l l' -> out_block l -> out_block l'.
Proof. intros (_ & _ & Ho). unfold out_block. rewrite Ho. auto. Qed.

Lemma advance_ib n l l' : advance n l = Ok l' -> in_block l -> in_block l'.
Proof. unfold advance. destruct (len l <? n); [discriminate|]. intros H; injection H as <-. auto. Qed.

(* inside and outside exclude each other *)
Lemma ib_not_ob l : in_block l -> out_block l -> False.
Proof. intros [q Hq] [q' Hq']. rewrite Hq in Hq'. discriminate. Qed.

(* a later state, strictly further in the source *)
Definition prog (text : bytes) (l l' : lexer) : Prop :=
  INV text l' /\ (l_base l < l_base l' /\ l_tidx l' <= l_tidx l).
Lemma prog_ext text l l' : prog text l l' -> ext text l l'.
Proof. intros [H1 H2]. split; [exact H1|lia]. Qed.

