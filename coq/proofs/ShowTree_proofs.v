(* Generic facts about the generated decision trees: the paths of a tree, and a
   checker that relates the accepting paths of a static tree with the
   compatible paths of a run time tree. Sound for every valuation. *)
From Coq Require Import List NArith Bool Lia.
From Verif Require Import Bytes ShowTree.
Import ListNotations.
Open Scope N_scope.

Definition atom_eqb (a b : atom) : bool :=
  match a, b with
  | AImpl p i, AImpl p' i' => tpath_eqb p p' && (i =? i')
  | AIs p w, AIs p' w' => tpath_eqb p p' && (w =? w')
  | AVisited, AVisited | AExported, AExported | ANilValue, ANilValue | AConv, AConv | ALoop, ALoop => true
  | ACheck f p, ACheck f' p' => showfn_eqb f f' && tpath_eqb p p'
  | AOther n, AOther n' => n =? n'
  | _, _ => false
  end.

Lemma tpath_eqb_eq a b : tpath_eqb a b = true <-> a = b.
Proof. destruct a, b; simpl; split; intro H; try reflexivity; try discriminate. Qed.

Lemma showfn_eqb_eq a b : showfn_eqb a b = true <-> a = b.
Proof. destruct a, b; simpl; split; intro H; try reflexivity; try discriminate. Qed.

Lemma atom_eqb_eq a b : atom_eqb a b = true <-> a = b.
Proof.
  destruct a, b; simpl; split; intro H; try reflexivity; try discriminate;
    try (apply andb_true_iff in H; destruct H as [H1 H2]);
    try (apply tpath_eqb_eq in H1); try (apply showfn_eqb_eq in H1);
    try (apply N.eqb_eq in H2); try (apply tpath_eqb_eq in H2);
    try (apply N.eqb_eq in H); subst; try reflexivity;
    try (inversion H; subst; apply andb_true_iff; split;
         try apply N.eqb_refl; try (apply tpath_eqb_eq; reflexivity); try (apply showfn_eqb_eq; reflexivity)).
  inversion H. apply N.eqb_refl.
Qed.

Lemma atom_eqb_refl a : atom_eqb a a = true.
Proof. apply atom_eqb_eq. reflexivity. Qed.

Lemma outcome_eqb_eq a b : outcome_eqb a b = true <-> a = b.
Proof.
  destruct a, b; simpl; split; intro H; try reflexivity; try discriminate.
  - apply showfn_eqb_eq in H. subst. reflexivity.
  - inversion H. apply showfn_eqb_eq. reflexivity.
  - apply andb_true_iff in H. destruct H as [H1 H2]. apply N.eqb_eq in H1. apply eqb_prop in H2. subst. reflexivity.
  - inversion H. subst. rewrite N.eqb_refl, eqb_reflx. reflexivity.
  - apply N.eqb_eq in H. subst. reflexivity.
  - inversion H. apply N.eqb_refl.
Qed.

Lemma of_bool_inj a b : of_bool a = of_bool b -> a = b.
Proof. destruct a, b; simpl; intro H; try reflexivity; discriminate. Qed.

(* ---- paths ---- *)

Definition asg := list (atom * bool).

Fixpoint paths (t : dtree) : list (asg * outcome) :=
  match t with
  | Leaf o => [([], o)]
  | Node a y n =>
    map (fun p : asg * outcome => ((a, true) :: fst p, snd p)) (paths y) ++
    map (fun p : asg * outcome => ((a, false) :: fst p, snd p)) (paths n)
  end.

Definition agrees (val : atom -> aval) (s : asg) : Prop :=
  Forall (fun ab : atom * bool => val (fst ab) = of_bool (snd ab)) s.

Lemma eval_path val t o :
  eval_tree val t = o -> o <> OStuck -> o <> OPanic ->
  exists s, In (s, o) (paths t) /\ agrees val s.
Proof.
  revert o. induction t as [o' | a y IHy n IHn]; intros o He Hs Hp; simpl in *.
  - subst. exists []. split; [left; reflexivity | constructor].
  - destruct (val a) eqn:Ev.
    + destruct (IHy o He Hs Hp) as [s [Hin Hag]].
      exists ((a, true) :: s). split.
      * apply in_or_app. left. apply in_map_iff. exists (s, o). split; [reflexivity | exact Hin].
      * constructor; [simpl; exact Ev | exact Hag].
    + destruct (IHn o He Hs Hp) as [s [Hin Hag]].
      exists ((a, false) :: s). split.
      * apply in_or_app. right. apply in_map_iff. exists (s, o). split; [reflexivity | exact Hin].
      * constructor; [simpl; exact Ev | exact Hag].
    + subst. contradiction.
    + subst. contradiction.
Qed.

Fixpoint atoms_ok (P : atom -> bool) (t : dtree) : bool :=
  match t with
  | Leaf _ => true
  | Node a y n => P a && atoms_ok P y && atoms_ok P n
  end.

Lemma eval_path_total val P t :
  atoms_ok P t = true -> (forall a, P a = true -> exists b, val a = of_bool b) ->
  exists s, In (s, eval_tree val t) (paths t) /\ agrees val s.
Proof.
  intros Hok Htot. induction t as [o' | a y IHy n IHn]; simpl in *.
  - exists []. split; [left; reflexivity | constructor].
  - apply andb_true_iff in Hok. destruct Hok as [Hok Hn]. apply andb_true_iff in Hok. destruct Hok as [Ha Hy].
    destruct (Htot a Ha) as [b Hb]. rewrite Hb. destruct b; simpl.
    + destruct (IHy Hy) as [s [Hin Hag]]. exists ((a, true) :: s). split.
      * apply in_or_app. left. apply in_map_iff. exists (s, eval_tree val y). split; [reflexivity | exact Hin].
      * constructor; [simpl; exact Hb | exact Hag].
    + destruct (IHn Hn) as [s [Hin Hag]]. exists ((a, false) :: s). split.
      * apply in_or_app. right. apply in_map_iff. exists (s, eval_tree val n). split; [reflexivity | exact Hin].
      * constructor; [simpl; exact Hb | exact Hag].
Qed.

Fixpoint asg_get (s : asg) (a : atom) : option bool :=
  match s with
  | [] => None
  | (a', b) :: r => if atom_eqb a a' then Some b else asg_get r a
  end.

Lemma agrees_get val s a b : agrees val s -> asg_get s a = Some b -> val a = of_bool b.
Proof.
  induction s as [| [a' b'] r IH]; simpl; intros Hag Hg; [discriminate |].
  inversion Hag as [| x l Hx Hl]; subst. simpl in Hx.
  destruct (atom_eqb a a') eqn:E.
  - apply atom_eqb_eq in E. subst. inversion Hg. subst. exact Hx.
  - apply IH; assumption.
Qed.

Definition asg_true (s : asg) (a : atom) : bool :=
  match asg_get s a with Some true => true | _ => false end.

Lemma asg_true_sound val s a : agrees val s -> asg_true s a = true -> val a = VT.
Proof.
  unfold asg_true. intros Hag H. destruct (asg_get s a) as [[|]|] eqn:E; try discriminate.
  apply (agrees_get val s a true Hag E).
Qed.

(* ---- compatibility of a static path with a run time path ---- *)

Definition compatible (shared : atom -> bool) (s1 s2 : asg) : bool :=
  forallb (fun ab : atom * bool =>
    forallb (fun ab' : atom * bool =>
      negb (atom_eqb (fst ab) (fst ab') && shared (fst ab)) || Bool.eqb (snd ab) (snd ab')) s2) s1.

Lemma compatible_sound shared v1 v2 s1 s2 :
  agrees v1 s1 -> agrees v2 s2 -> (forall a, shared a = true -> v1 a = v2 a) ->
  compatible shared s1 s2 = true.
Proof.
  intros H1 H2 Hsh. unfold compatible. apply forallb_forall. intros [a b] Hin1.
  apply forallb_forall. intros [a' b'] Hin2. simpl.
  destruct (atom_eqb a a' && shared a) eqn:E; simpl; [| reflexivity].
  apply andb_true_iff in E. destruct E as [E1 E2]. apply atom_eqb_eq in E1. subst a'.
  unfold agrees in *. rewrite Forall_forall in H1, H2.
  specialize (H1 _ Hin1). specialize (H2 _ Hin2). simpl in *.
  rewrite (Hsh a E2) in H1. rewrite H1 in H2. apply of_bool_inj in H2. subst. apply eqb_reflx.
Qed.

(* atoms that mean the same for the checker (about the static type t) and for the
   renderer (about the dynamic type of the value) when the two types are the same *)
Definition shared (a : atom) : bool :=
  match a with
  | AImpl PSelf _ | AIs PSelf _ => true
  | _ => false
  end.

(* atoms that have a value at run time *)
Definition dyn_atom (a : atom) : bool := shared a || atom_eqb a ANilValue || atom_eqb a AConv.

(* the path does not take the `case nil` branch *)
Definition no_nil (s : asg) : bool := negb (asg_true s ANilValue).

Lemma no_nil_sound val s : agrees val s -> val ANilValue = VF -> no_nil s = true.
Proof.
  intros Hag Hn. unfold no_nil. destruct (asg_true s ANilValue) eqn:E; [| reflexivity].
  rewrite (asg_true_sound val s ANilValue Hag E) in Hn. discriminate.
Qed.

(* Q holds for every accepting static path and every compatible run time path *)
Definition pair_check (Q : asg -> asg * outcome -> bool) (S D : dtree) : bool :=
  atoms_ok dyn_atom D &&
  forallb (fun ps : asg * outcome =>
    negb (outcome_eqb (snd ps) OOk) ||
    forallb (fun pd : asg * outcome =>
      negb (compatible shared (fst ps) (fst pd)) || negb (no_nil (fst pd)) || Q (fst ps) pd) (paths D)) (paths S).

Lemma pair_check_sound Q S D :
  pair_check Q S D = true ->
  forall vs vd,
    (forall a, shared a = true -> vs a = vd a) ->
    (forall a, dyn_atom a = true -> exists b, vd a = of_bool b) ->
    vd ANilValue = VF ->
    eval_tree vs S = OOk ->
    exists ss sd, agrees vs ss /\ agrees vd sd /\ Q ss (sd, eval_tree vd D) = true.
Proof.
  intros Hc vs vd Hsh Htot Hnil Hs. unfold pair_check in Hc.
  apply andb_true_iff in Hc. destruct Hc as [Hat Hall].
  destruct (eval_path vs S OOk Hs) as [ss [Hins Hags]]; try discriminate.
  destruct (eval_path_total vd dyn_atom D Hat Htot) as [sd [Hind Hagd]].
  exists ss, sd. split; [exact Hags | split; [exact Hagd |]].
  rewrite forallb_forall in Hall. specialize (Hall _ Hins). simpl in Hall.
  rewrite forallb_forall in Hall. specialize (Hall _ Hind). simpl in Hall.
  rewrite (compatible_sound shared vs vd ss sd Hags Hagd Hsh) in Hall.
  rewrite (no_nil_sound vd sd Hagd Hnil) in Hall. simpl in Hall. exact Hall.
Qed.

(* all the numbers below n *)
Definition below (n : N) : list N := map N.of_nat (seq 0 (N.to_nat n)).

Lemma below_complete n k : k < n -> In k (below n).
Proof.
  intro H. unfold below. apply in_map_iff. exists (N.to_nat k). split.
  - apply Nnat.N2Nat.id.
  - apply in_seq. lia.
Qed.

Lemma forall_below n (P : N -> bool) : forallb P (below n) = true -> forall k, k < n -> P k = true.
Proof. intros H k Hk. rewrite forallb_forall in H. apply H. apply below_complete. exact Hk. Qed.
