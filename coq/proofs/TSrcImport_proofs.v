(* Whole-file form of the import law (C16): moving the macros of a file
   imported without alias and without a for list into the importing root file
   does not change the lowering of anything in the root file. *)
From Verif Require Import Bytes Facts_render Facts_escapers RendererM TCalcM TSrcM TSrc_proofs.
Open Scope N_scope.

Definition cap_flag (fs : fileset) (en : sentry) : bool :=
  e_local en && match get_file fs (e_file en) with
                | Some g => captured g (e_name en)
                | None => false
                end.

Section Rel.
  Variable vals : N -> N -> shown.
  Variable mf rf : N -> N -> bool.
  Variables fs1 fs2 : fileset.
  Variable F : N.                       (* the root file *)
  Hypothesis Gother : forall q, q <> F -> get_file fs1 q = get_file fs2 q.

  (* nothing refers to F *)
  Definition exp_avoids (e : sexp) : bool := match e with ERender p => negb (p =? F) | _ => true end.
  Definition node_avoids (n : snode) : bool :=
    match n with SText _ _ _ => true | SShow _ e | SVarShow _ e => exp_avoids e end.
  Definition macros_avoid (ms : list smacro) : bool := forallb (fun m => forallb node_avoids (m_body m)) ms.
  Definition file_avoids (g : sfile) : bool :=
    forallb (fun i => negb (i_path i =? F)) (f_imports g) && forallb node_avoids (f_body g) && macros_avoid (f_macros g).
  Hypothesis Avoid : forall q g, get_file fs1 q = Some g -> q <> F -> file_avoids g = true.

  (* two entries that stand for the same macro *)
  Definition entry_rel (e1 e2 : sentry) : Prop :=
    e_alias e1 = e_alias e2 /\ e_name e1 = e_name e2 /\ e_macro e1 = e_macro e2 /\
    forallb node_avoids (m_body (e_macro e1)) = true /\
    ((e1 = e2 /\ e_file e1 <> F) \/
     (e_file e1 = F /\ e_file e2 = F /\ e_local e1 = true /\ e_local e2 = true) \/
     (e_local e1 = false /\ e_file e2 = F /\ e_local e2 = true /\
      forallb simple_node (m_body (e_macro e1)) = true /\ cap_flag fs2 e2 = false)).

  Hypothesis RootScope : Forall2 entry_rel (scope_of fs1 F false) (scope_of fs2 F false).
  Hypothesis Cap : forall e1 e2, e_name e1 = e_name e2 -> e_file e1 = F -> e_file e2 = F ->
    e_local e1 = true -> e_local e2 = true -> cap_flag fs1 e1 = cap_flag fs2 e2.

  Lemma lookup_rel sc1 sc2 alias name : Forall2 entry_rel sc1 sc2 ->
    (lookup sc1 alias name = None /\ lookup sc2 alias name = None) \/
    (exists e1 e2, lookup sc1 alias name = Some e1 /\ lookup sc2 alias name = Some e2 /\ entry_rel e1 e2).
  Proof.
    unfold lookup. induction 1 as [|e1 e2 r1 r2 H Hr IH]; [left; split; reflexivity|].
    cbn [find]. pose proof H as [Ha [Hn _]]. rewrite <- Ha, <- Hn.
    destruct (opt_eqb (e_alias e1) alias && (e_name e1 =? name)).
    - right. exists e1, e2. split; [reflexivity|]. split; [reflexivity|exact H].
    - exact IH.
  Qed.

  Lemma macros_avoid_in ms m : macros_avoid ms = true -> In m ms -> forallb node_avoids (m_body m) = true.
  Proof. unfold macros_avoid. rewrite forallb_forall. intros H I. apply H, I. Qed.

  Lemma Forall2_refl_on {A} (R : A -> A -> Prop) l : (forall x, In x l -> R x x) -> Forall2 R l l.
  Proof. induction l; intros H; constructor; [apply H; left; reflexivity|apply IHl; intros; apply H; right; assumption]. Qed.

  (* the scope of a file other than F is the same in both sets *)
  Lemma scope_other q b : q <> F -> Forall2 entry_rel (scope_of fs1 q b) (scope_of fs2 q b).
  Proof.
    intros NE. unfold scope_of. rewrite <- (Gother q NE).
    destruct (get_file fs1 q) as [g|] eqn:Gq; [|constructor].
    pose proof (Avoid q g Gq NE) as Av. unfold file_avoids in Av.
    apply andb_prop in Av. destruct Av as [Av Am]. apply andb_prop in Av. destruct Av as [Ai _].
    assert (E : flat_map (import_entries fs2) (f_imports g) = flat_map (import_entries fs1) (f_imports g)).
    { rewrite forallb_forall in Ai. clear -Ai Gother. induction (f_imports g) as [|i r IH]; [reflexivity|].
      cbn [flat_map]. rewrite IH by (intros x Hx; apply Ai; right; exact Hx).
      f_equal. unfold import_entries. rewrite <- Gother; [reflexivity|].
      specialize (Ai i (or_introl eq_refl)). destruct (N.eqb_spec (i_path i) F); [discriminate|assumption]. }
    rewrite E. apply Forall2_refl_on. intros x Hx.
    apply in_app_or in Hx. destruct Hx as [Hx|Hx].
    - unfold own_entries in Hx. apply in_map_iff in Hx. destruct Hx as [m [<- Hm]].
      repeat split; cbn [e_macro e_file]; [apply (macros_avoid_in _ _ Am Hm)|left; split; [reflexivity|exact NE]].
    - apply in_flat_map in Hx. destruct Hx as [i [Hi Hx]].
      rewrite forallb_forall in Ai. specialize (Ai i Hi).
      assert (NEi : i_path i <> F) by (destruct (N.eqb_spec (i_path i) F); [discriminate|assumption]).
      unfold import_entries in Hx. destruct (get_file fs1 (i_path i)) as [h|] eqn:Gh; [|destruct Hx].
      pose proof (Avoid _ h Gh NEi) as Avh. unfold file_avoids in Avh. apply andb_prop in Avh. destruct Avh as [_ Amh].
      apply in_map_iff in Hx. destruct Hx as [m [<- Hm]].
      assert (Hm' : In m (f_macros h)) by (destruct (i_for i); [apply filter_In in Hm; apply Hm|exact Hm]).
      repeat split; cbn [e_macro e_file]; [apply (macros_avoid_in _ _ Amh Hm')|left; split; [reflexivity|exact NEi]].
  Qed.

  Lemma cap_other e : e_file e <> F -> cap_flag fs1 e = cap_flag fs2 e.
  Proof. intros NE. unfold cap_flag. rewrite (Gother _ NE). reflexivity. Qed.

  Notation lower1 := (lower_nodes vals fs1 mf rf).
  Notation lower2 := (lower_nodes vals fs2 mf rf).

  Theorem lower_rel : forall fuel sc1 sc2 params ns,
    Forall2 entry_rel sc1 sc2 -> forallb node_avoids ns = true ->
    lower1 fuel sc1 params ns = lower2 fuel sc2 params ns.
  Proof.
    induction fuel as [|k IH]; intros sc1 sc2 params ns Rsc Av; [reflexivity|].
    destruct ns as [|n r]; [reflexivity|].
    cbn [forallb] in Av. apply andb_prop in Av. destruct Av as [Avn Avr].
    cbn [lower_nodes]. rewrite (IH sc1 sc2 params r Rsc Avr).
    (* the callee of an expression is the same *)
    assert (Callee : forall c e, exp_avoids e = true ->
      match e with
      | EVal _ | EParam _ => Some None
      | ECall alias name args =>
        match lookup sc1 alias name, args_ids params args with
        | Some en, Some ids =>
          if Nat.eqb (length ids) (m_nparams (e_macro en)) then
            match lower1 k (scope_of fs1 (e_file en) (negb (e_local en))) ids (m_body (e_macro en)) with
            | Some body =>
              let cap := e_local en && match get_file fs1 (e_file en) with Some g => captured g (e_name en) | None => false end in
              Some (Some (TFunc (m_fmt (e_macro en)) (m_rec (e_macro en)) body, mf (m_fmt (e_macro en)) (ctx_of c) && negb cap, cap))
            | None => None
            end
          else None
        | _, _ => None
        end
      | ERender p =>
        match get_file fs1 p with
        | Some f =>
          match f_extends f with
          | Some _ => None
          | None =>
            match lower1 k (scope_of fs1 p false) [] (f_body f) with
            | Some body => Some (Some (TFunc (f_fmt f) (f_rec f) body, rf (f_fmt f) (ctx_of c), false))
            | None => None
            end
          end
        | None => None
        end
      end =
      match e with
      | EVal _ | EParam _ => Some None
      | ECall alias name args =>
        match lookup sc2 alias name, args_ids params args with
        | Some en, Some ids =>
          if Nat.eqb (length ids) (m_nparams (e_macro en)) then
            match lower2 k (scope_of fs2 (e_file en) (negb (e_local en))) ids (m_body (e_macro en)) with
            | Some body =>
              let cap := e_local en && match get_file fs2 (e_file en) with Some g => captured g (e_name en) | None => false end in
              Some (Some (TFunc (m_fmt (e_macro en)) (m_rec (e_macro en)) body, mf (m_fmt (e_macro en)) (ctx_of c) && negb cap, cap))
            | None => None
            end
          else None
        | _, _ => None
        end
      | ERender p =>
        match get_file fs2 p with
        | Some f =>
          match f_extends f with
          | Some _ => None
          | None =>
            match lower2 k (scope_of fs2 p false) [] (f_body f) with
            | Some body => Some (Some (TFunc (f_fmt f) (f_rec f) body, rf (f_fmt f) (ctx_of c), false))
            | None => None
            end
          end
        | None => None
        end
      end).
    { intros c e Ae. destruct e as [id|i|alias name args|p]; try reflexivity.
      - destruct (lookup_rel sc1 sc2 alias name Rsc) as [[-> ->]|[e1 [e2 [-> [-> Rel]]]]]; [reflexivity|].
        destruct (args_ids params args) as [ids|]; [|reflexivity].
        pose proof Rel as [Ha [Hn [Hm [Hav Hcase]]]]. rewrite <- Hm.
        destruct (Nat.eqb (length ids) (m_nparams (e_macro e1))); [|reflexivity].
        assert (Body : lower1 k (scope_of fs1 (e_file e1) (negb (e_local e1))) ids (m_body (e_macro e1))
                     = lower2 k (scope_of fs2 (e_file e2) (negb (e_local e2))) ids (m_body (e_macro e1))).
        { destruct Hcase as [[E NE]|[[E1 [E2 [L1 L2]]]|[L1 [E2 [L2 [Sm _]]]]]].
          - subst e2. apply IH; [apply scope_other, NE|exact Hav].
          - rewrite E1, E2, L1, L2. apply IH; [exact RootScope|exact Hav].
          - apply simple_lower, Sm. }
        rewrite Body.
        assert (CapE : cap_flag fs1 e1 = cap_flag fs2 e2).
        { destruct Hcase as [[E NE]|[[E1 [E2 [L1 L2]]]|[L1 [E2 [L2 [Sm Cx]]]]]].
          - subst e2. apply cap_other, NE.
          - apply Cap; assumption.
          - rewrite Cx. unfold cap_flag. rewrite L1. reflexivity. }
        unfold cap_flag in CapE. rewrite CapE. reflexivity.
      - simpl in Ae. destruct (N.eqb_spec p F) as [|NE]; [discriminate|].
        rewrite <- (Gother p NE). destruct (get_file fs1 p) as [g|] eqn:Gp; [|reflexivity].
        destruct (f_extends g); [reflexivity|].
        pose proof (Avoid p g Gp NE) as Avg. unfold file_avoids in Avg.
        apply andb_prop in Avg. destruct Avg as [Avg _]. apply andb_prop in Avg. destruct Avg as [_ Ab].
        rewrite (IH _ _ [] (f_body g) (scope_other p false NE) Ab). reflexivity. }
    destruct n as [txt u s|c e|c e]; [reflexivity| |]; cbn [node_avoids] in Avn;
      destruct e as [id|i|alias name args|p]; try reflexivity;
      (pose proof (Callee c _ Avn) as CE; cbv zeta beta in CE |- *; rewrite CE; reflexivity).
  Qed.
End Rel.

(* ---------------------------------------------------------------- the transformation *)

Lemma simple_mentions name ns : forallb simple_node ns = true -> mentions name ns = false.
Proof.
  unfold mentions. induction ns as [|n r IH]; [reflexivity|]. cbn [forallb existsb]. intros H.
  apply andb_prop in H. destruct H as [Hn Hr]. rewrite (IH Hr), orb_false_r.
  destruct n as [txt u s|c e|c e]; [reflexivity| |]; destruct e; try discriminate; reflexivity.
Qed.

Lemma simple_avoids F ns : forallb simple_node ns = true -> forallb (node_avoids F) ns = true.
Proof.
  induction ns as [|n r IH]; [reflexivity|]. cbn [forallb]. intros H. apply andb_prop in H. destruct H as [Hn Hr].
  rewrite (IH Hr), andb_true_r. destruct n as [txt u s|c e|c e]; [reflexivity| |]; destruct e; try discriminate; reflexivity.
Qed.

(* An imported file I (no alias, no for list, first import of the root file F)
   against the same macros declared at the end of F: every file builds to the
   same function.  Hypotheses: the macros of I are made of texts and values,
   no macro of F refers to them (no capture), nothing renders or imports F. *)
Theorem import_inline_whole_file :
  forall vals mf rf fs F I f gI rest fuel,
  get_file fs F = Some f -> f_imports f = mkImport I None None :: rest ->
  get_file fs I = Some gI -> I <> F ->
  (forall q g, get_file fs q = Some g -> q <> F -> file_avoids F g = true) ->
  forallb (fun i => negb (i_path i =? F)) rest = true ->
  forallb (node_avoids F) (f_body f) = true -> macros_avoid F (f_macros f) = true ->
  forallb (fun m => forallb simple_node (m_body m)) (f_macros gI) = true ->
  forallb (fun m => negb (captured f (m_name m))) (f_macros gI) = true ->
  let f2 := mkFile (f_fmt f) (f_extends f) rest (f_macros f ++ f_macros gI) (f_rec f) (f_body f) in
  lower_plain vals fs mf rf fuel F = lower_plain vals (set_file fs F f2) mf rf fuel F.
Proof.
  intros vals mf rf fs F I f gI rest fuel GF Imp GI NE Avoid AvRest AvBody AvMac Simple NoCap f2.
  set (fs2 := set_file fs F f2).
  assert (G2 : get_file fs2 F = Some f2) by (apply (get_set_same fs F f2 f GF)).
  assert (Go : forall q, q <> F -> get_file fs q = get_file fs2 q)
    by (intros q Hq; symmetry; apply get_set_other, Hq).
  unfold lower_plain. rewrite GF, G2. cbn [f_extends f2 f_fmt f_rec f_body].
  destruct (f_extends f); [reflexivity|].
  assert (CapOwn : forall n, captured f2 n = captured f n).
  { intros n. unfold captured. cbn [f_macros f2]. rewrite existsb_app.
    replace (existsb (fun m => mentions n (m_body m)) (f_macros gI)) with false; [apply orb_false_r|].
    symmetry. clear -Simple. induction (f_macros gI) as [|m r IH]; [reflexivity|].
    cbn [forallb existsb] in *. apply andb_prop in Simple. destruct Simple as [S1 S2].
    rewrite (simple_mentions n _ S1), (IH S2). reflexivity. }
  assert (RestG : forall l, forallb (fun i => negb (i_path i =? F)) l = true ->
                  flat_map (import_entries fs2) l = flat_map (import_entries fs) l).
  { intros l. induction l as [|i r IH]; intros A; [reflexivity|]. cbn [flat_map forallb] in *.
    apply andb_prop in A. destruct A as [A1 A2]. rewrite (IH A2). f_equal.
    unfold import_entries. rewrite <- Go; [reflexivity|]. destruct (N.eqb_spec (i_path i) F); [discriminate|assumption]. }
  pose proof (RestG rest AvRest) as Rest.
  assert (Root : Forall2 (entry_rel fs2 F) (scope_of fs F false) (scope_of fs2 F false)).
  { unfold scope_of. rewrite GF, G2, Imp. cbn [f_imports f2 flat_map f_macros].
    unfold own_entries. cbn [f_macros f2]. rewrite map_app, <- app_assoc. rewrite Rest.
    apply Forall2_app; [|apply Forall2_app].
    - (* the macros of F *)
      assert (H : forall ms, macros_avoid F ms = true ->
                  Forall2 (entry_rel fs2 F) (map (fun m => mkEntry None (m_name m) F (negb false) m) ms)
                                            (map (fun m => mkEntry None (m_name m) F (negb false) m) ms)).
      { induction ms as [|m r IH]; intros A; [constructor|]. cbn [macros_avoid forallb] in A.
        apply andb_prop in A. destruct A as [A1 A2]. constructor; [|apply IH, A2].
        repeat split; cbn; auto. right. left. repeat split. }
      apply H, AvMac.
    - (* the macros of I *)
      unfold import_entries. cbn [i_path i_for i_alias]. rewrite GI.
      assert (HX : forall ms, forallb (fun m => forallb simple_node (m_body m)) ms = true ->
                   forallb (fun m => negb (captured f (m_name m))) ms = true ->
                   Forall2 (entry_rel fs2 F) (map (fun m => mkEntry None (m_name m) I false m) ms)
                                             (map (fun m => mkEntry None (m_name m) F (negb false) m) ms)).
      { induction ms as [|m r IH]; intros S C; [constructor|].
        cbn [forallb] in *. apply andb_prop in S. destruct S as [S1 S2].
        apply andb_prop in C. destruct C as [C1 C2].
        constructor; [|apply IH; assumption].
        repeat split; cbn [e_alias e_name e_macro e_file e_local]; auto.
        + apply simple_avoids, S1.
        + right. right. repeat split; auto. unfold cap_flag. cbn [e_local e_file e_name]. rewrite G2, CapOwn.
          destruct (captured f (m_name m)); [discriminate|reflexivity]. }
      apply HX; assumption.
    - (* the other imports *)
      apply Forall2_refl_on. intros x Hx. apply in_flat_map in Hx. destruct Hx as [i [Hi Hx]].
      rewrite forallb_forall in AvRest. specialize (AvRest i Hi).
      assert (NEi : i_path i <> F) by (destruct (N.eqb_spec (i_path i) F); [discriminate|assumption]).
      unfold import_entries in Hx. destruct (get_file fs (i_path i)) as [h|] eqn:Gh; [|destruct Hx].
      pose proof (Avoid _ h Gh NEi) as Avh. unfold file_avoids in Avh. apply andb_prop in Avh. destruct Avh as [_ Amh].
      apply in_map_iff in Hx. destruct Hx as [m [<- Hm]].
      assert (Hm' : In m (f_macros h)) by (destruct (i_for i); [apply filter_In in Hm; apply Hm|exact Hm]).
      repeat split; cbn [e_macro e_file]; [apply (macros_avoid_in F _ _ Amh Hm')|left; split; [reflexivity|exact NEi]]. }
  assert (Cap : forall e1 e2, e_name e1 = e_name e2 -> e_file e1 = F -> e_file e2 = F ->
            e_local e1 = true -> e_local e2 = true -> cap_flag fs e1 = cap_flag fs2 e2).
  { intros e1 e2 Hn E1 E2 L1 L2. unfold cap_flag. rewrite E1, E2, L1, L2, GF, G2, CapOwn, Hn. reflexivity. }
  rewrite (lower_rel vals mf rf fs fs2 F Go Avoid Root Cap fuel _ _ [] (f_body f) Root AvBody).
  reflexivity.
Qed.

(* extends, in the documented form: the file p that extends the layout l is
   built as the layout with the macros of p declared at its end *)
Theorem extends_as_local_macros :
  forall vals mf rf fs fuel p l f lf fs',
  get_file fs p = Some f -> f_extends f = Some l ->
  get_file fs l = Some lf -> f_extends lf = None -> f_body f = [] ->
  swap_extends fs p l = Some fs' ->
  (forall q g, get_file fs' q = Some g -> q <> l -> file_avoids l g = true) ->
  forallb (fun i => negb (i_path i =? l)) (f_imports lf) = true ->
  forallb (node_avoids l) (f_body lf) = true -> macros_avoid l (f_macros lf) = true ->
  forallb (fun m => forallb simple_node (m_body m)) (f_macros f) = true ->
  forallb (fun m => negb (captured lf (m_name m))) (f_macros f) = true ->
  let layout := mkFile (f_fmt lf) None (f_imports lf) (f_macros lf ++ f_macros f) (f_rec lf) (f_body lf) in
  lower_main vals mf rf fs fuel p = lower_plain vals (set_file fs' l layout) mf rf fuel l.
Proof.
  intros vals mf rf fs fuel p l f lf fs' Gp Ep Gl El Bp Sw Avoid AvI AvB AvM Simple NoCap layout.
  assert (NE : p <> l) by (intros ->; rewrite Gp in Gl; injection Gl as ->; congruence).
  unfold lower_main. rewrite Gp, Ep, Sw.
  unfold swap_extends in Sw. rewrite Gp, Gl, El, Bp in Sw. injection Sw as <-.
  set (f' := mkFile (f_fmt f) None (f_imports f) (f_macros f) (f_rec f) []) in *.
  set (lf' := mkFile (f_fmt lf) None (mkImport p None None :: f_imports lf) (f_macros lf) (f_rec lf) (f_body lf)) in *.
  set (fs' := set_file (set_file fs p f') l lf') in *.
  assert (G1 : get_file fs' l = Some lf').
  { unfold fs'. apply (get_set_same _ l lf' lf). rewrite get_set_other by congruence. exact Gl. }
  assert (G2 : get_file fs' p = Some f').
  { unfold fs'. rewrite get_set_other by exact NE. apply (get_set_same _ p f' f). exact Gp. }
  pose proof (import_inline_whole_file vals mf rf fs' l p lf' f' (f_imports lf) fuel G1 eq_refl G2 NE Avoid AvI AvB AvM Simple) as H.
  cbn [f_macros f' lf' f_fmt f_extends f_rec f_body] in H.
  assert (NoCap' : forallb (fun m => negb (captured lf' (m_name m))) (f_macros f) = true) by exact NoCap.
  exact (H NoCap').
Qed.

(* the hypotheses are satisfiable: a root file importing a file with one macro of texts and values *)
Example import_inline_example :
  let imp := mkFile 1 None [] [mkMacro 7 1 1 false [SText [60; 109; 62] false false; SShow 1 (EParam 0)]] false [] in
  let root := mkFile 1 None [mkImport 2 None None] [mkMacro 8 1 0 false [SText [120] false false]] false
                [SShow 1 (ECall None 7 [AVal 0]); SVarShow 1 (ECall None 8 [])] in
  let fs := [(1, root); (2, imp)] in
  let root2 := mkFile 1 None [] (f_macros root ++ f_macros imp) false (f_body root) in
  lower_plain demo_vals fs (tbl_fast gen_macro_fastpath) (tbl_fast gen_render_fastpath) 6 1
  = lower_plain demo_vals (set_file fs 1 root2) (tbl_fast gen_macro_fastpath) (tbl_fast gen_render_fastpath) 6 1
  /\ lower_plain demo_vals fs (tbl_fast gen_macro_fastpath) (tbl_fast gen_render_fastpath) 6 1 <> None.
Proof. vm_compute. split; [reflexivity|discriminate]. Qed.
