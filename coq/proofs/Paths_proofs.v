(* Lemmas about the byte-string functions used by the model of files.go:
   prefixes, IndexByte, slash separated elements, fs.ValidPath, UTF-8 validity,
   string order and sort.Strings, path.Base. *)
From Verif Require Import Bytes FilesFSM.
From Coq Require Import Permutation Sorted.
Open Scope N_scope.

Definition noslash (c : bytes) : Prop := ~ In slash c.

Lemma beq_refl a : bytes_eqb a a = true.
Proof. apply bytes_eqb_eq. reflexivity. Qed.

Lemma beq_false a b : bytes_eqb a b = false <-> a <> b.
Proof.
  split.
  - intros H E. apply bytes_eqb_eq in E. congruence.
  - intros H. destruct (bytes_eqb a b) eqn:E; [|reflexivity]. apply bytes_eqb_eq in E. contradiction.
Qed.

Lemma is_slash_true b : is_slash b = true <-> b = slash.
Proof. unfold is_slash. apply N.eqb_eq. Qed.
Lemma is_slash_false b : is_slash b = false <-> b <> slash.
Proof. unfold is_slash. apply N.eqb_neq. Qed.

(* ---------------------------------------------------------------- name sets *)

Lemma name_in_In n l : name_in n l = true <-> In n l.
Proof.
  induction l as [|k r IH]; simpl; [split; [discriminate|tauto]|].
  destruct (bytes_eqb k n) eqn:E.
  - apply bytes_eqb_eq in E. subst. tauto.
  - apply beq_false in E. rewrite IH. split; [tauto|]. intros [H|H]; [contradiction|assumption].
Qed.

Lemma name_in_nIn n l : name_in n l = false <-> ~ In n l.
Proof. rewrite <- name_in_In. destruct (name_in n l); split; congruence. Qed.

Lemma nodup_names_NoDup l : nodup_names l = true <-> NoDup l.
Proof.
  induction l as [|k r IH]; simpl; [split; [constructor|reflexivity]|].
  rewrite andb_true_iff, negb_true_iff, name_in_nIn, IH. split.
  - intros [H1 H2]. constructor; assumption.
  - intros H. inversion H; subst. tauto.
Qed.

Lemma fs_get_In (fs : files) name data : NoDup (map fst fs) -> In (name, data) fs -> fs_get fs name = Some data.
Proof.
  induction fs as [|[k v] r IH]; simpl; intros ND H; [destruct H|].
  inversion ND as [|? ? Hn ND']; subst. destruct H as [H|H].
  - injection H as -> ->. rewrite beq_refl. reflexivity.
  - destruct (bytes_eqb k name) eqn:E; [|apply IH; assumption].
    apply bytes_eqb_eq in E. subst k. exfalso. apply Hn. apply in_map_iff. exists (name, data). tauto.
Qed.

Lemma fs_get_Some (fs : files) name data : fs_get fs name = Some data -> In (name, data) fs.
Proof.
  induction fs as [|[k v] r IH]; simpl; [discriminate|].
  destruct (bytes_eqb k name) eqn:E.
  - apply bytes_eqb_eq in E. subst k. intros H. injection H as ->. tauto.
  - intros H. right. apply IH, H.
Qed.

Lemma fs_get_None (fs : files) name : fs_get fs name = None <-> ~ In name (map fst fs).
Proof.
  induction fs as [|[k v] r IH]; simpl; [tauto|].
  destruct (bytes_eqb k name) eqn:E.
  - apply bytes_eqb_eq in E. subst k. split; [discriminate|tauto].
  - apply beq_false in E. rewrite IH. tauto.
Qed.

(* ---------------------------------------------------------------- HasPrefix, IndexByte *)

Lemma has_prefix_spec p s : has_prefix p s = true <-> exists t, s = p ++ t.
Proof.
  revert s. induction p as [|x p IH]; intros s; simpl.
  - split; [intros _; exists s; reflexivity|reflexivity].
  - destruct s as [|y s].
    + split; [discriminate|]. intros (t & E). discriminate.
    + rewrite andb_true_iff, N.eqb_eq, IH. split.
      * intros (-> & t & ->). exists t. reflexivity.
      * intros (t & E). injection E as -> ->. split; [reflexivity|]. exists t. reflexivity.
Qed.

Lemma has_prefix_app p t : has_prefix p (p ++ t) = true.
Proof. apply has_prefix_spec. exists t. reflexivity. Qed.

Lemma index_byte_none s c : index_byte s c = None <-> ~ In c s.
Proof.
  induction s as [|b r IH]; simpl; [tauto|].
  destruct (N.eqb_spec b c) as [->|Hne].
  - split; [discriminate|tauto].
  - destruct (index_byte r c) eqn:E.
    + split; [discriminate|]. intros H. exfalso. apply H. right.
      destruct (in_dec N.eq_dec c r) as [Hin|Hnin]; [assumption|]. apply IH in Hnin. discriminate.
    + split; [|reflexivity]. intros _ [H|H]; [contradiction|]. apply IH in H; [assumption|reflexivity].
Qed.

Lemma index_byte_some s c i :
  index_byte s c = Some i -> exists a b, s = a ++ c :: b /\ ~ In c a /\ length a = i.
Proof.
  revert i. induction s as [|x r IH]; simpl; intros i; [discriminate|].
  destruct (N.eqb_spec x c) as [->|Hne].
  - intros H. injection H as <-. exists [], r. simpl. tauto.
  - destruct (index_byte r c) as [j|]; [|discriminate]. intros H. injection H as <-.
    destruct (IH j eq_refl) as (a & b & -> & Hn & Hl). exists (x :: a), b. simpl.
    split; [reflexivity|]. split; [|congruence]. intros [H|H]; [contradiction|tauto].
Qed.

(* ---------------------------------------------------------------- elements *)

Lemma split_slash_nonnil s : split_slash s <> [].
Proof.
  destruct s as [|b r]; simpl; [discriminate|].
  destruct (is_slash b); [discriminate|]. destruct (split_slash r); discriminate.
Qed.

Lemma split_slash_app a b : split_slash (a ++ slash :: b) = split_slash a ++ split_slash b.
Proof.
  induction a as [|x a IH]; simpl.
  - reflexivity.
  - rewrite IH. destruct (is_slash x); [reflexivity|].
    pose proof (split_slash_nonnil a) as H. destruct (split_slash a) as [|e es]; [contradiction|]. reflexivity.
Qed.

Lemma split_slash_noslash c : noslash c -> split_slash c = [c].
Proof.
  induction c as [|x c IH]; intros H; simpl; [reflexivity|].
  assert (Hx : is_slash x = false) by (apply is_slash_false; intros ->; apply H; simpl; tauto).
  rewrite Hx, IH; [reflexivity|]. intros Hin. apply H. simpl. tauto.
Qed.

Lemma velems_app a b : velems (a ++ slash :: b) = velems a && velems b.
Proof. unfold velems. rewrite split_slash_app, forallb_app. reflexivity. Qed.

Lemma velems_nonempty s : velems s = true -> s <> [].
Proof. intros H ->. discriminate. Qed.

Lemma velems_noslash c : noslash c -> velems c = elem_ok c.
Proof. intros H. unfold velems. rewrite split_slash_noslash by assumption. simpl. apply andb_true_r. Qed.

(* every string is slash-free or ends with a slash-free part after a last slash *)
Lemma last_slash_decomp s : noslash s \/ exists d c, s = d ++ slash :: c /\ noslash c.
Proof.
  induction s as [|b r IH]; [left; intros []|].
  destruct IH as [H|(d & c & -> & Hc)].
  - destruct (N.eq_dec b slash) as [->|Hne].
    + right. exists [], r. tauto.
    + left. intros [E|E]; [congruence|contradiction].
  - right. exists (b :: d), c. tauto.
Qed.

(* the final element of a path: the spec-level base name *)
Definition base_name (s : bytes) : bytes := last (split_slash s) [].

Lemma last_app_single {A} (l : list A) x d : last (l ++ [x]) d = x.
Proof. induction l as [|y l IH]; [reflexivity|]. simpl. destruct (l ++ [x]) eqn:E; [destruct l; discriminate|assumption]. Qed.

Definition dirlike (p : bytes) : Prop := p = [] \/ exists d, p = d ++ [slash].

Lemma base_name_join p c : dirlike p -> noslash c -> base_name (p ++ c) = c.
Proof.
  intros [->|(d & ->)] Hc; unfold base_name.
  - simpl. rewrite split_slash_noslash by assumption. reflexivity.
  - rewrite <- app_assoc. simpl. rewrite split_slash_app, (split_slash_noslash c Hc). apply last_app_single.
Qed.

(* a string whose elements are all valid is a directory-like prefix followed by a non-empty slash-free name *)
Lemma velems_decomp s : velems s = true -> exists p c, s = p ++ c /\ dirlike p /\ noslash c /\ c <> [].
Proof.
  intros V. destruct (last_slash_decomp s) as [H|(d & c & -> & Hc)].
  - exists [], s. split; [reflexivity|]. split; [left; reflexivity|]. split; [assumption|]. apply velems_nonempty, V.
  - rewrite velems_app in V. apply andb_prop in V. destruct V as [_ Vc].
    exists (d ++ [slash]), c. rewrite <- app_assoc. split; [reflexivity|]. split; [right; exists d; reflexivity|].
    split; [assumption|]. apply velems_nonempty, Vc.
Qed.

(* ---------------------------------------------------------------- path.Base *)

Lemma take_while_app_all p a b : forallb p a = true -> take_while p (a ++ b) = a ++ take_while p b.
Proof.
  induction a as [|x a IH]; simpl; intros H; [reflexivity|].
  apply andb_prop in H. destruct H as [Hx Ha]. rewrite Hx, IH by assumption. reflexivity.
Qed.

Lemma noslash_forallb c : noslash c -> forallb (fun b => negb (is_slash b)) (rev c) = true.
Proof.
  intros H. apply forallb_forall. intros x Hx. apply in_rev in Hx.
  apply negb_true_iff, is_slash_false. intros ->. contradiction.
Qed.

Lemma path_base_join p c : dirlike p -> noslash c -> c <> [] -> path_base (p ++ c) = c.
Proof.
  intros Hp Hc Hne. unfold path_base.
  destruct (p ++ c) eqn:E; [destruct p; [simpl in E; contradiction|discriminate]|]. rewrite <- E. clear E.
  rewrite rev_app_distr.
  (* the reversed string starts with the last byte of c, which is not a slash *)
  assert (Hd : drop_while is_slash (rev c ++ rev p) = rev c ++ rev p).
  { destruct (rev c) as [|x rc] eqn:Er.
    - exfalso. apply Hne. rewrite <- (rev_involutive c), Er. reflexivity.
    - simpl. assert (Hx : is_slash x = false).
      { apply is_slash_false. intros ->. apply Hc. apply in_rev. rewrite Er. simpl. tauto. }
      rewrite Hx. reflexivity. }
  rewrite Hd. rewrite take_while_app_all by (apply noslash_forallb; assumption).
  assert (Ht : take_while (fun b => negb (is_slash b)) (rev p) = []).
  { destruct Hp as [->|(d & ->)]; [reflexivity|]. rewrite rev_app_distr. reflexivity. }
  rewrite Ht, app_nil_r.
  destruct (rev c) eqn:Er.
  - exfalso. apply Hne. rewrite <- (rev_involutive c), Er. reflexivity.
  - rewrite <- Er. apply rev_involutive.
Qed.

(* Name() of a valid path, or of ".", is its final element *)
Lemma path_base_valid s : velems s = true -> path_base s = base_name s.
Proof.
  intros V. destruct (velems_decomp s V) as (p & c & -> & Hp & Hc & Hne).
  rewrite path_base_join, base_name_join by assumption. reflexivity.
Qed.

Lemma path_base_dot : path_base [dot] = base_name [dot].
Proof. reflexivity. Qed.

(* ---------------------------------------------------------------- UTF-8 *)

Lemma u8run_app st a b :
  u8run st (a ++ b) = match u8run st a with Some st1 => u8run st1 b | None => None end.
Proof.
  revert st. induction a as [|x a IH]; intros st; simpl; [reflexivity|].
  destruct (u8step st x); [apply IH|reflexivity].
Qed.

Lemma u8step_ascii st b st1 : b < 128 -> u8step st b = Some st1 -> st = U0 /\ st1 = U0.
Proof.
  intros Hb. destruct st; simpl; unfold in_range.
  - destruct (N.ltb_spec b 128); [|lia]. intros E. injection E as <-. tauto.
  - destruct (N.leb_spec 128 b); [lia|]. discriminate.
  - destruct (N.leb_spec 128 b); [lia|]. discriminate.
  - destruct (N.leb_spec 128 b); [lia|]. discriminate.
  - destruct (N.leb_spec 160 b); [lia|]. discriminate.
  - destruct (N.leb_spec 128 b); [lia|]. discriminate.
  - destruct (N.leb_spec 144 b); [lia|]. discriminate.
  - destruct (N.leb_spec 128 b); [lia|]. discriminate.
Qed.

(* cutting a valid string at an ASCII byte leaves a valid prefix *)
Lemma utf8_valid_prefix a c b : c < 128 -> utf8_valid (a ++ c :: b) = true -> utf8_valid a = true.
Proof.
  intros Hc. unfold utf8_valid. rewrite u8run_app.
  destruct (u8run U0 a) as [st|]; [|discriminate]. simpl.
  destruct (u8step st c) as [st1|] eqn:E; [|discriminate].
  destruct (u8step_ascii st c st1 Hc E) as [-> _]. reflexivity.
Qed.

Lemma valid_path_prefix a b : valid_path (a ++ slash :: b) = true -> valid_path a = true.
Proof.
  unfold valid_path. intros H. apply andb_prop in H. destruct H as [Hu Hv].
  apply utf8_valid_prefix in Hu; [|reflexivity]. rewrite Hu. simpl.
  apply orb_true_iff. right.
  apply orb_prop in Hv. destruct Hv as [Hv|Hv].
  - apply bytes_eqb_eq in Hv. destruct a as [|x [|y a]]; discriminate.
  - rewrite velems_app in Hv. apply andb_prop in Hv. tauto.
Qed.

Lemma valid_path_velems s : valid_path s = true -> s <> [dot] -> velems s = true.
Proof.
  unfold valid_path. intros H Hne. apply andb_prop in H. destruct H as [_ H].
  apply orb_prop in H. destruct H as [H|H]; [|assumption]. apply bytes_eqb_eq in H. contradiction.
Qed.

(* ---------------------------------------------------------------- order, sort.Strings *)

Definition le_name (a b : bytes) : Prop := bytes_ltb b a = false.

Lemma bytes_ltb_asym a b : bytes_ltb a b = true -> bytes_ltb b a = false.
Proof.
  revert b. induction a as [|x a IH]; intros [|y b]; simpl; try discriminate; try reflexivity.
  destruct (N.ltb_spec x y); destruct (N.ltb_spec y x); try lia; try discriminate; try reflexivity.
  apply IH.
Qed.

Lemma bytes_ltb_prefix p a b : bytes_ltb (p ++ a) (p ++ b) = bytes_ltb a b.
Proof.
  induction p as [|x p IH]; simpl; [reflexivity|].
  rewrite N.ltb_irrefl. assumption.
Qed.

Lemma insert_sorted_perm x l : Permutation (insert_sorted x l) (x :: l).
Proof.
  induction l as [|y r IH]; simpl; [reflexivity|].
  destruct (bytes_ltb y x); [|reflexivity].
  rewrite IH. apply perm_swap.
Qed.

Lemma sort_strings_perm l : Permutation (sort_strings l) l.
Proof.
  induction l as [|x l IH]; simpl; [reflexivity|].
  rewrite insert_sorted_perm. constructor. assumption.
Qed.

Lemma insert_sorted_sorted x l : Sorted le_name l -> Sorted le_name (insert_sorted x l).
Proof.
  induction l as [|y r IH]; simpl; intros H; [repeat constructor|].
  inversion H as [|? ? Hs Hh]; subst.
  destruct (bytes_ltb y x) eqn:E.
  - constructor; [apply IH; assumption|].
    destruct r as [|z r]; simpl.
    + constructor. unfold le_name. apply bytes_ltb_asym. assumption.
    + destruct (bytes_ltb z x).
      * constructor. inversion Hh; subst. assumption.
      * constructor. unfold le_name. apply bytes_ltb_asym. assumption.
  - constructor; [assumption|]. constructor. exact E.
Qed.

Lemma sort_strings_sorted l : Sorted le_name (sort_strings l).
Proof.
  induction l as [|x l IH]; simpl; [constructor|]. apply insert_sorted_sorted. assumption.
Qed.

Lemma Sorted_map {A B} (R : A -> A -> Prop) (R' : B -> B -> Prop) (f : A -> B) l :
  (forall a b, In a l -> In b l -> R a b -> R' (f a) (f b)) -> Sorted R l -> Sorted R' (map f l).
Proof.
  induction l as [|x l IH]; intros Hf H; simpl; [constructor|].
  inversion H as [|? ? Hs Hh]; subst. constructor.
  - apply IH; [|assumption]. intros a b Ha Hb. apply Hf; simpl; tauto.
  - destruct l as [|y l]; simpl; constructor. inversion Hh; subst. apply Hf; simpl; tauto.
Qed.
