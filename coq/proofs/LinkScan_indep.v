(* The control flow of the scanner does not depend on the decision function:
   the ranges passed to the decision are the same for every decision, and the
   collected list is the list of those candidates on which the decision says
   Some, with its text.  Proved by running the model with the logging decision
   (every candidate kept, text = its raw bytes) beside the given one. *)
From Verif Require Import Bytes IndexM Facts_linkscan LinkDestM LinkDestSpec LinkDest_proofs
  LinkScanM LinkScan_base LinkScan_parse LinkScan_inline LinkScan_loops LinkScan_lines LinkScan_proofs.
From Coq Require Import Lia ZArith List.
Local Open Scope Z_scope.

(* the logging decision: every candidate is kept with its raw bytes as text *)
Definition log_decide (raw : bytes) : option bytes := Some raw.

(* what a decision makes of the logged candidates *)
Definition dec1 (d : bytes -> option bytes) (c : repl) : list repl :=
  match d (r_text c) with Some t => [mkRepl (r_start c) (r_stop c) t] | None => [] end.
Definition decs (d : bytes -> option bytes) (cs : list repl) : list repl := flat_map (dec1 d) cs.

Lemma decs_app d a b : decs d (a ++ b) = decs d a ++ decs d b.
Proof. unfold decs. apply flat_map_app. Qed.

Lemma decs_one d s e raw :
  decs d [mkRepl s e raw] = match d raw with Some t => [mkRepl s e t] | None => [] end.
Proof. unfold decs, dec1. cbn [flat_map r_text r_start r_stop]. destruct (d raw); reflexivity. Qed.

Section Indep.
  Variable d : bytes -> option bytes.

  (* related results: same outcome, same state up to the lists, and the list of
     the given decision is the image of the logged one *)
  Definition rel_i (a b : istate) : Prop :=
    i_pos a = i_pos b /\ i_stack a = i_stack b /\ i_code a = i_code b /\ i_html a = i_html b
    /\ i_acc a = decs d (i_acc b).

  Definition rel_res {A B} (R : A -> B -> Prop) (x : lres A) (y : lres B) : Prop :=
    match x, y with
    | LOk a, LOk b => R a b
    | LFault, LFault => True
    | LFuel, LFuel => True
    | _, _ => False
    end.

  Lemma appendReplacement_rel acc src s e :
    rel_res (fun a b => a = decs d b)
      (appendReplacement d (decs d acc) src s e) (appendReplacement log_decide acc src s e).
  Proof.
    unfold appendReplacement. destruct ((s <? 0) || (e <=? s) || (zlen src <? e)); [reflexivity|].
    destruct (zsl src s e) as [raw| |]; cbn [lbind rel_res]; try exact I.
    unfold log_decide. cbn beta iota. pose proof (decs_one d s e raw) as H1.
    destruct (d raw) eqn:Ed; cbn [rel_res]; rewrite decs_app, H1; rewrite ?app_nil_r; reflexivity.
  Qed.

  Definition rel_step (x : istep * iclass) (y : istep * iclass) : Prop :=
    snd x = snd y
    /\ match fst x, fst y with
       | IGo a, IGo b => rel_i a b
       | IRet a, IRet b => rel_i a b
       | _, _ => False
       end.

  Ltac fin :=
    first [ exact I
          | split; [reflexivity|]; cbn [fst snd]; unfold rel_i; cbn [i_pos i_stack i_code i_html i_acc set_pos set_html];
            repeat split; reflexivity ].

  Ltac brk :=
    repeat first
      [ progress cbn [lbind rel_res fst snd i_pos i_stack i_code i_html i_acc set_pos set_html]
      | match goal with
        | |- context[appendReplacement d (decs d ?a) ?s ?x ?y] =>
          let Happ := fresh "Happ" in
          pose proof (appendReplacement_rel a s x y) as Happ;
          destruct (appendReplacement d (decs d a) s x y), (appendReplacement log_decide a s x y);
          cbn [rel_res] in Happ; try contradiction
        end
      | match goal with |- context[match ?x with _ => _ end] => destruct x eqn:? end
      | match goal with |- context[lbind ?m _] => lazymatch m with lbind _ _ => fail | _ => destruct m eqn:? end end ].

  Lemma inline_step_rel line src ls pos stack code html acc :
    rel_res rel_step
      (inline_step d line src ls (mkI pos stack code html (decs d acc)))
      (inline_step log_decide line src ls (mkI pos stack code html acc)).
  Proof.
    unfold inline_step. cbn [i_pos i_stack i_code i_html i_acc set_pos set_html].
    brk; try fin.
    all: split; [reflexivity|]; cbn [fst snd]; unfold rel_i; cbn [i_pos i_stack i_code i_html i_acc];
      repeat split; try reflexivity; assumption.
  Qed.

  Lemma inline_loop_rel line src ls : forall fuel a b, rel_i a b ->
    rel_res rel_i (inline_loop d fuel line src ls a) (inline_loop log_decide fuel line src ls b).
  Proof.
    induction fuel as [|fuel IH]; intros a b H; [exact I|]. cbn [inline_loop].
    destruct a as [p1 s1 c1 h1 a1], b as [p2 s2 c2 h2 a2]. unfold rel_i in H. cbn [i_pos i_stack i_code i_html i_acc] in H.
    destruct H as (-> & -> & -> & -> & ->). cbn [i_pos].
    destruct (p2 <? zlen line); [|cbn [rel_res]; unfold rel_i; cbn [i_pos i_stack i_code i_html i_acc]; repeat split; reflexivity].
    pose proof (inline_step_rel line src ls p2 s2 c2 h2 a2) as Hs.
    destruct (inline_step d line src ls _) as [[r1 k1]| |], (inline_step log_decide line src ls _) as [[r2 k2]| |];
      cbn [rel_res lbind] in *; try exact I; try contradiction.
    destruct Hs as [_ Hs]. cbn [fst] in *. destruct r1, r2; try contradiction; [apply IH; exact Hs|exact Hs].
  Qed.

  Lemma scanInlineLinks_rel line ls src acc html :
    rel_res (fun x y => fst x = decs d (fst y) /\ snd x = snd y)
      (scanInlineLinks d line ls src (decs d acc) html) (scanInlineLinks log_decide line ls src acc html).
  Proof.
    unfold scanInlineLinks.
    pose proof (inline_loop_rel line src ls (S (length line)) (mkI 0 [] 0 html (decs d acc)) (mkI 0 [] 0 html acc)) as H.
    destruct (inline_loop d _ _ _ _ _), (inline_loop log_decide _ _ _ _ _); cbn [rel_res lbind] in *;
      try exact I; try contradiction; try (exfalso; apply H; unfold rel_i; cbn; repeat split; reflexivity).
    destruct H as (_ & _ & _ & Hh & Ha); [unfold rel_i; cbn [i_pos i_stack i_code i_html i_acc]; repeat split; reflexivity|].
    cbn [fst snd]. split; assumption.
  Qed.

  Definition rel_l (a b : lstate) : Prop :=
    l_inFence a = l_inFence b /\ l_fenceChar a = l_fenceChar b /\ l_fenceLen a = l_fenceLen b /\ l_html a = l_html b
    /\ l_acc a = decs d (l_acc b).

  Ltac finl :=
    first [ exact I
          | split; [|reflexivity]; cbn [fst snd]; unfold rel_l; cbn [l_inFence l_fenceChar l_fenceLen l_html l_acc];
            repeat split; first [reflexivity|assumption] ].

  Ltac brkl :=
    repeat first
      [ progress cbn [lbind rel_res fst snd l_inFence l_fenceChar l_fenceLen l_html l_acc]
      | match goal with
        | |- context[appendReplacement d (decs d ?a) ?s ?x ?y] =>
          let Happ := fresh "Happ" in
          pose proof (appendReplacement_rel a s x y) as Happ;
          destruct (appendReplacement d (decs d a) s x y), (appendReplacement log_decide a s x y);
          cbn [rel_res] in Happ; try contradiction
        | |- context[scanInlineLinks d ?l ?s ?x (decs d ?a) ?h] =>
          let Hsc := fresh "Hsc" in
          pose proof (scanInlineLinks_rel l s x a h) as Hsc;
          destruct (scanInlineLinks d l s x (decs d a) h) as [[? ?]| |], (scanInlineLinks log_decide l s x a h) as [[? ?]| |];
          cbn [rel_res fst snd] in Hsc; try contradiction; try (destruct Hsc as [Hsc1 Hsc2]); subst
        end
      | match goal with |- context[match ?x with _ => _ end] => destruct x eqn:? end
      | match goal with |- context[lbind ?m _] => lazymatch m with lbind _ _ => fail | _ => destruct m eqn:? end end ].

  Lemma line_step_rel src line ls inf fc fl html acc :
    rel_res (fun x y => rel_l (fst x) (fst y) /\ snd x = snd y)
      (line_step d src line ls (mkL inf fc fl html (decs d acc)))
      (line_step log_decide src line ls (mkL inf fc fl html acc)).
  Proof.
    unfold line_step. cbn [l_inFence l_fenceChar l_fenceLen l_html l_acc].
    brkl; try finl.
  Qed.

  Lemma line_loop_rel src : forall fuel ls a b, rel_l a b ->
    rel_res rel_l (line_loop d fuel src ls a) (line_loop log_decide fuel src ls b).
  Proof.
    induction fuel as [|fuel IH]; intros ls a b H; [exact I|]. cbn [line_loop].
    destruct (ls <=? zlen src); [|exact H].
    destruct (line_end src ls) as [le| |]; cbn [lbind rel_res]; try exact I.
    destruct (zsl src ls le) as [line| |]; cbn [lbind rel_res]; try exact I.
    destruct a as [i1 c1 f1 h1 a1], b as [i2 c2 f2 h2 a2]. unfold rel_l in H. cbn [l_inFence l_fenceChar l_fenceLen l_html l_acc] in H.
    destruct H as (-> & -> & -> & -> & ->).
    pose proof (line_step_rel src line ls i2 c2 f2 h2 a2) as Hs.
    destruct (line_step d src line ls _) as [[s1 k1]| |], (line_step log_decide src line ls _) as [[s2 k2]| |];
      cbn [rel_res lbind fst] in *; try exact I; try contradiction.
    apply IH. exact (proj1 Hs).
  Qed.

  (* the collected list is the image of the logged candidates *)
  Theorem collect_rel src :
    rel_res (fun a b => a = decs d b) (collectReplacements d src) (collectReplacements log_decide src).
  Proof.
    unfold collectReplacements.
    pose proof (line_loop_rel src (S (S (length src))) 0 l_init l_init) as H.
    destruct (line_loop d _ _ _ _), (line_loop log_decide _ _ _ _); cbn [rel_res lbind] in *;
      try exact I; try contradiction; try (exfalso; apply H; unfold rel_l; cbn; repeat split; reflexivity).
    apply H. unfold rel_l. cbn. repeat split; reflexivity.
  Qed.
End Indep.

(* the candidates: the ranges on which the guard of appendReplacement passes,
   each with its raw bytes; they do not depend on the decision *)
Theorem scan_independent_of_decision d src :
  exists cs, collectReplacements log_decide src = LOk cs
    /\ Forall (fun c => r_text c = sub src (r_start c) (r_stop c)) cs
    /\ collectReplacements d src = LOk (decs d cs).
Proof.
  destruct (ranges_are_destinations_by_syntax log_decide src) as (cs & E & Ho).
  exists cs. split; [exact E|]. split.
  - eapply Forall_impl; [|exact Ho]. intros c (ls & le & _ & _ & _ & Hor).
    destruct Hor as [(s & e & _ & _ & _ & Hrs & Hre & _ & Hd)|(i & s & e & _ & _ & _ & _ & _ & _ & _ & Hrs & Hre & _ & Hd)];
      rewrite Hrs, Hre; unfold log_decide in Hd; injection Hd as Hd; symmetry; exact Hd.
  - pose proof (collect_rel d src) as H. rewrite E in H.
    destruct (collectReplacements d src); cbn [rel_res] in H; try contradiction. rewrite H. reflexivity.
Qed.

(* a document is a fixed point of the pipeline when the decision leaves alone
   every candidate the scanner finds in it *)
Theorem pipeline_fixpoint_candidates d out :
  exists cs, collectReplacements log_decide out = LOk cs
    /\ ((forall c, In c cs -> d (sub out (r_start c) (r_stop c)) = None) -> replace d out = LOk out).
Proof.
  destruct (scan_independent_of_decision d out) as (cs & E & Hraw & Ed).
  exists cs. split; [exact E|]. intros Hnone.
  assert (Hn : decs d cs = []); [|unfold replace; rewrite Ed, Hn; reflexivity].
  rewrite Forall_forall in Hraw. clear - Hnone Hraw. unfold decs.
  induction cs as [|c cs IH]; [reflexivity|]. cbn [flat_map]. unfold dec1 at 1.
  rewrite (Hraw c (or_introl eq_refl)), (Hnone c (or_introl eq_refl)). cbn [app].
  apply IH; intros; [apply Hraw|apply Hnone]; right; assumption.
Qed.

Theorem scan_independence_full d src :
  exists cs, collectReplacements log_decide src = LOk cs
    /\ Forall (fun c => r_text c = sub src (r_start c) (r_stop c)) cs
    /\ collectReplacements d src = LOk (decs d cs)
    /\ ((forall c, In c cs -> d (sub src (r_start c) (r_stop c)) = None) -> replace d src = LOk src).
Proof.
  destruct (scan_independent_of_decision d src) as (cs & E & Hraw & Ed).
  destruct (pipeline_fixpoint_candidates d src) as (cs' & E' & Hfix).
  rewrite E in E'. injection E' as <-.
  exists cs. split; [exact E|]. split; [exact Hraw|]. split; [exact Ed|exact Hfix].
Qed.
