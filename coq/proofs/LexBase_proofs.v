(* Lemmas about the primitives of the lexer model: checked indexing, the
   Hoare-style predicate `safe`, the loop rule with an explicit measure, the
   invariant INV (the source is consumed from the left, every token was
   emitted at a base that never decreases). *)
From Verif Require Import Bytes Utf8 Facts_lexer LexBase.
Open Scope N_scope.

(* ---- lists ---- *)
Lemma get_lt s i : i < nlen s -> exists c, get s i = Some c.
Proof.
  intros H. unfold get. destruct (nth_error s (N.to_nat i)) eqn:E; [eauto|].
  apply nth_error_None in E. rewrite nlen_eq in H. lia.
Qed.
Lemma get_some s i c : get s i = Some c -> i < nlen s.
Proof.
  unfold get. intros H. assert (nth_error s (N.to_nat i) <> None) by congruence.
  apply nth_error_Some in H0. rewrite nlen_eq. lia.
Qed.
Lemma nlen_drop n s : nlen (drop n s) = nlen s - n.
Proof. unfold drop. rewrite !nlen_eq, skipn_length. lia. Qed.
Lemma nlen_take n s : n <= nlen s -> nlen (take n s) = n.
Proof. unfold take. rewrite !nlen_eq, firstn_length. lia. Qed.
Lemma nth_error_skipn' {A} (n i : nat) (s : list A) : nth_error (skipn n s) i = nth_error s (n + i).
Proof.
  revert s; induction n as [|n IH]; intros s; [reflexivity|].
  destruct s; simpl; [destruct i; reflexivity|]. apply IH.
Qed.
Lemma get_drop n s i : get (drop n s) i = get s (n + i).
Proof.
  unfold get, drop. rewrite nth_error_skipn'. f_equal. lia.
Qed.
Lemma take_drop n s : take n s ++ drop n s = s.
Proof. apply firstn_skipn. Qed.
Lemma drop_drop a b s : drop a (drop b s) = drop (b + a) s.
Proof.
  unfold drop. replace (N.to_nat (b + a)) with (N.to_nat b + N.to_nat a)%nat by lia.
  generalize (N.to_nat a) (N.to_nat b). intros x y. revert s. induction y as [|y IH]; intros s; [reflexivity|].
  destruct s; simpl; [destruct x; reflexivity|]. apply IH.
Qed.
Lemma drop_0 s : drop 0 s = s.
Proof. reflexivity. Qed.

(* ---- safe ---- *)
Definition safe {A} (r : res A) (Q : A -> Prop) (E : lexer -> Prop) : Prop :=
  match r with Ok a => Q a | Err l => E l | Fault => False | NoFuel => False end.

Lemma safe_bind {A B} (r : res A) (k : A -> res B) Q' Q E :
  safe r Q' E -> (forall a, Q' a -> safe (k a) Q E) -> safe (bind r k) Q E.
Proof. destruct r; simpl; auto. Qed.

Lemma safe_mono {A} (r : res A) (Q Q' : A -> Prop) (E E' : lexer -> Prop) :
  safe r Q E -> (forall a, Q a -> Q' a) -> (forall l, E l -> E' l) -> safe r Q' E'.
Proof. destruct r; simpl; auto. Qed.

Lemma safe_ok {A} (a : A) (Q : A -> Prop) E : Q a -> safe (Ok a) Q E.
Proof. auto. Qed.

(* a result that is known not to fault, as an equation *)
Lemma safe_inv {A} (r : res A) Q E :
  safe r Q E -> (exists a, r = Ok a /\ Q a) \/ (exists l, r = Err l /\ E l).
Proof. destruct r; simpl; intros; eauto; contradiction. Qed.

(* the loop rule: an invariant and a measure that decreases at each iteration *)
Lemma safe_loop {S} (body : S -> res (step S)) (I : S -> Prop) (m : S -> nat) (Q : S -> Prop) E :
  (forall s, I s -> safe (body s) (fun r => match r with Again s' => I s' /\ (m s' < m s)%nat | Stop s' => Q s' end) E) ->
  forall fuel s, I s -> (m s < fuel)%nat -> safe (loop fuel body s) Q E.
Proof.
  intros Hb fuel. induction fuel as [|f IH]; intros s Hi Hm; [lia|].
  simpl. specialize (Hb s Hi). destruct (body s) as [[s'|s']| | |]; simpl in *; auto.
  destruct Hb as [Hi' Hm']. apply IH; [assumption|lia].
Qed.

(* ---- the invariant ---- *)
Definition wf (text : bytes) (l : lexer) : Prop :=
  exists pre, text = pre ++ l_src l /\ l_base l = nlen pre.

(* token t was emitted when the base was b *)
Definition tok_at (b : N) (t : token) : Prop :=
  if t_len t =? 0 then
    t_end t = t_start t /\ (t_start t = b \/ (t_typ t = gen_tokenSemicolon /\ t_start t = b - 1))
  else t_start t = b /\ t_end t + 1 = b + t_len t.

(* outs_ok b toks: toks (last emitted first) were emitted at non decreasing
   bases, each token ending at or before the base of the next, all before b *)
Inductive outs_ok : N -> list token -> Prop :=
| oo_nil b : outs_ok b []
| oo_cons b b0 t r : outs_ok b0 r -> tok_at b0 t -> b0 + t_len t <= b -> outs_ok b (t :: r).

Lemma outs_ok_mono b b' r : outs_ok b r -> b <= b' -> outs_ok b' r.
Proof. intros H Hb. inversion H; subst; econstructor; eauto; lia. Qed.

(* the tiling of the source by the top level tokens (C15 text_partition): the
   state after the tokens sent so far; outside a block the next expected offset
   is the base *)
Definition tfoldr (r : list token) : option (N * bool) := fold_right (fun t st => tstep st t) (Some (0, false)) r.
Definition tile_ok (b : N) (r : list token) : Prop :=
  exists q inb, tfoldr r = Some (q, inb) /\ (inb = false -> q = b).
Definition in_block (l : lexer) : Prop := exists q, tfoldr (l_out l) = Some (q, true).
Definition out_block (l : lexer) : Prop := exists q, tfoldr (l_out l) = Some (q, false).

Lemma tile_emit b r tok :
  tile_ok b r ->
  (t_len tok <> 0 -> t_start tok = b /\ t_end tok + 1 = b + t_len tok) ->
  tile_ok (b + t_len tok) (tok :: r).
Proof.
  intros (q & inb & Hf & Hq) Ht. unfold tile_ok, tfoldr in *. simpl. rewrite Hf. unfold tstep.
  destruct (N.eqb_spec (t_len tok) 0) as [Hz|Hz].
  - exists q, inb. split; [reflexivity|]. intros H. rewrite Hz. rewrite (Hq H). lia.
  - destruct (Ht Hz) as [Hs He]. destruct inb.
    + destruct (is_close (t_typ tok)); [exists (t_end tok + 1), false; split; [reflexivity|intros _; lia]|].
      exists q, true. split; [reflexivity|discriminate].
    + rewrite (Hq eq_refl). rewrite Hs, N.eqb_refl.
      destruct (is_open (t_typ tok)); [exists b, true; split; [reflexivity|discriminate]|].
      exists (t_end tok + 1), false. split; [reflexivity|intros _; lia].
Qed.

Definition INV (text : bytes) (l : lexer) : Prop :=
  wf text l /\ (outs_ok (l_base l) (l_out l) /\ tile_ok (l_base l) (l_out l)).

Lemma wf_len text l : wf text l -> l_base l + len l = nlen text.
Proof. intros [pre [-> ->]]. unfold len. rewrite nlen_app. reflexivity. Qed.
Lemma INV_len text l : INV text l -> l_base l + len l = nlen text.
Proof. intros [H _]. apply wf_len, H. Qed.

Lemma wf_drop text l n : wf text l -> n <= len l -> wf text (set_src (drop n (l_src l)) (l_base l + n) l).
Proof.
  intros [pre [-> Hb]] Hn. exists (pre ++ take n (l_src l)). simpl. split.
  - rewrite <- app_assoc, take_drop. reflexivity.
  - rewrite nlen_app, nlen_take, Hb; [reflexivity|exact Hn].
Qed.

(* state changes that touch neither the source nor the tokens *)
Definition same_core (l l' : lexer) : Prop :=
  l_src l' = l_src l /\ (l_base l' = l_base l /\ l_tidx l' = l_tidx l) /\ l_out l' = l_out l.
Lemma same_core_INV text l l' : same_core l l' -> INV text l -> INV text l'.
Proof.
  intros (Hs & [Hb _] & Ho) [[pre [Ht Hp]] Hout]. split.
  - exists pre. rewrite Hs, Hb. auto.
  - rewrite Hb, Ho. exact Hout.
Qed.
Lemma same_core_len l l' : same_core l l' -> len l' = len l.
Proof. intros (Hs & _). unfold len. rewrite Hs. reflexivity. Qed.
Lemma same_core_refl l : same_core l l.
Proof. repeat split. Qed.
Lemma same_core_trans a b c : same_core a b -> same_core b c -> same_core a c.
Proof. intros (A1 & [A2 A4] & A3) (B1 & [B2 B4] & B3). repeat split; congruence. Qed.

(* ext text l l': l' is a later state of the scan of text *)
Definition ext (text : bytes) (l l' : lexer) : Prop :=
  INV text l' /\ (l_base l <= l_base l' /\ l_tidx l' <= l_tidx l).
Lemma ext_refl text l : INV text l -> ext text l l.
Proof. intros H. split; [exact H|lia]. Qed.
Lemma ext_trans text a b c : ext text a b -> ext text b c -> ext text a c.
Proof. intros [_ H1] [H2 H3]. split; [exact H2|lia]. Qed.
Lemma ext_same text l l' l'' : ext text l l' -> same_core l' l'' -> ext text l l''.
Proof.
  intros [H1 H2] Hs. split; [eapply same_core_INV; eauto|].
  destruct Hs as (_ & Hb & _). lia.
Qed.

(* ---- primitives ---- *)
Lemma idx_safe l i {B} (k : N -> res B) Q E :
  i < len l -> (forall c, get (l_src l) i = Some c -> safe (k c) Q E) -> safe (bind (idx l i) k) Q E.
Proof.
  intros Hi Hk. unfold idx. destruct (get_lt _ _ Hi) as [c Hc]. rewrite Hc. simpl. apply Hk, Hc.
Qed.
Lemma idx_ok l i : i < len l -> exists c, idx l i = Ok c /\ get (l_src l) i = Some c.
Proof. intros Hi. unfold idx. destruct (get_lt _ _ Hi) as [c Hc]. rewrite Hc. eauto. Qed.
Lemma sget_ok s i : i < nlen s -> exists c, sget s i = Ok c /\ get s i = Some c.
Proof. intros Hi. unfold sget. destruct (get_lt _ _ Hi) as [c Hc]. rewrite Hc. eauto. Qed.

(* bytes may be skipped without a token only inside a block of code *)
Lemma advance_spec text n l :
  INV text l -> in_block l -> n <= len l ->
  exists l', advance n l = Ok l' /\ INV text l' /\ (l_base l' = l_base l + n /\ l_tidx l' = l_tidx l)
             /\ l_src l' = drop n (l_src l)
             /\ len l' = len l - n /\ l' = set_src (drop n (l_src l)) (l_base l + n) l.
Proof.
  intros [Hw [Ho Hti]] [qb Hib] Hn. unfold advance. destruct (N.ltb_spec (len l) n); [lia|].
  eexists. split; [reflexivity|]. split; [|split; [split; reflexivity|split; [reflexivity|split; [unfold len; simpl; apply nlen_drop|reflexivity]]]].
  split; [apply wf_drop; assumption|]. simpl. split; [eapply outs_ok_mono; [exact Ho|lia]|].
  exists qb, true. split; [exact Hib|discriminate].
Qed.

Lemma emit_at_spec text line col cd ld typ n l :
  INV text l -> n <= len l ->
  exists l', emit_at line col cd ld typ n l = Ok l' /\ INV text l' /\ (l_base l' = l_base l + n /\ l_tidx l' = l_tidx l - n)
             /\ l_src l' = drop n (l_src l) /\ len l' = len l - n
             /\ l_line l' = l_line l /\ l_col l' = l_col l /\ l_cdev l' = l_cdev l /\ l_ldev l' = l_ldev l
             /\ l_ctx l' = l_ctx l /\ l_ctxs l' = l_ctxs l.
Proof.
  intros [Hw [Ho Hti]] Hn. unfold emit_at. destruct (N.ltb_spec (len l) n); [lia|].
  set (ctx := if typ =? gen_tokenText then gen_ContextText else l_ctx l).
  destruct (N.eqb_spec n 0) as [->|Hn0].
  - (* empty token *)
    assert (Hlt : (0 <? 0) = false) by reflexivity. rewrite Hlt.
    destruct (N.eqb_spec typ gen_tokenSemicolon) as [->|Hts].
    + set (tok := mkTok gen_tokenSemicolon (l_base l - 1) (l_base l - 1) 0 line col (l_line l) ctx (l_tag l) (l_att l) cd ld).
      assert (Htile : tile_ok (l_base l) (tok :: l_out l)).
      { pose proof (tile_emit (l_base l) (l_out l) tok Hti) as H1. cbn in H1. rewrite N.add_0_r in H1. apply H1. intros C; contradiction. }
      eexists. split; [reflexivity|]. change (gen_tokenSemicolon =? gen_tokenRaw) with false.
      change (gen_tokenSemicolon =? gen_tokenIdentifier) with false.
      change (gen_tokenSemicolon =? gen_tokenEnd) with false.
      destruct (l_tsyn _); cbn [l_src l_base l_out set_out set_tot l_line l_col l_cdev l_ldev l_ctx l_ctxs];
      rewrite N.add_0_r, !N.sub_0_r; repeat split; auto;
      (econstructor; [exact Ho| |cbn; lia]); unfold tok_at; cbn; (split; [reflexivity|]); right; split; reflexivity.
    + set (tok := mkTok typ (l_base l) (l_base l) 0 line col (l_line l) ctx (l_tag l) (l_att l) cd ld).
      assert (Htok : outs_ok (l_base l) (tok :: l_out l)).
      { econstructor; [exact Ho| |cbn; lia]. unfold tok_at. cbn. split; [reflexivity|]. left. reflexivity. }
      assert (Htile : tile_ok (l_base l) (tok :: l_out l)).
      { pose proof (tile_emit (l_base l) (l_out l) tok Hti) as H1. cbn in H1. rewrite N.add_0_r in H1. apply H1. intros C; contradiction. }
      destruct (l_tsyn _); [destruct (typ =? gen_tokenRaw); [destruct (_ =? gen_tokenStartStatement)|
        destruct (typ =? gen_tokenIdentifier); [cbn [l_raw set_out set_tot]; destruct (l_raw l); [destruct (_ =? gen_tokenRaw)|]|
        destruct (typ =? gen_tokenEnd)]]|];
      (eexists; split; [reflexivity|]; cbn; rewrite N.add_0_r, !N.sub_0_r; repeat split; auto).
  - assert (Hlt : (0 <? n) = true) by (apply N.ltb_lt; lia). rewrite Hlt.
    set (tok := mkTok typ (l_base l) (l_base l + n - 1) n line col (l_line l) ctx (l_tag l) (l_att l) cd ld).
    assert (Htok : outs_ok (l_base l + n) (tok :: l_out l)).
    { econstructor; [exact Ho| |cbn; lia]. unfold tok_at. cbn. destruct (N.eqb_spec n 0); [lia|]. split; [reflexivity|lia]. }
    assert (Htile : tile_ok (l_base l + n) (tok :: l_out l)).
    { pose proof (tile_emit (l_base l) (l_out l) tok Hti) as H1. cbn in H1. apply H1. intros _. split; [reflexivity|lia]. }
    assert (Hw' : wf text (set_src (drop n (l_src l)) (l_base l + n) l)) by (apply wf_drop; assumption).
    destruct Hw' as [pre' [Hp1 Hp2]]. cbn in Hp1, Hp2.
    destruct (l_tsyn _); [destruct (typ =? gen_tokenRaw); [destruct (_ =? gen_tokenStartStatement)|
      destruct (typ =? gen_tokenIdentifier); [cbn [l_raw set_out set_tot]; destruct (l_raw l); [destruct (_ =? gen_tokenRaw)|]|
      destruct (typ =? gen_tokenEnd)]]|];
    (eexists; split; [reflexivity|]; cbn; repeat split; auto; try (exists pre'; split; assumption); try apply nlen_drop).
Qed.

Lemma emit_spec text typ n l :
  INV text l -> n <= len l ->
  exists l', emit typ n l = Ok l' /\ INV text l' /\ (l_base l' = l_base l + n /\ l_tidx l' = l_tidx l - n)
             /\ l_src l' = drop n (l_src l) /\ len l' = len l - n
             /\ l_line l' = l_line l /\ l_col l' = l_col l /\ l_cdev l' = l_cdev l /\ l_ldev l' = l_ldev l
             /\ l_ctx l' = l_ctx l /\ l_ctxs l' = l_ctxs l.
Proof. apply emit_at_spec. Qed.

Lemma emitc_spec text typ n l :
  INV text l -> n <= len l ->
  exists l', emitc typ n l = Ok l' /\ INV text l' /\ (l_base l' = l_base l + n /\ l_tidx l' = l_tidx l - n)
             /\ l_src l' = drop n (l_src l) /\ len l' = len l - n.
Proof.
  intros Hi Hn. destruct (emit_spec text typ n l Hi Hn) as (l' & He & Hi' & Hb & Hs & Hl & _).
  unfold emitc. rewrite He. simpl. eexists. split; [reflexivity|].
  split; [eapply same_core_INV; [|exact Hi']; repeat split|].
  split; [exact Hb|]. split; [exact Hs|]. exact Hl.
Qed.

(* setters that keep the core *)
Lemma sc_line v l : same_core l (set_line v l). Proof. repeat split. Qed.
Lemma sc_col v l : same_core l (set_col v l). Proof. repeat split. Qed.
Lemma sc_ctx v l : same_core l (set_ctx v l). Proof. repeat split. Qed.
Lemma sc_ctxs v l : same_core l (set_ctxs v l). Proof. repeat split. Qed.
Lemma sc_tag v l : same_core l (set_tag v l). Proof. repeat split. Qed.
Lemma sc_att v l : same_core l (set_att v l). Proof. repeat split. Qed.
Lemma sc_tctx v l : same_core l (set_tctx v l). Proof. repeat split. Qed.
Lemma sc_raw v l : same_core l (set_raw v l). Proof. repeat split. Qed.
Lemma sc_cdev v l : same_core l (set_cdev v l). Proof. repeat split. Qed.
Lemma sc_ldev v l : same_core l (set_ldev v l). Proof. repeat split. Qed.
Lemma sc_newline l : same_core l (newline l). Proof. repeat split. Qed.
Lemma sc_addcol n l : same_core l (addcol n l). Proof. repeat split. Qed.
Lemma sc_mark_cdev l : same_core l (mark_cdev l). Proof. repeat split. Qed.
Lemma sc_mark_ldev l : same_core l (mark_ldev l). Proof. repeat split. Qed.
Global Hint Resolve sc_line sc_col sc_ctx sc_ctxs sc_tag sc_att sc_tctx sc_raw sc_cdev sc_ldev
  sc_newline sc_addcol sc_mark_cdev sc_mark_ldev same_core_refl : sc.

(* boolean guards to propositions *)
Ltac b2p :=
  repeat match goal with
  | H : (_ <? _) = true |- _ => apply N.ltb_lt in H
  | H : (_ <? _) = false |- _ => apply N.ltb_ge in H
  | H : (_ <=? _) = true |- _ => apply N.leb_le in H
  | H : (_ <=? _) = false |- _ => apply N.leb_gt in H
  | H : (_ =? _) = true |- _ => apply N.eqb_eq in H
  | H : (_ =? _) = false |- _ => apply N.eqb_neq in H
  | H : negb _ = true |- _ => apply negb_true_iff in H
  | H : negb _ = false |- _ => apply negb_false_iff in H
  | H : (_ && _) = true |- _ => apply andb_prop in H; destruct H
  | H : (_ || _) = false |- _ => apply orb_false_elim in H; destruct H
  end.

(* ---- stepping lemmas for the monadic constructs ---- *)
Lemma andm_safe {B} a (r : res bool) (k : bool -> res B) Q E :
  (a = true -> safe (bind r k) Q E) -> (a = false -> safe (k false) Q E) -> safe (bind (andm a r) k) Q E.
Proof. destruct a; simpl; auto. Qed.
Lemma orm_safe {B} a (r : res bool) (k : bool -> res B) Q E :
  (a = false -> safe (bind r k) Q E) -> (a = true -> safe (k true) Q E) -> safe (bind (orm a r) k) Q E.
Proof. destruct a; simpl; auto. Qed.
Lemma idx_is_safe l i c {B} (k : bool -> res B) Q E :
  i < len l -> (forall x, get (l_src l) i = Some x -> safe (k (x =? c)) Q E) -> safe (bind (idx_is l i c) k) Q E.
Proof.
  intros Hi Hk. unfold idx_is, idx. destruct (get_lt _ _ Hi) as [x Hx]. rewrite Hx. simpl. apply Hk, Hx.
Qed.
Lemma bind_assoc {A B C} (r : res A) (f : A -> res B) (g : B -> res C) :
  bind (bind r f) g = bind r (fun a => bind (f a) g).
Proof. destruct r; reflexivity. Qed.
Lemma bind_ok {A B} (a : A) (k : A -> res B) : bind (Ok a) k = k a.
Proof. reflexivity. Qed.

(* utf8.DecodeRune consumes between one byte and what is there *)
Lemma decode_rune_width s r w :
  s <> [] -> decode_rune s = (r, w) -> (1 <= w)%nat /\ (w <= length s)%nat.
Proof.
  intros Hs. unfold decode_rune. destruct s as [|b0 s1]; [congruence|].
  destruct (b0 <? 128); [intros H; inversion H; simpl; lia|].
  destruct (b0 <? 194); [intros H; inversion H; simpl; lia|].
  destruct (b0 <? 224).
  { destruct s1 as [|b1 s2]; [intros H; inversion H; simpl; lia|].
    destruct (is_cont b1); intros H; inversion H; simpl; lia. }
  destruct (b0 <? 240).
  { destruct s1 as [|b1 [|b2 s3]]; try (intros H; inversion H; simpl; lia).
    match goal with |- context [if ?c then _ else _] => destruct c end; intros H; inversion H; simpl; lia. }
  destruct (b0 <? 245).
  { destruct s1 as [|b1 [|b2 [|b3 s4]]]; try (intros H; inversion H; simpl; lia).
    match goal with |- context [if ?c then _ else _] => destruct c end; intros H; inversion H; simpl; lia. }
  intros H; inversion H; simpl; lia.
Qed.

Lemma drop_nonempty p s : p < nlen s -> drop p s <> [].
Proof.
  intros H E. assert (nlen (drop p s) = 0) by (rewrite E; reflexivity).
  rewrite nlen_drop in H0. lia.
Qed.

(* decode at position p < len: 1 <= w and p + w <= len *)
Lemma decode_at l p r w :
  p < len l -> decode_rune (drop p (l_src l)) = (r, w) -> 1 <= N.of_nat w /\ p + N.of_nat w <= len l.
Proof.
  intros Hp Hd. destruct (decode_rune_width _ _ _ (drop_nonempty _ _ Hp) Hd) as [H1 H2].
  assert (N.of_nat (length (drop p (l_src l))) = len l - p) by (rewrite <- nlen_eq; apply nlen_drop).
  unfold len in *. lia.
Qed.

Lemma len_fuel l n : (N.to_nat (len l - n) < S (length (l_src l)))%nat.
Proof. unfold len. rewrite nlen_eq. lia. Qed.

(* ---- the search functions return positions inside the string ---- *)
Lemma has_prefix_len s p : has_prefix s p = true -> nlen p <= nlen s.
Proof.
  revert s; induction p as [|c p IH]; intros s H; [rewrite nlen_nil; lia|].
  destruct s as [|d s]; [discriminate|]. simpl in H. apply andb_prop in H. destruct H as [_ H].
  rewrite !nlen_cons. apply IH in H. lia.
Qed.
Lemma index_from_bound s pat i k : index_from s pat i = Some k -> i <= k /\ k - i + nlen pat <= nlen s.
Proof.
  revert i; induction s as [|c s IH]; intros i; cbn [index_from].
  - destruct pat; simpl; [|discriminate]. intros H; injection H as <-. rewrite nlen_nil. lia.
  - destruct (has_prefix (c :: s) pat) eqn:E.
    + intros H; injection H as <-. apply has_prefix_len in E. lia.
    + intros H. apply IH in H. rewrite nlen_cons. lia.
Qed.
Lemma index_bound s pat k : index s pat = Some k -> k + nlen pat <= nlen s.
Proof. intros H. apply index_from_bound in H. lia. Qed.
Lemma index_byte_from_bound s c i k : index_byte_from s c i = Some k -> i <= k /\ k - i < nlen s.
Proof.
  revert i; induction s as [|d s IH]; intros i; simpl; [discriminate|].
  rewrite nlen_cons. destruct (d =? c); [intros H; injection H as <-; lia|].
  intros H. apply IH in H. lia.
Qed.
Lemma index_byte_bound s c k : index_byte s c = Some k -> k < nlen s.
Proof. intros H. apply index_byte_from_bound in H. lia. Qed.
Lemma index_byte_from_get s c i k : index_byte_from s c i = Some k -> get s (k - i) = Some c.
Proof.
  revert i; induction s as [|d s IH]; intros i; simpl; [discriminate|].
  destruct (N.eqb_spec d c) as [->|Hd].
  - intros H; injection H as <-. rewrite N.sub_diag. reflexivity.
  - intros H. pose proof (index_byte_from_bound _ _ _ _ H) as [Hb _]. apply IH in H.
    unfold get in *. replace (N.to_nat (k - i)) with (S (N.to_nat (k - (i + 1)))) by lia. exact H.
Qed.
Lemma index_byte_get s c k : index_byte s c = Some k -> get s k = Some c.
Proof. intros H. apply index_byte_from_get in H. rewrite N.sub_0_r in H. exact H. Qed.

Lemma index_nl_bom_from_bound fuel s i k :
  index_nl_bom_from fuel s i = Some k -> i <= k /\ k - i < nlen s.
Proof.
  revert s i; induction fuel as [|f IH]; intros s i; simpl; [discriminate|].
  destruct s as [|c s']; [discriminate|].
  destruct (c <? 128).
  - destruct (c =? 10); [intros H; injection H as <-; rewrite nlen_cons; lia|].
    intros H. apply IH in H. simpl in H. rewrite nlen_cons. lia.
  - destruct (decode_rune (c :: s')) as [r w] eqn:Hd.
    destruct (r =? gen_lex_BOM); [intros H; injection H as <-; rewrite nlen_cons; lia|].
    intros H. apply IH in H.
    destruct (decode_rune_width (c :: s') r w ltac:(discriminate) Hd) as [Hw1 Hw2].
    assert (nlen (skipn w (c :: s')) = nlen (c :: s') - N.of_nat w) by (rewrite !nlen_eq, skipn_length; lia).
    rewrite H0 in H. rewrite nlen_eq in *. simpl length in *. lia.
Qed.
Lemma index_nl_bom_bound s k : index_nl_bom s = Some k -> k < nlen s.
Proof. intros H. apply index_nl_bom_from_bound in H. lia. Qed.
