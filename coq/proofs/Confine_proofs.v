(* C06 layer (A): the output of each escaper, met by the reference scanner of
   its context in the state of the slot, is character data only and leaves the
   scanner in the same state. *)
From Verif Require Import Bytes Utf8 Facts_escapers Facts_esc EscapersM HtmlDecode Decoders RefScanners
  Trans_proofs Utf8_proofs Escapers_proofs Roundtrip_proofs.
Open Scope N_scope.

Lemma forallb_flat_map {A B} (P : B -> bool) (f : A -> list B) s :
  (forall c, forallb P (f c) = true) -> forallb P (flat_map f s) = true.
Proof.
  intros H. induction s as [|c r IH]; cbn [flat_map]; [reflexivity|].
  rewrite forallb_app, H, IH. reflexivity.
Qed.

Lemma forallb_weaken {A} (P Q : A -> bool) l :
  (forall x, P x = true -> Q x = true) -> forallb P l = true -> forallb Q l = true.
Proof.
  intros H. induction l as [|x r IH]; cbn [forallb]; [reflexivity|].
  intros Hl. apply andb_prop in Hl. destruct Hl as [H1 H2]. rewrite (H x H1), (IH H2). reflexivity.
Qed.

(* a predicate on bytes that holds of every byte of every block of a table,
   and of every number that is not a byte *)
Definition blocks_all (P : N -> bool) (t : tbl) : bool :=
  forallb (fun c => forallb P (esc_or_self t c)) all_bytes.

Lemma blocks_all_spec P t :
  tbl_keys_ok t = true -> blocks_all P t = true -> (forall c, 256 <= c -> P c = true) ->
  forall c, forallb P (esc_or_self t c) = true.
Proof.
  intros Hk Hb Ho c. destruct (N.lt_ge_cases c 256) as [Hc|Hc].
  - exact (forall_bytes _ Hb c Hc).
  - rewrite esc_or_self_oob by assumption. cbn [forallb]. rewrite Ho by assumption. reflexivity.
Qed.

(* ---------------- HTML text ---------------- *)
Definition text_blk_check (t : tbl) (c : N) : bool :=
  match esc_or_self t c with
  | [] => false
  | [x] => negb (x =? 38) && negb (x =? 60)
  | x :: p => (x =? 38) && existsb (bytes_eqb p) five_refs
  end.

Lemma fact_html_text_blocks : forallb (text_blk_check gen_htmlEscape_tbl) all_bytes = true.
Proof. vm_compute. reflexivity. Qed.

Lemma text_ref_block p X : In p five_refs -> html_text_ok ((38 :: p) ++ X) = html_text_ok X.
Proof.
  unfold five_refs. intros H.
  repeat (destruct H as [<-|H]; [unfold html_text_ok; cbn; reflexivity|]). destruct H.
Qed.

Lemma text_plain_block x X : x <> 38 -> x <> 60 -> html_text_ok ([x] ++ X) = html_text_ok X.
Proof.
  intros H1 H2. unfold html_text_ok. cbn [app forallb amps_ok].
  destruct (N.eqb_spec x 60); [contradiction|]. destruct (N.eqb_spec x 38); [contradiction|]. reflexivity.
Qed.

Lemma html_text_block c X :
  html_text_ok (esc_or_self gen_htmlEscape_tbl c ++ X) = html_text_ok X.
Proof.
  destruct (N.lt_ge_cases c 256) as [Hc|Hc].
  - pose proof (forall_bytes _ fact_html_text_blocks c Hc) as H. unfold text_blk_check in H.
    destruct (esc_or_self gen_htmlEscape_tbl c) as [|x [|y p]]; [discriminate| |].
    + apply andb_prop in H. destruct H as [H1 H2]. apply negb_true_iff, N.eqb_neq in H1, H2.
      apply text_plain_block; assumption.
    + apply andb_prop in H. destruct H as [Hx H]. apply N.eqb_eq in Hx. subst x.
      apply text_ref_block. apply existsb_exists in H. destruct H as (q & Hq & He).
      apply bytes_eqb_eq in He. subst q. exact Hq.
  - rewrite esc_or_self_oob by (assumption || exact fact_html_keys). apply text_plain_block; lia.
Qed.

Theorem html_text_confine s : html_text_ok (flat (htmlEscape s)) = true.
Proof.
  rewrite htmlEscape_flat. induction s as [|c r IH]; cbn [flat_map]; [reflexivity|].
  rewrite html_text_block. exact IH.
Qed.

(* ---------------- attribute values ---------------- *)
Lemma stays_dq s : forallb (fun x => negb (x =? 34)) s = true -> attr_dq_ok s = true.
Proof.
  unfold attr_dq_ok, stays. induction s as [|c r IH]; cbn [forallb arun astep]; [reflexivity|].
  intros H. apply andb_prop in H. destruct H as [H1 H2]. apply negb_true_iff in H1. rewrite H1. apply IH, H2.
Qed.
Lemma stays_sq s : forallb (fun x => negb (x =? 39)) s = true -> attr_sq_ok s = true.
Proof.
  unfold attr_sq_ok, stays. induction s as [|c r IH]; cbn [forallb arun astep]; [reflexivity|].
  intros H. apply andb_prop in H. destruct H as [H1 H2]. apply negb_true_iff in H1. rewrite H1. apply IH, H2.
Qed.

Definition unq_safe (c : N) : bool := negb (is_html_ws c) && negb (c =? 62) && negb (unq_error c).

Lemma astep_unq_safe c : unq_safe c = true -> astep AUnq c = Some AUnq /\ astep ABefore c = Some AUnq.
Proof.
  unfold unq_safe. intros H. apply andb_prop in H. destruct H as [H H3]. apply andb_prop in H. destruct H as [H1 H2].
  apply negb_true_iff in H1, H2, H3. cbn [astep]. rewrite H1, H2, H3.
  assert (H34 : (c =? 34) = false) by (unfold unq_error in H3; destruct (c =? 34); [discriminate|reflexivity]).
  assert (H39 : (c =? 39) = false) by (unfold unq_error in H3; destruct (c =? 39); [rewrite orb_true_r in H3; discriminate|reflexivity]).
  rewrite H34, H39. split; reflexivity.
Qed.

Lemma stays_unq s : forallb unq_safe s = true -> attr_unq_ok s = true.
Proof.
  unfold attr_unq_ok, stays. induction s as [|c r IH]; cbn [forallb arun]; [reflexivity|].
  intros H. apply andb_prop in H. destruct H as [H1 H2].
  destruct (astep_unq_safe c H1) as [-> _]. apply IH, H2.
Qed.

Lemma stays_unq_first s : s <> [] -> forallb unq_safe s = true -> attr_unq_first_ok s = true.
Proof.
  destruct s as [|c r]; [contradiction|]. intros _ H. cbn [forallb] in H. apply andb_prop in H. destruct H as [H1 H2].
  unfold attr_unq_first_ok, stays. cbn [arun]. destruct (astep_unq_safe c H1) as [_ ->].
  apply stays_unq in H2. exact H2.
Qed.

Definition no_quotes (c : N) : bool := negb (c =? 34) && negb (c =? 39).

Lemma fact_attr_keys e q : tbl_keys_ok (attr_tbl e q) = true.
Proof. destruct e, q; vm_compute; reflexivity. Qed.
Lemma fact_attr_quoted_blocks e : blocks_all no_quotes (attr_tbl e true) = true.
Proof. destruct e; vm_compute; reflexivity. Qed.
Lemma fact_attr_unquoted_blocks e : blocks_all unq_safe (attr_tbl e false) = true.
Proof. destruct e; vm_compute; reflexivity. Qed.
Lemma fact_attr_nonempty e q :
  forallb (fun c => match esc_or_self (attr_tbl e q) c with [] => false | _ => true end) all_bytes = true.
Proof. destruct e, q; vm_compute; reflexivity. Qed.

Lemma no_quotes_oob c : 256 <= c -> no_quotes c = true.
Proof. intros H. unfold no_quotes. destruct (N.eqb_spec c 34); [lia|]. destruct (N.eqb_spec c 39); [lia|]. reflexivity. Qed.
Lemma unq_safe_oob c : 256 <= c -> unq_safe c = true.
Proof.
  intros H. unfold unq_safe, is_html_ws, unq_error.
  repeat match goal with |- context [?a =? ?b] => destruct (N.eqb_spec a b); [lia|] end. reflexivity.
Qed.

(* quoted attribute value, either kind of quote, either value of escapeEntities *)
Theorem attr_quoted_confine e s :
  attr_dq_ok (flat (attributeEscape e true s)) = true /\ attr_sq_ok (flat (attributeEscape e true s)) = true.
Proof.
  rewrite attributeEscape_flat.
  assert (H : forallb no_quotes (flat_map (esc_or_self (attr_tbl e true)) s) = true).
  { apply forallb_flat_map. apply blocks_all_spec; [apply fact_attr_keys|apply fact_attr_quoted_blocks|exact no_quotes_oob]. }
  split; [apply stays_dq|apply stays_sq]; (eapply forallb_weaken; [|exact H]); intros x Hx; unfold no_quotes in Hx;
    apply andb_prop in Hx; destruct Hx as [Ha Hb]; assumption.
Qed.

(* unquoted attribute value: the slot inside the value, and the slot as the whole value (non-empty string) *)
Lemma attr_unquoted_safe e s : forallb unq_safe (flat (attributeEscape e false s)) = true.
Proof.
  rewrite attributeEscape_flat. apply forallb_flat_map.
  apply blocks_all_spec; [apply fact_attr_keys|apply fact_attr_unquoted_blocks|exact unq_safe_oob].
Qed.

Theorem attr_unquoted_confine e s : attr_unq_ok (flat (attributeEscape e false s)) = true.
Proof. apply stays_unq, attr_unquoted_safe. Qed.

Lemma attr_flat_nonempty e q s : s <> [] -> flat (attributeEscape e q s) <> [].
Proof.
  rewrite attributeEscape_flat. destruct s as [|c r]; [contradiction|]. intros _. cbn [flat_map].
  assert (Hc : esc_or_self (attr_tbl e q) c <> []).
  { destruct (N.lt_ge_cases c 256) as [Hc|Hc].
    - pose proof (forall_bytes _ (fact_attr_nonempty e q) c Hc) as H. cbv beta in H.
      destruct (esc_or_self (attr_tbl e q) c); [discriminate|]. discriminate.
    - rewrite esc_or_self_oob by (assumption || apply fact_attr_keys). discriminate. }
  intros H. apply app_eq_nil in H. destruct H as [H _]. contradiction.
Qed.

Theorem attr_unquoted_first_confine e s : s <> [] ->
  attr_unq_first_ok (flat (attributeEscape e false s)) = true.
Proof.
  intros Hs. apply stays_unq_first; [apply attr_flat_nonempty, Hs|apply attr_unquoted_safe].
Qed.

(* the empty string does not start an unquoted value: the tokenizer is still
   before the value, and the text after the slot becomes the value *)
Lemma attr_unquoted_empty_refuted :
  exists e s, attr_unq_first_ok (flat (attributeEscape e false s)) = false.
Proof. exists true, []. vm_compute. reflexivity. Qed.

(* ---------------- URL query value ---------------- *)
Definition query_blk_check (c : N) : bool :=
  match qrun QData (esc_or_self gen_queryEscape_tbl c) with Some QData => true | _ => false end.
Lemma fact_query_scan : forallb query_blk_check all_bytes = true. Proof. vm_compute. reflexivity. Qed.

Lemma qrun_app a b st : qrun st (a ++ b) = match qrun st a with Some st' => qrun st' b | None => None end.
Proof.
  revert st; induction a as [|c a IH]; intros st; cbn [app qrun]; [reflexivity|].
  destruct (qstep st c); [apply IH|reflexivity].
Qed.

Theorem query_confine s : is_bytes s = true -> query_ok (flat (queryEscape s)) = true.
Proof.
  rewrite queryEscape_flat. unfold query_ok. intros Hb.
  assert (H : qrun QData (flat_map (esc_or_self gen_queryEscape_tbl) s) = Some QData).
  { induction s as [|c r IH]; cbn [flat_map]; [reflexivity|].
    cbn [is_bytes forallb] in Hb. apply andb_prop in Hb. destruct Hb as [Hc Hr].
    apply N.ltb_lt in Hc. rewrite qrun_app.
    pose proof (forall_bytes _ fact_query_scan c Hc) as Hq. unfold query_blk_check in Hq.
    destruct (qrun QData (esc_or_self gen_queryEscape_tbl c)) as [[| |]|]; try discriminate.
    apply IH, Hr. }
  rewrite H. reflexivity.
Qed.

(* ---------------- pathEscape: output alphabet ---------------- *)
(* letters, digits, the reserved and unreserved characters that pathEscape
   keeps, percent, and the characters of its three entity escapes (all of
   which are among the former); a space only inside a quoted attribute *)
Definition path_keep : list N := [33; 35; 36; 37; 38; 42; 44; 45; 46; 47; 58; 59; 61; 63; 64; 91; 93; 95; 126].
Definition path_byte_ok (quoted : bool) (b : N) : bool :=
  is_alnum b || mem path_keep b || (quoted && (b =? 32)).

Definition path_blk_check (quoted : bool) (c : N) : bool :=
  forallb (path_byte_ok quoted)
    (if c =? 37 then 37 :: (if quoted then gen_pathEscape_quoted_pct_esc else gen_pathEscape_unquoted_pct_esc)
     else esc_or_self (if quoted then gen_pathEscape_quoted_tbl else gen_pathEscape_unquoted_tbl) c).
Lemma fact_path_blocks : forallb (fun c => path_blk_check true c && path_blk_check false c) all_bytes = true.
Proof. vm_compute. reflexivity. Qed.

Lemma path_esc1_ok q c r : c < 256 -> forallb (path_byte_ok q) (path_esc1 q c r) = true.
Proof.
  intros Hc. pose proof (forall_bytes _ fact_path_blocks c Hc) as H. cbv beta in H.
  apply andb_prop in H. destruct H as [Ht Hf].
  assert (Hq : path_blk_check q c = true) by (destruct q; assumption). clear Ht Hf.
  unfold path_blk_check in Hq. unfold path_esc1, path_esc.
  destruct (N.eqb_spec c 37) as [->|Hne].
  - cbn [forallb] in Hq. apply andb_prop in Hq. destruct Hq as [H37 Hesc].
    destruct r as [|d1 [|d2 r']]; try (destruct q; exact Hesc).
    destruct q.
    + destruct (mem gen_pathEscape_quoted_pct_keep1 d1 && mem gen_pathEscape_quoted_pct_keep2 d2); [|exact Hesc].
      cbn [forallb]. rewrite H37. reflexivity.
    + destruct (mem gen_pathEscape_unquoted_pct_keep1 d1 && mem gen_pathEscape_unquoted_pct_keep2 d2); [|exact Hesc].
      cbn [forallb]. rewrite H37. reflexivity.
  - unfold esc_or_self in Hq. destruct q; exact Hq.
Qed.

Theorem path_alphabet q s : is_bytes s = true -> forallb (path_byte_ok q) (flat (pathEscape q s)) = true.
Proof.
  rewrite pathEscape_flat. induction s as [|c r IH]; intros Hb; cbn [path_view]; [reflexivity|].
  cbn [is_bytes forallb] in Hb. apply andb_prop in Hb. destruct Hb as [Hc Hr]. apply N.ltb_lt in Hc.
  rewrite forallb_app, path_esc1_ok by assumption. apply IH, Hr.
Qed.

(* ---------------- CSS string ---------------- *)
Lemma krun_app a b st : krun st (a ++ b) = match krun st a with Some st' => krun st' b | None => None end.
Proof.
  revert st; induction a as [|c a IH]; intros st; cbn [app krun]; [reflexivity|].
  destruct (kstep st c); [apply IH|reflexivity].
Qed.

Definition css_scan_check (c : N) : bool :=
  match assoc_get gen_cssStringEscape_tbl c with
  | Some e =>
    if c =? 92 then match krun KStr e with Some KStr => true | _ => false end
    else match krun KStr e with Some (KHex _) => true | _ => false end
  | None => match kdata c with Some KStr => true | _ => false end
  end.
Lemma fact_css_scan : forallb css_scan_check all_bytes = true. Proof. vm_compute. reflexivity. Qed.

Lemma kdata_oob c : 256 <= c -> kdata c = Some KStr.
Proof.
  intros H. unfold kdata.
  repeat match goal with |- context [?a =? ?b] => destruct (N.eqb_spec a b); [lia|] end. reflexivity.
Qed.

Lemma css_scan_cases c :
  (assoc_get gen_cssStringEscape_tbl c = None /\ kdata c = Some KStr) \/
  (exists e, assoc_get gen_cssStringEscape_tbl c = Some e /\
     ((c = 92 /\ krun KStr e = Some KStr) \/ (c <> 92 /\ exists n, krun KStr e = Some (KHex n)))).
Proof.
  destruct (N.lt_ge_cases c 256) as [Hc|Hc].
  - pose proof (forall_bytes _ fact_css_scan c Hc) as H. unfold css_scan_check in H.
    destruct (assoc_get gen_cssStringEscape_tbl c) as [e|].
    + right. exists e. split; [reflexivity|]. destruct (N.eqb_spec c 92) as [->|Hn].
      * left. split; [reflexivity|]. destruct (krun KStr e) as [[| | |]|]; try discriminate. reflexivity.
      * right. split; [assumption|]. destruct (krun KStr e) as [[| |n|]|]; try discriminate. exists n. reflexivity.
    + left. split; [reflexivity|]. destruct (kdata c) as [[| | |]|]; try discriminate. reflexivity.
  - left. split; [apply assoc_get_oob; [exact fact_css_keys|assumption]|apply kdata_oob; assumption].
Qed.

(* after a hex escape: one space is swallowed; a byte that is neither hex nor whitespace is read as string data *)
Lemma krun_hex_space n X : krun (KHex n) (32 :: X) = krun KStr X.
Proof. cbn [krun kstep]. reflexivity. Qed.

Lemma krun_hex_end n x X : is_hex x = false -> is_css_ws x = false -> krun (KHex n) (x :: X) = krun KStr (x :: X).
Proof.
  intros Hh Hw. cbn [krun kstep]. rewrite Hh, Hw. cbn [andb].
  assert (H13 : (x =? 13) = false).
  { unfold is_css_ws in Hw. destruct (x =? 13); [|reflexivity]. rewrite !orb_true_r in Hw. cbn in Hw. discriminate. }
  rewrite H13. reflexivity.
Qed.

Lemma css_scan s : forall rest, krun KStr (css_view s ++ rest) = krun KStr rest.
Proof.
  induction s as [|c r IH]; intros rest; [reflexivity|].
  cbn [css_view]. rewrite <- app_assoc. unfold css_esc1.
  destruct (css_scan_cases c) as [(Hn & Hd)|(e & He & [[-> Hrun]|(Hn92 & n & Hrun)])].
  - rewrite Hn. cbn [app krun kstep]. rewrite Hd. apply IH.
  - rewrite He. unfold css_space. cbn [N.eqb Pos.eqb negb andb app]. rewrite app_nil_r.
    rewrite krun_app, Hrun. apply IH.
  - rewrite He, <- app_assoc, krun_app, Hrun.
    destruct (css_space c r) eqn:Hsp.
    + cbn [app]. rewrite krun_hex_space. apply IH.
    + cbn [app]. unfold css_space in Hsp. destruct (N.eqb_spec c 92); [contradiction|]. cbn [negb andb] in Hsp.
      destruct r as [|d r']; [discriminate|].
      destruct (css_view_head d r' rest Hsp) as (x & X & HX & Hh & Hw).
      rewrite HX, (krun_hex_end n x X Hh Hw), <- HX. apply IH.
Qed.

Theorem css_confine s : css_string_ok (flat (cssStringEscape s)) = true.
Proof.
  unfold css_string_ok. rewrite cssStringEscape_flat, <- (app_nil_r (css_view s)), css_scan. reflexivity.
Qed.

(* ---------------- JavaScript and JSON strings ---------------- *)
Lemma srun_app json a b st :
  srun json st (a ++ b) = match srun json st a with Some st' => srun json st' b | None => None end.
Proof.
  revert st; induction a as [|c a IH]; intros st; cbn [app srun]; [reflexivity|].
  destruct (sstep json st c); [apply IH|reflexivity].
Qed.

Definition sbase : list sstate := [SStr; SE2; SE280].
Definition is_sstr (o : option sstate) : bool := match o with Some SStr => true | _ => false end.

(* a byte below 128: its block (escape or itself) takes the scanner from any of
   the three in-string states back to SStr *)
Definition js_scan_check (json : bool) (c : N) : bool :=
  forallb (fun st => is_sstr (srun json st (esc_or_self gen_jsStringEscape_tbl c))) sbase.
Lemma fact_js_scan : forallb (fun c => js_scan_check false c && js_scan_check true c) ascii_bytes = true.
Proof. vm_compute. reflexivity. Qed.

(* U+2028 and U+2029 have an escape, and it does the same *)
Definition js_ls_scan_check (json : bool) (b2 : N) : bool :=
  match assoc_get gen_jsStringEscape_tbl (8064 + b2) with
  | Some e => (match e with 92 :: _ => true | _ => false end) && forallb (fun st => is_sstr (srun json st e)) sbase
  | None => false
  end.
Lemma fact_js_ls_scan :
  js_ls_scan_check false 168 && js_ls_scan_check false 169 && js_ls_scan_check true 168 && js_ls_scan_check true 169 = true.
Proof. vm_compute. reflexivity. Qed.

Definition in_base (st : sstate) : Prop := st = SStr \/ st = SE2 \/ st = SE280.

Lemma forallb_sbase (P : sstate -> bool) st : forallb P sbase = true -> in_base st -> P st = true.
Proof.
  unfold sbase. cbn [forallb]. intros H Hst.
  apply andb_prop in H. destruct H as [H1 H]. apply andb_prop in H. destruct H as [H2 H]. apply andb_prop in H. destruct H as [H3 _].
  destruct Hst as [->|[->| ->]]; assumption.
Qed.

Lemma js_ascii_block json c st : c < 128 -> in_base st ->
  srun json st (js_esc1 c) = Some SStr.
Proof.
  intros Hc Hst. unfold js_esc1. destruct (N.ltb_spec c 128) as [_|Hx]; [|lia].
  pose proof fact_js_scan as H. rewrite forallb_forall in H. specialize (H c (ascii_bytes_complete c Hc)).
  cbv beta in H. apply andb_prop in H. destruct H as [H0 H1].
  assert (Hj : js_scan_check json c = true) by (destruct json; assumption). unfold js_scan_check in Hj.
  pose proof (forallb_sbase _ st Hj Hst) as Hs. cbv beta in Hs. unfold is_sstr in Hs.
  destruct (srun json st (esc_or_self gen_jsStringEscape_tbl c)) as [[| | | | |]|]; try discriminate. reflexivity.
Qed.

Lemma js_ls_present json b2 : b2 = 168 \/ b2 = 169 ->
  exists e, assoc_get gen_jsStringEscape_tbl (8064 + b2) = Some e /\
            (exists e', e = 92 :: e') /\
            forall st, in_base st -> srun json st e = Some SStr.
Proof.
  intros Hb. pose proof fact_js_ls_scan as H.
  apply andb_prop in H. destruct H as [H H4]. apply andb_prop in H. destruct H as [H H3].
  apply andb_prop in H. destruct H as [H1 H2].
  assert (Hc : js_ls_scan_check json b2 = true) by (destruct json, Hb; subst; assumption).
  unfold js_ls_scan_check in Hc.
  destruct (assoc_get gen_jsStringEscape_tbl (8064 + b2)) as [e|]; [|discriminate].
  apply andb_prop in Hc. destruct Hc as [Hhd Hc].
  exists e. split; [reflexivity|]. split.
  { destruct e as [|a e']; [discriminate|]. exists e'. destruct (N.eq_dec a 92) as [->|Hne]; [reflexivity|].
    exfalso. destruct a as [|pa]; [discriminate|]. repeat (destruct pa as [pa|pa|]; try discriminate). contradiction. }
  intros st Hst.
  pose proof (forallb_sbase _ st Hc Hst) as Hs. cbv beta in Hs. unfold is_sstr in Hs.
  destruct (srun json st e) as [[| | | | |]|]; try discriminate. reflexivity.
Qed.

(* what the rest of the source may not start with, given the bytes E2 / E2 80 just passed through *)
Definition js_safe (st : sstate) (s : bytes) : Prop :=
  match st with
  | SE2 => forall b2 r, s = 128 :: b2 :: r -> b2 <> 168 /\ b2 <> 169
  | SE280 => forall b r, s = b :: r -> b <> 168 /\ b <> 169
  | _ => True
  end.

(* a byte of 128 or more, passed through *)
Lemma js_high_byte json st b0 r :
  128 <= b0 -> in_base st -> js_safe st (b0 :: r) ->
  (b0 = 226 -> forall b2 r', r = 128 :: b2 :: r' -> b2 <> 168 /\ b2 <> 169) ->
  exists st', sstep json st b0 = Some st' /\ in_base st' /\ js_safe st' r.
Proof.
  intros Hb Hst Hsafe Hls.
  assert (Hd : forall prev, in_base prev ->
    sdata json prev b0 =
      if b0 =? 226 then Some SE2
      else match prev with
           | SE2 => if b0 =? 128 then Some SE280 else Some SStr
           | SE280 => if (b0 =? 168) || (b0 =? 169) then None else Some SStr
           | _ => Some SStr
           end).
  { intros prev _. unfold sdata.
    repeat match goal with |- context [?a =? ?b] =>
      lazymatch b with 226 => fail | 128 => fail | 168 => fail | 169 => fail | _ => destruct (N.eqb_spec a b); [lia|] end end.
    cbn [orb]. destruct (N.ltb_spec b0 32); [lia|]. rewrite andb_false_r. reflexivity. }
  assert (Hstep : sstep json st b0 = sdata json st b0) by (destruct Hst as [->|[->| ->]]; reflexivity).
  rewrite Hstep, (Hd st Hst).
  destruct (N.eqb_spec b0 226) as [->|Hn226].
  - exists SE2. split; [reflexivity|]. split; [right; left; reflexivity|].
    cbn [js_safe]. intros b2 r' Hr. exact (Hls eq_refl b2 r' Hr).
  - destruct Hst as [->|[->| ->]].
    + exists SStr. split; [reflexivity|]. split; [left; reflexivity|exact I].
    + destruct (N.eqb_spec b0 128) as [->|Hn128].
      * exists SE280. split; [reflexivity|]. split; [right; right; reflexivity|].
        cbn [js_safe] in *. intros b r' Hr. subst r. exact (Hsafe b r' eq_refl).
      * exists SStr. split; [reflexivity|]. split; [left; reflexivity|exact I].
    + cbn [js_safe] in Hsafe. destruct (Hsafe b0 r eq_refl) as [H1 H2].
      destruct (N.eqb_spec b0 168); [contradiction|]. destruct (N.eqb_spec b0 169); [contradiction|]. cbn [orb].
      exists SStr. split; [reflexivity|]. split; [left; reflexivity|exact I].
Qed.

Lemma js_scan json n : forall s st, (length s <= n)%nat -> in_base st -> js_safe st s ->
  exists st', srun json st (js_view s) = Some st' /\ in_base st'.
Proof.
  induction n as [|n IH]; intros s st Hl Hst Hsafe.
  - destruct s; [|cbn [length] in Hl; lia]. exists st. split; [reflexivity|assumption].
  - destruct s as [|b0 r]; [exists st; split; [reflexivity|assumption]|].
    cbn [length] in Hl.
    destruct (js_view_cases b0 r) as [(b2 & r' & e & -> & -> & Hb2 & He & Hv)|Hv]; rewrite Hv, srun_app.
    + destruct (js_ls_present json b2 Hb2) as (e' & He' & _ & Hrun). rewrite He in He'. injection He' as <-.
      rewrite (Hrun st Hst). apply IH; [cbn [length] in Hl; lia|left; reflexivity|exact I].
    + destruct (N.lt_ge_cases b0 128) as [Hlt|Hge].
      * rewrite (js_ascii_block json b0 st Hlt Hst). apply IH; [lia|left; reflexivity|exact I].
      * assert (He1 : js_esc1 b0 = [b0]) by (unfold js_esc1; destruct (N.ltb_spec b0 128); [lia|reflexivity]).
        rewrite He1. cbn [srun].
        assert (Hls : b0 = 226 -> forall b2 r', r = 128 :: b2 :: r' -> b2 <> 168 /\ b2 <> 169).
        { intros -> b2 r' ->.
          (* otherwise js_view would have taken the escape *)
          destruct (N.eq_dec b2 168) as [->|H168].
          - exfalso. destruct (js_ls_present json 168 (or_introl eq_refl)) as (e & He & (e' & ->) & _).
            rewrite js_view_ls in Hv by (left; reflexivity). rewrite He in Hv.
            change (js_esc1 226) with [226] in Hv. cbn [app] in Hv. discriminate.
          - destruct (N.eq_dec b2 169) as [->|H169]; [|split; assumption].
            exfalso. destruct (js_ls_present json 169 (or_intror eq_refl)) as (e & He & (e' & ->) & _).
            rewrite js_view_ls in Hv by (right; reflexivity). rewrite He in Hv.
            change (js_esc1 226) with [226] in Hv. cbn [app] in Hv. discriminate. }
        destruct (js_high_byte json st b0 r Hge Hst Hsafe Hls) as (st' & Hs & Hb' & Hsafe').
        rewrite Hs. apply IH; [lia|assumption|assumption].
Qed.

Theorem js_confine_gen json s :
  exists cs, jsStringEscape s = Some cs /\ js_string_ok_gen json (flat cs) = true.
Proof.
  destruct (jsStringEscape_view s) as (cs & Hcs & Hf). exists cs. split; [exact Hcs|].
  unfold js_string_ok_gen. rewrite Hf.
  destruct (js_scan json (length s) s SStr (le_n _) (or_introl eq_refl) I) as (st' & Hrun & Hb).
  rewrite Hrun. destruct Hb as [->|[->| ->]]; reflexivity.
Qed.

(* what the scanner accepts contains no less-than, greater-than or ampersand at all *)
Definition no_markup (c : N) : bool := negb ((c =? 60) || (c =? 62) || (c =? 38)).

Lemma sstep_markup json st c st' : sstep json st c = Some st' -> no_markup c = true.
Proof.
  unfold no_markup. destruct ((c =? 60) || (c =? 62) || (c =? 38)) eqn:Hm; [|reflexivity].
  intros H. exfalso.
  assert (Hd : forall prev, sdata json prev c = None).
  { intros prev. unfold sdata. destruct ((c =? 34) || (c =? 39)); [reflexivity|].
    destruct ((c =? 10) || (c =? 13)); [reflexivity|]. rewrite Hm. reflexivity. }
  assert (Hc : c = 60 \/ c = 62 \/ c = 38).
  { apply orb_prop in Hm. destruct Hm as [Hm|Hm]; [apply orb_prop in Hm; destruct Hm as [Hm|Hm]|]; apply N.eqb_eq in Hm; auto. }
  destruct st; cbn [sstep] in H; rewrite ?Hd in H; try discriminate.
  - destruct Hc as [->|[->| ->]]; destruct json; vm_compute in H; discriminate.
  - destruct (N.eqb_spec c 10); [destruct Hc as [?|[?|?]]; lia|]. discriminate.
  - assert (Hh : is_hex c = false) by (destruct Hc as [->|[->| ->]]; reflexivity). rewrite Hh in H. discriminate.
Qed.

Lemma srun_markup json s : forall st st', srun json st s = Some st' -> forallb no_markup s = true.
Proof.
  induction s as [|c r IH]; intros st st' H; [reflexivity|]. cbn [srun] in H.
  destruct (sstep json st c) as [st1|] eqn:Hs; [|discriminate].
  cbn [forallb]. rewrite (sstep_markup _ _ _ _ Hs). exact (IH _ _ H).
Qed.

Theorem js_no_markup json s : js_string_ok_gen json s = true -> forallb no_markup s = true.
Proof.
  unfold js_string_ok_gen. destruct (srun json SStr s) as [st|] eqn:H; [|discriminate].
  intros _. exact (srun_markup _ _ _ _ H).
Qed.
