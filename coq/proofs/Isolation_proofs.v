(* C10: runs that only read the shared artefact, and whose steps do not
   depend on the cache part, do not interfere. *)
From Coq Require Import List Arith Lia.
Import ListNotations.
From Verif Require Import IsolationM.

Section IsoProofs.
  Variables Art Cache Local Out : Type.
  Variable gstep : Art -> Cache -> Local -> Art * Cache * (Local + Out).

  (* the artefact is never written *)
  Hypothesis art_readonly : forall a c l, fst (fst (gstep a c l)) = a.
  (* what a step does to its run does not depend on the cache (a pooled
     argument slice is overwritten before use; a cached descriptor equals a fresh one) *)
  Hypothesis cache_irrelevant : forall a c c' l, snd (gstep a c l) = snd (gstep a c' l).

  Notation world := (world Art Cache Local Out).
  Notation exec := (exec Art Cache Local Out gstep).
  Notation solo := (solo Art Cache Local Out gstep).
  Notation sched_step := (sched_step Art Cache Local Out gstep).

  Lemma nth_set_run_same l : forall i x, i < length l -> nth_error (set_run Local Out l i x) i = Some x.
  Proof. induction l; intros i x H; simpl in *; [lia|]. destruct i; [reflexivity|]. apply IHl. lia. Qed.

  Lemma nth_set_run_other l : forall i j x, i <> j -> nth_error (set_run Local Out l i x) j = nth_error l j.
  Proof.
    induction l; intros i j x H; simpl; [reflexivity|].
    destruct i, j; try reflexivity; [lia|]. simpl. apply IHl. lia.
  Qed.

  Lemma solo_cache a k : forall c c' x, solo a c k x = solo a c' k x.
  Proof.
    induction k; intros c c' x; [reflexivity|]. destruct x as [l|o]; [|reflexivity]. simpl.
    assert (H := cache_irrelevant a c c' l).
    destruct (gstep a c l) as [[a1 c1] x1]. destruct (gstep a c' l) as [[a2 c2] x2]. simpl in H. subst x2.
    apply IHk.
  Qed.

  Lemma solo_finished a c k o : solo a c k (inr o) = inr o.
  Proof. destruct k; reflexivity. Qed.

  Lemma solo_snoc a c k : forall x,
    solo a c (S k) x = match solo a c k x with
                       | inl l => snd (gstep a c l)
                       | inr o => inr o
                       end.
  Proof.
    induction k; intros x.
    - simpl. destruct x as [l|o]; [|reflexivity]. destruct (gstep a c l) as [[a1 c1] x1]. simpl. destruct x1; reflexivity.
    - destruct x as [l|o]; [|reflexivity].
      change (solo a c (S (S k)) (inl l)) with
        (match gstep a c l with (_, c', x') => solo a c' (S k) x' end).
      change (solo a c (S k) (inl l)) with (match gstep a c l with (_, c', x') => solo a c' k x' end).
      destruct (gstep a c l) as [[a1 c1] x1].
      rewrite (solo_cache a (S k) c1 c x1), (solo_cache a k c1 c x1). apply IHk.
  Qed.

  Lemma sched_step_art w i : w_art _ _ _ _ (sched_step w i) = w_art _ _ _ _ w.
  Proof.
    unfold sched_step. destruct (nth_error (w_runs _ _ _ _ w) i) as [[l|o]|]; try reflexivity.
    assert (H := art_readonly (w_art _ _ _ _ w) (w_cache _ _ _ _ w) l).
    destruct (gstep _ _ l) as [[a c] x]. simpl in *. exact H.
  Qed.

  Lemma exec_art sched : forall w, w_art _ _ _ _ (exec w sched) = w_art _ _ _ _ w.
  Proof.
    induction sched; intros w; [reflexivity|]. unfold IsolationM.exec in *. simpl. rewrite IHsched. apply sched_step_art.
  Qed.

  Lemma sched_step_length w i : length (w_runs _ _ _ _ (sched_step w i)) = length (w_runs _ _ _ _ w).
  Proof.
    unfold sched_step. destruct (nth_error (w_runs _ _ _ _ w) i) as [[l|o]|]; try reflexivity.
    destruct (gstep _ _ l) as [[a c] x]. simpl.
    generalize (w_runs _ _ _ _ w) i. clear. intros rs. induction rs; intros i; simpl; [reflexivity|]. destruct i; simpl; auto.
  Qed.

  (* For every schedule and every run j: its state after the interleaved
     execution is its state after running alone for as many steps as the
     schedule gives it, from any cache. *)
  Theorem runs_noninterfere : forall sched w j c0,
    nth_error (w_runs _ _ _ _ (exec w (rev sched))) j =
    match nth_error (w_runs _ _ _ _ w) j with
    | Some x => Some (solo (w_art _ _ _ _ w) c0 (count_occ Nat.eq_dec sched j) x)
    | None => None
    end.
  Proof.
    induction sched as [|i sched IH]; intros w j c0.
    - simpl. destruct (nth_error (w_runs _ _ _ _ w) j); reflexivity.
    - simpl rev. unfold IsolationM.exec. rewrite fold_left_app. simpl fold_left.
      fold (exec w (rev sched)). set (w1 := exec w (rev sched)).
      assert (IHj := IH w j c0). fold w1 in IHj.
      assert (Ha : w_art _ _ _ _ w1 = w_art _ _ _ _ w) by apply exec_art.
      simpl count_occ. destruct (Nat.eq_dec i j) as [->|Hne].
      + (* run j takes the step *)
        unfold sched_step. destruct (nth_error (w_runs _ _ _ _ w) j) as [x|] eqn:Hx.
        * rewrite IHj. rewrite solo_snoc.
          destruct (solo (w_art _ _ _ _ w) c0 (count_occ Nat.eq_dec sched j) x) as [l|o] eqn:Hs.
          -- rewrite Ha. assert (Hc := cache_irrelevant (w_art _ _ _ _ w) (w_cache _ _ _ _ w1) c0 l).
             destruct (gstep (w_art _ _ _ _ w) (w_cache _ _ _ _ w1) l) as [[a1 c1] x1]. simpl in Hc. simpl.
             rewrite nth_set_run_same; [rewrite Hc; reflexivity|].
             apply nth_error_Some. rewrite IHj. discriminate.
          -- exact IHj.
        * rewrite IHj. exact IHj.
      + rewrite <- IHj. unfold sched_step.
        destruct (nth_error (w_runs _ _ _ _ w1) i) as [[l|o]|]; try reflexivity.
        destruct (gstep _ _ l) as [[a1 c1] x1]. simpl. apply nth_set_run_other. exact Hne.
  Qed.

End IsoProofs.
