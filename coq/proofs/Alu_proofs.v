From Verif Require Import GoInt Facts_alu AluM.
Open Scope Z_scope.

Arguments wrap : simpl never.
Arguments canon : simpl never.
Arguments Z.quot : simpl never.
Arguments Z.rem : simpl never.
Arguments Z.land : simpl never.
Arguments Z.lor : simpl never.
Arguments Z.lxor : simpl never.
Arguments Z.lnot : simpl never.
Arguments Z.pow : simpl never.
Arguments Z.div : simpl never.
Arguments Z.mul : simpl never.
Arguments Z.add : simpl never.
Arguments Z.sub : simpl never.
Arguments Z.opp : simpl never.

(* the eleven integer kinds *)
Lemma kind_cases k t : kind_ity k = Some t ->
  (k = gen_kind_Int /\ t = I64) \/ (k = gen_kind_Int8 /\ t = I8) \/ (k = gen_kind_Int16 /\ t = I16) \/
  (k = gen_kind_Int32 /\ t = I32) \/ (k = gen_kind_Int64 /\ t = I64) \/ (k = gen_kind_Uint /\ t = U64) \/
  (k = gen_kind_Uint8 /\ t = U8) \/ (k = gen_kind_Uint16 /\ t = U16) \/ (k = gen_kind_Uint32 /\ t = U32) \/
  (k = gen_kind_Uint64 /\ t = U64) \/ (k = gen_kind_Uintptr /\ t = U64).
Proof.
  unfold kind_ity. intros H.
  repeat match type of H with
  | (if ?a =? ?b then _ else _) = _ => destruct (Z.eqb_spec a b) as [->|_]; [injection H as <-; tauto|]
  end.
  discriminate.
Qed.

Lemma canon_small t x : in_range t x -> t <> U64 -> canon x = x.
Proof.
  intros H Ht. unfold canon. apply wrap_id.
  apply (in_range_sub t I64 x H); [apply bits_le64|].
  destruct t; try congruence; first [left; reflexivity | right; split; [reflexivity | cbn; lia]].
Qed.

(* a value of type t read back from its register form *)
Lemma wrap_canon t x : wrap t (canon x) = wrap t x.
Proof. unfold canon. apply wrap_wrap. apply bits_le64. Qed.

Lemma wrap_canon_id t x : in_range t x -> wrap t (canon x) = x.
Proof. intros H. rewrite wrap_canon. apply wrap_id, H. Qed.

Ltac kinds H :=
  apply kind_cases in H;
  repeat match type of H with _ \/ _ => destruct H as [H|H] end;
  destruct H as [-> ->].

(* reduce vm_binop for a concrete operator and kind to the generated term *)
Ltac to_term :=
  match goal with |- context [zassoc ?tbl ?k] =>
    let E := fresh "E" in let opc := fresh "opc" in let a := fresh "a" in
    destruct (zassoc tbl k) as [[opc a]|] eqn:E; vm_compute in E;
    [injection E as <- <-|discriminate E]
  end;
  match goal with |- context [?a =? gen_select_reg_x] =>
    let E := fresh "E" in destruct (a =? gen_select_reg_x) eqn:E; vm_compute in E; try discriminate E; clear E
  end;
  unfold gen_alu; simpl.

Ltac wrap_norm :=
  unfold canon;
  repeat match goal with
  | |- context [wrap ?t (wrap ?t' ?z)] => rewrite (wrap_wrap t t' z) by (cbn; lia)
  | |- context [wrap ?t (wrap ?t' ?a + ?b)] => rewrite (wrap_add_l2 t t' a b) by (cbn; lia)
  | |- context [wrap ?t (?a + wrap ?t' ?b)] => rewrite (wrap_add_r2 t t' a b) by (cbn; lia)
  | |- context [wrap ?t (wrap ?t' ?a - ?b)] => rewrite (wrap_sub_l2 t t' a b) by (cbn; lia)
  | |- context [wrap ?t (?a - wrap ?t' ?b)] => rewrite (wrap_sub_r2 t t' a b) by (cbn; lia)
  | |- context [wrap ?t (wrap ?t' ?a * ?b)] => rewrite (wrap_mul_l2 t t' a b) by (cbn; lia)
  | |- context [wrap ?t (?a * wrap ?t' ?b)] => rewrite (wrap_mul_r2 t t' a b) by (cbn; lia)
  | |- context [wrap ?t (- wrap ?t' ?a)] => rewrite (wrap_neg2 t t' a) by (cbn; lia)
  end.

Ltac close_wrap :=
  repeat match goal with
  | |- Some _ = Some _ => apply f_equal
  | |- wrap ?t _ = wrap ?t _ => apply f_equal
  end; try reflexivity; try lia.

(* ---- Add, Sub, Mul: ring operations commute with wrap ---- *)

Theorem vm_add_correct k t x y g : kind_ity k = Some t -> in_range t x -> in_range t y ->
  vm_binop Add k x y g = Some (omap canon (bin Add t x y)).
Proof.
  intros Hk Hx Hy. unfold vm_binop, select_tbl. kinds Hk; to_term; wrap_norm; close_wrap.
Qed.

Theorem vm_sub_correct k t x y g : kind_ity k = Some t -> in_range t x -> in_range t y ->
  vm_binop Sub k x y g = Some (omap canon (bin Sub t x y)).
Proof.
  intros Hk Hx Hy. unfold vm_binop, select_tbl. kinds Hk; to_term; wrap_norm; close_wrap.
Qed.

Theorem vm_mul_correct k t x y g : kind_ity k = Some t -> in_range t x -> in_range t y ->
  vm_binop Mul k x y g = Some (omap canon (bin Mul t x y)).
Proof.
  intros Hk Hx Hy. unfold vm_binop, select_tbl. kinds Hk; to_term; wrap_norm; close_wrap.
Qed.

From Verif Require Import GoBits.

(* ---- Quo, Rem: computed at the narrow type on the re-narrowed operands ---- *)

Lemma in_range_I64_canon x : in_range I64 x -> canon x = x.
Proof. intros H. unfold canon. apply wrap_id, H. Qed.

Ltac read_back :=
  repeat match goal with
  | Hx : in_range ?t ?x |- context [wrap ?t (canon ?x)] => rewrite (wrap_canon_id t x Hx)
  | Hx : in_range I64 ?x |- context [canon ?x] => rewrite (in_range_I64_canon x Hx)
  end.

Theorem vm_quo_correct k t x y g : kind_ity k = Some t -> in_range t x -> in_range t y ->
  vm_binop Quo k x y g = Some (omap canon (bin Quo t x y)).
Proof.
  intros Hk Hx Hy. unfold vm_binop, select_tbl. kinds Hk; to_term; read_back;
    destruct (y =? 0); simpl; wrap_norm; close_wrap.
Qed.

Theorem vm_rem_correct k t x y g : kind_ity k = Some t -> in_range t x -> in_range t y ->
  vm_binop Rem k x y g = Some (omap canon (bin Rem t x y)).
Proof.
  intros Hk Hx Hy. unfold vm_binop, select_tbl. kinds Hk; to_term; read_back;
    destruct (y =? 0); simpl; wrap_norm; close_wrap.
Qed.

(* ---- Neg and SubInv ---- *)

Ltac to_term1 :=
  match goal with |- context [zassoc ?tbl ?k] =>
    let E := fresh "E" in let opc := fresh "opc" in let a := fresh "a" in
    destruct (zassoc tbl k) as [[opc a]|] eqn:E; vm_compute in E;
    [injection E as <- <-|discriminate E]
  end;
  unfold gen_alu; simpl.

Theorem vm_neg_correct k t y g : kind_ity k = Some t -> in_range t y ->
  vm_neg k y g = Some (Some (canon (un Neg t y))).
Proof.
  intros Hk Hy. unfold vm_neg. kinds Hk; to_term1; unfold un; read_back; wrap_norm; close_wrap.
Qed.

Theorem vm_subinv_correct k t x y g : kind_ity k = Some t -> in_range t x -> in_range t y ->
  vm_subinv k x y g = Some (omap canon (bin Sub t y x)).
Proof.
  intros Hk Hx Hy. unfold vm_subinv. kinds Hk; to_term; wrap_norm; close_wrap.
Qed.

(* ---- shifts: the count s is a value of an unsigned type, or a non-negative
   value of a signed type (Go panics on a negative count: see the refuted
   lemma below); it sits in its register as canon s ---- *)

Lemma count_read_back s : in_range U64 s -> wrap U64 (canon s) = s.
Proof. apply wrap_canon_id. Qed.

Lemma wrap_zero t : wrap t 0 = 0. Proof. destruct t; reflexivity. Qed.
Lemma wrap_m1 t : signed t = true -> wrap t (-1) = -1. Proof. destruct t; try discriminate; reflexivity. Qed.

Theorem vm_shl_correct k t x s g : kind_ity k = Some t -> in_range t x -> in_range U64 s ->
  vm_binop Shl k x s g = Some (omap canon (bin Shl t x s)).
Proof.
  intros Hk Hx Hs. assert (H0 : 0 <= s) by (unfold in_range, tmin in Hs; cbn in Hs; lia).
  unfold vm_binop, select_tbl.
  kinds Hk; to_term; rewrite (count_read_back s Hs).
  all: repeat match goal with |- context [?n <=? ?z] => destruct (Z.leb_spec n z) end; try lia.
  all: rewrite ?wrap_zero; wrap_norm; rewrite ?wrap_shl_big by (cbn; lia); rewrite ?wrap_zero; close_wrap.
Qed.

Lemma in_range_to_I64 t x : in_range t x -> t <> U64 -> in_range I64 x.
Proof.
  intros H Ht. apply (in_range_sub t I64 x H); [apply bits_le64|].
  destruct t; try congruence; first [left; reflexivity | right; split; [reflexivity | cbn; lia]].
Qed.

Lemma in_range_to_U64 t x : signed t = false -> in_range t x -> in_range U64 x.
Proof.
  intros Hs H. apply (in_range_sub t U64 x H); [apply bits_le64|]. left. rewrite Hs. reflexivity.
Qed.

Lemma canon_shr_signed t x s : in_range t x -> t <> U64 -> 0 <= s -> canon (x / 2 ^ s) = x / 2 ^ s.
Proof.
  intros Hx Ht Hs. apply in_range_I64_canon, shr_range; [apply (in_range_to_I64 t x Hx Ht)|exact Hs].
Qed.

Lemma canon_sign x : canon (if x <? 0 then -1 else 0) = if x <? 0 then -1 else 0.
Proof. destruct (x <? 0); reflexivity. Qed.

Theorem vm_shr_correct k t x s g : kind_ity k = Some t -> in_range t x -> in_range U64 s ->
  vm_binop Shr k x s g = Some (omap canon (bin Shr t x s)).
Proof.
  intros Hk Hx Hs. assert (H0 : 0 <= s) by (unfold in_range, tmin in Hs; cbn in Hs; lia).
  unfold vm_binop, select_tbl.
  kinds Hk; to_term; rewrite (count_read_back s Hs).
  (* signed kinds: arithmetic shift of the sign-extended register *)
  all: try (rewrite (canon_small _ x Hx) by congruence;
            repeat match goal with |- context [?n <=? ?z] => destruct (Z.leb_spec n z) end; try lia;
            rewrite ?canon_sign, ?(shr_big _ x s Hx) by (cbn; lia);
            rewrite ?canon_sign, ?(canon_shr_signed _ x s Hx) by (congruence || lia); reflexivity).
  (* unsigned kinds: logical shift of the zero-extended register *)
  all: match type of Hx with in_range ?t _ => pose proof (in_range_to_U64 t x eq_refl Hx) as Hu end; rewrite (wrap_canon_id U64 x Hu);
       assert (Hx0 : (x <? 0) = false) by (apply Z.ltb_ge; unfold in_range, tmin in Hu; cbn in Hu; lia);
       rewrite ?Hx0;
       repeat match goal with |- context [?n <=? ?z] => destruct (Z.leb_spec n z) end; try lia;
       rewrite ?(shr_big _ x s Hx) by (cbn; lia); rewrite ?Hx0; reflexivity.
Qed.

(* ---- bitwise operators: one untruncated int64 instruction for every kind;
   correct because register forms are sign/zero extensions and these
   operators act bit by bit ---- *)

Ltac bitwise f g fbits frange :=
  match goal with Hx : in_range ?t ?x, Hy : in_range ?t ?y |- _ =>
    unfold canon; rewrite (wrap_bitop f g fbits I64 I64 x y) by (cbn; lia);
    first [ rewrite (wrap_id t (f x y)) by (apply frange; assumption); reflexivity
          | rewrite (wrap_wrap I64 t (f x y)) by (cbn; lia); reflexivity ]
  end.

Theorem vm_and_correct k t x y g : kind_ity k = Some t -> in_range t x -> in_range t y ->
  vm_binop And k x y g = Some (omap canon (bin And t x y)).
Proof.
  intros Hk Hx Hy. unfold vm_binop, select_tbl.
  kinds Hk; to_term; do 2 apply f_equal; bitwise Z.land andb land_bits in_range_land.
Qed.

Theorem vm_or_correct k t x y g : kind_ity k = Some t -> in_range t x -> in_range t y ->
  vm_binop Or k x y g = Some (omap canon (bin Or t x y)).
Proof.
  intros Hk Hx Hy. unfold vm_binop, select_tbl.
  kinds Hk; to_term; do 2 apply f_equal; bitwise Z.lor orb lor_bits in_range_lor.
Qed.

Theorem vm_xor_correct k t x y g : kind_ity k = Some t -> in_range t x -> in_range t y ->
  vm_binop Xor k x y g = Some (omap canon (bin Xor t x y)).
Proof.
  intros Hk Hx Hy. unfold vm_binop, select_tbl.
  kinds Hk; to_term; do 2 apply f_equal; bitwise Z.lxor xorb lxor_bits in_range_lxor.
Qed.

Theorem vm_andnot_correct k t x y g : kind_ity k = Some t -> in_range t x -> in_range t y ->
  vm_binop AndNot k x y g = Some (omap canon (bin AndNot t x y)).
Proof.
  intros Hk Hx Hy. unfold vm_binop, select_tbl.
  kinds Hk; to_term; do 2 apply f_equal;
  bitwise Z.ldiff (fun a b => andb a (negb b)) ldiff_bits in_range_ldiff.
Qed.

(* ---- integer conversions ---- *)

Theorem vm_convert_correct ks ts kd td x : kind_ity ks = Some ts -> kind_ity kd = Some td -> in_range ts x ->
  vm_convert ks kd x = Some (Some (canon (wrap td x))).
Proof.
  intros Hs Hd Hx. unfold vm_convert.
  kinds Hs;
    (match goal with |- context [zassoc ?tbl ?k] =>
       let E := fresh "E" in let opc := fresh "opc" in
       destruct (zassoc tbl k) as [opc|] eqn:E; vm_compute in E; [injection E as <-|discriminate E]
     end);
    repeat (match goal with |- context [?a =? ?b] =>
       let E := fresh "E" in destruct (a =? b) eqn:E; vm_compute in E; try discriminate E; clear E end);
    kinds Hd; unfold gen_alu_OpConvertInt, gen_alu_OpConvertUint; simpl; wrap_norm; close_wrap.
Qed.

(* ---- what is NOT true: a negative shift count.  Go panics; the VM reads the
   count as a huge unsigned number and yields 0 (known finding). ---- *)
Lemma vm_shl_negcount_refuted :
  exists k x s g, kind_ity k = Some I64 /\ in_range I64 x /\ in_range I64 s /\ s < 0 /\
                  vm_binop Shl k x s g = Some (Some 0).
Proof. exists gen_kind_Int64, 1, (-1), 0. vm_compute. intuition congruence. Qed.

(* non-vacuity: the premises are satisfiable at the boundaries *)
Example alu_example :
  kind_ity gen_kind_Int8 = Some I8 /\ in_range I8 127 /\ in_range I8 1 /\
  vm_binop Add gen_kind_Int8 127 1 0 = Some (Some (-128)) /\
  vm_binop Quo gen_kind_Int8 (-128) (-1) 0 = Some (Some (-128)) /\
  vm_binop Quo gen_kind_Uint64 18446744073709551615 2 0 = Some (Some 9223372036854775807) /\
  vm_binop Shr gen_kind_Int16 (-32768) 3 0 = Some (Some (-4096)) /\
  vm_binop Rem gen_kind_Int32 7 0 0 = Some None.
Proof. vm_compute. intuition congruence. Qed.

(* ---- comparisons ---- *)

Lemma canon_inj t x y : in_range t x -> in_range t y -> canon x = canon y -> x = y.
Proof. intros Hx Hy H. rewrite <- (wrap_canon_id t x Hx), <- (wrap_canon_id t y Hy), H. reflexivity. Qed.

Lemma canon_eqb t x y : in_range t x -> in_range t y -> (canon x =? canon y) = (x =? y).
Proof.
  intros Hx Hy. destruct (Z.eqb_spec x y) as [->|Hne]; [apply Z.eqb_refl|].
  apply Z.eqb_neq. intros H. apply Hne, (canon_inj t x y Hx Hy H).
Qed.

Theorem vm_cmp_correct c k t x y : kind_ity k = Some t -> in_range t x -> in_range t y ->
  vm_cmp c k x y = Some (Some (cmp c x y)).
Proof.
  intros Hk Hx Hy. unfold vm_cmp, select_cmp_tbl.
  destruct c; kinds Hk;
    (match goal with |- context [zassoc ?tbl ?k] =>
       let E := fresh "E" in let cnd := fresh "cnd" in
       destruct (zassoc tbl k) as [cnd|] eqn:E; vm_compute in E; [injection E as <-|discriminate E]
     end);
    unfold gen_ifint; simpl; unfold cmp;
    rewrite ?(canon_eqb _ x y Hx Hy);
    try (match type of Hx with in_range ?t _ =>
           rewrite (wrap_canon_id U64 x (in_range_to_U64 t x eq_refl Hx)), (wrap_canon_id U64 y (in_range_to_U64 t y eq_refl Hy)) end);
    try (rewrite (canon_small _ x Hx), (canon_small _ y Hy) by congruence);
    reflexivity.
Qed.
