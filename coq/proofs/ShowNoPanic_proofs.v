(* C05, show functions: the type dispatch of renderer.Show never panics.
   Stated over the decision trees that gofacts generates from renderer.go
   (gen/Facts_show.v): for every context, inside and outside a URL, and every
   dynamic type of the shown value (every reflect.Kind, any combination of
   implemented interfaces and well known types, the nil interface), the
   dispatch ends by writing the value, by returning the cannot show error or
   by handing the value to showInJS / showInJSON; the routing of these two
   (leading type switch, kind switch, map keys) has no panicking clause. *)
From Coq Require Import List NArith Bool Lia.
From Verif Require Import Bytes ShowTree Facts_show ShowTypesM.
Import ListNotations.
Open Scope N_scope.

(* the atoms dyn_val gives a meaning to *)
Definition atom_known (a : atom) : bool :=
  match a with
  | ANilValue | AConv => true
  | AImpl PSelf _ | AIs PSelf _ => true
  | _ => false
  end.

Definition leaf_safe (o : outcome) : bool :=
  match o with OPanic | OStuck => false | _ => true end.

Fixpoint tree_safe (t : dtree) : bool :=
  match t with
  | Leaf o => leaf_safe o
  | Node a y n => atom_known a && tree_safe y && tree_safe n
  end.

Lemma eval_safe conv d t :
  tree_safe t = true -> leaf_safe (eval_tree (dyn_val conv d) t) = true.
Proof.
  induction t as [o|a y IHy n IHn]; cbn [tree_safe eval_tree]; [auto|].
  intros H. apply andb_prop in H. destruct H as [H Hn]. apply andb_prop in H. destruct H as [Ha Hy].
  destruct a as [p i|p i| | | | | | |]; try discriminate Ha.
  - destruct p; try discriminate Ha. cbn [dyn_val]. destruct d as [t|]; [destruct (flag t i)|]; cbn [of_bool]; auto.
  - destruct p; try discriminate Ha. cbn [dyn_val]. destruct d as [t|]; [destruct (flag t i)|]; cbn [of_bool]; auto.
  - cbn [dyn_val]. destruct d; auto.
  - cbn [dyn_val]. destruct conv; cbn [of_bool]; auto.
Qed.

(* keys below 1024: key = (ctx * 2 + url) * 32 + kind *)
Definition keys1024 : list N := map N.of_nat (seq 0 1024).

Lemma keys1024_complete c : c < 1024 -> In c keys1024.
Proof.
  intros H. unfold keys1024. apply in_map_iff. exists (N.to_nat c). split.
  - apply N2Nat.id.
  - apply in_seq. lia.
Qed.

Definition show_key_check (key : N) : bool :=
  negb ((key mod 32 <? n_kinds) && (key / 32 <? 2 * n_contexts))
  || tree_safe (tree_assoc gen_Show_tbl key).

(* T1 obligation, recomputed from the generated table on every run *)
Lemma fact_show_tbl_safe : forallb show_key_check keys1024 = true.
Proof. vm_compute. reflexivity. Qed.

Definition kind_key_check (tbl : list (N * dtree)) (k : N) : bool :=
  negb (k <? n_kinds) || tree_safe (tree_assoc tbl k).

Lemma fact_js_tbls_safe :
  forallb (kind_key_check gen_showInJS_tbl) keys1024 = true /\
  forallb (kind_key_check gen_showInJSON_tbl) keys1024 = true /\
  forallb (kind_key_check gen_showInJS_mapkey_tbl) keys1024 = true /\
  forallb (kind_key_check gen_showInJSON_mapkey_tbl) keys1024 = true /\
  forallb (kind_key_check gen_toString_tbl) keys1024 = true.
Proof. vm_compute. repeat split; reflexivity. Qed.

Definition wf_dyn (d : option ty) : Prop := dyn_kind d < n_kinds.

Theorem show_dispatch_never_panics :
  forall (conv : bool) (ctx : N) (url : bool) (d : option ty),
    ctx < n_contexts -> wf_dyn d ->
    dynamic_show conv ctx url d <> OPanic /\ dynamic_show conv ctx url d <> OStuck.
Proof.
  intros conv ctx url d Hc Hd. unfold dynamic_show.
  set (key := (ctx * 2 + url_bit url) * 32 + dyn_kind d).
  assert (Hu : url_bit url < 2) by (destruct url; cbn; lia).
  unfold wf_dyn in Hd. change n_kinds with 27 in Hd. change n_contexts with 14 in Hc.
  assert (Hk : key < 1024) by (unfold key; nia).
  pose proof fact_show_tbl_safe as F. rewrite forallb_forall in F.
  specialize (F key (keys1024_complete key Hk)). unfold show_key_check in F.
  assert (Hmod : key mod 32 = dyn_kind d).
  { unfold key. rewrite N.add_comm, N.mod_add by lia. apply N.mod_small. lia. }
  assert (Hdiv : key / 32 = ctx * 2 + url_bit url).
  { unfold key. rewrite N.div_add_l by lia. rewrite (N.div_small (dyn_kind d)) by lia. lia. }
  rewrite Hmod, Hdiv in F. change n_kinds with 27 in F. change n_contexts with 14 in F.
  replace (dyn_kind d <? 27) with true in F by (symmetry; apply N.ltb_lt; exact Hd).
  replace (ctx * 2 + url_bit url <? 2 * 14) with true in F by (symmetry; apply N.ltb_lt; lia).
  cbn [andb negb orb] in F.
  pose proof (eval_safe conv d _ F) as S.
  split; intros E; rewrite E in S; discriminate S.
Qed.

(* the routing of showInJS / showInJSON for a value of any dynamic type: the
   leading type switch and the kind switch select a clause (never a panic) *)
Theorem js_routing_never_panics :
  forall (tbl : list (N * dtree)) (d : option ty),
    In tbl [gen_showInJS_tbl; gen_showInJSON_tbl; gen_showInJS_mapkey_tbl; gen_showInJSON_mapkey_tbl; gen_toString_tbl] ->
    wf_dyn d ->
    forall conv, eval_tree (dyn_val conv d) (tree_assoc tbl (dyn_kind d)) <> OPanic /\
                 eval_tree (dyn_val conv d) (tree_assoc tbl (dyn_kind d)) <> OStuck.
Proof.
  intros tbl d Hin Hd conv. unfold wf_dyn in Hd.
  assert (Hk : dyn_kind d < 1024) by (change n_kinds with 27 in Hd; lia).
  destruct fact_js_tbls_safe as [F1 [F2 [F3 [F4 F5]]]].
  assert (F : kind_key_check tbl (dyn_kind d) = true).
  { cbn [In] in Hin. destruct Hin as [<-|[<-|[<-|[<-|[<-|[]]]]]];
    [rewrite forallb_forall in F1; apply F1|rewrite forallb_forall in F2; apply F2|rewrite forallb_forall in F3; apply F3
    |rewrite forallb_forall in F4; apply F4|rewrite forallb_forall in F5; apply F5]; apply keys1024_complete, Hk. }
  unfold kind_key_check in F.
  replace (dyn_kind d <? n_kinds) with true in F by (symmetry; apply N.ltb_lt; exact Hd).
  cbn [negb orb] in F.
  pose proof (eval_safe conv d _ F) as S.
  split; intros E; rewrite E in S; discriminate S.
Qed.

(* non vacuity, and the history of the defect repaired by 5d5200b (a nil
   interface shown in a CSS string): the tree of that key has no panicking
   path; a defined type over a byte slice shown in a CSS string is a cannot
   show error *)
Example css_string_examples :
  dynamic_show false ctx_CSSString false None = OOk /\
  dynamic_show false ctx_CSSString false (Some (TSlice 0 (TLeaf k_Uint8 0))) = OErr /\
  dynamic_show false ctx_CSSString false (Some (TSlice (2 ^ w_ByteSlice) (TLeaf k_Uint8 0))) = OOk.
Proof. vm_compute. repeat split; reflexivity. Qed.
