(* frame_isolation: the register-window discipline of OpCallFunc / OpReturn.
   Every instruction of the model writes registers only strictly above the
   current frame pointer (a register operand r is addressed as fp + r with
   r > 0; r <= 0 is an indirect register, outside the model), a call moves the
   frame pointer up by the stack shift stored after the call instruction, a
   return restores the saved one.  What the code relies on, stated as the
   hypothesis wf_shifts: the stack shifts are not negative.  Then, whatever
   the callee executes, the registers of the caller at or below the shifted
   frame pointer are unchanged when the callee returns, and the caller
   continues with its own frame. *)
From Coq Require Import FMapPositive.
From Verif Require Import GoInt GoBits Facts_alu Facts_limits VmBase Facts_vmexec AluM VmExecM VmAlu_proofs.
Open Scope Z_scope.

Arguments wrap : simpl never.

Definition quad_le (a b : quad) : Prop := q0 a <= q0 b /\ q1 a <= q1 b /\ q2 a <= q2 b /\ q3 a <= q3 b.
Definition quad_nonneg (a : quad) : Prop := 0 <= q0 a /\ 0 <= q1 a /\ 0 <= q2 a /\ 0 <= q3 a.
(* no frame pointer is about to overflow uint32 *)
Definition fp_small (s : state) : Prop :=
  q0 (s_fp s) + 127 < 2 ^ 32 /\ q1 (s_fp s) + 127 < 2 ^ 32 /\ q2 (s_fp s) + 127 < 2 ^ 32 /\ q3 (s_fp s) + 127 < 2 ^ 32.

Lemma quad_le_refl a : quad_le a a. Proof. unfold quad_le; lia. Qed.
Lemma quad_le_trans a b c : quad_le a b -> quad_le b c -> quad_le a c. Proof. unfold quad_le; lia. Qed.

(* the registers at addresses <= B hold the same values in s and s' *)
Definition same_below (B : quad) (s s' : state) : Prop :=
  (forall a, a <= q0 B -> rf_get 0 (s_int s') a = rf_get 0 (s_int s) a) /\
  (forall a, a <= q2 B -> rf_get [] (s_str s') a = rf_get [] (s_str s) a) /\
  (forall a, a <= q3 B -> rf_get GInvalid (s_gen s') a = rf_get GInvalid (s_gen s) a).

Lemma same_below_refl B s : same_below B s s.
Proof. unfold same_below; auto. Qed.
Lemma same_below_trans B s1 s2 s3 : same_below B s1 s2 -> same_below B s2 s3 -> same_below B s1 s3.
Proof.
  intros (a1 & a2 & a3) (b1 & b2 & b3). repeat split; intros a Ha.
  - rewrite b1, a1 by exact Ha. reflexivity.
  - rewrite b2, a2 by exact Ha. reflexivity.
  - rewrite b3, a3 by exact Ha. reflexivity.
Qed.
Lemma same_below_mono B B' s s' : quad_le B B' -> same_below B' s s' -> same_below B s s'.
Proof.
  intros (h0 & _ & h2 & h3) (a1 & a2 & a3). repeat split; intros a Ha; [apply a1|apply a2|apply a3]; lia.
Qed.

(* s' has the frame of s: function, frame pointers, call stack; registers at or below the frame pointer untouched *)
Definition local (s s' : state) : Prop :=
  s_fn s' = s_fn s /\ s_fp s' = s_fp s /\ s_calls s' = s_calls s /\ same_below (s_fp s) s s'.

Lemma local_refl s : local s s.
Proof. unfold local. repeat split; auto. Qed.

Lemma local_set_pc s pc : local s (set_pc s pc).
Proof. unfold local. cbn. repeat split; auto. Qed.

Lemma wr_int_local s r v s' : quad_nonneg (s_fp s) -> wr_int s r v = XOk s' -> local s s'.
Proof.
  intros (H0 & _) H. unfold wr_int in H.
  destruct (Z.ltb_spec 0 r); [|discriminate]. destruct (q0 (s_fp s) + r <? q0 (s_st s)); [|discriminate].
  injection H as <-. unfold local. cbn. repeat split; auto.
  intros a Ha. apply rf_gso; lia.
Qed.
Lemma wr_str_local s r v s' : quad_nonneg (s_fp s) -> wr_str s r v = XOk s' -> local s s'.
Proof.
  intros (_ & _ & H2 & _) H. unfold wr_str in H.
  destruct (Z.ltb_spec 0 r); [|discriminate]. destruct (q2 (s_fp s) + r <? q2 (s_st s)); [|discriminate].
  injection H as <-. unfold local. cbn. repeat split; auto.
  intros a Ha. apply rf_gso; lia.
Qed.
Lemma wr_gen_local s r v s' : quad_nonneg (s_fp s) -> wr_gen s r v = XOk s' -> local s s'.
Proof.
  intros (_ & _ & _ & H3) H. unfold wr_gen in H.
  destruct (Z.ltb_spec 0 r); [|discriminate]. destruct (q3 (s_fp s) + r <? q3 (s_st s)); [|discriminate].
  injection H as <-. unfold local. cbn. repeat split; auto.
  intros a Ha. apply rf_gso; lia.
Qed.

(* peel the reads off a register transfer until the write is reached *)
Ltac peel H :=
  repeat match type of H with
  | xbind ?m _ = XOk _ => let E := fresh "E" in destruct m eqn:E; cbn [xbind] in H; try discriminate H
  | (if ?c then _ else _) = XOk _ => let E := fresh "E" in destruct c eqn:E
  | (match ?m with _ => _ end) = XOk _ => let E := fresh "E" in destruct m eqn:E; try discriminate H
  | (let '(_, _) := ?m in _) = XOk _ => let E := fresh "E" in destruct m eqn:E
  end.

Ltac finish_local H Hfp :=
  first
  [ injection H as <-; first [apply local_refl | apply local_set_pc]
  | exact (wr_int_local _ _ _ _ Hfp H)
  | exact (wr_str_local _ _ _ _ Hfp H)
  | exact (wr_gen_local _ _ _ _ Hfp H)
  | discriminate H ].

Lemma move_local f s i s' : quad_nonneg (s_fp s) -> gen_x_OpMove f s i = XOk s' -> local s s'.
Proof. intros Hfp H. unfold gen_x_OpMove in H. peel H; finish_local H Hfp. Qed.
Lemma load_local f s i s' : quad_nonneg (s_fp s) -> gen_x_OpLoad f s i = XOk s' -> local s s'.
Proof. intros Hfp H. unfold gen_x_OpLoad in H. peel H; finish_local H Hfp. Qed.
Lemma concat_local f s i s' : quad_nonneg (s_fp s) -> gen_x_OpConcat f s i = XOk s' -> local s s'.
Proof. intros Hfp H. unfold gen_x_OpConcat in H. peel H; finish_local H Hfp. Qed.
Lemma len_local f s i s' : quad_nonneg (s_fp s) -> gen_x_OpLen f s i = XOk s' -> local s s'.
Proof. intros Hfp H. unfold gen_x_OpLen in H. peel H; finish_local H Hfp. Qed.
Lemma indexstring_local f s i s' : quad_nonneg (s_fp s) -> gen_x_OpIndexString f s i = XOk s' -> local s s'.
Proof. intros Hfp H. unfold gen_x_OpIndexString in H. peel H; finish_local H Hfp. Qed.
Lemma goto_local f s i s' : quad_nonneg (s_fp s) -> gen_x_OpGoto f s i = XOk s' -> local s s'.
Proof. intros Hfp H. unfold gen_x_OpGoto in H. peel H; finish_local H Hfp. Qed.
Lemma alu_local s i opc s' : quad_nonneg (s_fp s) -> step_alu s i opc = XOk s' -> local s s'.
Proof. intros Hfp H. unfold step_alu in H. peel H; finish_local H Hfp. Qed.
Lemma convert_local f s i opc s' : quad_nonneg (s_fp s) -> step_convert f s i opc = XOk s' -> local s s'.
Proof. intros Hfp H. unfold step_convert in H. peel H; finish_local H Hfp. Qed.
Lemma ifint_local s i s' : quad_nonneg (s_fp s) -> step_ifint s i = XOk s' -> local s s'.
Proof. intros Hfp H. unfold step_ifint in H. peel H; finish_local H Hfp. Qed.
Lemma ifstring_local f s i s' : quad_nonneg (s_fp s) -> step_ifstring f s i = XOk s' -> local s s'.
Proof. intros Hfp H. unfold step_ifstring in H. peel H; finish_local H Hfp. Qed.
Lemma typify_local f s i s' : quad_nonneg (s_fp s) -> step_typify f s i = XOk s' -> local s s'.
Proof. intros Hfp H. unfold step_typify in H. peel H; finish_local H Hfp. Qed.

Lemma of_xres_next s r s' : of_xres s r = SNext s' -> r = XOk s'.
Proof. destruct r; cbn; intros H; try discriminate; injection H as <-; reflexivity. Qed.

(* ---- calls and returns ---- *)

(* what the code relies on: the stack shift stored after a call instruction is not negative *)
Definition wf_shifts (p : program) : Prop :=
  forall fi f pc i off,
    nthZ p fi = Some f -> nthZ (f_body f) pc = Some i -> nthZ (f_body f) (pc + 1) = Some off ->
    Z.abs (i_op i) = gen_OpCallFunc ->
    0 <= i_op off <= 127 /\ 0 <= i_a off <= 127 /\ 0 <= i_b off <= 127 /\ 0 <= i_c off <= 127.

Lemma wrap_u32_id x : 0 <= x < 2 ^ 32 -> wrap U32 x = x.
Proof. intros H. apply wrap_id. unfold in_range, tmin, tmax. cbn. cbn in H. lia. Qed.

Lemma shifted_ge fp off fp' :
  quad_nonneg fp ->
  q0 fp + 127 < 2 ^ 32 /\ q1 fp + 127 < 2 ^ 32 /\ q2 fp + 127 < 2 ^ 32 /\ q3 fp + 127 < 2 ^ 32 ->
  0 <= i_op off <= 127 /\ 0 <= i_a off <= 127 /\ 0 <= i_b off <= 127 /\ 0 <= i_c off <= 127 ->
  shifted fp off = Some fp' ->
  q0 fp' = q0 fp + i_op off /\ q1 fp' = q1 fp + i_a off /\ q2 fp' = q2 fp + i_b off /\ q3 fp' = q3 fp + i_c off.
Proof.
  intros (n0 & n1 & n2 & n3) (s0 & s1 & s2 & s3) (o0 & o1 & o2 & o3) H.
  unfold shifted, gen_x_callfunc_fp0, gen_x_callfunc_fp1, gen_x_callfunc_fp2, gen_x_callfunc_fp3,
    gen_x_callfunc_field0, gen_x_callfunc_field1, gen_x_callfunc_field2, gen_x_callfunc_field3, shift_field in H.
  cbn [obin oconv bin Z.eqb] in H. injection H as <-. cbn [q0 q1 q2 q3].
  rewrite !(wrap_u32_id (i_op off)), !(wrap_u32_id (i_a off)), !(wrap_u32_id (i_b off)), !(wrap_u32_id (i_c off)) by (cbn; lia).
  rewrite !wrap_u32_id by (cbn in *; lia). lia.
Qed.

(* how one step changes the frame *)
Inductive step_kind (s s' : state) : Prop :=
  | SK_local : local s s' -> step_kind s s'
  | SK_call (ret : Z) :
      s_calls s' = mkFr (s_fn s) (s_fp s) ret :: s_calls s -> quad_le (s_fp s) (s_fp s') ->
      s_int s' = s_int s -> s_str s' = s_str s -> s_gen s' = s_gen s -> step_kind s s'
  | SK_ret (fr : frame) :
      s_calls s = fr :: s_calls s' -> s_fp s' = fr_fp fr -> s_fn s' = fr_fn fr -> s_pc s' = fr_pc fr ->
      s_int s' = s_int s -> s_str s' = s_str s -> s_gen s' = s_gen s -> step_kind s s'.

Lemma local_of_set_pc s pc s' : local (set_pc s pc) s' -> local s s'.
Proof. unfold local, same_below. cbn. tauto. Qed.

Lemma step_classify p s s' :
  wf_shifts p -> quad_nonneg (s_fp s) -> fp_small s -> vm_step p s = SNext s' -> step_kind s s'.
Proof.
  intros Hwf Hfp Hsmall H. unfold vm_step in H.
  destruct (cur_func p s) as [f|] eqn:Hf; [|discriminate].
  destruct (nthZ (f_body f) (s_pc s)) as [i|] eqn:Hi; [|discriminate].
  set (s1 := set_pc s (s_pc s + 1)) in *.
  assert (Hfp1 : quad_nonneg (s_fp s1)) by exact Hfp.
  unfold exec_instr in H.
  pose (loc := fun (s2 : state) (L : local s1 s2) => SK_local s s2 (local_of_set_pc s (s_pc s + 1) s2 L)).
  destruct ((i_op i <? 0) && negb (existsb (Z.eqb (Z.abs (i_op i))) gen_x_neg_ops)).
  { destruct gen_x_has_default; [discriminate|]. injection H as <-. apply loc, local_refl. }
  destruct (is_alu_op (Z.abs (i_op i))).
  { apply of_xres_next in H. apply loc. eapply alu_local; [exact Hfp1|exact H]. }
  destruct ((Z.abs (i_op i) =? gen_OpConvertInt) || (Z.abs (i_op i) =? gen_OpConvertUint)).
  { apply of_xres_next in H. apply loc. eapply convert_local; [exact Hfp1|exact H]. }
  destruct (Z.abs (i_op i) =? gen_OpMove).
  { apply of_xres_next in H. apply loc. eapply move_local; [exact Hfp1|exact H]. }
  destruct (Z.abs (i_op i) =? gen_OpIfInt).
  { apply of_xres_next in H. apply loc. eapply ifint_local; [exact Hfp1|exact H]. }
  destruct (Z.abs (i_op i) =? gen_OpIfString).
  { apply of_xres_next in H. apply loc. eapply ifstring_local; [exact Hfp1|exact H]. }
  destruct (Z.abs (i_op i) =? gen_OpIndexString).
  { apply of_xres_next in H. apply loc. eapply indexstring_local; [exact Hfp1|exact H]. }
  destruct (Z.abs (i_op i) =? gen_OpTypify).
  { apply of_xres_next in H. apply loc. eapply typify_local; [exact Hfp1|exact H]. }
  destruct (Z.abs (i_op i) =? gen_OpNone).
  { injection H as <-. apply loc, local_refl. }
  destruct (Z.abs (i_op i) =? gen_OpLoad).
  { apply of_xres_next in H. apply loc. eapply load_local; [exact Hfp1|exact H]. }
  destruct (Z.abs (i_op i) =? gen_OpGoto).
  { apply of_xres_next in H. apply loc. eapply goto_local; [exact Hfp1|exact H]. }
  destruct (Z.abs (i_op i) =? gen_OpConcat).
  { apply of_xres_next in H. apply loc. eapply concat_local; [exact Hfp1|exact H]. }
  destruct (Z.abs (i_op i) =? gen_OpLen).
  { apply of_xres_next in H. apply loc. eapply len_local; [exact Hfp1|exact H]. }
  destruct (Z.abs (i_op i) =? gen_OpCallFunc) eqn:E.
  2: destruct (Z.abs (i_op i) =? gen_OpCallNative).
  3: destruct (Z.abs (i_op i) =? gen_OpReturn); [|discriminate].
  - (* OpCallFunc *)
    unfold step_callfunc in H.
    destruct (nthZ (f_funcs f) (u8 (i_a i))) as [gi|]; [|discriminate].
    destruct (nthZ p gi) as [g|]; [|discriminate].
    destruct (nthZ (f_body f) (s_pc s1)) as [off|] eqn:Hoff; [|discriminate].
    destruct (shifted (s_fp s1) off) as [fp'|] eqn:Hsh; [|discriminate].
    destruct (gen_x_callfunc_retpc (Some (s_pc s1))) as [ret|]; [|discriminate].
    destruct (grown fp' (f_numreg g) (s_st s1)) as [st'|]; [|discriminate].
    injection H as <-.
    assert (Habs : Z.abs (i_op i) = gen_OpCallFunc) by (apply Z.eqb_eq; assumption).
    unfold cur_func in Hf.
    pose proof (Hwf (s_fn s) f (s_pc s) i off Hf Hi Hoff Habs) as Hoffs.
    pose proof (shifted_ge (s_fp s1) off fp' Hfp1 Hsmall Hoffs Hsh) as (g0 & g1 & g2 & g3).
    apply (SK_call s _ ret); cbn; try reflexivity.
    unfold quad_le. cbn in g0, g1, g2, g3. lia.
  - (* OpCallNative: the frame pointers are restored, only the output grows *)
    unfold step_callnative in H.
    destruct (nthZ (f_natives f) (u8 (i_a i))) as [nf|]; [|discriminate].
    destruct (nthZ (f_body f) (s_pc s1)) as [off|]; [|discriminate].
    destruct ((n_code nf =? 1) && n_variadic nf && (n_numin nf =? 1) && (0 <=? i_c i)); [|discriminate].
    destruct (shifted (s_fp s1) off); [|discriminate].
    destruct (read_args _ _ _); try discriminate. injection H as <-.
    apply SK_local. unfold local. cbn. repeat split; auto.
  - (* OpReturn *)
    unfold step_return in H. destruct (s_calls s1) as [|fr rest] eqn:Hc; [discriminate|].
    injection H as <-. apply (SK_ret s _ fr); cbn; auto.
Qed.

(* ---- the callee's run ---- *)

(* steps of the machine during which the call stack never becomes shorter
   than d frames and no frame pointer is about to overflow uint32 *)
Inductive run_above (p : program) (d : nat) : state -> state -> Prop :=
  | ra_refl s : run_above p d s s
  | ra_step s s1 s2 :
      fp_small s -> vm_step p s = SNext s1 -> (d <= length (s_calls s1))%nat ->
      run_above p d s1 s2 -> run_above p d s s2.

(* relative to the frame pointers B and the call stack C of the state s1 in
   which the callee starts: the call stack is C below the callee's own frames,
   every frame pointer involved is at or above B, the registers at or below B
   are those of s1 *)
Definition callee_inv (B : quad) (C : list frame) (s1 s : state) : Prop :=
  exists frs, s_calls s = frs ++ C /\ Forall (fun fr => quad_le B (fr_fp fr)) frs /\
              quad_le B (s_fp s) /\ same_below B s1 s.

Lemma quad_nonneg_le B a : quad_nonneg B -> quad_le B a -> quad_nonneg a.
Proof. unfold quad_nonneg, quad_le. lia. Qed.

Lemma callee_inv_step p B C s1 s s' :
  wf_shifts p -> quad_nonneg B -> callee_inv B C s1 s -> fp_small s ->
  vm_step p s = SNext s' -> (length C <= length (s_calls s'))%nat -> callee_inv B C s1 s'.
Proof.
  intros Hwf HB (frs & Hc & Hfrs & Hfp & Hsame) Hsmall Hstep Hlen.
  destruct (step_classify p s s' Hwf (quad_nonneg_le B _ HB Hfp) Hsmall Hstep)
    as [(Hfn & Hfp' & Hc' & Hs) | ret Hc' Hle Hi Hst Hg | fr Hc' Hfp' Hfn Hpc Hi Hst Hg].
  - exists frs. rewrite Hc', Hfp'. refine (conj Hc (conj Hfrs (conj Hfp _))).
    apply (same_below_trans B s1 s s' Hsame). apply (same_below_mono B (s_fp s)); assumption.
  - exists (mkFr (s_fn s) (s_fp s) ret :: frs). rewrite Hc', Hc. refine (conj eq_refl (conj _ (conj _ _))).
    + constructor; [exact Hfp|exact Hfrs].
    + apply (quad_le_trans B (s_fp s)); assumption.
    + destruct Hsame as (a1 & a2 & a3). unfold same_below. rewrite Hi, Hst, Hg. auto.
  - destruct frs as [|fr0 frs'].
    + (* the callee's own return: excluded, the call stack would be shorter than C *)
      cbn in Hc. rewrite Hc in Hc'. rewrite Hc' in Hlen. cbn in Hlen. lia.
    + cbn in Hc. rewrite Hc in Hc'. injection Hc' as <- Hrest.
      exists frs'. inversion Hfrs as [|? ? Hfr0 Hfrs']; subst. refine (conj (eq_sym Hrest) (conj Hfrs' (conj _ _))).
      * rewrite Hfp'. exact Hfr0.
      * destruct Hsame as (a1 & a2 & a3). unfold same_below. rewrite Hi, Hst, Hg. auto.
Qed.

Lemma callee_inv_run p B C s1 s s' :
  wf_shifts p -> quad_nonneg B -> callee_inv B C s1 s -> run_above p (length C) s s' -> callee_inv B C s1 s'.
Proof.
  intros Hwf HB Hinv Hrun. induction Hrun as [s|s sa sb Hsmall Hstep Hlen Hrun IH]; [exact Hinv|].
  apply IH. exact (callee_inv_step p B C s1 s sa Hwf HB Hinv Hsmall Hstep Hlen).
Qed.

(* the step that makes the call stack shorter than C is the return into the head of C *)
Lemma callee_inv_return p B C s1 s s' :
  wf_shifts p -> quad_nonneg B -> callee_inv B C s1 s -> fp_small s ->
  vm_step p s = SNext s' -> (length (s_calls s') < length C)%nat ->
  exists fr, C = fr :: s_calls s' /\ s_fp s' = fr_fp fr /\ s_fn s' = fr_fn fr /\ s_pc s' = fr_pc fr /\ same_below B s1 s'.
Proof.
  intros Hwf HB (frs & Hc & Hfrs & Hfp & Hsame) Hsmall Hstep Hlen.
  destruct (step_classify p s s' Hwf (quad_nonneg_le B _ HB Hfp) Hsmall Hstep)
    as [(Hfn & Hfp' & Hc' & Hs) | ret Hc' Hle Hi Hst Hg | fr Hc' Hfp' Hfn Hpc Hi Hst Hg].
  - rewrite Hc', Hc, app_length in Hlen. lia.
  - rewrite Hc', Hc in Hlen. cbn in Hlen. rewrite app_length in Hlen. lia.
  - destruct frs as [|fr0 frs'].
    + cbn in Hc. rewrite Hc in Hc'. exists fr. refine (conj Hc' (conj Hfp' (conj Hfn (conj Hpc _)))).
      destruct Hsame as (a1 & a2 & a3). unfold same_below. rewrite Hi, Hst, Hg. auto.
    + cbn in Hc. rewrite Hc in Hc'. injection Hc' as _ Hrest. rewrite <- Hrest, app_length in Hlen. lia.
Qed.

(* OpCallFunc: the frame it pushes *)
Lemma callfunc_step p s0 s1 f i :
  wf_shifts p -> quad_nonneg (s_fp s0) -> fp_small s0 ->
  cur_func p s0 = Some f -> nthZ (f_body f) (s_pc s0) = Some i -> i_op i = gen_OpCallFunc ->
  vm_step p s0 = SNext s1 ->
  exists ret, gen_x_callfunc_retpc (Some (s_pc s0 + 1)) = Some ret /\
    s_calls s1 = mkFr (s_fn s0) (s_fp s0) ret :: s_calls s0 /\ quad_le (s_fp s0) (s_fp s1) /\
    s_int s1 = s_int s0 /\ s_str s1 = s_str s0 /\ s_gen s1 = s_gen s0.
Proof.
  intros Hwf Hfp Hsmall Hf Hi Hop H. unfold vm_step in H. rewrite Hf, Hi in H.
  unfold exec_instr in H. rewrite Hop in H.
  change (Z.abs gen_OpCallFunc) with gen_OpCallFunc in H. change (gen_OpCallFunc <? 0) with false in H. cbn [andb] in H.
  change (is_alu_op gen_OpCallFunc) with false in H.
  change ((gen_OpCallFunc =? gen_OpConvertInt) || (gen_OpCallFunc =? gen_OpConvertUint)) with false in H.
  change (gen_OpCallFunc =? gen_OpMove) with false in H. change (gen_OpCallFunc =? gen_OpIfInt) with false in H.
  change (gen_OpCallFunc =? gen_OpIfString) with false in H. change (gen_OpCallFunc =? gen_OpIndexString) with false in H.
  change (gen_OpCallFunc =? gen_OpTypify) with false in H. change (gen_OpCallFunc =? gen_OpNone) with false in H.
  change (gen_OpCallFunc =? gen_OpLoad) with false in H. change (gen_OpCallFunc =? gen_OpGoto) with false in H.
  change (gen_OpCallFunc =? gen_OpConcat) with false in H. change (gen_OpCallFunc =? gen_OpLen) with false in H.
  change (gen_OpCallFunc =? gen_OpCallFunc) with true in H. cbv iota in H.
  set (sa := set_pc s0 (s_pc s0 + 1)) in *.
  unfold step_callfunc in H.
  destruct (nthZ (f_funcs f) (u8 (i_a i))) as [gi|]; [|discriminate].
  destruct (nthZ p gi) as [g|]; [|discriminate].
  destruct (nthZ (f_body f) (s_pc sa)) as [off|] eqn:Hoff; [|discriminate].
  destruct (shifted (s_fp sa) off) as [fp'|] eqn:Hsh; [|discriminate].
  destruct (gen_x_callfunc_retpc (Some (s_pc sa))) as [ret|] eqn:Hret; [|discriminate].
  destruct (grown fp' (f_numreg g) (s_st sa)) as [st'|]; [|discriminate].
  injection H as <-. exists ret. refine (conj Hret (conj eq_refl (conj _ (conj eq_refl (conj eq_refl eq_refl))))). cbn.
  unfold cur_func in Hf.
  assert (Habs : Z.abs (i_op i) = gen_OpCallFunc) by (rewrite Hop; reflexivity).
  pose proof (Hwf (s_fn s0) f (s_pc s0) i off Hf Hi Hoff Habs) as Hoffs.
  pose proof (shifted_ge (s_fp sa) off fp' Hfp Hsmall Hoffs Hsh) as (g0 & g1 & g2 & g3).
  unfold quad_le. cbn in g0, g1, g2, g3. lia.
Qed.

(* frame_isolation.  s0 executes OpCallFunc and becomes s1; the callee (and
   whatever it calls) runs from s1 to s2 without the call stack dropping below
   that of s1; the next step returns to s3.  Then s3 is the caller's frame
   again (function, frame pointers, call stack, return address), and every
   int, string and general register of the caller at or below the shifted frame
   pointer (the registers 1 .. shift of the caller's window) holds what it held
   when the call was made.  The registers above are the callee's window: the
   results and arguments. *)
Theorem frame_isolation p s0 s1 s2 s3 f i :
  wf_shifts p -> quad_nonneg (s_fp s0) -> fp_small s0 ->
  cur_func p s0 = Some f -> nthZ (f_body f) (s_pc s0) = Some i -> i_op i = gen_OpCallFunc ->
  vm_step p s0 = SNext s1 ->
  run_above p (length (s_calls s1)) s1 s2 ->
  fp_small s2 -> vm_step p s2 = SNext s3 -> (length (s_calls s3) < length (s_calls s1))%nat ->
  s_fn s3 = s_fn s0 /\ s_fp s3 = s_fp s0 /\ s_calls s3 = s_calls s0 /\
  gen_x_callfunc_retpc (Some (s_pc s0 + 1)) = Some (s_pc s3) /\
  same_below (s_fp s1) s0 s3 /\ same_below (s_fp s1) s0 s2.
Proof.
  intros Hwf Hfp Hsmall Hf Hi Hop Hstep Hrun Hsmall2 Hstep2 Hlen.
  destruct (callfunc_step p s0 s1 f i Hwf Hfp Hsmall Hf Hi Hop Hstep) as (ret & Hret & Hc & Hle & Hi1 & Hs1 & Hg1).
  assert (HB : quad_nonneg (s_fp s1)) by exact (quad_nonneg_le _ _ Hfp Hle).
  assert (Hinv1 : callee_inv (s_fp s1) (s_calls s1) s1 s1).
  { exists []. exact (conj eq_refl (conj (Forall_nil _) (conj (quad_le_refl _) (same_below_refl _ _)))). }
  pose proof (callee_inv_run p _ _ s1 s1 s2 Hwf HB Hinv1 Hrun) as Hinv2.
  destruct (callee_inv_return p _ _ s1 s2 s3 Hwf HB Hinv2 Hsmall2 Hstep2 Hlen) as (fr & HC & Hfp3 & Hfn3 & Hpc3 & Hsame3).
  rewrite Hc in HC. injection HC as <- Hrest.
  assert (H01 : forall s, same_below (s_fp s1) s1 s -> same_below (s_fp s1) s0 s).
  { intros s (a1 & a2 & a3). unfold same_below. rewrite <- Hi1, <- Hs1, <- Hg1. auto. }
  cbn in Hfp3, Hfn3, Hpc3. refine (conj Hfn3 (conj Hfp3 (conj (eq_sym Hrest) (conj _ (conj _ _))))).
  - rewrite Hret, Hpc3. reflexivity.
  - apply H01. exact Hsame3.
  - apply H01. destruct Hinv2 as (frs & _ & _ & _ & Hs). exact Hs.
Qed.
