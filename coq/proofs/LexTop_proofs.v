(* Top level consequences of scan_run_safe: the scan neither faults nor runs
   out of fuel; the tokens it emits lie inside the source, in order, without
   overlap. *)
From Verif Require Import Bytes Utf8 Facts_lexer LexBase LexCodeM LexerM LexBase_proofs LexTile_proofs LexCode_proofs Lexer_proofs CutSpec.
Open Scope N_scope.

Lemma scan_done U noshow fmt text :
  exists toks e l, scan_template U noshow fmt text = Done toks e /\ toks = rev (l_out l) /\ INV text l
                   /\ ((e = None /\ out_block l /\ len l = 0) \/ e = Some l).
Proof.
  pose proof (scan_run_safe U noshow text fmt) as H. unfold scan_template.
  destruct (scan_run U noshow fmt text) as [l|l| |]; simpl in H; try contradiction.
  - destruct H as [[Hi Hob] Hl]. exists (rev (l_out l)), None, l. auto 10.
  - exists (rev (l_out l)), (Some l), l. auto.
Qed.

Theorem lexer_no_fault U noshow fmt text : scan_template U noshow fmt text <> Crashed.
Proof. destruct (scan_done U noshow fmt text) as (t & e & l & H & _). congruence. Qed.

Theorem lexer_terminates U noshow fmt text : scan_template U noshow fmt text <> OutOfFuel.
Proof. destruct (scan_done U noshow fmt text) as (t & e & l & H & _). congruence. Qed.

(* the place of a token in a source of n bytes *)
Definition tok_in (n : N) (t : token) : Prop :=
  if t_len t =? 0 then t_end t = t_start t /\ t_start t <= n
  else t_start t <= t_end t /\ t_end t < n /\ t_end t + 1 = t_start t + t_len t.

Lemma outs_ok_in b r : outs_ok b r -> forall t, In t r -> tok_in b t.
Proof.
  induction 1 as [|b b0 t r Hr IH Ht Hb]; intros t' Hin; [contradiction|].
  assert (Hmono : forall t0, tok_in b0 t0 -> tok_in b t0).
  { intros t0. unfold tok_in. destruct (t_len t0 =? 0); lia. }
  destruct Hin as [<-|Hin]; [|apply Hmono, IH, Hin].
  unfold tok_at in Ht. unfold tok_in. destruct (N.eqb_spec (t_len t) 0) as [Hz|Hz].
  - destruct Ht as [H1 [H2|[_ H2]]]; split; auto; lia.
  - lia.
Qed.

(* tokens in emission order: each one starts after the previous ones end *)
Inductive toks_sorted : N -> list token -> Prop :=
| ts_nil b : toks_sorted b []
| ts_cons b t r : b <= t_start t + (if (t_len t =? 0) && (t_typ t =? gen_tokenSemicolon) then 1 else 0) ->
                  toks_sorted (t_start t + t_len t) r -> toks_sorted b (t :: r).

Lemma toks_sorted_weaken b b' r : toks_sorted b r -> b' <= b -> toks_sorted b' r.
Proof. intros H Hb. inversion H; subst; constructor; auto; lia. Qed.

Lemma toks_sorted_app b r t :
  toks_sorted b r -> (forall t0, In t0 r -> t_start t0 + t_len t0 <= t_start t + (if (t_len t =? 0) && (t_typ t =? gen_tokenSemicolon) then 1 else 0)) ->
  b <= t_start t + (if (t_len t =? 0) && (t_typ t =? gen_tokenSemicolon) then 1 else 0) ->
  toks_sorted b (r ++ [t]).
Proof.
  intros H. induction H as [b|b t0 r H0 H1 IH]; intros Hall Hb; simpl.
  - constructor; [exact Hb|constructor].
  - constructor; [exact H0|]. apply IH; [intros t1 Ht1; apply Hall; right; exact Ht1|apply Hall; left; reflexivity].
Qed.

Lemma outs_ok_sorted b r : outs_ok b r -> toks_sorted 0 (rev r) /\ (forall t, In t r -> t_start t + t_len t <= b).
Proof.
  induction 1 as [|b b0 t r Hr [IH1 IH2] Ht Hb]; [split; [constructor|contradiction]|].
  assert (Hst : b0 <= t_start t + (if (t_len t =? 0) && (t_typ t =? gen_tokenSemicolon) then 1 else 0)).
  { unfold tok_at in Ht. destruct (N.eqb_spec (t_len t) 0) as [Hz|Hz]; simpl.
    - destruct Ht as [_ [H2|[H2 H3]]]; [destruct (t_typ t =? gen_tokenSemicolon); lia|].
      rewrite H2. simpl. lia.
    - lia. }
  split.
  - simpl. apply toks_sorted_app; [exact IH1| |lia].
    intros t0 Ht0. apply in_rev in Ht0. specialize (IH2 t0 Ht0). lia.
  - intros t0 [<-|Ht0]; [|specialize (IH2 t0 Ht0); lia].
    unfold tok_at in Ht. destruct (N.eqb_spec (t_len t) 0) as [Hz|Hz]; [|lia].
    destruct Ht as [_ [H2|[_ H2]]]; lia.
Qed.

Theorem token_offsets U noshow fmt text toks e :
  scan_template U noshow fmt text = Done toks e -> forall t, In t toks -> tok_in (nlen text) t.
Proof.
  intros H t Ht. destruct (scan_done U noshow fmt text) as (toks' & e' & l & H' & -> & [Hw [Ho _]] & _).
  rewrite H in H'. injection H' as -> _. apply in_rev in Ht.
  pose proof (outs_ok_in _ _ Ho t Ht) as Hin. pose proof (wf_len _ _ Hw).
  unfold tok_in in *. destruct (t_len t =? 0); lia.
Qed.

Theorem tokens_in_order U noshow fmt text toks e :
  scan_template U noshow fmt text = Done toks e -> toks_sorted 0 toks.
Proof.
  intros H. destruct (scan_done U noshow fmt text) as (toks' & e' & l & H' & -> & [Hw [Ho _]] & _).
  rewrite H in H'. injection H' as -> _. apply outs_ok_sorted in Ho. apply Ho.
Qed.

(* the offset of a lexer error lies in the source *)
Theorem error_offset U noshow fmt text toks l :
  scan_template U noshow fmt text = Done toks (Some l) -> l_base l <= nlen text.
Proof.
  intros H. destruct (scan_done U noshow fmt text) as (toks' & e' & l' & H' & _ & [Hw Ho] & [[He _]|He]).
  - rewrite H in H'. congruence.
  - rewrite H in H'. assert (l = l') by congruence. subst. pose proof (wf_len _ _ Hw). lia.
Qed.

(* ---- text_partition ---- *)
Lemma fold_tstep_none toks : fold_left tstep toks None = None.
Proof. induction toks; simpl; auto. Qed.

Lemma tiles_fold toks : forall pos inb,
  tiles pos inb toks = match fold_left tstep toks (Some (pos, inb)) with Some (p, false) => Some p | _ => None end.
Proof.
  induction toks as [|t r IH]; intros pos inb; simpl; [destruct inb; reflexivity|].
  destruct (t_len t =? 0); [apply IH|].
  destruct inb.
  - destruct (is_close (t_typ t)); apply IH.
  - destruct (is_open (t_typ t)); (destruct (t_start t =? pos); [apply IH|rewrite fold_tstep_none; reflexivity]).
Qed.

Theorem text_partition_holds U noshow fmt text toks :
  scan_template U noshow fmt text = Done toks None -> tiles 0 false toks = Some (nlen text).
Proof.
  intros H. destruct (scan_done U noshow fmt text) as (toks' & e' & l & H' & -> & Hi & [(He & [q Hq] & Hl)|He]).
  2:{ rewrite H in H'. congruence. }
  rewrite H in H'. injection H' as -> _.
  rewrite tiles_fold. unfold tfoldr in Hq. rewrite <- fold_left_rev_right, rev_involutive. 
  change (fold_right (fun (y : token) (x : option (N * bool)) => tstep x y) (Some (0, false)) (l_out l)) with (tfoldr (l_out l)).
  unfold tfoldr. rewrite Hq.
  destruct Hi as (Hw & _ & (q0 & inb & Hf & Hqb)). unfold tfoldr in Hf. rewrite Hq in Hf. injection Hf as <- <-.
  rewrite (Hqb eq_refl). pose proof (wf_len _ _ Hw). f_equal. lia.
Qed.
