(* The theorems about the whole scanner model and the whole pipeline
   (collectReplacements, replace), for all documents and every decision
   function.  props/C29.v states them and closes them with `exact`. *)
From Verif Require Import Bytes IndexM Facts_linkscan LinkDestM LinkDestSpec LinkDestSpec_proofs LinkDest_proofs
  LinkScanM LinkScan_base LinkScan_parse LinkScan_inline LinkScan_loops LinkScan_lines.
From Coq Require Import Lia ZArith List.
Local Open Scope Z_scope.

(* ---------------- chain_in gives what applyReplacements needs ---------------- *)

Lemma sorted_from_le l : forall lo lo', sorted_from lo l -> (lo' <= lo)%Z -> sorted_from lo' l.
Proof. destruct l as [|r l]; intros lo lo' H Hl; cbn [sorted_from] in *; [exact I|]. destruct H as [H1 H2]. split; [lia|exact H2]. Qed.

Lemma chain_in_props src hi : hi <= zlen src -> forall rs p, 0 <= p -> chain_in p rs hi ->
  Forall (valid src) rs /\ chain p rs /\ sorted_from p rs.
Proof.
  intros Hhi. induction rs as [|r rs IH]; intros p Hp H; cbn [chain_in] in H.
  - split; [constructor|]. split; exact I.
  - destruct H as (H1 & H2 & H3). pose proof (chain_in_le _ _ _ H3) as Hle.
    destruct (IH (r_stop r) ltac:(lia) H3) as (Hv & Hc & Hs). split; [|split].
    + constructor; [|exact Hv]. unfold valid. lia.
    + cbn [chain]. split; [exact H1|exact Hc].
    + cbn [sorted_from]. split; [exact H1|]. eapply sorted_from_le; [exact Hs|lia].
Qed.

Section WithDecide.
  Variable decide : bytes -> option bytes.

  (* ---------------- (a) the ranges the scanner produces ---------------- *)

  (* collectReplacements never faults, never runs out of fuel, and its ranges
     are non empty, inside the document, increasing and non overlapping *)
  Theorem scan_ranges_valid src :
    exists rs, collectReplacements decide src = LOk rs /\ chain_in 0 rs (zlen src)
      /\ Forall (valid src) rs /\ chain 0 rs /\ sorted_from 0 rs
      /\ Forall (fun r => r_start r < r_stop r) rs.
  Proof.
    destruct (collect_runs decide src) as (st' & tr & E & Hr).
    destruct (lruns_inv decide src _ _ _ _ Hr ltac:(lia)) as (added & Eacc & Hchain & _).
    pose proof (zlen_nonneg src) as Hn.
    assert (Hc : chain_in 0 (l_acc st') (zlen src)) by (apply (Hchain 0 0); cbn; lia).
    exists (l_acc st'). split; [exact E|]. split; [exact Hc|].
    destruct (chain_in_props src (zlen src) ltac:(lia) _ 0 ltac:(lia) Hc) as (Hv & Hch & Hs).
    split; [exact Hv|]. split; [exact Hch|]. split; [exact Hs|].
    clear - Hc. revert Hc. generalize 0. induction (l_acc st') as [|r rs IH]; intros p H; [constructor|].
    cbn [chain_in] in H. destruct H as (_ & H2 & H3). constructor; [exact H2|eapply IH; exact H3].
  Qed.

  (* ---------------- (b) the whole pipeline ---------------- *)

  (* replace never faults; its output is the untouched segments of the source in
     order, interleaved with the replacement texts, where the source has the
     scanned ranges: every byte outside the ranges is unchanged and in place *)
  Theorem pipeline_outside_unchanged src :
    exists rs out first rest_out rest_src,
      collectReplacements decide src = LOk rs /\ replace decide src = LOk out
      /\ out = weave first rest_out /\ src = weave first rest_src
      /\ map snd rest_out = map snd rest_src
      /\ map fst rest_out = map r_text rs
      /\ map fst rest_src = map (range src) rs.
  Proof.
    destruct (scan_ranges_valid src) as (rs & E & _ & Hv & Hch & Hs & _).
    unfold replace. rewrite E. cbn [lbind].
    destruct rs as [|r rs'] eqn:Ers.
    - exists [], src, src, [], []. cbn [applyReplacements]. unfold weave. cbn [flat_map map]. rewrite app_nil_r.
      repeat split; reflexivity.
    - rewrite <- Ers in *. assert (Ea : applyReplacements src rs = apply_loop src 0 rs []).
      { unfold applyReplacements. rewrite Ers. rewrite <- Ers. rewrite (sort_sorted rs 0 Hs). reflexivity. }
      destruct (apply_outside_unchanged src rs Hv) as (f & ro & rsrc & E1 & E2 & E3 & E4 & E5).
      rewrite (kept_chain rs 0 Hch) in E4, E5.
      exists rs, (weave f ro), f, ro, rsrc. rewrite Ea, E1.
      split; [reflexivity|]. split; [reflexivity|]. split; [reflexivity|]. split; [exact E2|].
      split; [exact E3|]. split; [exact E4|exact E5].
  Qed.

  (* ---------------- the segments of a line ---------------- *)

  Lemma iruns_segments line src ls : 0 <= ls -> forall st tr st', iruns decide line src ls st tr st' ->
    0 <= i_pos st <= zlen line -> 0 <= i_code st ->
    forall added, i_acc st' = i_acc st ++ added ->
    forall r, In r added -> forall stk cls nxt, In (stk, cls, nxt) tr -> ls + i_pos stk <= r_start r < ls + nxt ->
      cls = ILink /\ in_code stk = false /\ inHTML (i_html stk) = false /\ inline_origin decide line src ls (i_pos stk) r.
  Proof.
    intros Hls. induction 1 as [st Hge|st st' cls Hlt E|st st1 cls tr st' Hlt E Hr IH]; intros Hp Hc added Eadd r Hin stk c nxt Hen Hpos.
    - destruct Hen.
    - destruct (inline_step_ok decide line src ls st ltac:(lia) Hls Hc) as (r0 & cls' & E' & Hsc & Hpost).
      rewrite E in E'. injection E' as <- <-. destruct Hpost as (_ & Hacc & _).
      rewrite Hacc in Eadd. rewrite <- (app_nil_r (i_acc st)) in Eadd at 1. apply app_inv_head in Eadd. subst added. destruct Hin.
    - destruct (inline_step_ok decide line src ls st ltac:(lia) Hls Hc) as (r0 & cls' & E' & Hsc & Hpost).
      rewrite E in E'. injection E' as <- <-. destruct Hpost as (Hp1 & Hc1 & Hlink & Hother).
      destruct (iruns_inv decide line src ls Hls _ _ _ Hr ltac:(lia) Hc1) as (added1 & Eacc1 & _ & _ & Hlow1 & Hseg1).
      rewrite Forall_forall in Hlow1, Hseg1.
      (* the entries of the tail start at or after the new position *)
      assert (Htail : forall sk ck nk, In (sk, ck, nk) tr -> i_pos st1 <= i_pos sk).
      { intros sk ck nk Hk. specialize (Hseg1 _ Hk). cbn in Hseg1. lia. }
      (* what this iteration appended *)
      assert (Hnew : exists new, i_acc st1 = i_acc st ++ new
                /\ forall x, In x new -> cls = ILink /\ in_code st = false /\ inHTML (i_html st) = false
                      /\ inline_origin decide line src ls (i_pos st) x /\ r_stop x < ls + i_pos st1
                      /\ ls + i_pos st <= r_start x).
      { destruct (iclass_eq_dec cls ILink) as [->|Hne].
        - destruct Hsc as (_ & _ & _ & Hplain). destruct (Hplain eq_refl) as [Hnc Hnh].
          destruct (Hlink eq_refl) as (Hrb & Hl1 & Hlp & _ & s & e & H1 & H2 & H3 & H4 & H5 & Hacc).
          destruct Hacc as [Hacc|(t & Hse & Hd & Hsrc & Hacc)].
          + exists []. rewrite app_nil_r. split; [exact Hacc|]. intros x [].
          + exists [mkRepl (ls + s) (ls + e) t]. split; [exact Hacc|]. intros x [<-|[]]. cbn [r_start r_stop].
            split; [reflexivity|]. split; [exact Hnc|]. split; [exact Hnh|]. split; [|lia].
            exists s, e. cbn [r_start r_stop r_text]. split; [lia|]. split; [exact Hrb|]. split; [exact Hl1|]. split; [exact Hlp|].
            split; [lia|]. split; [exact Hse|]. split; [apply H5; exact Hse|]. split; [reflexivity|]. split; [reflexivity|].
            split; [exact Hsrc|exact Hd].
        - exists []. rewrite app_nil_r. split; [exact (Hother Hne)|]. intros x []. }
      destruct Hnew as (new & Enew & Hnewp).
      assert (Eall : added = new ++ added1).
      { rewrite Eacc1, Enew, <- app_assoc in Eadd. apply app_inv_head in Eadd. symmetry. exact Eadd. }
      subst added. apply in_app_or in Hin. destruct Hin as [Hin|Hin].
      + destruct (Hnewp _ Hin) as (Hcl & Hnc & Hnh & Ho & Hstop & Hst).
        assert (Hrr : r_start r < r_stop r).
        { destruct Ho as (s & e & _ & _ & _ & _ & _ & Hse & _ & Hrs & Hre & _). lia. }
        destruct Hen as [Hen|Hen].
        * injection Hen as <- <- <-. split; [exact Hcl|]. split; [exact Hnc|]. split; [exact Hnh|exact Ho].
        * specialize (Htail _ _ _ Hen). lia.
      + specialize (Hlow1 _ Hin). cbn beta in Hlow1. destruct Hen as [Hen|Hen].
        * injection Hen as <- <- <-. lia.
        * eapply (IH ltac:(lia) Hc1 added1 Eacc1 r Hin); eassumption.
  Qed.

  (* ---------------- (c) and (d): where every range comes from ---------------- *)

  (* [ls, le) is a line of src *)
  Definition is_line (src : bytes) (ls le : Z) : Prop :=
    0 <= ls /\ ls <= le <= zlen src /\ (ls = 0 \/ bt src (ls - 1) = b_nl)
    /\ (le < zlen src -> bt src le = b_nl) /\ (forall k, ls <= k < le -> bt src k <> b_nl).

  Lemma lruns_lines src : forall ls st tr st', lruns decide src ls st tr st' -> 0 <= ls ->
    (ls = 0 \/ bt src (ls - 1) = b_nl) ->
    Forall (fun en => let '(a, b, _, _) := en in is_line src a b) tr.
  Proof.
    induction 1 as [ls st Hgt|ls le st st1 cls tr st' Hle E E2 Hr IH]; intros Hls Hst; [constructor|].
    destruct (line_end_ok src ls ltac:(lia)) as (le' & E' & Hb & Hnl & Hnonl). rewrite E in E'. injection E' as <-.
    constructor.
    - split; [lia|]. split; [lia|]. split; [exact Hst|]. split; [exact Hnl|exact Hnonl].
    - destruct (Z.eq_dec le (zlen src)) as [Heq|Hne].
      + inversion Hr; subst; [constructor|lia].
      + apply IH; [lia|]. right. replace (le + 1 - 1) with le by lia. apply Hnl. lia.
  Qed.

  (* what is known about the line entry that contains the start of a range *)
  Definition good_entry (src : bytes) (en : Z * Z * lstate * lclass) (r : repl) : Prop :=
    let '(a, b, stk, cls) := en in
    r_stop r <= b /\ l_inFence stk = false
    /\ ((cls = CRefDef /\ inHTML (l_html stk) = false /\ refdef_origin decide (sub src a b) src a r)
        \/ (cls = CInline
            /\ exists itr sti, iruns decide (sub src a b) src a (mkI 0 [] 0 (l_html stk) (l_acc stk)) itr sti
                 /\ forall sk c nxt, In (sk, c, nxt) itr -> a + i_pos sk <= r_start r < a + nxt ->
                      c = ILink /\ in_code sk = false /\ inHTML (i_html sk) = false
                      /\ inline_origin decide (sub src a b) src a (i_pos sk) r)).

  Lemma lruns_segments src : forall ls st tr st', lruns decide src ls st tr st' -> 0 <= ls ->
    forall added, l_acc st' = l_acc st ++ added ->
    forall r, In r added ->
      (exists en, In en tr /\ (let '(a, b, _, _) := en in a <= r_start r <= b))
      /\ forall en, In en tr -> (let '(a, b, _, _) := en in a <= r_start r <= b) -> good_entry src en r.
  Proof.
    induction 1 as [ls st Hgt|ls le st st1 cls tr st' Hle E E2 Hr IH]; intros Hls added Eadd r Hin.
    - rewrite <- (app_nil_r (l_acc st)) in Eadd at 1. apply app_inv_head in Eadd. subst added. destruct Hin.
    - destruct (line_end_ok src ls ltac:(lia)) as (le' & E' & Hb & Hnl & Hnonl). rewrite E in E'. injection E' as <-.
      destruct (line_step_ok decide src (sub src ls le) ls st Hls) as (st1' & cls' & E2' & Hpost).
      rewrite E2 in E2'. injection E2' as <- <-.
      destruct (lruns_inv decide src _ _ _ _ Hr ltac:(lia)) as (added1 & Eacc1 & _ & _ & Hlow1 & Hseg1).
      rewrite Forall_forall in Hlow1, Hseg1.
      assert (Htail : forall a b sk ck, In (a, b, sk, ck) tr -> le + 1 <= a).
      { intros a b sk ck Hk. specialize (Hseg1 _ Hk). cbn in Hseg1. lia. }
      assert (Hlen : zlen (sub src ls le) = le - ls) by (apply zlen_sub; lia).
      destruct Hpost as (Pf & Pf' & Pskip & Phtml & Pref & Pin).
      assert (Hnofence : cls = CRefDef \/ cls = CInline -> l_inFence st = false).
      { intros Hc. destruct (l_inFence st) eqn:Ef; [|reflexivity]. destruct (Pf eq_refl) as [Hx|Hx]; rewrite Hx in Hc; destruct Hc; discriminate. }
      (* what this line appended *)
      assert (Hnew : exists new, l_acc st1 = l_acc st ++ new
                /\ forall x, In x new -> ls <= r_start x /\ r_start x < r_stop x /\ good_entry src (ls, le, st, cls) x).
      { destruct (lclass_eq_dec cls CRefDef) as [->|Hnr].
        - destruct (Pref eq_refl) as (_ & [Hacc|(r0 & Ho & Hacc)]).
          + exists []. rewrite app_nil_r. split; [exact Hacc|]. intros x [].
          + exists [r0]. split; [exact Hacc|]. intros x [<-|[]].
            pose proof Ho as (s & e & H1 & H2 & Hsh & Hrs & Hre & Hsrc & Hd).
            assert (He : e <= le - ls).
            { destruct Hsh as (p0 & lb & _ & _ & _ & _ & _ & _ & Hds). destruct Hds as (p & _ & _ & _ & _ & Hds).
              destruct Hds as [Hds|Hds]; destruct Hds as (_ & _ & Hx & _); lia. }
            split; [lia|]. split; [lia|]. cbn. split; [lia|]. split; [apply Hnofence; left; reflexivity|].
            left. split; [reflexivity|]. split; [apply Phtml; auto|exact Ho].
        - destruct (lclass_eq_dec cls CInline) as [->|Hni].
          + destruct (Pin eq_refl) as (itr & sti & Hir & Hacc & _).
            destruct (iruns_inv decide (sub src ls le) src ls Hls _ _ _ Hir) as (iadded & Eia & _ & Hiorig & Hilow & Hisegs);
              cbn [i_pos i_code]; [lia|lia|]. cbn [i_acc i_pos] in *.
            exists iadded. split; [rewrite Hacc; exact Eia|]. intros x Hx.
            rewrite Forall_forall in Hiorig, Hilow, Hisegs.
            destruct (Hiorig _ Hx) as (sk0 & nx0 & Hin0 & _ & _ & Ho0 & Hstop0).
            specialize (Hisegs _ Hin0). cbn in Hisegs. specialize (Hilow _ Hx). cbn beta in Hilow.
            assert (Hxx : r_start x < r_stop x).
            { destruct Ho0 as (s & e & _ & _ & _ & _ & _ & Hse & _ & Hrs & Hre & _). lia. }
            split; [lia|]. split; [exact Hxx|]. cbn. split; [lia|]. split; [apply Hnofence; right; reflexivity|].
            right. split; [reflexivity|]. exists itr, sti. split; [exact Hir|].
            intros sk c nxt Hk Hpos.
            apply (iruns_segments (sub src ls le) src ls Hls _ _ _ Hir ltac:(cbn [i_pos]; lia) ltac:(cbn [i_code]; lia) iadded Eia x Hx sk c nxt Hk Hpos).
          + exists []. rewrite app_nil_r. split; [|intros x []]. destruct cls; try congruence; apply Pskip; auto. }
      destruct Hnew as (new & Enew & Hnewp).
      assert (Eall : added = new ++ added1).
      { rewrite Eacc1, Enew, <- app_assoc in Eadd. apply app_inv_head in Eadd. symmetry. exact Eadd. }
      subst added. apply in_app_or in Hin. destruct Hin as [Hin|Hin].
      + destruct (Hnewp _ Hin) as (Hlo & Hrr & Hgood). pose proof Hgood as Hg. cbn in Hg. destruct Hg as (Hstop & _).
        split.
        * exists (ls, le, st, cls). split; [left; reflexivity|]. lia.
        * intros en [<-|Hen] Hpos; [exact Hgood|]. destruct en as [[[a b] sk] ck]. specialize (Htail _ _ _ _ Hen). lia.
      + specialize (Hlow1 _ Hin). cbn beta in Hlow1.
        destruct (IH ltac:(lia) added1 Eacc1 r Hin) as (Hex & Hall). split.
        * destruct Hex as (en & Hen & Hp). exists en. split; [right; exact Hen|exact Hp].
        * intros en [<-|Hen] Hpos; [lia|]. apply Hall; assumption.
  Qed.

  (* (c) by the scanner's own grammar every range is the destination part of an
     inline `](` ... `)` construct or of a reference definition `[..]:` on one line *)
  Theorem ranges_are_destinations_by_syntax src :
    exists rs, collectReplacements decide src = LOk rs
      /\ Forall (fun r => exists ls le, is_line src ls le /\ ls <= r_start r /\ r_stop r <= le
                   /\ (refdef_origin decide (sub src ls le) src ls r
                       \/ exists i, inline_origin decide (sub src ls le) src ls i r)) rs.
  Proof.
    destruct (collect_runs decide src) as (st' & tr & E & Hr).
    exists (l_acc st'). split; [exact E|].
    pose proof (lruns_lines src _ _ _ _ Hr ltac:(lia) ltac:(left; reflexivity)) as Hlines.
    rewrite Forall_forall in Hlines.
    destruct (lruns_inv decide src _ _ _ _ Hr ltac:(lia)) as (added & Eacc & _ & Horig & _).
    cbn [l_acc l_init app] in Eacc. rewrite Eacc. eapply Forall_impl; [|exact Horig].
    intros r (a & b & stk & cls & Hin & Hs & He & _ & Ho). specialize (Hlines _ Hin). cbn in Hlines.
    exists a, b. split; [exact Hlines|]. split; [exact Hs|]. split; [exact He|].
    destruct Ho as [(_ & _ & Ho)|(_ & itr & sti & sk & nxt & _ & _ & _ & _ & Ho & _)]; [left; exact Ho|right; exists (i_pos sk); exact Ho].
  Qed.

  (* the line entries cover the document *)
  Lemma lruns_cover src : forall ls st tr st', lruns decide src ls st tr st' -> 0 <= ls ->
    forall k, ls <= k <= zlen src -> exists en, In en tr /\ (let '(a, b, _, _) := en in a <= k <= b).
  Proof.
    induction 1 as [ls st Hgt|ls le st st1 cls tr st' Hle E E2 Hr IH]; intros Hls k Hk; [lia|].
    destruct (line_end_ok src ls ltac:(lia)) as (le' & E' & Hb & _). rewrite E in E'. injection E' as <-.
    destruct (Z.le_gt_cases k le).
    - exists (ls, le, st, cls). split; [left; reflexivity|]. lia.
    - destruct (IH ltac:(lia) k ltac:(lia)) as (en & Hen & Hp). exists en. split; [right; exact Hen|exact Hp].
  Qed.

  (* (d) the run of the block state machine: consecutive lines that cover the
     document, each with the state before it and its class; the line that
     contains the start of a range is a reference definition or an inline line
     outside fenced code (and outside HTML for a definition), the range ends on
     that line, and on an inline line the iteration whose segment contains the
     start of the range is of class ILink in the plain state (not in a code
     span, not after an unclosed comment, not in a raw text element, tag stack empty) *)
  Theorem no_range_in_fence src :
    exists st' tr, collectReplacements decide src = LOk (l_acc st') /\ lruns decide src 0 l_init tr st'
      /\ Forall (fun en => let '(a, b, _, _) := en in is_line src a b) tr
      /\ (forall k, 0 <= k <= zlen src -> exists en, In en tr /\ (let '(a, b, _, _) := en in a <= k <= b))
      /\ (forall r, In r (l_acc st') -> forall en, In en tr -> (let '(a, b, _, _) := en in a <= r_start r <= b) ->
            good_entry src en r)
      /\ (forall r, In r (l_acc st') -> forall a b stk cls, In (a, b, stk, cls) tr ->
            l_inFence stk = true \/ cls = CFenceBody \/ cls = CFenceClose \/ cls = CFenceOpen \/ cls = CIndented ->
            ~ (a <= r_start r <= b)).
  Proof.
    destruct (collect_runs decide src) as (st' & tr & E & Hr).
    exists st', tr. split; [exact E|]. split; [exact Hr|].
    split; [exact (lruns_lines src _ _ _ _ Hr ltac:(lia) ltac:(left; reflexivity))|].
    split; [exact (lruns_cover src _ _ _ _ Hr ltac:(lia))|].
    assert (Hgood : forall r, In r (l_acc st') -> forall en, In en tr -> (let '(a, b, _, _) := en in a <= r_start r <= b) ->
              good_entry src en r).
    { intros r Hin. exact (proj2 (lruns_segments src _ _ _ _ Hr ltac:(lia) (l_acc st') eq_refl r Hin)). }
    split; [exact Hgood|].
    intros r Hin a b stk cls Hen Hbad Hpos. specialize (Hgood r Hin _ Hen Hpos). cbn in Hgood.
    destruct Hgood as (_ & Hnf & Hc).
    destruct Hbad as [Hb|Hb]; [congruence|].
    destruct Hc as [(Hc & _)|(Hc & _)]; subst cls; repeat (destruct Hb as [Hb|Hb]; try discriminate Hb); discriminate Hb.
  Qed.
End WithDecide.
