(* C29, specification side: url_unescape undoes url_escape (except for the
   NBSP pair), and unescaped strings contain no NBSP pair.  No generated table. *)
From Verif Require Import Bytes LinkDestSpec.
Open Scope N_scope.

Lemma esc_92 : url_escapable 92 = true. Proof. reflexivity. Qed.

Lemma url_unescape_two c d r :
  url_unescape (c :: d :: r) =
  if (c =? 92) && url_escapable d then d :: url_unescape r
  else if (c =? 194) && (d =? 160) then 32 :: url_unescape r
  else c :: url_unescape (d :: r).
Proof. reflexivity. Qed.

Lemma url_escape_head d r : exists t, url_escape (d :: r) = d :: t.
Proof.
  cbn [url_escape]. destruct (N.eqb_spec d 92) as [->|Hd]; [|eauto].
  destruct r as [|e r']; [eauto|]. destruct (url_escapable e); eauto.
Qed.

(* unescape (escape s) = s when s has no C2 A0 pair *)
Theorem url_roundtrip s : no_nbsp s = true -> url_unescape (url_escape s) = s.
Proof.
  induction s as [|c r IH]; intros Hn; [reflexivity|].
  assert (Hr : no_nbsp r = true).
  { cbn [no_nbsp] in Hn. destruct r; [reflexivity|]. apply andb_prop in Hn. apply Hn. }
  specialize (IH Hr). cbn [url_escape].
  destruct (N.eqb_spec c 92) as [->|Hc].
  - destruct r as [|d r'].
    + reflexivity.
    + destruct (url_escapable d) eqn:Ed.
      * destruct (url_escape_head d r') as [t Et]. rewrite Et in *.
        rewrite url_unescape_two. cbn [N.eqb Pos.eqb andb]. rewrite esc_92. rewrite IH. reflexivity.
      * destruct (url_escape_head d r') as [t Et]. rewrite Et in *.
        rewrite url_unescape_two. cbn [N.eqb Pos.eqb andb]. rewrite Ed. cbn [andb].
        rewrite IH. reflexivity.
  - apply N.eqb_neq in Hc. destruct r as [|d r'].
    + reflexivity.
    + destruct (url_escape_head d r') as [t Et]. rewrite Et in *.
      rewrite url_unescape_two, Hc. cbn [andb].
      cbn [no_nbsp] in Hn. apply andb_prop in Hn. destruct Hn as [Hn _]. apply negb_true_iff in Hn.
      rewrite Hn. rewrite IH. reflexivity.
Qed.

(* with the NBSP pair the round trip fails: unescaping turns it into a space *)
Theorem url_roundtrip_nbsp_refuted : exists s, url_unescape (url_escape s) <> s.
Proof. exists [194; 160]. vm_compute. discriminate. Qed.

(* url_escape does not create or destroy NBSP pairs *)
Lemma no_nbsp_cons c r : no_nbsp (c :: r) = match r with d :: _ => negb ((c =? 194) && (d =? 160)) && no_nbsp r | [] => true end.
Proof. reflexivity. Qed.

(* an unescaped string never contains the NBSP pair *)
Lemma url_unescape_head_not_160 : forall s, match url_unescape s with d :: _ => d = 160 -> exists r, s = 160 :: r | [] => True end.
Proof.
  intros s. destruct s as [|c r]; [exact I|]. destruct r as [|d r'].
  - cbn. intros ->. eauto.
  - rewrite url_unescape_two. destruct ((c =? 92) && url_escapable d) eqn:E1.
    + intros ->. apply andb_prop in E1. destruct E1 as [_ E1]. vm_compute in E1. discriminate.
    + destruct ((c =? 194) && (d =? 160)); [discriminate|]. intros ->. eauto.
Qed.

Theorem url_unescape_no_nbsp : forall n s, (length s <= n)%nat -> no_nbsp (url_unescape s) = true.
Proof.
  induction n as [|n IH]; intros s Hl.
  - destruct s; [reflexivity|simpl in Hl; lia].
  - destruct s as [|c r]; [reflexivity|]. destruct r as [|d r']; [reflexivity|].
    rewrite url_unescape_two.
    assert (Hr' : no_nbsp (url_unescape r') = true) by (apply IH; simpl in Hl |- *; lia).
    assert (Hdr : no_nbsp (url_unescape (d :: r')) = true) by (apply IH; simpl in Hl |- *; lia).
    destruct ((c =? 92) && url_escapable d) eqn:E1.
    + rewrite no_nbsp_cons. destruct (url_unescape r') eqn:Er; [reflexivity|].
      rewrite Hr'. apply andb_prop in E1. destruct E1 as [_ E1].
      destruct (N.eqb_spec d 194) as [->|]; [vm_compute in E1; discriminate|]. reflexivity.
    + destruct ((c =? 194) && (d =? 160)) eqn:E2.
      * rewrite no_nbsp_cons. destruct (url_unescape r'); [reflexivity|]. rewrite Hr'. reflexivity.
      * rewrite no_nbsp_cons. pose proof (url_unescape_head_not_160 (d :: r')) as Hh.
        destruct (url_unescape (d :: r')) as [|e t]; [reflexivity|]. rewrite Hdr.
        destruct (N.eqb_spec c 194) as [->|]; [|reflexivity].
        destruct (N.eqb_spec e 160) as [->|]; [|reflexivity].
        destruct (Hh eq_refl) as [r0 E]. injection E as -> _. cbn in E2. discriminate.
Qed.

(* ---- the decision of appendReplacement: a second pass skips what the first wrote ---- *)
Section Idempotent.
  Variable url : Type.
  Variable parse : bytes -> option url.
  Variable scheme host path : url -> bytes.
  Variable rewrite : url -> url.
  Variable to_string : url -> bytes.

  (* the replacement computed for a destination, over the specification functions *)
  Definition repl_spec (raw : bytes) : option bytes :=
    match parse (url_unescape raw) with
    | None => None
    | Some u =>
      if negb (match scheme u with [] => true | _ => false end)
         || ((match host u with [] => true | _ => false end) && (match path u with [] => true | _ => false end))
      then None
      else Some (url_escape (to_string (rewrite u)))
    end.

  (* what is used of net/url and of the base URL given with -llms *)
  Hypothesis rewrite_has_scheme : forall u, scheme (rewrite u) <> [].
  Hypothesis parse_string_scheme : forall u, scheme u <> [] ->
    exists u', parse (to_string u) = Some u' /\ scheme u' = scheme u.
  Hypothesis string_no_nbsp : forall u, no_nbsp (to_string u) = true.

  Theorem idempotent_model raw r : repl_spec raw = Some r -> repl_spec r = None.
  Proof.
    unfold repl_spec. destruct (parse (url_unescape raw)) as [u|]; [|discriminate].
    destruct (negb _ || _); [discriminate|]. intros E. injection E as <-.
    rewrite url_roundtrip by apply string_no_nbsp.
    destruct (parse_string_scheme (rewrite u) (rewrite_has_scheme u)) as (u' & -> & Es).
    pose proof (rewrite_has_scheme u) as Hs. rewrite <- Es in Hs.
    destruct (scheme u'); [contradiction|]. reflexivity.
  Qed.
End Idempotent.
