(* C09: assembly of the theorems over renderer.Show for an expression of static
   type t whose value is v (model: show_any). *)
From Coq Require Import List NArith ZArith Bool Lia.
From Verif Require Import Bytes ShowTree Facts_show ShowTypesM ShowJsonM ShowTree_proofs Show_flat_proofs Show_js_checks Show_js_proofs.
Import ListNotations.
Open Scope N_scope.

Definition js_ctx (ctx : N) (f : showfn) : Prop := (ctx = ctx_JS /\ f = FJS) \/ (ctx = ctx_JSON /\ f = FJSON).

Definition ctx_of (f : showfn) : N := match f with FJS => ctx_JS | FJSON => ctx_JSON end.

(* renderer.Show hands the value to showInJS / showInJSON in these two contexts, whatever the value *)
Definition js_dispatch_ok : bool :=
  forallb (fun f => forallb (fun k =>
      match tree_assoc gen_Show_tbl ((ctx_of f * 2 + 0) * 32 + k) with
      | Leaf (OCall g) => showfn_eqb f g
      | _ => false
      end) (below n_kinds)) [FJS; FJSON].

Lemma js_dispatch_ok_true : js_dispatch_ok = true.
Proof. vm_compute. reflexivity. Qed.

(* checkShow accepts in these two contexts only the empty interface type or what checkShowJS / checkShowJSON accept *)
Definition js_static_ok : bool :=
  forallb (fun f => forallb (fun k =>
      forallb (fun p : asg * outcome =>
        negb (outcome_eqb (snd p) OOk) || asg_true (fst p) (AIs PSelf w_EmptyInterface) || asg_true (fst p) (ACheck f PSelf))
        (paths (tree_assoc gen_checkShow_tbl (ctx_of f * 32 + k)))) (below n_kinds)) [FJS; FJSON].

Lemma js_static_ok_true : js_static_ok = true.
Proof. vm_compute. reflexivity. Qed.

Lemma dispatch_js conv f d : dyn_kind d < n_kinds -> dynamic_show conv (ctx_of f) false d = OCall f.
Proof.
  intro Hk. pose proof js_dispatch_ok_true as HT. unfold js_dispatch_ok in HT. rewrite forallb_forall in HT.
  assert (Hin : In f [FJS; FJSON]) by (destruct f; simpl; auto).
  pose proof (forall_below _ _ (HT f Hin) (dyn_kind d) Hk) as H. cbv beta in H.
  unfold dynamic_show. cbn [url_bit].
  destruct (tree_assoc gen_Show_tbl ((ctx_of f * 2 + 0) * 32 + dyn_kind d)) as [o | a y n]; [| discriminate H].
  destruct o; try discriminate H. apply showfn_eqb_eq in H. subst. reflexivity.
Qed.

Lemma static_js f t :
  kind_of t < n_kinds -> flag t w_EmptyInterface = false ->
  static_ok (ctx_of f) t = OOk -> static_rec f [] t = OOk.
Proof.
  intros Hk Hemp Hs. pose proof js_static_ok_true as HT. unfold js_static_ok in HT. rewrite forallb_forall in HT.
  assert (Hin : In f [FJS; FJSON]) by (destruct f; simpl; auto).
  pose proof (forall_below _ _ (HT f Hin) (kind_of t) Hk) as H. cbv beta in H. clear HT.
  unfold static_ok in Hs. destruct (eval_path _ _ _ Hs) as [s [Hp Hag]]; try discriminate.
  rewrite forallb_forall in H. specialize (H _ Hp). cbn [fst snd outcome_eqb negb orb] in H.
  apply orb_true_iff in H. destruct H as [H | H].
  - pose proof (asg_true_sound _ _ _ Hag H) as Hv. cbn [top_val] in Hv. rewrite Hemp in Hv. discriminate Hv.
  - pose proof (asg_true_sound _ _ _ Hag H) as Hv. cbn [top_val] in Hv.
    destruct (static_rec f [] t); try discriminate Hv. reflexivity.
Qed.

(* JS and JSON contexts: a value of an accepted type that is not an interface type *)
Theorem static_implies_dynamic_js :
  forall (L : leaves) (conv : bool) (f : showfn) (t : ty) (v : value),
    is_rec t = false -> is_iface t = false -> wf_tyb t = true -> flag t w_EmptyInterface = false ->
    static_ok (ctx_of f) t = OOk ->
    has_typeb [] t v = true -> boxed_okb f v = true ->
    good (show_any L conv (ctx_of f) false t v).
Proof.
  intros L conv f t v Hr Hi Hw Hemp Hs Hty Hbox.
  pose proof (kind_lt_of_wf t Hr Hw) as Hk.
  unfold show_any, dyn_type. rewrite Hi. rewrite (dispatch_js conv f (Some t) Hk).
  unfold show_top. destruct t; try discriminate Hr; rewrite Hi;
    apply (show_val_good' L f (S (vsize v))); try assumption; try lia; try apply env_ok_nil;
    apply static_js; assumption.
Qed.

(* an expression of interface type shows its dynamic value; the nil interface is always shown *)
Theorem interface_shows_dynamic_value :
  forall L conv ctx url t d x,
    is_iface t = true -> is_iface d = false -> is_rec d = false -> kind_of d < n_kinds ->
    (ctx = ctx_JS \/ ctx = ctx_JSON -> url = false) ->
    ctx < n_contexts ->
    show_any L conv ctx url t (VIface d x) = show_any L conv ctx url d x.
Proof.
  intros L conv ctx url t d x Hi Hd Hr Hk Hurl Hctx.
  unfold show_any, dyn_type. rewrite Hi, Hd.
  destruct (dynamic_show conv ctx url (Some d)) eqn:E; try reflexivity.
  unfold show_top. destruct t; try (vm_compute in Hi; discriminate Hi).
  rewrite Hi, Hd, Hr. cbn [orb]. destruct d; try discriminate Hr; reflexivity.
Qed.

Theorem nil_interface_is_shown :
  forall L conv ctx url t, ctx < n_contexts -> is_iface t = true -> is_rec t = false ->
    (ctx = ctx_JS \/ ctx = ctx_JSON -> url = false) ->
    good (show_any L conv ctx url t VNil).
Proof.
  intros L conv ctx url t Hctx Hi Hr Hurl. unfold show_any, dyn_type. rewrite Hi.
  destruct (flat_ctx ctx) eqn:Hf.
  - rewrite (nil_is_shown_flat conv ctx url Hctx Hf). apply good_ok.
  - assert (Hc : ctx = ctx_JS \/ ctx = ctx_JSON).
    { unfold flat_ctx in Hf. apply andb_false_iff in Hf. destruct Hf as [Hf | Hf]; apply negb_false_iff in Hf; apply N.eqb_eq in Hf; auto. }
    rewrite (Hurl Hc). destruct Hc as [Hc | Hc]; subst ctx.
    + pose proof (dispatch_js conv FJS None ltac:(vm_compute; reflexivity)) as Hdsp. cbn [ctx_of] in Hdsp. rewrite Hdsp.
      unfold show_top. destruct t; try discriminate Hr; rewrite Hi; rewrite show_nil_eq; apply good_ok.
    + pose proof (dispatch_js conv FJSON None ltac:(vm_compute; reflexivity)) as Hdsp. cbn [ctx_of] in Hdsp. rewrite Hdsp.
      unfold show_top. destruct t; try discriminate Hr; rewrite Hi; rewrite show_nil_eq; apply good_ok.
Qed.

(* contexts other than JS and JSON, stated over show_any *)
Theorem static_implies_dynamic_flat_value :
  forall L conv ctx url t v,
    ctx < n_contexts -> flat_ctx ctx = true -> url_ok ctx url = true ->
    kind_of t < n_kinds -> is_iface t = false -> flag t w_EmptyInterface = false ->
    static_ok ctx t = OOk ->
    exists b, show_any L conv ctx url t v = ROk b.
Proof.
  intros L conv ctx url t v Hctx Hf Hu Hk Hi Hemp Hs.
  unfold show_any, dyn_type. rewrite Hi.
  rewrite (static_implies_dynamic_flat conv ctx url t Hctx Hf Hu Hk Hi Hemp Hs). eexists; reflexivity.
Qed.
