(* scanProgram (templateSyntax = false): lexCode(tokenEOF) on the whole source
   never faults, terminates, and sends tokens that lie inside the source in
   order.  The proofs of LexCode_proofs are instantiated with the invariant
   INVP: the source is consumed from the left and every token was emitted at a
   base that never decreases (no tiling: a program has no text tokens). *)
From Verif Require Import Bytes Utf8 Facts_lexer LexBase LexCodeM LexerM LexBase_proofs LexTile_proofs LexCode_proofs
  Lexer_proofs LexTop_proofs.
Open Scope N_scope.

Definition INVP (text : bytes) (l : lexer) : Prop := wf text l /\ outs_ok (l_base l) (l_out l).

Lemma same_core_INVP text l l' : same_core l l' -> INVP text l -> INVP text l'.
Proof.
  intros (Hs & [Hb _] & Ho) [[pre [Ht Hp]] Hout]. split.
  - exists pre. rewrite Hs, Hb. auto.
  - rewrite Hb, Ho. exact Hout.
Qed.
Lemma INVP_len text l : INVP text l -> l_base l + len l = nlen text.
Proof. intros [H _]. apply wf_len, H. Qed.

Lemma advance_specP text n l :
  INVP text l -> n <= len l ->
  exists l', advance n l = Ok l' /\ INVP text l' /\ (l_base l' = l_base l + n /\ l_tidx l' = l_tidx l)
             /\ l_src l' = drop n (l_src l)
             /\ len l' = len l - n /\ l' = set_src (drop n (l_src l)) (l_base l + n) l.
Proof.
  intros [Hw Ho] Hn. unfold advance. destruct (N.ltb_spec (len l) n); [lia|].
  eexists. split; [reflexivity|]. split; [|split; [split; reflexivity|split; [reflexivity|split; [unfold len; simpl; apply nlen_drop|reflexivity]]]].
  split; [apply wf_drop; assumption|]. simpl. eapply outs_ok_mono; [exact Ho|lia].
Qed.

Lemma emit_at_specP text line col cd ld typ n l :
  INVP text l -> n <= len l -> n = 0 \/ is_close typ = false ->
  exists l', emit_at line col cd ld typ n l = Ok l' /\ INVP text l' /\ (l_base l' = l_base l + n /\ l_tidx l' = l_tidx l - n)
             /\ l_src l' = drop n (l_src l) /\ len l' = len l - n
             /\ l_line l' = l_line l /\ l_col l' = l_col l /\ l_cdev l' = l_cdev l /\ l_ldev l' = l_ldev l
             /\ l_ctx l' = l_ctx l /\ l_ctxs l' = l_ctxs l.
Proof.
  intros [Hw Ho] Hn _. unfold emit_at. destruct (N.ltb_spec (len l) n); [lia|].
  set (ctx := if typ =? gen_tokenText then gen_ContextText else l_ctx l).
  destruct (N.eqb_spec n 0) as [->|Hn0].
  - assert (Hlt : (0 <? 0) = false) by reflexivity. rewrite Hlt.
    destruct (N.eqb_spec typ gen_tokenSemicolon) as [->|Hts].
    + set (tok := mkTok gen_tokenSemicolon (l_base l - 1) (l_base l - 1) 0 line col (l_line l) ctx (l_tag l) (l_att l) cd ld).
      eexists. split; [reflexivity|]. change (gen_tokenSemicolon =? gen_tokenRaw) with false.
      change (gen_tokenSemicolon =? gen_tokenIdentifier) with false.
      change (gen_tokenSemicolon =? gen_tokenEnd) with false.
      destruct (l_tsyn _); cbn [l_src l_base l_out set_out set_tot l_line l_col l_cdev l_ldev l_ctx l_ctxs];
      rewrite N.add_0_r, !N.sub_0_r; repeat split; auto;
      (econstructor; [exact Ho| |cbn; lia]); unfold tok_at; cbn; (split; [reflexivity|]); right; split; reflexivity.
    + set (tok := mkTok typ (l_base l) (l_base l) 0 line col (l_line l) ctx (l_tag l) (l_att l) cd ld).
      assert (Htok : outs_ok (l_base l) (tok :: l_out l)).
      { econstructor; [exact Ho| |cbn; lia]. unfold tok_at. cbn. split; [reflexivity|]. left. reflexivity. }
      destruct (l_tsyn _); [destruct (typ =? gen_tokenRaw); [destruct (_ =? gen_tokenStartStatement)|
        destruct (typ =? gen_tokenIdentifier); [cbn [l_raw set_out set_tot]; destruct (l_raw l); [destruct (_ =? gen_tokenRaw)|]|
        destruct (typ =? gen_tokenEnd)]]|];
      (eexists; split; [reflexivity|]; cbn; rewrite N.add_0_r, !N.sub_0_r; repeat split; auto).
  - assert (Hlt : (0 <? n) = true) by (apply N.ltb_lt; lia). rewrite Hlt.
    set (tok := mkTok typ (l_base l) (l_base l + n - 1) n line col (l_line l) ctx (l_tag l) (l_att l) cd ld).
    assert (Htok : outs_ok (l_base l + n) (tok :: l_out l)).
    { econstructor; [exact Ho| |cbn; lia]. unfold tok_at. cbn. destruct (N.eqb_spec n 0); [lia|]. split; [reflexivity|lia]. }
    assert (Hw' : wf text (set_src (drop n (l_src l)) (l_base l + n) l)) by (apply wf_drop; assumption).
    destruct Hw' as [pre' [Hp1 Hp2]]. cbn in Hp1, Hp2.
    destruct (l_tsyn _); [destruct (typ =? gen_tokenRaw); [destruct (_ =? gen_tokenStartStatement)|
      destruct (typ =? gen_tokenIdentifier); [cbn [l_raw set_out set_tot]; destruct (l_raw l); [destruct (_ =? gen_tokenRaw)|]|
      destruct (typ =? gen_tokenEnd)]]|];
    (eexists; split; [reflexivity|]; cbn; repeat split; auto; try (exists pre'; split; assumption); try apply nlen_drop).
Qed.

(* lexCode(tokenEOF) and its loop body for programs: every iteration that goes
   on consumes at least one byte *)
Lemma code_body_safeP U text endt first s :
  INVP text (c_l s) ->
  safe (code_body U endt first s)
       (fun r => match r with
                 | Again s' => progX INVP text (c_l s) (c_l s') /\ c_ret s' = c_ret s
                 | Stop s' => extX INVP text (c_l s) (c_l s') /\ (c_ret s' = true -> c_ret s = true \/ closing endt (c_l s'))
                 end)
       (extX INVP text (c_l s)).
Proof.
  exact (code_body_safe U text INVP same_core_INVP advance_specP emit_at_specP endt first s).
Qed.

Lemma lex_code_safeP U text endt l :
  INVP text l ->
  safe (lex_code U endt l) (fun l' => extX INVP text l l' /\ (endt = gen_tokenEOF \/ closing endt l')) (extX INVP text l).
Proof.
  exact (lex_code_safe U text INVP same_core_INVP INVP_len advance_specP emit_at_specP endt l).
Qed.

Lemma INVP_start text : INVP text (prog_start text).
Proof. split; [exists []; split; reflexivity|constructor]. Qed.

Theorem scan_program_run_safe U text : safe (scan_program_run U text) (INVP text) (INVP text).
Proof.
  unfold scan_program_run. eapply safe_bind.
  - eapply safe_mono; [apply lex_code_safeP; apply INVP_start|intros a Ha; exact Ha|intros l [Hl _]; exact Hl].
  - intros l1 [[Hi1 _] _].
    destruct (emit_at_specP text (l_line l1) (l_col l1) (l_cdev l1) (l_ldev l1) gen_tokenEOF 0 l1 Hi1 ltac:(lia) (or_introl eq_refl))
      as (l2 & H2 & Hi2 & _).
    unfold emit. rewrite H2. exact Hi2.
Qed.

Lemma scan_program_done U text :
  exists toks e l, scan_program U text = Done toks e /\ toks = rev (l_out l) /\ INVP text l /\ (e = None \/ e = Some l).
Proof.
  pose proof (scan_program_run_safe U text) as H. unfold scan_program.
  destruct (scan_program_run U text) as [l|l| |]; simpl in H; try contradiction.
  - exists (rev (l_out l)), None, l. auto.
  - exists (rev (l_out l)), (Some l), l. auto.
Qed.

Theorem program_no_fault U text : scan_program U text <> Crashed.
Proof. destruct (scan_program_done U text) as (t & e & l & H & _). congruence. Qed.

Theorem program_terminates U text : scan_program U text <> OutOfFuel.
Proof. destruct (scan_program_done U text) as (t & e & l & H & _). congruence. Qed.

Theorem program_token_offsets U text toks e :
  scan_program U text = Done toks e -> forall t, In t toks -> tok_in (nlen text) t.
Proof.
  intros H t Ht. destruct (scan_program_done U text) as (toks' & e' & l & H' & -> & [Hw Ho] & _).
  rewrite H in H'. injection H' as -> _. apply in_rev in Ht.
  pose proof (outs_ok_in _ _ Ho t Ht) as Hin. pose proof (wf_len _ _ Hw).
  unfold tok_in in *. destruct (t_len t =? 0); lia.
Qed.

Theorem program_tokens_in_order U text toks e :
  scan_program U text = Done toks e -> toks_sorted 0 toks.
Proof.
  intros H. destruct (scan_program_done U text) as (toks' & e' & l & H' & -> & [Hw Ho] & _).
  rewrite H in H'. injection H' as -> _. apply outs_ok_sorted in Ho. apply Ho.
Qed.

Theorem program_error_offset U text toks l :
  scan_program U text = Done toks (Some l) -> l_base l <= nlen text.
Proof.
  intros H. destruct (scan_program_done U text) as (toks' & e' & l' & H' & _ & [Hw Ho] & [He|He]).
  - rewrite H in H'. congruence.
  - rewrite H in H'. assert (l = l') by congruence. subst. pose proof (wf_len _ _ Hw). lia.
Qed.
