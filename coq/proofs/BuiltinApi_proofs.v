(* C25 (wrappers of the standard library): obligations over the generated list
   of the exported functions and methods of package builtin
   (gen/Facts_builtinapi.v joined with checks/C25_wrappers.json and with the
   keys of the differential table of the harness).  Closed by computation on
   the generated values: a new or edited builtin, a wrapper that no longer
   calls its oracle, a direct wrapper whose body is no longer the call of its
   oracle on its parameters, or a wrapper without differential entry makes one
   of them fail. *)
From Coq Require Import List NArith Bool String.
From Verif Require Import Facts_builtinapi.
Import ListNotations.
Open Scope N_scope.

Definition api_entry := (string * N * bool * bool * bool)%type.
Definition api_name (e : api_entry) : string := fst (fst (fst (fst e))).
Definition api_class (e : api_entry) : N := snd (fst (fst (fst e))).
Definition api_calls_oracle (e : api_entry) : bool := snd (fst (fst e)).
Definition api_direct (e : api_entry) : bool := snd (fst e).
Definition api_has_differential (e : api_entry) : bool := snd e.

Definition is_wrapper (e : api_entry) : bool := (api_class e =? 1) || (api_class e =? 2).

(* classified at the current hash of its signature and body *)
Definition api_classified (e : api_entry) : bool := negb (api_class e =? 0).
(* a wrapper calls the function its documentation names and is compared with it by the sweep *)
Definition api_wrapper_ok (e : api_entry) : bool :=
  if is_wrapper e then api_calls_oracle e && api_has_differential e else true.
(* a direct wrapper is nothing but the call of its oracle on its parameters *)
Definition api_direct_ok (e : api_entry) : bool :=
  if api_class e =? 1 then api_direct e else true.

Lemma api_all_classified : forallb api_classified gen_builtin_api = true.
Proof. vm_compute. reflexivity. Qed.

Lemma api_wrappers_have_differential : forallb api_wrapper_ok gen_builtin_api = true.
Proof. vm_compute. reflexivity. Qed.

Lemma api_direct_wrappers_are_direct : forallb api_direct_ok gen_builtin_api = true.
Proof. vm_compute. reflexivity. Qed.

Lemma api_no_stale_entry : gen_stale_api_entries = 0 /\ gen_stale_differential_entries = 0.
Proof. vm_compute. split; reflexivity. Qed.

Lemma every_builtin_classified e : In e gen_builtin_api -> api_class e <> 0.
Proof.
  intros Hin E. pose proof api_all_classified as H. rewrite forallb_forall in H. specialize (H e Hin).
  unfold api_classified in H. rewrite E in H. discriminate.
Qed.

Lemma every_wrapper_compared e : In e gen_builtin_api -> (api_class e = 1 \/ api_class e = 2) ->
  api_calls_oracle e = true /\ api_has_differential e = true.
Proof.
  intros Hin Hc. pose proof api_wrappers_have_differential as H. rewrite forallb_forall in H. specialize (H e Hin).
  unfold api_wrapper_ok, is_wrapper in H. destruct Hc as [E|E]; rewrite E in H; cbn in H; apply andb_prop in H; exact H.
Qed.

Lemma every_direct_wrapper_is_its_oracle e : In e gen_builtin_api -> api_class e = 1 -> api_direct e = true.
Proof.
  intros Hin E. pose proof api_direct_wrappers_are_direct as H. rewrite forallb_forall in H. specialize (H e Hin).
  unfold api_direct_ok in H. rewrite E in H. exact H.
Qed.

(* non-vacuity: IndexAny is a direct wrapper, ParseInt a guarded one *)
Lemma api_examples :
  (exists e, In e gen_builtin_api /\ api_class e = 1 /\ api_direct e = true /\ api_has_differential e = true) /\
  (exists e, In e gen_builtin_api /\ api_class e = 2 /\ api_calls_oracle e = true /\ api_has_differential e = true).
Proof.
  split.
  - exists ("IndexAny"%string, 1, true, true, true). vm_compute. tauto.
  - exists ("ParseInt"%string, 2, true, false, true). vm_compute. tauto.
Qed.
