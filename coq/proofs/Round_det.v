(* The rounded value does not depend on the representation m * 2^e of the
   operand; hence rounding of floats is monotone also in the non strict form. *)
From Coq Require Import ZArith Bool Lia QArith Qpower Qabs Lqa.
From Verif Require Import Facts_consts ConstsM Consts_proofs Consts_proofs2 Consts_proofs3 Round_core Round_proofs Round_spec.
Open Scope Z_scope.

(* nearest with ties to even is unique *)
Lemma rne_unique M P q1 q2 : 0 < P ->
  - P <= 2 * (M - q1 * P) <= P -> (2 * Z.abs (M - q1 * P) = P -> Z.even q1 = true) ->
  - P <= 2 * (M - q2 * P) <= P -> (2 * Z.abs (M - q2 * P) = P -> Z.even q2 = true) ->
  q1 = q2.
Proof.
  intros HP B1 E1 B2 E2.
  assert (Hd : -1 <= q1 - q2 <= 1) by nia.
  destruct (Z.eq_dec q1 q2) as [E|N]; [exact E|]. exfalso.
  assert (Hc : q1 = q2 + 1 \/ q2 = q1 + 1) by lia.
  destruct Hc as [Hc|Hc]; subst.
  - assert (T1 : 2 * Z.abs (M - (q2 + 1) * P) = P) by (rewrite Z.abs_neq by nia; nia).
    assert (T2 : 2 * Z.abs (M - q2 * P) = P) by (rewrite Z.abs_eq by nia; nia).
    specialize (E1 T1). specialize (E2 T2). rewrite Z.even_add in E1. rewrite E2 in E1. discriminate.
  - assert (T1 : 2 * Z.abs (M - q1 * P) = P) by (rewrite Z.abs_eq by nia; nia).
    assert (T2 : 2 * Z.abs (M - (q1 + 1) * P) = P) by (rewrite Z.abs_neq by nia; nia).
    specialize (E1 T1). specialize (E2 T2). rewrite Z.even_add in E2. rewrite E1 in E2. discriminate.
Qed.

Lemma rne_shift_scale m sh j : 0 <= m -> 0 < sh -> 0 <= j ->
  rne_shift (m * 2 ^ j) (sh + j) false = rne_shift m sh false.
Proof.
  intros Hm Hsh Hj.
  assert (Pj : 0 < 2 ^ j) by (apply pow2_pos; lia).
  assert (Ps : 0 < 2 ^ sh) by (apply pow2_pos; lia).
  destruct (rne_core_int (m * 2 ^ j) (sh + j) ltac:(lia) ltac:(nia)) as [B1 [E1 _]].
  destruct (rne_core_int m sh Hsh Hm) as [B2 [E2 _]].
  set (q1 := rne_shift (m * 2 ^ j) (sh + j) false) in *.
  set (q2 := rne_shift m sh false) in *.
  rewrite Z.pow_add_r in B1, E1 by lia.
  apply (rne_unique (m * 2 ^ j) (2 ^ sh * 2 ^ j) q1 q2); [nia|exact B1|exact E1| |].
  - nia.
  - intros Ht. apply E2.
    assert (Ht' : 2 * Z.abs ((m - q2 * 2 ^ sh) * 2 ^ j) = 2 ^ sh * 2 ^ j).
    { rewrite <- Ht. f_equal. f_equal. ring. }
    rewrite Z.abs_mul, (Z.abs_eq (2 ^ j)) in Ht' by lia. nia.
Qed.

Lemma bitlen_scale m j : 0 <= j -> bitlen (Zpos m * 2 ^ j) = bitlen (Zpos m) + j.
Proof.
  intros Hj. assert (0 < Zpos m * 2 ^ j) by (pose proof (pow2_pos j Hj); nia).
  unfold bitlen. destruct (Z.eqb_spec (Zpos m * 2 ^ j) 0) as [E|_]; [lia|]. cbn [Z.eqb].
  rewrite !Z.abs_eq by lia. rewrite Z.log2_mul_pow2 by lia. lia.
Qed.

(* the same magnitude with a larger mantissa and a smaller exponent *)
Theorem round_mag_scale prec emin m e j : 0 < prec -> 0 <= j ->
  (pairQ (round_mag prec emin (Z.to_pos (Zpos m * 2 ^ j)) (e - j) false) ==
   pairQ (round_mag prec emin m e false))%Q.
Proof.
  intros Hp Hj.
  assert (Pj : 0 < 2 ^ j) by (apply pow2_pos; lia).
  assert (Hpos : Zpos (Z.to_pos (Zpos m * 2 ^ j)) = Zpos m * 2 ^ j) by (apply Z2Pos.id; nia).
  rewrite !round_mag_unfold. cbn zeta.
  assert (Esh : round_shift prec emin (Z.to_pos (Zpos m * 2 ^ j)) (e - j) = round_shift prec emin m e + j).
  { unfold round_shift. rewrite Hpos, bitlen_scale by exact Hj. destruct emin; lia. }
  rewrite Esh, Hpos. set (sh := round_shift prec emin m e).
  destruct (Z.leb_spec (sh + j) 0) as [H1|H1]; destruct (Z.leb_spec sh 0) as [H2|H2]; try lia; unfold pairQ; cbn [fst snd].
  - (* both exact *)
    rewrite inject_Z_mult, <- (T_Z j) by exact Hj.
    setoid_replace (inject_Z (Z.pos m) * T j * T (e - j))%Q with (inject_Z (Z.pos m) * (T j * T (e - j)))%Q by ring.
    rewrite <- T_add. replace (j + (e - j)) with e by lia. reflexivity.
  - (* only the scaled one drops bits: zeros *)
    replace (Zpos m * 2 ^ j) with ((Zpos m * 2 ^ (- sh)) * 2 ^ (sh + j)).
    + rewrite rne_shift_exact by (try lia; pose proof (pow2_pos (- sh)); nia).
      replace (e - j + (sh + j)) with (e + sh) by lia.
      rewrite inject_Z_mult, <- (T_Z (- sh)) by lia.
      setoid_replace (inject_Z (Z.pos m) * T (- sh) * T (e + sh))%Q with (inject_Z (Z.pos m) * (T (- sh) * T (e + sh)))%Q by ring.
      rewrite <- T_add. replace (- sh + (e + sh)) with e by lia. reflexivity.
    + rewrite <- Z.mul_assoc, <- Z.pow_add_r by lia. replace (- sh + (sh + j)) with j by lia. reflexivity.
  - (* both drop bits *)
    rewrite rne_shift_scale by lia. replace (e - j + (sh + j)) with (e + sh) by lia. reflexivity.
Qed.

Lemma flQ_FFin_nonzero n m e : ~ (flQ (FFin n m e) == 0)%Q.
Proof.
  rewrite flQ_FFin_signed. pose proof (T_pos e).
  assert (0 < inject_Z (Zpos m))%Q by (apply (inject_Z_lt 0); lia).
  destruct n; cbn [signed]; intros Hc; nra.
Qed.

Lemma round_pos_value_fl f n m e r : 0 < f_prec f -> round_fl f (FFin n m e) = Some r ->
  (flQ r == signed n (pairQ (round_mag (f_prec f) (f_emin f) m e false)))%Q.
Proof. intros Hp H. exact (round_pos_value f n m e false r Hp H). Qed.

(* the mantissa with the smaller exponent is the other one scaled *)
Lemma same_value_scale m1 e1 m2 e2 : e1 <= e2 ->
  (inject_Z (Zpos m1) * T e1 == inject_Z (Zpos m2) * T e2)%Q -> Zpos m1 = Zpos m2 * 2 ^ (e2 - e1).
Proof.
  intros He H. apply inject_Z_injective. apply (Qmult_inj_r _ _ (T e1)); [pose proof (T_pos e1); lra|].
  rewrite H, inject_Z_mult, <- (T_Z (e2 - e1)) by lia.
  setoid_replace (inject_Z (Z.pos m2) * T (e2 - e1) * T e1)%Q with (inject_Z (Z.pos m2) * (T (e2 - e1) * T e1))%Q by ring.
  rewrite <- T_add. replace (e2 - e1 + e1) with e2 by lia. reflexivity.
Qed.

Lemma signed_pos_inj n1 n2 v1 v2 : (0 < v1)%Q -> (0 < v2)%Q -> (signed n1 v1 == signed n2 v2)%Q ->
  n1 = n2 /\ (v1 == v2)%Q.
Proof. destruct n1, n2; cbn [signed]; intros; split; try reflexivity; try lra. Qed.

Theorem round_fl_value_det f x1 x2 r1 r2 : 0 < f_prec f ->
  round_fl f x1 = Some r1 -> round_fl f x2 = Some r2 -> (flQ x1 == flQ x2)%Q -> (flQ r1 == flQ r2)%Q.
Proof.
  intros Hp H1 H2 E.
  destruct x1 as [n1|n1 m1 e1], x2 as [n2|n2 m2 e2].
  - cbn [round_fl] in H1, H2. inversion H1; inversion H2. unfold flQ; cbn; ring.
  - exfalso. apply (flQ_FFin_nonzero n2 m2 e2). rewrite <- E. unfold flQ; cbn; ring.
  - exfalso. apply (flQ_FFin_nonzero n1 m1 e1). rewrite E. unfold flQ; cbn; ring.
  - rewrite (round_pos_value_fl f n1 m1 e1 r1 Hp H1), (round_pos_value_fl f n2 m2 e2 r2 Hp H2).
    rewrite !flQ_FFin_signed in E.
    assert (P1 : (0 < inject_Z (Zpos m1) * T e1)%Q).
    { pose proof (T_pos e1). assert (0 < inject_Z (Zpos m1))%Q by (apply (inject_Z_lt 0); lia). nra. }
    assert (P2 : (0 < inject_Z (Zpos m2) * T e2)%Q).
    { pose proof (T_pos e2). assert (0 < inject_Z (Zpos m2))%Q by (apply (inject_Z_lt 0); lia). nra. }
    destruct (signed_pos_inj _ _ _ _ P1 P2 E) as [En Ev]. subst n2.
    assert (EP : (pairQ (round_mag (f_prec f) (f_emin f) m1 e1 false) ==
                  pairQ (round_mag (f_prec f) (f_emin f) m2 e2 false))%Q).
    { destruct (Z.le_ge_cases e1 e2) as [He|He].
      - pose proof (same_value_scale m1 e1 m2 e2 He Ev) as Em.
        pose proof (round_mag_scale (f_prec f) (f_emin f) m2 e2 (e2 - e1) Hp ltac:(lia)) as S.
        rewrite <- Em in S. cbn [Z.to_pos] in S. replace (e2 - (e2 - e1)) with e1 in S by lia. exact S.
      - symmetry in Ev. pose proof (same_value_scale m2 e2 m1 e1 He Ev) as Em.
        pose proof (round_mag_scale (f_prec f) (f_emin f) m1 e1 (e1 - e2) Hp ltac:(lia)) as S.
        rewrite <- Em in S. cbn [Z.to_pos] in S. replace (e1 - (e1 - e2)) with e2 in S by lia. symmetry. exact S. }
    destruct n1; cbn [signed]; rewrite EP; reflexivity.
Qed.

(* monotonicity in the usual form *)
Theorem round_fl_monotone_le f x1 x2 r1 r2 : 0 < f_prec f ->
  round_fl f x1 = Some r1 -> round_fl f x2 = Some r2 -> (flQ x1 <= flQ x2)%Q -> (flQ r1 <= flQ r2)%Q.
Proof.
  intros Hp H1 H2 Hle. destruct (Qlt_le_dec (flQ x1) (flQ x2)) as [Hlt|Hge].
  - exact (round_fl_monotone f x1 x2 r1 r2 Hp H1 H2 Hlt).
  - assert (E : (flQ x1 == flQ x2)%Q) by (apply Qle_antisym; assumption).
    rewrite (round_fl_value_det f x1 x2 r1 r2 Hp H1 H2 E). apply Qle_refl.
Qed.
