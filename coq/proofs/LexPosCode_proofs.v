(* Lines and columns inside code (C21 token_pos_correct): lexCode and the
   literal lexers keep the line and column of the lexer in sync with its
   offset, up to the ghost deviation flags, and every token they send carries
   the line and column of its offset. *)
From Verif Require Import Bytes Utf8 Facts_lexer LexBase LexCodeM LexerM LexTables LexPos LexBase_proofs Utf8_proofs
  LexPosBase_proofs.
Open Scope N_scope.

(* what the theorem needs of the Unicode tables: the replacement character
   and the new line are neither letters nor digits (true of Go's tables) *)
Definition U_sane (U : unitab) : Prop :=
  u_letter U rune_error = false /\ u_digit U rune_error = false /\ u_letter U 10 = false /\ u_digit U 10 = false.

Lemma mem_plain l c : forallb plain l = true -> mem l c = true -> plain c = true.
Proof.
  unfold mem. intros H Hm. apply existsb_exists in Hm. destruct Hm as (x & Hin & Hx).
  apply N.eqb_eq in Hx. subst x. rewrite forallb_forall in H. apply H, Hin.
Qed.
Lemma isDecDigit_plain c : isDecDigit c = true -> plain c = true.
Proof. apply mem_plain. reflexivity. Qed.
Lemma isHexDigit_plain c : isHexDigit c = true -> plain c = true.
Proof. apply mem_plain. reflexivity. Qed.
Lemma isOctDigit_plain c : isOctDigit c = true -> plain c = true.
Proof. apply mem_plain. reflexivity. Qed.
Lemma isBinDigit_plain c : isBinDigit c = true -> plain c = true.
Proof. apply mem_plain. reflexivity. Qed.
Lemma isAlpha_plain c : isAlpha c = true -> plain c = true.
Proof. apply mem_plain. reflexivity. Qed.
Lemma is_digit09_plain c : is_digit09 c = true -> plain c = true.
Proof. unfold is_digit09, plain. intros H. b2p. apply andb_true_intro. split; [apply N.ltb_lt; lia|apply negb_true_iff, N.eqb_neq; lia]. Qed.
Lemma is_oct_plain c : is_oct c = true -> plain c = true.
Proof. unfold is_oct, plain. intros H. b2p. apply andb_true_intro. split; [apply N.ltb_lt; lia|apply negb_true_iff, N.eqb_neq; lia]. Qed.
Lemma hexval_plain c v : hexval c = Some v -> plain c = true.
Proof.
  unfold hexval, plain. intros H.
  destruct ((48 <=? c) && (c <=? 57)) eqn:E1; [b2p; apply andb_true_intro; split; [apply N.ltb_lt; lia|apply negb_true_iff, N.eqb_neq; lia]|].
  destruct ((97 <=? c) && (c <=? 102)) eqn:E2; [b2p; apply andb_true_intro; split; [apply N.ltb_lt; lia|apply negb_true_iff, N.eqb_neq; lia]|].
  destruct ((65 <=? c) && (c <=? 70)) eqn:E3; [b2p; apply andb_true_intro; split; [apply N.ltb_lt; lia|apply negb_true_iff, N.eqb_neq; lia]|].
  discriminate.
Qed.
Lemma plain_lt c : c < 128 -> c <> 10 -> plain c = true.
Proof. intros H1 H2. unfold plain. apply andb_true_intro. split; [apply N.ltb_lt; exact H1|apply negb_true_iff, N.eqb_neq; exact H2]. Qed.
Lemma plain_inv c : plain c = true -> c < 128 /\ c <> 10.
Proof. unfold plain. intros H. b2p. split; assumption. Qed.
Lemma is_simple_escape_plain c q : q < 128 -> q <> 10 -> is_simple_escape c q = true -> plain c = true.
Proof.
  unfold is_simple_escape. intros Hq1 Hq2 H.
  repeat (apply orb_prop in H; destruct H as [H|H]); apply N.eqb_eq in H; subst; try reflexivity. apply plain_lt; assumption.
Qed.

(* runs of plain bytes given position by position *)
Lemma plain_at_1 s p c : get s p = Some c -> plain c = true -> plain_at s p 1.
Proof.
  intros H Hc. change 1 with (0 + 1). apply (plain_at_snoc s p 0 c).
  - apply plain_at_0.
  - rewrite N.add_0_r. exact H.
  - exact Hc.
Qed.
Lemma plain_at_2 s p c d :
  get s p = Some c -> get s (p + 1) = Some d -> plain c = true -> plain d = true -> plain_at s p 2.
Proof.
  intros H0 H1 Hc Hd. change 2 with (1 + 1). eapply plain_at_snoc; [eapply plain_at_1; eassumption|exact H1|exact Hd].
Qed.
Lemma plain_at_3 s p c d e :
  get s p = Some c -> get s (p + 1) = Some d -> get s (p + 2) = Some e ->
  plain c = true -> plain d = true -> plain e = true -> plain_at s p 3.
Proof.
  intros H0 H1 H2 Hc Hd He. change 3 with (2 + 1). eapply plain_at_snoc; [eapply plain_at_2; eassumption|exact H2|exact He].
Qed.
Lemma plain_at_4 s p c d e f :
  get s p = Some c -> get s (p + 1) = Some d -> get s (p + 2) = Some e -> get s (p + 3) = Some f ->
  plain c = true -> plain d = true -> plain e = true -> plain f = true -> plain_at s p 4.
Proof.
  intros H0 H1 H2 H3 Hc Hd He Hf. change 4 with (3 + 1). eapply plain_at_snoc; [eapply plain_at_3; eassumption|exact H3|exact Hf].
Qed.

(* extending a prefix that holds no new line *)
Lemma chunk_ext s p k cols :
  nolf (take p s) = true -> cstart (take p s) = cols -> plain_at s p k ->
  nolf (take (p + k) s) = true /\ cstart (take (p + k) s) = cols + k.
Proof.
  intros H1 H2 [H3 H4]. destruct (plain_all _ H3) as [H5 H6].
  rewrite take_add, nolf_app, cstart_app, H1, H5, H2, H6, H4. split; reflexivity.
Qed.
Lemma take_nat w s : take (N.of_nat w) s = firstn w s.
Proof. unfold take. rewrite Nat2N.id. reflexivity. Qed.
Lemma chunk_ext_rune s p w cols b0 r0 k :
  nolf (take p s) = true -> cstart (take p s) = cols -> drop p s = b0 :: r0 ->
  nolf (firstn w (b0 :: r0)) = true -> cstart (firstn w (b0 :: r0)) = k ->
  nolf (take (p + N.of_nat w) s) = true /\ cstart (take (p + N.of_nat w) s) = cols + k.
Proof.
  intros H1 H2 Hd H3 H4. rewrite take_add, nolf_app, cstart_app, H1, H2, Hd, take_nat, H3, H4. split; reflexivity.
Qed.

(* n hexadecimal digits are plain bytes *)
Lemma hex_run_plain l q n r r' : hex_run l q n r = Ok (Some r') -> plain_at (l_src l) q (N.of_nat n).
Proof.
  revert q r. induction n as [|n IH]; intros q r H; [apply plain_at_0|].
  cbn [hex_run] in H. unfold idx in H. destruct (get (l_src l) q) as [c|] eqn:Hc; [|discriminate]. cbn [bind] in H.
  destruct (hexval c) as [v|] eqn:Hv; [|discriminate].
  replace (N.of_nat (S n)) with (1 + N.of_nat n) by lia. apply plain_at_app.
  - eapply plain_at_1; [exact Hc|eapply hexval_plain; exact Hv].
  - eapply IH. exact H.
Qed.

Section PosCode.
Variable U : unitab.
Variable text : bytes.
Hypothesis HU : U_sane U.

(* the lexer inside code: tokens right so far, line and column in sync with the base *)
Definition PC (l : lexer) : Prop := WO text l /\ SY text (l_base l) l.
(* the state of an error: the tokens sent before it are right *)
Definition TOK (l : lexer) : Prop := Forall (tok_ok text) (l_out l).
Local Notation psafe := (psafeE TOK).

Ltac tok_tac :=
  unfold TOK; lcbn;
  repeat match goal with Hs : same_core _ ?l1 |- Forall _ (l_out ?l1) => rewrite (proj2 (proj2 Hs)) end;
  first [ assumption
        | match goal with H : PC ?l |- Forall _ (l_out ?l) => exact (proj2 (proj1 H)) end
        | match goal with H : WO _ ?l |- Forall _ (l_out ?l) => exact (proj2 H) end ].
Ltac pe := first [exact I | (cbn [psafeE bind negb]; tok_tac)].
Ltac noerr H :=
  exfalso; first [exact (emit_noerr _ _ _ _ H) | exact (emit_at_noerr _ _ _ _ _ _ _ _ H) | exact (advance_noerr _ _ _ H)
                 | exact (hex_run_noerr _ _ _ _ _ H) | exact (emitc_noerr _ _ _ _ H)].
Tactic Notation "pbe" ident(a) ident(H) := apply psafe_bind_eq; [let l := fresh "lerr" in let Herr := fresh "Herr" in intros l Herr; noerr Herr|intros a H].

Lemma wf_take text0 l n : wf text0 l -> take n (drop (l_base l) text0) = take n (l_src l).
Proof. intros H. rewrite (wf_drop_base _ _ H). reflexivity. Qed.
Lemma wf_plain_at l p k : wf text l -> plain_at (l_src l) p k -> plain_at text (l_base l + p) k.
Proof. intros H. unfold plain_at. rewrite (wf_drop_at _ _ _ H). auto. Qed.

(* moving over n bytes that hold no new line, counting their characters *)
Lemma SY_move l l' off n :
  SY text off l -> nolf (take n (drop off text)) = true ->
  l_line l' = l_line l -> l_col l' = l_col l + cstart (take n (drop off text)) ->
  l_cdev l' = l_cdev l -> l_ldev l' = l_ldev l ->
  SY text (off + n) l'.
Proof.
  unfold SY. intros H Hn Hl Hc Hcd Hld. rewrite Hl, Hc, Hcd, Hld.
  eapply synced_adv; [exact H|reflexivity|rewrite (adv_str_nolf _ _ _ Hn); reflexivity|rewrite Hn; reflexivity].
Qed.
(* the same when the columns are not accounted for *)
Lemma SY_move_cd l l' off n :
  SY text off l -> nolf (take n (drop off text)) = true ->
  l_line l' = l_line l -> l_cdev l' = true -> l_ldev l' = l_ldev l ->
  SY text (off + n) l'.
Proof.
  unfold SY. intros H Hn Hl Hcd Hld. rewrite Hl, Hcd, Hld.
  eapply synced_cd; [exact H|reflexivity|]. apply nolf_cnl in Hn. rewrite Hn. lia.
Qed.
Lemma SY_plain l l' off n :
  SY text off l -> plain_at text off n ->
  l_line l' = l_line l -> l_col l' = l_col l + n -> l_cdev l' = l_cdev l -> l_ldev l' = l_ldev l ->
  SY text (off + n) l'.
Proof.
  unfold SY. intros H Hp Hl Hc Hcd Hld. rewrite Hl, Hc, Hcd, Hld. apply synced_plain; assumption.
Qed.
Lemma SY_nl l l' off :
  SY text off l -> get text off = Some 10 ->
  l_line l' = l_line l + 1 -> l_col l' = 1 -> l_cdev l' = false -> l_ldev l' = l_ldev l ->
  SY text (off + 1) l'.
Proof.
  unfold SY. intros H Hg Hl Hc Hcd Hld. rewrite Hl, Hc, Hcd, Hld.
  eapply synced_adv; [exact H|apply take_1; rewrite get_drop0; exact Hg|reflexivity|reflexivity].
Qed.
Lemma SY_ld l off : l_ldev l = true -> SY text off l.
Proof. unfold SY. intros ->. apply synced_ld. Qed.

(* emit: the token is sent with the line and column of the lexer *)
Lemma emit_PC typ n l l' :
  emit typ n l = Ok l' -> PC l -> (n = 0 -> typ = gen_tokenSemicolon -> 1 <= l_base l) ->
  WO text l' /\ n <= len l /\ l_src l' = drop n (l_src l) /\ l_base l' = l_base l + n /\
  l_line l' = l_line l /\ l_col l' = l_col l /\ l_cdev l' = l_cdev l /\ l_ldev l' = l_ldev l /\
  l_ctx l' = l_ctx l /\ l_tsyn l' = l_tsyn l.
Proof. intros He [Hw Hs] Hsemi. exact (emit_at_WO text _ _ _ _ _ _ _ _ He Hw Hs Hsemi). Qed.

(* emit(typ, n); l.column += cols, over n bytes without a new line that hold cols characters *)
Lemma emit_cols typ n cols l l1 :
  emit typ n l = Ok l1 -> PC l -> 1 <= n -> nolf (take n (l_src l)) = true -> cstart (take n (l_src l)) = cols ->
  PC (addcol cols l1) /\ l_base l1 = l_base l + n.
Proof.
  intros He Hp Hn Hnl Hcs.
  destruct (emit_PC _ _ _ _ He Hp ltac:(lia)) as (Hw1 & Hlen & Hs1 & Hb1 & Hl1 & Hc1 & Hcd1 & Hld1 & _).
  split; [|exact Hb1]. split; [eapply same_core_WO; [|exact Hw1]; auto with sc|].
  lcbn. rewrite Hb1. destruct Hp as [[Hw _] Hsy].
  eapply SY_move; [exact Hsy|rewrite (wf_take _ _ _ Hw); exact Hnl|lcbn; exact Hl1| |lcbn; exact Hcd1|lcbn; exact Hld1].
  lcbn. rewrite (wf_take _ _ _ Hw), Hcs, Hc1. reflexivity.
Qed.
Lemma emit_plain typ n l l1 :
  emit typ n l = Ok l1 -> PC l -> 1 <= n -> plain_at (l_src l) 0 n ->
  PC (addcol n l1) /\ l_base l1 = l_base l + n.
Proof.
  intros He Hp Hn Hpl. destruct (plain_at_take _ _ Hpl) as [H1 H2]. destruct (plain_all _ H1) as [H3 H4].
  eapply emit_cols; [exact He|exact Hp|exact Hn|exact H3|rewrite H4, H2; reflexivity].
Qed.
Lemma emitc_plain typ n l :
  PC l -> 1 <= n -> plain_at (l_src l) 0 n ->
  psafe (emitc typ n l) (fun l' => PC l' /\ l_base l' = l_base l + n).
Proof.
  intros Hp Hn Hpl. unfold emitc. pbe l1 He.
  destruct (emit_plain _ _ _ _ He Hp Hn Hpl) as [H1 H2]. cbn [psafeE]. split; [exact H1|lcbn; exact H2].
Qed.
(* the same when the columns of the token are not those of its characters (ghost flag) *)
Lemma emit_cols_cd typ n k l l1 :
  emit typ n l = Ok l1 -> PC l -> 1 <= n -> nolf (take n (l_src l)) = true ->
  PC (addcol k (mark_cdev l1)) /\ l_base l1 = l_base l + n.
Proof.
  intros He Hp Hn Hnl.
  destruct (emit_PC _ _ _ _ He Hp ltac:(lia)) as (Hw1 & Hlen & Hs1 & Hb1 & Hl1 & Hc1 & Hcd1 & Hld1 & _).
  split; [|exact Hb1]. split; [eapply same_core_WO; [|exact Hw1]; repeat split|].
  lcbn. rewrite Hb1. destruct Hp as [[Hw _] Hsy].
  eapply SY_move_cd; [exact Hsy|rewrite (wf_take _ _ _ Hw); exact Hnl|lcbn; exact Hl1|reflexivity|lcbn; exact Hld1].
Qed.

(* ---- identifiers ---- *)
Lemma ident_char b0 r0 r w :
  decode_rune (b0 :: r0) = (r, w) ->
  negb (r =? 95) && negb (u_letter U r) && negb (u_digit U r) = false ->
  nolf (firstn w (b0 :: r0)) = true /\ cstart (firstn w (b0 :: r0)) = 1.
Proof.
  intros Hd Hid. destruct HU as (U1 & U2 & U3 & U4).
  assert (Hne : r <> rune_error).
  { intros ->. rewrite U1, U2 in Hid. discriminate. }
  assert (Hn10 : r <> 10).
  { intros ->. rewrite U3, U4 in Hid. discriminate. }
  assert (Hb : b0 <> 10).
  { intros ->. rewrite decode_ascii in Hd by lia. injection Hd as <- _. congruence. }
  destruct (decode_chunk _ _ _ _ Hd Hb) as [H1 H2]. split; [exact H1|]. rewrite H2.
  destruct (is_start b0) eqn:Es; [reflexivity|]. destruct (decode_not_start _ _ _ _ Hd Es) as [-> _]. congruence.
Qed.

Lemma lex_ident_pos s l :
  PC l -> 1 <= s -> s <= len l -> nolf (take s (l_src l)) = true -> cstart (take s (l_src l)) = 1 ->
  psafe (lex_ident U s l) (fun r => PC (fst (fst r)) /\ l_base l < l_base (fst (fst r))).
Proof.
  intros Hp Hs1 Hs2 Hnl Hcs. unfold lex_ident. eapply psafe_bind.
  - apply (psafe_loop (ident_body U l)
             (fun st => s <= fst st /\ fst st <= len l /\ nolf (take (fst st) (l_src l)) = true /\ cstart (take (fst st) (l_src l)) = snd st)
             (fun st => s <= fst st /\ nolf (take (fst st) (l_src l)) = true /\ cstart (take (fst st) (l_src l)) = snd st)).
    + intros [p cols] (H1 & H2 & H3 & H4). cbn [fst snd] in *. unfold ident_body.
      destruct (N.ltb_spec p (len l)) as [Hlt|Hge]; [|cbn; auto].
      destruct (decode_rune (drop p (l_src l))) as [r w] eqn:Hd.
      destruct (decode_at l p r w Hlt Hd) as [Hw1 Hw2].
      destruct (negb (r =? 95) && negb (u_letter U r) && negb (u_digit U r)) eqn:Eid; cbn; [auto|].
      destruct (drop_cons_get _ _ Hlt) as (b0 & r0 & Hdr & Hg). rewrite Hdr in Hd.
      destruct (ident_char _ _ _ _ Hd Eid) as [A1 A2].
      destruct (chunk_ext_rune _ _ _ _ _ _ _ H3 H4 Hdr A1 A2) as [B1 B2].
      split; [lia|]. split; [exact Hw2|]. split; assumption.
    + cbn [fst snd]. repeat split; try assumption; lia.
  - intros [p cols] (H1 & H3 & H4). cbn [fst snd] in *.
    destruct (len l <? p); [pe|].
    pbe l1 He.
    destruct (emit_cols _ _ _ _ _ He Hp ltac:(lia) H3 H4) as [Hp1 Hb1]. cbn. split; [exact Hp1|lia].
Qed.

Lemma perr_at {A} p l (Q : A -> Prop) : TOK l -> psafe (@err_at p l A) Q.
Proof. intros H. unfold err_at, advance. destruct (len l <? p); cbn; [exact I|exact H]. Qed.

Lemma orb_eqb2 a x y : (a =? x) || (a =? y) = true -> a = x \/ a = y.
Proof. intros H. apply orb_prop in H. destruct H as [H|H]; apply N.eqb_eq in H; auto. Qed.

(* ---- interpreted strings ---- *)
Lemma lex_string_pos l :
  PC l -> get (l_src l) 0 = Some 34 ->
  psafe (lex_string l) (fun l' => PC l' /\ l_base l < l_base l').
Proof.
  intros Hp H0. unfold lex_string. eapply psafe_bind.
  - apply (psafe_loop (str_body l)
             (fun st => 1 <= fst st /\ nolf (take (fst st) (l_src l)) = true /\ cstart (take (fst st) (l_src l)) = snd st)
             (fun st => get (l_src l) (fst st) = Some 34 /\ 1 <= fst st /\ nolf (take (fst st) (l_src l)) = true
                        /\ cstart (take (fst st) (l_src l)) = snd st)).
    + intros [p cols] (H1 & H2 & H3). cbn [fst snd] in *. unfold str_body.
      assert (Hext : forall k, plain_at (l_src l) p k ->
                1 <= p + k /\ nolf (take (p + k) (l_src l)) = true /\ cstart (take (p + k) (l_src l)) = cols + k).
      { intros k Hk. destruct (chunk_ext _ _ _ _ H2 H3 Hk) as [A B]. split; [lia|split; assumption]. }
      destruct (p =? len l); [pe|]. pget c Hc.
      destruct (N.eqb_spec c 34) as [->|N34]; [cbn; auto|].
      destruct (N.eqb_spec c 92) as [->|N92].
      { destruct (p + 1 =? len l); [pe|]. pget e He.
        destruct ((e =? 117) || (e =? 85)) eqn:Eu.
        { set (nn := if e =? 85 then 8 else 4). destruct (len l <=? p + 1 + nn); [pe|].
          pbe hr Hhr. destruct hr as [r|]; [|(apply perr_at; tok_tac)].
          destruct ((r <? 2147483648) && bad_code_point r); [(apply perr_at; tok_tac)|]. cbn [psafeE].
          apply hex_run_plain in Hhr. rewrite N2Nat.id in Hhr.
          assert (Hc2 : plain e = true) by (destruct (orb_eqb2 _ _ _ Eu) as [-> | ->]; reflexivity).
          replace (p + 2 + nn) with (p + (2 + nn)) by lia. replace (cols + 2 + nn) with (cols + (2 + nn)) by lia.
          apply Hext. apply plain_at_app; [eapply plain_at_2; [exact Hc|exact He|reflexivity|exact Hc2]|exact Hhr]. }
        destruct (is_simple_escape e 34) eqn:Ese.
        { cbn [psafeE]. apply Hext. eapply plain_at_2; [exact Hc|exact He|reflexivity|].
          eapply is_simple_escape_plain; [| |exact Ese]; lia. }
        destruct (N.eqb_spec e 120) as [->|N120].
        { destruct (p + 2 =? len l); [(apply perr_at; tok_tac)|]. pget h1 Hh1.
          destruct (isHexDigit h1) eqn:Eh1; cbn [negb]; [|(apply perr_at; tok_tac)].
          destruct (p + 3 =? len l); [(apply perr_at; tok_tac)|]. pget h2 Hh2.
          destruct (isHexDigit h2) eqn:Eh2; cbn [negb]; [|(apply perr_at; tok_tac)]. cbn [psafeE].
          apply Hext. eapply plain_at_4; [exact Hc|exact He|exact Hh1|exact Hh2|reflexivity|reflexivity| |];
            apply isHexDigit_plain; assumption. }
        destruct (is_oct e) eqn:Eo0; [|(apply perr_at; tok_tac)].
        destruct (p + 2 =? len l); [(apply perr_at; tok_tac)|]. pget o1 Ho1.
        destruct (is_oct o1) eqn:Eo1; cbn [negb]; [|(apply perr_at; tok_tac)].
        destruct (p + 3 =? len l); [(apply perr_at; tok_tac)|]. pget o2 Ho2.
        destruct (is_oct o2) eqn:Eo2; cbn [negb]; [|(apply perr_at; tok_tac)].
        match goal with |- context [if ?b then _ else _] => destruct b end; [(apply perr_at; tok_tac)|]. cbn [psafeE].
        apply Hext. eapply plain_at_4; [exact Hc|exact He|exact Ho1|exact Ho2|reflexivity| | |];
          apply is_oct_plain; assumption. }
      destruct (N.eqb_spec c 10) as [->|N10]; [(apply perr_at; tok_tac)|].
      pose proof (get_some _ _ _ Hc) as Hlt. fold (len l) in Hlt.
      destruct (drop_cons_get _ _ Hlt) as (b0 & r0 & Hdr & Hg). rewrite Hc in Hg. injection Hg as <-.
      rewrite Hdr. destruct (decode_rune (c :: r0)) as [r w] eqn:Hd.
      destruct ((r =? rune_error) && Nat.eqb w 1) eqn:Ev; [(apply perr_at; tok_tac)|].
      destruct (r =? gen_lex_BOM); [pe|]. cbn [psafeE].
      destruct (decode_chunk _ _ _ _ Hd N10) as [A1 A2]. rewrite (decode_valid_start _ _ _ _ Hd Ev) in A2.
      destruct (chunk_ext_rune _ _ _ _ _ _ _ H2 H3 Hdr A1 A2) as [B1 B2].
      cbn [fst snd]. split; [lia|split; assumption].
    + cbn [fst snd]. split; [lia|]. rewrite (take_1 _ _ H0). split; reflexivity.
  - intros [p cols] (Hq & H1 & H2 & H3). cbn [fst snd] in *.
    pbe l1 He.
    assert (Hpl : plain_at (l_src l) p 1) by (eapply plain_at_1; [exact Hq|reflexivity]).
    destruct (chunk_ext _ _ _ _ H2 H3 Hpl) as [A B].
    destruct (emit_cols _ _ _ _ _ He Hp ltac:(lia) A B) as [Hp1 Hb1]. cbn. split; [exact Hp1|lia].
Qed.

(* ---- raw strings ---- *)
Lemma lex_raw_string_pos l :
  PC l -> get (l_src l) 0 = Some 96 ->
  psafe (lex_raw_string l) (fun l' => PC l' /\ l_base l < l_base l').
Proof.
  intros Hp H0. pose proof Hp as [[Hw Hf] Hsy]. unfold lex_raw_string. cbv zeta. eapply psafe_bind.
  - apply (psafe_loop raw_body
             (fun st => same_core l (fst st) /\ 1 <= snd st /\ SY text (l_base l + snd st) (fst st))
             (fun st => same_core l (fst st) /\ SY text (l_base l + snd st + 1) (fst st))).
    + intros [l1 p] (Hs & H1 & H2). cbn [fst snd] in *. unfold raw_body.
      assert (Hsrc : l_src l1 = l_src l) by apply Hs.
      destruct (p =? len l1); [pe|]. pget c Hc. rewrite Hsrc in Hc.
      pose proof (wf_get _ _ _ _ Hw Hc) as Hgt.
      destruct (N.eqb_spec c 96) as [->|N96].
      { cbn [psafeE fst snd]. split; [eapply same_core_trans; [exact Hs|auto with sc]|].
        eapply SY_plain; [exact H2|eapply plain_at_1; [exact Hgt|reflexivity]|lcbn; reflexivity|lcbn; reflexivity|lcbn; reflexivity|lcbn; reflexivity]. }
      destruct (N.eqb_spec c 10) as [->|N10].
      { cbn [psafeE fst snd]. split; [eapply same_core_trans; [exact Hs|auto with sc]|]. split; [lia|].
        rewrite N.add_assoc. eapply SY_nl; [exact H2|exact Hgt|lcbn; reflexivity|lcbn; reflexivity|lcbn; reflexivity|lcbn; reflexivity]. }
      pose proof (get_some _ _ _ Hc) as Hlt.
      destruct (drop_cons_get _ _ Hlt) as (b0 & r0 & Hdr & Hg). rewrite Hc in Hg. injection Hg as <-.
      rewrite Hsrc, Hdr. destruct (decode_rune (c :: r0)) as [r w] eqn:Hd.
      destruct ((r =? rune_error) && Nat.eqb w 1) eqn:Ev; [(apply perr_at; tok_tac)|].
      destruct (r =? gen_lex_BOM); [pe|]. cbn [psafeE fst snd].
      destruct (decode_chunk _ _ _ _ Hd N10) as [A1 A2]. rewrite (decode_valid_start _ _ _ _ Hd Ev) in A2.
      destruct (decode_rune_width (c :: r0) r w ltac:(discriminate) Hd) as [Hw1 _].
      split; [eapply same_core_trans; [exact Hs|auto with sc]|]. split; [lia|].
      rewrite N.add_assoc.
      assert (Htk : take (N.of_nat w) (drop (l_base l + p) text) = firstn w (c :: r0)).
      { rewrite (wf_drop_at _ _ _ Hw), Hdr. apply take_nat. }
      eapply SY_move; [exact H2|rewrite Htk; exact A1|lcbn; reflexivity|lcbn; rewrite Htk, A2; reflexivity|lcbn; reflexivity|lcbn; reflexivity].
    + cbn [fst snd]. split; [auto with sc|]. split; [lia|].
      eapply SY_plain; [exact Hsy|eapply plain_at_1; [rewrite <- (N.add_0_r (l_base l)); eapply wf_get; [exact Hw|exact H0]|reflexivity]
                       |lcbn; reflexivity|lcbn; reflexivity|lcbn; reflexivity|lcbn; reflexivity].
  - intros [l1 p] (Hs & H2). cbn [fst snd] in *.
    destruct (emit_at (l_line l) (l_col l) (l_cdev l) (l_ldev l) gen_tokenRawString (p + 1) l1) as [l2|lerr| |] eqn:He; try pe; [|noerr He].
    cbn [psafeE].
    assert (Hw1 : WO text l1) by (eapply same_core_WO; [exact Hs|split; assumption]).
    assert (Hb1 : l_base l1 = l_base l) by apply Hs.
    destruct (emit_at_WO text _ _ _ _ _ _ _ _ He Hw1) as (Hw2 & _ & _ & Hb2 & Hl2 & Hc2 & Hcd2 & Hld2 & _).
    { rewrite Hb1. exact Hsy. }
    { intros _ C. discriminate. }
    split; [|lia]. split; [exact Hw2|]. rewrite Hb2, Hb1, N.add_assoc.
    eapply SY_eq; [exact Hl2|exact Hc2|exact Hcd2|exact Hld2|exact H2].
Qed.

(* ---- rune literals ---- *)
Lemma lex_rune_pos l :
  PC l -> get (l_src l) 0 = Some 39 ->
  psafe (lex_rune l) (fun l' => PC l' /\ l_base l < l_base l').
Proof.
  intros Hp H0. unfold lex_rune.
  destruct (len l =? 1); [pe|]. pget c1 Hc1.
  eapply psafe_bind with (Q' := fun pw : N * bool => 1 <= fst pw /\ if snd pw then nolf (take (fst pw) (l_src l)) = true
                                                          else plain_at (l_src l) 0 (fst pw)).
  - destruct (N.eqb_spec c1 92) as [->|N92].
    { destruct (len l =? 2); [pe|]. pget c Hc.
      destruct (is_simple_escape c 39) eqn:Ese.
      { destruct (len l <? 3); [pe|]. cbn [psafeE fst snd]. split; [lia|].
        eapply plain_at_3; [exact H0|exact Hc1|exact Hc|reflexivity|reflexivity|].
        eapply is_simple_escape_plain; [| |exact Ese]; lia. }
      destruct (N.eqb_spec c 120) as [->|N120].
      { destruct (len l <? 5); [pe|]. pget h1 Hh1. destruct (isHexDigit h1) eqn:E1; cbn [negb]; [|pe].
        pget h2 Hh2. destruct (isHexDigit h2) eqn:E2; cbn [negb]; [|pe]. cbn [psafeE fst snd]. split; [lia|].
        change 5 with (3 + 2). apply plain_at_app.
        - eapply plain_at_3; [exact H0|exact Hc1|exact Hc|reflexivity|reflexivity|reflexivity].
        - eapply plain_at_2; [exact Hh1|exact Hh2| |]; apply isHexDigit_plain; assumption. }
      destruct ((c =? 117) || (c =? 85)) eqn:Eu.
      { set (nn := if c =? 85 then 8 else 4). destruct (len l <? nn + 3); [pe|].
        pbe hr Hhr. destruct hr as [r|]; [|pe].
        destruct (bad_code_point r); [pe|]. cbn [psafeE fst snd]. split; [lia|].
        apply hex_run_plain in Hhr. rewrite N2Nat.id in Hhr.
        replace (nn + 3) with (3 + nn) by lia. apply plain_at_app; [|exact Hhr].
        eapply plain_at_3; [exact H0|exact Hc1|exact Hc|reflexivity|reflexivity|].
        destruct (orb_eqb2 _ _ _ Eu) as [-> | ->]; reflexivity. }
      destruct (is_oct c) eqn:Eo; [|pe].
      destruct (len l <? 5); [pe|]. pget o1 Ho1. destruct (is_oct o1) eqn:E1; cbn [negb]; [|pe].
      pget o2 Ho2. destruct (is_oct o2) eqn:E2; cbn [negb]; [|pe].
      match goal with |- context [if ?b then _ else _] => destruct b end; [pe|]. cbn [psafeE fst snd]. split; [lia|].
      change 5 with (3 + 2). apply plain_at_app.
      - eapply plain_at_3; [exact H0|exact Hc1|exact Hc|reflexivity|reflexivity|]. apply is_oct_plain; assumption.
      - eapply plain_at_2; [exact Ho1|exact Ho2| |]; apply is_oct_plain; assumption. }
    destruct (N.eqb_spec c1 10) as [->|N10]; [pe|].
    destruct (c1 =? 39); [pe|].
    pose proof (get_some _ _ _ Hc1) as Hlt.
    destruct (drop_cons_get _ _ Hlt) as (b0 & r0 & Hdr & Hg). rewrite Hc1 in Hg. injection Hg as <-.
    rewrite Hdr. destruct (decode_rune (c1 :: r0)) as [r w] eqn:Hd.
    destruct ((r =? rune_error) && Nat.eqb w 1) eqn:Ev; [pe|].
    destruct (r =? gen_lex_BOM); [pe|]. cbn [psafeE fst snd]. split; [lia|].
    destruct (decode_rune_width (c1 :: r0) r w ltac:(discriminate) Hd) as [Hw1 _].
    destruct (Nat.ltb_spec 1 w) as [Hwide|Hnarrow].
    + (* a rune of several bytes *)
      destruct (decode_chunk _ _ _ _ Hd N10) as [A1 _].
      replace (N.of_nat w + 1) with (1 + N.of_nat w) by lia.
      rewrite take_add, nolf_app, (take_1 _ _ H0), Hdr, take_nat, A1. reflexivity.
    + assert (w = 1%nat) by lia. subst w. cbn [N.of_nat Pos.of_succ_nat]. change (1 + 1) with 2.
      destruct (decode_w1 _ _ _ Hd) as [->|[Hlt1 ->]]; [discriminate|].
      eapply plain_at_2; [exact H0|exact Hc1|reflexivity|apply plain_lt; assumption].
  - intros [p wide] [H1 H2]. cbn [fst snd] in *.
    pstep; [|pe]. pgetis x Hx. destruct (N.eqb_spec x 39) as [->|N39]; cbn [negb]; [|pe].
    pbe l1 He. cbn [psafeE]. destruct wide.
    + assert (Hnl : nolf (take (p + 1) (l_src l)) = true).
      { rewrite (take_snoc _ _ _ Hx), nolf_app, H2. reflexivity. }
      destruct (emit_cols_cd _ _ (p + 1) _ _ He Hp ltac:(lia) Hnl) as [A B]. split; [exact A|lcbn; lia].
    + assert (Hpl : plain_at (l_src l) 0 (p + 1)) by (eapply plain_at_snoc; [exact H2|exact Hx|reflexivity]).
      destruct (emit_plain _ _ _ _ He Hp ltac:(lia) Hpl) as [A B]. split; [exact A|lcbn; lia].
Qed.

(* ---- numbers: every byte of a number is a plain byte ---- *)
Definition base_ok (b : N) : Prop := b = 2 \/ b = 8 \/ b = 10 \/ b = 16.
Definition numP (l : lexer) (st : nst) : Prop := plain_at (l_src l) 0 (n_p st) /\ base_ok (n_base st).

Lemma fix8_ok st : base_ok (n_base st) -> base_ok (fix8 st).
Proof. unfold fix8. destruct ((n_base st =? 8) && negb (n_0o st)); [right; right; left; reflexivity|auto]. Qed.

Ltac plain_c :=
  first [ reflexivity | assumption
        | apply isDecDigit_plain; assumption | apply isHexDigit_plain; assumption
        | apply isOctDigit_plain; assumption | apply isBinDigit_plain; assumption
        | apply is_digit09_plain; assumption
        | match goal with H : (_ =? _) || (_ =? _) = true |- _ => destruct (orb_eqb2 _ _ _ H) as [-> | ->]; reflexivity end ].

Lemma numP_snoc l st c b' d e o :
  numP l st -> get (l_src l) (n_p st) = Some c -> plain c = true -> base_ok b' ->
  numP l (mkN (n_p st + 1) b' d e o).
Proof.
  intros [P1 P2] Hg Hc Hb. split; cbn [n_p n_base]; [|exact Hb].
  eapply plain_at_snoc; [exact P1|exact Hg|exact Hc].
Qed.

Lemma num_prefix_pos l : TOK l -> psafe (num_prefix l) (numP l).
Proof.
  intros Ht.
  assert (H10 : base_ok 10) by (right; right; left; reflexivity).
  unfold num_prefix. cbv zeta. pget c Hc.
  eapply psafe_bind with (Q' := numP l).
  - destruct ((c =? 48) && (1 <? len l)) eqn:E0; [|cbn; split; [apply plain_at_0|exact H10]].
    apply andb_prop in E0. destruct E0 as [E0 _]. apply N.eqb_eq in E0. subst c. pget d Hd.
    match goal with |- context [n_p ?x] => set (st := x) end.
    assert (Hst : numP l st).
    { unfold st.
      destruct ((d =? 120) || (d =? 88)) eqn:E1.
      { split; cbn; [eapply plain_at_2; [exact Hc|exact Hd|reflexivity|plain_c]|right; right; right; reflexivity]. }
      destruct ((d =? 111) || (d =? 79)) eqn:E2.
      { split; cbn; [eapply plain_at_2; [exact Hc|exact Hd|reflexivity|plain_c]|right; left; reflexivity]. }
      destruct ((d =? 95) || is_digit09 d) eqn:E3.
      { split; cbn; [eapply plain_at_1; [exact Hc|reflexivity]|right; left; reflexivity]. }
      destruct ((d =? 98) || (d =? 66)) eqn:E4.
      { split; cbn; [eapply plain_at_2; [exact Hc|exact Hd|reflexivity|plain_c]|left; reflexivity]. }
      split; cbn; [apply plain_at_0|exact H10]. }
    clearbody st. pstep; [|cbn; exact Hst]. pgetis x Hx.
    destruct (N.eqb_spec x 95) as [->|N95]; [|cbn; exact Hst].
    assert (Hst1 : numP l (nset_p (n_p st + 1) st)) by (apply (numP_snoc l st 95); [exact Hst|exact Hx|reflexivity|apply Hst]).
    pstep; [pget e He; destruct (negb (isHexDigit e)); cbn; [pe|exact Hst1]|cbn; exact Hst1].
  - intros st1 Hst1. pstep; [|cbn; exact Hst1]. pgetis x Hx.
    destruct (N.eqb_spec x 46) as [->|N46]; [|cbn; exact Hst1].
    destruct (fix8 st1 <? 10); [pe|]. cbn [psafeE].
    apply (numP_snoc l st1 46); [exact Hst1|exact Hx|reflexivity|apply fix8_ok, Hst1].
Qed.

Lemma num_exponent_pos l st :
  TOK l -> numP l st -> psafe (num_exponent l st) (fun r => match r with Again s' => numP l s' | Stop s' => numP l s' end).
Proof.
  assert (H10 : base_ok 10) by (right; right; left; reflexivity).
  intros Ht Hst. unfold num_exponent. cbv zeta. pget e He.
  destruct ((e =? 101) || (e =? 69)) eqn:Ee.
  { destruct (n_base st =? 16); [destruct (n_dot st); [pe|cbn; exact Hst]|].
    destruct (N.eqb_spec (fix8 st) 10) as [E10|N10]; cbn [negb]; [|pe]. rewrite E10.
    assert (Hst0 : numP l (mkN (n_p st) 10 (n_dot st) (n_exp st) (n_0o st))) by (split; [apply Hst|exact H10]).
    cbn [n_exp n_p n_dot n_0o n_base]. destruct (negb (n_exp st =? 0)); [cbn; exact Hst0|].
    assert (Hst1 : forall ex, numP l (mkN (n_p st + 1) 10 (n_dot st) ex (n_0o st))).
    { intros ex. apply (numP_snoc l st e); [exact Hst|exact He|plain_c|exact H10]. }
    pstep; [|cbn; apply Hst1].
    pget f Hf. destruct ((f =? 43) || (f =? 45)) eqn:Es; cbn; [|apply Hst1].
    apply (numP_snoc l (mkN (n_p st + 1) 10 (n_dot st) 0 (n_0o st)) f); [apply Hst1|exact Hf|plain_c|exact H10]. }
  destruct ((e =? 112) || (e =? 80)) eqn:Ep; [|cbn; exact Hst].
  destruct (negb (n_base st =? 16)); [pe|].
  destruct (negb (n_exp st =? 0)); [cbn; exact Hst|].
  assert (Hst1 : forall ex, numP l (mkN (n_p st + 1) (n_base st) (n_dot st) ex (n_0o st))).
  { intros ex. apply (numP_snoc l st e); [exact Hst|exact He|plain_c|apply Hst]. }
  pstep; [|cbn; apply Hst1].
  pget f Hf. destruct ((f =? 43) || (f =? 45)) eqn:Es; cbn; [|apply Hst1].
  apply (numP_snoc l (mkN (n_p st + 1) (n_base st) (n_dot st) 0 (n_0o st)) f); [apply Hst1|exact Hf|plain_c|apply Hst].
Qed.

Lemma digits_body_pos l st :
  TOK l -> numP l st -> psafe (digits_body l st) (fun r => match r with Again s' => numP l s' | Stop s' => numP l s' end).
Proof.
  assert (H10 : base_ok 10) by (right; right; left; reflexivity).
  intros Ht Hst. unfold digits_body. cbv zeta.
  destruct (negb (n_p st <? len l)); [cbn; exact Hst|]. pget c Hc.
  eapply psafe_bind with (Q' := fun sw => match sw with Some b' => plain c = true /\ base_ok b' | None => True end).
  - destruct (N.eqb_spec (n_base st) 10) as [B10|NB10].
    { cbn. destruct (isDecDigit c) eqn:Ed; [split; [plain_c|rewrite B10; exact H10]|pe]. }
    destruct (N.eqb_spec (n_base st) 16) as [B16|NB16].
    { destruct (n_exp st =? 0); destruct (isHexDigit c) eqn:Eh; destruct (isDecDigit c) eqn:Ed; cbn [andb orb negb];
        try (destruct (n_dot st && true); pe); try (destruct (n_dot st && false); pe);
        cbn; (split; [plain_c|apply Hst]). }
    destruct (N.eqb_spec (n_base st) 8) as [B8|NB8].
    { destruct (isOctDigit c) eqn:Eo; cbn [negb]; [cbn; split; [plain_c|apply Hst]|].
      destruct (((c =? 56) || (c =? 57)) && negb (n_0o st)) eqn:E89.
      - apply andb_prop in E89. destruct E89 as [E89 _]. cbn. split; [plain_c|exact H10].
      - destruct (isDecDigit c); pe. }
    destruct (N.eqb_spec (n_base st) 2) as [B2|NB2].
    { destruct (isBinDigit c) eqn:Eb; cbn [negb]; [cbn; split; [plain_c|apply Hst]|]. destruct (isDecDigit c); pe. }
    exfalso. destruct Hst as [_ [Hb|[Hb|[Hb|Hb]]]]; congruence.
  - intros [b'|] Hsw; [|cbn; exact Hst]. destruct Hsw as [Hpc Hb'].
    assert (Hst1 : numP l (mkN (n_p st + 1) b' (n_dot st) (n_exp st) (n_0o st))) by (apply (numP_snoc l st c); assumption).
    set (st1 := mkN (n_p st + 1) b' (n_dot st) (n_exp st) (n_0o st)) in *.
    destruct (negb (n_p st + 1 <? len l)); [cbn; exact Hst1|]. pget d Hd.
    destruct (N.eqb_spec d 95) as [->|N95].
    { assert (Hst2 : numP l (nset_p (n_p st + 1 + 1) st1)) by (apply (numP_snoc l st1 95); [exact Hst1|exact Hd|reflexivity|apply Hst1]).
      pstep; [pget e He; destruct (negb (isHexDigit e)); cbn; exact Hst2|cbn; exact Hst2]. }
    destruct (N.eqb_spec d 46) as [->|N46]; [|apply num_exponent_pos; [exact Ht|exact Hst1]].
    destruct (n_dot st1 || negb (n_exp st1 =? 0)); [cbn; exact Hst1|].
    destruct (fix8 st1 <? 10); [pe|].
    assert (Hst2 : numP l (mkN (n_p st + 1 + 1) (fix8 st1) true (n_exp st1) (n_0o st1))).
    { apply (numP_snoc l st1 46); [exact Hst1|exact Hd|reflexivity|apply fix8_ok, Hst1]. }
    destruct (n_p st + 1 + 1 =? len l); [cbn; exact Hst2|apply num_exponent_pos; [exact Ht|exact Hst2]].
Qed.

Lemma lex_number_pos l :
  PC l -> psafe (lex_number l) (fun l' => PC l' /\ l_base l < l_base l').
Proof.
  intros Hp. assert (Ht : TOK l) by apply Hp. unfold lex_number. eapply psafe_bind; [apply num_prefix_pos; exact Ht|]. intros st0 Hst0.
  eapply psafe_bind; [apply (psafe_loop (digits_body l) (numP l) (numP l)); [intros s0 Hs0; apply digits_body_pos; assumption|exact Hst0]|].
  intros st [P1 P2]. cbv zeta.
  eapply psafe_bind; [apply ptest_idx_is|]. intros us _.
  destruct us; [pe|].
  destruct (N.eqb_spec (n_p st) 0) as [Hz|Hnz]; [pe|]. pget last Hlast.
  match goal with |- context [if ?b then Err l else _] => destruct b end; [pe|].
  match goal with |- context [if ?b then Err l else _] => destruct b end; [pe|].
  assert (Hemit : forall typ, psafe (let* l1 := emit typ (n_p st) l in Ok (addcol (n_p st) l1)) (fun l' => PC l' /\ l_base l < l_base l')).
  { intros typ. pbe l1 He. destruct (emit_plain _ _ _ _ He Hp ltac:(lia) P1) as [A B].
    cbn. split; [exact A|lia]. }
  pstep.
  - pgetis x Hx. destruct (N.eqb_spec x 105) as [->|N105].
    + pbe l1 He.
      assert (Hpl : plain_at (l_src l) 0 (n_p st + 1)) by (eapply plain_at_snoc; [exact P1|exact Hx|reflexivity]).
      destruct (emit_plain _ _ _ _ He Hp ltac:(lia) Hpl) as [A B]. cbn. split; [exact A|lia].
    + eapply psafe_bind with (Q' := fun _ => True); [unfold andm, idx_is, idx; destruct ((0 <? n_p st) && (n_base st =? 10)); [destruct (get (l_src l) 0)|]; exact I|]. intros oct _.
      eapply psafe_bind with (Q' := fun _ => True); [destruct oct; [destruct (len l <? n_p st)|]; exact I|]. intros bad89 _.
      destruct bad89; [pe|]. apply Hemit.
  - eapply psafe_bind with (Q' := fun _ => True); [unfold andm, idx_is, idx; destruct ((0 <? n_p st) && (n_base st =? 10)); [destruct (get (l_src l) 0)|]; exact I|]. intros oct _.
    eapply psafe_bind with (Q' := fun _ => True); [destruct oct; [destruct (len l <? n_p st)|]; exact I|]. intros bad89 _.
    destruct bad89; [pe|]. apply Hemit.
Qed.

(* ---- lexCode ---- *)
(* states that differ neither in the source, nor in the tokens, nor in the position *)
Definition same_pos (l l' : lexer) : Prop :=
  same_core l l' /\ l_line l' = l_line l /\ l_col l' = l_col l /\ l_cdev l' = l_cdev l /\ l_ldev l' = l_ldev l.
Lemma same_pos_PC l l' : same_pos l l' -> PC l -> PC l'.
Proof.
  intros (Hs & H1 & H2 & H3 & H4) [Hw Hsy]. split; [eapply same_core_WO; eauto|].
  destruct Hs as (_ & [Hb _] & _). rewrite Hb. eapply SY_eq; eauto.
Qed.
Lemma same_pos_refl l : same_pos l l.
Proof. repeat split. Qed.

(* when lexCode returns nil the closing delimiter, made of plain bytes, is in front *)
Definition closingP (endt : N) (l : lexer) : Prop :=
  plain_at (l_src l) 0 (if endt =? gen_tokenRightBraces then 2 else if endt =? gen_tokenEndStatement then 2
                        else if endt =? gen_tokenEndStatements then 3 else 0).

Definition CI (endt : N) (s : cst) : Prop :=
  PC (c_l s) /\ (c_elas s = true -> 1 <= l_base (c_l s)) /\ (c_ret s = true -> closingP endt (c_l s)).
Definition cpostP (endt : N) (r : step cst) : Prop :=
  match r with Again s' => CI endt s' /\ c_ret s' = false | Stop s' => CI endt s' end.

Lemma auto_semi_pos e l :
  PC l -> (e = true -> 1 <= l_base l) ->
  psafe (auto_semi e l) (fun l' => PC l' /\ l_base l' = l_base l /\ l_src l' = l_src l
                                   /\ l_line l' = l_line l /\ l_col l' = l_col l /\ l_cdev l' = l_cdev l /\ l_ldev l' = l_ldev l).
Proof.
  intros Hp He. unfold auto_semi. destruct e.
  - destruct (emit gen_tokenSemicolon 0 l) as [l'|lerr| |] eqn:E; try pe; [|noerr E]. cbn [psafeE].
    assert (Hsemi : 0 = 0 -> gen_tokenSemicolon = gen_tokenSemicolon -> 1 <= l_base l) by (intros _ _; apply He; reflexivity).
    destruct (emit_PC _ _ _ _ E Hp Hsemi) as (Hw1 & _ & Hs1 & Hb1 & Hl1 & Hc1 & Hcd1 & Hld1 & _).
    rewrite N.add_0_r in Hb1. change (drop 0 (l_src l)) with (l_src l) in Hs1.
    split; [split; [exact Hw1|rewrite Hb1; eapply SY_eq; [exact Hl1|exact Hc1|exact Hcd1|exact Hld1|apply Hp]]|].
    auto 10.
  - cbn. split; [exact Hp|]. auto 10.
Qed.

Lemma opk_pos endt typ n e s :
  CI endt s -> c_ret s = false -> 1 <= n -> plain_at (l_src (c_l s)) 0 n -> psafe (opk typ n e s) (cpostP endt).
Proof.
  intros (Hp & Hel & _) Hret Hn Hpl. unfold opk. eapply psafe_bind; [apply emitc_plain; assumption|].
  intros l1 [A B]. unfold cpostP, CI. cbn [psafeE c_l c_elas c_ret cset_l].
  split; [|exact Hret]. split; [exact A|]. split; [intros _; lia|]. rewrite Hret. discriminate.
Qed.

(* the byte order mark is three bytes, none a new line *)
Lemma decode_bom b0 r0 w : decode_rune (b0 :: r0) = (gen_lex_BOM, w) -> w = 3%nat.
Proof.
  intros Hd. pose proof (decode_rune_shape b0 r0) as Hs. rewrite Hd in Hs. cbn [fst snd] in Hs.
  change gen_lex_BOM with 65279 in Hs. unfold rune_error in Hs.
  inversion Hs; subst; try reflexivity; lia.
Qed.

Lemma code_ident_pos endt first c s :
  CI endt s -> c_ret s = false -> get (l_src (c_l s)) 0 = Some c ->
  psafe (code_ident U endt first c s) (cpostP endt).
Proof.
  intros (Hp & Hel & _) Hret Hc. pose proof (get_some _ _ _ Hc) as Hlen. fold (len (c_l s)) in Hlen.
  destruct (drop_cons_get _ _ Hlen) as (b0 & r0 & Hdr & Hg). rewrite Hc in Hg. injection Hg as <-.
  change (drop 0 (l_src (c_l s))) with (l_src (c_l s)) in Hdr.
  unfold code_ident. cbv zeta.
  eapply psafe_bind with (Q' := fun r => match r with
                                         | None => nolf (take 3 (l_src (c_l s))) = true
                                         | Some x => PC (fst (fst x)) /\ l_base (c_l s) < l_base (fst (fst x)) end).
  - destruct ((c =? 95) || ((c <? 128) && u_letter U c)) eqn:E1.
    + assert (Hpc : plain c = true).
      { apply orb_prop in E1. destruct E1 as [E1|E1]; [apply N.eqb_eq in E1; subst c; reflexivity|].
        apply andb_prop in E1. destruct E1 as [E1 E2]. apply N.ltb_lt in E1. apply plain_lt; [exact E1|].
        intros ->. destruct HU as (_ & _ & U3 & _). congruence. }
      destruct (plain_all [c] ltac:(cbn; rewrite Hpc; reflexivity)) as [A1 A2].
      eapply psafe_bind; [apply lex_ident_pos; [exact Hp|lia|lia|rewrite (take_1 _ _ Hc); exact A1|rewrite (take_1 _ _ Hc); exact A2]|].
      intros [[l1 t] x] Hq. exact Hq.
    + rewrite Hdr. destruct (decode_rune (c :: r0)) as [r w] eqn:Hd.
      destruct (u_letter U r) eqn:El; cbn [negb].
      * assert (Hid : negb (r =? 95) && negb (u_letter U r) && negb (u_digit U r) = false)
          by (rewrite El; cbn [negb]; rewrite andb_false_r; reflexivity).
        destruct (ident_char _ _ _ _ Hd Hid) as [A1 A2].
        destruct (decode_rune_width (c :: r0) r w ltac:(discriminate) Hd) as [Hw1 Hw2].
        assert (Hw3 : N.of_nat w <= len (c_l s)) by (unfold len; rewrite Hdr, nlen_eq; lia).
        eapply psafe_bind; [apply lex_ident_pos; [exact Hp|lia|exact Hw3|rewrite Hdr, take_nat; exact A1|rewrite Hdr, take_nat; exact A2]|].
        intros [[l1 t] x] Hq. exact Hq.
      * destruct (N.eqb_spec r gen_lex_BOM) as [->|NB]; [|pe].
        destruct (l_base (c_l s) =? 0); [|pe]. cbn [psafeE].
        pose proof (decode_bom _ _ _ Hd) as ->.
        assert (Hc10 : c <> 10) by (intros ->; rewrite decode_ascii in Hd by lia; discriminate).
        destruct (decode_chunk _ _ _ _ Hd Hc10) as [A1 _]. exact A1.
  - intros [[[l1 typ] txt]|] Hr.
    + cbn [fst] in Hr. destruct Hr as [Hp1 Hb1].
      match goal with |- context [Ok (Again (cset_l (c_l ?s1) ?e ?s1'))] => set (S1 := s1) end.
      assert (Hs1 : same_pos l1 (c_l S1)).
      { unfold S1. repeat match goal with |- context [if ?b then _ else _] => destruct b end;
          try destruct (l_ctxs l1); cbn; repeat split. }
      assert (Hr1 : c_ret S1 = c_ret s).
      { unfold S1. repeat match goal with |- context [if ?b then _ else _] => destruct b end;
          try destruct (l_ctxs l1); reflexivity. }
      cbn [psafeE cpostP]. split; [|cbn [c_ret cset_l]; rewrite Hr1; exact Hret].
      split; [cbn [c_l cset_l]; eapply same_pos_PC; eauto|].
      assert (Hbb : l_base (c_l S1) = l_base l1) by apply Hs1.
      split; [cbn [c_l cset_l]; intros _; lia|]. cbn [c_ret cset_l]. rewrite Hr1, Hret. discriminate.
    + pbe l1 Ha. cbn [psafeE cpostP].
      destruct (advance_inv _ _ _ Ha) as [Hn ->]. pose proof Hp as [[Hw Hf] Hsy].
      split; [|exact Hret]. split; [|split; [cbn; intros _; lia|cbn; rewrite Hret; discriminate]].
      cbn [c_l cset_l]. split; [eapply same_core_WO; [|eapply advance_WO; [exact Ha|exact (proj1 Hp)]]; repeat split|].
      lcbn. eapply SY_move_cd; [exact Hsy|rewrite (wf_take _ _ _ Hw); exact Hr|reflexivity|reflexivity|reflexivity].
Qed.

Ltac oeq_subst :=
  repeat match goal with
  | H : oeq (Some ?x) ?k = true |- _ => cbn [oeq] in H; apply N.eqb_eq in H; subst x
  | H : oeq None _ = true |- _ => discriminate H
  | H : (?x =? ?k) = true |- _ => is_var x; apply N.eqb_eq in H; subst x
  end.
Ltac cstepP := first [progress cbn [oeq] | progress cbv iota | pstep].

Lemma code_body_pos endt first s :
  CI endt s -> c_ret s = false -> psafe (code_body U endt first s) (cpostP endt).
Proof.
  intros HCI Hret. pose proof HCI as (Hp & Hel & _). pose proof Hp as [[Hw Hf] Hsy]. unfold code_body.
  destruct (len (c_l s) =? 0); [cbn; exact HCI|]. pget c Hc.
  assert (Hsub : forall (f : lexer -> res lexer) e,
            psafe (f (c_l s)) (fun l' => PC l' /\ l_base (c_l s) < l_base l') ->
            psafe (let* l1 := f (c_l s) in Ok (Again (cset_l l1 e s))) (cpostP endt)).
  { intros f e Hfp. eapply psafe_bind; [exact Hfp|]. intros l1 [A B]. unfold cpostP, CI. cbn [psafeE c_l c_elas c_ret cset_l].
    split; [|exact Hret]. split; [exact A|]. split; [intros _; lia|]. rewrite Hret. discriminate. }
  assert (Hws : forall cc, get (l_src (c_l s)) 0 = Some cc -> plain cc = true ->
            psafe (let* l1 := advance 1 (c_l s) in Ok (Again (cset_l (addcol 1 l1) (c_elas s) s))) (cpostP endt)).
  { intros cc Hcc Hpl. pbe l1 Ha. destruct (advance_inv _ _ _ Ha) as [Hn ->].
    unfold cpostP, CI. cbn [psafeE c_l c_elas c_ret cset_l]. split; [|exact Hret].
    split; [|split; [lcbn; intros _; lia|rewrite Hret; discriminate]].
    split; [eapply same_core_WO; [|eapply advance_WO; [exact Ha|exact (proj1 Hp)]]; repeat split|].
    lcbn. eapply SY_plain; [exact Hsy| |lcbn; reflexivity|lcbn; reflexivity|lcbn; reflexivity|lcbn; reflexivity].
    eapply plain_at_1; [rewrite <- (N.add_0_r (l_base (c_l s))); eapply wf_get; [exact Hw|exact Hcc]|exact Hpl]. }
  Ltac opk_tac HCI Hret Hc :=
    oeq_subst; apply opk_pos;
    [exact HCI|exact Hret|lia|
     first [eapply plain_at_3; [exact Hc|eassumption|eassumption|reflexivity|reflexivity|reflexivity]
           |eapply plain_at_2; [exact Hc|eassumption|reflexivity|reflexivity]
           |eapply plain_at_1; [exact Hc|reflexivity]]].
  destruct (N.eqb_spec c 34) as [->|N34]; [apply Hsub, lex_string_pos; assumption|].
  destruct (N.eqb_spec c 96) as [->|N96]; [apply Hsub, lex_raw_string_pos; assumption|].
  destruct (N.eqb_spec c 39) as [->|N39]; [apply Hsub, lex_rune_pos; assumption|].
  destruct (N.eqb_spec c 46) as [->|N46].
  { pstep.
    - repeat cstepP; opk_tac HCI Hret Hc.
    - destruct (is_digit09 x); [apply Hsub, lex_number_pos; assumption|].
      repeat cstepP; opk_tac HCI Hret Hc. }
  destruct (is_digit09 c); [apply Hsub, lex_number_pos; assumption|].
  repeat (match goal with |- context [if c =? ?k then _ else _] => destruct (N.eqb_spec c k) as [->|?] end;
    [try solve [repeat cstepP; opk_tac HCI Hret Hc]|]).
  all: try solve [opk_tac HCI Hret Hc].
  all: try solve [apply code_ident_pos; assumption].
  - (* slash *)
    pstep; cbn [oeq]; [opk_tac HCI Hret Hc|].
    destruct (N.eqb_spec x 47) as [->|N47].
    { destruct (index_nl_bom (l_src (c_l s))) as [p|] eqn:Ein; [|cbn; exact HCI].
      pget y Hy. destruct (N.eqb_spec y 10) as [->|Ny]; cbn [negb]; [|pe].
      pbe l1 Ha. destruct (advance_inv _ _ _ Ha) as [Hn ->].
      set (l1 := mark_cdev _).
      assert (Hp1 : PC l1).
      { split; [eapply same_core_WO; [|eapply advance_WO; [exact Ha|exact (proj1 Hp)]]; repeat split|].
        unfold l1. lcbn. eapply SY_move_cd; [exact Hsy|rewrite (wf_take _ _ _ Hw); apply index_nl_bom_some; exact Ein
                                          |reflexivity|reflexivity|reflexivity]. }
      eapply psafe_bind; [apply (auto_semi_pos (c_elas s) l1 Hp1); unfold l1; lcbn; intros He; specialize (Hel He); lia|].
      intros l2 (Hp2 & Hb2 & Hs2 & Hl2 & Hc2 & Hcd2 & Hld2).
      pbe l3 Ha3. destruct (advance_inv _ _ _ Ha3) as [Hn3 ->].
      unfold cpostP, CI. cbn [psafeE c_l c_elas c_ret cset_l].
      split; [|exact Hret]. split; [|split; [discriminate|rewrite Hret; discriminate]].
      split; [eapply advance_WO; [exact Ha3|eapply same_core_WO; [|exact (proj1 Hp2)]; auto with sc]|].
      lcbn. destruct Hp2 as [[Hw2 _] Hsy2].
      eapply SY_nl; [exact Hsy2| |lcbn; reflexivity|lcbn; reflexivity|lcbn; reflexivity|lcbn; reflexivity].
      rewrite <- (N.add_0_r (l_base l2)). eapply wf_get; [exact Hw2|].
      rewrite Hs2. unfold l1. lcbn. rewrite get_drop0. exact Hy. }
    destruct (N.eqb_spec x 42) as [->|N42]; [|destruct (x =? 61) eqn:E61; [apply N.eqb_eq in E61; subst x|]; opk_tac HCI Hret Hc].
    pbe l1 Ha. destruct (advance_inv _ _ _ Ha) as [Hn ->].
    set (l1 := set_src _ _ _). assert (Hs1 : l_src l1 = drop 2 (l_src (c_l s))) by reflexivity.
    destruct (index (l_src l1) [42; 47]) as [p|] eqn:Eix; [|pe].
    cbv zeta.
    eapply psafe_bind with (Q' := fun badbom : bool => badbom = false ->
              match index_nl_bom (take p (l_src l1)) with Some _ => 1 <= cnl (take p (l_src l1)) | None => True end).
    { destruct (index_nl_bom (take p (l_src l1))) as [k|] eqn:Enl; [|cbn; auto].
      pget y Hy. cbn [psafeE]. intros Hb. apply negb_false_iff, N.eqb_eq in Hb. subst y.
      apply index_nl_bom_bound in Enl. eapply cnl_take_ge; [exact Hy|].
      assert (nlen (take p (l_src l1)) <= p) by (unfold take; rewrite nlen_eq, firstn_length; lia). lia. }
    intros badbom Hbb. destruct badbom; [pe|]. specialize (Hbb eq_refl).
    pbe l2 Ha2. destruct (advance_inv _ _ _ Ha2) as [Hn2 ->].
    (* the bytes of the comment: slash star, p bytes, star slash *)
    assert (Hbytes : take (2 + (p + 2)) (l_src (c_l s)) = [47; 42] ++ take p (l_src l1) ++ [42; 47]).
    { rewrite take_add. f_equal.
      - change 2 with (1 + 1). rewrite (take_snoc _ _ _ Hx), (take_1 _ _ Hc). reflexivity.
      - rewrite <- Hs1, take_add. f_equal. apply index_prefix in Eix. apply has_prefix_take in Eix. exact Eix. }
    assert (Hcnl : cnl (take (2 + (p + 2)) (l_src (c_l s))) = cnl (take p (l_src l1))).
    { rewrite Hbytes, !cnl_app. cbn [cnl]. change (47 =? 10) with false. change (42 =? 10) with false. cbv iota. lia. }
    assert (Hbase : l_base l1 + (p + 2) = l_base (c_l s) + (2 + (p + 2))) by (unfold l1; lcbn; lia).
    assert (HWO : forall l', same_core (set_src (drop (p + 2) (l_src l1)) (l_base l1 + (p + 2)) l1) l' -> WO text l').
    { intros l' Hsc. eapply same_core_WO; [exact Hsc|]. eapply advance_WO; [exact Ha2|]. eapply advance_WO; [exact Ha|exact (proj1 Hp)]. }
    destruct (index_nl_bom (take p (l_src l1))) as [k|] eqn:Enl.
    + (* the comment holds a new line *)
      set (l2 := mark_cdev _).
      unfold auto_semi_dev. eapply psafe_bind with (Q' := fun l3 => WO text l3 /\ l_base l3 = l_base l2 /\ l_line l3 = l_line l2 /\ l_ldev l3 = l_ldev l2).
      { destruct (c_elas s); [|cbn; split; [apply HWO; repeat split|auto]].
        destruct (emit_at (l_line l2) (l_col l2) true true gen_tokenSemicolon 0 l2) as [l3|lerr| |] eqn:E3; try pe; [|noerr E3]. cbn [psafeE].
        destruct (emit_at_WO_ld text _ _ _ _ _ _ _ E3 ltac:(apply HWO; repeat split)) as (A & _ & _ & B & C & _ & _ & D & _).
        rewrite N.add_0_r in B. auto. }
      intros l3 (Hw3 & Hb3 & Hl3 & Hld3). unfold cpostP, CI. cbn [psafeE c_l c_elas c_ret cset_l].
      split; [|exact Hret]. split; [|split; [discriminate|rewrite Hret; discriminate]].
      destruct (1 <? count_nl (take p (l_src l1))) eqn:Emany.
      * split; [eapply same_core_WO; [|exact Hw3]; repeat split|apply SY_ld; reflexivity].
      * split; [eapply same_core_WO; [|exact Hw3]; repeat split|]. lcbn. rewrite Hb3. unfold l2. lcbn. rewrite Hbase.
        unfold SY. lcbn. rewrite Hl3, Hld3. unfold l2, l1. lcbn.
        eapply synced_cd; [exact Hsy|rewrite (wf_take _ _ _ Hw); reflexivity|].
        rewrite Hcnl. apply N.ltb_ge in Emany. rewrite <- cnl_count_nl in Emany. lia.
    + (* no new line in the comment *)
      unfold cpostP, CI. cbn [psafeE c_l c_elas c_ret cset_l].
      split; [|exact Hret]. split; [|split; [lcbn; intros _; lia|rewrite Hret; discriminate]].
      split; [apply HWO; repeat split|]. lcbn. rewrite Hbase.
      unfold SY. lcbn. unfold l1. lcbn.
      eapply synced_cd; [exact Hsy|rewrite (wf_take _ _ _ Hw); reflexivity|].
      rewrite Hcnl. apply index_nl_bom_none, nolf_cnl in Enl. rewrite Enl. lia.
  - (* percent *)
    apply pnxt; [intros Hn1|intros x Hx]; cbn [oeq]; [opk_tac HCI Hret Hc|].
    destruct (N.eqb_spec x 125) as [->|N125].
    { destruct (endt =? gen_tokenEndStatement) eqn:Ees.
      - match goal with |- context [creturn ?L s] => set (L0 := L) end.
        assert (Hsp : same_pos (c_l s) L0).
        { unfold L0. destruct (c_idi s =? l_tot (c_l s)); [destruct (find_index gen_formatTypeName (c_idt s) 0)|]; repeat split. }
        unfold cpostP, CI. cbn [psafeE c_l c_elas c_ret creturn].
        assert (Hb0 : l_base L0 = l_base (c_l s)) by apply Hsp. assert (Hs0 : l_src L0 = l_src (c_l s)) by apply Hsp.
        split; [eapply same_pos_PC; eauto|]. split; [rewrite Hb0; exact Hel|]. intros _.
        unfold closingP. rewrite Ees, Hs0. destruct (endt =? gen_tokenRightBraces);
          (eapply plain_at_2; [exact Hc|exact Hx|reflexivity|reflexivity]).
      - destruct ((endt =? gen_tokenRightBraces) || (endt =? gen_tokenEndStatements)); [pe|opk_tac HCI Hret Hc]. }
    destruct (N.eqb_spec x 37) as [->|N37].
    { apply pnxt; [intros Hn2|intros y Hy]; cbn [oeq negb]; [opk_tac HCI Hret Hc|].
      destruct (N.eqb_spec y 125) as [->|Ny]; cbn [negb]; [|opk_tac HCI Hret Hc].
      destruct (endt =? gen_tokenEndStatements) eqn:Ees.
      - eapply psafe_bind; [apply (auto_semi_pos (c_elas s) (c_l s) Hp Hel)|].
        intros l1 (Hp1 & Hb1 & Hs1 & _). unfold cpostP, CI. cbn [psafeE c_l c_elas c_ret creturn].
        split; [exact Hp1|]. split; [rewrite Hb1; exact Hel|]. intros _.
        apply N.eqb_eq in Ees. subst endt. unfold closingP. rewrite Hs1.
        change (gen_tokenEndStatements =? gen_tokenRightBraces) with false. change (gen_tokenEndStatements =? gen_tokenEndStatement) with false.
        change (gen_tokenEndStatements =? gen_tokenEndStatements) with true. cbv iota.
        eapply plain_at_3; [exact Hc|exact Hx|exact Hy|reflexivity|reflexivity|reflexivity].
      - destruct ((endt =? gen_tokenRightBraces) || (endt =? gen_tokenEndStatement)); [pe|opk_tac HCI Hret Hc]. }
    destruct (x =? 61) eqn:E61; opk_tac HCI Hret Hc.
  - (* left brace *)
    eapply psafe_bind; [apply emitc_plain; [exact Hp|lia|eapply plain_at_1; [exact Hc|reflexivity]]|].
    intros l1 [A B]. destruct (endt =? gen_tokenRightBraces); unfold cpostP, CI; cbn [psafeE c_l c_elas c_ret cset_l cset_ulb];
      (split; [|exact Hret]); (split; [exact A|]); (split; [discriminate|rewrite Hret; discriminate]).
  - (* right brace *)
    eapply psafe_bind with (Q' := fun r => match r with
                                            | Some s1 => c_l s1 = c_l s /\ c_ret s1 = c_ret s /\ c_elas s1 = c_elas s
                                            | None => closingP endt (c_l s) end).
    + destruct (endt =? gen_tokenRightBraces) eqn:Erb; [|cbn; auto].
      assert (Hsome : forall s1, (s1 = s \/ s1 = cset_ulb (c_ulb s - 1) s) -> c_l s1 = c_l s /\ c_ret s1 = c_ret s /\ c_elas s1 = c_elas s)
        by (intros s1 [-> | ->]; repeat split).
      assert (Hs' : c_l (if 0 <? c_ulb s then cset_ulb (c_ulb s - 1) s else s) = c_l s /\
                    c_ret (if 0 <? c_ulb s then cset_ulb (c_ulb s - 1) s else s) = c_ret s /\
                    c_elas (if 0 <? c_ulb s then cset_ulb (c_ulb s - 1) s else s) = c_elas s)
        by (destruct (0 <? c_ulb s); repeat split).
      apply pnxt; [intros Hn1|intros y Hy]; cbn [oeq]; [rewrite bind_ok; cbn; exact Hs'|].
      destruct (N.eqb_spec y 125) as [->|Ny]; [|rewrite bind_ok; cbn; exact Hs'].
      assert (Hcl : closingP endt (c_l s)).
      { unfold closingP. rewrite Erb. eapply plain_at_2; [exact Hc|exact Hy|reflexivity|reflexivity]. }
      destruct (c_ulb s =? 0); [rewrite bind_ok; cbn; exact Hcl|].
      destruct (c_ulb s =? 1); [|rewrite bind_ok; cbn; exact Hs'].
      rewrite bind_assoc. apply pnxt; [intros Hn2|intros z Hz]; rewrite !bind_ok; cbn [oeq negb]; [cbn; exact Hcl|].
      destruct (z =? 125); cbn; [exact Hs'|exact Hcl].
    + intros [s1|] Hs1.
      * destruct Hs1 as (E1 & E2 & E3). apply opk_pos; [|rewrite E2; exact Hret|lia|rewrite E1; eapply plain_at_1; [exact Hc|reflexivity]].
        unfold CI. rewrite E1, E2, E3. exact HCI.
      * unfold cpostP, CI. cbn [psafeE c_l c_elas c_ret creturn]. split; [exact Hp|]. split; [exact Hel|]. intros _. exact Hs1.
  - (* new line *)
    change ((10 =? 32) || (10 =? 9) || (10 =? 13)) with false. cbv iota.
    eapply psafe_bind; [apply (auto_semi_pos (c_elas s) (c_l s) Hp Hel)|].
    intros l1 (Hp1 & Hb1 & Hs1 & Hl1 & Hc1 & Hcd1 & Hld1).
    pbe l2 Ha2. destruct (advance_inv _ _ _ Ha2) as [Hn2 ->].
    unfold cpostP, CI. cbn [psafeE c_l c_elas c_ret cset_l].
    split; [|exact Hret]. split; [|split; [discriminate|rewrite Hret; discriminate]].
    split; [eapply advance_WO; [exact Ha2|eapply same_core_WO; [|exact (proj1 Hp1)]; auto with sc]|].
    lcbn. destruct Hp1 as [[Hw1 _] Hsy1].
    eapply SY_nl; [exact Hsy1| |lcbn; reflexivity|lcbn; reflexivity|lcbn; reflexivity|lcbn; reflexivity].
    rewrite <- (N.add_0_r (l_base l1)). eapply wf_get; [exact Hw1|]. rewrite Hs1. exact Hc.
  - change ((0 =? 32) || (0 =? 9) || (0 =? 13)) with false. pe.
  - destruct ((c =? 32) || (c =? 9) || (c =? 13)) eqn:Ews; [|apply code_ident_pos; assumption].
    apply (Hws c Hc). repeat (apply orb_prop in Ews; destruct Ews as [Ews|Ews]); apply N.eqb_eq in Ews; subst c; reflexivity.
Qed.

Lemma lex_code_pos endt l :
  PC l -> psafe (lex_code U endt l) (fun l' => PC l' /\ closingP endt l').
Proof.
  intros Hp. unfold lex_code.
  assert (Hcl0 : forall l', endt = gen_tokenEOF -> closingP endt l') by (intros l' ->; apply plain_at_0).
  destruct (len l =? 0).
  { destruct (N.eqb_spec endt gen_tokenEOF) as [E|E]; cbn [negb]; [cbn; split; [exact Hp|apply Hcl0; exact E]|pe]. }
  eapply psafe_bind.
  - apply (psafe_loop (code_body U endt (l_tot l + 1))
             (fun s => CI endt s /\ c_ret s = false) (fun s => CI endt s)).
    + intros s (HCI & Hret). eapply psafe_mono; [apply code_body_pos; assumption|].
      intros [s'|s']; cbn [cpostP]; auto.
    + unfold CI. cbn [c_l c_elas c_ret]. split; [|reflexivity]. split; [exact Hp|]. split; discriminate.
  - intros s (Hp1 & Hel & Hcl). destruct (c_ret s) eqn:Er; [cbn; split; [exact Hp1|apply Hcl; reflexivity]|].
    destruct (N.eqb_spec endt gen_tokenEOF) as [E|E]; cbn [negb]; [|pe].
    eapply psafe_mono; [apply (auto_semi_pos (c_elas s) (c_l s) Hp1 Hel)|].
    intros l' (A & _). split; [exact A|apply Hcl0; exact E].
Qed.
End PosCode.
