(* Specification of the rounding helpers of the model (ConstsM.v: round_mag,
   round_pos, round_fl, round_Z, quo_bits, round_rat) over Q: the result is
   the element of the format (at most prec mantissa bits, exponent of the
   last place at least emin) nearest to the exact value, ties to even. *)
From Coq Require Import ZArith Bool Lia QArith Qpower Qabs Lqa.
From Verif Require Import Facts_consts ConstsM Consts_proofs Consts_proofs2 Consts_proofs3 Round_core.
Open Scope Z_scope.

(* ------------------------------------------------------------------ powers of two in Q *)

Definition T (k : Z) : Q := two ^ k.

Lemma two_pos : (0 < two)%Q.
Proof. reflexivity. Qed.

Lemma T_pos k : (0 < T k)%Q.
Proof. apply Qpower_0_lt. exact two_pos. Qed.

Lemma T_add a b : (T (a + b) == T a * T b)%Q.
Proof. apply Qpower_plus. exact two_nz. Qed.

Lemma T_Z k : 0 <= k -> (T k == inject_Z (2 ^ k))%Q.
Proof. intros H. symmetry. apply pow2_Q. exact H. Qed.

Lemma T_0 : (T 0 == 1)%Q.
Proof. reflexivity. Qed.

Lemma T_le a b : a <= b -> (T a <= T b)%Q.
Proof. intros H. apply Qpower_le_compat_l; [exact H|]. unfold two, Qle. cbn. lia. Qed.

Lemma T_lt a b : a < b -> (T a < T b)%Q.
Proof. intros H. apply Qpower_lt_compat_l; [exact H|]. reflexivity. Qed.

Lemma T_succ k : (T (k + 1) == 2 * T k)%Q.
Proof. rewrite T_add. change (T 1) with two. unfold two. ring. Qed.

Lemma T_half k : (T k == 2 * T (k - 1))%Q.
Proof. replace k with (k - 1 + 1) at 1 by lia. apply T_succ. Qed.

Lemma T_shift e sh : 0 <= sh -> (T (e + sh) == inject_Z (2 ^ sh) * T e)%Q.
Proof. intros H. rewrite T_add, (T_Z sh) by exact H. ring. Qed.

Lemma Qmul_le_r (a b c : Q) : (0 <= c -> a <= b -> a * c <= b * c)%Q.
Proof. intros Hc Hab. apply Qmult_le_compat_r; assumption. Qed.

Lemma inject_Z_le a b : a <= b -> (inject_Z a <= inject_Z b)%Q.
Proof. intros H. rewrite <- Zle_Qle. exact H. Qed.

Lemma inject_Z_lt a b : a < b -> (inject_Z a < inject_Z b)%Q.
Proof. intros H. rewrite <- Zlt_Qlt. exact H. Qed.

(* a # d as a quotient *)
Lemma Qmake_mult a (d : positive) : ((a # d) * inject_Z (Zpos d) == inject_Z a)%Q.
Proof. unfold Qeq, Qmult, inject_Z. cbn. lia. Qed.

(* ------------------------------------------------------------------ round_mag over Q *)

Section RoundMag.
  Variables (prec : Z) (emin : option Z).
  Hypothesis Hprec : 0 < prec.

  (* the exact value is (a # d) * 2^e; its integer part m = a / d is positive;
     sticky says whether a fraction was dropped; with a fraction the integer
     part has more than prec bits (as quo_bits ensures) *)
  Variables (a : Z) (d : positive) (e : Z).
  Let m := a / Zpos d.
  Let sticky := negb (a mod Zpos d =? 0).
  Hypothesis Hm : 0 < m.
  Hypothesis Hsticky : sticky = false \/ prec < bitlen m.

  Let x : Q := ((a # d) * T e)%Q.
  Let res := round_mag prec emin (Z.to_pos m) e sticky.
  Let q' := fst res.
  Let e' := snd res.
  Let R : Q := (inject_Z q' * T e')%Q.
  Let sh := round_shift prec emin (Z.to_pos m) e.

  Lemma rm_pos : Zpos (Z.to_pos m) = m.
  Proof. apply Z2Pos.id. exact Hm. Qed.

  Lemma rm_a_nonneg : 0 <= a.
  Proof.
    destruct (Z.lt_ge_cases a 0) as [H|H]; [|exact H].
    exfalso. unfold m in Hm. pose proof (Z.div_lt_upper_bound a (Zpos d) 0 ltac:(lia) ltac:(lia)). lia.
  Qed.

  Lemma rm_shape :
    e' = e + Z.max 0 sh /\ 0 <= q' <= 2 ^ prec /\
    (sh <= 0 -> q' = m) /\ (0 < sh -> q' = rne_shift m sh sticky).
  Proof.
    pose proof (round_mag_shape prec emin (Z.to_pos m) e sticky Hprec) as H.
    cbn zeta in H. fold sh res in H. unfold q', e'. destruct res as [q0 e0]. cbn [fst snd].
    rewrite rm_pos in H. exact H.
  Qed.

  Lemma rm_sh_pos_when_sticky : sticky = true -> 0 < sh.
  Proof.
    intros Hs. destruct Hsticky as [H|H]; [congruence|].
    unfold sh, round_shift. rewrite rm_pos. destruct emin; lia.
  Qed.

  (* the value of x in units of 2^e *)
  Lemma rm_x_scaled : (x * inject_Z (Zpos d) == inject_Z a * T e)%Q.
  Proof. unfold x. rewrite <- (Qmake_mult a d). ring. Qed.

  (* half an ulp, ties to even *)
  Theorem round_mag_half_ulp :
    (Qabs (x - R) <= (1 # 2) * T e')%Q /\
    ((Qabs (x - R) == (1 # 2) * T e')%Q -> Z.even q' = true).
  Proof.
    destruct rm_shape as [He' [Hq' [Hsh0 Hsh1]]].
    assert (Hd : (0 < inject_Z (Zpos d))%Q) by (apply (inject_Z_lt 0); lia).
    destruct (Z.lt_ge_cases 0 sh) as [Hsh|Hsh].
    - (* bits are dropped *)
      pose proof (rne_core a (Zpos d) sh ltac:(lia) Hsh rm_a_nonneg) as Hc. cbn zeta in Hc.
      fold m sticky in Hc. rewrite <- (Hsh1 Hsh) in Hc. destruct Hc as [[Hlo Hhi] [Heven _]].
      assert (Ee : e' = e + sh) by lia.
      (* x - R = (a - q' * 2^sh * d) / d * 2^e *)
      set (D := a - q' * 2 ^ sh * Zpos d) in *.
      assert (HD : ((x - R) * inject_Z (Zpos d) == inject_Z D * T e)%Q).
      { setoid_replace ((x - R) * inject_Z (Z.pos d))%Q
          with (x * inject_Z (Z.pos d) - R * inject_Z (Z.pos d))%Q by ring.
        rewrite rm_x_scaled. unfold R, D. rewrite Ee, T_shift by lia.
        unfold Zminus. rewrite inject_Z_plus, inject_Z_opp, !inject_Z_mult. ring. }
      assert (HU : (T e' * inject_Z (Zpos d) == inject_Z (2 ^ sh * Zpos d) * T e)%Q).
      { rewrite Ee, T_shift by lia. rewrite inject_Z_mult. ring. }
      assert (Hte : (0 < T e)%Q) by apply T_pos.
      assert (Hlo' : (- (inject_Z (2 ^ sh * Zpos d)) <= 2 * inject_Z D)%Q).
      { rewrite <- inject_Z_opp. change 2%Q with (inject_Z 2). rewrite <- inject_Z_mult. apply inject_Z_le. lia. }
      assert (Hhi' : (2 * inject_Z D <= inject_Z (2 ^ sh * Zpos d))%Q).
      { change 2%Q with (inject_Z 2). rewrite <- inject_Z_mult. apply inject_Z_le. lia. }
      split.
      + apply Qabs_Qle_condition.
        assert (G1 : (- ((1 # 2) * T e') * inject_Z (Zpos d) <= (x - R) * inject_Z (Zpos d))%Q).
        { rewrite HD. setoid_replace (- ((1 # 2) * T e') * inject_Z (Z.pos d))%Q
            with (- (1 # 2) * (T e' * inject_Z (Z.pos d)))%Q by ring. rewrite HU.
          setoid_replace (- (1 # 2) * (inject_Z (2 ^ sh * Z.pos d) * T e))%Q
            with (((1 # 2) * - inject_Z (2 ^ sh * Z.pos d)) * T e)%Q by ring.
          apply Qmul_le_r; [lra|]. lra. }
        assert (G2 : ((x - R) * inject_Z (Zpos d) <= ((1 # 2) * T e') * inject_Z (Zpos d))%Q).
        { rewrite HD. setoid_replace ((1 # 2) * T e' * inject_Z (Z.pos d))%Q
            with ((1 # 2) * (T e' * inject_Z (Z.pos d)))%Q by ring. rewrite HU.
          setoid_replace ((1 # 2) * (inject_Z (2 ^ sh * Z.pos d) * T e))%Q
            with (((1 # 2) * inject_Z (2 ^ sh * Z.pos d)) * T e)%Q by ring.
          apply Qmul_le_r; [lra|]. lra. }
        split; [apply (Qmult_le_r _ _ _ Hd); exact G1|apply (Qmult_le_r _ _ _ Hd); exact G2].
      + intros Heq. apply Heven.
        (* |x - R| * d = |D| * 2^e and (1/2) 2^e' d = (1/2) 2^sh d 2^e *)
        assert (HA : (Qabs (x - R) * inject_Z (Zpos d) == inject_Z (Z.abs D) * T e)%Q).
        { rewrite <- (Qabs_pos (inject_Z (Zpos d))) at 1 by lra. rewrite <- Qabs_Qmult, HD, Qabs_Qmult.
          rewrite (Qabs_pos (T e)) by lra. reflexivity. }
        rewrite Heq in HA.
        setoid_replace ((1 # 2) * T e' * inject_Z (Z.pos d))%Q
            with ((1 # 2) * (T e' * inject_Z (Z.pos d)))%Q in HA by ring.
        rewrite HU in HA.
        assert (HB : ((1 # 2) * inject_Z (2 ^ sh * Z.pos d) == inject_Z (Z.abs D))%Q).
        { apply (Qmult_inj_r _ _ (T e)); [lra|]. rewrite <- HA. ring. }
        assert (HC : (inject_Z (2 ^ sh * Z.pos d) == inject_Z (2 * Z.abs D))%Q).
        { rewrite (inject_Z_mult 2 (Z.abs D)). change (inject_Z 2) with 2%Q. lra. }
        pose proof (proj1 (inject_Z_injective _ _) HC) as HC2. lia.
    - (* nothing is dropped: the value is exact *)
      assert (Hs : sticky = false).
      { destruct (Bool.bool_dec sticky true) as [Es|Es]; [pose proof (rm_sh_pos_when_sticky Es); lia|].
        apply not_true_is_false. exact Es. }
      assert (Hmod : a mod Zpos d = 0).
      { unfold sticky in Hs. apply negb_false_iff in Hs. apply Z.eqb_eq in Hs. exact Hs. }
      assert (Ea : a = m * Zpos d).
      { unfold m. pose proof (Z.div_mod a (Zpos d) ltac:(lia)). lia. }
      assert (Ex : (x == R)%Q).
      { unfold x, R. rewrite (Hsh0 Hsh). replace e' with e by lia.
        apply (Qmult_inj_r _ _ (inject_Z (Zpos d))); [lra|].
        setoid_replace ((a # d) * T e * inject_Z (Z.pos d))%Q with (((a # d) * inject_Z (Z.pos d)) * T e)%Q by ring.
        rewrite Qmake_mult. rewrite Ea at 1. rewrite inject_Z_mult. ring. }
      assert (E0 : (x - R == 0)%Q) by lra.
      pose proof (T_pos e') as Hte.
      split.
      + rewrite E0. cbn [Qabs Z.abs]. change (Qabs 0) with 0%Q. lra.
      + rewrite E0. change (Qabs 0) with 0%Q. intros Hc. exfalso. lra.
  Qed.
End RoundMag.
