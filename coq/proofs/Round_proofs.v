(* Specification of the rounding helpers of the model (ConstsM.v: round_mag,
   round_pos, round_fl, round_Z, quo_bits, round_rat) over Q: the result is
   the element of the format (at most prec mantissa bits, exponent of the
   last place at least emin) nearest to the exact value, ties to even. *)
From Coq Require Import ZArith Bool Lia QArith Qpower Qabs Lqa.
From Verif Require Import Facts_consts ConstsM Consts_proofs Consts_proofs2 Consts_proofs3 Round_core.
Open Scope Z_scope.

(* ------------------------------------------------------------------ powers of two in Q *)

Definition T (k : Z) : Q := two ^ k.

Lemma two_pos : (0 < two)%Q.
Proof. reflexivity. Qed.

Lemma T_pos k : (0 < T k)%Q.
Proof. apply Qpower_0_lt. exact two_pos. Qed.

Lemma T_add a b : (T (a + b) == T a * T b)%Q.
Proof. apply Qpower_plus. exact two_nz. Qed.

Lemma T_Z k : 0 <= k -> (T k == inject_Z (2 ^ k))%Q.
Proof. intros H. symmetry. apply pow2_Q. exact H. Qed.

Lemma T_0 : (T 0 == 1)%Q.
Proof. reflexivity. Qed.

Lemma T_le a b : a <= b -> (T a <= T b)%Q.
Proof. intros H. apply Qpower_le_compat_l; [exact H|]. unfold two, Qle. cbn. lia. Qed.

Lemma T_lt a b : a < b -> (T a < T b)%Q.
Proof. intros H. apply Qpower_lt_compat_l; [exact H|]. reflexivity. Qed.

Lemma T_succ k : (T (k + 1) == 2 * T k)%Q.
Proof. rewrite T_add. change (T 1) with two. unfold two. ring. Qed.

Lemma T_half k : (T k == 2 * T (k - 1))%Q.
Proof. replace k with (k - 1 + 1) at 1 by lia. apply T_succ. Qed.

Lemma T_shift e sh : 0 <= sh -> (T (e + sh) == inject_Z (2 ^ sh) * T e)%Q.
Proof. intros H. rewrite T_add, (T_Z sh) by exact H. ring. Qed.

Lemma Qmul_le_r (a b c : Q) : (0 <= c -> a <= b -> a * c <= b * c)%Q.
Proof. intros Hc Hab. apply Qmult_le_compat_r; assumption. Qed.

Lemma inject_Z_le a b : a <= b -> (inject_Z a <= inject_Z b)%Q.
Proof. intros H. rewrite <- Zle_Qle. exact H. Qed.

Lemma inject_Z_lt a b : a < b -> (inject_Z a < inject_Z b)%Q.
Proof. intros H. rewrite <- Zlt_Qlt. exact H. Qed.

Lemma inject_Z_minus1 q : (inject_Z (q - 1) == inject_Z q - 1)%Q.
Proof. unfold Z.sub. rewrite inject_Z_plus, inject_Z_opp. reflexivity. Qed.

Lemma inject_Z_plus1 q : (inject_Z (q + 1) == inject_Z q + 1)%Q.
Proof. rewrite inject_Z_plus. reflexivity. Qed.

Lemma bitlen_bounds_Z z : 0 < z -> 2 ^ (bitlen z - 1) <= z < 2 ^ bitlen z.
Proof. intros H. destruct z as [|p|p]; try lia. apply bitlen_bounds. Qed.

Lemma bitlen_ge1_Z z : 0 < z -> 1 <= bitlen z.
Proof. intros H. destruct z as [|p|p]; try lia. apply bitlen_pos_ge1. Qed.

(* a # d as a quotient *)
Lemma Qmake_mult a (d : positive) : ((a # d) * inject_Z (Zpos d) == inject_Z a)%Q.
Proof. unfold Qeq, Qmult, inject_Z. cbn. lia. Qed.

(* ------------------------------------------------------------------ round_mag over Q *)

Section RoundMag.
  Variables (prec : Z) (emin : option Z).
  Hypothesis Hprec : 0 < prec.

  (* the exact value is (a # d) * 2^e; its integer part m = a / d is positive;
     sticky says whether a fraction was dropped; with a fraction the integer
     part has more than prec bits (as quo_bits ensures) *)
  Variables (a : Z) (d : positive) (e : Z).
  Let m := a / Zpos d.
  Let sticky := negb (a mod Zpos d =? 0).
  Hypothesis Hm : 0 < m.
  Hypothesis Hsticky : sticky = false \/ prec < bitlen m.

  Let x : Q := ((a # d) * T e)%Q.
  Let res := round_mag prec emin (Z.to_pos m) e sticky.
  Let q' := fst res.
  Let e' := snd res.
  Let R : Q := (inject_Z q' * T e')%Q.
  Let sh := round_shift prec emin (Z.to_pos m) e.

  Lemma rm_pos : Zpos (Z.to_pos m) = m.
  Proof. apply Z2Pos.id. exact Hm. Qed.

  Lemma rm_a_nonneg : 0 <= a.
  Proof.
    destruct (Z.lt_ge_cases a 0) as [H|H]; [|exact H].
    exfalso. unfold m in Hm. pose proof (Z.div_lt_upper_bound a (Zpos d) 0 ltac:(lia) ltac:(lia)). lia.
  Qed.

  Lemma rm_shape :
    e' = e + Z.max 0 sh /\ 0 <= q' <= 2 ^ prec /\
    (sh <= 0 -> q' = m) /\ (0 < sh -> q' = rne_shift m sh sticky).
  Proof.
    pose proof (round_mag_shape prec emin (Z.to_pos m) e sticky Hprec) as H.
    cbn zeta in H. fold sh res in H. unfold q', e'. destruct res as [q0 e0]. cbn [fst snd].
    rewrite rm_pos in H. exact H.
  Qed.

  Lemma rm_sh_pos_when_sticky : sticky = true -> 0 < sh.
  Proof.
    intros Hs. destruct Hsticky as [H|H]; [congruence|].
    unfold sh, round_shift. rewrite rm_pos. destruct emin; lia.
  Qed.

  (* the value of x in units of 2^e *)
  Lemma rm_x_scaled : (x * inject_Z (Zpos d) == inject_Z a * T e)%Q.
  Proof. unfold x. rewrite <- (Qmake_mult a d). ring. Qed.

  (* half an ulp, ties to even *)
  Theorem round_mag_half_ulp :
    (Qabs (x - R) <= (1 # 2) * T e')%Q /\
    ((Qabs (x - R) == (1 # 2) * T e')%Q -> Z.even q' = true).
  Proof.
    destruct rm_shape as [He' [Hq' [Hsh0 Hsh1]]].
    assert (Hd : (0 < inject_Z (Zpos d))%Q) by (apply (inject_Z_lt 0); lia).
    destruct (Z.lt_ge_cases 0 sh) as [Hsh|Hsh].
    - (* bits are dropped *)
      pose proof (rne_core a (Zpos d) sh ltac:(lia) Hsh rm_a_nonneg) as Hc. cbn zeta in Hc.
      fold m sticky in Hc. rewrite <- (Hsh1 Hsh) in Hc. destruct Hc as [[Hlo Hhi] [Heven _]].
      assert (Ee : e' = e + sh) by lia.
      (* x - R = (a - q' * 2^sh * d) / d * 2^e *)
      set (D := a - q' * 2 ^ sh * Zpos d) in *.
      assert (HD : ((x - R) * inject_Z (Zpos d) == inject_Z D * T e)%Q).
      { setoid_replace ((x - R) * inject_Z (Z.pos d))%Q
          with (x * inject_Z (Z.pos d) - R * inject_Z (Z.pos d))%Q by ring.
        rewrite rm_x_scaled. unfold R, D. rewrite Ee, T_shift by lia.
        unfold Zminus. rewrite inject_Z_plus, inject_Z_opp, !inject_Z_mult. ring. }
      assert (HU : (T e' * inject_Z (Zpos d) == inject_Z (2 ^ sh * Zpos d) * T e)%Q).
      { rewrite Ee, T_shift by lia. rewrite inject_Z_mult. ring. }
      assert (Hte : (0 < T e)%Q) by apply T_pos.
      assert (Hlo' : (- (inject_Z (2 ^ sh * Zpos d)) <= 2 * inject_Z D)%Q).
      { rewrite <- inject_Z_opp. change 2%Q with (inject_Z 2). rewrite <- inject_Z_mult. apply inject_Z_le. lia. }
      assert (Hhi' : (2 * inject_Z D <= inject_Z (2 ^ sh * Zpos d))%Q).
      { change 2%Q with (inject_Z 2). rewrite <- inject_Z_mult. apply inject_Z_le. lia. }
      split.
      + apply Qabs_Qle_condition.
        assert (G1 : (- ((1 # 2) * T e') * inject_Z (Zpos d) <= (x - R) * inject_Z (Zpos d))%Q).
        { rewrite HD. setoid_replace (- ((1 # 2) * T e') * inject_Z (Z.pos d))%Q
            with (- (1 # 2) * (T e' * inject_Z (Z.pos d)))%Q by ring. rewrite HU.
          setoid_replace (- (1 # 2) * (inject_Z (2 ^ sh * Z.pos d) * T e))%Q
            with (((1 # 2) * - inject_Z (2 ^ sh * Z.pos d)) * T e)%Q by ring.
          apply Qmul_le_r; [lra|]. lra. }
        assert (G2 : ((x - R) * inject_Z (Zpos d) <= ((1 # 2) * T e') * inject_Z (Zpos d))%Q).
        { rewrite HD. setoid_replace ((1 # 2) * T e' * inject_Z (Z.pos d))%Q
            with ((1 # 2) * (T e' * inject_Z (Z.pos d)))%Q by ring. rewrite HU.
          setoid_replace ((1 # 2) * (inject_Z (2 ^ sh * Z.pos d) * T e))%Q
            with (((1 # 2) * inject_Z (2 ^ sh * Z.pos d)) * T e)%Q by ring.
          apply Qmul_le_r; [lra|]. lra. }
        split; [apply (Qmult_le_r _ _ _ Hd); exact G1|apply (Qmult_le_r _ _ _ Hd); exact G2].
      + intros Heq. apply Heven.
        (* |x - R| * d = |D| * 2^e and (1/2) 2^e' d = (1/2) 2^sh d 2^e *)
        assert (HA : (Qabs (x - R) * inject_Z (Zpos d) == inject_Z (Z.abs D) * T e)%Q).
        { rewrite <- (Qabs_pos (inject_Z (Zpos d))) at 1 by lra. rewrite <- Qabs_Qmult, HD, Qabs_Qmult.
          rewrite (Qabs_pos (T e)) by lra. reflexivity. }
        rewrite Heq in HA.
        setoid_replace ((1 # 2) * T e' * inject_Z (Z.pos d))%Q
            with ((1 # 2) * (T e' * inject_Z (Z.pos d)))%Q in HA by ring.
        rewrite HU in HA.
        assert (HB : ((1 # 2) * inject_Z (2 ^ sh * Z.pos d) == inject_Z (Z.abs D))%Q).
        { apply (Qmult_inj_r _ _ (T e)); [lra|]. rewrite <- HA. ring. }
        assert (HC : (inject_Z (2 ^ sh * Z.pos d) == inject_Z (2 * Z.abs D))%Q).
        { rewrite (inject_Z_mult 2 (Z.abs D)). change (inject_Z 2) with 2%Q. lra. }
        pose proof (proj1 (inject_Z_injective _ _) HC) as HC2. lia.
    - (* nothing is dropped: the value is exact *)
      assert (Hs : sticky = false).
      { destruct (Bool.bool_dec sticky true) as [Es|Es]; [pose proof (rm_sh_pos_when_sticky Es); lia|].
        apply not_true_is_false. exact Es. }
      assert (Hmod : a mod Zpos d = 0).
      { unfold sticky in Hs. apply negb_false_iff in Hs. apply Z.eqb_eq in Hs. exact Hs. }
      assert (Ea : a = m * Zpos d).
      { unfold m. pose proof (Z.div_mod a (Zpos d) ltac:(lia)). lia. }
      assert (Ex : (x == R)%Q).
      { unfold x, R. rewrite (Hsh0 Hsh). replace e' with e by lia.
        apply (Qmult_inj_r _ _ (inject_Z (Zpos d))); [lra|].
        setoid_replace ((a # d) * T e * inject_Z (Z.pos d))%Q with (((a # d) * inject_Z (Z.pos d)) * T e)%Q by ring.
        rewrite Qmake_mult. rewrite Ea at 1. rewrite inject_Z_mult. ring. }
      assert (E0 : (x - R == 0)%Q) by lra.
      pose proof (T_pos e') as Hte.
      split.
      + rewrite E0. cbn [Qabs Z.abs]. change (Qabs 0) with 0%Q. lra.
      + rewrite E0. change (Qabs 0) with 0%Q. intros Hc. exfalso. lra.
  Qed.

  (* ---- the format: at most prec mantissa bits, last place at least emin *)
  Definition in_format (y : Q) : Prop :=
    exists k c, (y == inject_Z k * T c)%Q /\ Z.abs k < 2 ^ prec /\
                match emin with Some em => em <= c | None => True end.

  Lemma rm_emin_le : match emin with Some em => em <= e' | None => True end.
  Proof.
    destruct rm_shape as [He' _]. unfold sh, round_shift in He'.
    destruct emin as [em|]; [|exact I]. lia.
  Qed.

  Theorem round_mag_in_format : in_format R.
  Proof.
    destruct rm_shape as [He' [[Hq0 Hq1] _]]. pose proof rm_emin_le as Hem.
    destruct (Z.eq_dec q' (2 ^ prec)) as [E|E].
    - exists (2 ^ (prec - 1)), (e' + 1). split; [|split].
      + unfold R. rewrite E, T_succ. rewrite (pow2_split prec Hprec), inject_Z_mult.
        change (inject_Z 2) with 2%Q. ring.
      + rewrite Z.abs_eq by (apply Z.pow_nonneg; lia). apply Z.pow_lt_mono_r; lia.
      + destruct emin; [lia|exact I].
    - exists q', e'. split; [reflexivity|]. split; [|exact Hem].
      rewrite Z.abs_eq by lia. lia.
  Qed.

  (* the binade of x *)
  Lemma rm_frac : (inject_Z m <= a # d)%Q /\ (a # d < inject_Z m + 1)%Q.
  Proof.
    assert (Hd : (0 < inject_Z (Zpos d))%Q) by (apply (inject_Z_lt 0); lia).
    pose proof (Z.div_mod a (Zpos d) ltac:(lia)) as Ea. fold m in Ea.
    pose proof (Z.mod_pos_bound a (Zpos d) ltac:(lia)) as Hr.
    split.
    - apply (Qmult_le_r _ _ _ Hd). rewrite Qmake_mult, <- inject_Z_mult. apply inject_Z_le. lia.
    - apply (Qmult_lt_r _ _ _ Hd). rewrite Qmake_mult.
      change 1%Q with (inject_Z 1). rewrite <- inject_Z_plus, <- inject_Z_mult. apply inject_Z_lt. lia.
  Qed.

  Lemma rm_binade : (T (bitlen m - 1 + e) <= x)%Q /\ (x < T (bitlen m + e))%Q.
  Proof.
    destruct rm_frac as [F1 F2]. pose proof (T_pos e) as Hte.
    pose proof (bitlen_bounds (Z.to_pos m)) as [B1 B2]. rewrite rm_pos in B1, B2.
    pose proof (bitlen_pos_ge1 (Z.to_pos m)) as Hn. rewrite rm_pos in Hn.
    unfold x. rewrite !T_add, (T_Z (bitlen m - 1)), (T_Z (bitlen m)) by lia. split.
    - apply Qmul_le_r; [lra|]. apply Qle_trans with (2 := F1). apply inject_Z_le. exact B1.
    - apply Qmult_lt_r; [exact Hte|]. apply Qlt_le_trans with (1 := F2).
      change 1%Q with (inject_Z 1). rewrite <- inject_Z_plus. apply inject_Z_le. lia.
  Qed.

  (* R is a nearest point of the grid 2^e' Z *)
  Lemma rm_grid_nearest (j : Z) : (Qabs (x - R) <= Qabs (x - inject_Z j * T e'))%Q.
  Proof.
    destruct round_mag_half_ulp as [Hh _]. pose proof (T_pos e') as Hu.
    apply Qabs_Qle_condition in Hh. unfold R in *.
    set (u := T e') in *. set (Rq := (inject_Z q' * u)%Q) in *. set (J := (inject_Z j * u)%Q).
    destruct (Z.lt_trichotomy j q') as [Hlt|[Heq|Hgt]].
    - assert (HJ : (J <= Rq - u)%Q).
      { unfold J, Rq. setoid_replace (inject_Z q' * u - u)%Q with ((inject_Z q' - 1) * u)%Q by ring.
        apply Qmul_le_r; [lra|]. rewrite <- inject_Z_minus1. apply inject_Z_le. lia. }
      apply Qabs_case; intros; apply Qabs_case; intros; lra.
    - unfold J, Rq. rewrite Heq. apply Qle_refl.
    - assert (HJ : (Rq + u <= J)%Q).
      { unfold J, Rq. setoid_replace (inject_Z q' * u + u)%Q with ((inject_Z q' + 1) * u)%Q by ring.
        apply Qmul_le_r; [lra|]. rewrite <- inject_Z_plus1. apply inject_Z_le. lia. }
      apply Qabs_case; intros; apply Qabs_case; intros; lra.
  Qed.

  (* no element of the format is nearer to x than R *)
  Theorem round_mag_nearest y : in_format y -> (Qabs (x - R) <= Qabs (x - y))%Q.
  Proof.
    intros [k [c [Ey [Hk Hc]]]].
    destruct (Z.le_gt_cases e' c) as [Hge|Hlt].
    - (* y is on the grid *)
      pose proof (rm_grid_nearest (k * 2 ^ (c - e'))) as G.
      assert (E : (y == inject_Z (k * 2 ^ (c - e')) * T e')%Q).
      { rewrite Ey, inject_Z_mult. replace c with (e' + (c - e')) at 1 by lia.
        rewrite T_shift by lia. ring. }
      rewrite E. exact G.
    - (* y is below the binade of x *)
      destruct rm_shape as [He' [_ [Hsh0 _]]].
      destruct (Z.lt_ge_cases 0 sh) as [Hsh|Hsh].
      + assert (Ee : e' = bitlen m - prec + e).
        { unfold sh, round_shift in *. rewrite rm_pos in *. destruct emin as [em|]; lia. }
        destruct rm_binade as [B1 _].
        set (B := T (bitlen m - 1 + e)) in *.
        (* |y| < B *)
        assert (Hy : (Qabs y < B)%Q).
        { rewrite Ey, Qabs_Qmult. rewrite (Qabs_pos (T c)) by (apply Qlt_le_weak; apply T_pos).
          change (Qabs (inject_Z k)) with (inject_Z (Z.abs k)).
          apply Qlt_le_trans with (inject_Z (2 ^ prec) * T c)%Q.
          - apply Qmult_lt_r; [apply T_pos|]. apply inject_Z_lt. exact Hk.
          - rewrite <- T_Z, <- T_add by lia. apply T_le. lia. }
        (* B is on the grid *)
        pose proof (rm_grid_nearest (2 ^ (prec - 1))) as G.
        assert (EB : (inject_Z (2 ^ (prec - 1)) * T e' == B)%Q).
        { unfold B. rewrite <- T_Z, <- T_add by lia. replace (prec - 1 + e') with (bitlen m - 1 + e) by lia. reflexivity. }
        rewrite EB in G.
        assert (Hyy : (y <= Qabs y)%Q) by apply Qle_Qabs.
        apply Qle_trans with (1 := G).
        apply Qabs_case; intros; apply Qabs_case; intros; lra.
      + (* exact *)
        destruct round_mag_half_ulp as [Hh _].
        assert (Hs : sticky = false).
        { destruct (Bool.bool_dec sticky true) as [Es|Es]; [pose proof (rm_sh_pos_when_sticky Es); lia|].
          apply not_true_is_false. exact Es. }
        (* x == R was shown inside round_mag_half_ulp; here it follows from e' = e <= c < e' being impossible
           unless the format has a smaller exponent: use the bound directly *)
        assert (Ex : (x == R)%Q).
        { assert (Hmod : a mod Zpos d = 0).
          { unfold sticky in Hs. apply negb_false_iff in Hs. apply Z.eqb_eq in Hs. exact Hs. }
          assert (Ea : a = m * Zpos d).
          { unfold m. pose proof (Z.div_mod a (Zpos d) ltac:(lia)). lia. }
          assert (Hd : (0 < inject_Z (Zpos d))%Q) by (apply (inject_Z_lt 0); lia).
          unfold x, R. rewrite (Hsh0 Hsh). replace e' with e by lia.
          apply (Qmult_inj_r _ _ (inject_Z (Zpos d))); [lra|].
          setoid_replace ((a # d) * T e * inject_Z (Z.pos d))%Q with (((a # d) * inject_Z (Z.pos d)) * T e)%Q by ring.
          rewrite Qmake_mult. rewrite Ea at 1. rewrite inject_Z_mult. ring. }
        assert (E0 : (x - R == 0)%Q) by lra.
        rewrite E0. change (Qabs 0) with 0%Q. apply Qabs_nonneg.
  Qed.

  (* ---- overflow: the rounded magnitude reaches 2^mx exactly when x is at
     least 2^mx minus half a unit of the last place of the top binade (the
     tie is rounded to the even neighbour, which is 2^mx) *)
  Lemma rm_exact : sh <= 0 -> (x == R)%Q.
  Proof.
    intros Hsh. destruct rm_shape as [He' [_ [Hsh0 _]]].
    assert (Hs : sticky = false).
    { destruct (Bool.bool_dec sticky true) as [Es|Es]; [pose proof (rm_sh_pos_when_sticky Es); lia|].
      apply not_true_is_false. exact Es. }
    assert (Hmod : a mod Zpos d = 0).
    { unfold sticky in Hs. apply negb_false_iff in Hs. apply Z.eqb_eq in Hs. exact Hs. }
    assert (Ea : a = m * Zpos d).
    { unfold m. pose proof (Z.div_mod a (Zpos d) ltac:(lia)). lia. }
    assert (Hd : (0 < inject_Z (Zpos d))%Q) by (apply (inject_Z_lt 0); lia).
    unfold x, R. rewrite (Hsh0 Hsh). replace e' with e by lia.
    apply (Qmult_inj_r _ _ (inject_Z (Zpos d))); [lra|].
    setoid_replace ((a # d) * T e * inject_Z (Z.pos d))%Q with (((a # d) * inject_Z (Z.pos d)) * T e)%Q by ring.
    rewrite Qmake_mult. rewrite Ea at 1. rewrite inject_Z_mult. ring.
  Qed.

  Lemma rm_R_bounds : 0 < q' -> (T (bitlen q' - 1 + e') <= R)%Q /\ (R < T (bitlen q' + e'))%Q.
  Proof.
    intros Hq. pose proof (bitlen_bounds_Z q' Hq) as [B1 B2]. pose proof (bitlen_ge1_Z q' Hq) as Hn.
    pose proof (T_pos e') as Hu. unfold R.
    rewrite !T_add, (T_Z (bitlen q' - 1)), (T_Z (bitlen q')) by lia. split.
    - apply Qmul_le_r; [lra|]. apply inject_Z_le. exact B1.
    - apply Qmult_lt_r; [exact Hu|]. apply inject_Z_lt. exact B2.
  Qed.

  Lemma rm_R_zero : q' = 0 -> (R == 0)%Q.
  Proof. intros E. unfold R. rewrite E. change (inject_Z 0) with 0%Q. ring. Qed.

  (* the exponent of the last place: that of the binade, or emin *)
  Lemma rm_e'_cases : 0 < sh ->
    e' = bitlen m - prec + e \/ (exists em, emin = Some em /\ e' = em /\ bitlen m - prec + e <= em).
  Proof.
    intros Hsh. destruct rm_shape as [He' _]. unfold sh, round_shift in *. rewrite rm_pos in *.
    destruct emin as [em|]; [|left; lia].
    destruct (Z.le_gt_cases (em - e) (bitlen m - prec)); [left; lia|right; exists em; split; [reflexivity|lia]].
  Qed.

  Section Overflow.
    Variable mx : Z.
    Hypothesis Hmx : match emin with Some em => em + prec <= mx | None => True end.

    Let Thr : Q := (T mx - T (mx - prec - 1))%Q.

    Lemma rm_overflow_1 : mx < bitlen q' + e' -> (Thr <= x)%Q.
    Proof.
      intros Hov. unfold Thr.
      destruct rm_shape as [He' [[Hq0 _] _]].
      destruct round_mag_half_ulp as [Hh _]. apply Qabs_Qle_condition in Hh.
      destruct rm_binade as [B1 B2].
      pose proof (T_pos (mx - prec - 1)) as P1. pose proof (T_pos e') as P2.
      destruct (Z.lt_ge_cases 0 sh) as [Hsh|Hsh].
      - destruct (Z.eq_dec q' 0) as [E0|E0].
        + (* the rounded magnitude is zero: impossible *)
          exfalso. pose proof (rm_R_zero E0) as RZ. rewrite E0 in Hov. change (bitlen 0) with 0 in Hov.
          destruct (rm_e'_cases Hsh) as [Ee|[em [Eem [Ee _]]]].
          * pose proof (T_le e' (bitlen m - 1 + e) ltac:(lia)) as L1.
            pose proof (T_half e') as L2. lra.
          * rewrite Eem in Hmx. lia.
        + assert (Hq : 0 < q') by lia. destruct (rm_R_bounds Hq) as [R1 _].
          pose proof (T_le mx (bitlen q' - 1 + e') ltac:(lia)) as L1.
          pose proof (T_half e') as L2.
          destruct (Z.le_gt_cases e' (mx - prec)) as [Hle|Hgt].
          * pose proof (T_le (e' - 1) (mx - prec - 1) ltac:(lia)) as L3. lra.
          * destruct (rm_e'_cases Hsh) as [Ee|[em [Eem [Ee _]]]].
            -- pose proof (T_le mx (bitlen m - 1 + e) ltac:(lia)) as L3. lra.
            -- rewrite Eem in Hmx. lia.
      - pose proof (rm_exact Hsh) as Ex.
        assert (Hq : 0 < q').
        { destruct rm_shape as [_ [_ [Hsh0 _]]]. rewrite (Hsh0 Hsh). exact Hm. }
        destruct (rm_R_bounds Hq) as [R1 _].
        pose proof (T_le mx (bitlen q' - 1 + e') ltac:(lia)) as L1. lra.
    Qed.

    Lemma rm_overflow_2 : (Thr <= x)%Q -> mx < bitlen q' + e'.
    Proof.
      intros Hx. unfold Thr in Hx.
      destruct (Z.lt_ge_cases mx (bitlen q' + e')) as [Hc|Hc]; [exact Hc|]. exfalso.
      destruct rm_shape as [He' [[Hq0 Hq1] [Hsh0 Hsh1]]].
      destruct round_mag_half_ulp as [Hh Heven].
      destruct rm_binade as [B1 B2].
      pose proof (T_pos (mx - prec - 1)) as P1. pose proof (T_pos e') as P2. pose proof (T_pos mx) as P3.
      (* the binade of x is at least that of 2^(mx-1) *)
      assert (HN : mx <= bitlen m + e).
      { destruct (Z.le_gt_cases mx (bitlen m + e)) as [H|H]; [exact H|]. exfalso.
        pose proof (T_le (bitlen m + e) (mx - 1) ltac:(lia)) as L1.
        pose proof (T_half mx) as L2. pose proof (T_le (mx - prec - 1) (mx - 1) ltac:(lia)) as L3. lra. }
      (* R < 2^mx *)
      assert (HR : (R < T mx)%Q).
      { destruct (Z.eq_dec q' 0) as [E0|E0]; [rewrite (rm_R_zero E0); exact P3|].
        destruct (rm_R_bounds ltac:(lia)) as [_ R2]. pose proof (T_le (bitlen q' + e') mx Hc). lra. }
      destruct (Z.lt_ge_cases 0 sh) as [Hsh|Hsh].
      - assert (He'lo : mx - prec <= e').
        { unfold sh, round_shift in *. rewrite rm_pos in *. destruct emin; lia. }
        apply Qabs_Qle_condition in Hh.
        pose proof (T_half e') as L2.
        destruct (Z.lt_ge_cases mx e') as [Hbig|Hsmall].
        + (* the unit exceeds 2^mx: R = 0 *)
          assert (E0 : q' = 0).
          { destruct (Z.eq_dec q' 0) as [E|E]; [exact E|]. exfalso.
            assert (L : (T e' <= R)%Q).
            { unfold R. setoid_replace (T e') with (1 * T e')%Q at 1 by ring.
              apply Qmul_le_r; [lra|]. apply (inject_Z_le 1). lia. }
            pose proof (T_le mx e' ltac:(lia)). lra. }
          pose proof (rm_R_zero E0) as RZ.
          destruct (rm_e'_cases Hsh) as [Ee|[em [Eem [Ee _]]]].
          * pose proof (T_le e' (bitlen m - 1 + e) ltac:(lia)) as L1. lra.
          * rewrite Eem in Hmx. lia.
        + (* R is at most 2^mx - 2^e' *)
          assert (Hq'lt : q' < 2 ^ (mx - e')).
          { rewrite Zlt_Qlt. apply (Qmult_lt_r _ _ (T e') P2). fold R.
            rewrite <- T_Z, <- T_add by lia. replace (mx - e' + e') with mx by lia. exact HR. }
          assert (HRle : (R <= T mx - T e')%Q).
          { unfold R. setoid_replace (T mx - T e')%Q with ((inject_Z (2 ^ (mx - e')) - 1) * T e')%Q.
            - apply Qmul_le_r; [lra|]. rewrite <- inject_Z_minus1. apply inject_Z_le. lia.
            - rewrite <- T_Z by lia. setoid_replace ((T (mx - e') - 1) * T e')%Q with (T (mx - e') * T e' - T e')%Q by ring.
              rewrite <- T_add. replace (mx - e' + e') with mx by lia. reflexivity. }
          (* hence e' = mx - prec and x is the tie *)
          assert (Ee : e' = mx - prec).
          { destruct (Z.le_gt_cases e' (mx - prec)) as [H|H]; [lia|]. exfalso.
            pose proof (T_lt (mx - prec - 1) (e' - 1) ltac:(lia)). lra. }
          assert (L3 : (T (mx - prec - 1) == T (e' - 1))%Q) by (rewrite Ee; replace (mx - prec - 1) with (mx - prec - 1) by lia; reflexivity).
          assert (Etie : (x - R == (1 # 2) * T e')%Q) by lra.
          assert (ER : (R == T mx - T e')%Q) by lra.
          assert (Eq' : q' = 2 ^ prec - 1).
          { apply inject_Z_injective. apply (Qmult_inj_r _ _ (T e')); [lra|]. fold R. rewrite ER.
            rewrite inject_Z_minus1, <- T_Z by lia.
            setoid_replace ((T prec - 1) * T e')%Q with (T prec * T e' - T e')%Q by ring.
            rewrite <- T_add. replace (prec + e') with mx by lia. reflexivity. }
          assert (Hev : Z.even q' = true).
          { apply Heven. rewrite Etie. apply Qabs_pos. lra. }
          rewrite Eq' in Hev. rewrite Z.even_sub, Z.even_pow in Hev by lia. discriminate.
      - (* exact: x = m * 2^e with at most prec bits *)
        pose proof (rm_exact Hsh) as Ex. rewrite (Hsh0 Hsh) in *.
        assert (Ee : e' = e) by lia.
        assert (EN : bitlen m + e = mx) by lia.
        assert (Hn : bitlen m <= prec).
        { unfold sh, round_shift in Hsh. rewrite rm_pos in Hsh. destruct emin; lia. }
        pose proof (bitlen_bounds_Z m Hm) as [_ Bm]. pose proof (bitlen_ge1_Z m Hm) as Hn1.
        assert (HRle : (R <= T mx - T e)%Q).
        { unfold R. rewrite Ee. setoid_replace (T mx - T e)%Q with ((inject_Z (2 ^ bitlen m) - 1) * T e)%Q.
          - apply Qmul_le_r; [pose proof (T_pos e); lra|]. rewrite <- inject_Z_minus1. apply inject_Z_le. lia.
          - rewrite <- T_Z by lia. setoid_replace ((T (bitlen m) - 1) * T e)%Q with (T (bitlen m) * T e - T e)%Q by ring.
            rewrite <- T_add. rewrite EN. reflexivity. }
        pose proof (T_lt (mx - prec - 1) e ltac:(lia)). lra.
    Qed.

    Theorem round_mag_overflow : mx < bitlen q' + e' <-> (T mx - T (mx - prec - 1) <= x)%Q.
    Proof. split; [exact rm_overflow_1|exact rm_overflow_2]. Qed.
  End Overflow.
End RoundMag.
