(* builtin.Abbreviate: never faults, returns at most n runes, and behaves as
   documented (strings not longer than n runes are returned trimmed, longer
   ones are cut at a space and end with the suffix). *)
From Coq Require Import Sorted.
From Verif Require Import Bytes Utf8 MiscRunes Facts_builtin BuiltinM MiscRunes_proofs.
Open Scope N_scope.

Definition ascii_all (l : list N) : bool := forallb (fun c => c <? 128) l.

Definition abbr_facts : bool :=
  ascii_all gen_Abbreviate_spaces && ascii_all gen_Abbreviate_strip && ascii_all gen_Abbreviate_suffix &&
  (Z.of_nat (length gen_Abbreviate_suffix) <=? gen_Abbreviate_mark + 1)%Z &&
  (Z.of_nat (length gen_Abbreviate_suffix) <=? gen_Abbreviate_min_n)%Z &&
  (0 <=? gen_Abbreviate_mark)%Z && (gen_Abbreviate_mark <=? gen_Abbreviate_min_n)%Z.

Lemma abbr_facts_ok : abbr_facts = true. Proof. vm_compute. reflexivity. Qed.

Lemma abbr_facts_split :
  ascii_all gen_Abbreviate_spaces = true /\ ascii_all gen_Abbreviate_strip = true /\
  ascii_all gen_Abbreviate_suffix = true /\
  (Z.of_nat (length gen_Abbreviate_suffix) <= gen_Abbreviate_mark + 1)%Z /\
  (Z.of_nat (length gen_Abbreviate_suffix) <= gen_Abbreviate_min_n)%Z /\
  (0 <= gen_Abbreviate_mark)%Z /\ (gen_Abbreviate_mark <= gen_Abbreviate_min_n)%Z.
Proof.
  pose proof abbr_facts_ok as H. unfold abbr_facts in H.
  repeat (apply andb_prop in H; destruct H as [H ?]).
  repeat match goal with H : (_ <=? _)%Z = true |- _ => apply Z.leb_le in H end. auto 10.
Qed.

Lemma ascii_all_mem set c : ascii_all set = true -> mem set c = true -> c < 128.
Proof.
  unfold ascii_all, mem. intros Ha Hm. apply existsb_exists in Hm. destruct Hm as (x & Hx & He).
  apply N.eqb_eq in He. subst x. rewrite forallb_forall in Ha. apply N.ltb_lt. apply Ha, Hx.
Qed.

Lemma ascii_all_Forall l : ascii_all l = true -> Forall (fun c => c < 128) l.
Proof. unfold ascii_all. rewrite forallb_forall. intros H. apply Forall_forall. intros x Hx. apply N.ltb_lt, H, Hx. Qed.

(* ---- trimming on the right ---- *)

Lemma drop_while_split p s : exists pre, s = pre ++ drop_while p s /\ Forall (fun c => p c = true) pre.
Proof.
  induction s as [|c r IH]; cbn [drop_while]; [exists []; auto|].
  destruct (p c) eqn:Hc; [|exists []; auto].
  destruct IH as (pre & He & Hp). exists (c :: pre). split; [cbn [app]; congruence|constructor; assumption].
Qed.

Lemma trim_right_split set s : exists tail, s = trim_right_set set s ++ tail /\ Forall (fun c => mem set c = true) tail.
Proof.
  unfold trim_right_set. destruct (drop_while_split (mem set) (rev s)) as (pre & He & Hp).
  exists (rev pre). split.
  - rewrite <- rev_app_distr, <- He, rev_involutive. reflexivity.
  - apply Forall_forall. intros x Hx. rewrite Forall_forall in Hp. apply Hp. apply in_rev. exact Hx.
Qed.

Lemma rune_count_drop_ascii_tail a tail : Forall (fun c => c < 128) tail ->
  rune_count (a ++ tail) = (rune_count a + length tail)%nat.
Proof.
  intros Ht. rewrite rune_count_app_ascii.
  - rewrite (rune_count_all_ascii tail Ht). reflexivity.
  - destruct Ht; cbn [ascii_head]; auto.
Qed.

Lemma trim_right_count set s : ascii_all set = true ->
  (rune_count (trim_right_set set s) <= rune_count s)%nat.
Proof.
  intros Ha. destruct (trim_right_split set s) as (tail & He & Ht).
  rewrite He at 2. rewrite rune_count_drop_ascii_tail; [lia|].
  eapply Forall_impl; [|exact Ht]. intros c Hc. eapply ascii_all_mem; eassumption.
Qed.

Lemma strip_last_split set s : exists tail, s = strip_last set s ++ tail /\ Forall (fun c => mem set c = true) tail.
Proof.
  unfold strip_last. destruct (rev s) as [|c r] eqn:Hr; [exists []; rewrite app_nil_r; auto|].
  destruct (mem set c) eqn:Hc; [|exists []; rewrite app_nil_r; auto].
  exists [c]. split; [|constructor; auto].
  rewrite <- (rev_involutive s), Hr. reflexivity.
Qed.

(* ---- the loop ---- *)

Open Scope Z_scope.

Lemma abbr_fold k l : forall p0 v0,
  fold_left (fun st i => let '(p, n2) := st in (p + 1, if p =? k then Z.of_N i else n2)) l (p0, v0)
  = (p0 + Z.of_nat (length l),
     if (p0 <=? k) && (k <? p0 + Z.of_nat (length l)) then Z.of_N (nth (Z.to_nat (k - p0)) l 0%N) else v0).
Proof.
  induction l as [|i l IH]; intros p0 v0; cbn [fold_left length].
  - f_equal; [lia|]. destruct (Z.leb_spec p0 k); destruct (Z.ltb_spec k (p0 + Z.of_nat 0)); cbn [andb]; try reflexivity; lia.
  - rewrite IH. f_equal; [lia|].
    destruct (Z.eqb_spec p0 k) as [->|Hne].
    + destruct (Z.leb_spec (k + 1) k); [lia|]. cbn [andb].
      rewrite Z.leb_refl. destruct (Z.ltb_spec k (k + Z.of_nat (S (length l)))); [|lia]. cbn [andb].
      rewrite Z.sub_diag. reflexivity.
    + destruct (Z.leb_spec (p0 + 1) k); destruct (Z.leb_spec p0 k); try lia; cbn [andb]; try reflexivity.
      destruct (Z.ltb_spec k (p0 + 1 + Z.of_nat (length l))); destruct (Z.ltb_spec k (p0 + Z.of_nat (S (length l)))); try lia; try reflexivity.
      replace (Z.to_nat (k - p0)) with (S (Z.to_nat (k - (p0 + 1)))) by lia. reflexivity.
Qed.

Lemma last_index_any_spec set s : forall i f,
  let r := last_index_any s set i f in
  r = f \/ (i <= r < i + Z.of_nat (length s) /\ mem set (nth (Z.to_nat (r - i)) s 0%N) = true).
Proof.
  induction s as [|c s IH]; intros i f; cbn [last_index_any]; [left; reflexivity|].
  specialize (IH (i + 1) (if mem set c then i else f)). cbv zeta in *.
  destruct IH as [IH|(Hr & Hm)].
  - rewrite IH. destruct (mem set c) eqn:Hc; [|left; reflexivity].
    right. cbn [length]. split; [lia|]. rewrite Z.sub_diag. exact Hc.
  - right. cbn [length]. split; [lia|].
    replace (Z.to_nat (last_index_any s set (i + 1) (if mem set c then i else f) - i))
      with (S (Z.to_nat (last_index_any s set (i + 1) (if mem set c then i else f) - (i + 1)))) by lia.
    exact Hm.
Qed.

Close Scope Z_scope.

Lemma sorted_nth l : StronglySorted N.lt l -> forall i j, (i <= j < length l)%nat -> nth i l 0 <= nth j l 0.
Proof.
  induction 1 as [|x l Hs IH Hall]; intros i j Hij; cbn [length] in Hij; [lia|].
  destruct i, j; cbn [nth]; try lia.
  - rewrite Forall_forall in Hall. assert (x < nth j l 0) by (apply Hall, nth_In; lia). lia.
  - apply IH. lia.
Qed.

Lemma nth_app_mid {A} (a : list A) x b d : nth (length a) (a ++ x :: b) d = x.
Proof. rewrite app_nth2 by lia. rewrite Nat.sub_diag. reflexivity. Qed.

(* a space at byte index q in front of the recorded start of rune number k: the
   prefix up to q has fewer than k runes *)
Lemma prefix_runes_lt s q k c :
  (q < length s)%nat -> nth q s 0 = c -> c < 128 ->
  (k < rune_count s)%nat -> N.of_nat q < nth k (rune_starts s) 0 ->
  (rune_count (firstn q s) < k)%nat.
Proof.
  intros Hq Hc Hasc Hk Hlt.
  assert (Hs : s = firstn q s ++ c :: skipn (S q) s).
  { rewrite <- (firstn_skipn q s) at 1. f_equal.
    rewrite <- Hc. clear - Hq. revert q Hq. induction s as [|x s IH]; intros q Hq; cbn [length] in Hq; [lia|].
    destruct q; [reflexivity|]. cbn [skipn nth]. rewrite <- IH by lia. reflexivity. }
  set (A := firstn q s) in *.
  assert (Hstarts : rune_starts s = map fst (range_aux A 0 0) ++ N.of_nat q :: map fst (range_aux (skipn (S q) s) 0 (N.of_nat q + 1))).
  { unfold rune_starts, range_str. rewrite Hs at 1. rewrite range_app_ascii by exact Hasc.
    rewrite map_app. f_equal. rewrite range_ascii_cons by exact Hasc. cbn [map fst].
    rewrite N.add_0_l. subst A. rewrite nlen_eq, firstn_length_le by lia. reflexivity. }
  assert (Hnth : nth (rune_count A) (rune_starts s) 0 = N.of_nat q).
  { rewrite Hstarts. unfold rune_count, range_str. rewrite <- (map_length fst (range_aux A 0 0)). apply nth_app_mid. }
  destruct (Nat.lt_ge_cases (rune_count A) k) as [|Hge]; [assumption|exfalso].
  pose proof (range_aux_sorted s 0 0) as Hsorted. fold (range_str s) in Hsorted. fold (rune_starts s) in Hsorted.
  assert (Hlen : length (rune_starts s) = rune_count s) by (unfold rune_starts, rune_count; apply map_length).
  assert (HA : (rune_count A < rune_count s)%nat).
  { rewrite <- Hlen, Hstarts, app_length. cbn [length]. unfold rune_count, range_str. rewrite map_length. lia. }
  pose proof (sorted_nth _ Hsorted k (rune_count A)) as Hle. rewrite Hnth in Hle. lia.
Qed.

(* ---- main ---- *)

Definition abbr_trim (s0 : bytes) : bytes := trim_right_set gen_Abbreviate_spaces s0.

Lemma nth_firstn {A} (l : list A) n i d : (i < n)%nat -> nth i (firstn n l) d = nth i l d.
Proof.
  revert n i; induction l as [|x l IH]; intros n i H; destruct n, i; cbn [firstn nth]; try lia; try reflexivity.
  apply IH. lia.
Qed.

Theorem Abbreviate_long s0 n :
  let t := abbr_trim s0 in
  (Z.of_nat (rune_count t) > n)%Z -> (gen_Abbreviate_min_n <= n)%Z ->
  exists w rest, Abbreviate s0 n = Some (w ++ gen_Abbreviate_suffix) /\ t = w ++ rest /\
                 (Z.of_nat (rune_count (w ++ gen_Abbreviate_suffix)) <= n)%Z.
Proof.
  intros t Hlong Hmin.
  destruct abbr_facts_split as (Fsp & Fst & Fsu & Fl1 & Fl2 & Fm0 & Fm1).
  unfold Abbreviate. fold (abbr_trim s0). fold t.
  pose proof (rune_count_le t) as Hrl.
  destruct (Z.leb_spec (Z.of_nat (length t)) n); [lia|].
  destruct (Z.leb_spec (Z.of_nat (rune_count t)) n); [lia|]. cbn [orb].
  destruct (Z.ltb_spec n gen_Abbreviate_min_n); [lia|].
  unfold abbr_loop. rewrite abbr_fold.
  assert (Hlen : length (rune_starts t) = rune_count t) by (unfold rune_starts, rune_count; apply map_length).
  rewrite Hlen. rewrite Z.add_0_l.
  set (k := (n - gen_Abbreviate_mark)%Z).
  destruct (Z.leb_spec 0 k); [|lia]. destruct (Z.ltb_spec k (Z.of_nat (rune_count t))); [|lia]. cbn [andb].
  rewrite Z.sub_0_r.
  destruct (Z.ltb_spec (Z.of_nat (rune_count t)) n); [lia|].
  set (kn := Z.to_nat k).
  set (n2 := nth kn (rune_starts t) 0).
  assert (Hin : In n2 (rune_starts t)) by (apply nth_In; lia).
  apply range_aux_bounds in Hin. rewrite nlen_eq in Hin.
  destruct (Z.ltb_spec (Z.of_N n2) 0); [lia|]. destruct (Z.ltb_spec (Z.of_nat (length t)) (Z.of_N n2)); [lia|]. cbn [orb].
  assert (Hsuf : Forall (fun c => c < 128) gen_Abbreviate_suffix) by (apply ascii_all_Forall, Fsu).
  set (pre := firstn (Z.to_nat (Z.of_N n2)) t).
  pose proof (last_index_any_spec gen_Abbreviate_spaces pre 0 (-1)) as Hq. cbv zeta in Hq.
  set (q := last_index_any pre gen_Abbreviate_spaces 0 (-1)) in *.
  destruct (Z.ltb_spec 0 q) as [Hq0|Hq0].
  - destruct Hq as [Hq|(Hqr & Hqm)]; [lia|].
    assert (Hpl : length pre = N.to_nat n2) by (subst pre; rewrite firstn_length_le; lia).
    rewrite Z.sub_0_r in Hqm. rewrite Hpl in Hqr.
    set (qn := Z.to_nat q) in *.
    assert (Hqn : (qn < N.to_nat n2)%nat) by lia.
    unfold pre in Hqm. rewrite nth_firstn in Hqm by lia.
    assert (Hasc : nth qn t 0 < 128) by (apply (ascii_all_mem gen_Abbreviate_spaces); assumption).
    assert (Hcnt : (rune_count (firstn qn t) < kn)%nat).
    { apply (prefix_runes_lt t qn kn (nth qn t 0)); try lia; try reflexivity; try assumption. }
    set (A := firstn qn t) in *.
    destruct (strip_last_split gen_Abbreviate_strip (trim_right_set gen_Abbreviate_spaces A)) as (tl2 & He2 & Ht2).
    destruct (trim_right_split gen_Abbreviate_spaces A) as (tl1 & He1 & Ht1).
    set (w := strip_last gen_Abbreviate_strip (trim_right_set gen_Abbreviate_spaces A)) in *.
    exists w, (tl2 ++ tl1 ++ skipn qn t). split; [reflexivity|]. split.
    + rewrite <- (firstn_skipn qn t) at 1. fold A. rewrite He1 at 1. rewrite He2 at 1.
      rewrite <- !app_assoc. reflexivity.
    + rewrite rune_count_drop_ascii_tail by exact Hsuf.
      assert (HwA : (rune_count w <= rune_count A)%nat).
      { rewrite He1 at 1. rewrite He2 at 1.
        rewrite rune_count_drop_ascii_tail, rune_count_drop_ascii_tail; [lia| |].
        - eapply Forall_impl; [|exact Ht2]. intros c Hc. apply (ascii_all_mem gen_Abbreviate_strip); assumption.
        - eapply Forall_impl; [|exact Ht1]. intros c Hc. apply (ascii_all_mem gen_Abbreviate_spaces); assumption. }
      lia.
  - exists [], t. split; [reflexivity|]. split; [reflexivity|]. cbn [app].
    rewrite (rune_count_all_ascii _ Hsuf). lia.
Qed.

Theorem Abbreviate_short s0 n :
  let t := abbr_trim s0 in
  (Z.of_nat (rune_count t) <= n)%Z -> Abbreviate s0 n = Some t.
Proof.
  intros t H. unfold Abbreviate. fold (abbr_trim s0). fold t.
  destruct (Z.leb_spec (Z.of_nat (rune_count t)) n); [|lia]. rewrite orb_true_r. reflexivity.
Qed.

Theorem Abbreviate_tiny s0 n :
  let t := abbr_trim s0 in
  (Z.of_nat (rune_count t) > n)%Z -> (n < gen_Abbreviate_min_n)%Z -> Abbreviate s0 n = Some [].
Proof.
  intros t H Hn. unfold Abbreviate. fold (abbr_trim s0). fold t.
  pose proof (rune_count_le t) as Hrl.
  destruct (Z.leb_spec (Z.of_nat (length t)) n); [lia|].
  destruct (Z.leb_spec (Z.of_nat (rune_count t)) n); [lia|]. cbn [orb].
  destruct (Z.ltb_spec n gen_Abbreviate_min_n); [reflexivity|lia].
Qed.

(* the result never has more than n runes, and the model never faults *)
Theorem Abbreviate_bound s0 n : (0 <= n)%Z ->
  exists out, Abbreviate s0 n = Some out /\ (Z.of_nat (rune_count out) <= n)%Z.
Proof.
  intros Hn.
  destruct (Z.le_gt_cases (Z.of_nat (rune_count (abbr_trim s0))) n) as [Hs|Hl].
  - exists (abbr_trim s0). split; [apply Abbreviate_short, Hs|exact Hs].
  - destruct (Z.lt_ge_cases n gen_Abbreviate_min_n) as [Ht|Hm].
    + exists []. split; [apply Abbreviate_tiny; lia|cbn; lia].
    + destruct (Abbreviate_long s0 n) as (w & rest & He & _ & Hc); [lia|lia|].
      exists (w ++ gen_Abbreviate_suffix). auto.
Qed.
