(* Proofs about template expansion (C18): termination, reads without
   duplicates, valid names at Open, cycles are errors. *)
From Coq Require Import Relations.
From Verif Require Import Bytes PathsM PathSpec ExpandM TPaths_proofs.
Open Scope N_scope.

Definition keys {A} (l : list (bytes * A)) : list bytes := map fst l.

(* the successful opens of a state (last first) *)
Definition sreads (st : state) : list bytes :=
  map fst (filter (fun nb : bytes * bool => snd nb) (opens st)).

(* ---------- small lemmas ---------- *)

Lemma mem_bytes_In x l : mem_bytes x l = true <-> In x l.
Proof.
  induction l as [|y l IH]; cbn [mem_bytes In]; [split; [discriminate|tauto]|].
  rewrite orb_true_iff, IH, bytes_eqb_eq. tauto.
Qed.

Lemma assoc_bytes_Some {A} (l : list (bytes * A)) x v : assoc_bytes l x = Some v -> In x (keys l).
Proof.
  induction l as [|[k w] l IH]; cbn [assoc_bytes keys map fst In]; [discriminate|].
  destruct (bytes_eqb k x) eqn:E; [apply bytes_eqb_eq in E; auto|auto].
Qed.

Lemma assoc_bytes_None {A} (l : list (bytes * A)) x : assoc_bytes l x = None -> ~ In x (keys l).
Proof.
  induction l as [|[k w] l IH]; cbn [assoc_bytes keys map fst In]; [tauto|].
  destruct (bytes_eqb k x) eqn:E; [discriminate|]. intros H [H1|H1].
  - subst. assert (bytes_eqb x x = true) by (apply bytes_eqb_eq; reflexivity). congruence.
  - apply IH; assumption.
Qed.

Lemma lookup_In g p : lookup g p <> FOpenErr true -> In p (keys g).
Proof.
  induction g as [|[k f] g IH]; cbn [lookup keys map fst In]; [congruence|].
  destruct (bytes_eqb k p) eqn:E; [apply bytes_eqb_eq in E; auto|auto].
Qed.

Lemma sreads_log_false st n : sreads (log_open st n false) = sreads st.
Proof. reflexivity. Qed.
Lemma sreads_log_true st n : sreads (log_open st n true) = n :: sreads st.
Proof. reflexivity. Qed.

Lemma is_notexist_true e : is_notexist e = true <-> e = ENotExist.
Proof. destruct e; cbn; split; congruence. Qed.

Lemma wrap_cycle_props k rp e :
  e <> EOutOfFuel -> is_notexist e = false ->
  wrap_cycle k rp e <> EOutOfFuel /\ is_notexist (wrap_cycle k rp e) = false.
Proof. destruct e; cbn; intros; split; congruence. Qed.

Lemma clos_rt_cases {A} (R : relation A) a c :
  clos_refl_trans _ R a c -> a = c \/ clos_trans _ R a c.
Proof.
  induction 1 as [a c H|a|a b c _ IH1 _ IH2].
  - right. apply t_step. assumption.
  - left. reflexivity.
  - destruct IH1 as [<-|H1]; [assumption|]. destruct IH2 as [<-|H2]; [right; assumption|].
    right. eapply t_trans; eassumption.
Qed.

Lemma clos_rt_then_step {A} (R : relation A) a b c :
  clos_refl_trans _ R a b -> R b c -> clos_trans _ R a c.
Proof.
  intros H1 H2. apply clos_rt_cases in H1. destruct H1 as [<-|H1]; [apply t_step; assumption|].
  eapply t_trans; [eassumption|apply t_step; assumption].
Qed.

Section Graph.
  Variable g : graph.
  (* the root name is valid (only opens_valid needs it) *)
  Variable V : Prop.

  (* A file system in which a file that opens is not then reported as not
     existing by Read, Stat or Format (only reads_nodup needs it). *)
  Definition consistent : Prop := forall n, lookup g n <> FReadErr true.

  Definition is_source (p : bytes) : Prop := exists f d refs, lookup g p = FSource f d refs.

  (* a reference of the source a that resolves to the source b *)
  Definition edge (a b : bytes) : Prop :=
    (exists f d refs k nm, lookup g a = FSource f d refs /\ In (k, nm) refs /\ rooted a nm = Some b)
    /\ is_source b.

  Lemma is_source_In p : is_source p -> In p (keys g).
  Proof. intros (f & d & refs & H). apply lookup_In. congruence. Qed.

  (* every file of T references only sources that were put in T before it *)
  Inductive closed : list (bytes * (kind * N)) -> Prop :=
  | closed_nil : closed []
  | closed_cons a v T :
      closed T -> ~ In a (keys T) -> (forall b, edge a b -> In b (keys T)) -> closed ((a, v) :: T).

  (* every file of the stack is referenced by the one below it *)
  Fixpoint chain (l : list bytes) : Prop :=
    match l with
    | a :: (b :: _) as r => edge b a /\ chain r
    | _ => True
    end.

  (* the cycle reported for p is real and can be reached from every file of the stack *)
  Definition cyc_ok (st : state) (p : bytes) : Prop :=
    clos_trans _ edge p p /\ forall q, In q (paths st) -> clos_refl_trans _ edge q p.

  Definition cyc_err (st : state) (e : err) : Prop :=
    forall p ch, e = ECycle p ch -> cyc_ok st p.

  Lemma chain_reach rest : forall top, chain (top :: rest) ->
    forall q, In q (top :: rest) -> clos_refl_trans _ edge q top.
  Proof.
    induction rest as [|b r IH]; intros top Hc q [<-|Hin]; try apply rt_refl; [destruct Hin|].
    destruct Hc as [He Hc]. eapply rt_trans; [apply IH; eassumption|apply rt_step; exact He].
  Qed.

  Ltac nocyc := let H := fresh in unfold cyc_err; intros ? ? H; discriminate H.

  Record Inv (st : state) : Prop := {
    inv_nodup : NoDup (paths st);
    inv_keys : forall p, In p (paths st) -> In p (keys g);
    inv_src : forall p, In p (paths st) -> is_source p;
    inv_chain : chain (paths st);
    inv_valid : V -> (forall p, In p (paths st) -> fs_valid p = true) /\
                     (forall n b, In (n, b) (opens st) -> fs_valid n = true);
    inv_reads : consistent -> NoDup (sreads st) /\
                              (forall n, In n (sreads st) -> In n (paths st) \/ In n (keys (trees st)));
    inv_disj : forall p, In p (paths st) -> ~ In p (keys (trees st));
    inv_closed : closed (trees st)
  }.

  Definition ErrInv (st : state) : Prop :=
    (V -> forall n b, In (n, b) (opens st) -> fs_valid n = true) /\
    (consistent -> NoDup (sreads st)).

  Lemma Inv_ErrInv st : Inv st -> ErrInv st.
  Proof.
    intros H. split.
    - intros v. apply (inv_valid st H v).
    - intros c. apply (inv_reads st H c).
  Qed.

  Lemma Inv_ext a b : paths a = paths b -> trees a = trees b -> opens a = opens b -> Inv a -> Inv b.
  Proof.
    intros Hp Ht Ho [H1 H2 H2a H2b H3 H4 H5 H6]. unfold sreads in *.
    constructor; unfold sreads; rewrite <- ?Hp, <- ?Ht, <- ?Ho; assumption.
  Qed.

  Definition Frame (st st' : state) : Prop :=
    paths st' = paths st /\ exists new, trees st' = new ++ trees st.

  Lemma Frame_refl st : Frame st st.
  Proof. split; [reflexivity|exists []; reflexivity]. Qed.

  Lemma Frame_trans a b c : Frame a b -> Frame b c -> Frame a c.
  Proof.
    intros [H1 [n1 H2]] [H3 [n2 H4]]. split; [congruence|].
    exists (n2 ++ n1). rewrite H4, H2, app_assoc. reflexivity.
  Qed.

  Lemma Frame_keys a b x : Frame a b -> In x (keys (trees a)) -> In x (keys (trees b)).
  Proof.
    intros [_ [n H]] Hx. rewrite H. unfold keys. rewrite map_app. apply in_or_app. right. assumption.
  Qed.

  Definition targets_in (top : bytes) (refs : list ref) (T : list (bytes * (kind * N))) : Prop :=
    forall k nm b, In (k, nm) refs -> rooted top nm = Some b -> is_source b -> In b (keys T).

  Definition pnf_post (st : state) (top : bytes) (r : ref) (st' : state) (res : res N) : Prop :=
    Frame st st' /\
    match res with
    | Ok _ => Inv st' /\ targets_in top [r] (trees st')
    | Err e =>
      e <> EOutOfFuel /\ cyc_err st e /\
      if is_notexist e
      then Inv st' /\ (forall b, rooted top (snd r) = Some b -> ~ is_source b)
      else ErrInv st'
    end.

  Definition en_post (st : state) (top : bytes) (refs : list ref) (st' : state) (res : res unit) : Prop :=
    Frame st st' /\
    match res with
    | Ok _ => Inv st' /\ targets_in top refs (trees st')
    | Err e => e <> EOutOfFuel /\ is_notexist e = false /\ ErrInv st' /\ cyc_err st e
    end.

  Definition ps_post (st : state) (path : bytes) (st' : state) (res : res unit) : Prop :=
    Frame st st' /\
    match res with
    | Ok _ => forall v, Inv (add_tree st' path v)
    | Err e => e <> EOutOfFuel /\ is_notexist e = false /\ ErrInv st' /\ cyc_err (push_path st path) e
    end.

  Definition refs_valid (refs : list ref) : Prop :=
    forallb (fun r : ref => valid_template_path (snd r)) refs = true.

  (* what is assumed of parseSource one level deeper, with fuel f *)
  Definition PS_spec (f : nat) (ps : state -> bytes -> N -> list ref -> state * res unit) : Prop :=
    forall st path fmt d refs st' r,
      ps st path fmt refs = (st', r) ->
      Inv (push_path st path) ->
      lookup g path = FSource fmt d refs ->
      refs_valid refs ->
      (length (paths st) + f >= S (length g))%nat ->
      ps_post st path st' r.

  Section Level.
    Variable f : nat.
    Variable ps : state -> bytes -> N -> list ref -> state * res unit.
    Hypothesis Hps : PS_spec f ps.

    Lemma pnf_spec st top rest k nm st' r :
      parse_node_file g ps st (k, nm) = (st', r) ->
      Inv st -> paths st = top :: rest ->
      valid_template_path nm = true ->
      (exists f0 d0 all, lookup g top = FSource f0 d0 all /\ In (k, nm) all) ->
      (length (paths st) + f >= S (length g))%nat ->
      pnf_post st top (k, nm) st' r.
    Proof.
      intros E HI Hp Hv Href Hf. unfold parse_node_file in E. rewrite Hp in E.
      destruct (rooted top nm) as [name|] eqn:Er.
      2:{ injection E as <- <-. split; [(split; [reflexivity|exists []; reflexivity])|]. split; [discriminate|]. split; [nocyc|].
          cbn [is_notexist]. split; [assumption|]. cbn [snd]. intros b Hb. congruence. }
      rewrite <- Hp in E.
      assert (In top (paths st)) as Htop by (rewrite Hp; left; reflexivity).
      destruct (mem_bytes name (paths st)) eqn:Em.
      { injection E as <- <-. split; [(split; [reflexivity|exists []; reflexivity])|]. split; [discriminate|].
        split; [|cbn [is_notexist]; apply Inv_ErrInv; assumption].
        intros p ch Hcy. injection Hcy as <- _. apply mem_bytes_In in Em.
        assert (edge top name) as Hedge.
        { destruct Href as (f0 & d0 & all & Hl & Hin). split; [exists f0, d0, all, k, nm; auto|].
          apply (inv_src st HI). assumption. }
        pose proof (inv_chain st HI) as Hch. rewrite Hp in Hch, Em.
        split.
        - eapply clos_rt_then_step; [eapply chain_reach; eassumption|exact Hedge].
        - intros q Hq. rewrite Hp in Hq. eapply rt_trans; [eapply chain_reach; eassumption|apply rt_step; exact Hedge]. }
      assert (~ In name (paths st)) as Hnp.
      { intros H. apply mem_bytes_In in H. congruence. }
      destruct (assoc_bytes (trees st) name) as [[pk tfmt]|] eqn:Ea.
      { destruct (conflict pk k).
        - injection E as <- <-. split; [(split; [reflexivity|exists []; reflexivity])|]. split; [discriminate|]. split; [nocyc|].
          cbn [is_notexist]. apply Inv_ErrInv. assumption.
        - injection E as <- <-. split; [(split; [reflexivity|exists []; reflexivity])|]. split; [assumption|].
          intros k' nm' b [H|[]] Hb _. injection H as <- <-.
          rewrite Er in Hb. injection Hb as <-. eapply assoc_bytes_Some. eassumption. }
      assert (~ In name (keys (trees st))) as Hnt by (eapply assoc_bytes_None; eassumption).
      (* validity of the name that is opened *)
      assert (V -> fs_valid name = true) as Hname.
      { intros v. destruct (inv_valid st HI v) as [Hpv _].
        eapply rooted_fs_valid; [apply Hpv; exact Htop|exact Hv|exact Er]. }
      assert (consistent -> ~ In name (sreads st)) as Hnr.
      { intros c H. destruct (inv_reads st HI c) as [_ Hw]. destruct (Hw _ H); contradiction. }
      (* the state after the open was logged, when the read part is not at stake *)
      assert (forall ok, (V -> forall n b, In (n, b) (opens (log_open st name ok)) -> fs_valid n = true)) as Hlogv.
      { intros ok v n b [H|H].
        - injection H as <- _. auto.
        - destruct (inv_valid st HI v) as [_ Ho]. eapply Ho. eassumption. }
      assert (ErrInv (log_open st name true)) as Herr_t.
      { split; [apply Hlogv|]. intros c. rewrite sreads_log_true. constructor; [auto|].
        apply (inv_reads st HI c). }
      assert (Inv (log_open st name false)) as Hinv_f.
      { destruct HI as [H1 H2 H2a H2b H3 H4 H5 H6]. constructor; try assumption.
        intros v. split; [apply (H3 v)|apply Hlogv; assumption]. }
      unfold read_file in E.
      destruct (lookup g name) as [ne|ne| |fmt d refs] eqn:El.
      - (* Open fails *)
        injection E as <- <-. split; [(split; [reflexivity|exists []; reflexivity])|].
        destruct ne; (split; [discriminate|]); (split; [nocyc|]); cbn [is_notexist].
        + split; [assumption|]. cbn [snd]. intros b Hb (f0 & d0 & r0 & Hs).
          rewrite Er in Hb. injection Hb as <-. congruence.
        + apply Inv_ErrInv. assumption.
      - (* Open succeeds, reading fails *)
        injection E as <- <-. split; [(split; [reflexivity|exists []; reflexivity])|].
        destruct ne; (split; [discriminate|]); (split; [nocyc|]); cbn [is_notexist]; [|assumption].
        split.
        + destruct HI as [H1 H2 H2a H2b H3 H4 H5 H6]. constructor; try assumption.
          * intros v. split; [apply (H3 v)|apply Hlogv; assumption].
          * intros c. exfalso. apply (c name). assumption.
        + cbn [snd]. intros b Hb (f0 & d0 & r0 & Hs).
          rewrite Er in Hb. injection Hb as <-. congruence.
      - (* the source does not parse *)
        cbn [parse_content] in E. injection E as <- <-. split; [(split; [reflexivity|exists []; reflexivity])|].
        split; [discriminate|]. split; [nocyc|]. cbn [is_notexist]. assumption.
      - (* a source *)
        cbn [parse_content] in E.
        destruct (is_import k && negb d).
        { injection E as <- <-. split; [(split; [reflexivity|exists []; reflexivity])|]. split; [discriminate|]. split; [nocyc|]. cbn [is_notexist]. assumption. }
        destruct (forallb (fun r0 : ref => valid_template_path (snd r0)) refs) eqn:Erv.
        2:{ injection E as <- <-. split; [(split; [reflexivity|exists []; reflexivity])|]. split; [discriminate|]. split; [nocyc|]. cbn [is_notexist]. assumption. }
        destruct (ps (log_open st name true) name fmt refs) as [st2 r2] eqn:Eps.
        assert (Inv (push_path (log_open st name true) name)) as Hpush.
        { assert (edge top name) as Hedge.
          { destruct Href as (f0 & d0 & all & Hl & Hin). split; [exists f0, d0, all, k, nm; auto|].
            exists fmt, d, refs. assumption. }
          destruct HI as [H1 H2 H2a H2b H3 H4 H5 H6]. constructor; cbn [push_path log_open paths trees opens].
          - constructor; assumption.
          - intros p [<-|Hin]; [|auto]. apply lookup_In. congruence.
          - intros p [<-|Hin]; [exists fmt, d, refs; assumption|auto].
          - rewrite Hp in *. cbn [chain]. split; assumption.
          - intros v. split.
            + intros p [<-|Hin]; [auto|]. apply (H3 v). assumption.
            + apply Hlogv. assumption.
          - intros c. change (sreads (push_path (log_open st name true) name)) with (name :: sreads st).
            split; [constructor; [auto|apply (H4 c)]|].
            intros n [<-|Hin]; [left; left; reflexivity|].
            destruct (H4 c) as [_ Hw]. destruct (Hw _ Hin); [left; right; assumption|right; assumption].
          - intros p [<-|Hin]; [assumption|auto].
          - assumption. }
        specialize (Hps _ _ _ _ _ _ _ Eps Hpush El Erv Hf). destruct Hps as [Hfr Hpost].
        assert (Frame st st2) as Hfr2.
        { destruct Hfr as [Hq [new Hn]]. split; [exact Hq|exists new; exact Hn]. }
        destruct r2 as [u|e].
        + injection E as <- <-. split.
          * destruct Hfr2 as [Hq [new Hn]]. split; [exact Hq|]. exists ((name, (node_kind k, fmt)) :: new).
            cbn [add_tree trees]. rewrite Hn. reflexivity.
          * split; [apply Hpost|].
            intros k' nm' b [H|[]] Hb _. injection H as <- <-.
            rewrite Er in Hb. injection Hb as <-. left. reflexivity.
        + injection E as <- <-. split; [assumption|]. destruct Hpost as (H1 & H2 & H3 & H4).
          split; [assumption|]. split; [|rewrite H2; assumption].
          intros p ch Hcy. destruct (H4 p ch Hcy) as [Hc1 Hc2]. split; [assumption|].
          intros q Hqin. apply Hc2. right. exact Hqin.
    Qed.

    Lemma targets_in_cons top r refs T :
      targets_in top [r] T -> targets_in top refs T -> targets_in top (r :: refs) T.
    Proof.
      intros H1 H2 k nm b [Hin|Hin] Hr Hs; [eapply H1; [left; exact Hin|exact Hr|exact Hs]|eapply H2; eassumption].
    Qed.

    Lemma targets_in_mono top refs a b :
      Frame a b -> targets_in top refs (trees a) -> targets_in top refs (trees b).
    Proof. intros Hf H k nm x Hin Hr Hs. eapply Frame_keys; [eassumption|]. eapply H; eassumption. Qed.

    Lemma cyc_err_paths a b e : paths a = paths b -> cyc_err a e -> cyc_err b e.
    Proof. intros Hp H p ch He. destruct (H p ch He) as [H1 H2]. split; [assumption|]. rewrite <- Hp. assumption. Qed.

    Lemma cyc_err_wrap st k rp e : cyc_err st e -> cyc_err st (wrap_cycle k rp e).
    Proof. intros H p ch He. destruct e; cbn [wrap_cycle] in He; try discriminate. injection He as <- _. eapply H. reflexivity. Qed.

    Lemma cyc_err_other st e : (forall p ch, e <> ECycle p ch) -> cyc_err st e.
    Proof. intros H p ch He. exfalso. eapply H. eassumption. Qed.

    Lemma en_spec fmt refs : forall st top rest st' r,
      expand_nodes g ps st fmt refs = (st', r) ->
      Inv st -> paths st = top :: rest ->
      refs_valid refs ->
      (exists f0 d0 all, lookup g top = FSource f0 d0 all /\ incl refs all) ->
      (length (paths st) + f >= S (length g))%nat ->
      en_post st top refs st' r.
    Proof.
      induction refs as [|[k nm] more IH]; intros st top rest st' r E HI Hp Hv Hall Hf.
      { cbn [expand_nodes] in E. injection E as <- <-. split; [apply Frame_refl|].
        split; [assumption|]. intros k nm b []. }
      assert (exists f0 d0 all, lookup g top = FSource f0 d0 all /\ In (k, nm) all) as Href.
      { destruct Hall as (f0 & d0 & all & H1 & H2). exists f0, d0, all. split; [assumption|apply H2; left; reflexivity]. }
      assert (exists f0 d0 all, lookup g top = FSource f0 d0 all /\ incl more all) as Hall'.
      { destruct Hall as (f0 & d0 & all & H1 & H2). exists f0, d0, all. split; [assumption|].
        intros x Hx. apply H2. right. assumption. }
      unfold refs_valid in Hv. cbn [forallb snd] in Hv. apply andb_prop in Hv. destruct Hv as [Hv1 Hv2].
      (* the continuation of the loop from a state st1 *)
      assert (forall st1 st0, Frame st st0 -> Inv st1 ->
                paths st1 = paths st0 -> trees st1 = trees st0 ->
                targets_in top [(k, nm)] (trees st1) ->
                expand_nodes g ps st1 fmt more = (st', r) -> en_post st top ((k, nm) :: more) st' r) as Hcont.
      { intros st1 st0 Hfr HI1 Hp1 Ht1 Htg E1.
        assert (Frame st st1) as Hfr1.
        { destruct Hfr as [Ha [new Hb]]. split; [congruence|exists new; congruence]. }
        destruct Hfr1 as [Hq Hn].
        assert (paths st1 = top :: rest) as Hp1' by congruence.
        assert (length (paths st1) + f >= S (length g))%nat as Hf1 by (rewrite Hq; assumption).
        specialize (IH _ _ _ _ _ E1 HI1 Hp1' Hv2 Hall' Hf1). destruct IH as [Hfr2 Hpost].
        split; [eapply Frame_trans; [split; eassumption|eassumption]|].
        destruct r as [u|e].
        2:{ destruct Hpost as (A1 & A2 & A3 & A4). repeat (split; [assumption|]).
            eapply cyc_err_paths; [exact Hq|exact A4]. }
        destruct Hpost as [HI' Htg']. split; [assumption|].
        apply targets_in_cons; [|assumption]. eapply targets_in_mono; eassumption. }
      assert (forall x, Inv (no_extend x) <-> Inv x) as Hne.
      { intros x. split; apply Inv_ext; reflexivity. }
      assert (forall x, ErrInv x -> forall e, e <> EOutOfFuel -> is_notexist e = false -> cyc_err st e -> forall st0, Frame st st0 ->
                paths x = paths st0 -> trees x = trees st0 -> en_post st top ((k, nm) :: more) x (Err e)) as Hfail.
      { intros x Hx e He1 He2 Hcy st0 Hfr Hpx Htx. split; [|auto].
        destruct Hfr as [Ha [new Hb]]. split; [congruence|exists new; congruence]. }
      cbn [expand_nodes] in E.
      destruct k.
      - (* extends *)
        destruct (can_extend st); cbn [negb] in E.
        2:{ injection E as <- <-. eapply Hfail; try reflexivity; try discriminate; [apply Inv_ErrInv; assumption|apply Frame_refl]. }
        destruct (parse_node_file g ps st (KExtends, nm)) as [st1 r1] eqn:Epnf.
        pose proof (pnf_spec _ _ _ _ _ _ _ Epnf HI Hp Hv1 Href Hf) as [Hfr Hpost].
        destruct r1 as [tfmt|e].
        + destruct Hpost as [HI1 Htg]. destruct (format_ok fmt tfmt).
          * eapply Hcont; try eassumption; reflexivity.
          * injection E as <- <-. eapply Hfail; try reflexivity; try discriminate; [apply Inv_ErrInv; assumption|assumption].
        + injection E as <- <-. destruct Hpost as (He & Hcy & Hpost).
          destruct (is_notexist e) eqn:Ene.
          * eapply Hfail; try reflexivity; try discriminate; [apply Inv_ErrInv; apply Hpost|assumption].
          * destruct (wrap_cycle_props KExtends (rooted_path st1 nm) e He Ene).
            eapply Hfail; try reflexivity; try assumption. apply cyc_err_wrap. exact Hcy.
      - (* import *)
        destruct (parse_node_file g ps (no_extend st) (KImport, nm)) as [st1 r1] eqn:Epnf.
        assert (Inv (no_extend st)) as HI0 by (apply Hne; assumption).
        pose proof (pnf_spec (no_extend st) top rest _ _ _ _ Epnf HI0 Hp Hv1 Href Hf) as [Hfr Hpost].
        assert (Frame st st1) as Hfr' by exact Hfr.
        destruct r1 as [tfmt|e].
        + destruct Hpost as [HI1 Htg]. eapply Hcont; try eassumption; reflexivity.
        + destruct Hpost as (He & Hcy & Hpost). destruct (is_notexist e) eqn:Ene.
          * destruct Hpost as [HI1 Hns].
            eapply (Hcont (add_unresolved st1 nm) st1); try eassumption; try reflexivity.
            -- revert HI1. apply Inv_ext; reflexivity.
            -- intros k' nm' b [H|[]] Hb Hs. injection H as <- <-. exfalso. eapply Hns; eassumption.
          * injection E as <- <-. destruct (wrap_cycle_props KImport (rooted_path st1 nm) e He Ene).
            eapply Hfail; try reflexivity; try assumption. apply cyc_err_wrap. exact Hcy.
      - (* render *)
        destruct (parse_node_file g ps (no_extend st) (KRender, nm)) as [st1 r1] eqn:Epnf.
        assert (Inv (no_extend st)) as HI0 by (apply Hne; assumption).
        pose proof (pnf_spec (no_extend st) top rest _ _ _ _ Epnf HI0 Hp Hv1 Href Hf) as [Hfr Hpost].
        assert (Frame st st1) as Hfr' by exact Hfr.
        destruct r1 as [tfmt|e].
        + destruct Hpost as [HI1 Htg]. eapply Hcont; try eassumption; reflexivity.
        + cbn [andb] in E. injection E as <- <-. destruct Hpost as (He & Hcy & Hpost).
          destruct (is_notexist e) eqn:Ene.
          * eapply Hfail; try reflexivity; try discriminate; [apply Inv_ErrInv; apply Hpost|assumption].
          * destruct (wrap_cycle_props KRender (rooted_path st1 nm) e He Ene).
            eapply Hfail; try reflexivity; try assumption. apply cyc_err_wrap. exact Hcy.
      - (* render with default *)
        destruct (parse_node_file g ps (no_extend st) (KDefault, nm)) as [st1 r1] eqn:Epnf.
        assert (Inv (no_extend st)) as HI0 by (apply Hne; assumption).
        pose proof (pnf_spec (no_extend st) top rest _ _ _ _ Epnf HI0 Hp Hv1 Href Hf) as [Hfr Hpost].
        assert (Frame st st1) as Hfr' by exact Hfr.
        destruct r1 as [tfmt|e].
        + destruct Hpost as [HI1 Htg]. eapply Hcont; try eassumption; reflexivity.
        + destruct Hpost as (He & Hcy & Hpost). cbn [andb] in E. destruct (is_notexist e) eqn:Ene.
          * destruct Hpost as [HI1 Hns].
            eapply (Hcont st1 st1); try eassumption; try reflexivity.
            intros k' nm' b [H|[]] Hb Hs. injection H as <- <-. exfalso. eapply Hns; eassumption.
          * injection E as <- <-. destruct (wrap_cycle_props KRender (rooted_path st1 nm) e He Ene).
            eapply Hfail; try reflexivity; try assumption. apply cyc_err_wrap. exact Hcy.
    Qed.
  End Level.

  (* parseSource with fuel f satisfies its specification *)
  Lemma ps_spec : forall f, PS_spec f (parse_source f g).
  Proof.
    induction f as [|f IH]; intros st path fmt d refs st' r E Hpush Hl Hrv Hf.
    - (* the stack cannot be that deep *)
      exfalso. pose proof (inv_nodup _ Hpush) as Hnd. pose proof (inv_keys _ Hpush) as Hk.
      cbn [push_path paths] in Hnd, Hk.
      assert (length (path :: paths st) <= length (keys g))%nat as Hle
        by (apply NoDup_incl_length; [assumption|exact Hk]).
      unfold keys in Hle. rewrite map_length in Hle. cbn [length] in Hle. lia.
    - cbn [parse_source] in E.
      destruct (expand_nodes g (parse_source f g) (push_path st path) fmt refs) as [st2 r2] eqn:Een.
      injection E as <- <-.
      assert (length (paths (push_path st path)) + f >= S (length g))%nat as Hf2
        by (cbn [push_path paths length]; lia).
      pose proof (en_spec f (parse_source f g) IH fmt refs (push_path st path) path (paths st) st2 r2
                          Een Hpush eq_refl Hrv (ex_intro _ fmt (ex_intro _ d (ex_intro _ refs (conj Hl (incl_refl refs))))) Hf2) as [Hfr Hpost].
      destruct Hfr as [Hq [new Hn]]. cbn [push_path paths trees] in Hq, Hn.
      split.
      { split; [cbn [pop_path paths]; rewrite Hq; reflexivity|exists new; exact Hn]. }
      destruct r2 as [u|e].
      + destruct Hpost as [[H1 H2 H2a H2b H3 H4 H5 H6] Htg]. intros v.
        rewrite Hq in *. inversion H1 as [|? ? Hnin Hnd]; subst.
        constructor; change (sreads (add_tree (pop_path st2) path v)) with (sreads st2);
          cbn [add_tree pop_path paths trees opens]; rewrite ?Hq; cbn [tl keys map fst].
        * assumption.
        * intros p Hin. apply H2. right. assumption.
        * intros p Hin. apply H2a. right. assumption.
        * destruct (paths st) as [|b r]; [exact I|]. apply H2b.
        * intros vv. destruct (H3 vv) as [Ha Hb]. split; [intros p Hin; apply Ha; right; assumption|exact Hb].
        * intros c. destruct (H4 c) as [Ha Hb]. split; [exact Ha|].
          intros n Hin. destruct (Hb n Hin) as [[<-|Hp]|Ht]; [right; left; reflexivity|left; assumption|right; right; assumption].
        * intros p Hin [<-|Ht]; [contradiction|]. apply (H5 p); [right; assumption|assumption].
        * constructor; [assumption|apply H5; left; reflexivity|].
          intros b [(f0 & d0 & refs0 & k & nm & Hl0 & Hin & Hr) Hs].
          rewrite Hl in Hl0. injection Hl0 as <- <- <-. eapply Htg; eassumption.
      + destruct Hpost as (H1 & H2 & H3 & H4). split; [assumption|]. split; [assumption|]. split; [exact H3|exact H4].
  Qed.

  (* ---------- no cycle inside a closed set ---------- *)

  Lemma closed_step T : closed T -> forall a b, In a (keys T) -> edge a b -> In b (keys T).
  Proof.
    induction 1 as [|a0 v T Hc IH Hn He]; intros a b Hin Hab; [destruct Hin|].
    cbn [keys map fst In] in *. destruct Hin as [<-|Hin]; right; [apply He; assumption|eapply IH; eassumption].
  Qed.

  Lemma closed_stay T : closed T -> forall a b, In a (keys T) -> clos_trans _ edge a b -> In b (keys T).
  Proof.
    intros Hc a b Hin Hab. induction Hab as [a b H|a b c _ IH1 _ IH2].
    - eapply closed_step; eassumption.
    - apply IH2, IH1, Hin.
  Qed.

  Lemma closed_no_cycle T : closed T -> forall a, In a (keys T) -> ~ clos_trans _ edge a a.
  Proof.
    induction 1 as [|a0 v T Hc IH Hn He]; intros a Hin Hcyc; [destruct Hin|].
    cbn [keys map fst In] in Hin. destruct Hin as [<-|Hin]; [|eapply IH; eassumption].
    apply clos_trans_t1n in Hcyc. inversion Hcyc as [? Hab|b ? Hab Hba]; subst.
    - apply Hn, He, Hab.
    - apply Hn. apply clos_t1n_trans in Hba. eapply closed_stay; [eassumption|apply He, Hab|assumption].
  Qed.
End Graph.

(* ---------- ParseTemplate ---------- *)

Lemma reads_rev st : map fst (filter (fun nb : bytes * bool => snd nb) (rev (opens st))) = rev (sreads st).
Proof.
  unfold sreads. induction (opens st) as [|[n b] l IH]; [reflexivity|].
  cbn [rev]. rewrite filter_app, map_app, IH. cbn [filter snd].
  destruct b; cbn [map fst rev]; [reflexivity|]. rewrite app_nil_r. reflexivity.
Qed.

Definition has_cycle_from (g : graph) (root : bytes) : Prop :=
  exists c, clos_refl_trans _ (edge g) root c /\ clos_trans _ (edge g) c c.

(* everything that the four theorems need, for any fuel that is large enough *)
Lemma parse_template_post g root :
  let o := parse_template g root in
  out_result o <> Err EOutOfFuel /\
  (fs_valid root = true -> forall n b, In (n, b) (out_opens o) -> fs_valid n = true) /\
  (consistent g -> NoDup (reads o)) /\
  (forall u, out_result o = Ok u -> ~ has_cycle_from g root) /\
  (forall p ch, out_result o = Err (ECycle p ch) -> has_cycle_from g root).
Proof.
  set (V := fs_valid root = true).
  unfold parse_template, parse_template_fuel.
  destruct (is_dot root || has_suffix_slash root).
  { cbn. repeat split; try discriminate; try constructor. intros _ n b []. }
  unfold read_file.
  destruct (lookup g root) as [ne|ne| |fmt d refs] eqn:El.
  - cbn. repeat split; try (destruct ne; discriminate); try constructor.
    intros v n b [H|[]]. injection H as <- _. exact v.
  - cbn. repeat split; try (destruct ne; discriminate).
    + intros v n b [H|[]]. injection H as <- _. exact v.
    + intros _. constructor; [intros []|constructor].
  - cbn. repeat split; try discriminate.
    + intros v n b [H|[]]. injection H as <- _. exact v.
    + intros _. constructor; [intros []|constructor].
  - cbn [parse_content andb].
    destruct (forallb (fun r : ref => valid_template_path (snd r)) refs) eqn:Erv.
    2:{ cbn. repeat split; try discriminate.
        + intros v n b [H|[]]. injection H as <- _. exact v.
        + intros _. constructor; [intros []|constructor]. }
    set (st1 := log_open init_state root true).
    destruct (parse_source (S (length g)) g st1 root fmt refs) as [st2 r] eqn:Eps.
    assert (Inv g V (push_path st1 root)) as Hpush.
    { constructor; cbn.
      - constructor; [intros []|constructor].
      - intros p [<-|[]]. apply lookup_In. congruence.
      - intros p [<-|[]]. exists fmt, d, refs. assumption.
      - exact I.
      - intros v. split; [intros p [<-|[]]; exact v|]. intros n b [H|[]]. injection H as <- _. exact v.
      - intros _. split; [constructor; [intros []|constructor]|]. intros n [<-|[]]. left. left. reflexivity.
      - intros p _ [].
      - constructor. }
    assert (length (paths st1) + S (length g) >= S (length g))%nat as Hf by (cbn; lia).
    pose proof (ps_spec g V (S (length g)) _ _ _ _ _ _ _ Eps Hpush El Erv Hf) as [_ Hpost].
    destruct r as [u|e].
    + cbn [out_result out_opens]. pose proof (Hpost (KRender, 0)) as HI.
      split; [discriminate|]. split; [|split; [|split; [|discriminate]]].
      * intros v n b Hin. apply in_rev in Hin. apply (inv_valid _ _ _ HI v) in Hin. assumption.
      * intros c. unfold reads. cbn [out_opens]. rewrite reads_rev.
        apply NoDup_rev. apply (inv_reads _ _ _ HI c).
      * intros u' _ (c & Hrc & Hcc).
        pose proof (inv_closed _ _ _ HI) as Hcl. cbn [add_tree trees] in Hcl.
        assert (In c (keys ((root, (KRender, 0)) :: trees st2))) as Hin.
        { apply clos_rt_cases in Hrc. destruct Hrc as [<-|Hrc]; [left; reflexivity|].
          eapply closed_stay; [exact Hcl|left; reflexivity|exact Hrc]. }
        eapply closed_no_cycle; eassumption.
    + cbn [out_result out_opens]. destruct Hpost as (He & _ & (Hv & Hr) & Hcy).
      split; [congruence|]. split; [|split; [|split]].
      * intros v n b Hin. apply in_rev in Hin. eapply Hv; eassumption.
      * intros c. unfold reads. cbn [out_opens]. rewrite reads_rev. apply NoDup_rev. auto.
      * discriminate.
      * intros p ch H. injection H as ->. destruct (Hcy p ch eq_refl) as [Hc1 Hc2].
        exists p. split; [apply Hc2; left; reflexivity|assumption].
Qed.

Theorem expand_terminates g root : out_result (parse_template g root) <> Err EOutOfFuel.
Proof. apply parse_template_post. Qed.

Theorem reads_nodup g root : consistent g -> NoDup (reads (parse_template g root)).
Proof. apply parse_template_post. Qed.

Theorem opens_valid g root : fs_valid root = true ->
  Forall (fun nb : bytes * bool => fs_valid (fst nb) = true) (out_opens (parse_template g root)).
Proof.
  intros v. apply Forall_forall. intros [n b] Hin.
  destruct (parse_template_post g root) as (_ & H & _). eapply H; eassumption.
Qed.

(* a cycle error is never reported without a cycle that can be reached from the root *)
Theorem cycle_error_sound g root p ch :
  out_result (parse_template g root) = Err (ECycle p ch) -> has_cycle_from g root.
Proof. apply parse_template_post. Qed.

Theorem cycle_is_error g root : has_cycle_from g root ->
  exists e, out_result (parse_template g root) = Err e /\ e <> EOutOfFuel.
Proof.
  intros Hc. destruct (parse_template_post g root) as (H1 & _ & _ & H4 & _).
  destruct (out_result (parse_template g root)) as [u|e] eqn:E.
  - exfalso. eapply H4; [reflexivity|assumption].
  - exists e. split; [reflexivity|congruence].
Qed.

(* ---------- the statement of C18 over the models ---------- *)

Definition rooted_valid_stmt : Prop :=
  forall parent name,
    fs_valid parent = true -> valid_template_path name = true ->
    rooted parent name =
      match resolve parent name with
      | None => None
      | Some r => if negb (is_abs name) && begins_dotdot r then None else Some r
      end
    /\ (forall r, rooted parent name = Some r -> fs_valid r = true).

Lemma rooted_valid : rooted_valid_stmt.
Proof.
  intros parent name Hp Hn. split; [apply rooted_spec; assumption|].
  intros r. apply rooted_fs_valid; assumption.
Qed.

Definition C18_full : Prop :=
  rooted_valid_stmt
  /\ (forall g root, out_result (parse_template g root) <> Err EOutOfFuel)
  /\ (forall g root, consistent g -> NoDup (reads (parse_template g root)))
  /\ (forall g root, has_cycle_from g root ->
        exists e, out_result (parse_template g root) = Err e /\ e <> EOutOfFuel)
  /\ (forall g root p ch, out_result (parse_template g root) = Err (ECycle p ch) -> has_cycle_from g root)
  /\ (forall g root, fs_valid root = true ->
        Forall (fun nb : bytes * bool => fs_valid (fst nb) = true) (out_opens (parse_template g root))).

Lemma C18_all : C18_full.
Proof.
  split; [exact rooted_valid|]. split; [exact expand_terminates|]. split; [exact reads_nodup|].
  split; [exact cycle_is_error|]. split; [exact cycle_error_sound|exact opens_valid].
Qed.
