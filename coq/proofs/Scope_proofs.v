(* C19: theorems over the name resolution model (model/ScopeM.v). *)
From Coq Require Import List NArith Bool Lia.
From Verif Require Import ScopeM.
Import ListNotations.
Open Scope N_scope.

(* ---- induction principle for the nested type stmt ---- *)

Section StmtInd.
  Variable P : stmt -> Prop.
  Hypothesis Hcall : forall r, P (SCall r).
  Hypothesis Hgo : forall r, P (SGo r).
  Hypothesis Hdefer : forall r, P (SDefer r).
  Hypothesis Hblock : forall x b, Forall P b -> P (SBlock x b).

  Fixpoint stmt_ind2 (s : stmt) : P s :=
    match s with
    | SCall r => Hcall r
    | SGo r => Hgo r
    | SDefer r => Hdefer r
    | SBlock x b =>
      Hblock x b ((fix f (l : list stmt) : Forall P l :=
                     match l with
                     | [] => Forall_nil P
                     | s' :: r => Forall_cons s' (stmt_ind2 s') (f r)
                     end) b)
    end.
End StmtInd.

(* the inner loop of SBlock is check_stmts *)
Lemma check_block cfg locals file globals x b a :
  check_stmt cfg locals file globals (SBlock x b) a = check_stmts cfg ((x, BLocal) :: locals) file globals b a.
Proof.
  cbn [check_stmt]. revert a. induction b as [|s r IH]; intros a; cbn [check_stmts]; [reflexivity|].
  destruct (check_stmt cfg ((x, BLocal) :: locals) file globals s a); [apply IH|reflexivity].
Qed.

(* ---- what the embedder supplies ---- *)

Definition supplied (cfg : config) (g : prog) (id : nid) : Prop :=
  In id (map snd (c_globals cfg)) \/
  exists form p pkg x, In (form, p) (g_imports g) /\ c_importer cfg p = APkg pkg /\ In (x, id) (p_decls pkg).

Definition binding_ok (S : nid -> Prop) (b : binding) : Prop :=
  match b with
  | BNative id _ => S id
  | BPkg _ pkg => forall x id, In (x, id) (p_decls pkg) -> S id
  | _ => True
  end.

Definition scope_ok (S : nid -> Prop) (s : scope) : Prop := Forall (fun e => binding_ok S (snd e)) s.

Lemma lookup_in s x b : lookup s x = Some b -> In (x, b) s.
Proof.
  induction s as [|[k b'] r IH]; cbn [lookup]; [discriminate|].
  destruct (N.eqb_spec k x) as [->|_]; [intros H; injection H as ->; left; reflexivity|].
  intros H. right. apply IH, H.
Qed.

Lemma lookup_ok S s x b : scope_ok S s -> lookup s x = Some b -> binding_ok S b.
Proof.
  intros Hs Hl. apply lookup_in in Hl. unfold scope_ok in Hs. rewrite Forall_forall in Hs. apply (Hs _ Hl).
Qed.

Lemma declare_ok S s x b : scope_ok S s -> binding_ok S b -> scope_ok S (declare s x b).
Proof.
  intros Hs Hb. unfold declare. destruct (lookup s x); [exact Hs|].
  apply Forall_app. split; [exact Hs|]. constructor; [exact Hb|constructor].
Qed.

Lemma snoc_ok S s x b : scope_ok S s -> binding_ok S b -> scope_ok S (s ++ [(x, b)]).
Proof. intros Hs Hb. apply Forall_app. split; [exact Hs|]. constructor; [exact Hb|constructor]. Qed.

Lemma resolve_ok S locals file globals x b :
  scope_ok S locals -> scope_ok S file -> scope_ok S globals ->
  resolve locals file globals x = Some b -> binding_ok S b.
Proof.
  intros Hl Hf Hg. unfold resolve.
  destruct (lookup locals x) eqn:E1; [intros H; injection H as <-; exact (lookup_ok S _ _ _ Hl E1)|].
  destruct (lookup file x) eqn:E2; [intros H; injection H as <-; exact (lookup_ok S _ _ _ Hf E2)|].
  destruct (lookup globals x) eqn:E3; [intros H; injection H as <-; exact (lookup_ok S _ _ _ Hg E3)|].
  intros H. apply lookup_in in H. cbn in H. destruct H as [H|[H|[]]]; injection H as _ <-; exact I.
Qed.

Lemma pkg_decl_in pkg x id : pkg_decl pkg x = Some id -> In (x, id) (p_decls pkg).
Proof.
  unfold pkg_decl. induction (p_decls pkg) as [|[k i] r IH]; [discriminate|].
  destruct (N.eqb_spec k x) as [->|_]; [intros H; injection H as ->; left; reflexivity|].
  intros H. right. apply IH, H.
Qed.

(* ---- imports ---- *)

Lemma check_imports_spec cfg (S : nid -> Prop) imps : forall file asked file' asked',
  (forall form p pkg x id, In (form, p) imps -> c_importer cfg p = APkg pkg -> In (x, id) (p_decls pkg) -> S id) ->
  scope_ok S file ->
  check_imports cfg imps file asked = inl (file', asked') ->
  scope_ok S file' /\ asked' = asked ++ map snd imps /\
  Forall (fun ip => exists pkg, c_importer cfg (snd ip) = APkg pkg) imps.
Proof.
  induction imps as [|[form p] r IH]; intros file asked file' asked' HS Hok Hc; cbn [check_imports] in Hc.
  - injection Hc as <- <-. split; [exact Hok|]. split; [rewrite app_nil_r; reflexivity|constructor].
  - destruct (c_importer cfg p) as [pkg| |] eqn:Himp; [|discriminate|discriminate].
    assert (HSr : forall form p pkg x id, In (form, p) r -> c_importer cfg p = APkg pkg -> In (x, id) (p_decls pkg) -> S id)
      by (intros; eapply HS; [right|..]; eassumption).
    assert (Hpkg : forall x id, In (x, id) (p_decls pkg) -> S id)
      by (intros; eapply HS; [left; reflexivity|eassumption|eassumption]).
    assert (Hfin : forall file1, scope_ok S file1 -> check_imports cfg r file1 (asked ++ [p]) = inl (file', asked') ->
              scope_ok S file' /\ asked' = asked ++ map snd ((form, p) :: r) /\
              Forall (fun ip => exists pkg, c_importer cfg (snd ip) = APkg pkg) ((form, p) :: r)).
    { intros file1 Hok1 Hc1. destruct (IH _ _ _ _ HSr Hok1 Hc1) as (H1 & H2 & H3).
      split; [exact H1|]. split; [rewrite H2; cbn [map snd]; rewrite <- app_assoc; reflexivity|].
      constructor; [exists pkg; exact Himp|exact H3]. }
    destruct form as [|n| |].
    + destruct (lookup file (p_name pkg)); [discriminate|]. apply (Hfin _ (snoc_ok S file (p_name pkg) (BPkg p pkg) Hok Hpkg) Hc).
    + destruct (lookup file n); [discriminate|]. apply (Hfin _ (snoc_ok S file n (BPkg p pkg) Hok Hpkg) Hc).
    + apply (Hfin _ Hok Hc).
    + refine (Hfin _ _ Hc).
      assert (Hd : forall l s, (forall x id, In (x, id) l -> S id) -> scope_ok S s ->
                scope_ok S (fold_left (fun s d => declare s (fst d) (BNative (snd d) (Some p))) l s)).
      { induction l as [|[x id] l IHl]; intros s Hl Hs; cbn [fold_left]; [exact Hs|].
        apply IHl; [intros; apply (Hl x0 id0); right; assumption|].
        apply declare_ok; [exact Hs|]. cbn. apply (Hl x id). left. reflexivity. }
      apply Hd; assumption.
Qed.

(* ---- statements ---- *)

Definition acc_ok (S : nid -> Prop) (a : acc) : Prop := Forall S (a_natives a).

Lemma check_ref_ok S locals file globals r a a' :
  scope_ok S locals -> scope_ok S file -> scope_ok S globals -> acc_ok S a ->
  check_ref locals file globals r a = inl a' -> acc_ok S a'.
Proof.
  intros Hl Hf Hg Ha. unfold check_ref. destruct r as [x|p x].
  - destruct (resolve locals file globals x) as [b|] eqn:Hr; [|discriminate].
    pose proof (resolve_ok S _ _ _ _ _ Hl Hf Hg Hr) as Hb.
    destruct b; try discriminate; intros H; injection H as <-; unfold acc_ok; cbn [a_natives]; try exact Ha.
    apply Forall_app. split; [exact Ha|]. constructor; [exact Hb|constructor].
  - destruct (resolve locals file globals p) as [b|] eqn:Hr; [|discriminate].
    pose proof (resolve_ok S _ _ _ _ _ Hl Hf Hg Hr) as Hb.
    destruct b; try discriminate.
    destruct (pkg_decl pkg x) as [id|] eqn:Hd; [|discriminate].
    intros H; injection H as <-. unfold acc_ok; cbn [a_natives].
    apply Forall_app. split; [exact Ha|]. constructor; [|constructor].
    cbn in Hb. eapply Hb. apply pkg_decl_in, Hd.
Qed.

Lemma check_stmt_ok S cfg file globals : scope_ok S file -> scope_ok S globals ->
  forall s locals a a', scope_ok S locals -> acc_ok S a ->
  check_stmt cfg locals file globals s a = inl a' -> acc_ok S a'.
Proof.
  intros Hf Hg. induction s as [r|r|r|x b IH] using stmt_ind2; intros locals a a' Hl Ha Hc.
  - cbn [check_stmt] in Hc. exact (check_ref_ok S locals file globals r a a' Hl Hf Hg Ha Hc).
  - cbn [check_stmt] in Hc. destruct (check_ref locals file globals r a) as [a1|] eqn:E; [|discriminate].
    destruct (c_allow_go cfg); [|discriminate]. injection Hc as <-. exact (check_ref_ok S locals file globals r a a1 Hl Hf Hg Ha E).
  - cbn [check_stmt] in Hc. exact (check_ref_ok S locals file globals r a a' Hl Hf Hg Ha Hc).
  - rewrite check_block in Hc.
    assert (Hl' : scope_ok S ((x, BLocal) :: locals)) by (constructor; [exact I|exact Hl]).
    revert a Ha Hc. induction IH as [|s r Hs _ IHr]; intros a Ha Hc; cbn [check_stmts] in Hc.
    + injection Hc as <-. exact Ha.
    + destruct (check_stmt cfg ((x, BLocal) :: locals) file globals s a) as [a1|] eqn:E; [|discriminate].
      apply (IHr a1); [eapply Hs; eassumption|exact Hc].
Qed.

Lemma check_stmts_ok S cfg file globals : scope_ok S file -> scope_ok S globals ->
  forall l locals a a', scope_ok S locals -> acc_ok S a ->
  check_stmts cfg locals file globals l a = inl a' -> acc_ok S a'.
Proof.
  intros Hf Hg. induction l as [|s r IH]; intros locals a a' Hl Ha Hc; cbn [check_stmts] in Hc.
  - injection Hc as <-. exact Ha.
  - destruct (check_stmt cfg locals file globals s a) as [a1|] eqn:E; [|discriminate].
    eapply IH; [exact Hl| |exact Hc]. exact (check_stmt_ok S cfg file globals Hf Hg s locals a a1 Hl Ha E).
Qed.

(* ---- the theorems ---- *)

Theorem imports_from_importer cfg g o : check cfg g = inl o ->
  o_asked o = map snd (g_imports g) /\
  Forall (fun ip => exists pkg, c_importer cfg (snd ip) = APkg pkg) (g_imports g).
Proof.
  unfold check. destruct (check_imports cfg (g_imports g) [] []) as [[file0 asked]|] eqn:Hi; [|discriminate].
  destruct (check_imports_spec cfg (fun _ => True) _ _ _ _ _ (fun _ _ _ _ _ _ _ _ => I) (Forall_nil _) Hi) as (_ & Ha & Hall).
  destruct (check_stmts _ _ _ _ _ _) as [a|]; [|discriminate].
  destruct (if c_template cfg then None else first_unused _ _); [discriminate|]. intros H; injection H as <-. cbn [o_asked]. auto.
Qed.

Theorem natives_closed cfg g o : check cfg g = inl o -> Forall (supplied cfg g) (o_natives o).
Proof.
  unfold check. destruct (check_imports cfg (g_imports g) [] []) as [[file0 asked]|] eqn:Hi; [|discriminate].
  set (S := supplied cfg g).
  assert (HS : forall form p pkg x id, In (form, p) (g_imports g) -> c_importer cfg p = APkg pkg -> In (x, id) (p_decls pkg) -> S id).
  { intros form p pkg x id H1 H2 H3. right. exists form, p, pkg, x. auto. }
  destruct (check_imports_spec cfg S _ _ _ _ _ HS (Forall_nil _) Hi) as (Hf0 & _ & _).
  assert (Hfile : scope_ok S (fold_left (fun s f => declare s f BScriggo) (g_funcs g) file0)).
  { revert Hf0. generalize file0. induction (g_funcs g) as [|f r IH]; intros s Hs; cbn [fold_left]; [exact Hs|].
    apply IH. apply declare_ok; [exact Hs|exact I]. }
  assert (Hglob : scope_ok S (global_scope cfg)).
  { unfold global_scope, scope_ok. destruct (c_template cfg); [|constructor]. apply Forall_forall. intros e He. apply in_map_iff in He.
    destruct He as ([x id] & <- & Hin). cbn. left. apply in_map_iff. exists (x, id). auto. }
  destruct (check_stmts _ _ _ _ _ _) as [a|] eqn:Hc; [|discriminate].
  destruct (if c_template cfg then None else first_unused _ _); [discriminate|]. intros H; injection H as <-. cbn [o_natives].
  eapply (check_stmts_ok S); [exact Hfile|exact Hglob|constructor| |exact Hc]. constructor.
Qed.

Lemma go_stmt_rejected cfg file globals : c_allow_go cfg = false ->
  forall s, stmt_has_go s = true -> forall locals a, exists e, check_stmt cfg locals file globals s a = inr e.
Proof.
  intros Hno. induction s as [r|r|r|x b IH] using stmt_ind2; intros Hg locals a; cbn [stmt_has_go] in Hg; try discriminate.
  - cbn [check_stmt]. destruct (check_ref locals file globals r a); [rewrite Hno|]; eexists; reflexivity.
  - rewrite check_block. revert a. induction IH as [|s r Hs _ IHr]; intros a; cbn [existsb] in Hg; [discriminate|].
    cbn [check_stmts]. destruct (check_stmt cfg ((x, BLocal) :: locals) file globals s a) as [a1|e] eqn:E; [|eexists; reflexivity].
    apply orb_prop in Hg. destruct Hg as [Hg|Hg].
    + destruct (Hs Hg ((x, BLocal) :: locals) a) as (e & He). congruence.
    + apply IHr, Hg.
Qed.

Theorem go_needs_option cfg g o : check cfg g = inl o -> has_go (g_body g) = true -> c_allow_go cfg = true.
Proof.
  intros Hc Hg. destruct (c_allow_go cfg) eqn:Hno; [reflexivity|exfalso].
  unfold check in Hc. destruct (check_imports cfg (g_imports g) [] []) as [[file0 asked]|]; [|discriminate].
  set (file := fold_left _ _ _) in Hc. set (a0 := {| a_natives := []; a_used := []; a_prints := 0 |}) in Hc.
  assert (H : forall l locals a, existsb stmt_has_go l = true -> exists e, check_stmts cfg locals file (global_scope cfg) l a = inr e).
  { induction l as [|s r IH]; intros locals a Hl; cbn [existsb] in Hl; [discriminate|]. cbn [check_stmts].
    destruct (check_stmt cfg locals file (global_scope cfg) s a) as [a1|e] eqn:E; [|eexists; reflexivity].
    apply orb_prop in Hl. destruct Hl as [Hl|Hl].
    - destruct (go_stmt_rejected cfg file (global_scope cfg) Hno s Hl locals a) as (e & He). congruence.
    - apply IH, Hl. }
  destruct (H (g_body g) [] a0 Hg) as (e & He). rewrite He in Hc. discriminate.
Qed.

(* an import of a path for which the importer does not answer with a package
   (it does not have it, or it returns an error) makes the build fail *)
Theorem unanswered_import_fails cfg g form p :
  In (form, p) (g_imports g) -> (forall pkg, c_importer cfg p <> APkg pkg) -> exists e, check cfg g = inr e.
Proof.
  intros Hin Hnone. destruct (check cfg g) as [o|e] eqn:Hc; [|eexists; reflexivity].
  destruct (imports_from_importer _ _ _ Hc) as (_ & Hall). rewrite Forall_forall in Hall.
  destruct (Hall _ Hin) as (pkg & Hp). cbn in Hp. exfalso. exact (Hnone pkg Hp).
Qed.

Theorem unknown_import_fails cfg g form p :
  In (form, p) (g_imports g) -> c_importer cfg p = ANone -> exists e, check cfg g = inr e.
Proof.
  intros Hin Hnone. apply (unanswered_import_fails cfg g form p Hin). intros pkg H. congruence.
Qed.

(* ---- native.CombinedImporter: the first answer that is not (nil, nil) ---- *)

Lemma combined_first ms p a : a <> ANone ->
  (combined ms p = a <->
   exists pre m post, ms = pre ++ m :: post /\ Forall (fun m' => m' p = ANone) pre /\ m p = a).
Proof.
  intros Ha. induction ms as [|m0 r IH]; cbn [combined].
  - split; [intros H; congruence|]. intros (pre & m & post & H & _). destruct pre; discriminate.
  - destruct (m0 p) as [pkg| |] eqn:E.
    + split.
      * intros <-. exists [], m0, r. repeat split; [constructor|exact E].
      * intros (pre & m & post & H & Hpre & Hm). destruct pre as [|m1 pre]; cbn in H; injection H as -> ->.
        -- congruence.
        -- inversion Hpre; congruence.
    + rewrite IH. split.
      * intros (pre & m & post & -> & Hpre & Hm). exists (m0 :: pre), m, post. repeat split; [constructor; assumption|exact Hm].
      * intros (pre & m & post & H & Hpre & Hm). destruct pre as [|m1 pre]; cbn in H; injection H as -> ->.
        -- congruence.
        -- exists pre, m, post. inversion Hpre; auto.
    + split.
      * intros <-. exists [], m0, r. repeat split; [constructor|exact E].
      * intros (pre & m & post & H & Hpre & Hm). destruct pre as [|m1 pre]; cbn in H; injection H as -> ->.
        -- congruence.
        -- inversion Hpre; congruence.
Qed.

Lemma combined_none ms p : combined ms p = ANone <-> Forall (fun m => m p = ANone) ms.
Proof.
  induction ms as [|m r IH]; cbn [combined]; [split; [constructor|reflexivity]|].
  destruct (m p) eqn:E; (split; [intros H|intros H; inversion H; subst]); try congruence.
  constructor; [exact E|apply IH, H]. apply IH. assumption.
Qed.

(* a member that answers a path with an error, all earlier members not having
   the path, vetoes it: whatever the later members have, a program that
   imports the path does not build *)
Theorem combined_veto_fails cfg g form p pre m post :
  c_importer cfg = combined (pre ++ m :: post) ->
  Forall (fun m' => m' p = ANone) pre -> m p = AErr ->
  In (form, p) (g_imports g) -> exists e, check cfg g = inr e.
Proof.
  intros Hc Hpre Hm Hin. apply (unanswered_import_fails cfg g form p Hin). intros pkg H.
  rewrite Hc in H. assert (Hne : AErr <> ANone) by discriminate.
  assert (He : combined (pre ++ m :: post) p = AErr).
  { apply (combined_first _ p AErr Hne). exists pre, m, post. auto. }
  congruence.
Qed.

(* if the build succeeds the package of every imported path is the one of the
   first member that has it, every earlier member answering (nil, nil) *)
Theorem combined_package_from_first cfg g o ms :
  c_importer cfg = combined ms -> check cfg g = inl o ->
  Forall (fun ip => exists pre m post pkg, ms = pre ++ m :: post /\
            Forall (fun m' => m' (snd ip) = ANone) pre /\ m (snd ip) = APkg pkg /\
            c_importer cfg (snd ip) = APkg pkg) (g_imports g).
Proof.
  intros Hc Hok. destruct (imports_from_importer _ _ _ Hok) as (_ & Hall).
  rewrite Forall_forall in *. intros ip Hin. destruct (Hall ip Hin) as (pkg & Hp).
  assert (Hne : APkg pkg <> ANone) by discriminate.
  pose proof Hp as Hp'. rewrite Hc in Hp'. apply (combined_first ms (snd ip) (APkg pkg) Hne) in Hp'.
  destruct Hp' as (pre & m & post & H1 & H2 & H3). exists pre, m, post, pkg. auto.
Qed.
