(* C06, work package esc2: the Tag context (TagM.showInTag_text).
   - the model never runs out of fuel,
   - every byte written is either not ASCII or an ASCII character that
     showInTag does not replace: no control character, no quote of either
     kind, no greater-than sign, slash or equals sign (and no DEL),
   - hence a tokenizer that is inside the attribute part of a start tag stays
     there: the tag is not closed and no attribute value starts,
   - but the number of attributes is not kept (white space is written as it is). *)
From Coq Require Import List NArith Bool Lia.
From Verif Require Import Bytes Utf8 Utf8_proofs Facts_unicode TagM.
Import ListNotations.
Open Scope N_scope.

Definition tag_byte_ok (b : N) : bool := (128 <=? b) || negb (tag_bad_rune b).

Lemma high_ok b : 128 <= b -> tag_byte_ok b = true.
Proof. intros H. unfold tag_byte_ok. apply N.leb_le in H. rewrite H. reflexivity. Qed.

Lemma add_high a x : 128 <= a -> tag_byte_ok (a + x) = true.
Proof. intros H. apply high_ok. etransitivity; [exact H|apply N.le_add_r]. Qed.

Lemma utf8_encode_high cp : 128 <= cp -> forallb tag_byte_ok (utf8_encode cp) = true.
Proof.
  intros H. unfold utf8_encode.
  destruct (N.ltb_spec cp 128); [lia|].
  destruct (cp <? 2048); [|destruct (cp <? 65536)]; cbn [forallb]; rewrite ?andb_true_r;
    repeat (apply andb_true_intro; split); try reflexivity; apply add_high; lia.
Qed.

Lemma utf8_encode_ok c : tag_bad_rune c = false -> forallb tag_byte_ok (utf8_encode c) = true.
Proof.
  intros H. destruct (N.lt_ge_cases c 128) as [Hc|Hc]; [|apply utf8_encode_high, Hc].
  unfold utf8_encode. apply N.ltb_lt in Hc. rewrite Hc. cbn [forallb]. unfold tag_byte_ok. rewrite H.
  rewrite orb_true_r. reflexivity.
Qed.

Lemma rune_error_ok : forallb tag_byte_ok (utf8_encode rune_error) = true.
Proof. vm_compute. reflexivity. Qed.

(* the bytes a rune was decoded from: ASCII and equal to the rune, or all at least 128 *)
Lemma decoded_bytes_ok b0 r c sz :
  rune_shape b0 r c sz -> tag_bad_rune c = false -> forallb tag_byte_ok (firstn sz (b0 :: r)) = true.
Proof.
  intros H Hb. destruct H as [H|H|b1 r1 Hr H0 H1|b1 b2 r2 Hr H0 H1 H2 Hov|b1 b2 b3 r3 c Hr H0 H1 H2 H3 Hc4]; subst;
    cbn [firstn forallb]; rewrite ?andb_true_r.
  - unfold tag_byte_ok. rewrite Hb. apply orb_true_r.
  - apply high_ok, H.
  - rewrite !high_ok by lia. reflexivity.
  - rewrite !high_ok by lia. reflexivity.
  - rewrite !high_ok by lia. reflexivity.
Qed.

Lemma decode_size_pos b0 r : (1 <= snd (decode_rune (b0 :: r)) <= length (b0 :: r))%nat.
Proof. exact (rune_shape_len _ _ _ _ (decode_rune_shape b0 r)). Qed.

(* ---------------------------------------------------------------- fuel *)

Lemma tag_loop_fuel fuel : forall s j pre s2, (length s <= fuel)%nat -> tag_loop fuel s j pre s2 <> None.
Proof.
  induction fuel as [|f IH]; intros s j pre s2 H.
  - destruct s; [discriminate|cbn [length] in H; lia].
  - destruct s as [|b0 r]; [discriminate|]. cbn [tag_loop].
    pose proof (decode_size_pos b0 r) as Hs.
    destruct (decode_rune (b0 :: r)) as [c size]. cbn [snd] in Hs.
    apply IH. rewrite skipn_length. cbn [length] in *. lia.
Qed.

Theorem showInTag_total s : showInTag_text s <> None.
Proof.
  unfold showInTag_text. pose proof (tag_loop_fuel (length s) s 0 [] None (le_n _)) as H.
  destruct (tag_loop (length s) s 0 [] None) as [[x|]|]; congruence.
Qed.

(* ---------------------------------------------------------------- alphabet *)

Definition opt_ok (o : option bytes) : Prop := match o with Some x => forallb tag_byte_ok x = true | None => True end.

Lemma tag_loop_ok fuel : forall s j pre s2 res,
  (s2 = None -> forallb tag_byte_ok pre = true) -> opt_ok s2 ->
  tag_loop fuel s j pre s2 = Some res ->
  match res with Some x => forallb tag_byte_ok x = true | None => forallb tag_byte_ok (pre ++ s) = true end.
Proof.
  induction fuel as [|f IH]; intros s j pre s2 res Hpre Hs2 E.
  - destruct s; [|discriminate]. cbn [tag_loop] in E. injection E as <-.
    destruct s2; [exact Hs2|rewrite app_nil_r; apply Hpre; reflexivity].
  - destruct s as [|b0 r].
    + cbn [tag_loop] in E. injection E as <-.
      destruct s2; [exact Hs2|rewrite app_nil_r; apply Hpre; reflexivity].
    + cbn [tag_loop] in E.
      pose proof (decode_rune_shape b0 r) as Sh.
      destruct (decode_rune (b0 :: r)) as [c size]. cbn [fst snd] in Sh.
      set (bad := ((c =? rune_error) && (j =? 1)) || tag_bad_rune c) in *.
      destruct bad eqn:B.
      * (* replaced: the builder exists from here on *)
        assert (exists x, tag_loop f (skipn size (b0 :: r)) (j + N.of_nat size) (pre ++ firstn size (b0 :: r)) (Some (x ++ utf8_encode rune_error)) = Some res
                          /\ forallb tag_byte_ok x = true) as [x [Ex Hx]].
        { destruct s2 as [y|]; [exists y; split; [exact E|exact Hs2]|exists pre; split; [exact E|apply Hpre; reflexivity]]. }
        clear E. rename Ex into E.
        assert (Hn0 : Some (x ++ utf8_encode rune_error) = None -> forallb tag_byte_ok (pre ++ firstn size (b0 :: r)) = true)
          by (intros Hd; discriminate Hd).
        assert (Ho : opt_ok (Some (x ++ utf8_encode rune_error)))
          by (cbn [opt_ok]; rewrite forallb_app, Hx, rune_error_ok; reflexivity).
        specialize (IH _ _ _ _ res Hn0 Ho E).
        destruct res as [y|]; [exact IH|].
        (* the result cannot be None once the builder exists *)
        exfalso. clear - E. revert E. generalize (x ++ utf8_encode rune_error). generalize (pre ++ firstn size (b0 :: r)).
        generalize (j + N.of_nat size). generalize (skipn size (b0 :: r)). clear.
        induction f as [|f IHf]; intros s j pre x E.
        -- destruct s; cbn [tag_loop] in E; discriminate.
        -- destruct s as [|a t]; [cbn [tag_loop] in E; discriminate|]. cbn [tag_loop] in E.
           destruct (decode_rune (a :: t)) as [c sz].
           destruct (((c =? rune_error) && (j =? 1)) || tag_bad_rune c); exact (IHf _ _ _ _ E).
      * (* kept *)
        apply orb_false_elim in B. destruct B as [_ Bc].
        pose proof (decoded_bytes_ok b0 r c size Sh Bc) as Hfirst.
        assert (Hpre' : s2 = None -> forallb tag_byte_ok (pre ++ firstn size (b0 :: r)) = true).
        { intros Hn. rewrite forallb_app, (Hpre Hn), Hfirst. reflexivity. }
        assert (Hs2' : opt_ok (match s2 with Some x => Some (x ++ utf8_encode c) | None => None end)).
        { destruct s2 as [x|]; [|exact I]. cbn [opt_ok] in *. rewrite forallb_app, Hs2, (utf8_encode_ok c Bc). reflexivity. }
        assert (Hn : match s2 with Some x => Some (x ++ utf8_encode c) | None => None end = None -> s2 = None)
          by (destruct s2; [discriminate|reflexivity]).
        specialize (IH _ _ _ _ res (fun H => Hpre' (Hn H)) Hs2' E).
        destruct res as [y|]; [exact IH|].
        rewrite <- app_assoc, firstn_skipn in IH. exact IH.
Qed.

(* Every byte showInTag writes is at least 128 or an ASCII character that is
   not replaced: none of the control characters, the quotes, the greater-than
   sign, the slash, the equals sign, DEL. *)
Theorem showInTag_alphabet s x : showInTag_text s = Some x -> forallb tag_byte_ok x = true.
Proof.
  unfold showInTag_text. intros E.
  destruct (tag_loop (length s) s 0 [] None) as [[y|]|] eqn:L; try discriminate; injection E as <-.
  - exact (tag_loop_ok (length s) s 0 [] None (Some y) (fun _ => eq_refl) I L).
  - exact (tag_loop_ok (length s) s 0 [] None None (fun _ => eq_refl) I L).
Qed.

Lemma tag_byte_ok_not_special b : tag_byte_ok b = true ->
  b <> 34 /\ b <> 39 /\ b <> 47 /\ b <> 61 /\ b <> 62 /\ (32 <= b) /\ b <> 127.
Proof.
  unfold tag_byte_ok, tag_bad_rune. intros H.
  destruct (N.leb_spec 128 b) as [Hh|Hl]; [repeat split; lia|].
  cbn [orb] in H. apply negb_true_iff in H.
  repeat (apply orb_false_elim in H; destruct H as [H ?]).
  apply N.leb_gt in H. apply N.eqb_neq in H6, H5, H4, H3, H2.
  repeat split; try assumption; try lia.
  apply andb_false_iff in H1. intros ->. destruct H1 as [H1|H1]; vm_compute in H1; discriminate.
Qed.

(* ---------------------------------------------------------------- the tokenizer stays inside the tag *)

Lemma tstep_inside st c : t_inside st = true -> tag_byte_ok c = true -> t_inside (fst (tstep st c)) = true.
Proof.
  intros Hi Hc. destruct (tag_byte_ok_not_special c Hc) as (_ & _ & H47 & H61 & H62 & _).
  apply N.eqb_neq in H47, H61, H62.
  destruct st; try discriminate; cbn [tstep]; rewrite H47, H62, ?H61; cbn [orb]; destruct (t_ws c); reflexivity.
Qed.

Lemma trun_inside s : forall st n, t_inside st = true -> forallb tag_byte_ok s = true -> t_inside (fst (trun st s n)) = true.
Proof.
  induction s as [|c r IH]; intros st n Hi Hs; [exact Hi|].
  cbn [forallb] in Hs. apply andb_prop in Hs. destruct Hs as [Hc Hr]. cbn [trun].
  pose proof (tstep_inside st c Hi Hc) as H1. destruct (tstep st c) as [st' b]. cbn [fst] in H1.
  apply IH; assumption.
Qed.

(* From every state inside the attribute part of a start tag (before, in or
   after an attribute name) the text written for any value leaves the
   tokenizer inside it: the tag is not closed, no attribute value starts. *)
Theorem showInTag_confined s x st n :
  showInTag_text s = Some x -> t_inside st = true -> t_inside (fst (trun st x n)) = true.
Proof. intros E Hi. apply trun_inside; [exact Hi|exact (showInTag_alphabet s x E)]. Qed.

(* The number of attributes is not kept: a space in the value starts a new
   attribute (the equals sign is replaced, so the second attribute has no
   value): witness a onclick=x against the benign value a, at div {{ s }} *)
Lemma showInTag_splits_attribute :
  showInTag_text [97; 32; 111; 110; 99; 108; 105; 99; 107; 61; 120] = Some [97; 32; 111; 110; 99; 108; 105; 99; 107; 239; 191; 189; 120] /\
  snd (trun TBefore [97; 32; 111; 110; 99; 108; 105; 99; 107; 239; 191; 189; 120] 0) = 2%nat /\
  showInTag_text [97] = Some [97] /\ snd (trun TBefore [97] 0) = 1%nat.
Proof. vm_compute. repeat split; reflexivity. Qed.

(* the first disjunct of the test as it is written (i is never assigned): an
   invalid byte is replaced at offset 1 only; elsewhere it is written as it is
   unless another character of the string is replaced *)
Lemma showInTag_invalid_byte_examples :
  showInTag_text [255] = Some [255] /\
  showInTag_text [97; 255] = Some [97; 239; 191; 189] /\
  showInTag_text [97; 98; 255] = Some [97; 98; 255] /\
  showInTag_text [97; 98; 255; 61] = Some [97; 98; 255; 239; 191; 189] /\
  showInTag_text [61; 97; 255] = Some [239; 191; 189; 97; 239; 191; 189].
Proof. vm_compute. repeat split; reflexivity. Qed.
