(* The type dispatch of the Markdown show functions (tables generated from
   renderer.go, Facts_mdshow): which values are written verbatim, which are
   escaped and how.  The obligations on the generated tables are closed by
   computation over the paths of the trees and hold for EVERY valuation of the
   atoms (every dynamic type) and every kind. *)
From Coq Require Import List NArith Bool Lia.
From Verif Require Import Bytes ShowTree ShowTree_proofs MdShowM Facts_mdshow Facts_md MarkdownM MarkdownSpec
  MdShowDispatchM Markdown_proofs MarkdownInert_proofs.
Import ListNotations.
Open Scope N_scope.

(* ---- paths of a tree ---- *)
Definition masg := list (atom * bool).

Fixpoint md_paths (t : mdtree) : list (masg * mdout) :=
  match t with
  | MLeaf o => [([], o)]
  | MNode a y n =>
    map (fun p : masg * mdout => ((a, true) :: fst p, snd p)) (md_paths y) ++
    map (fun p : masg * mdout => ((a, false) :: fst p, snd p)) (md_paths n)
  end.

Definition magrees (val : atom -> bool) (s : masg) : Prop :=
  Forall (fun ab : atom * bool => val (fst ab) = snd ab) s.

Lemma md_eval_path val t : exists p, In (p, md_eval val t) (md_paths t) /\ magrees val p.
Proof.
  induction t as [o | a y IHy n IHn]; simpl.
  - exists []. split; [left; reflexivity | constructor].
  - destruct (val a) eqn:E.
    + destruct IHy as [p [Hin Hag]]. exists ((a, true) :: p). split.
      * apply in_or_app. left. apply in_map_iff. exists (p, md_eval val y). split; [reflexivity | exact Hin].
      * constructor; [exact E | exact Hag].
    + destruct IHn as [p [Hin Hag]]. exists ((a, false) :: p). split.
      * apply in_or_app. right. apply in_map_iff. exists (p, md_eval val n). split; [reflexivity | exact Hin].
      * constructor; [exact E | exact Hag].
Qed.

(* a check of every path of every kind's tree transfers to every valuation *)
Definition tbl_check (tbl : list (N * mdtree)) (chk : masg * mdout -> bool) : bool :=
  forallb (fun k => forallb chk (md_paths (md_assoc tbl k))) (below md_n_kinds).

Lemma tbl_check_sound tbl chk :
  tbl_check tbl chk = true ->
  forall k val, k < md_n_kinds ->
    exists p, magrees val p /\ chk (p, md_eval val (md_assoc tbl k)) = true.
Proof.
  intros H k val Hk. unfold tbl_check in H.
  pose proof (forall_below md_n_kinds _ H k Hk) as Hc. simpl in Hc.
  destruct (md_eval_path val (md_assoc tbl k)) as [p [Hin Hag]].
  exists p. split; [exact Hag |].
  rewrite forallb_forall in Hc. exact (Hc _ Hin).
Qed.

(* ---- what a path says about an atom ---- *)
Definition has (p : masg) (a : atom) (b : bool) : bool :=
  existsb (fun ab : atom * bool => atom_eqb (fst ab) a && Bool.eqb (snd ab) b) p.

Lemma has_sound val p a b : magrees val p -> has p a b = true -> val a = b.
Proof.
  intros Hag H. unfold has in H. apply existsb_exists in H. destruct H as [[a' b'] [Hin Hc]].
  simpl in Hc. apply andb_true_iff in Hc. destruct Hc as [Ha Hb].
  apply atom_eqb_eq in Ha. apply eqb_prop in Hb. subst.
  unfold magrees in Hag. rewrite Forall_forall in Hag. exact (Hag _ Hin).
Qed.

Definition some_true (p : masg) (l : list atom) : bool := existsb (fun a => has p a true) l.
Definition all_false (p : masg) (l : list atom) : bool := forallb (fun a => has p a false) l.

Lemma some_true_sound val p l : magrees val p -> some_true p l = true -> existsb val l = true.
Proof.
  intros Hag H. unfold some_true in H. apply existsb_exists in H. destruct H as [a [Hin Ha]].
  apply existsb_exists. exists a. split; [exact Hin | exact (has_sound val p a true Hag Ha)].
Qed.

Lemma all_false_sound val p l : magrees val p -> all_false p l = true -> existsb val l = false.
Proof.
  intros Hag H. unfold all_false in H. rewrite forallb_forall in H.
  destruct (existsb val l) eqn:E; [| reflexivity].
  apply existsb_exists in E. destruct E as [a [Hin Ha]].
  rewrite (has_sound val p a false Hag (H _ Hin)) in Ha. discriminate.
Qed.

(* ---- the classes of values ---- *)
(* markdown typed: native.Markdown, or a MarkdownStringer / MarkdownEnvStringer *)
Definition a_md : list atom := [AIs PSelf w_Markdown; AImpl PSelf i_MarkdownStringer; AImpl PSelf i_MarkdownEnvStringer].
(* HTML typed: native.HTML, or an HTMLStringer / HTMLEnvStringer *)
Definition a_html : list atom := [AIs PSelf w_HTML; AImpl PSelf i_HTMLStringer; AImpl PSelf i_HTMLEnvStringer].

Definition markdown_typed (val : atom -> bool) : bool := existsb val a_md.
Definition html_typed (val : atom -> bool) : bool := existsb val a_html.

Definition src_markdown (s : mdsrc) : bool := match s with SValue | SMarkdown _ => true | _ => false end.
Definition src_html (s : mdsrc) : bool := match s with SValue | SHTML _ => true | _ => false end.
Definition src_plain (s : mdsrc) : bool := match s with SString _ | SError | SToString => true | _ => false end.

(* ---- obligation 1: the code block dispatch never writes verbatim ---- *)
Definition chk_code (sp : bool) (po : masg * mdout) : bool :=
  match snd po with
  | MCode s sp' => Bool.eqb sp sp' && src_plain s
  | MCannot => true
  | _ => false
  end.

Lemma fact_code_tab_ok : tbl_check gen_showInMarkdownCodeBlock_tab_tbl (chk_code false) = true.
Proof. vm_compute. reflexivity. Qed.

Lemma fact_code_spaces_ok : tbl_check gen_showInMarkdownCodeBlock_spaces_tbl (chk_code true) = true.
Proof. vm_compute. reflexivity. Qed.

Theorem code_dispatch val k sp : k < md_n_kinds ->
  md_dispatch val k (RCodeBlock sp) = MCannot \/ exists s, md_dispatch val k (RCodeBlock sp) = MCode s sp.
Proof.
  intro Hk. unfold md_dispatch.
  assert (H : exists p, magrees val p /\ chk_code sp (p, md_eval val (md_assoc (md_table (RCodeBlock sp)) k)) = true).
  { destruct sp; simpl md_table.
    - exact (tbl_check_sound _ _ fact_code_spaces_ok k val Hk).
    - exact (tbl_check_sound _ _ fact_code_tab_ok k val Hk). }
  destruct H as [p [_ Hc]]. unfold chk_code in Hc. cbn [snd] in Hc.
  destruct (md_eval val (md_assoc (md_table (RCodeBlock sp)) k)) as [s | s h | s sp' | | |]; try discriminate.
  - right. exists s. apply andb_true_iff in Hc. destruct Hc as [Hc _]. apply eqb_prop in Hc. subst. reflexivity.
  - left. reflexivity.
Qed.

(* ---- obligation 2: the paragraph dispatch ---- *)
Definition chk_par (po : masg * mdout) : bool :=
  let p := fst po in
  match snd po with
  | MWrite s => some_true p a_md && src_markdown s
  | MEscape s true => all_false p a_md && some_true p a_html && src_html s
  | MEscape s false => all_false p a_md && all_false p a_html && src_plain s
  | MCannot => all_false p a_md && all_false p a_html
  | _ => false
  end.

Lemma fact_par_ok : tbl_check gen_showInMarkdown_tbl chk_par = true.
Proof. vm_compute. reflexivity. Qed.

Inductive par_class (val : atom -> bool) : mdout -> Prop :=
| PC_verbatim s : markdown_typed val = true -> src_markdown s = true -> par_class val (MWrite s)
| PC_html s : markdown_typed val = false -> html_typed val = true -> src_html s = true -> par_class val (MEscape s true)
| PC_plain s : markdown_typed val = false -> html_typed val = false -> src_plain s = true -> par_class val (MEscape s false)
| PC_err : markdown_typed val = false -> html_typed val = false -> par_class val MCannot.

Theorem par_dispatch val k : k < md_n_kinds -> par_class val (md_dispatch val k RParagraph).
Proof.
  intro Hk. unfold md_dispatch. cbn [md_table].
  destruct (tbl_check_sound _ _ fact_par_ok k val Hk) as [p [Hag Hc]].
  unfold chk_par in Hc. cbn [fst snd] in Hc.
  destruct (md_eval val (md_assoc gen_showInMarkdown_tbl k)) as [s | s h | s sp' | | |]; try discriminate.
  - apply andb_true_iff in Hc. destruct Hc as [H1 H2].
    apply PC_verbatim; [exact (some_true_sound val p a_md Hag H1) | exact H2].
  - destruct h.
    + apply andb_true_iff in Hc. destruct Hc as [H12 H3]. apply andb_true_iff in H12. destruct H12 as [H1 H2].
      apply PC_html; [exact (all_false_sound val p a_md Hag H1) | exact (some_true_sound val p a_html Hag H2) | exact H3].
    + apply andb_true_iff in Hc. destruct Hc as [H12 H3]. apply andb_true_iff in H12. destruct H12 as [H1 H2].
      apply PC_plain; [exact (all_false_sound val p a_md Hag H1) | exact (all_false_sound val p a_html Hag H2) | exact H3].
  - apply andb_true_iff in Hc. destruct Hc as [H1 H2].
    apply PC_err; [exact (all_false_sound val p a_md Hag H1) | exact (all_false_sound val p a_html Hag H2)].
Qed.

(* the values written verbatim in a paragraph context are EXACTLY the markdown typed ones *)
Theorem par_verbatim_exact val k : k < md_n_kinds ->
  ((exists s, md_dispatch val k RParagraph = MWrite s) <-> markdown_typed val = true).
Proof.
  intro Hk. pose proof (par_dispatch val k Hk) as H. split.
  - intros [s Hs]. rewrite Hs in H. inversion H. assumption.
  - intro Hm. inversion H as [s Hm' Hs Heq | s Hm' Hh Hs Heq | s Hm' Hh Hs Heq | Hm' Hh Heq];
      try (rewrite Hm in Hm'; discriminate).
    exists s. reflexivity.
Qed.

(* ---- obligation 3: the routing of renderer.Show ---- *)
Lemma fact_routes_ok :
  route_assoc gen_md_route md_ctx_Markdown = Some RParagraph
  /\ route_assoc gen_md_route md_ctx_TabCodeBlock = Some (RCodeBlock false)
  /\ route_assoc gen_md_route md_ctx_SpacesCodeBlock = Some (RCodeBlock true).
Proof. vm_compute. repeat split; reflexivity. Qed.

(* ---- the slot theorems carried to the shown value ---- *)

(* code block contexts: whatever the type of the value, either nothing is
   written (cannot show) or the written text is the code block escaping of a
   string taken from the value: every newline is followed by the indent *)
Definition code_stays (sp : bool) (text : mdsrc -> bytes) (r : showres) : Prop :=
  r = RCannotShow \/
  exists src, r = ROk (cb_spec sp (text src))
    /\ (forall pre post, cb_spec sp (text src) = pre ++ 10 :: post -> exists t, post = cb_indent sp ++ t)
    /\ cb_strip (cb_indent sp) [] (cb_spec sp (text src)) = text src.

Theorem show_codeblock_stays val text k sp : k < md_n_kinds ->
  code_stays sp text (md_show_with val text k (RCodeBlock sp)).
Proof.
  intro Hk. unfold md_show_with, code_stays.
  destruct (code_dispatch val k sp Hk) as [H | [s H]]; rewrite H; cbn [md_apply].
  - left. reflexivity.
  - right. exists s. rewrite (markdownCodeBlockEscape_spec (text s) sp). cbn [of_mres].
    split; [reflexivity | split; [exact (cb_stays sp (text s)) | exact (cb_strip_spec sp (text s))]].
Qed.

(* paragraph context *)
Definition par_shown (val : atom -> bool) (text : mdsrc -> bytes) (r : showres) : Prop :=
  (* markdown typed: written as it is (documented) *)
  (markdown_typed val = true -> exists src, src_markdown src = true /\ r = ROk (text src))
  (* HTML typed: markdownEscape with allowHTML, which never faults *)
  /\ (markdown_typed val = false -> html_typed val = true ->
        exists src, src_html src = true /\ r = of_mres (markdownEscape (text src) true) /\ ok_res (markdownEscape (text src) true))
  (* every other value: nothing (cannot show) or the inert escaping of its string *)
  /\ (markdown_typed val = false -> html_typed val = false ->
        r = RCannotShow \/
        exists src, src_plain src = true /\ r = ROk (esc_doc (text src))
          /\ md_inert (esc_doc (text src)) /\ md_unescape (esc_doc (text src)) = nbsp_norm (text src)).

Theorem show_paragraph val text k : k < md_n_kinds ->
  par_shown val text (md_show_with val text k RParagraph).
Proof.
  intro Hk. unfold md_show_with, par_shown.
  pose proof (par_dispatch val k Hk) as H.
  inversion H as [s Hm Hs Heq | s Hm Hh Hs Heq | s Hm Hh Hs Heq | Hm Hh Heq]; cbn [md_apply].
  - split; [| split].
    + intros _. exists s. split; [exact Hs | reflexivity].
    + intro Hc. rewrite Hm in Hc. discriminate.
    + intro Hc. rewrite Hm in Hc. discriminate.
  - split; [| split].
    + intro Hc. rewrite Hm in Hc. discriminate.
    + intros _ _. exists s. split; [exact Hs | split; [reflexivity | exact (markdownEscape_no_fault (text s) true)]].
    + intros _ Hc. rewrite Hh in Hc. discriminate.
  - split; [| split].
    + intro Hc. rewrite Hm in Hc. discriminate.
    + intros _ Hc. rewrite Hh in Hc. discriminate.
    + intros _ _. right. exists s. rewrite (markdownEscape_plain_spec (text s)). cbn [of_mres].
      split; [exact Hs | split; [reflexivity | split; [exact (esc_doc_inert (text s)) | exact (md_unescape_esc_doc (text s))]]].
  - split; [| split].
    + intro Hc. rewrite Hm in Hc. discriminate.
    + intros _ Hc. rewrite Hh in Hc. discriminate.
    + intros _ _. left. reflexivity.
Qed.

(* renderer.Show for a context assigned by the lexer (a parameter here: the
   lexer is modelled elsewhere) *)
Theorem show_by_context (ctx : N) (v : mdvalue) : v_kind v < md_n_kinds ->
  (ctx = md_ctx_Markdown -> par_shown (md_val (v_kind v) (v_flags v)) (v_text v) (md_show ctx v))
  /\ (ctx = md_ctx_TabCodeBlock -> code_stays false (v_text v) (md_show ctx v))
  /\ (ctx = md_ctx_SpacesCodeBlock -> code_stays true (v_text v) (md_show ctx v)).
Proof.
  intro Hk. destruct fact_routes_ok as [R1 [R2 R3]]. unfold md_show.
  split; [| split]; intro Hc; subst ctx.
  - rewrite R1. exact (show_paragraph _ _ _ Hk).
  - rewrite R2. exact (show_codeblock_stays _ _ _ false Hk).
  - rewrite R3. exact (show_codeblock_stays _ _ _ true Hk).
Qed.
