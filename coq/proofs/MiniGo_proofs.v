(* Equivalence of the executable checker of MiniGoM.v with the declarative
   typing rules of MiniGoSpec.v. *)
From Coq Require Import Lia.
From Verif Require Import MiniGoM MiniGoSpec.

(* ------------------------------------------------------------- small tools *)

Ltac inv H := inversion H; subst; clear H.

(* destruct the scrutinee of a match in hypothesis H *)
Ltac dmatch H :=
  match type of H with
  | context [match ?x with _ => _ end] => destruct x eqn:?; try discriminate H
  | context [if ?x then _ else _] => destruct x eqn:?; try discriminate H
  end.

Lemma basic_eqb_spec a b : basic_eqb a b = true <-> a = b.
Proof. split; [destruct a, b; simpl; congruence | intros ->; destruct b; reflexivity]. Qed.

(* induction on types with the induction hypothesis for the types inside
   struct and function types *)
Section ty_ind2.
  Variable P : ty -> Prop.
  Hypothesis HB : forall b, P (TBasic b).
  Hypothesis HN : forall n b, P (TNamed n b).
  Hypothesis HP : forall t, P t -> P (TPtr t).
  Hypothesis HS : forall t, P t -> P (TSlice t).
  Hypothesis HA : forall n t, P t -> P (TArray n t).
  Hypothesis HM : forall k v, P k -> P v -> P (TMap k v).
  Hypothesis HSt : forall fs, Forall P fs -> P (TStruct fs).
  Hypothesis HF : forall ps rs, Forall P ps -> Forall P rs -> P (TFunc ps rs).
  Hypothesis HAny : P TAny.
  Hypothesis HD : forall n u, P u -> P (TDef n u).
  Fixpoint ty_ind2 (t : ty) : P t :=
    let all := fix all (l : list ty) : Forall P l :=
      match l with [] => Forall_nil P | x :: r => Forall_cons x (ty_ind2 x) (all r) end in
    match t with
    | TBasic b => HB b
    | TNamed n b => HN n b
    | TPtr t => HP t (ty_ind2 t)
    | TSlice t => HS t (ty_ind2 t)
    | TArray n t => HA n t (ty_ind2 t)
    | TMap k v => HM k v (ty_ind2 k) (ty_ind2 v)
    | TStruct fs => HSt fs (all fs)
    | TFunc ps rs => HF ps rs (all ps) (all rs)
    | TAny => HAny
    | TDef n u => HD n u (ty_ind2 u)
    end.
End ty_ind2.

Lemma tys_eqb_unfold a b :
  (fix go (xs ys : list ty) {struct xs} : bool :=
     match xs, ys with
     | [], [] => true
     | x :: xs', y :: ys' => ty_eqb x y && go xs' ys'
     | _, _ => false
     end) a b = tys_eqb a b.
Proof. revert b. induction a as [|x a IH]; intros [|y b]; simpl; try reflexivity. Qed.

Lemma tys_eqb_spec_aux a :
  Forall (fun x => forall y, ty_eqb x y = true <-> x = y) a ->
  forall b, tys_eqb a b = true <-> a = b.
Proof.
  induction 1 as [|x a Hx Ha IH]; intros [|y b]; simpl; split; intros H; try discriminate; try reflexivity.
  - apply andb_prop in H. destruct H as [H1 H2]. apply Hx in H1. apply IH in H2. congruence.
  - inv H. apply andb_true_intro. split; [apply Hx | apply IH]; reflexivity.
Qed.

Lemma ty_eqb_spec a : forall b, ty_eqb a b = true <-> a = b.
Proof.
  induction a as [b|n b|t IHa|t IHa|n t IHa|k v IHa1 IHa2|fs FS|ps rs PS RS| |n u IHa] using ty_ind2;
    intros b0; destruct b0; simpl; rewrite ?tys_eqb_unfold;
    split; intros HH; try discriminate; try reflexivity.
  - apply basic_eqb_spec in HH. congruence.
  - inv HH. apply basic_eqb_spec. reflexivity.
  - apply andb_prop in HH. destruct HH as [H1 H2]. apply N.eqb_eq in H1. apply basic_eqb_spec in H2. congruence.
  - inv HH. rewrite N.eqb_refl. apply basic_eqb_spec. reflexivity.
  - apply IHa in HH. congruence.
  - inv HH. apply IHa. reflexivity.
  - apply IHa in HH. congruence.
  - inv HH. apply IHa. reflexivity.
  - apply andb_prop in HH. destruct HH as [H1 H2]. apply Z.eqb_eq in H1. apply IHa in H2. congruence.
  - inv HH. rewrite Z.eqb_refl. apply IHa. reflexivity.
  - apply andb_prop in HH. destruct HH as [H1 H2]. apply IHa1 in H1. apply IHa2 in H2. congruence.
  - inv HH. apply andb_true_intro. split; [apply IHa1 | apply IHa2]; reflexivity.
  - apply (tys_eqb_spec_aux fs FS) in HH. congruence.
  - inv HH. apply (tys_eqb_spec_aux fs0 FS). reflexivity.
  - apply andb_prop in HH. destruct HH as [H1 H2].
    apply (tys_eqb_spec_aux ps PS) in H1. apply (tys_eqb_spec_aux rs RS) in H2. congruence.
  - inv HH. apply andb_true_intro. split; [apply (tys_eqb_spec_aux ps0 PS) | apply (tys_eqb_spec_aux rs0 RS)]; reflexivity.
  - apply andb_prop in HH. destruct HH as [H1 H2]. apply N.eqb_eq in H1. apply IHa in H2. congruence.
  - inv HH. rewrite N.eqb_refl. apply IHa. reflexivity.
Qed.

Lemma ty_eqb_refl t : ty_eqb t t = true.
Proof. apply ty_eqb_spec; reflexivity. Qed.

Lemma ty_eqb_false a b : ty_eqb a b = false <-> a <> b.
Proof.
  split.
  - intros H E. apply ty_eqb_spec in E. congruence.
  - intros H. destruct (ty_eqb a b) eqn:E; [|reflexivity]. apply ty_eqb_spec in E. contradiction.
Qed.

Lemma bclass_eqb_spec a b : bclass_eqb a b = true <-> a = b.
Proof. split; [destruct a, b; simpl; congruence | intros ->; destruct b; reflexivity]. Qed.

Lemma is_numeric_spec k : is_numeric k = true <-> Numeric k.
Proof. unfold Numeric. destruct k; simpl; split; intros H; try discriminate; auto; destruct H; discriminate. Qed.

Lemma is_numeric_false k : is_numeric k = false <-> ~ Numeric k.
Proof.
  split.
  - intros H N. apply is_numeric_spec in N. congruence.
  - intros H. destruct (is_numeric k) eqn:E; [|reflexivity]. apply is_numeric_spec in E. contradiction.
Qed.

Lemma memN_spec x l : memN x l = true <-> In x l.
Proof.
  unfold memN. rewrite existsb_exists. split.
  - intros [y [H1 H2]]. apply N.eqb_eq in H2. subst. assumption.
  - intros H. exists x. split; [assumption|apply N.eqb_refl].
Qed.

(* --------------------------------------------------------- representability *)

Lemma Qred_inject_Z z : Qred (inject_Z z) = inject_Z z.
Proof.
  unfold inject_Z, Qred.
  pose proof (Z.ggcd_gcd z 1) as Hg.
  pose proof (Z.ggcd_correct_divisors z 1) as Hd.
  destruct (Z.ggcd z 1) as [g [aa bb]]. simpl in *.
  rewrite Z.gcd_1_r in Hg. subst g.
  destruct Hd as [H1 H2].
  rewrite Z.mul_1_l in H1, H2. subst aa bb. reflexivity.
Qed.

Lemma qint_spec q z : qint q = Some z <-> Qeq q (inject_Z z).
Proof.
  unfold qint. split.
  - intros H. destruct (Pos.eqb_spec (Qden (Qred q)) 1) as [E|E]; [|discriminate].
    inv H. rewrite <- (Qred_correct q) at 1.
    destruct (Qred q) as [n d]. simpl in *. subst d. reflexivity.
  - intros H. apply Qred_complete in H. rewrite Qred_inject_Z in H. rewrite H. reflexivity.
Qed.

Lemma qint_qz z : qint (qz z) = Some z.
Proof. apply qint_spec. reflexivity. Qed.

Lemma const_fits_spec q b : const_fits q b = true <-> Representable q b.
Proof.
  unfold const_fits. split.
  - intros H. destruct (int_range b) as [[lo hi]|] eqn:R.
    + destruct (qint q) as [z|] eqn:Q; [|discriminate].
      apply andb_prop in H. destruct H as [H1 H2].
      apply Z.leb_le in H1. apply Z.leb_le in H2.
      apply qint_spec in Q. eapply Rep_int; eauto.
    + destruct b; try discriminate. unfold q_abs_le in H.
      apply andb_prop in H. destruct H as [H1 H2].
      apply Qle_bool_iff in H1. apply Qle_bool_iff in H2. apply Rep_float; assumption.
  - intros H. inv H.
    + rewrite H0. apply qint_spec in H1. rewrite H1.
      apply andb_true_intro. split; apply Z.leb_le; lia.
    + simpl. unfold q_abs_le. apply andb_true_intro. split; apply Qle_bool_iff; assumption.
Qed.

Lemma const_fits_false q b : const_fits q b = false <-> ~ Representable q b.
Proof.
  split.
  - intros H R. apply const_fits_spec in R. congruence.
  - intros H. destruct (const_fits q b) eqn:E; [|reflexivity]. apply const_fits_spec in E. contradiction.
Qed.

(* -------------------------------------------- implicit conversion, assignment *)

Lemma is_iface_spec t : is_iface t = true <-> IsIface t.
Proof. unfold is_iface, IsIface. destruct (underlying t); split; intros H; try discriminate; reflexivity. Qed.

Lemma is_iface_false t : is_iface t = false <-> ~ IsIface t.
Proof.
  split.
  - intros H I. apply is_iface_spec in I. congruence.
  - intros H. destruct (is_iface t) eqn:E; [|reflexivity]. apply is_iface_spec in E. contradiction.
Qed.

Lemma is_named_spec t : is_named t = true <-> Named t.
Proof. destruct t; simpl; split; intros H; try discriminate; try constructor; inv H. Qed.

Lemma is_named_false t : is_named t = false <-> ~ Named t.
Proof.
  split.
  - intros H I. apply is_named_spec in I. congruence.
  - intros H. destruct (is_named t) eqn:E; [|reflexivity]. apply is_named_spec in E. contradiction.
Qed.

Lemma nillable_spec t : nillable t = true <-> Nillable t.
Proof.
  unfold nillable. split.
  - intros H. destruct (underlying t) eqn:U; try discriminate.
    + eapply Ni_ptr; eauto.
    + eapply Ni_slice; eauto.
    + eapply Ni_map; eauto.
    + eapply Ni_func; eauto.
    + apply Ni_iface. exact U.
  - intros H. inv H; rewrite H0; reflexivity.
Qed.

Lemma nillable_false t : nillable t = false <-> ~ Nillable t.
Proof.
  split.
  - intros H I. apply nillable_spec in I. congruence.
  - intros H. destruct (nillable t) eqn:E; [|reflexivity]. apply nillable_spec in E. contradiction.
Qed.

Lemma comparable_all_unfold fs :
  (fix all (l : list ty) : bool := match l with [] => true | x :: r => comparable x && all r end) fs
  = forallb comparable fs.
Proof. induction fs; simpl; congruence. Qed.

Lemma comparable_spec t : comparable t = true <-> Comparable t.
Proof.
  induction t as [b|n b|t IHa|t IHa|n t IHa|k v IHa1 IHa2|fs FS|ps rs PS RS| |n u IHa] using ty_ind2;
    simpl; rewrite ?comparable_all_unfold; split; intros HH; try discriminate; try constructor; try (inv HH; fail).
  - apply IHa. assumption.
  - inv HH. apply IHa. assumption.
  - rewrite forallb_forall in HH. rewrite Forall_forall in *. intros x I. apply FS; auto.
  - inv HH. apply forallb_forall. rewrite Forall_forall in *. intros x I. apply FS; auto.
  - apply IHa. assumption.
  - inv HH. apply IHa. assumption.
Qed.

Lemma comparable_false t : comparable t = false <-> ~ Comparable t.
Proof.
  split.
  - intros H I. apply comparable_spec in I. congruence.
  - intros H. destruct (comparable t) eqn:E; [|reflexivity]. apply comparable_spec in E. contradiction.
Qed.

Lemma assignable_ty_spec v t : assignable_ty v t = true <-> AssignableTy v t.
Proof.
  unfold assignable_ty. split.
  - intros H. apply orb_prop in H. destruct H as [H|H]; [apply orb_prop in H; destruct H as [H|H]|].
    + apply ty_eqb_spec in H. subst. constructor.
    + apply andb_prop in H. destruct H as [H1 H2]. apply ty_eqb_spec in H1.
      apply ATy_underlying; [assumption|].
      apply orb_prop in H2. destruct H2 as [H2|H2]; [left|right]; apply is_named_false;
        apply negb_true_iff in H2; exact H2.
    + apply ATy_iface. apply is_iface_spec. assumption.
  - intros H. inv H.
    + rewrite ty_eqb_refl. reflexivity.
    + assert (E : ty_eqb (underlying v) (underlying t) = true) by (apply ty_eqb_spec; assumption).
      rewrite E. destruct H1 as [N|N]; apply is_named_false in N; rewrite N; simpl; rewrite ?orb_true_r; reflexivity.
    + apply is_iface_spec in H0. rewrite H0. rewrite orb_true_r. reflexivity.
Qed.

Lemma assignable_ty_false v t : assignable_ty v t = false <-> ~ AssignableTy v t.
Proof.
  split.
  - intros H I. apply assignable_ty_spec in I. congruence.
  - intros H. destruct (assignable_ty v t) eqn:E; [|reflexivity]. apply assignable_ty_spec in E. contradiction.
Qed.

Lemma conv_basic_spec k c t : conv_basic k c t = true <-> ConvBasic k c t.
Proof.
  unfold conv_basic. split.
  - intros H.
    destruct k; simpl in H; destruct (tclass t) eqn:C; try discriminate;
      try (constructor; assumption);
      destruct c as [[q|]|]; try discriminate;
      apply const_fits_spec in H;
      apply CB_num; unfold Numeric; simpl; auto; rewrite C; auto.
  - intros H. inv H.
    + simpl. rewrite H0. reflexivity.
    + simpl. rewrite H0. reflexivity.
    + apply const_fits_spec in H2. unfold Numeric in H0, H1.
      destruct H0 as [K|K], H1 as [C|C]; rewrite K, C, H2; reflexivity.
Qed.

Lemma conv_basic_not_nil c t : ~ ConvBasic UNil c t.
Proof. intros H. inv H. unfold Numeric in H0. simpl in H0. destruct H0; discriminate. Qed.

Lemma tclass_basic_under t : tclass t <> KComp -> exists b, underlying t = TBasic b.
Proof. destruct t; simpl; intros H; try (exfalso; apply H; reflexivity); eauto. Qed.

Lemma conv_basic_not_iface k c t : ConvBasic k c t -> is_iface t = false.
Proof.
  intros H. assert (T : tclass t <> KComp).
  { inv H; try congruence. unfold Numeric in H1. destruct H1; congruence. }
  apply tclass_basic_under in T. destruct T as [b U]. unfold is_iface. rewrite U. reflexivity.
Qed.

Lemma conv_untyped_spec k c t r :
  conv_untyped k c t = Some r <-> (ConvUntyped k c t /\ r = EVal (VT t) c).
Proof.
  unfold conv_untyped. split.
  - intros H.
    assert (G : k = UNil \/ k <> UNil) by (destruct k; auto; right; discriminate).
    destruct G as [->|NK].
    + destruct (nillable t) eqn:N; [|discriminate]. inv H. split; [|reflexivity].
      apply CU_nil. apply nillable_spec. assumption.
    + assert (H2 : (if is_iface t then if conv_basic k c (default_ty k) then Some (EVal (VT t) c) else None
                    else if conv_basic k c t then Some (EVal (VT t) c) else None) = Some r)
        by (destruct k; try exact H; contradiction).
      clear H. destruct (is_iface t) eqn:I.
      * destruct (conv_basic k c (default_ty k)) eqn:B; [|discriminate]. inv H2. split; [|reflexivity].
        apply CU_iface; [apply is_iface_spec | apply conv_basic_spec]; assumption.
      * destruct (conv_basic k c t) eqn:B; [|discriminate]. inv H2. split; [|reflexivity].
        apply CU_basic. apply conv_basic_spec. assumption.
  - intros [H ->]. inv H.
    + pose proof (conv_basic_not_iface _ _ _ H0) as I. apply conv_basic_spec in H0.
      destruct k; rewrite ?I, ?H0; try reflexivity.
      apply conv_basic_spec in H0. exfalso. eapply conv_basic_not_nil; eauto.
    + apply nillable_spec in H0. rewrite H0. reflexivity.
    + apply is_iface_spec in H0. apply conv_basic_spec in H1.
      destruct k; rewrite ?H0, ?H1; try reflexivity.
      apply conv_basic_spec in H1. exfalso. eapply conv_basic_not_nil; eauto.
Qed.

Lemma conv_untyped_none k c t : conv_untyped k c t = None <-> ~ ConvUntyped k c t.
Proof.
  split.
  - intros H C. assert (conv_untyped k c t = Some (EVal (VT t) c)) by (apply conv_untyped_spec; auto). congruence.
  - intros H. destruct (conv_untyped k c t) eqn:E; [|reflexivity].
    apply conv_untyped_spec in E. destruct E. contradiction.
Qed.

Lemma assign_to_spec e t : assign_to e t = true <-> Assignable e t.
Proof.
  unfold assign_to. split.
  - intros H. destruct e as [[t'|k] c|ts]; try discriminate.
    + apply assignable_ty_spec in H. constructor. assumption.
    + destruct (conv_untyped k c t) eqn:E; [|discriminate].
      apply conv_untyped_spec in E. destruct E. constructor. assumption.
  - intros H. inv H.
    + apply assignable_ty_spec. assumption.
    + assert (E: conv_untyped k c t = Some (EVal (VT t) c)) by (apply conv_untyped_spec; auto).
      rewrite E. reflexivity.
Qed.

Lemma assign_to_false e t : assign_to e t = false <-> ~ Assignable e t.
Proof.
  split.
  - intros H I. apply assign_to_spec in I. congruence.
  - intros H. destruct (assign_to e t) eqn:E; [|reflexivity]. apply assign_to_spec in E. contradiction.
Qed.

Lemma default_of_spec e t : default_of e = Some t <-> DefaultOf e t.
Proof.
  unfold default_of. split.
  - intros H. destruct e as [[t'|k] c|ts]; try discriminate.
    + inv H. constructor.
    + destruct (conv_untyped k c (default_ty k)) eqn:E; [|discriminate]. inv H.
      apply conv_untyped_spec in E. destruct E. constructor. assumption.
  - intros H. inv H.
    + reflexivity.
    + assert (E: conv_untyped k c (default_ty k) = Some (EVal (VT (default_ty k)) c)) by (apply conv_untyped_spec; auto).
      rewrite E. reflexivity.
Qed.

(* ------------------------------------------------------------------ operands *)

Lemma match_types_spec a b v c1 c2 :
  match_types a b = Some (v, c1, c2) <-> Operands a b v c1 c2.
Proof.
  unfold match_types. split.
  - intros H. destruct a as [[t1|k1] ca|?], b as [[t2|k2] cb|?]; try discriminate.
    + destruct (ty_eqb t1 t2) eqn:E; [|discriminate]. apply ty_eqb_spec in E. subst. inv H. constructor.
    + destruct (conv_untyped k2 cb t1) eqn:E; [|discriminate]. inv H.
      apply conv_untyped_spec in E. destruct E. constructor. assumption.
    + destruct (conv_untyped k1 ca t2) eqn:E; [|discriminate]. inv H.
      apply conv_untyped_spec in E. destruct E. constructor. assumption.
    + destruct (is_numeric (kind_class k1) && is_numeric (kind_class k2)) eqn:E.
      * inv H. apply andb_prop in E. destruct E as [E1 E2].
        apply is_numeric_spec in E1. apply is_numeric_spec in E2.
        apply Op_untyped_numeric; assumption.
      * destruct (bclass_eqb (kind_class k1) (kind_class k2)) eqn:E'; [|discriminate]. inv H.
        apply bclass_eqb_spec in E'. apply Op_untyped_same; [|assumption].
        intros [N1 N2]. apply is_numeric_spec in N1. apply is_numeric_spec in N2.
        rewrite N1, N2 in E. discriminate.
  - intros H. inv H.
    + rewrite ty_eqb_refl. reflexivity.
    + assert (E: conv_untyped k c2 t = Some (EVal (VT t) c2)) by (apply conv_untyped_spec; auto).
      rewrite E. reflexivity.
    + assert (E: conv_untyped k c1 t = Some (EVal (VT t) c1)) by (apply conv_untyped_spec; auto).
      rewrite E. reflexivity.
    + apply is_numeric_spec in H0. apply is_numeric_spec in H1. rewrite H0, H1. reflexivity.
    + destruct (is_numeric (kind_class k1) && is_numeric (kind_class k2)) eqn:E.
      * exfalso. apply H0. apply andb_prop in E. destruct E. split; apply is_numeric_spec; assumption.
      * rewrite H1. assert (bclass_eqb (kind_class k2) (kind_class k2) = true) by (apply bclass_eqb_spec; reflexivity).
        rewrite H. reflexivity.
Qed.

Lemma op_defined_spec o k : op_defined o k = true <-> OpDefined o k.
Proof.
  split.
  - intros H. destruct o; simpl in H; try discriminate;
      try (apply is_numeric_spec in H; constructor; assumption);
      try (apply bclass_eqb_spec in H; subst; constructor).
    constructor. unfold Numeric. destruct k; try discriminate; auto.
  - intros H. inv H; simpl; try reflexivity; try (apply is_numeric_spec; assumption).
    unfold Numeric in H0. destruct H0 as [K|[K|K]]; rewrite K; reflexivity.
Qed.

Lemma div_zero_spec o k c1 c2 : div_zero_b o k c1 c2 = true <-> DivByZero o k c1 c2.
Proof.
  unfold div_zero_b, DivByZero. split.
  - intros H. apply andb_prop in H. destruct H as [H H3]. apply andb_prop in H. destruct H as [H1 H2].
    split; [destruct o; try discriminate; auto|]. split.
    + destruct c2 as [[q|]|]; try discriminate. exists q. split; [reflexivity|].
      simpl in H2. unfold q_is_zero in H2. apply Z.eqb_eq in H2. assumption.
    + apply orb_prop in H3. destruct H3 as [H3|H3].
      * left. destruct c1; [eauto|discriminate].
      * right. apply bclass_eqb_spec. assumption.
  - intros [H1 [[q [Hc H2]] H3]]. subst c2.
    apply andb_true_intro. split; [apply andb_true_intro; split|].
    + destruct H1; subst; reflexivity.
    + simpl. unfold q_is_zero. apply Z.eqb_eq. assumption.
    + apply orb_true_intro. destruct H3 as [[c Hc] | Hk]; subst; [left|right]; reflexivity.
Qed.

Lemma div_zero_false o k c1 c2 : div_zero_b o k c1 c2 = false <-> ~ DivByZero o k c1 c2.
Proof.
  split.
  - intros H D. apply div_zero_spec in D. congruence.
  - intros H. destruct (div_zero_b o k c1 c2) eqn:E; [|reflexivity]. apply div_zero_spec in E. contradiction.
Qed.

Lemma const_ok_spec v c : const_ok v c = true <-> ConstOK v c.
Proof.
  unfold const_ok. split.
  - intros H. destruct v as [t|k]; [|constructor]. destruct c as [q|]; [|constructor].
    constructor. apply const_fits_spec. assumption.
  - intros H. inv H; try reflexivity. apply const_fits_spec. assumption.
Qed.

Lemma mk_const_spec v c r : mk_const v c = Some r <-> (ConstOK v c /\ r = EVal v (Some c)).
Proof.
  unfold mk_const. split.
  - intros H. destruct (const_ok v c) eqn:E; [|discriminate]. inv H. split; [apply const_ok_spec; assumption|reflexivity].
  - intros [H ->]. apply const_ok_spec in H. rewrite H. reflexivity.
Qed.

(* -------------------------------------------------------------------- shifts *)

Lemma shift_count_spec vb cb : shift_count_ok vb cb = true <-> ShiftCount vb cb.
Proof.
  unfold shift_count_ok. split.
  - intros H. destruct vb as [t|k], cb as [[q|]|]; try discriminate.
    + apply andb_prop in H. destruct H as [H1 H2]. apply bclass_eqb_spec in H1.
      destruct (qint q) as [z|] eqn:Q; [|discriminate]. apply Z.leb_le in H2. apply qint_spec in Q.
      eapply SC_typed_const; eauto.
    + apply bclass_eqb_spec in H. constructor; assumption.
    + apply andb_prop in H. destruct H as [H1 H2]. apply is_numeric_spec in H1.
      apply const_fits_spec in H2. constructor; assumption.
  - intros H. inv H.
    + apply bclass_eqb_spec; assumption.
    + apply qint_spec in H1. rewrite H1. apply andb_true_intro; split;
        [apply bclass_eqb_spec; assumption | apply Z.leb_le; assumption].
    + apply andb_true_intro; split; [apply is_numeric_spec | apply const_fits_spec]; assumption.
Qed.

Lemma tc_shift_sound o a b r : tc_shift o a b = Some r -> Shift o a b r.
Proof.
  unfold tc_shift. intros H.
  destruct a as [va ca|?], b as [vb cb|?]; try discriminate.
  destruct (shift_count_ok vb cb) eqn:SC; simpl in H; [|discriminate].
  apply shift_count_spec in SC.
  destruct va as [t|k], ca as [[q|]|]; try discriminate.
  - (* typed constant *)
    destruct (bclass_eqb (tclass t) KInt) eqn:L; [|discriminate].
    apply bclass_eqb_spec in L.
    destruct (qint q) as [x|] eqn:Qx; [|discriminate]. apply qint_spec in Qx.
    destruct cb as [[qs|]|].
    + destruct (qint qs) as [s|] eqn:Qs; [|discriminate]. apply qint_spec in Qs.
      destruct (Z.leb s max_shift) eqn:M; [|discriminate]. apply Z.leb_le in M.
      apply mk_const_spec in H. destruct H as [H1 ->].
      eapply Sh_const with (x := x) (s := s); eauto.
    + inv SC.
    + inv H. eapply Sh_typed_const_var; eauto.
  - (* typed variable *)
    destruct (bclass_eqb (tclass t) KInt) eqn:L; [|discriminate].
    apply bclass_eqb_spec in L. inv H. apply Sh_var; assumption.
  - (* untyped constant *)
    destruct (is_numeric (kind_class k)) eqn:L; [|discriminate].
    apply is_numeric_spec in L.
    destruct (qint q) as [x|] eqn:Qx; [|discriminate]. apply qint_spec in Qx.
    destruct cb as [[qs|]|].
    + destruct (qint qs) as [s|] eqn:Qs; [|discriminate]. apply qint_spec in Qs.
      destruct (Z.leb s max_shift) eqn:M; [|discriminate]. apply Z.leb_le in M.
      apply mk_const_spec in H. destruct H as [H1 ->].
      eapply Sh_const with (x := x) (s := s); eauto.
    + inv SC.
    + destruct (const_fits q BInt) eqn:F; [|discriminate]. inv H.
      apply const_fits_spec in F. eapply Sh_untyped_const_var; eauto.
Qed.

Lemma tc_shift_complete o a b r : Shift o a b r -> tc_shift o a b = Some r.
Proof.
  intros H. inv H; unfold tc_shift.
  - apply shift_count_spec in H0. rewrite H0. simpl.
    apply bclass_eqb_spec in H1. rewrite H1. reflexivity.
  - apply shift_count_spec in H0. rewrite H0. simpl.
    apply qint_spec in H2. apply qint_spec in H3. apply Z.leb_le in H4.
    assert (M: mk_const (shift_result_vty va) (CNum (qz (shift_value o x s)))
               = Some (EVal (shift_result_vty va) (Some (CNum (qz (shift_value o x s))))))
      by (apply mk_const_spec; auto).
    destruct va as [t|k].
    + apply bclass_eqb_spec in H1. rewrite H1, H2, H3, H4. exact M.
    + apply is_numeric_spec in H1. rewrite H1, H2, H3, H4. exact M.
  - apply shift_count_spec in H0. rewrite H0. simpl.
    apply bclass_eqb_spec in H1. apply qint_spec in H2. rewrite H1, H2. reflexivity.
  - apply shift_count_spec in H0. rewrite H0. simpl.
    apply is_numeric_spec in H1. apply qint_spec in H2. apply const_fits_spec in H3.
    rewrite H1, H2, H3. reflexivity.
Qed.

Lemma tc_shift_spec o a b r : tc_shift o a b = Some r <-> Shift o a b r.
Proof. split; [apply tc_shift_sound | apply tc_shift_complete]. Qed.

(* ---------------------------------------------------------- binary operators *)

Lemma comparison_not_shift o : is_comparison o = true -> is_shift o = false.
Proof. destruct o; cbv; congruence. Qed.

Lemma cmp_compat_spec a b c1 c2 : cmp_compat a b = Some (c1, c2) <-> CmpCompat a b c1 c2.
Proof.
  unfold cmp_compat. split.
  - intros H.
    assert (TT : (exists t1 ca t2 cb, a = EVal (VT t1) ca /\ b = EVal (VT t2) cb) \/
                 (match match_types a b with Some (_, c1, c2) => Some (c1, c2) | None => None end = Some (c1, c2))).
    { destruct a as [[t1|k1] ca|?], b as [[t2|k2] cb|?]; try (right; exact H). left. eauto 8. }
    destruct TT as [[t1 [ca [t2 [cb [-> ->]]]]]|M].
    + destruct (assignable_ty t1 t2 || assignable_ty t2 t1) eqn:A; [|discriminate]. inv H.
      apply CC_typed. apply orb_prop in A. destruct A as [A|A]; [left|right]; apply assignable_ty_spec; assumption.
    + destruct (match_types a b) as [[[v x1] x2]|] eqn:MT; [|discriminate]. inv M.
      apply match_types_spec in MT. eapply CC_untyped; eauto.
  - intros H. inv H.
    + destruct H0 as [A|A]; apply assignable_ty_spec in A; rewrite A; rewrite ?orb_true_r; reflexivity.
    + pose proof H0 as OP. apply match_types_spec in H0. inv OP; try (rewrite H0; reflexivity).
      assert (A : assignable_ty t t = true) by (apply assignable_ty_spec; constructor).
      rewrite A. reflexivity.
Qed.

Lemma is_nil_operand_spec e : is_nil_operand e = true <-> exists c, e = EVal (VU UNil) c.
Proof.
  destruct e as [[t|k] c|ts]; simpl; split; intros H; try discriminate; try (destruct H as [c' H]; discriminate).
  - destruct k; try discriminate. eauto.
  - destruct H as [c' H]. inv H. reflexivity.
Qed.

Lemma is_nil_operand_false e : is_nil_operand e = false <-> (forall c, e <> EVal (VU UNil) c).
Proof.
  split.
  - intros H c E. assert (is_nil_operand e = true) by (apply is_nil_operand_spec; eauto). congruence.
  - intros H. destruct (is_nil_operand e) eqn:E; [|reflexivity]. apply is_nil_operand_spec in E.
    destruct E as [c E]. exfalso. eapply H; eauto.
Qed.

Lemma eq_operand_ok_spec other e : eq_operand_ok other e = true <-> EqOperand other e.
Proof.
  unfold eq_operand_ok. split.
  - intros H. destruct e as [[t|k] c|ts]; try discriminate.
    + apply orb_prop in H. destruct H as [H|H].
      * apply EO_comparable. apply comparable_spec. assumption.
      * apply andb_prop in H. destruct H as [H1 H2]. apply is_nil_operand_spec in H1. destruct H1 as [c2 ->].
        eapply EO_with_nil; [reflexivity | apply nillable_spec; assumption].
    + destruct k; try (apply EO_untyped; discriminate).
      simpl in H. apply EO_nil. apply is_nil_operand_false.
      destruct (is_nil_operand other); [discriminate|reflexivity].
  - intros H. inv H.
    + apply comparable_spec in H0. rewrite H0. reflexivity.
    + apply nillable_spec in H1. rewrite H1. simpl. rewrite orb_true_r. reflexivity.
    + destruct k; try reflexivity. contradiction.
    + apply is_nil_operand_false in H0. rewrite H0. reflexivity.
Qed.

Lemma ordered_operand_spec e : ordered_operand e = true <-> OrderedOperand e.
Proof.
  unfold ordered_operand. split.
  - intros H. destruct e as [v c|ts]; [|discriminate]. constructor.
    destruct (vty_class v); try discriminate; auto.
  - intros H. inv H. destruct H0 as [K|[K|K]]; rewrite K; reflexivity.
Qed.

Lemma tc_compare_sound o a b r : is_comparison o = true -> tc_compare o a b = Some r -> Binary o a b r.
Proof.
  unfold tc_compare. intros C H.
  destruct (cmp_compat a b) as [[c1 c2]|] eqn:M; [|discriminate]. apply cmp_compat_spec in M.
  destruct (is_order o) eqn:O.
  - destruct (ordered_operand a && ordered_operand b) eqn:OO; [|discriminate]. inv H.
    apply andb_prop in OO. destruct OO as [O1 O2].
    apply ordered_operand_spec in O1. apply ordered_operand_spec in O2.
    eapply B_compare; eauto; intros X; congruence.
  - destruct (eq_operand_ok b a && eq_operand_ok a b) eqn:OO; [|discriminate]. inv H.
    apply andb_prop in OO. destruct OO as [O1 O2].
    apply eq_operand_ok_spec in O1. apply eq_operand_ok_spec in O2.
    eapply B_compare; eauto; intros X; congruence.
Qed.

Lemma tc_binary_sound o a b r : tc_binary o a b = Some r -> Binary o a b r.
Proof.
  unfold tc_binary. intros H.
  destruct (is_shift o) eqn:S.
  - apply B_shift; [assumption|apply tc_shift_sound; assumption].
  - destruct (is_comparison o) eqn:C; [apply tc_compare_sound; assumption|].
    destruct (match_types a b) as [[[v c1] c2]|] eqn:M; [|discriminate].
    apply match_types_spec in M.
    destruct (op_defined o (vty_class v)) eqn:D; simpl in H; [|discriminate].
    destruct (div_zero_b o (vty_class v) c1 c2) eqn:Z; [discriminate|].
    apply op_defined_spec in D. apply div_zero_false in Z.
    destruct c1 as [[q1|]|], c2 as [[q2|]|].
    * destruct (qbin o (vty_class v) q1 q2) as [q|] eqn:Qb; [|discriminate].
      apply mk_const_spec in H. destruct H as [H1 ->]. eapply B_const_num; eauto.
    * inv H. eapply B_const_other; eauto.
    * inv H. eapply B_value; eauto.
    * inv H. eapply B_const_other; eauto.
    * inv H. eapply B_const_other; eauto.
    * inv H. eapply B_value; eauto.
    * inv H. eapply B_value; eauto.
    * inv H. eapply B_value; eauto.
    * inv H. eapply B_value; eauto.
Qed.

Lemma tc_binary_complete o a b r : Binary o a b r -> tc_binary o a b = Some r.
Proof.
  intros H. inv H; unfold tc_binary.
  - rewrite H0. apply tc_shift_complete. assumption.
  - rewrite (comparison_not_shift _ H0), H0. unfold tc_compare.
    apply cmp_compat_spec in H1. rewrite H1.
    destruct (is_order o) eqn:Ho.
    + destruct (H2 eq_refl) as [O1 O2].
      apply ordered_operand_spec in O1. apply ordered_operand_spec in O2. rewrite O1, O2. reflexivity.
    + destruct (H3 eq_refl) as [O1 O2].
      apply eq_operand_ok_spec in O1. apply eq_operand_ok_spec in O2. rewrite O1, O2. reflexivity.
  - rewrite H0, H1. apply match_types_spec in H2. rewrite H2.
    apply op_defined_spec in H3. rewrite H3. simpl.
    apply div_zero_false in H4. rewrite H4.
    destruct c1 as [[?|]|], c2 as [[?|]|]; simpl in H5; try discriminate; reflexivity.
  - rewrite H0, H1. apply match_types_spec in H2. rewrite H2.
    apply op_defined_spec in H3. rewrite H3. simpl.
    apply div_zero_false in H4. rewrite H4, H5.
    apply mk_const_spec. auto.
  - rewrite H0, H1. apply match_types_spec in H2. rewrite H2.
    apply op_defined_spec in H3. rewrite H3. simpl.
    apply div_zero_false in H4. rewrite H4.
    destruct H5; subst; [|destruct c1]; reflexivity.
Qed.

Lemma tc_binary_spec o a b r : tc_binary o a b = Some r <-> Binary o a b r.
Proof. split; [apply tc_binary_sound | apply tc_binary_complete]. Qed.

(* ----------------------------------------------------------- unary operators *)

Lemma un_defined_spec o k : un_defined o k = true <-> UnDefined o k.
Proof.
  split.
  - intros H. destruct o; simpl in H.
    + apply is_numeric_spec in H. constructor; assumption.
    + apply is_numeric_spec in H. constructor; assumption.
    + apply bclass_eqb_spec in H. subst. constructor.
    + apply bclass_eqb_spec in H. subst. constructor.
  - intros H. inv H; simpl; try reflexivity; apply is_numeric_spec; assumption.
Qed.

Lemma tc_unary_sound o a r : tc_unary o a = Some r -> Unary o a r.
Proof.
  unfold tc_unary. intros H. destruct a as [v c|?]; [|discriminate].
  destruct (un_defined o (vty_class v)) eqn:D; simpl in H; [|discriminate].
  apply un_defined_spec in D.
  destruct c as [[q|]|].
  - destruct o.
    + inv H. constructor; assumption.
    + apply mk_const_spec in H. destruct H as [H1 ->]. constructor; assumption.
    + discriminate.
    + destruct (qint q) as [x|] eqn:Q; [|discriminate]. apply qint_spec in Q.
      apply mk_const_spec in H. destruct H as [H1 ->]. eapply Un_compl; eauto.
  - inv H. constructor; assumption.
  - inv H. constructor; assumption.
Qed.

Lemma tc_unary_complete o a r : Unary o a r -> tc_unary o a = Some r.
Proof.
  intros H. inv H; unfold tc_unary;
    match goal with D : UnDefined _ _ |- _ => apply un_defined_spec in D; rewrite D; simpl end;
    try reflexivity.
  - apply mk_const_spec. auto.
  - apply qint_spec in H1. rewrite H1. apply mk_const_spec. auto.
Qed.

Lemma tc_unary_spec o a r : tc_unary o a = Some r <-> Unary o a r.
Proof. split; [apply tc_unary_sound | apply tc_unary_complete]. Qed.

(* --------------------------------------------------------------- conversions *)

Lemma is_bytes_or_runes_spec t : is_bytes_or_runes t = true <-> BytesOrRunes t.
Proof.
  unfold is_bytes_or_runes, BytesOrRunes. split.
  - intros H. destruct (underlying t) eqn:U; try discriminate. exists t0. split; [reflexivity|].
    destruct (underlying t0) eqn:U0; try discriminate. destruct b; try discriminate; auto.
  - intros [e [U [U0|U0]]]; rewrite U, U0; reflexivity.
Qed.

Lemma is_bytes_or_runes_false t : is_bytes_or_runes t = false <-> ~ BytesOrRunes t.
Proof.
  split.
  - intros H I. apply is_bytes_or_runes_spec in I. congruence.
  - intros H. destruct (is_bytes_or_runes t) eqn:E; [|reflexivity]. apply is_bytes_or_runes_spec in E. contradiction.
Qed.

Lemma convertible_spec t2 t : convertible t2 t = true <-> Convertible t2 t.
Proof.
  unfold convertible, Convertible. rewrite !orb_true_iff, !andb_true_iff.
  rewrite assignable_ty_spec, ty_eqb_spec, !is_numeric_spec, !bclass_eqb_spec, !is_bytes_or_runes_spec.
  assert (PT : match t2, t with TPtr a, TPtr b => ty_eqb (underlying a) (underlying b) | _, _ => false end = true
               <-> exists a b, t2 = TPtr a /\ t = TPtr b /\ underlying a = underlying b).
  { split.
    - intros H. destruct t2; try discriminate. destruct t; try discriminate. apply ty_eqb_spec in H. eauto.
    - intros [a [b [-> [-> H]]]]. apply ty_eqb_spec. assumption. }
  rewrite PT. tauto.
Qed.

Lemma tclass_not_comp_facts t : tclass t <> KComp -> is_iface t = false /\ is_bytes_or_runes t = false.
Proof.
  intros T. apply tclass_basic_under in T. destruct T as [b U]. unfold is_iface, is_bytes_or_runes. rewrite U. auto.
Qed.

Lemma tc_convert_sound t a r : tc_convert t a = Some r -> Convert t a r.
Proof.
  unfold tc_convert. intros H. destruct a as [v [c|]|?]; [| |discriminate].
  - destruct (is_iface t) eqn:I.
    { apply is_iface_spec in I. destruct v as [t2|k].
      - inv H. apply Cv_const_iface_typed. assumption.
      - destruct (conv_basic k (Some c) (default_ty k)) eqn:B; [|discriminate]. inv H.
        apply Cv_const_iface_untyped; [assumption | apply conv_basic_spec; assumption]. }
    destruct (bclass_eqb (vty_class v) KStr && is_bytes_or_runes t) eqn:BR.
    { assert (R : r = EVal (VT t) None) by (destruct v; congruence). subst r. clear H.
      apply andb_prop in BR. destruct BR as [B1 B2]. apply bclass_eqb_spec in B1.
      apply is_bytes_or_runes_spec in B2. apply Cv_const_bytes; assumption. }
    assert (H' : match vty_class v, tclass t, c with
                 | (KInt | KFloat), (KInt | KFloat), CNum q =>
                   if const_fits q (under t) then Some (EVal (VT t) (Some c)) else None
                 | KInt, KStr, CNum _ => Some (EVal (VT t) (Some COther))
                 | KStr, KStr, COther | KBool, KBool, COther => Some (EVal (VT t) (Some COther))
                 | _, _, _ => None
                 end = Some r) by (destruct v; exact H).
    clear H. rename H' into H.
    destruct c as [q|].
    + destruct (vty_class v) eqn:Kv; destruct (tclass t) eqn:Kt; try discriminate;
        first [ inv H; apply Cv_const_int_string; assumption
              | destruct (const_fits q (under t)) eqn:F; [|discriminate]; inv H;
                apply const_fits_spec in F; apply Cv_const_num; unfold Numeric; auto; rewrite ?Kv, ?Kt; auto ].
    + destruct (vty_class v) eqn:Kv; destruct (tclass t) eqn:Kt; try discriminate;
        (inv H; apply Cv_const_same; [rewrite Kv; auto | congruence]).
  - destruct v as [t'|k'].
    + destruct (convertible t' t) eqn:E; [|discriminate]. inv H. apply Cv_value. apply convertible_spec. assumption.
    + destruct (kind_class k') eqn:K; try discriminate.
      * destruct (bclass_eqb (tclass t) KBool || is_iface t) eqn:E; [|discriminate]. inv H.
        apply Cv_untyped_bool; [assumption|]. apply orb_prop in E. destruct E as [E|E];
          [left; apply bclass_eqb_spec | right; apply is_iface_spec]; assumption.
      * destruct (nillable t) eqn:E; [|discriminate]. inv H.
        destruct k'; try discriminate. apply Cv_nil. apply nillable_spec. assumption.
Qed.

Lemma tc_convert_complete t a r : Convert t a r -> tc_convert t a = Some r.
Proof.
  intros H. inv H; unfold tc_convert.
  - apply is_iface_spec in H0. rewrite H0. reflexivity.
  - apply is_iface_spec in H0. rewrite H0. apply conv_basic_spec in H1. rewrite H1. reflexivity.
  - destruct (is_iface t) eqn:I.
    + exfalso. apply is_iface_spec in I. destruct H1 as [e [U _]]. unfold IsIface in I. congruence.
    + apply bclass_eqb_spec in H0. apply is_bytes_or_runes_spec in H1.
      destruct v; simpl in *; rewrite H0, H1; reflexivity.
  - assert (T : tclass t <> KComp) by (unfold Numeric in H1; destruct H1; congruence).
    destruct (tclass_not_comp_facts t T) as [I B].
    apply const_fits_spec in H2. unfold Numeric in H0, H1.
    destruct v; simpl in *; rewrite I, B, andb_false_r; destruct H0 as [K|K], H1 as [C|C]; rewrite K, C, H2; reflexivity.
  - assert (T : tclass t <> KComp) by congruence.
    destruct (tclass_not_comp_facts t T) as [I B].
    destruct v; simpl in *; rewrite I, B, andb_false_r; rewrite H0, H1; reflexivity.
  - assert (T : tclass t <> KComp) by (destruct H0; congruence).
    destruct (tclass_not_comp_facts t T) as [I B].
    destruct v; simpl in *; rewrite I, B, andb_false_r; rewrite H1; destruct H0 as [K|K]; rewrite K; reflexivity.
  - apply convertible_spec in H0. rewrite H0. reflexivity.
  - apply nillable_spec in H0. simpl. rewrite H0. reflexivity.
  - rewrite H0. destruct H1 as [K|K].
    + rewrite K. reflexivity.
    + apply is_iface_spec in K. rewrite K, orb_true_r. reflexivity.
Qed.

Lemma tc_convert_spec t a r : tc_convert t a = Some r <-> Convert t a r.
Proof. split; [apply tc_convert_sound | apply tc_convert_complete]. Qed.

(* ------------------------------------- index, slice, selector, builtins *)

Lemma index_ok_spec i z : index_ok i = Some z <-> IndexOK i z.
Proof.
  unfold index_ok. split.
  - intros H. destruct i as [[t|k] [[q|]|]|?]; try discriminate.
    + destruct (bclass_eqb (tclass t) KInt) eqn:K; [|discriminate]. apply bclass_eqb_spec in K.
      destruct (qint q) as [x|] eqn:Q; [|discriminate]. destruct (Z.leb 0 x) eqn:L; [|discriminate]. inv H.
      apply qint_spec in Q. apply Z.leb_le in L. apply IO_typed_const; assumption.
    + destruct (bclass_eqb (tclass t) KInt) eqn:K; [|discriminate]. apply bclass_eqb_spec in K. inv H.
      apply IO_var; assumption.
    + destruct (is_numeric (kind_class k) && const_fits q BInt) eqn:K; [|discriminate].
      apply andb_prop in K. destruct K as [K1 K2]. apply is_numeric_spec in K1. apply const_fits_spec in K2.
      destruct (qint q) as [x|] eqn:Q; [|discriminate]. destruct (Z.leb 0 x) eqn:L; [|discriminate]. inv H.
      apply qint_spec in Q. apply Z.leb_le in L. apply IO_untyped_const; assumption.
  - intros H. inv H.
    + apply bclass_eqb_spec in H0. rewrite H0. reflexivity.
    + apply bclass_eqb_spec in H0. apply qint_spec in H1. apply Z.leb_le in H2. rewrite H0, H1, H2. reflexivity.
    + apply is_numeric_spec in H0. apply const_fits_spec in H1. apply qint_spec in H2. apply Z.leb_le in H3.
      rewrite H0, H1, H2, H3. reflexivity.
Qed.

Lemma index_ok_none i : index_ok i = None <-> (forall z, ~ IndexOK i z).
Proof.
  split.
  - intros H z I. apply index_ok_spec in I. congruence.
  - intros H. destruct (index_ok i) as [z|] eqn:E; [|reflexivity]. apply index_ok_spec in E. exfalso. eapply H; eauto.
Qed.

Lemma in_bound_spec z n incl : in_bound z n incl = true <-> InBound z n incl.
Proof.
  unfold in_bound, InBound. destruct z as [z|]; [|tauto]. destruct incl; [apply Z.leb_le | apply Z.ltb_lt].
Qed.

Lemma bounds_ordered_spec zl zh : bounds_ordered zl zh = true <-> BoundsOrdered zl zh.
Proof. unfold bounds_ordered, BoundsOrdered. destruct zl, zh; try tauto. apply Z.leb_le. Qed.

Lemma array_of_spec t n e : array_of t = Some (n, e) <-> ArrayOf t n e.
Proof.
  unfold array_of, ArrayOf. split.
  - intros H. destruct (underlying t) eqn:U; try discriminate.
    + destruct (underlying t0) eqn:U0; try discriminate. inv H. right. eauto.
    + inv H. left. reflexivity.
  - intros [H|[p [H1 H2]]].
    + rewrite H. reflexivity.
    + rewrite H1, H2. reflexivity.
Qed.

Lemma array_of_none t : array_of t = None <-> (forall n e, ~ ArrayOf t n e).
Proof.
  split.
  - intros H n e A. apply array_of_spec in A. congruence.
  - intros H. destruct (array_of t) as [[n e]|] eqn:E; [|reflexivity]. apply array_of_spec in E. exfalso. eapply H; eauto.
Qed.

Lemma struct_of_spec t fs : (exists b, struct_of t = Some (fs, b)) <-> StructOf t fs.
Proof.
  unfold struct_of, StructOf. split.
  - intros [b H]. destruct (underlying t) eqn:U; try discriminate.
    + destruct (underlying t0) eqn:U0; try discriminate. inv H. right. eauto.
    + inv H. left. reflexivity.
  - intros [H|[p [H1 H2]]].
    + rewrite H. eauto.
    + rewrite H1, H2. eauto.
Qed.

Lemma is_string_ty_spec t : is_string_ty t = true <-> tclass t = KStr.
Proof. unfold is_string_ty. apply bclass_eqb_spec. Qed.

Lemma string_ty_under t : tclass t = KStr -> exists b, underlying t = TBasic b.
Proof. intros H. apply tclass_basic_under. congruence. Qed.

Lemma array_of_basic t b : underlying t = TBasic b -> array_of t = None.
Proof. unfold array_of. intros ->. reflexivity. Qed.

Ltac rw_idx := match goal with I : IndexOK _ _ |- _ => apply index_ok_spec in I; rewrite I end.

Lemma tc_index_spec a i r : tc_index a i = Some r <-> Index a i r.
Proof.
  unfold tc_index. split.
  - intros H. destruct a as [[t|k] c|?]; try discriminate.
    + destruct (underlying t) eqn:U;
        try (destruct (index_ok i) as [z|] eqn:IO; [|discriminate]; inv H;
             apply index_ok_spec in IO; eapply Ix_slice; eauto; fail);
        try (destruct (assign_to i t0_1) eqn:A; [|discriminate]; inv H;
             apply assign_to_spec in A; eapply Ix_map; eauto; fail);
        (destruct (array_of t) as [[n' e']|] eqn:AO;
         [ apply array_of_spec in AO; destruct (index_ok i) as [z|] eqn:IO; [|discriminate];
           destruct (in_bound z n' false) eqn:IB; [|discriminate]; inv H;
           apply index_ok_spec in IO; apply in_bound_spec in IB; eapply Ix_array; eauto
         | destruct (is_string_ty t) eqn:S; [|discriminate];
           destruct (index_ok i) as [z|] eqn:IO; [|discriminate]; inv H;
           apply index_ok_spec in IO; apply is_string_ty_spec in S; eapply Ix_string; eauto ]).
    + destruct k; try discriminate. destruct c; [|discriminate].
      destruct (index_ok i) as [z|] eqn:IO; [|discriminate]. inv H.
      apply index_ok_spec in IO. eapply Ix_const_string; eauto.
  - intros H. inv H.
    + rewrite H0. rw_idx. reflexivity.
    + rewrite H0. apply assign_to_spec in H1. rewrite H1. reflexivity.
    + pose proof H0 as AO. apply array_of_spec in AO. rewrite AO. rw_idx. apply in_bound_spec in H2. rewrite H2.
      destruct H0 as [U|[p [U1 U2]]]; [rewrite U | rewrite U1]; reflexivity.
    + destruct (string_ty_under t H0) as [b U]. rewrite U, (array_of_basic t b U).
      apply is_string_ty_spec in H0. rewrite H0. rw_idx. reflexivity.
    + rw_idx. reflexivity.
Qed.

Lemma tc_slice_spec (addr : bool) (A : Prop) a zl zh r :
  (addr = true <-> A) -> (tc_slice addr a zl zh = Some r <-> Slice A a zl zh r).
Proof.
  intros HA. unfold tc_slice. split.
  - intros H. destruct (bounds_ordered zl zh) eqn:BO; simpl in H; [|discriminate]. apply bounds_ordered_spec in BO.
    destruct a as [[t|k] c|?]; try discriminate.
    + destruct (underlying t) eqn:U;
        try (destruct (is_string_ty t) eqn:S; [|discriminate]; inv H; apply is_string_ty_spec in S;
             eapply Sl_string; eauto; fail).
      * destruct (underlying t0) eqn:U0; try discriminate.
        destruct (in_bound zl n true && in_bound zh n true) eqn:IB; [|discriminate]. inv H.
        apply andb_prop in IB. destruct IB as [I1 I2]. apply in_bound_spec in I1. apply in_bound_spec in I2.
        eapply Sl_ptr; eauto.
      * inv H. eapply Sl_slice; eauto.
      * destruct (addr && in_bound zl n true && in_bound zh n true) eqn:IB; [|discriminate]. inv H.
        apply andb_prop in IB. destruct IB as [IB I2]. apply andb_prop in IB. destruct IB as [I0 I1].
        apply in_bound_spec in I1. apply in_bound_spec in I2. apply HA in I0.
        eapply Sl_array; eauto.
    + destruct k; try discriminate. destruct c; [|discriminate]. inv H. apply Sl_const_string; assumption.
  - intros H. inv H; match goal with B : BoundsOrdered _ _ |- _ => apply bounds_ordered_spec in B; rewrite B; simpl end.
    + rewrite H0. reflexivity.
    + rewrite H0. apply HA in H1. apply in_bound_spec in H3. apply in_bound_spec in H4. rewrite H1, H3, H4. reflexivity.
    + rewrite H0, H1. apply in_bound_spec in H3. apply in_bound_spec in H4. rewrite H3, H4. reflexivity.
    + destruct (string_ty_under t H0) as [b U]. rewrite U. apply is_string_ty_spec in H0. rewrite H0. reflexivity.
    + reflexivity.
Qed.

Lemma tc_sel_spec a i r : tc_sel a i = Some r <-> Select a i r.
Proof.
  unfold tc_sel. split.
  - intros H. destruct a as [[t|k] c|?]; try discriminate.
    destruct (struct_of t) as [[fs b]|] eqn:S; [|discriminate].
    destruct (nth_error fs (N.to_nat i)) as [f|] eqn:NE; [|discriminate]. inv H.
    eapply Se_field; eauto. apply struct_of_spec. eauto.
  - intros H. inv H. apply struct_of_spec in H0. destruct H0 as [b S]. rewrite S, H1. reflexivity.
Qed.

Lemma tc_deref_spec a r : tc_deref a = Some r <-> Deref a r.
Proof.
  unfold tc_deref. split.
  - intros H. destruct a as [[t|k] c|?]; try discriminate.
    destruct (underlying t) eqn:U; try discriminate. inv H. eapply De_ptr; eauto.
  - intros H. inv H. rewrite H0. reflexivity.
Qed.

Lemma tc_assert_spec a t r : tc_assert a t = Some r <-> Assert a t r.
Proof.
  unfold tc_assert. split.
  - intros H. destruct a as [[t2|k] c|?]; try discriminate.
    destruct (is_iface t2 && wf_ty t) eqn:B; [|discriminate]. inv H.
    apply andb_prop in B. destruct B as [B1 B2]. apply is_iface_spec in B1. constructor; assumption.
  - intros H. inv H. apply is_iface_spec in H0. rewrite H0, H1. reflexivity.
Qed.

Lemma tc_len_spec cp nocalls a r : tc_len cp nocalls a = Some r <-> Len cp nocalls a r.
Proof.
  unfold tc_len. split.
  - intros H. destruct a as [[t|k] c|?]; try discriminate.
    + destruct (underlying t) eqn:U;
        try (inv H; eapply Ln_slice; eauto; fail);
        try (destruct cp; [discriminate|]; inv H; eapply Ln_map; eauto; fail);
        (destruct (array_of t) as [[n' e']|] eqn:AO;
         [ apply array_of_spec in AO; destruct nocalls; inv H; [eapply Ln_array_const | eapply Ln_array]; eauto
         | destruct (is_string_ty t && negb cp) eqn:S; [|discriminate]; inv H;
           apply andb_prop in S; destruct S as [S1 S2]; apply is_string_ty_spec in S1;
           destruct cp; [discriminate|]; apply Ln_string; auto ]).
    + destruct k; try discriminate. destruct c; [|discriminate]. destruct cp; [discriminate|]. inv H.
      apply Ln_const_string. reflexivity.
  - intros H. inv H.
    + rewrite H0. reflexivity.
    + rewrite H1. reflexivity.
    + pose proof H0 as AO. apply array_of_spec in AO. rewrite AO.
      destruct H0 as [U|[p [U1 U2]]]; [rewrite U | rewrite U1]; reflexivity.
    + pose proof H0 as AO. apply array_of_spec in AO. rewrite AO.
      destruct H0 as [U|[p [U1 U2]]]; [rewrite U | rewrite U1]; reflexivity.
    + destruct (string_ty_under t H1) as [b U]. rewrite U, (array_of_basic t b U).
      apply is_string_ty_spec in H1. rewrite H1. reflexivity.
    + reflexivity.
Qed.

Lemma all_assign_elem_spec vs t : all_assign_elem vs t = true <-> Forall (fun v => Assignable v t) vs.
Proof.
  unfold all_assign_elem. rewrite forallb_forall, Forall_forall.
  split; intros H x I; apply assign_to_spec; apply H; assumption.
Qed.

Lemma tc_append_spec a vs r : tc_append a vs = Some r <-> Append a vs r.
Proof.
  unfold tc_append. split.
  - intros H. destruct a as [[t|k] c|?]; try discriminate.
    destruct (underlying t) eqn:U; try discriminate.
    destruct (all_assign_elem vs t0) eqn:A; [|discriminate]. inv H.
    apply all_assign_elem_spec in A. eapply Ap_slice; eauto.
  - intros H. inv H. rewrite H0. apply all_assign_elem_spec in H1. rewrite H1. reflexivity.
Qed.

Lemma tc_make_spec t vs r : tc_make t vs = Some r <-> Make t vs r.
Proof.
  unfold tc_make, size_ok. split.
  - intros H. destruct (wf_ty t) eqn:W; simpl in H; [|discriminate].
    destruct (underlying t) eqn:U; try discriminate.
    + destruct vs as [|l [|c [|? ?]]]; try discriminate.
      * destruct (index_ok l) as [z|] eqn:I; [|discriminate]. inv H. apply index_ok_spec in I. eapply Mk_slice1; eauto.
      * destruct (index_ok l) as [zl|] eqn:I; [|discriminate]. destruct (index_ok c) as [zc|] eqn:I2; [|discriminate].
        destruct (bounds_ordered zl zc) eqn:B; [|discriminate]. inv H.
        apply index_ok_spec in I. apply index_ok_spec in I2. apply bounds_ordered_spec in B. eapply Mk_slice2; eauto.
    + destruct vs as [|l [|? ?]]; try discriminate.
      * inv H. eapply Mk_map0; eauto.
      * destruct (index_ok l) as [z|] eqn:I; [|discriminate]. inv H. apply index_ok_spec in I. eapply Mk_map1; eauto.
  - intros H. inv H; rewrite H0; simpl; rewrite H1.
    + rw_idx. reflexivity.
    + apply index_ok_spec in H2. apply index_ok_spec in H3. apply bounds_ordered_spec in H4. rewrite H2, H3, H4. reflexivity.
    + reflexivity.
    + rw_idx. reflexivity.
Qed.

Lemma tc_copy_spec d a r : tc_copy d a = Some r <-> Copy d a r.
Proof.
  unfold tc_copy. split.
  - intros H. destruct d as [[td|k] cd|?]; try discriminate.
    destruct (underlying td) eqn:U; try discriminate.
    destruct a as [[ts|k] cs|?]; try discriminate.
    + destruct (underlying ts) eqn:US;
        try (destruct (is_string_ty ts && ty_eqb (underlying t) (TBasic BUint8)) eqn:B; [|discriminate]; inv H;
             apply andb_prop in B; destruct B as [B1 B2]; apply is_string_ty_spec in B1; apply ty_eqb_spec in B2;
             eapply Cp_string; eauto; fail).
      destruct (ty_eqb t t0) eqn:Q; [|discriminate]. inv H. apply ty_eqb_spec in Q. subst.
      eapply Cp_slices; eauto.
    + destruct k; try discriminate. destruct cs; [|discriminate].
      destruct (ty_eqb (underlying t) (TBasic BUint8)) eqn:B; [|discriminate]. inv H. apply ty_eqb_spec in B.
      eapply Cp_const_string; eauto.
  - intros H. inv H.
    + rewrite H0, H1, ty_eqb_refl. reflexivity.
    + rewrite H0. destruct (string_ty_under ts H2) as [b U]. rewrite U.
      apply is_string_ty_spec in H2. rewrite H2, H1. reflexivity.
    + rewrite H0, H1. reflexivity.
Qed.

Lemma tc_delete_spec m k r : tc_delete m k = Some r <-> Delete m k r.
Proof.
  unfold tc_delete. split.
  - intros H. destruct m as [[t|k0] c|?]; try discriminate.
    destruct (underlying t) eqn:U; try discriminate.
    destruct (assign_to k t0_1) eqn:A; [|discriminate]. inv H. apply assign_to_spec in A. eapply Dl_map; eauto.
  - intros H. inv H. rewrite H0. apply assign_to_spec in H1. rewrite H1. reflexivity.
Qed.

(* ---------------------------------------------------------- composite literals *)

Lemma memZ_spec z l : memZ z l = true <-> In z l.
Proof.
  unfold memZ. rewrite existsb_exists. split.
  - intros [y [H1 H2]]. apply Z.eqb_eq in H2. subst. assumption.
  - intros H. exists z. split; [assumption|apply Z.eqb_refl].
Qed.

Lemma memZ_false z l : memZ z l = false <-> ~ In z l.
Proof.
  split.
  - intros H I. apply memZ_spec in I. congruence.
  - intros H. destruct (memZ z l) eqn:E; [|reflexivity]. apply memZ_spec in E. contradiction.
Qed.

Lemma memQ_false q l : memQ q l = false <-> (forall q2, In q2 l -> ~ Qeq q q2).
Proof.
  unfold memQ. split.
  - intros H q2 I E. assert (X : existsb (Qeq_bool q) l = true).
    { apply existsb_exists. exists q2. split; [assumption | apply Qeq_bool_iff; assumption]. }
    congruence.
  - intros H. destruct (existsb (Qeq_bool q) l) eqn:E; [|reflexivity].
    apply existsb_exists in E. destruct E as [q2 [I Q]]. apply Qeq_bool_iff in Q. exfalso. eapply H; eauto.
Qed.

Lemma below_bound_pos cur bound :
  in_bound (Some cur) (match bound with Some n => n | None => cur + 1 end) false = true <-> BelowBound cur bound.
Proof.
  unfold BelowBound. destruct bound as [n|]; simpl; rewrite Z.ltb_lt; [tauto|]. split; intros; [exact I|lia].
Qed.

(* rewrite the boolean form of every decidable premise in the context *)
Ltac rwb := repeat match goal with
  | X : (0 <= _)%Z |- _ => apply Z.leb_le in X; rewrite X; clear X
  | X : ~ In _ _ |- _ => apply memZ_false in X; rewrite X; clear X
  | X : Assignable _ _ |- _ => apply assign_to_spec in X; rewrite X; clear X
  | X : nth_error _ _ = _ |- _ => rewrite X; clear X
  | X : const_num _ = _ |- _ => rewrite X; clear X
  | X : BelowBound _ _ |- _ => apply below_bound_pos in X; rewrite X; clear X
  | X : forall q2, In q2 _ -> ~ Qeq _ q2 |- _ => rewrite (proj2 (memQ_false _ _) X); clear X
  end.

Lemma lit_struct_pos_spec fs its : lit_struct_pos fs its = true <-> LitStructPos fs its.
Proof.
  revert its. induction fs as [|f fs IH]; intros [|[v|z v|k v] its]; simpl; split; intros H;
    try discriminate; try constructor; try (inv H; fail).
  - apply andb_prop in H. destruct H. apply assign_to_spec. assumption.
  - apply andb_prop in H. destruct H. apply IH. assumption.
  - inv H. apply andb_true_intro. split; [apply assign_to_spec | apply IH]; assumption.
Qed.

Lemma lit_struct_pos_all_pos fs its : LitStructPos fs its -> all_pos its = true.
Proof. induction 1; simpl; auto. Qed.

Lemma lit_struct_key_spec fs its : forall seen, lit_struct_key fs seen its = true <-> LitStructKey fs seen its.
Proof.
  induction its as [|[v|z v|k v] its IH]; intros seen; simpl; split; intros H;
    try discriminate; try constructor; try (inv H; fail).
  - apply andb_prop in H. destruct H as [H H4]. apply andb_prop in H. destruct H as [H H3].
    apply andb_prop in H. destruct H as [H1 H2].
    destruct (nth_error fs (Z.to_nat z)) as [f|] eqn:NE; [|discriminate].
    apply Z.leb_le in H1. apply negb_true_iff in H2. apply memZ_false in H2.
    apply assign_to_spec in H3. apply IH in H4. eapply LSK_cons; eauto.
  - inv H. match goal with X : LitStructKey _ _ _ |- _ => apply IH in X; rewrite X end. rwb. reflexivity.
Qed.

Lemma lit_struct_key_not_all_pos fs seen its : its <> [] -> LitStructKey fs seen its -> all_pos its = false.
Proof. intros NE H. inv H; [contradiction|reflexivity]. Qed.

Lemma lit_elems_spec bound e its : forall cur seen, lit_elems bound e cur seen its = true <-> LitElems bound e cur seen its.
Proof.
  induction its as [|[v|z v|k v] its IH]; intros cur seen; cbn [lit_elems]; split; intros H;
    try discriminate; try (constructor; fail); try (inv H; fail).
  - apply andb_prop in H. destruct H as [H H4]. apply andb_prop in H. destruct H as [H H3].
    apply andb_prop in H. destruct H as [H1 H2].
    apply below_bound_pos in H1. apply negb_true_iff in H2. apply memZ_false in H2.
    apply assign_to_spec in H3. apply IH in H4. apply LE_pos; assumption.
  - inv H. match goal with X : LitElems _ _ _ _ _ |- _ => apply IH in X; rewrite X end. rwb. reflexivity.
  - apply andb_prop in H. destruct H as [H H5]. apply andb_prop in H. destruct H as [H H4].
    apply andb_prop in H. destruct H as [H H3]. apply andb_prop in H. destruct H as [H1 H2].
    apply Z.leb_le in H1. apply below_bound_pos in H2. apply negb_true_iff in H3. apply memZ_false in H3.
    apply assign_to_spec in H4. apply IH in H5. apply LE_idx; assumption.
  - inv H. match goal with X : LitElems _ _ _ _ _ |- _ => apply IH in X; rewrite X end. rwb. reflexivity.
Qed.

Lemma lit_map_spec k v its : forall seen, lit_map k v seen its = true <-> LitMap k v seen its.
Proof.
  induction its as [|[x|z x|tk tv] its IH]; intros seen; cbn [lit_map]; split; intros H;
    try discriminate; try (constructor; fail); try (inv H; fail).
  - apply andb_prop in H. destruct H as [H H3]. apply andb_prop in H. destruct H as [H1 H2].
    apply assign_to_spec in H1. apply assign_to_spec in H2.
    destruct (const_num tk) as [q|] eqn:CN.
    + apply andb_prop in H3. destruct H3 as [H3 H4]. apply negb_true_iff in H3. pose proof (proj1 (memQ_false _ _) H3) as H3'.
      apply IH in H4. eapply LM_const; eauto.
    + apply IH in H3. apply LM_other; assumption.
  - inv H; rwb; match goal with X : LitMap _ _ _ _ |- _ => apply IH in X; rewrite X end; reflexivity.
Qed.

Lemma tc_complit_spec t its r : tc_complit t its = Some r <-> CompLit t its r.
Proof.
  unfold tc_complit. split.
  - intros H. destruct (wf_ty t) eqn:W; simpl in H; [|discriminate].
    destruct (underlying t) eqn:U; try discriminate.
    + destruct (lit_elems None t0 0 [] its) eqn:L; [|discriminate]. inv H.
      apply lit_elems_spec in L. eapply CL_slice; eauto.
    + destruct (lit_elems (Some n) t0 0 [] its) eqn:L; [|discriminate]. inv H.
      apply lit_elems_spec in L. eapply CL_array; eauto.
    + destruct (lit_map t0_1 t0_2 [] its) eqn:L; [|discriminate]. inv H.
      apply lit_map_spec in L. eapply CL_map; eauto.
    + destruct its as [|it its].
      * inv H. eapply CL_struct_empty; eauto.
      * destruct (all_pos (it :: its)) eqn:AP.
        -- destruct (lit_struct_pos fs (it :: its)) eqn:L; [|discriminate]. inv H.
           apply lit_struct_pos_spec in L. eapply CL_struct_pos; eauto. discriminate.
        -- destruct (lit_struct_key fs [] (it :: its)) eqn:L; [|discriminate]. inv H.
           apply lit_struct_key_spec in L. eapply CL_struct_key; eauto. discriminate.
  - intros H. inv H; rewrite H0; simpl; rewrite H1.
    + reflexivity.
    + destruct its as [|it its]; [contradiction|]. rewrite (lit_struct_pos_all_pos _ _ H3).
      apply lit_struct_pos_spec in H3. rewrite H3. reflexivity.
    + destruct its as [|it its]; [contradiction|]. rewrite (lit_struct_key_not_all_pos _ _ _ H2 H3).
      apply lit_struct_key_spec in H3. rewrite H3. reflexivity.
    + apply lit_elems_spec in H2. rewrite H2. reflexivity.
    + apply lit_elems_spec in H2. rewrite H2. reflexivity.
    + apply lit_map_spec in H2. rewrite H2. reflexivity.
Qed.

(* --------------------------------------------------------------- expressions *)

Scheme expr_mut := Induction for expr Sort Prop
  with exprs_mut := Induction for exprs Sort Prop
  with elts_mut := Induction for elts Sort Prop.
Combined Scheme expr_exprs_elts_ind from expr_mut, exprs_mut, elts_mut.

Lemma args_ok_spec tas ps : args_ok tas ps = true <-> Forall2 Assignable tas ps.
Proof.
  revert ps. induction tas as [|a tas IH]; intros [|p ps]; simpl; split; intros H;
    try discriminate; try constructor; try (inv H; fail).
  - apply andb_prop in H. destruct H as [H1 H2]. apply assign_to_spec. assumption.
  - apply andb_prop in H. destruct H as [H1 H2]. apply IH. assumption.
  - inv H. apply andb_true_intro. split; [apply assign_to_spec; assumption | apply IH; assumption].
Qed.

Notation expr_P G E e :=
  ((forall te, tc_expr G E e = Some te <-> has_type G E e te) /\
   (addressable G E e = true <-> Addressable G E e)).
Notation exprs_P G E es := (forall tes, tc_exprs G E es = Some tes <-> has_types G E es tes).
Notation elts_P G E l := (forall its, tc_elts G E l = Some its <-> has_items G E l its).

(* premises of the typing rules from the induction hypotheses *)
Ltac solve_ht := match goal with
  | IH : (forall te, _ <-> has_type ?G ?E ?a te) /\ _ |- has_type ?G ?E ?a _ => apply (proj1 IH); first [assumption | reflexivity]
  | IH : forall tes, _ <-> has_types ?G ?E ?a tes |- has_types ?G ?E ?a _ => apply IH; first [assumption | reflexivity]
  | IH : forall its, _ <-> has_items ?G ?E ?a its |- has_items ?G ?E ?a _ => apply IH; first [assumption | reflexivity]
  end.

(* the checker on the parts, from the premises of an inverted rule *)
Ltac use_ih := repeat match goal with
  | IH : expr_P ?G ?E ?a, Hx : has_type ?G ?E ?a _ |- _ => rewrite (proj2 (proj1 IH _) Hx); clear Hx
  | IH : exprs_P ?G ?E ?a, Hx : has_types ?G ?E ?a _ |- _ => rewrite (proj2 (IH _) Hx); clear Hx
  | IH : elts_P ?G ?E ?a, Hx : has_items ?G ?E ?a _ |- _ => rewrite (proj2 (IH _) Hx); clear Hx
  end.

Ltac dex H a := let A := fresh "A" in destruct (tc_expr _ _ a) eqn:A; [|discriminate H].
Ltac no_addr := split; intros X; [discriminate X | inv X].

Lemma has_bound_spec G E e (IH : expr_P G E e) z :
  match e with EOmit => Some None | _ => match tc_expr G E e with Some t => index_ok t | None => None end end = Some z
  <-> has_bound G E e z.
Proof.
  split.
  - intros H. destruct (is_omit e) eqn:O.
    + destruct e; try discriminate. inv H. constructor.
    + assert (H2 : match tc_expr G E e with Some t => index_ok t | None => None end = Some z)
        by (destruct e; try exact H; discriminate).
      destruct (tc_expr G E e) as [te|] eqn:A; [|discriminate].
      apply index_ok_spec in H2. eapply TB_index; [assumption | apply (proj1 IH); reflexivity | assumption].
  - intros H. inv H; [reflexivity|].
    apply (proj1 IH) in H1. apply index_ok_spec in H2.
    destruct e; try discriminate; rewrite H1; exact H2.
Qed.

Lemma tc_expr_all G E :
  (forall e, expr_P G E e) /\ (forall es, exprs_P G E es) /\ (forall l, elts_P G E l).
Proof.
  apply expr_exprs_elts_ind.
  - (* ELitB *) intros. split; [|no_addr]. intros te; simpl; split; intros H; inv H; constructor.
  - intros. split; [|no_addr]. intros te; simpl; split; intros H; inv H; constructor.
  - intros. split; [|no_addr]. intros te; simpl; split; intros H; inv H; constructor.
  - intros. split; [|no_addr]. intros te; simpl; split; intros H; inv H; constructor.
  - intros. split; [|no_addr]. intros te; simpl; split; intros H; inv H; constructor.
  - (* ENilE *) intros. split; [|no_addr]. intros te; simpl; split; intros H; inv H; constructor.
  - (* EVar *) intros x. split.
    + intros te; simpl; split; intros H.
      * destruct (N.eqb_spec x blank) as [B|B]; [discriminate|].
        destruct (lookup E x) as [[t|c|ps rs]|] eqn:L; try discriminate; inv H;
          [apply T_Var | apply T_Const | apply T_FuncVal]; assumption.
      * inv H; (destruct (N.eqb_spec x blank) as [B|B]; [contradiction|]);
          match goal with L : lookup _ _ = _ |- _ => rewrite L end; reflexivity.
    + simpl. split; intros H.
      * destruct (N.eqb_spec x blank) as [B|B]; [discriminate|].
        destruct (lookup E x) as [[t|c|ps rs]|] eqn:L; try discriminate. eapply Ad_var; eauto.
      * inv H. destruct (N.eqb_spec x blank) as [B|B]; [contradiction|]. rewrite H2. reflexivity.
  - (* EUn *) intros o a IHa. split; [|no_addr]. intros te; simpl; split; intros H.
    + dex H a. eapply T_Un; [solve_ht | apply tc_unary_sound; assumption].
    + inv H. use_ih. apply tc_unary_complete. assumption.
  - (* EBin *) intros o a IHa b IHb. split; [|no_addr]. intros te; simpl; split; intros H.
    + dex H a. dex H b. eapply T_Bin; [solve_ht | solve_ht | apply tc_binary_sound; assumption].
    + inv H. use_ih. apply tc_binary_complete. assumption.
  - (* EConv *) intros t a IHa. split; [|no_addr]. intros te; simpl; split; intros H.
    + destruct (wf_ty t) eqn:W; simpl in H; [|discriminate]. dex H a.
      eapply T_Conv; [assumption | solve_ht | apply tc_convert_sound; assumption].
    + inv H. match goal with W : wf_ty _ = true |- _ => rewrite W end. simpl. use_ih. apply tc_convert_complete. assumption.
  - (* ECall *) intros f args IHargs. split; [|no_addr]. intros te; simpl; split; intros H.
    + destruct (lookup E f) as [[t|c|ps rs]|] eqn:L; try discriminate.
      * destruct (tc_exprs G E args) as [tas|] eqn:A; [|discriminate].
        destruct (underlying t) eqn:U; try discriminate.
        destruct (args_ok tas ps) eqn:O; [|discriminate]. inv H.
        eapply T_CallVar; [eassumption | eassumption | solve_ht | apply args_ok_spec; assumption].
      * destruct (tc_exprs G E args) as [tas|] eqn:A; [|discriminate].
        destruct (args_ok tas ps) eqn:O; [|discriminate]. inv H.
        eapply T_Call; [eassumption | solve_ht | apply args_ok_spec; assumption].
    + inv H; use_ih; match goal with L : lookup _ _ = _ |- _ => rewrite L end;
        try match goal with U : underlying _ = _ |- _ => rewrite U end;
        match goal with A : Forall2 _ _ _ |- _ => apply args_ok_spec in A; rewrite A end; reflexivity.
  - (* EPkg *) intros p f args IHargs. split; [|no_addr]. intros te; simpl; split; intros H.
    + destruct (memN p G) eqn:M; simpl in H; [|discriminate]. apply memN_spec in M.
      destruct (pkg_sig p f) as [[ps rs]|] eqn:S; [|discriminate].
      destruct (tc_exprs G E args) as [tas|] eqn:A; [|discriminate].
      destruct (args_ok tas ps) eqn:O; [|discriminate]. inv H.
      eapply T_Pkg; [assumption | eassumption | solve_ht | apply args_ok_spec; assumption].
    + inv H. use_ih. match goal with M : In _ _ |- _ => apply memN_spec in M; rewrite M end. simpl.
      match goal with L : pkg_sig _ _ = _ |- _ => rewrite L end.
      match goal with A : Forall2 _ _ _ |- _ => apply args_ok_spec in A; rewrite A end. reflexivity.
  - (* ECompLit *) intros t els IHels. split; [|no_addr]. intros te; simpl; split; intros H.
    + destruct (tc_elts G E els) as [its|] eqn:A; [|discriminate].
      eapply T_CompLit; [solve_ht | apply tc_complit_spec; assumption].
    + inv H. use_ih. apply tc_complit_spec. assumption.
  - (* EIndex *) intros a IHa i IHi. split.
    + intros te; simpl; split; intros H.
      * dex H a. dex H i. eapply T_Index; [solve_ht | solve_ht | apply tc_index_spec; assumption].
      * inv H. use_ih. apply tc_index_spec. assumption.
    + simpl. split; intros H.
      * destruct (tc_expr G E a) as [[[t|k] c|?]|] eqn:A; try discriminate.
        assert (HT : has_type G E a (EVal (VT t) c)) by (apply (proj1 IHa); reflexivity).
        destruct (underlying t) eqn:U; try discriminate.
        -- eapply Ad_index_ptr; eauto.
        -- eapply Ad_index_slice; eauto.
        -- eapply Ad_index_array; eauto. apply (proj2 IHa). assumption.
      * inv H; match goal with X : has_type _ _ a _ |- _ => apply (proj1 IHa) in X; rewrite X end;
          match goal with U : underlying _ = _ |- _ => rewrite U end; try reflexivity.
        apply (proj2 IHa). assumption.
  - (* ESliceE *) intros a IHa lo IHlo hi IHhi. split; [|no_addr]. intros te; cbn [tc_expr]; split; intros H.
    + dex H a.
      destruct (match lo with EOmit => Some None | _ => match tc_expr G E lo with Some t => index_ok t | None => None end end)
        as [zl|] eqn:L; [|discriminate].
      destruct (match hi with EOmit => Some None | _ => match tc_expr G E hi with Some t => index_ok t | None => None end end)
        as [zh|] eqn:Hh; [|discriminate].
      apply (has_bound_spec G E lo IHlo) in L. apply (has_bound_spec G E hi IHhi) in Hh.
      eapply T_Slice; [solve_ht | eassumption | eassumption |].
      apply (tc_slice_spec _ _ _ _ _ _ (proj2 IHa)). assumption.
    + inv H. use_ih.
      match goal with X : has_bound _ _ lo _ |- _ => apply (has_bound_spec G E lo IHlo) in X; rewrite X end.
      match goal with X : has_bound _ _ hi _ |- _ => apply (has_bound_spec G E hi IHhi) in X; rewrite X end.
      apply (tc_slice_spec _ _ _ _ _ _ (proj2 IHa)). assumption.
  - (* EOmit *) split; [|no_addr]. intros te; simpl; split; intros H; [discriminate | inv H].
  - (* EAddr *) intros a IHa. split; [|no_addr]. intros te; simpl; split; intros H.
    + dex H a. unfold tc_addr in H. destruct e as [[t|k] c|?]; try discriminate.
      destruct (addressable G E a || is_complit a) eqn:AD; [|discriminate]. inv H.
      eapply T_Addr; [solve_ht|]. apply orb_prop in AD. destruct AD as [AD|AD]; [left; apply (proj2 IHa) | right]; assumption.
    + inv H. use_ih. unfold tc_addr.
      assert (AD : addressable G E a || is_complit a = true).
      { match goal with X : _ \/ _ |- _ => destruct X as [AD|AD] end;
          [apply (proj2 IHa) in AD; rewrite AD; reflexivity | rewrite AD; apply orb_true_r]. }
      rewrite AD. reflexivity.
  - (* EDeref *) intros a IHa. split.
    + intros te; simpl; split; intros H.
      * dex H a. eapply T_Deref; [solve_ht | apply tc_deref_spec; assumption].
      * inv H. use_ih. apply tc_deref_spec. assumption.
    + simpl. split; intros; [constructor | reflexivity].
  - (* ESel *) intros a IHa i. split.
    + intros te; simpl; split; intros H.
      * dex H a. eapply T_Sel; [solve_ht | apply tc_sel_spec; assumption].
      * inv H. use_ih. apply tc_sel_spec. assumption.
    + simpl. split; intros H.
      * destruct (tc_expr G E a) as [[[t|k] c|?]|] eqn:A; try discriminate.
        assert (HT : has_type G E a (EVal (VT t) c)) by (apply (proj1 IHa); reflexivity).
        destruct (underlying t) eqn:U;
          try (eapply Ad_sel_struct; [eassumption | intros p0; rewrite U; discriminate | apply (proj2 IHa); assumption]; fail).
        eapply Ad_sel_ptr; eauto.
      * inv H; match goal with X : has_type _ _ a _ |- _ => apply (proj1 IHa) in X; rewrite X end.
        -- match goal with U : underlying _ = _ |- _ => rewrite U end. reflexivity.
        -- match goal with X : Addressable _ _ a |- _ => apply (proj2 IHa) in X end.
           destruct (underlying t) eqn:U; try assumption.
           exfalso. match goal with X : forall p, _ <> TPtr p |- _ => eapply X; reflexivity end.
  - (* ELen *) intros a IHa. split; [|no_addr]. intros te; simpl; split; intros H.
    + dex H a. eapply T_Len; [solve_ht | apply tc_len_spec; assumption].
    + inv H. use_ih. apply tc_len_spec. assumption.
  - (* ECap *) intros a IHa. split; [|no_addr]. intros te; simpl; split; intros H.
    + dex H a. eapply T_Cap; [solve_ht | apply tc_len_spec; assumption].
    + inv H. use_ih. apply tc_len_spec. assumption.
  - (* EAppend *) intros a IHa args IHargs. split; [|no_addr]. intros te; simpl; split; intros H.
    + dex H a. destruct (tc_exprs G E args) as [tas|] eqn:B; [|discriminate].
      eapply T_Append; [solve_ht | solve_ht | apply tc_append_spec; assumption].
    + inv H. use_ih. apply tc_append_spec. assumption.
  - (* EMake *) intros t args IHargs. split; [|no_addr]. intros te; simpl; split; intros H.
    + destruct (tc_exprs G E args) as [tas|] eqn:B; [|discriminate].
      eapply T_Make; [solve_ht | apply tc_make_spec; assumption].
    + inv H. use_ih. apply tc_make_spec. assumption.
  - (* ENew *) intros t. split; [|no_addr]. intros te; simpl; unfold tc_new; split; intros H.
    + destruct (wf_ty t) eqn:W; [|discriminate]. inv H. constructor. assumption.
    + inv H. match goal with W : wf_ty _ = true |- _ => rewrite W end. reflexivity.
  - (* ECopy *) intros d IHd a IHa. split; [|no_addr]. intros te; simpl; split; intros H.
    + dex H d. dex H a. eapply T_Copy; [solve_ht | solve_ht | apply tc_copy_spec; assumption].
    + inv H. use_ih. apply tc_copy_spec. assumption.
  - (* EDelete *) intros m IHm k IHk. split; [|no_addr]. intros te; simpl; split; intros H.
    + dex H m. dex H k. eapply T_Delete; [solve_ht | solve_ht | apply tc_delete_spec; assumption].
    + inv H. use_ih. apply tc_delete_spec. assumption.
  - (* EAssert *) intros a IHa t. split; [|no_addr]. intros te; simpl; split; intros H.
    + dex H a. eapply T_Assert; [solve_ht | apply tc_assert_spec; assumption].
    + inv H. use_ih. apply tc_assert_spec. assumption.
  - (* ENone *) intros tes; simpl; split; intros H; inv H; constructor.
  - (* ECons *) intros e IHe r IHr tes; simpl; split; intros H.
    + dex H e. destruct (tc_exprs G E r) as [ts|] eqn:B; [|discriminate]. inv H. constructor; solve_ht.
    + inv H. use_ih. reflexivity.
  - (* LNil *) intros its; simpl; split; intros H; inv H; constructor.
  - (* LPos *) intros e IHe r IHr its; simpl; split; intros H.
    + dex H e. destruct (tc_elts G E r) as [ts|] eqn:B; [|discriminate]. inv H. constructor; solve_ht.
    + inv H. use_ih. reflexivity.
  - (* LIdx *) intros z e IHe r IHr its; simpl; split; intros H.
    + dex H e. destruct (tc_elts G E r) as [ts|] eqn:B; [|discriminate]. inv H. constructor; solve_ht.
    + inv H. use_ih. reflexivity.
  - (* LKey *) intros k IHk e IHe r IHr its; simpl; split; intros H.
    + dex H k. dex H e. destruct (tc_elts G E r) as [ts|] eqn:B; [|discriminate]. inv H. constructor; solve_ht.
    + inv H. use_ih. reflexivity.
Qed.

Lemma tc_expr_sound G E :
  (forall e te, tc_expr G E e = Some te -> has_type G E e te) /\
  (forall es tes, tc_exprs G E es = Some tes -> has_types G E es tes).
Proof.
  destruct (tc_expr_all G E) as [H1 [H2 _]]. split.
  - intros e te. apply (proj1 (H1 e)).
  - intros es tes. apply H2.
Qed.

Lemma tc_expr_complete G E :
  (forall e te, has_type G E e te -> tc_expr G E e = Some te) /\
  (forall es tes, has_types G E es tes -> tc_exprs G E es = Some tes).
Proof.
  destruct (tc_expr_all G E) as [H1 [H2 _]]. split.
  - intros e te. apply (proj1 (H1 e)).
  - intros es tes. apply H2.
Qed.

Theorem tc_expr_iff G E e te : tc_expr G E e = Some te <-> has_type G E e te.
Proof. apply (tc_expr_all G E). Qed.

Theorem tc_exprs_iff G E es tes : tc_exprs G E es = Some tes <-> has_types G E es tes.
Proof. apply (tc_expr_all G E). Qed.

Theorem addressable_iff G E e : addressable G E e = true <-> Addressable G E e.
Proof. apply (tc_expr_all G E). Qed.

(* ---------------------------------------------------------------- statements *)

Scheme stmt_mut := Induction for stmt Sort Prop
  with block_mut := Induction for block Sort Prop
  with clauses_mut := Induction for clauses Sort Prop.
Combined Scheme stmt_block_clauses_ind from stmt_mut, block_mut, clauses_mut.

Lemma nodup_names_spec xs : nodup_names xs = true <-> NoDupNames xs.
Proof.
  induction xs as [|x r IH]; simpl; split; intros H.
  - constructor.
  - reflexivity.
  - apply andb_prop in H. destruct H as [H1 H2]. apply IH in H2.
    destruct (N.eqb_spec x blank) as [B|B].
    + subst. constructor. assumption.
    + simpl in H1. apply ND_cons; [assumption| |assumption].
      intros I. apply memN_spec in I. rewrite I in H1. discriminate.
  - inv H.
    + rewrite N.eqb_refl. simpl. apply IH. assumption.
    + apply andb_true_intro. split; [|apply IH; assumption].
      apply orb_true_intro. right. destruct (memN x r) eqn:M; [|reflexivity].
      apply memN_spec in M. contradiction.
Qed.

Lemma in_head_spec E x : in_head E x = true <-> InHead E x.
Proof.
  unfold in_head, InHead. destruct (scope_get (head_scope E) x) as [e|]; split; intros H; eauto; try discriminate.
  destruct H as [e H]. discriminate.
Qed.

Lemma in_head_false E x : in_head E x = false <-> ~ InHead E x.
Proof.
  split.
  - intros H I. apply in_head_spec in I. congruence.
  - intros H. destruct (in_head E x) eqn:I; [|reflexivity]. apply in_head_spec in I. contradiction.
Qed.

Lemma all_fresh_spec E xs :
  all_fresh E xs = true <-> (forall x, In x xs -> x <> blank -> ~ InHead E x).
Proof.
  unfold all_fresh. rewrite forallb_forall. split.
  - intros H x I B. specialize (H x I). apply orb_prop in H. destruct H as [H|H].
    + apply N.eqb_eq in H. contradiction.
    + apply in_head_false. destruct (in_head E x); [discriminate|reflexivity].
  - intros H x I. destruct (N.eqb_spec x blank) as [B|B]; [reflexivity|]. simpl.
    specialize (H x I B). apply in_head_false in H. rewrite H. reflexivity.
Qed.

Definition is_val (v : etype) : bool := match v with EVal _ _ => true | ETuple _ => false end.

Lemma forallb_is_val_map ts : forallb is_val (map (fun t => EVal (VT t) None) ts) = true.
Proof. induction ts; simpl; auto. Qed.

Lemma forallb_is_val_spec l : forallb is_val l = true <-> Forall (fun te => exists v c, te = EVal v c) l.
Proof.
  induction l as [|a l IH]; simpl; split; intros H; auto.
  - apply andb_prop in H. destruct H as [H1 H2]. constructor; [|apply IH; assumption].
    destruct a; [eauto|discriminate].
  - inv H. destruct H2 as [v [c ->]]. simpl. apply IH. assumption.
Qed.

Lemma tuple_or_values_spec tes n vs : tuple_or_values tes n = Some vs <-> Values tes n vs.
Proof.
  unfold tuple_or_values. fold is_val. split.
  - intros H.
    destruct (Nat.eqb (length (rhs_values tes)) n) eqn:L; [|discriminate]. apply Nat.eqb_eq in L.
    destruct (forallb is_val (rhs_values tes)) eqn:F; [|discriminate]. inv H.
    apply forallb_is_val_spec in F.
    destruct tes as [|[v c|ts] [|b r]]; try (apply V_each; exact F).
    simpl. rewrite map_length. apply V_call.
  - intros H. inv H.
    + simpl. rewrite map_length, Nat.eqb_refl, forallb_is_val_map. reflexivity.
    + assert (R: rhs_values vs = vs).
      { destruct vs as [|[v c|ts] [|b r]]; try reflexivity. inv H0. destruct H2 as [v [c H2]]. discriminate. }
      rewrite R, Nat.eqb_refl. apply forallb_is_val_spec in H0. rewrite H0. reflexivity.
Qed.

Lemma Values_length tes n vs : Values tes n vs -> length vs = n.
Proof. intros H. inv H; [apply map_length|reflexivity]. Qed.

Lemma all_assign_spec vs ts : all_assign vs ts = true <-> Forall2 Assignable vs ts.
Proof.
  revert ts. induction vs as [|v vs IH]; intros [|t ts]; simpl; split; intros H;
    try discriminate; try constructor; try (inv H; fail).
  - apply andb_prop in H. destruct H. apply assign_to_spec. assumption.
  - apply andb_prop in H. destruct H. apply IH. assumption.
  - inv H. apply andb_true_intro. split; [apply assign_to_spec; assumption | apply IH; assumption].
Qed.

Lemma Forall2_const_map {A B} (P : A -> ty -> Prop) (vs : list A) (xs : list B) t :
  length vs = length xs ->
  (Forall2 P vs (map (fun _ => t) xs) <-> Forall (fun v => P v t) vs).
Proof.
  revert xs. induction vs as [|v vs IH]; intros [|x xs] L; simpl in *; try discriminate; split; intros H;
    try constructor; try (inv H; assumption).
  - inv H. apply (IH xs); [congruence|assumption].
  - inv H. apply (IH xs); [congruence|assumption].
Qed.

Lemma defaults_of_spec vs ts : defaults_of vs = Some ts <-> Forall2 DefaultOf vs ts.
Proof.
  revert ts. induction vs as [|v vs IH]; intros ts; simpl; split; intros H.
  - inv H. constructor.
  - inv H. reflexivity.
  - destruct (default_of v) as [t|] eqn:D; [|discriminate].
    destruct (defaults_of vs) as [ts'|] eqn:Ds; [|discriminate]. inv H.
    constructor; [apply default_of_spec; assumption | apply IH; reflexivity].
  - inv H. apply default_of_spec in H2. rewrite H2.
    apply IH in H4. rewrite H4. reflexivity.
Qed.

Lemma assign_targets_spec E xs vs : assign_targets E xs vs = true <-> AssignTargets E xs vs.
Proof.
  revert vs. induction xs as [|x xs IH]; intros [|v vs]; simpl; split; intros H;
    try discriminate; try constructor; try (inv H; fail).
  - apply andb_prop in H. destruct H as [H1 H2]. apply IH in H2.
    destruct (N.eqb_spec x blank) as [B|B].
    + subst. destruct (default_of v) as [t|] eqn:D; [|discriminate].
      apply default_of_spec in D. eapply AT_blank; eauto.
    + destruct (lookup E x) as [[t|?|? ?]|] eqn:L; try discriminate.
      apply assign_to_spec in H1. eapply AT_var; eauto.
  - inv H.
    + rewrite N.eqb_refl.
      match goal with D : DefaultOf _ _ |- _ => apply default_of_spec in D; rewrite D end.
      simpl. apply IH. assumption.
    + destruct (N.eqb_spec x blank) as [B|B]; [contradiction|].
      match goal with L : lookup _ _ = _ |- _ => rewrite L end.
      match goal with A : Assignable _ _ |- _ => apply assign_to_spec in A; rewrite A end.
      simpl. apply IH. assumption.
Qed.

Lemma short_targets_spec E xs vs news : short_targets E xs vs = Some news <-> ShortTargets E xs vs news.
Proof.
  revert vs news. induction xs as [|x xs IH]; intros [|v vs] news; simpl; split; intros H;
    try discriminate; try (inv H; fail).
  - inv H. constructor.
  - inv H. reflexivity.
  - destruct (short_targets E xs vs) as [n0|] eqn:S; [|discriminate].
    assert (S' : ShortTargets E xs vs n0) by (apply IH; assumption).
    destruct (N.eqb_spec x blank) as [B|B].
    + subst. destruct (default_of v) as [t|] eqn:D; [|discriminate]. inv H.
      apply default_of_spec in D. eapply ST_blank; eauto.
    + destruct (scope_get (head_scope E) x) as [[t|?|? ?]|] eqn:L; try discriminate.
      * destruct (assign_to v t) eqn:A; [|discriminate]. inv H.
        apply assign_to_spec in A. eapply ST_old; eauto.
      * destruct (default_of v) as [t|] eqn:D; [|discriminate]. inv H.
        apply default_of_spec in D. eapply ST_new; eauto.
  - inv H;
      match goal with S : ShortTargets _ _ _ _ |- _ => apply IH in S; rewrite S end.
    + rewrite N.eqb_refl.
      match goal with D : DefaultOf _ _ |- _ => apply default_of_spec in D; rewrite D end. reflexivity.
    + destruct (N.eqb_spec x blank) as [B|B]; [contradiction|].
      match goal with L : scope_get _ _ = _ |- _ => rewrite L end.
      match goal with A : Assignable _ _ |- _ => apply assign_to_spec in A; rewrite A end. reflexivity.
    + destruct (N.eqb_spec x blank) as [B|B]; [contradiction|].
      match goal with L : scope_get _ _ = _ |- _ => rewrite L end.
      match goal with D : DefaultOf _ _ |- _ => apply default_of_spec in D; rewrite D end. reflexivity.
Qed.

Lemma is_bool_cond_spec e : is_bool_cond e = true <-> BoolCond e.
Proof.
  unfold is_bool_cond, BoolCond. destruct e as [v c|ts]; split; intros H.
  - apply bclass_eqb_spec in H. eauto.
  - destruct H as [v' [c' [E K]]]. inv E. apply bclass_eqb_spec. assumption.
  - discriminate.
  - destruct H as [v' [c' [E K]]]. discriminate.
Qed.

Lemma cases_ok_spec tagv tes :
  cases_ok tagv tes = true <-> Forall (fun te => exists res, Binary OEq tagv te res) tes.
Proof.
  induction tes as [|te r IH]; simpl; split; intros H; auto.
  - apply andb_prop in H. destruct H as [H1 H2]. constructor; [|apply IH; assumption].
    destruct (tc_binary OEq tagv te) as [res|] eqn:B; [|discriminate].
    exists res. apply tc_binary_sound. assumption.
  - inv H. destruct H2 as [res B]. apply tc_binary_complete in B. rewrite B. simpl. apply IH. assumption.
Qed.

Lemma decls_used_spec E s r :
  forallb (fun x => memN x (fu_block (decl_stmt (scope_names (head_scope E)) s ++ scope_names (head_scope E)) r))
          (var_decls (scope_names (head_scope E)) s) = true <-> DeclsUsed E s r.
Proof.
  unfold DeclsUsed. rewrite forallb_forall. split; intros H x I; apply memN_spec; apply H; assumption.
Qed.

Lemma some_new_spec E xs :
  forallb (fun x => N.eqb x blank || in_head E x) xs = false <->
  (exists x, In x xs /\ x <> blank /\ ~ InHead E x).
Proof.
  induction xs as [|x r IH]; simpl; split; intros H.
  - discriminate.
  - destruct H as [x [[] _]].
  - apply andb_false_iff in H. destruct H as [H|H].
    + apply orb_false_elim in H. destruct H as [H1 H2]. exists x. split; [auto|].
      split; [apply N.eqb_neq; assumption | apply in_head_false; assumption].
    + apply IH in H. destruct H as [y [I R]]. exists y. split; [right; assumption|assumption].
  - destruct H as [y [[->|I] [B F]]].
    + apply andb_false_iff. left. apply N.eqb_neq in B. apply in_head_false in F. rewrite B, F. reflexivity.
    + apply andb_false_iff. right. apply IH. exists y. auto.
Qed.

Lemma is_map_index_spec G E l : is_map_index G E l = true <-> MapIndex G E l.
Proof.
  unfold is_map_index. split.
  - intros H. destruct l; try discriminate.
    destruct (tc_expr G E l1) as [[[t|k] c|?]|] eqn:A; try discriminate. apply tc_expr_iff in A.
    destruct (underlying t) eqn:U; try discriminate. eapply MI_index; eauto.
  - intros H. inv H. apply tc_expr_iff in H0. rewrite H0, H1. reflexivity.
Qed.

Lemma range_types_spec te tk tv : range_types te = Some (tk, tv) <-> RangeTypes te tk tv.
Proof.
  unfold range_types. split.
  - intros H. destruct te as [[t|k] c|?]; try discriminate.
    + destruct (underlying t) eqn:U;
        try (inv H; eapply RT_slice; eauto; fail);
        try (inv H; eapply RT_map; eauto; fail);
        (destruct (array_of t) as [[n' e']|] eqn:AO;
         [ apply array_of_spec in AO; inv H; eapply RT_array; eauto
         | destruct (is_string_ty t) eqn:S; [|discriminate]; inv H; apply is_string_ty_spec in S; apply RT_string; assumption ]).
    + destruct k; try discriminate. destruct c; [|discriminate]. inv H. constructor.
  - intros H. inv H.
    + rewrite H0. reflexivity.
    + rewrite H0. reflexivity.
    + pose proof H0 as AO. apply array_of_spec in AO. rewrite AO.
      destruct H0 as [U|[p [U1 U2]]]; [rewrite U | rewrite U1]; reflexivity.
    + destruct (string_ty_under t H0) as [b U]. rewrite U, (array_of_basic t b U).
      apply is_string_ty_spec in H0. rewrite H0. reflexivity.
    + reflexivity.
Qed.

Ltac sinv H := match type of H with Some ?a = Some ?b => let Q := fresh in assert (Q : a = b) by congruence; clear H; subst end.

Lemma tc_stmt_sound G :
  (forall s cx E E', tc_stmt G cx E s = Some E' -> stmt_ok G cx E s E') /\
  (forall b cx E, tc_block G cx E b = true -> block_ok G cx E b) /\
  (forall cs cx E tagv, tc_clauses G cx E tagv cs = true -> clauses_ok G cx E tagv cs).
Proof.
  apply stmt_block_clauses_ind.
  - (* SVar *)
    intros xs t es cx E E' H. cbn [tc_stmt] in H.
    destruct (nodup_names xs && all_fresh E xs) eqn:NF; cbn [negb] in H; [|discriminate].
    apply andb_prop in NF. destruct NF as [ND AF].
    apply nodup_names_spec in ND. pose proof (proj1 (all_fresh_spec E xs) AF) as FR.
    destruct (match t with Some t0 => wf_ty t0 | None => true end) eqn:WF; cbn [negb] in H; [|discriminate].
    destruct xs as [|x xs']; [discriminate|].
    assert (NE : x :: xs' <> []) by discriminate.
    destruct es as [|e r].
    + destruct t as [t|]; [|discriminate]. sinv H. apply S_VarZero; assumption.
    + assert (NN : ECons e r <> ENone) by discriminate.
      assert (H' : match tc_exprs G E (ECons e r) with
                   | Some tes =>
                     match tuple_or_values tes (length (x :: xs')) with
                     | Some vs =>
                       match t with
                       | Some t0 => if all_assign vs (map (fun _ => t0) (x :: xs'))
                                    then Some (declare_vars E (x :: xs') (map (fun _ => t0) (x :: xs'))) else None
                       | None => match defaults_of vs with
                                 | Some ts => Some (declare_vars E (x :: xs') ts)
                                 | None => None
                                 end
                       end
                     | None => None
                     end
                   | None => None
                   end = Some E') by (destruct t; exact H).
      clear H. rename H' into H.
      destruct (tc_exprs G E (ECons e r)) as [tes|] eqn:TE; [|discriminate].
      apply tc_exprs_iff in TE.
      destruct (tuple_or_values tes (length (x :: xs'))) as [vs|] eqn:TV; [|discriminate].
      apply tuple_or_values_spec in TV.
      destruct t as [t|].
      * destruct (all_assign vs (map (fun _ => t) (x :: xs'))) eqn:AA; [|discriminate]. sinv H.
        apply all_assign_spec in AA. apply Forall2_const_map in AA; [|eapply Values_length; eassumption].
        eapply S_VarTyped; eassumption.
      * destruct (defaults_of vs) as [ts|] eqn:DF; [|discriminate]. sinv H.
        apply defaults_of_spec in DF. eapply S_VarInfer; eassumption.
  - (* SConst *)
    intros x t e cx E E' H. cbn [tc_stmt] in H.
    destruct (negb (N.eqb x blank) && in_head E x) eqn:F; [discriminate|].
    assert (FR : x <> blank -> ~ InHead E x).
    { intros B. apply in_head_false. destruct (N.eqb_spec x blank); [contradiction|]. exact F. }
    destruct (tc_expr G E e) as [[v [c|]|?]|] eqn:TE; try discriminate. apply tc_expr_iff in TE.
    destruct t as [t|].
    + destruct (bclass_eqb (tclass t) KComp) eqn:KC; [discriminate|].
      assert (NC : tclass t <> KComp) by (intros X; apply bclass_eqb_spec in X; congruence).
      destruct v as [t'|k].
      * destruct (ty_eqb t' t) eqn:Q; [|discriminate]. apply ty_eqb_spec in Q. subst. sinv H.
        apply S_ConstTyped; assumption.
      * destruct (conv_untyped k (Some c) t) as [r|] eqn:CU; [|discriminate].
        apply conv_untyped_spec in CU. destruct CU as [CU ->]. sinv H. eapply S_ConstConv; eauto.
    + sinv H. apply S_ConstInfer; assumption.
  - (* SShort *)
    intros xs es cx E E' H. cbn [tc_stmt] in H.
    destruct (nodup_names xs) eqn:ND; cbn [negb] in H; [|discriminate]. apply nodup_names_spec in ND.
    destruct (forallb (fun x => N.eqb x blank || in_head E x) xs) eqn:NN; [discriminate|].
    apply some_new_spec in NN.
    destruct (tc_exprs G E es) as [tes|] eqn:TE; [|discriminate]. apply tc_exprs_iff in TE.
    destruct (tuple_or_values tes (length xs)) as [vs|] eqn:TV; [|discriminate]. apply tuple_or_values_spec in TV.
    destruct (short_targets E xs vs) as [news|] eqn:ST; [|discriminate]. apply short_targets_spec in ST.
    sinv H. eapply S_Short; eassumption.
  - (* SAssign *)
    intros xs es cx E E' H. cbn [tc_stmt] in H.
    destruct xs as [|x xs']; [discriminate|].
    destruct (tc_exprs G E es) as [tes|] eqn:TE; [|discriminate]. apply tc_exprs_iff in TE.
    destruct (tuple_or_values tes (length (x :: xs'))) as [vs|] eqn:TV; [|discriminate]. apply tuple_or_values_spec in TV.
    destruct (assign_targets E (x :: xs') vs) eqn:AT; [|discriminate]. apply assign_targets_spec in AT.
    sinv H. eapply S_Assign; try eassumption. discriminate.
  - (* SOpAssign *)
    intros x o e cx E E' H. cbn [tc_stmt] in H.
    destruct (negb (is_arith o) || N.eqb x blank) eqn:F; [discriminate|].
    apply orb_false_elim in F. destruct F as [F1 F2]. apply N.eqb_neq in F2.
    unfold is_arith in F1.
    destruct (is_comparison o) eqn:C; [discriminate|]. destruct (is_logical o) eqn:L; [discriminate|].
    destruct (lookup E x) as [[t|?|? ?]|] eqn:LK; try discriminate.
    destruct (tc_expr G E e) as [te|] eqn:TE; [|discriminate]. apply tc_expr_iff in TE.
    destruct (tc_binary o (EVal (VT t) None) te) as [[[t'|?] c'|?]|] eqn:B; try discriminate.
    destruct (ty_eqb t' t) eqn:Q; [|discriminate]. apply ty_eqb_spec in Q. subst.
    apply tc_binary_sound in B. sinv H. eapply S_OpAssign; eassumption.
  - (* SIncDec *)
    intros x cx E E' H. cbn [tc_stmt] in H.
    destruct (N.eqb_spec x blank) as [B|B]; [discriminate|].
    destruct (lookup E x) as [[t|?|? ?]|] eqn:LK; try discriminate.
    destruct (is_numeric (tclass t)) eqn:N; [|discriminate]. apply is_numeric_spec in N.
    sinv H. eapply S_IncDec; eassumption.
  - (* SExpr *)
    intros e cx E E' H. cbn [tc_stmt] in H.
    destruct (is_call e) eqn:C; [|discriminate].
    destruct (tc_expr G E e) as [te|] eqn:TE; [|discriminate]. apply tc_expr_iff in TE.
    sinv H. eapply S_Expr; eassumption.
  - (* SIf *)
    intros c th IHth el IHel cx E E' H. cbn [tc_stmt] in H.
    destruct (tc_expr G E c) as [tcnd|] eqn:TE; [|discriminate]. apply tc_expr_iff in TE.
    destruct (is_bool_cond tcnd && tc_block G cx ([] :: E) th && tc_block G cx ([] :: E) el) eqn:F; [|discriminate].
    apply andb_prop in F. destruct F as [F F3]. apply andb_prop in F. destruct F as [F1 F2].
    apply is_bool_cond_spec in F1. sinv H. eapply S_If; eauto.
  - (* SFor *)
    intros c b IHb cx E E' H. cbn [tc_stmt] in H.
    destruct (tc_expr G E c) as [tcnd|] eqn:TE; [|discriminate]. apply tc_expr_iff in TE.
    destruct (is_bool_cond tcnd && tc_block G (in_loop cx) ([] :: E) b) eqn:F; [|discriminate].
    apply andb_prop in F. destruct F as [F1 F2].
    apply is_bool_cond_spec in F1. sinv H. eapply S_For; eauto.
  - (* SLoop *)
    intros b IHb cx E E' H. cbn [tc_stmt] in H.
    destruct (tc_block G (in_loop cx) ([] :: E) b) eqn:F; [|discriminate].
    sinv H. apply S_Loop; auto.
  - (* SSwitch *)
    intros tag cs IHcs d IHd cx E E' H. cbn [tc_stmt] in H.
    destruct (tc_expr G E tag) as [ttag|] eqn:TE; [|discriminate]. apply tc_expr_iff in TE.
    destruct (default_of ttag) as [t|] eqn:D; [|discriminate]. apply default_of_spec in D.
    destruct (tc_clauses G (in_switch cx) E (EVal (VT t) None) cs && tc_block G (in_switch cx) ([] :: E) d) eqn:F; [|discriminate].
    apply andb_prop in F. destruct F as [F1 F2].
    sinv H. eapply S_Switch; eauto.
  - (* SReturn *)
    intros es cx E E' H. cbn [tc_stmt] in H.
    destruct (tc_exprs G E es) as [tes|] eqn:TE; [|discriminate]. apply tc_exprs_iff in TE.
    destruct (tuple_or_values tes (length (cx_results cx))) as [vs|] eqn:TV; [|discriminate]. apply tuple_or_values_spec in TV.
    destruct (all_assign vs (cx_results cx)) eqn:AA; [|discriminate]. apply all_assign_spec in AA.
    sinv H. eapply S_Return; eassumption.
  - (* SBreak *)
    intros cx E E' H. cbn [tc_stmt] in H. destruct (cx_brk cx) eqn:B; [|discriminate]. sinv H. apply S_Break; assumption.
  - (* SContinue *)
    intros cx E E' H. cbn [tc_stmt] in H. destruct (cx_loop cx) eqn:B; [|discriminate]. sinv H. apply S_Continue; assumption.
  - (* SBlock *)
    intros b IHb cx E E' H. cbn [tc_stmt] in H.
    destruct (tc_block G cx ([] :: E) b) eqn:F; [|discriminate]. sinv H. apply S_Block; auto.
  - (* SSet *)
    intros l e cx E E' H. cbn [tc_stmt] in H.
    destruct (is_lvalue_form l) eqn:LV; cbn [negb] in H; [|discriminate].
    destruct (tc_expr G E l) as [[[t|k] c|?]|] eqn:TL; try discriminate. apply tc_expr_iff in TL.
    destruct (tc_expr G E e) as [te|] eqn:TE; [|discriminate]. apply tc_expr_iff in TE.
    destruct ((addressable G E l || is_map_index G E l) && assign_to te t) eqn:F; [|discriminate].
    apply andb_prop in F. destruct F as [F1 F2]. apply assign_to_spec in F2. sinv H.
    eapply S_Set; try eassumption.
    apply orb_prop in F1. destruct F1 as [F1|F1]; [left; apply addressable_iff; assumption | right; apply is_map_index_spec; assumption].
  - (* SRange *)
    intros k v def e b IHb cx E E' H. cbn [tc_stmt] in H.
    destruct (tc_expr G E e) as [te|] eqn:TE; [|discriminate]. apply tc_expr_iff in TE.
    destruct (range_types te) as [[tk tv]|] eqn:RT; [|discriminate]. apply range_types_spec in RT.
    destruct def.
    + destruct (nodup_names [k; v] && forallb (fun x => N.eqb x blank || memN x (fu_block [] b)) [k; v]
                && tc_block G (in_loop cx) ([] :: declare_vars ([] :: E) [k; v] [tk; tv]) b) eqn:F; [|discriminate].
      apply andb_prop in F. destruct F as [F F3]. apply andb_prop in F. destruct F as [F1 F2].
      apply nodup_names_spec in F1. rewrite forallb_forall in F2. sinv H.
      eapply S_RangeDef; eauto.
      intros x I B. specialize (F2 x I). apply orb_prop in F2. destruct F2 as [F2|F2].
      * apply N.eqb_eq in F2. contradiction.
      * apply memN_spec. assumption.
    + destruct (assign_targets E [k; v] [EVal (VT tk) None; EVal (VT tv) None] && tc_block G (in_loop cx) ([] :: E) b) eqn:F; [|discriminate].
      apply andb_prop in F. destruct F as [F1 F2]. apply assign_targets_spec in F1. sinv H.
      eapply S_RangeAssign; eauto.
  - (* BNil *)
    intros. constructor.
  - (* BCons *)
    intros s IHs r IHr cx E H. cbn [tc_block] in H.
    destruct (tc_stmt G cx E s) as [E'|] eqn:TS; [|discriminate].
    apply andb_prop in H. destruct H as [H1 H2]. apply decls_used_spec in H1.
    eapply Bk_cons; eauto.
  - (* CNil *)
    intros. constructor.
  - (* CCons *)
    intros es b IHb r IHr cx E tagv H. cbn [tc_clauses] in H.
    destruct (tc_exprs G E es) as [tes|] eqn:TE; [|discriminate]. apply tc_exprs_iff in TE.
    apply andb_prop in H. destruct H as [H H3]. apply andb_prop in H. destruct H as [H1 H2].
    apply cases_ok_spec in H1. eapply Cl_cons; eauto.
Qed.

Lemma is_arith_true o : is_comparison o = false -> is_logical o = false -> is_arith o = true.
Proof. unfold is_arith. intros -> ->. reflexivity. Qed.

Ltac rw_nodup := match goal with ND : NoDupNames _ |- _ => apply nodup_names_spec in ND; rewrite ND; clear ND end.
Ltac rw_fresh := match goal with FR : forall x, In x _ -> x <> blank -> ~ InHead _ x |- _ =>
                                 apply all_fresh_spec in FR; rewrite FR; clear FR end.
Ltac rw_wf := match goal with W : wf_ty _ = true |- _ => rewrite W; clear W end.
Ltac rw_exprs := match goal with T : has_types _ _ _ _ |- _ => apply tc_exprs_iff in T; rewrite T; clear T end.
Ltac rw_expr := match goal with T : has_type _ _ _ _ |- _ => apply tc_expr_iff in T; rewrite T; clear T end.
Ltac rw_values := match goal with V : Values _ _ _ |- _ => apply tuple_or_values_spec in V; rewrite V; clear V end.
Ltac rw_lookup := match goal with L : lookup _ _ = _ |- _ => rewrite L; clear L end.
Ltac rw_notblank := match goal with B : ?x <> blank |- _ =>
                      let Q := fresh in assert (Q : N.eqb x blank = false) by (apply N.eqb_neq; exact B); rewrite Q; clear Q end.

Lemma tc_stmt_complete G :
  (forall s cx E E', stmt_ok G cx E s E' -> tc_stmt G cx E s = Some E') /\
  (forall b cx E, block_ok G cx E b -> tc_block G cx E b = true) /\
  (forall cs cx E tagv, clauses_ok G cx E tagv cs -> tc_clauses G cx E tagv cs = true).
Proof.
  apply stmt_block_clauses_ind.
  - (* SVar *)
    intros xs t es cx E E' H.
    inv H; (destruct xs as [|x xs']; [contradiction|]).
    + cbn [tc_stmt]. rw_nodup. rw_fresh. rw_wf. reflexivity.
    + destruct es as [|e r]; [contradiction|].
      cbn [tc_stmt]. rw_nodup. rw_fresh. rw_wf. cbn [andb negb]. rw_exprs.
      match goal with V : Values _ _ _ |- _ => pose proof (Values_length _ _ _ V) as LEN end.
      rw_values.
      match goal with A : Forall _ vs |- _ =>
        apply (Forall2_const_map Assignable vs (x :: xs') t0 LEN) in A; apply all_assign_spec in A; rewrite A end.
      reflexivity.
    + destruct es as [|e r]; [contradiction|].
      cbn [tc_stmt]. rw_nodup. rw_fresh. cbn [andb negb]. rw_exprs. rw_values.
      match goal with D : Forall2 DefaultOf _ _ |- _ => apply defaults_of_spec in D; rewrite D end.
      reflexivity.
  - (* SConst *)
    intros x t e cx E E' H. cbn [tc_stmt].
    assert (FR : forall P : Prop, (x <> blank -> ~ InHead E x) -> negb (N.eqb x blank) && in_head E x = false).
    { intros _ F. destruct (N.eqb_spec x blank) as [B|B]; [reflexivity|]. apply in_head_false. auto. }
    assert (KC : forall t0, tclass t0 <> KComp -> bclass_eqb (tclass t0) KComp = false).
    { intros t0 N. destruct (bclass_eqb (tclass t0) KComp) eqn:X; [|reflexivity]. apply bclass_eqb_spec in X. contradiction. }
    inv H; (rewrite (FR True); [|assumption]); rw_expr.
    + reflexivity.
    + rewrite KC by assumption. rewrite ty_eqb_refl. reflexivity.
    + rewrite KC by assumption. match goal with C : ConvUntyped _ _ _ |- _ =>
        assert (CU : conv_untyped k (Some c) t0 = Some (EVal (VT t0) (Some c))) by (apply conv_untyped_spec; auto) end.
      rewrite CU. reflexivity.
  - (* SShort *)
    intros xs es cx E E' H. cbn [tc_stmt]. inv H. rw_nodup. cbn [negb].
    match goal with N : exists x, _ |- _ => apply some_new_spec in N; rewrite N end.
    rw_exprs. rw_values.
    match goal with S : ShortTargets _ _ _ _ |- _ => apply short_targets_spec in S; rewrite S end.
    reflexivity.
  - (* SAssign *)
    intros xs es cx E E' H. inv H. destruct xs as [|x xs']; [contradiction|]. cbn [tc_stmt].
    rw_exprs. rw_values.
    match goal with A : AssignTargets _ _ _ |- _ => apply assign_targets_spec in A; rewrite A end.
    reflexivity.
  - (* SOpAssign *)
    intros x o e cx E E' H. cbn [tc_stmt]. inv H.
    rewrite is_arith_true by assumption. rw_notblank. cbn [negb orb]. rw_lookup. rw_expr.
    match goal with B : Binary _ _ _ _ |- _ => apply tc_binary_complete in B; rewrite B end.
    rewrite ty_eqb_refl. reflexivity.
  - (* SIncDec *)
    intros x cx E E' H. cbn [tc_stmt]. inv H. rw_notblank. rw_lookup.
    match goal with N : Numeric _ |- _ => apply is_numeric_spec in N; rewrite N end. reflexivity.
  - (* SExpr *)
    intros e cx E E' H. cbn [tc_stmt]. inv H.
    match goal with C : is_call _ = true |- _ => rewrite C end. rw_expr. reflexivity.
  - (* SIf *)
    intros c th IHth el IHel cx E E' H. cbn [tc_stmt]. inv H. rw_expr.
    match goal with B : BoolCond _ |- _ => apply is_bool_cond_spec in B; rewrite B end.
    rewrite IHth by assumption. rewrite IHel by assumption. reflexivity.
  - (* SFor *)
    intros c b IHb cx E E' H. cbn [tc_stmt]. inv H. rw_expr.
    match goal with B : BoolCond _ |- _ => apply is_bool_cond_spec in B; rewrite B end.
    rewrite IHb by assumption. reflexivity.
  - (* SLoop *)
    intros b IHb cx E E' H. cbn [tc_stmt]. inv H. rewrite IHb by assumption. reflexivity.
  - (* SSwitch *)
    intros tag cs IHcs d IHd cx E E' H. cbn [tc_stmt]. inv H. rw_expr.
    match goal with D : DefaultOf _ _ |- _ => apply default_of_spec in D; rewrite D end.
    rewrite IHcs by assumption. rewrite IHd by assumption. reflexivity.
  - (* SReturn *)
    intros es cx E E' H. cbn [tc_stmt]. inv H. rw_exprs. rw_values.
    match goal with A : Forall2 Assignable _ _ |- _ => apply all_assign_spec in A; rewrite A end.
    reflexivity.
  - (* SBreak *)
    intros cx E E' H. cbn [tc_stmt]. inv H. match goal with B : cx_brk _ = true |- _ => rewrite B end. reflexivity.
  - (* SContinue *)
    intros cx E E' H. cbn [tc_stmt]. inv H. match goal with B : cx_loop _ = true |- _ => rewrite B end. reflexivity.
  - (* SBlock *)
    intros b IHb cx E E' H. cbn [tc_stmt]. inv H. rewrite IHb by assumption. reflexivity.
  - (* SSet *)
    intros l e cx E E' H. cbn [tc_stmt]. inv H.
    match goal with L : is_lvalue_form _ = true |- _ => rewrite L end. cbn [negb].
    match goal with T : has_type _ _ l _ |- _ => apply tc_expr_iff in T; rewrite T; clear T end.
    rw_expr.
    match goal with A : Assignable _ _ |- _ => apply assign_to_spec in A; rewrite A end.
    match goal with X : _ \/ _ |- _ => destruct X as [AD|AD] end.
    + apply addressable_iff in AD. rewrite AD. reflexivity.
    + apply is_map_index_spec in AD. rewrite AD, orb_true_r. reflexivity.
  - (* SRange *)
    intros k v def e b IHb cx E E' H. cbn [tc_stmt]. inv H; rw_expr;
      match goal with R : RangeTypes _ _ _ |- _ => apply range_types_spec in R; rewrite R end.
    + rw_nodup.
      match goal with U : forall x, In x [k; v] -> _ |- _ =>
        assert (F : forallb (fun x => N.eqb x blank || memN x (fu_block [] b)) [k; v] = true) end.
      { apply forallb_forall. intros x I. destruct (N.eqb_spec x blank) as [B|B]; [reflexivity|].
        simpl. apply memN_spec. auto. }
      rewrite F. rewrite IHb by assumption. reflexivity.
    + match goal with A : AssignTargets _ _ _ |- _ => apply assign_targets_spec in A; rewrite A end.
      rewrite IHb by assumption. reflexivity.
  - (* BNil *)
    intros. reflexivity.
  - (* BCons *)
    intros s IHs r IHr cx E H. cbn [tc_block]. inv H.
    match goal with S : stmt_ok _ _ _ _ _ |- _ => rewrite (IHs _ _ _ S) end.
    match goal with D : DeclsUsed _ _ _ |- _ => apply decls_used_spec in D; rewrite D end.
    apply IHr. assumption.
  - (* CNil *)
    intros. reflexivity.
  - (* CCons *)
    intros es b IHb r IHr cx E tagv H. cbn [tc_clauses]. inv H. rw_exprs.
    match goal with C : Forall _ tes |- _ => apply cases_ok_spec in C; rewrite C end.
    rewrite IHb by assumption. rewrite IHr by assumption. reflexivity.
Qed.

Theorem tc_stmt_iff G cx E s E' : tc_stmt G cx E s = Some E' <-> stmt_ok G cx E s E'.
Proof. split; [apply tc_stmt_sound | apply tc_stmt_complete]. Qed.

Theorem tc_block_iff G cx E b : tc_block G cx E b = true <-> block_ok G cx E b.
Proof. split; [apply tc_stmt_sound | apply tc_stmt_complete]. Qed.

(* ----------------------------------------------------- terminating statements *)

Lemma hb_spec :
  (forall s, hb_stmt s = true <-> BreakInStmt s) /\
  (forall b, hb_block b = true <-> BreakIn b) /\
  (forall cs : clauses, True).
Proof.
  apply stmt_block_clauses_ind; intros; auto; cbn [hb_stmt hb_block];
    try (split; intros X; [discriminate | inv X]; fail).
  - (* SIf *) split; intros X.
    + apply orb_prop in X. destruct X as [X|X]; [apply Br_then; apply H | apply Br_else; apply H0]; assumption.
    + inv X; apply orb_true_intro; [left; apply H | right; apply H0]; assumption.
  - (* SBreak *) split; intros; [constructor | reflexivity].
  - (* SBlock *) split; intros X; [apply Br_block; apply H; assumption | inv X; apply H; assumption].
  - (* BCons *) split; intros X.
    + apply orb_prop in X. destruct X as [X|X]; [apply Bi_here; apply H | apply Bi_later; apply H0]; assumption.
    + inv X; apply orb_true_intro; [left; apply H | right; apply H0]; assumption.
Qed.

Lemma hb_block_false b : hb_block b = false <-> ~ BreakIn b.
Proof.
  destruct hb_spec as [_ [H _]]. split.
  - intros E B. apply H in B. congruence.
  - intros N. destruct (hb_block b) eqn:E; [|reflexivity]. apply H in E. contradiction.
Qed.

Lemma term_spec :
  (forall s, term_stmt s = true <-> Terminating s) /\
  (forall b, term_block b = true <-> TerminatingList b) /\
  (forall cs, term_clauses cs = true <-> TerminatingClauses cs).
Proof.
  apply stmt_block_clauses_ind; intros; cbn [term_stmt term_block term_clauses];
    try (split; intros X; [discriminate | inv X]; fail).
  - (* SIf *) split; intros X.
    + apply andb_prop in X. destruct X. apply Tm_if; [apply H | apply H0]; assumption.
    + inv X. apply andb_true_intro. split; [apply H | apply H0]; assumption.
  - (* SLoop *) split; intros X.
    + apply Tm_loop. apply hb_block_false. destruct (hb_block body); [discriminate|reflexivity].
    + inv X. apply hb_block_false in H1. rewrite H1. reflexivity.
  - (* SSwitch *) split; intros X.
    + apply andb_prop in X. destruct X as [X X3]. apply andb_prop in X. destruct X as [X1 X2].
      apply Tm_switch; [apply H0; assumption | apply hb_block_false; destruct (hb_block d); [discriminate|reflexivity] | apply H; assumption].
    + inv X. apply andb_true_intro. split; [apply andb_true_intro; split|].
      * apply H0. assumption.
      * apply hb_block_false in H5. rewrite H5. reflexivity.
      * apply H. assumption.
  - (* SReturn *) split; intros; [constructor | reflexivity].
  - (* SBlock *) split; intros X; [apply Tm_block; apply H; assumption | inv X; apply H; assumption].
  - (* BCons *) destruct r as [|s' r'].
    + split; intros X; [apply Tl_last; apply H; assumption | inv X; apply H; assumption].
    + split; intros X; [apply Tl_cons; apply H0; assumption | inv X; apply H0; assumption].
  - (* CNil *) split; intros; [constructor | reflexivity].
  - (* CCons *) split; intros X.
    + apply andb_prop in X. destruct X as [X X3]. apply andb_prop in X. destruct X as [X1 X2].
      apply Tc_cons; [apply H; assumption | apply hb_block_false; destruct (hb_block b); [discriminate|reflexivity] | apply H0; assumption].
    + inv X. apply andb_true_intro. split; [apply andb_true_intro; split|].
      * apply H. assumption.
      * apply hb_block_false in H5. rewrite H5. reflexivity.
      * apply H0. assumption.
Qed.

Lemma term_block_iff b : term_block b = true <-> TerminatingList b.
Proof. apply term_spec. Qed.

(* ------------------------------------------------------------------ programs *)

Lemma tc_globals_iff G gs : forall E E', tc_globals G E gs = Some E' <-> globals_ok G E gs E'.
Proof.
  induction gs as [|g r IH]; intros E E'; cbn [tc_globals]; split; intros H.
  - inv H. constructor.
  - inv H. reflexivity.
  - destruct g as [x t e|x t e]; destruct (N.eqb_spec x blank) as [B|B]; try discriminate.
    + destruct (tc_stmt G {| cx_results := []; cx_loop := false; cx_brk := false |} E (SConst x t e)) as [E1|] eqn:S; [|discriminate].
      apply tc_stmt_iff in S. apply IH in H. eapply GO_const; eauto.
    + destruct (tc_stmt G {| cx_results := []; cx_loop := false; cx_brk := false |} E (SVar [x] t (ECons e ENone))) as [E1|] eqn:S; [|discriminate].
      apply tc_stmt_iff in S. apply IH in H. eapply GO_var; eauto.
  - inv H; (destruct (N.eqb_spec x blank) as [B|B]; [contradiction|]).
    + match goal with S : stmt_ok _ _ _ _ _ |- _ => apply tc_stmt_iff in S; unfold top_ctx in S; rewrite S end.
      apply IH. assumption.
    + match goal with S : stmt_ok _ _ _ _ _ |- _ => apply tc_stmt_iff in S; unfold top_ctx in S; rewrite S end.
      apply IH. assumption.
Qed.

Lemma declare_funcs_iff fs : forall E E', declare_funcs E fs = Some E' <-> funcs_declared E fs E'.
Proof.
  induction fs as [|f r IH]; intros E E'; simpl; split; intros H.
  - inv H. constructor.
  - inv H. reflexivity.
  - destruct (N.eqb (fn_name f) blank || in_head E (fn_name f)) eqn:F; [discriminate|].
    apply orb_false_elim in F. destruct F as [F1 F2].
    apply N.eqb_neq in F1. apply in_head_false in F2. apply IH in H. constructor; assumption.
  - inv H.
    match goal with B : fn_name f <> blank |- _ => apply N.eqb_neq in B; rewrite B end.
    match goal with I : ~ InHead _ _ |- _ => apply in_head_false in I; rewrite I end.
    simpl. apply IH. assumption.
Qed.

Lemma forallb_wf_spec l : forallb wf_ty l = true <-> (forall t, In t l -> wf_ty t = true).
Proof. apply forallb_forall. Qed.

Lemma tc_func_iff G E f : tc_func G E f = true <-> func_ok G E f.
Proof.
  unfold tc_func, func_ok. split.
  - intros H. apply andb_prop in H. destruct H as [H H5]. apply andb_prop in H. destruct H as [H H4].
    apply andb_prop in H. destruct H as [H1 H3].
    apply andb_prop in H5. destruct H5 as [H5 H6].
    split; [apply nodup_names_spec; assumption|]. split; [apply forallb_wf_spec; assumption|].
    split; [apply forallb_wf_spec; assumption|]. split; [apply tc_block_iff; assumption|].
    intros NE. apply term_block_iff. destruct (fn_results f); [contradiction|assumption].
  - intros [H1 [W1 [W2 [H2 H3]]]]. apply nodup_names_spec in H1. apply tc_block_iff in H2.
    apply forallb_wf_spec in W1. apply forallb_wf_spec in W2. rewrite H1, H2, W1, W2. simpl.
    destruct (fn_results f); [reflexivity|]. apply term_block_iff. apply H3. discriminate.
Qed.

Lemma nodupN_spec l : nodupN l = true <-> NoDup l.
Proof.
  induction l as [|x r IH]; simpl; split; intros H.
  - constructor.
  - reflexivity.
  - apply andb_prop in H. destruct H as [H1 H2]. constructor; [|apply IH; assumption].
    intros I. apply memN_spec in I. rewrite I in H1. discriminate.
  - inv H. apply andb_true_intro. split; [|apply IH; assumption].
    destruct (memN x r) eqn:M; [|reflexivity]. apply memN_spec in M. contradiction.
Qed.

Theorem tc_sound p : tc p = true -> prog_ok p.
Proof.
  unfold tc, prog_ok. intros H.
  apply andb_prop in H. destruct H as [H H4]. apply andb_prop in H. destruct H as [H H3].
  apply andb_prop in H. destruct H as [H1 H2].
  rewrite forallb_forall in H1. apply nodupN_spec in H2. rewrite forallb_forall in H3.
  split; [assumption|]. split; [assumption|].
  split; [intros q I; apply memN_spec; apply H3; assumption|].
  destruct (tc_globals (p_imports p) [[]] (p_globals p)) as [E1|] eqn:TG; [|discriminate].
  destruct (declare_funcs E1 (p_funcs p)) as [E2|] eqn:DF; [|discriminate].
  apply andb_prop in H4. destruct H4 as [H5 H6]. rewrite forallb_forall in H5.
  exists E1, E2. split; [apply tc_globals_iff; assumption|]. split; [apply declare_funcs_iff; assumption|].
  split; [intros f I; apply tc_func_iff; apply H5; assumption | apply tc_func_iff; exact H6].
Qed.

Theorem tc_complete p : prog_ok p -> tc p = true.
Proof.
  unfold tc, prog_ok. intros [H1 [H2 [H3 [E1 [E2 [HG [HD [HF HM]]]]]]]].
  apply andb_true_intro. split; [apply andb_true_intro; split; [apply andb_true_intro; split|]|].
  - apply forallb_forall. assumption.
  - apply nodupN_spec. assumption.
  - apply forallb_forall. intros q I. apply memN_spec. apply H3. assumption.
  - apply tc_globals_iff in HG. rewrite HG. apply declare_funcs_iff in HD. rewrite HD.
    apply andb_true_intro. split.
    + apply forallb_forall. intros f I. apply tc_func_iff. apply HF. assumption.
    + apply tc_func_iff in HM. exact HM.
Qed.

Theorem tc_iff p : tc p = true <-> prog_ok p.
Proof. split; [apply tc_sound | apply tc_complete]. Qed.
